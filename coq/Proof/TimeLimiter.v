(* Invariants of the time-limiter model and the lemmas Props/C06.v uses. *)
From TR Require Import Lib.Base Model.TimeLimiter.

Lemma upd_same {A} (f : nat -> A) i v : upd f i v i = v.
Proof. unfold upd. rewrite Nat.eqb_refl. reflexivity. Qed.
Lemma upd_other {A} (f : nat -> A) i v j : j <> i -> upd f i v j = f j.
Proof. intros H. unfold upd. apply Nat.eqb_neq in H. rewrite H. reflexivity. Qed.
Arguments upd : simpl never.

(* the timer tick of a deadline: at or after it, less than one tick later, exact in the
   millisecond unit *)
Lemma tick_up_ge g x : x <= tick_up g x.
Proof.
  unfold tick_up. destruct (g <=? 1) eqn:E; [lia|]. apply Z.leb_gt in E.
  pose proof (Z.div_mod (x + g - 1) g ltac:(lia)).
  pose proof (Z.mod_pos_bound (x + g - 1) g ltac:(lia)). nia.
Qed.
Lemma tick_up_lt g x : tick_up g x < x + Z.max 1 g.
Proof.
  unfold tick_up. destruct (g <=? 1) eqn:E; [lia|]. apply Z.leb_gt in E.
  pose proof (Z.div_mod (x + g - 1) g ltac:(lia)).
  pose proof (Z.mod_pos_bound (x + g - 1) g ltac:(lia)). nia.
Qed.
Lemma tick_up_exact g x : g <= 1 -> tick_up g x = x.
Proof. intros H. unfold tick_up. apply Z.leb_le in H. rewrite H. reflexivity. Qed.
Lemma tick_up_mono g x y : x <= y -> tick_up g x <= tick_up g y.
Proof.
  intros H. unfold tick_up. destruct (g <=? 1) eqn:E; [lia|]. apply Z.leb_gt in E.
  apply Z.mul_le_mono_nonneg_r; [lia|]. apply Z.div_le_mono; lia.
Qed.
Arguments tick_up : simpl never.

Lemma deadline_ge c i a : a + tmo c i <= deadline c i a.
Proof. apply tick_up_ge. Qed.
Lemma deadline_lt c i a : deadline c i a < a + tmo c i + Z.max 1 (gran c).
Proof. apply tick_up_lt. Qed.
Lemma deadline_exact c i a : gran c <= 1 -> deadline c i a = a + tmo c i.
Proof. apply tick_up_exact. Qed.
Lemma deadline_mono c i a b : a <= b -> deadline c i a <= deadline c i b.
Proof. intros H. apply tick_up_mono. lia. Qed.
Arguments deadline : simpl never.

Definition Linv (c : cfg) (i : nat) (t : Z) (l : loc) : Prop :=
  (lcs l = Created -> linner l = INone /\ larrival l = None /\ lwoken l = false) /\
  (forall dl, lcs l = Active dl -> exists a, larrival l = Some a /\ dl = deadline c i a) /\
  (forall a, larrival l = Some a -> a <= t /\ lcs l <> Created) /\
  (cancel c = true -> (linner l = IRunning <-> exists dl, lcs l = Active dl)) /\
  (cancel c = false -> forall dl, lcs l = Active dl -> linner l <> INone) /\
  (cancel c = false -> linner l = IRunning -> lgate l = None) /\
  (forall o, linner l = IFinished o -> lgate l = Some o /\ o <> OPanic) /\
  (cancel c = false -> linner l = IDropped -> lgate l = Some OPanic) /\
  (lwoken l = true -> exists dl, lcs l = Active dl).

Ltac inv_solve :=
  repeat match goal with
  | |- _ /\ _ => split
  | |- _ <-> _ => split
  | |- forall _, _ => intro
  | H : exists _, _ |- _ => destruct H
  | H : _ /\ _ |- _ => destruct H
  end;
  repeat match goal with
  | H : Some _ = Some _ |- _ => injection H as H; try subst
  | H : Active _ = Active _ |- _ => injection H as H; try subst
  | H : IFinished _ = IFinished _ |- _ => injection H as H; try subst
  end;
  subst;
  try discriminate; try congruence; try lia; eauto;
  try (eexists; split; [reflexivity|congruence]);
  try (eexists; reflexivity);
  try (match goal with H : _ <-> _ |- _ => apply H; eexists; reflexivity end);
  try (match goal with H : _ -> _ <-> _ |- _ => apply H; solve [eauto] end);
  try solve [firstorder (try congruence; try lia)].

Lemma linv_init c i t : 0 <= t -> Linv c i t init_loc.
Proof. intros. unfold Linv, init_loc; cbn. inv_solve. Qed.

Lemma linv_mono c i t t' l : t <= t' -> Linv c i t l -> Linv c i t' l.
Proof.
  intros Ht (H1&H2&H3&H4&H5&H6&H7&H8&H9).
  refine (conj H1 (conj H2 (conj _ (conj H4 (conj H5 (conj H6 (conj H7 (conj H8 H9)))))))).
  intros a Ha. destruct (H3 a Ha). split; [lia|assumption].
Qed.

(* specialise the invariant's hypotheses on a concrete record *)
Ltac spec_inv :=
  repeat match goal with
  | H : ?x = ?x -> _ |- _ => specialize (H eq_refl)
  | H : forall dl, Active ?d = Active dl -> _ |- _ => specialize (H d eq_refl)
  | H : forall a, Some ?x = Some a -> _ |- _ => specialize (H x eq_refl)
  | H : forall o, IFinished ?x = IFinished o -> _ |- _ => specialize (H x eq_refl)
  | H : true = false -> _ |- _ => clear H
  | H : false = true -> _ |- _ => clear H
  | H : Created = Active _ -> _ |- _ => clear H
  end.

Ltac fin := unfold Linv; cbn; spec_inv; inv_solve.

(* impossible combinations of (future state, inner state, gate): contradiction with the invariant *)
Ltac inv_absurd :=
  exfalso; spec_inv;
  repeat match goal with
  | H : _ /\ _ |- _ => destruct H
  | H : ?a = ?a -> _ |- _ => specialize (H eq_refl)
  end;
  first [congruence | firstorder congruence].

(* the case analysis every statement about one poll goes through: the invariant prunes the
   combinations of (future state, inner-call state, gate) that cannot occur *)
Ltac poll_cases c :=
  match goal with H : Linv _ _ _ ?l |- _ =>
    let H1 := fresh "H1" in let H2 := fresh "H2" in let H3 := fresh "H3" in
    let H4 := fresh "H4" in let H5 := fresh "H5" in let H6 := fresh "H6" in
    let H7 := fresh "H7" in let H8 := fresh "H8" in let H9 := fresh "H9" in
    let cs0 := fresh "cs0" in let in0 := fresh "in0" in let g0 := fresh "g0" in
    let w0 := fresh "w0" in let a0 := fresh "a0" in let dl := fresh "dl" in
    let Ec := fresh "Ec" in let E := fresh "E" in let a := fresh "a" in let oi := fresh "oi" in
    destruct H as (H1&H2&H3&H4&H5&H6&H7&H8&H9);
    match goal with |- context [lpoll _ ?i ?t _] =>
      pose proof (deadline_ge c i t) end;
    destruct l as [cs0 in0 g0 w0 a0]; cbn in *;
    unfold lpoll, poll_cancel, poll_select, task_run, rx_state, finish_inner; cbn;
    destruct cs0 as [|dl| |]; cbn;
    [ destruct (H1 eq_refl) as (-> & -> & ->);
      destruct (cancel c) eqn:Ec; destruct g0 as [[]|]; cbn;
      try destruct (_ <=? _) eqn:E; cbn
    | destruct (H2 dl eq_refl) as (a & -> & ->);
      try match goal with |- context [deadline _ ?i a] =>
        pose proof (deadline_ge c i a) end;
      destruct (cancel c) eqn:Ec;
      [ assert (in0 = IRunning) as -> by (apply H4; eauto);
        destruct g0 as [[]|]; cbn; try destruct (_ <=? _) eqn:E; cbn
      | destruct in0 as [| |oi|]; destruct g0 as [[]|]; cbn;
        try destruct (_ <=? _) eqn:E; try destruct oi; cbn ]
    | | ]
  end.

Lemma linv_poll c i t l : Linv c i t l -> Linv c i t (fst (lpoll c i t l)).
Proof. intros H. poll_cases c; fin. Qed.

Lemma linv_drop c i t l : Linv c i t l -> Linv c i t (ldrop c l).
Proof.
  intros (H1&H2&H3&H4&H5&H6&H7&H8&H9).
  destruct l as [cs0 in0 g0 w0 a0]; cbn in *. unfold ldrop; cbn.
  destruct cs0 as [|dl| |]; cbn; try destruct (cancel c) eqn:Ec; fin.
Qed.

Lemma linv_complete c i t l o : Linv c i t l -> Linv c i t (lcomplete c l o).
Proof.
  intros (H1&H2&H3&H4&H5&H6&H7&H8&H9).
  destruct l as [cs0 in0 g0 w0 a0]; cbn in *. unfold lcomplete, task_run, finish_inner; cbn.
  destruct g0 as [g|]; [fin; fail|].
  destruct (cancel c) eqn:Ec; destruct cs0 as [|dl| |]; cbn;
    try (destruct in0 as [| |oi|]; destruct o; cbn); fin.
Qed.

Lemma linv_advance c i t t1 l : t <= t1 -> Linv c i t l -> Linv c i t1 (ladvance t t1 l).
Proof.
  intros Ht H. apply (linv_mono c i t t1) in H; [|exact Ht].
  destruct H as (H1&H2&H3&H4&H5&H6&H7&H8&H9).
  destruct l as [cs0 in0 g0 w0 a0]; cbn in *. unfold ladvance, timer_fires; cbn.
  destruct cs0 as [|dl| |]; cbn; rewrite ?Bool.orb_false_r; fin.
Qed.

(* ---------- global invariant ---------- *)
Definition Inv (c : cfg) (s : st) : Prop :=
  0 <= now s /\ forall i, Linv c i (now s) (callers s i).

Lemma callers_on_same s i l : callers (on s i l) i = l.
Proof. cbn. apply upd_same. Qed.
Lemma callers_on_other s i l j : j <> i -> callers (on s i l) j = callers s j.
Proof. intros H. cbn. apply upd_other. exact H. Qed.

Lemma step_poll c s i :
  step c s (Poll i) =
  (on s i (fst (lpoll c i (now s) (callers s i))), snd (lpoll c i (now s) (callers s i))).
Proof. cbn [step]. destruct (lpoll c i (now s) (callers s i)). reflexivity. Qed.

Lemma inv_on c s i l : Inv c s -> Linv c i (now s) l -> Inv c (on s i l).
Proof.
  intros [H0 H] Hl. split; [exact H0|]. intros j. cbn [now on].
  destruct (Nat.eq_dec j i) as [->|Hne].
  - rewrite callers_on_same. exact Hl.
  - rewrite callers_on_other by exact Hne. apply H.
Qed.

Lemma inv_init c : Inv c init.
Proof. split; [cbn; lia|]. intros i. apply linv_init. cbn. lia. Qed.

Lemma inv_step c s e : Inv c s -> Inv c (step_st c s e).
Proof.
  intros HI. unfold step_st. destruct e as [j|j|j|d|j o].
  - exact HI.
  - rewrite step_poll. cbn [fst]. apply inv_on; [exact HI|]. apply linv_poll. apply HI.
  - cbn [step fst]. apply inv_on; [exact HI|]. apply linv_drop. apply HI.
  - cbn [step fst]. destruct HI as [H0 H]. split; cbn [now callers]; [lia|].
    intros i. apply linv_advance; [lia|apply H].
  - cbn [step fst]. apply inv_on; [exact HI|]. apply linv_complete. apply HI.
Qed.

Lemma inv_run c evs : Inv c (run c evs).
Proof. unfold run. apply fold_left_inv; [apply inv_init|apply inv_step]. Qed.

Lemma linv_run c evs i : Linv c i (now (run c evs)) (callers (run c evs) i).
Proof. apply inv_run. Qed.

(* ---------- one poll, locally ---------- *)
Lemma l_no_early_timeout c i t l :
  Linv c i t l -> r (snd (lpoll c i t l)) = 3 -> lgate l <> Some OPanic ->
  exists a, larrival (fst (lpoll c i t l)) = Some a /\ a + tmo c i <= t.
Proof.
  intros H. poll_cases c; intros Hr Hg; try discriminate; try congruence;
    try (eexists; split; [reflexivity|lia]).
  all: spec_inv; try congruence; exfalso; apply Hg; auto.
Qed.

Lemma l_result c i t l o :
  Linv c i t l -> lgate l = Some o -> o <> OPanic ->
  (cancel c = true /\ (lcs l = Created \/ exists dl, lcs l = Active dl)) \/
  (cancel c = false /\ exists dl, lcs l = Active dl) ->
  snd (lpoll c i t l) = result i o /\
  lcs (fst (lpoll c i t l)) = Done /\ linner (fst (lpoll c i t l)) = IFinished o.
Proof.
  intros H. poll_cases c; intros Hg Ho Hc; try discriminate; try congruence;
    try (injection Hg as <-); try (exfalso; apply Ho; reflexivity);
    try (destruct Hc as [[Hc1 Hc2]|[Hc1 [d Hc2]]]; try discriminate;
         try (destruct Hc2 as [Hc2|[d Hc2]]; discriminate));
    spec_inv; try tauto; try congruence; auto.
  all: try inv_absurd.
Qed.

Lemma l_timeout c i t l :
  Linv c i t l -> lgate l = None ->
  (exists dl, lcs l = Active dl /\ dl <= t) \/
  (lcs l = Created /\ deadline c i t <= t) ->
  snd (lpoll c i t l) = timed_out /\ lcs (fst (lpoll c i t l)) = Done.
Proof.
  intros H. poll_cases c; intros Hg Hc; try discriminate; auto;
    try (destruct Hc as [[d [Hc1 Hc2]]|[Hc1 Hc2]]; try discriminate;
         try (injection Hc1 as <-); lia);
    spec_inv; try congruence.
  all: try (destruct Hc as [[d [Hc1 Hc2]]|[Hc1 Hc2]]; try discriminate;
         try (injection Hc1 as <-); lia).
  all: try inv_absurd.
Qed.

Lemma l_pending c i t l :
  Linv c i t l -> lgate l = None ->
  (exists dl, lcs l = Active dl /\ t < dl) \/
  (lcs l = Created /\ t < deadline c i t) ->
  snd (lpoll c i t l) = pending /\
  exists dl, lcs (fst (lpoll c i t l)) = Active dl /\ t < dl.
Proof.
  intros H. poll_cases c; intros Hg Hc; try discriminate;
    try (split; [reflexivity|eexists; split; [reflexivity|lia]]);
    try (destruct Hc as [[d [Hc1 Hc2]]|[Hc1 Hc2]]; try discriminate;
         try (injection Hc1 as <-); lia);
    spec_inv; try congruence.
  all: try inv_absurd.
Qed.

(* both the inner result and the timer are ready *)
Lemma l_tie c i t l o dl :
  Linv c i t l -> lcs l = Active dl -> lgate l = Some o -> o <> OPanic -> dl <= t ->
  snd (lpoll c i t l) = result i o /\
  lcs (fst (lpoll c i t l)) = Done.
Proof.
  intros H. poll_cases c; intros Hc Hg Ho Hd; try discriminate;
    try (injection Hc as <-); try (injection Hg as <-); try lia; auto;
    try (exfalso; apply Ho; reflexivity); spec_inv; try congruence.
  all: try inv_absurd.
Qed.

Lemma l_cancel_drop c i t l :
  Linv c i t l -> cancel c = true -> r (snd (lpoll c i t l)) = 3 ->
  linner (fst (lpoll c i t l)) = IDropped /\ lcs (fst (lpoll c i t l)) = Done.
Proof.
  intros H. poll_cases c; intros Hc Hr; try discriminate; auto.
Qed.

(* non-cancel mode: the inner call is started by the first poll and is never touched by
   polls or drops afterwards *)
Lemma l_nocancel_poll c i t l :
  Linv c i t l -> cancel c = false ->
  (lcs l = Created -> linner (fst (lpoll c i t l)) <> INone) /\
  (linner l <> INone -> linner (fst (lpoll c i t l)) = linner l).
Proof.
  intros H. poll_cases c; intros Hc; try discriminate; split; intros; cbn; try congruence; auto.
Qed.

Lemma l_nocancel_drop c l : cancel c = false -> linner (ldrop c l) = linner l.
Proof.
  intros Hc. destruct l as [cs0 in0 g0 w0 a0]. unfold ldrop; cbn. rewrite Hc.
  destruct cs0; reflexivity.
Qed.

Lemma l_advance_core t0 t1 l :
  lcs (ladvance t0 t1 l) = lcs l /\ linner (ladvance t0 t1 l) = linner l /\
  lgate (ladvance t0 t1 l) = lgate l /\ larrival (ladvance t0 t1 l) = larrival l.
Proof. destruct l. cbn. auto. Qed.

Lemma l_advance_wake t0 t1 l dl :
  lcs l = Active dl -> t0 < dl -> dl <= t1 -> lwoken (ladvance t0 t1 l) = true.
Proof.
  intros Hc H0 H1. destruct l as [cs0 in0 g0 w0 a0]; cbn in *. subst.
  unfold timer_fires; cbn.
  replace (t0 <? dl) with true by (symmetry; apply Z.ltb_lt; lia).
  replace (dl <=? t1) with true by (symmetry; apply Z.leb_le; lia).
  apply Bool.orb_true_r.
Qed.

Lemma l_complete c i t l o :
  Linv c i t l -> lgate l = None ->
  lgate (lcomplete c l o) = Some o /\ lcs (lcomplete c l o) = lcs l /\
  larrival (lcomplete c l o) = larrival l /\
  ((exists dl, lcs l = Active dl) -> lwoken (lcomplete c l o) = true) /\
  (cancel c = true -> linner (lcomplete c l o) = linner l) /\
  (cancel c = false -> linner l = IRunning ->
     linner (lcomplete c l o) = match o with OPanic => IDropped | _ => IFinished o end) /\
  (linner l <> IRunning -> linner (lcomplete c l o) = linner l).
Proof.
  intros (H1&H2&H3&H4&H5&H6&H7&H8&H9) Hg.
  destruct l as [cs0 in0 g0 w0 a0]; cbn in *. subst g0.
  unfold lcomplete, task_run, finish_inner; cbn.
  destruct (cancel c) eqn:Ec.
  - destruct cs0; cbn; repeat split; auto; try discriminate; intros [d Hd]; discriminate.
  - destruct in0 as [| |oi|]; cbn; try (destruct cs0; cbn);
      repeat split; auto; try discriminate; try congruence;
      try (intros [d Hd]; try discriminate);
      try (destruct o; reflexivity); spec_inv;
      try (exfalso; firstorder congruence).
Qed.

Lemma l_complete_noop c l o g : lgate l = Some g -> lcomplete c l o = l.
Proof. intros H. unfold lcomplete. rewrite H. reflexivity. Qed.

(* ---------- lifting to runs ---------- *)
Ltac unf := unfold cs, inner, gate, woken, arrival in *.

Lemma step_st_poll c s i :
  step_st c s (Poll i) = on s i (fst (lpoll c i (now s) (callers s i))).
Proof. unfold step_st. rewrite step_poll. reflexivity. Qed.

Lemma deadline_from_first_poll c evs i :
  let s := run c evs in
  (cs s i = Created -> arrival s i = None /\ inner s i = INone) /\
  (forall a, arrival s i = Some a -> a <= now s /\ cs s i <> Created) /\
  (forall dl, cs s i = Active dl -> exists a, arrival s i = Some a /\ dl = deadline c i a) /\
  (cs s i = Created -> arrival (step_st c s (Poll i)) i = Some (now s)) /\
  (forall e a, arrival s i = Some a -> arrival (step_st c s e) i = Some a) /\
  (forall j, step_st c s (Call j) = s).
Proof.
  intros s. pose proof (linv_run c evs i) as H. fold s in H.
  destruct H as (H1&H2&H3&H4&H5&H6&H7&H8&H9). unf.
  repeat split.
  - apply H1; assumption.
  - apply H1; assumption.
  - apply (H3 a); assumption.
  - apply (H3 a); assumption.
  - exact H2.
  - intros Hc. rewrite step_st_poll, callers_on_same.
    destruct (callers s i) as [cs0 in0 g0 w0 a0]; cbn in *. subst cs0.
    unfold lpoll, poll_cancel, poll_select, task_run, rx_state, finish_inner; cbn.
    destruct (H1 eq_refl) as (-> & -> & ->).
    destruct (cancel c); destruct g0 as [[]|]; cbn; try destruct (_ <=? _); reflexivity.
  - intros e a Ha. unfold step_st. destruct e as [j|j|j|d|j o].
    + exact Ha.
    + rewrite step_poll. cbn [fst]. destruct (Nat.eq_dec i j) as [->|Hne].
      * rewrite callers_on_same.
        destruct (callers s j) as [cs0 in0 g0 w0 a0]; cbn in *. subst a0.
        unfold lpoll, poll_cancel, poll_select, task_run, rx_state, finish_inner; cbn.
        destruct (H3 a eq_refl) as [_ Hnc].
        destruct cs0; try congruence; cbn; destruct (cancel c); destruct g0 as [[]|]; cbn;
          try destruct (_ <=? _); try reflexivity;
          destruct in0 as [| |[]|]; reflexivity.
      * rewrite callers_on_other by exact Hne. exact Ha.
    + cbn [step fst]. destruct (Nat.eq_dec i j) as [->|Hne].
      * rewrite callers_on_same. destruct (callers s j) as [cs0 in0 g0 w0 a0]; cbn in *.
        unfold ldrop; cbn. destruct cs0; cbn; try destruct (cancel c); exact Ha.
      * rewrite callers_on_other by exact Hne. exact Ha.
    + cbn [step fst callers]. destruct (l_advance_core (now s) (now s + Z.max 0 d) (callers s i)) as (_&_&_&->).
      exact Ha.
    + cbn [step fst]. destruct (Nat.eq_dec i j) as [->|Hne].
      * rewrite callers_on_same. destruct (callers s j) as [cs0 in0 g0 w0 a0]; cbn in *.
        unfold lcomplete, task_run, finish_inner; cbn.
        destruct g0; [exact Ha|]. destruct (cancel c); cbn.
        -- destruct cs0; exact Ha.
        -- destruct in0; try exact Ha. destruct o; cbn; destruct cs0; exact Ha.
      * rewrite callers_on_other by exact Hne. exact Ha.
Qed.

Lemma no_timeout_before_deadline c evs i :
  let s := run c evs in
  r (snd (step c s (Poll i))) = 3 -> gate s i <> Some OPanic ->
  exists a, arrival (step_st c s (Poll i)) i = Some a /\ a + tmo c i <= now s.
Proof.
  intros s. rewrite step_st_poll, step_poll. unf. rewrite callers_on_same. cbn [snd].
  apply l_no_early_timeout. apply linv_run.
Qed.

Lemma result_now c evs i o :
  let s := run c evs in
  gate s i = Some o -> o <> OPanic ->
  (cancel c = true /\ (cs s i = Created \/ exists dl, cs s i = Active dl)) \/
  (cancel c = false /\ exists dl, cs s i = Active dl) ->
  snd (step c s (Poll i)) = result i o /\
  cs (step_st c s (Poll i)) i = Done /\ inner (step_st c s (Poll i)) i = IFinished o.
Proof.
  intros s. rewrite step_st_poll, step_poll. unf. rewrite callers_on_same. cbn [snd].
  apply l_result. apply linv_run.
Qed.

Lemma timeout_now c evs i :
  let s := run c evs in
  gate s i = None ->
  (exists dl, cs s i = Active dl /\ dl <= now s) \/
  (cs s i = Created /\ deadline c i (now s) <= now s) ->
  snd (step c s (Poll i)) = timed_out /\ cs (step_st c s (Poll i)) i = Done.
Proof.
  intros s. rewrite step_st_poll, step_poll. unf. rewrite callers_on_same. cbn [snd].
  apply l_timeout. apply linv_run.
Qed.

Lemma pending_now c evs i :
  let s := run c evs in
  gate s i = None ->
  (exists dl, cs s i = Active dl /\ now s < dl) \/
  (cs s i = Created /\ now s < deadline c i (now s)) ->
  snd (step c s (Poll i)) = pending /\
  exists dl, cs (step_st c s (Poll i)) i = Active dl /\ now s < dl.
Proof.
  intros s. rewrite step_st_poll, step_poll. unf. rewrite callers_on_same. cbn [snd].
  apply l_pending. apply linv_run.
Qed.

Lemma timer_wakes c evs i dl d :
  let s := run c evs in
  cs s i = Active dl -> now s < dl -> dl <= now s + d ->
  woken (step_st c s (Advance d)) i = true /\ cs (step_st c s (Advance d)) i = Active dl.
Proof.
  intros s Hc H0 H1. unfold step_st. cbn [step fst]. unf. cbn [callers]. split.
  - apply (l_advance_wake _ _ _ dl); [exact Hc|exact H0|lia].
  - destruct (l_advance_core (now s) (now s + Z.max 0 d) (callers s i)) as (->&_). exact Hc.
Qed.

Lemma tie_either c evs i o dl :
  let s := run c evs in
  cs s i = Active dl -> gate s i = Some o -> o <> OPanic -> dl <= now s ->
  snd (step c s (Poll i)) =
    result i o /\
  cs (step_st c s (Poll i)) i = Done.
Proof.
  intros s. rewrite step_st_poll, step_poll. unf. rewrite callers_on_same. cbn [snd].
  apply l_tie. apply linv_run.
Qed.

Lemma cancel_drops c evs i :
  let s := run c evs in
  cancel c = true ->
  (inner s i = IRunning <-> exists dl, cs s i = Active dl) /\
  (r (snd (step c s (Poll i))) = 3 ->
     inner (step_st c s (Poll i)) i = IDropped /\ cs (step_st c s (Poll i)) i = Done /\
     exists a, arrival (step_st c s (Poll i)) i = Some a /\ a + tmo c i <= now s) /\
  ((exists dl, cs s i = Active dl) -> inner (step_st c s (Drop i)) i = IDropped).
Proof.
  intros s Hc. pose proof (linv_run c evs i) as H. fold s in H. split; [|split].
  - destruct H as (H1&H2&H3&H4&H5&H6&H7&H8&H9). unf. apply H4. exact Hc.
  - intros Hr. rewrite step_st_poll. rewrite step_poll in Hr. cbn [snd] in Hr.
    unf. rewrite callers_on_same.
    destruct (l_cancel_drop c i _ _ H Hc Hr) as [Ha Hb]. repeat split; try assumption.
    apply l_no_early_timeout; [exact H|exact Hr|].
    (* a panic is reported as a panic in cancel mode, never as Timeout *)
    intros Hg. revert Hr. clear -Hg Hc H.
    poll_cases c; intros; try discriminate; try congruence.
  - intros [dl Hd]. unfold step_st. cbn [step fst]. unf. rewrite callers_on_same.
    destruct (callers s i) as [cs0 in0 g0 w0 a0]; cbn in *. subst cs0.
    unfold ldrop; cbn. rewrite Hc. reflexivity.
Qed.

Lemma nocancel_runs_on c evs i :
  let s := run c evs in
  cancel c = false ->
  (cs s i = Created -> inner (step_st c s (Poll i)) i <> INone) /\
  (inner s i = IDropped -> gate s i = Some OPanic) /\
  (forall e, inner s i = IRunning ->
     inner (step_st c s e) i = IRunning \/ exists o, e = Complete i o) /\
  (forall o, inner s i = IRunning ->
     inner (step_st c s (Complete i o)) i = match o with OPanic => IDropped | _ => IFinished o end) /\
  (forall e o, inner s i = IFinished o -> inner (step_st c s e) i = IFinished o).
Proof.
  intros s Hc. pose proof (linv_run c evs i) as H. fold s in H.
  assert (Hstep : forall e, (forall o, e <> Complete i o) -> inner s i <> INone ->
                    inner (step_st c s e) i = inner s i).
  { intros e He Hn. unfold step_st. destruct e as [j|j|j|d|j o]; unf.
    - reflexivity.
    - rewrite step_poll. cbn [fst]. destruct (Nat.eq_dec i j) as [->|Hne].
      + rewrite callers_on_same. apply (l_nocancel_poll c j _ _ (linv_run c evs j) Hc). exact Hn.
      + rewrite callers_on_other by exact Hne. reflexivity.
    - cbn [step fst]. destruct (Nat.eq_dec i j) as [->|Hne].
      + rewrite callers_on_same. apply l_nocancel_drop. exact Hc.
      + rewrite callers_on_other by exact Hne. reflexivity.
    - cbn [step fst callers]. apply l_advance_core.
    - cbn [step fst]. destruct (Nat.eq_dec i j) as [->|Hne].
      + exfalso. apply (He o). reflexivity.
      + rewrite callers_on_other by exact Hne. reflexivity. }
  repeat split.
  - intros Hcr. rewrite step_st_poll. unf. rewrite callers_on_same.
    apply (l_nocancel_poll c i _ _ H Hc). exact Hcr.
  - destruct H as (H1&H2&H3&H4&H5&H6&H7&H8&H9). unf. apply H8. exact Hc.
  - intros e Hr. destruct e as [j|j|j|d|j o].
    5: destruct (Nat.eq_dec j i) as [->|Hne]; [right; eexists; reflexivity|].
    all: left; rewrite Hstep; try exact Hr; try (intros o' Ho'; discriminate); try congruence.
  - intros o Hr. unfold step_st. cbn [step fst]. unf. rewrite callers_on_same.
    assert (Hg : lgate (callers s i) = None).
    { destruct H as (H1&H2&H3&H4&H5&H6&H7&H8&H9). apply H6; assumption. }
    apply (l_complete c i _ _ o H Hg); assumption.
  - intros e o Hf. destruct e as [j|j|j|d|j o'].
    5: destruct (Nat.eq_dec j i) as [->|Hne].
    5: { unfold step_st. cbn [step fst]. unf. rewrite callers_on_same.
         destruct H as (H1&H2&H3&H4&H5&H6&H7&H8&H9). destruct (H7 o Hf) as [Hg _].
         rewrite (l_complete_noop c _ o' o Hg). exact Hf. }
    all: rewrite Hstep; try exact Hf; try (intros o'' Ho''; discriminate); try congruence.
Qed.

(* ---------- events that do not poll or drop caller i ---------- *)
Definition core (l : loc) := (lcs l, linner l, lgate l, larrival l).

Lemma quiet_step c s e i :
  e <> Drop i -> e <> Poll i ->
  (lgate (callers s i) <> None \/ forall o, e <> Complete i o) ->
  core (callers (step_st c s e) i) = core (callers s i) /\ now s <= now (step_st c s e).
Proof.
  intros Hd Hp Hc. unfold step_st. destruct e as [j|j|j|d|j o].
  - cbn [step fst]. split; [reflexivity|lia].
  - rewrite step_poll. cbn [fst now on]. destruct (Nat.eq_dec i j) as [->|Hne].
    + exfalso. apply Hp. reflexivity.
    + rewrite callers_on_other by exact Hne. split; [reflexivity|lia].
  - cbn [step fst now on]. destruct (Nat.eq_dec i j) as [->|Hne].
    + exfalso. apply Hd. reflexivity.
    + rewrite callers_on_other by exact Hne. split; [reflexivity|lia].
  - cbn [step fst now callers]. split; [|lia]. unfold core.
    destruct (l_advance_core (now s) (now s + Z.max 0 d) (callers s i)) as (->&->&->&->). reflexivity.
  - cbn [step fst now on]. destruct (Nat.eq_dec i j) as [->|Hne].
    + rewrite callers_on_same. destruct Hc as [Hg|Hn].
      * destruct (lgate (callers s j)) as [g|] eqn:Eg; [|congruence].
        rewrite (l_complete_noop c _ o g Eg). split; [reflexivity|lia].
      * exfalso. apply (Hn o). reflexivity.
    + rewrite callers_on_other by exact Hne. split; [reflexivity|lia].
Qed.

Lemma quiet_run c evs s i :
  (forall e, In e evs -> e <> Drop i /\ e <> Poll i /\
     (lgate (callers s i) <> None \/ forall o, e <> Complete i o)) ->
  core (callers (fold_left (step_st c) evs s) i) = core (callers s i) /\
  now s <= now (fold_left (step_st c) evs s).
Proof.
  revert s. induction evs as [|e t IH]; intros s H; cbn [fold_left].
  - split; [reflexivity|lia].
  - destruct (H e (or_introl eq_refl)) as (Hd & Hp & Hc).
    destruct (quiet_step c s e i Hd Hp Hc) as [Hcore Hnow].
    destruct (IH (step_st c s e)) as [Hc2 Hn2].
    + intros e' Hin. destruct (H e' (or_intror Hin)) as (Hd' & Hp' & Hc'). repeat split; auto.
      unfold core in Hcore. injection Hcore as _ _ Hg _. rewrite Hg. exact Hc'.
    + split; [congruence|lia].
Qed.

Lemma run_app c evs1 evs2 : run c (evs1 ++ evs2) = fold_left (step_st c) evs2 (run c evs1).
Proof. unfold run. apply fold_left_app. Qed.

Lemma result_if_before c evs1 i o evs2 dl :
  let s1 := run c evs1 in
  cs s1 i = Active dl -> gate s1 i = None -> o <> OPanic ->
  (forall e, In e evs2 -> e <> Drop i /\ e <> Poll i) ->
  let s2 := run c (evs1 ++ Complete i o :: evs2) in
  woken (step_st c s1 (Complete i o)) i = true /\
  snd (step c s2 (Poll i)) = result i o /\
  cs (step_st c s2 (Poll i)) i = Done /\ inner (step_st c s2 (Poll i)) i = IFinished o.
Proof.
  intros s1 Hc Hg Ho Hq s2.
  pose proof (linv_run c evs1 i) as H1. fold s1 in H1. unf.
  destruct (l_complete c i _ _ o H1 Hg) as (Hg' & Hc' & _ & Hw & _).
  set (s1' := step_st c s1 (Complete i o)).
  assert (Hs1' : callers s1' i = lcomplete c (callers s1 i) o).
  { unfold s1', step_st. cbn [step fst]. apply callers_on_same. }
  split.
  { fold s1'. rewrite Hs1'. apply Hw. eexists. exact Hc. }
  assert (Hs2 : s2 = fold_left (step_st c) evs2 s1').
  { unfold s2. rewrite run_app. cbn [fold_left]. reflexivity. }
  destruct (quiet_run c evs2 s1' i) as [Hcore Hnow].
  { intros e Hin. destruct (Hq e Hin) as [Hd Hp]. repeat split; auto.
    left. rewrite Hs1', Hg'. discriminate. }
  rewrite <- Hs2 in Hcore. unfold core in Hcore. rewrite Hs1' in Hcore.
  injection Hcore as Hcs _ Hgt _.
  apply (result_now c (evs1 ++ Complete i o :: evs2) i o); fold s2; unf.
  - rewrite Hgt. exact Hg'.
  - exact Ho.
  - destruct (cancel c) eqn:Ec.
    + left. split; [reflexivity|]. right. exists dl. rewrite Hcs, Hc'. exact Hc.
    + right. split; [reflexivity|]. exists dl. rewrite Hcs, Hc'. exact Hc.
Qed.

Lemma timeout_if_after c evs1 i evs2 dl :
  let s1 := run c evs1 in
  cs s1 i = Active dl -> gate s1 i = None ->
  (forall e, In e evs2 -> e <> Drop i /\ e <> Poll i /\ forall o, e <> Complete i o) ->
  let s2 := run c (evs1 ++ evs2) in
  dl <= now s2 ->
  snd (step c s2 (Poll i)) = timed_out /\ cs (step_st c s2 (Poll i)) i = Done.
Proof.
  intros s1 Hc Hg Hq s2 Hd. unf.
  assert (Hs2 : s2 = fold_left (step_st c) evs2 s1) by (unfold s2; apply run_app).
  destruct (quiet_run c evs2 s1 i) as [Hcore Hnow].
  { intros e Hin. destruct (Hq e Hin) as (Ha & Hb & Hcc). repeat split; auto. }
  rewrite <- Hs2 in Hcore. unfold core in Hcore. injection Hcore as Hcs _ Hgt _.
  apply (timeout_now c (evs1 ++ evs2) i); fold s2; unf.
  - rewrite Hgt. exact Hg.
  - left. exists dl. split; [rewrite Hcs; exact Hc|exact Hd].
Qed.

(* ---------- independence of concurrent calls ---------- *)
Definition concerns (i : nat) (e : ev) : bool :=
  match e with
  | Advance _ => true
  | Call j | Poll j | Drop j | Complete j _ => Nat.eqb j i
  end.

Lemma step_rel c e i s s' :
  now s = now s' -> callers s i = callers s' i -> concerns i e = true ->
  now (step_st c s e) = now (step_st c s' e) /\
  callers (step_st c s e) i = callers (step_st c s' e) i.
Proof.
  intros Hn Hc Ek. unfold step_st. destruct e as [j|j|j|d|j o]; cbn in Ek;
    try (apply Nat.eqb_eq in Ek; subst j).
  - cbn [step fst]. split; assumption.
  - rewrite !step_poll. cbn [fst now on]. rewrite !callers_on_same. rewrite Hn, Hc. split; reflexivity.
  - cbn [step fst now on]. rewrite !callers_on_same. rewrite Hc. split; [exact Hn|reflexivity].
  - cbn [step fst now callers]. rewrite Hn, Hc. split; reflexivity.
  - cbn [step fst now on]. rewrite !callers_on_same. rewrite Hc. split; [exact Hn|reflexivity].
Qed.

(* an event on another caller changes nothing of caller i *)
Lemma other_caller_frame c s e i :
  concerns i e = false -> callers (step_st c s e) i = callers s i /\ now (step_st c s e) = now s.
Proof.
  intros Ek. unfold step_st. destruct e as [j|j|j|d|j o]; cbn in Ek; try discriminate;
    apply Nat.eqb_neq in Ek.
  - cbn [step fst]. split; reflexivity.
  - rewrite step_poll. cbn [fst now on]. rewrite callers_on_other by congruence. split; reflexivity.
  - cbn [step fst now on]. rewrite callers_on_other by congruence. split; reflexivity.
  - cbn [step fst now on]. rewrite callers_on_other by congruence. split; reflexivity.
Qed.

Lemma indep_gen c i evs : forall s s',
  now s = now s' -> callers s i = callers s' i ->
  now (fold_left (step_st c) evs s) = now (fold_left (step_st c) (filter (concerns i) evs) s') /\
  callers (fold_left (step_st c) evs s) i =
  callers (fold_left (step_st c) (filter (concerns i) evs) s') i.
Proof.
  induction evs as [|e t IH]; intros s s' Hn Hc; cbn [fold_left filter].
  - split; assumption.
  - destruct (concerns i e) eqn:Ek; cbn [fold_left].
    + destruct (step_rel c e i s s' Hn Hc Ek) as [Hn' Hc']. apply IH; assumption.
    + destruct (other_caller_frame c s e i Ek) as [Hc' Hn']. apply IH; congruence.
Qed.

Lemma calls_independent c evs i :
  let s := run c evs in let s' := run c (filter (concerns i) evs) in
  now s = now s' /\ callers s i = callers s' i /\
  snd (step c s (Poll i)) = snd (step c s' (Poll i)).
Proof.
  intros s s'. destruct (indep_gen c i evs init init eq_refl eq_refl) as [Hn Hc].
  fold (run c evs) in Hn, Hc. fold (run c (filter (concerns i) evs)) in Hn, Hc.
  fold s in Hn, Hc. fold s' in Hn, Hc.
  repeat split; try assumption. rewrite !step_poll. cbn [snd]. rewrite Hn, Hc. reflexivity.
Qed.



(* ---------- a pending call that is overdue, or whose inner result is there, has been woken ---------- *)
Definition Wl (t : Z) (l : loc) : Prop :=
  forall dl, lcs l = Active dl -> (dl <= t \/ lgate l <> None) -> lwoken l = true.

Lemma wl_poll c i t l : Linv c i t l -> Wl t (fst (lpoll c i t l)).
Proof.
  intros H. unfold Wl. poll_cases c; intros d Hd Hp; try discriminate; try reflexivity;
    injection Hd as <-; destruct Hp as [Hp|Hp]; try lia; try congruence.
  all: spec_inv; try congruence.
  all: try inv_absurd.
Qed.

Lemma wl_drop c t l : Wl t (ldrop c l).
Proof.
  unfold Wl. destruct l as [cs0 in0 g0 w0 a0]. unfold ldrop; cbn.
  destruct cs0; cbn; try destruct (cancel c); cbn; intros; discriminate.
Qed.

Lemma wl_complete c i t l o : Linv c i t l -> Wl t l -> Wl t (lcomplete c l o).
Proof.
  intros (H1&H2&H3&H4&H5&H6&H7&H8&H9) HW.
  destruct l as [cs0 in0 g0 w0 a0]; unfold Wl in *; cbn in *.
  unfold lcomplete, task_run, finish_inner; cbn.
  destruct g0 as [g|]; [exact HW|].
  destruct (cancel c) eqn:Ec.
  - destruct cs0 as [|dl| |]; cbn; intros d Hc Hp; try discriminate. reflexivity.
  - destruct in0 as [| |oi|]; cbn.
    + destruct cs0 as [|dl| |]; cbn; intros d Hc Hp; try discriminate.
      exfalso. apply (H5 eq_refl dl eq_refl). reflexivity.
    + destruct o; cbn; destruct cs0 as [|dl| |]; cbn; intros d Hc Hp; try discriminate; reflexivity.
    + destruct (H7 oi eq_refl). discriminate.
    + specialize (H8 eq_refl eq_refl). discriminate.
Qed.

Lemma wl_advance t0 t1 l : Wl t0 l -> Wl t1 (ladvance t0 t1 l).
Proof.
  intros HW. destruct l as [cs0 in0 g0 w0 a0]; unfold Wl in *; cbn in *.
  intros dl Hc Hp. subst cs0. unfold timer_fires; cbn.
  destruct (Z_le_gt_dec dl t0) as [Hle|Hgt].
  - rewrite (HW dl eq_refl (or_introl Hle)). reflexivity.
  - destruct Hp as [Hp|Hp].
    + replace (t0 <? dl) with true by (symmetry; apply Z.ltb_lt; lia).
      replace (dl <=? t1) with true by (symmetry; apply Z.leb_le; lia).
      apply Bool.orb_true_r.
    + rewrite (HW dl eq_refl (or_intror Hp)). reflexivity.
Qed.

Definition WInv (s : st) : Prop := forall i, Wl (now s) (callers s i).

Lemma winv_step c s e : Inv c s -> WInv s -> WInv (step_st c s e).
Proof.
  intros HI HW. unfold step_st. destruct e as [j|j|j|d|j o].
  - exact HW.
  - rewrite step_poll. cbn [fst]. intros i. cbn [now on].
    destruct (Nat.eq_dec i j) as [->|Hne].
    + rewrite callers_on_same. apply wl_poll. apply HI.
    + rewrite callers_on_other by exact Hne. apply HW.
  - cbn [step fst]. intros i. cbn [now on]. destruct (Nat.eq_dec i j) as [->|Hne].
    + rewrite callers_on_same. apply wl_drop.
    + rewrite callers_on_other by exact Hne. apply HW.
  - cbn [step fst]. intros i. cbn [now callers]. apply wl_advance. apply HW.
  - cbn [step fst]. intros i. cbn [now on]. destruct (Nat.eq_dec i j) as [->|Hne].
    + rewrite callers_on_same. apply (wl_complete c j); [apply HI|apply HW].
    + rewrite callers_on_other by exact Hne. apply HW.
Qed.

Lemma winv_run c evs : WInv (run c evs).
Proof.
  assert (H : Inv c (run c evs) /\ WInv (run c evs)).
  { unfold run. apply (fold_left_inv (step_st c) (fun s => Inv c s /\ WInv s)).
    - split; [apply inv_init|]. intros i dl Hc. discriminate.
    - intros s e [HI HW]. split; [apply inv_step; exact HI|apply winv_step; assumption]. }
  apply H.
Qed.

Lemma overdue_or_ready_is_woken c evs i dl :
  let s := run c evs in
  cs s i = Active dl -> (dl <= now s \/ gate s i <> None) -> woken s i = true.
Proof. intros s. unf. apply (winv_run c evs i). Qed.

(* ---------- a call future only disappears by being dropped by its caller ---------- *)
Lemma lpoll_not_dropped c i t l : lcs (fst (lpoll c i t l)) = Dropped -> lcs l = Dropped.
Proof.
  destruct l as [cs0 in0 g0 w0 a0].
  unfold lpoll, poll_cancel, poll_select, task_run, rx_state, finish_inner; cbn.
  destruct cs0 as [|dl| |]; cbn; try (intros; congruence);
    destruct (cancel c); destruct g0 as [[]|]; cbn; try destruct (_ <=? _); cbn;
    try discriminate; destruct in0 as [| |[]|]; cbn; try destruct (_ <=? _); cbn; discriminate.
Qed.

Lemma lcomplete_cs c l o : lcs (lcomplete c l o) = lcs l.
Proof.
  destruct l as [cs0 in0 g0 w0 a0]. unfold lcomplete, task_run, finish_inner; cbn.
  destruct g0; [reflexivity|]. destruct (cancel c); cbn.
  - destruct cs0; reflexivity.
  - destruct in0; try reflexivity. destruct o; cbn; destruct cs0; reflexivity.
Qed.

Lemma step_dropped c s e i :
  cs (step_st c s e) i = Dropped -> cs s i = Dropped \/ e = Drop i.
Proof.
  unfold step_st. destruct e as [j|j|j|d|j o]; unf.
  - auto.
  - rewrite step_poll. cbn [fst]. destruct (Nat.eq_dec i j) as [->|Hne].
    + rewrite callers_on_same. intros H. left. eapply lpoll_not_dropped. exact H.
    + rewrite callers_on_other by exact Hne. auto.
  - cbn [step fst]. destruct (Nat.eq_dec i j) as [->|Hne]; [auto|].
    rewrite callers_on_other by exact Hne. auto.
  - cbn [step fst callers]. destruct (l_advance_core (now s) (now s + Z.max 0 d) (callers s i)) as (->&_). auto.
  - cbn [step fst]. destruct (Nat.eq_dec i j) as [->|Hne].
    + rewrite callers_on_same, lcomplete_cs. auto.
    + rewrite callers_on_other by exact Hne. auto.
Qed.

Lemma dropped_only_by_drop c i evs : forall s,
  cs (fold_left (step_st c) evs s) i = Dropped -> cs s i = Dropped \/ In (Drop i) evs.
Proof.
  induction evs as [|e t IH]; intros s H; cbn [fold_left] in H; [auto|].
  destruct (IH _ H) as [H1|H1].
  - destruct (step_dropped c s e i H1) as [H2| ->]; [auto|right; left; reflexivity].
  - right. right. exact H1.
Qed.

Lemma run_dropped c evs i : cs (run c evs) i = Dropped -> In (Drop i) evs.
Proof.
  intros H. destruct (dropped_only_by_drop c i evs init H) as [H1|H1]; [discriminate|exact H1].
Qed.

(* ---------- schedules ---------- *)
(* the caller is polled whenever it has been woken: every event after which caller i's wake flag
   is up is followed, if by anything, by a poll of caller i *)
Definition polled_when_woken (c : cfg) (i : nat) (evs : list ev) : Prop :=
  forall pre e e' post, evs = pre ++ e :: e' :: post ->
    woken (run c (pre ++ [e])) i = true -> e' = Poll i.

(* ... and nothing is left to do for it at the end *)
Definition prompt (c : cfg) (i : nat) (evs : list ev) : Prop :=
  polled_when_woken c i evs /\ woken (run c evs) i = false.

(* the clock stops at the deadline of caller i: no Advance jumps over it (the discrete-event
   rendering of continuous time: somebody gets to run at that instant) *)
Definition punctual (c : cfg) (i : nat) (evs : list ev) : Prop :=
  forall pre d post dl, evs = pre ++ Advance d :: post ->
    cs (run c pre) i = Active dl -> now (run c pre) < dl -> now (run c pre) + d <= dl.

Lemma pww_prefix c i evs1 evs2 : polled_when_woken c i (evs1 ++ evs2) -> polled_when_woken c i evs1.
Proof.
  intros H pre e e' post Heq Hw. apply (H pre e e' (post ++ evs2)); [|exact Hw].
  rewrite Heq. rewrite <- app_assoc. reflexivity.
Qed.

Lemma punctual_prefix c i evs1 evs2 : punctual c i (evs1 ++ evs2) -> punctual c i evs1.
Proof.
  intros H pre d post dl Heq. apply (H pre d (post ++ evs2) dl).
  rewrite Heq. rewrite <- app_assoc. reflexivity.
Qed.

Lemma run_snoc c evs e : run c (evs ++ [e]) = step_st c (run c evs) e.
Proof. rewrite run_app. reflexivity. Qed.

(* what one event does to the future of caller i and to the clock *)
Lemma step_cs_cases c s e i dl :
  Inv c s ->
  cs (step_st c s e) i = Active dl ->
  (e = Poll i /\ now s < dl /\ now (step_st c s e) = now s) \/
  (cs s i = Active dl /\ e <> Poll i /\
     ((exists d, e = Advance d /\ now (step_st c s e) = now s + Z.max 0 d) \/
      ((forall d, e <> Advance d) /\ now (step_st c s e) = now s))).
Proof.
  intros HI. unfold step_st. destruct e as [j|j|j|d|j o]; unf.
  - cbn [step fst]. intros H. right. repeat split; try discriminate; auto.
    right. split; [intros; discriminate|reflexivity].
  - rewrite step_poll. cbn [fst now on]. destruct (Nat.eq_dec i j) as [->|Hne].
    + rewrite callers_on_same. intros H. left. split; [reflexivity|]. split; [|reflexivity].
      pose proof (proj2 HI j) as HL. revert H. clear HI.
      poll_cases c; intros Hd; try discriminate; injection Hd as <-; lia.
    + rewrite callers_on_other by exact Hne. intros H. right. repeat split; auto.
      * intros Heq. injection Heq as ->. congruence.
      * right. split; [intros; discriminate|reflexivity].
  - cbn [step fst now on]. destruct (Nat.eq_dec i j) as [->|Hne].
    + rewrite callers_on_same. destruct (callers s j) as [cs0 in0 g0 w0 a0]. unfold ldrop; cbn.
      destruct cs0; cbn; try destruct (cancel c); cbn; discriminate.
    + rewrite callers_on_other by exact Hne. intros H. right. repeat split; try discriminate; auto.
      right. split; [intros; discriminate|reflexivity].
  - cbn [step fst now callers].
    destruct (l_advance_core (now s) (now s + Z.max 0 d) (callers s i)) as (->&_).
    intros H. right. repeat split; try discriminate; auto. left. exists d. split; reflexivity.
  - cbn [step fst now on]. destruct (Nat.eq_dec i j) as [->|Hne].
    + rewrite callers_on_same, lcomplete_cs. intros H. right. repeat split; try discriminate; auto.
      right. split; [intros; discriminate|reflexivity].
    + rewrite callers_on_other by exact Hne. intros H. right. repeat split; try discriminate; auto.
      right. split; [intros; discriminate|reflexivity].
Qed.

(* under such a schedule a pending call is never past its deadline *)
Lemma pending_not_overdue c i evs :
  polled_when_woken c i evs -> punctual c i evs ->
  forall dl, cs (run c evs) i = Active dl -> now (run c evs) <= dl.
Proof.
  induction evs as [|e evs IH] using rev_ind; intros Hp Hq dl Hc.
  - discriminate.
  - rewrite run_snoc in *.
    pose proof (IH (pww_prefix _ _ _ _ Hp) (punctual_prefix _ _ _ _ Hq)) as IH'.
    destruct (step_cs_cases c (run c evs) e i dl (inv_run c evs) Hc)
      as [(-> & Hlt & ->)|(Hc0 & Hne & [(d & -> & ->)|(Hna & ->)])].
    + lia.
    + specialize (IH' dl Hc0).
      destruct (Z_lt_le_dec (now (run c evs)) dl) as [Hlt|Hge].
      * pose proof (Hq evs d [] dl eq_refl Hc0 Hlt). lia.
      * (* the clock had reached the deadline: the caller was woken and must have been polled *)
        exfalso.
        pose proof (overdue_or_ready_is_woken c evs i dl Hc0 (or_introl Hge)) as Hw.
        destruct evs as [|e0 evs0] using rev_ind; [discriminate|].
        assert (Advance d = Poll i) as Habs; [|discriminate].
        apply (Hp evs0 e0 (Advance d) []); [rewrite <- app_assoc; reflexivity|exact Hw].
    + apply IH'. exact Hc0.
Qed.

Lemma arrival_of_active c evs i dl :
  cs (run c evs) i = Active dl -> exists a, arrival (run c evs) i = Some a /\ dl = deadline c i a.
Proof. apply (deadline_from_first_poll c evs i). Qed.

(* the composite: once the deadline has been reached (or the inner result is there) a call that
   has been polled at least once and not cancelled is either resolved or has a wake-up pending *)
Lemma resolved_or_woken c evs i a :
  let s := run c evs in
  arrival s i = Some a -> ~ In (Drop i) evs ->
  (deadline c i a <= now s \/ gate s i <> None) ->
  cs s i = Done \/ (cs s i = Active (deadline c i a) /\ woken s i = true).
Proof.
  intros s Ha Hnd Hp.
  destruct (deadline_from_first_poll c evs i) as (_ & H2 & H3 & _). fold s in H2, H3.
  destruct (cs s i) as [|dl| |] eqn:Ec.
  - exfalso. apply (proj2 (H2 a Ha)). reflexivity.
  - right. destruct (H3 dl eq_refl) as (a' & Ha' & ->). assert (a' = a) as -> by congruence.
    split; [reflexivity|]. apply (overdue_or_ready_is_woken c evs i (deadline c i a)); assumption.
  - left. reflexivity.
  - exfalso. apply Hnd. apply (run_dropped c evs i). exact Ec.
Qed.

Lemma by_deadline c evs i a :
  let s := run c evs in
  prompt c i evs -> arrival s i = Some a -> ~ In (Drop i) evs ->
  (deadline c i a <= now s \/ gate s i <> None) -> cs s i = Done.
Proof.
  intros s [_ Hw] Ha Hnd Hp.
  destruct (resolved_or_woken c evs i a Ha Hnd Hp) as [H|[_ H]]; [exact H|].
  unfold s in H. rewrite Hw in H. discriminate.
Qed.

(* conversely a call that is still pending with no wake-up outstanding is rightly so *)
Lemma pending_is_justified c evs i dl :
  let s := run c evs in
  cs s i = Active dl -> woken s i = false -> now s < dl /\ gate s i = None.
Proof.
  intros s Hc Hw.
  destruct (Z_lt_le_dec (now s) dl) as [Hlt|Hge].
  - split; [exact Hlt|]. destruct (gate s i) eqn:Eg; [|reflexivity].
    assert (woken s i = true) as Hw'; [|congruence].
    apply (overdue_or_ready_is_woken c evs i dl Hc). right. fold s. rewrite Eg. discriminate.
  - assert (woken s i = true) as Hw'; [|congruence].
    apply (overdue_or_ready_is_woken c evs i dl Hc). left. exact Hge.
Qed.

(* ---------- exact instants under a prompt, punctual schedule ---------- *)
Lemma l_timeout_inv c i t l :
  Linv c i t l -> r (snd (lpoll c i t l)) = 3 -> lgate l <> Some OPanic ->
  (forall o, linner l <> IFinished o) /\ (lcs l <> Created -> lgate l = None) /\
  exists a, larrival (fst (lpoll c i t l)) = Some a /\ deadline c i a <= t.
Proof.
  intros H. poll_cases c; intros Hr Hg; try discriminate; try congruence;
    try (split; [intros; discriminate|split; [congruence|eexists; split; [reflexivity|lia]]]).
  all: spec_inv; try congruence.
  all: try (exfalso; apply Hg; auto; fail).
  all: try inv_absurd.
Qed.

Lemma timeout_exactly_at_deadline c evs i :
  let s := run c evs in
  polled_when_woken c i evs -> punctual c i evs ->
  r (snd (step c s (Poll i))) = 3 -> gate s i <> Some OPanic ->
  exists a, arrival (step_st c s (Poll i)) i = Some a /\
    now s = Z.max a (deadline c i a) /\
    (forall o, inner s i <> IFinished o) /\ (cs s i <> Created -> gate s i = None).
Proof.
  intros s Hp Hq Hr Hg.
  pose proof (linv_run c evs i) as HL. fold s in HL.
  rewrite step_poll in Hr. cbn [snd] in Hr.
  destruct (l_timeout_inv c i _ _ HL Hr Hg) as (Hin & Hgn & a & Ha & Hd).
  exists a. rewrite step_st_poll. unf. rewrite callers_on_same.
  split; [exact Ha|]. split; [|split; assumption].
  destruct (deadline_from_first_poll c evs i) as (_ & H2 & H3 & H4 & H5 & _). fold s in H2, H3, H4, H5.
  destruct (cs s i) as [|dl| |] eqn:Ec.
  - specialize (H4 eq_refl). rewrite step_st_poll in H4. unf. rewrite callers_on_same in H4.
    assert (a = now s) as -> by congruence. lia.
  - destruct (H3 dl eq_refl) as (a' & Ha' & ->).
    pose proof (H5 (Poll i) a' Ha') as H6. rewrite step_st_poll in H6. unf.
    rewrite callers_on_same in H6. assert (a' = a) as -> by congruence.
    pose proof (pending_not_overdue c i evs Hp Hq _ Ec). fold s in H.
    destruct (H2 a Ha'). lia.
  - exfalso. revert Hr. unf. destruct (callers s i) as [cs0 in0 g0 w0 a0]. cbn in Ec. subst cs0.
    unfold lpoll; cbn. discriminate.
  - exfalso. revert Hr. unf. destruct (callers s i) as [cs0 in0 g0 w0 a0]. cbn in Ec. subst cs0.
    unfold lpoll; cbn. discriminate.
Qed.

(* a pending call whose inner call has completed resolves at its next poll (any outcome) *)
Lemma l_ready_resolves c i t l dl :
  Linv c i t l -> lcs l = Active dl -> lgate l <> None -> lcs (fst (lpoll c i t l)) = Done.
Proof.
  intros H. poll_cases c; intros Hc Hg; try discriminate; try congruence; try reflexivity.
  all: spec_inv; try congruence.
  all: try inv_absurd.
Qed.

(* a poll that returns the inner result found the inner call completed *)
Lemma l_result_needs_gate c i t l :
  Linv c i t l -> (r (snd (lpoll c i t l)) = 1 \/ r (snd (lpoll c i t l)) = 2) ->
  (lcs l = Created \/ exists dl, lcs l = Active dl) /\ (lcs l <> Created -> lgate l <> None).
Proof.
  intros H. poll_cases c; intros [Hr|Hr]; try discriminate;
    (split; [first [left; reflexivity|right; eexists; reflexivity]|intros _; try discriminate]).
  all: spec_inv; try congruence.
  all: try inv_absurd.
Qed.

Lemma gate_set_only_by_complete c s e i :
  gate s i = None -> gate (step_st c s e) i <> None -> exists o, e = Complete i o.
Proof.
  unfold step_st. destruct e as [j|j|j|d|j o]; unf; intros Hg.
  - cbn [step fst]. congruence.
  - rewrite step_poll. cbn [fst]. destruct (Nat.eq_dec i j) as [->|Hne].
    + rewrite callers_on_same. destruct (callers s j) as [cs0 in0 g0 w0 a0]. cbn in Hg. subst g0.
      unfold lpoll, poll_cancel, poll_select, task_run, rx_state, finish_inner; cbn.
      destruct cs0 as [|dl| |]; cbn; destruct (cancel c); cbn; try destruct (_ <=? _); cbn;
        try congruence; destruct in0 as [| |[]|]; cbn; try destruct (_ <=? _); cbn; congruence.
    + rewrite callers_on_other by exact Hne. congruence.
  - cbn [step fst]. destruct (Nat.eq_dec i j) as [->|Hne].
    + rewrite callers_on_same. destruct (callers s j) as [cs0 in0 g0 w0 a0]. cbn in Hg. subst g0.
      unfold ldrop; cbn. destruct cs0; cbn; try destruct (cancel c); cbn; congruence.
    + rewrite callers_on_other by exact Hne. congruence.
  - cbn [step fst callers].
    destruct (l_advance_core (now s) (now s + Z.max 0 d) (callers s i)) as (_&_&->&_). congruence.
  - cbn [step fst]. destruct (Nat.eq_dec i j) as [->|Hne].
    + intros _. exists o. reflexivity.
    + rewrite callers_on_other by exact Hne. congruence.
Qed.

Lemma poll_keeps_gate c s i : gate (step_st c s (Poll i)) i = gate s i.
Proof.
  rewrite step_st_poll. unf. rewrite callers_on_same.
  destruct (callers s i) as [cs0 in0 g0 w0 a0].
  unfold lpoll, poll_cancel, poll_select, task_run, rx_state, finish_inner; cbn.
  destruct cs0 as [|dl| |]; cbn; destruct (cancel c); cbn; destruct g0 as [[]|]; cbn;
    try destruct (_ <=? _); cbn; try reflexivity; destruct in0 as [| |[]|]; cbn;
    try destruct (_ <=? _); reflexivity.
Qed.

(* under prompt polling the inner result is handed over by the poll that immediately follows the
   completion event - no time passes in between -, or, when the inner call was completed before
   the future was first polled, by the first poll (cancel mode) / by the poll right after the
   first poll (non-cancel mode: the spawned task runs after the first poll) *)
Lemma result_at_once c evs i :
  let s := run c evs in
  polled_when_woken c i (evs ++ [Poll i]) ->
  (r (snd (step c s (Poll i))) = 1 \/ r (snd (step c s (Poll i))) = 2) ->
  cs s i = Created \/
  (exists evs' o, evs = evs' ++ [Complete i o] /\ gate (run c evs') i = None /\
                  now (run c evs') = now s) \/
  (exists evs', evs = evs' ++ [Poll i] /\ cs (run c evs') i = Created /\ now (run c evs') = now s).
Proof.
  intros s Hp Hr.
  pose proof (linv_run c evs i) as HL. fold s in HL.
  rewrite step_poll in Hr. cbn [snd] in Hr.
  destruct (l_result_needs_gate c i _ _ HL Hr) as [[Hc|[dl Hc]] Hg]; [left; exact Hc|].
  assert (Hgs : gate s i <> None) by (unf; apply Hg; congruence).
  right. unfold s in *. clear s.
  destruct evs as [|e evs'] using rev_ind; [discriminate|]. clear IHevs'.
  rewrite run_snoc in *.
  set (s' := run c evs') in *.
  destruct (step_cs_cases c s' e i dl (inv_run c evs') Hc)
    as [(-> & Hlt & Hn)|(Hc0 & Hne & Hnow)].
  - (* the last event was a poll of this caller *)
    right. exists evs'. split; [reflexivity|]. split; [|symmetry; exact Hn].
    destruct (cs s' i) as [|dl'| |] eqn:Ec'; [exact Ec'| |exfalso|exfalso].
    + exfalso. rewrite poll_keeps_gate in Hgs.
      pose proof (l_ready_resolves c i _ _ dl' (linv_run c evs' i) Ec' Hgs) as Hd.
      rewrite step_st_poll in Hc. unf. rewrite callers_on_same in Hc. fold s' in Hd. congruence.
    + rewrite step_st_poll in Hc. unf. rewrite callers_on_same in Hc.
      destruct (callers s' i) as [cs0 in0 g0 w0 a0]. cbn in Ec'. subst cs0.
      unfold lpoll in Hc; cbn in Hc. discriminate.
    + rewrite step_st_poll in Hc. unf. rewrite callers_on_same in Hc.
      destruct (callers s' i) as [cs0 in0 g0 w0 a0]. cbn in Ec'. subst cs0.
      unfold lpoll in Hc; cbn in Hc. discriminate.
  - left. destruct (gate s' i) eqn:Eg.
    + (* the result had been there before: the caller was woken, so this event is its poll *)
      exfalso. apply Hne.
      assert (Hw : woken s' i = true).
      { apply (overdue_or_ready_is_woken c evs' i dl Hc0). right. fold s'. congruence. }
      destruct evs' as [|e0 evs0] using rev_ind; [discriminate|].
      apply (Hp evs0 e0 e [Poll i]); [rewrite <- !app_assoc; reflexivity|exact Hw].
    + destruct (gate_set_only_by_complete c s' e i Eg Hgs) as [o ->].
      exists evs', o. split; [reflexivity|]. split; [exact Eg|].
      destruct Hnow as [(d & Hd & _)|(_ & Hn)]; [discriminate|symmetry; exact Hn].
Qed.

(* cancel mode: no inner call outlives its deadline under a prompt, punctual schedule; in any
   schedule an inner call that is alive with no wake-up outstanding is before its deadline *)
Lemma cancel_no_inner_after_deadline c evs i :
  let s := run c evs in
  cancel c = true -> inner s i = IRunning ->
  exists a, arrival s i = Some a /\ cs s i = Active (deadline c i a) /\
    (woken s i = false -> now s < deadline c i a) /\
    (polled_when_woken c i evs -> punctual c i evs -> now s <= deadline c i a).
Proof.
  intros s Hc Hi.
  destruct (cancel_drops c evs i Hc) as (H1 & _). fold s in H1.
  destruct (proj1 H1 Hi) as [dl Hd].
  destruct (arrival_of_active c evs i dl Hd) as (a & Ha & ->).
  exists a. split; [exact Ha|]. split; [exact Hd|]. split.
  - intros Hw. apply (pending_is_justified c evs i _ Hd Hw).
  - intros Hp Hq. apply (pending_not_overdue c i evs Hp Hq _ Hd).
Qed.

(* ---------- the trace printed by run_script is the sequence of observations of `step` ---------- *)
Lemma run_evs_app c total evs1 : forall s evs2,
  run_evs c total s (evs1 ++ evs2) =
  run_evs c total s evs1 ++ run_evs c total (fold_left (step_st c) evs1 s) evs2.
Proof.
  induction evs1 as [|e t IH]; intros s evs2; [reflexivity|].
  cbn [app run_evs fold_left]. unfold step_st at 2. destruct (step c s e) as [s' o]. cbn [fst app].
  rewrite IH. reflexivity.
Qed.

Lemma run_evs_length c total evs : forall s, length (run_evs c total s evs) = (4 * length evs)%nat.
Proof.
  induction evs as [|e t IH]; intros s; [reflexivity|].
  cbn [run_evs]. destruct (step c s e) as [s' o]. rewrite app_length, IH. cbn [length]. lia.
Qed.

Lemma trace_is_run c total pre e rest :
  let s := run c pre in
  firstn 4 (skipn (4 * length pre) (run_evs c total init (pre ++ e :: rest))) =
  [r (snd (step c s e)); val (snd (step c s e));
   wake_mask (run c (pre ++ [e])) total; inner_vec (run c (pre ++ [e])) total].
Proof.
  intros s. rewrite run_evs_app. fold (run c pre). fold s.
  rewrite skipn_app, run_evs_length, Nat.sub_diag, skipn_all2 by (rewrite run_evs_length; lia).
  cbn [app skipn run_evs]. rewrite run_snoc. fold s. unfold step_st.
  destruct (step c s e) as [s' o]. reflexivity.
Qed.

Lemma script_trace_is_run sc pre e rest :
  let c := cfg_of sc in let s := run c pre in
  events_of sc = pre ++ e :: rest ->
  firstn 4 (skipn (4 * length pre) (run_script sc)) =
  [r (snd (step c s e)); val (snd (step c s e));
   wake_mask (run c (pre ++ [e])) (callers_of sc); inner_vec (run c (pre ++ [e])) (callers_of sc)].
Proof. intros c s H. unfold run_script. rewrite H. apply trace_is_run. Qed.

(* ---------- arbitrary schedules: polls of this caller allowed in between ---------- *)
Lemma l_pending_keeps c i t l dl :
  Linv c i t l -> lcs l = Active dl -> lgate l = None -> t < dl ->
  snd (lpoll c i t l) = pending /\ lcs (fst (lpoll c i t l)) = Active dl /\
  lgate (fst (lpoll c i t l)) = None.
Proof.
  intros H. poll_cases c; intros Hc Hg Ht; try discriminate; try (injection Hc as <-); try lia;
    try (repeat split; reflexivity).
  all: spec_inv; try congruence.
  all: try inv_absurd.
Qed.

Lemma step_done c s e i : cs s i = Done -> cs (step_st c s e) i = Done.
Proof.
  unfold step_st. destruct e as [j|j|j|d|j o]; unf; intros H.
  - exact H.
  - rewrite step_poll. cbn [fst]. destruct (Nat.eq_dec i j) as [->|Hne].
    + rewrite callers_on_same. destruct (callers s j) as [cs0 in0 g0 w0 a0]. cbn in H. subst cs0.
      reflexivity.
    + rewrite callers_on_other by exact Hne. exact H.
  - cbn [step fst]. destruct (Nat.eq_dec i j) as [->|Hne].
    + rewrite callers_on_same. destruct (callers s j) as [cs0 in0 g0 w0 a0]. cbn in H. subst cs0.
      reflexivity.
    + rewrite callers_on_other by exact Hne. exact H.
  - cbn [step fst callers]. destruct (l_advance_core (now s) (now s + Z.max 0 d) (callers s i)) as (->&_).
    exact H.
  - cbn [step fst]. destruct (Nat.eq_dec i j) as [->|Hne].
    + rewrite callers_on_same, lcomplete_cs. exact H.
    + rewrite callers_on_other by exact Hne. exact H.
Qed.

Lemma done_stays c i evs : forall s, cs s i = Done -> cs (fold_left (step_st c) evs s) i = Done.
Proof.
  induction evs as [|e t IH]; intros s H; [exact H|]. cbn [fold_left]. apply IH. apply step_done. exact H.
Qed.

Lemma ev_eq_poll (e : ev) (i : nat) : {e = Poll i} + {e <> Poll i}.
Proof.
  destruct e as [j|j|j|d|j o]; try (right; discriminate).
  destruct (Nat.eq_dec j i) as [->|H]; [left; reflexivity|right; congruence].
Qed.

Lemma run_cons_app c evs1 e t : run c (evs1 ++ e :: t) = run c ((evs1 ++ [e]) ++ t).
Proof. rewrite <- app_assoc. reflexivity. Qed.

(* inner call never completing / not completing: over ANY schedule of polls and other events the call
   stays pending (every poll before the deadline answers Pending) until its first poll at/after the
   deadline, which answers Timeout; nothing else resolves it *)
Lemma timeout_any_schedule c i dl evs2 : forall evs1,
  cs (run c evs1) i = Active dl -> gate (run c evs1) i = None ->
  (forall e, In e evs2 -> e <> Drop i /\ forall o, e <> Complete i o) ->
  let s2 := run c (evs1 ++ evs2) in
  (cs s2 i = Active dl /\ gate s2 i = None) \/
  (exists p q, evs2 = p ++ Poll i :: q /\ dl <= now (run c (evs1 ++ p)) /\
     snd (step c (run c (evs1 ++ p)) (Poll i)) = timed_out /\ cs s2 i = Done).
Proof.
  induction evs2 as [|e t IH]; intros evs1 Hc Hg Hq s2; unfold s2.
  - left. rewrite app_nil_r. split; assumption.
  - destruct (Hq e (or_introl eq_refl)) as [Hnd Hnc].
    assert (Hq' : forall e', In e' t -> e' <> Drop i /\ forall o, e' <> Complete i o)
      by (intros e' Hin; apply Hq; right; exact Hin).
    rewrite run_cons_app.
    assert (Hstep : (cs (run c (evs1 ++ [e])) i = Active dl /\ gate (run c (evs1 ++ [e])) i = None) \/
                    (e = Poll i /\ dl <= now (run c evs1) /\
                     snd (step c (run c evs1) (Poll i)) = timed_out /\
                     cs (run c (evs1 ++ [e])) i = Done)).
    { rewrite run_snoc. destruct (ev_eq_poll e i) as [->|Hne].
      - destruct (Z_lt_le_dec (now (run c evs1)) dl) as [Hlt|Hge].
        + left. rewrite step_st_poll. unf. rewrite callers_on_same.
          destruct (l_pending_keeps c i _ _ dl (linv_run c evs1 i) Hc Hg Hlt) as (_ & H1 & H2).
          split; assumption.
        + right. split; [reflexivity|]. split; [exact Hge|].
          apply (timeout_now c evs1 i Hg). left. exists dl. split; assumption.
      - left. destruct (quiet_step c (run c evs1) e i Hnd Hne (or_intror Hnc)) as [Hcore _].
        unfold core in Hcore. injection Hcore as H1 _ H3 _. unf. split; congruence. }
    destruct Hstep as [[Hc' Hg']|(-> & Hge & Hto & Hd)].
    + destruct (IH (evs1 ++ [e]) Hc' Hg' Hq') as [Hl|(p & q & -> & Hp1 & Hp2 & Hp3)]; [left; exact Hl|].
      right. exists (e :: p), q. split; [reflexivity|].
      rewrite <- app_assoc in Hp1, Hp2. cbn [app] in Hp1, Hp2. repeat split; assumption.
    + right. exists [], t. split; [reflexivity|]. rewrite app_nil_r. repeat split; try assumption.
      rewrite run_app. apply done_stays. exact Hd.
Qed.

(* inner call completed (ok / error): over ANY schedule the call stays pending, with the result in hand,
   until its next poll, which returns that result; nothing else resolves it (no Timeout, however late) *)
Lemma result_any_schedule c i dl o evs2 : forall evs1,
  cs (run c evs1) i = Active dl -> gate (run c evs1) i = Some o -> o <> OPanic ->
  (forall e, In e evs2 -> e <> Drop i) ->
  let s2 := run c (evs1 ++ evs2) in
  (cs s2 i = Active dl /\ gate s2 i = Some o /\ ~ In (Poll i) evs2) \/
  (exists p q, evs2 = p ++ Poll i :: q /\ ~ In (Poll i) p /\
     snd (step c (run c (evs1 ++ p)) (Poll i)) = result i o /\ cs s2 i = Done).
Proof.
  induction evs2 as [|e t IH]; intros evs1 Hc Hg Ho Hq s2; unfold s2.
  - left. rewrite app_nil_r. repeat split; try assumption. intros [].
  - pose proof (Hq e (or_introl eq_refl)) as Hnd.
    assert (Hq' : forall e', In e' t -> e' <> Drop i) by (intros e' Hin; apply Hq; right; exact Hin).
    destruct (ev_eq_poll e i) as [->|Hne].
    + right. exists [], t. split; [reflexivity|]. split; [intros []|]. rewrite app_nil_r.
      destruct (result_now c evs1 i o Hg Ho) as (H1 & H2 & _).
      { destruct (cancel c); [left|right]; (split; [reflexivity|]); eauto. }
      split; [exact H1|]. rewrite run_cons_app, run_app. apply done_stays. rewrite run_snoc. exact H2.
    + rewrite run_cons_app.
      destruct (quiet_step c (run c evs1) e i Hnd Hne) as [Hcore _].
      { left. unf. rewrite Hg. discriminate. }
      unfold core in Hcore. injection Hcore as H1 _ H3 _.
      assert (Hc' : cs (run c (evs1 ++ [e])) i = Active dl) by (rewrite run_snoc; unf; congruence).
      assert (Hg' : gate (run c (evs1 ++ [e])) i = Some o) by (rewrite run_snoc; unf; congruence).
      destruct (IH (evs1 ++ [e]) Hc' Hg' Ho Hq') as [(Ha & Hb & Hn)|(p & q & -> & Hp0 & Hp1 & Hp2)].
      * left. repeat split; try assumption. intros [Hin|Hin]; [congruence|exact (Hn Hin)].
      * right. exists (e :: p), q. split; [reflexivity|].
        rewrite <- app_assoc in Hp1. cbn [app] in Hp1. repeat split; try assumption.
        intros [Hin|Hin]; [congruence|exact (Hp0 Hin)].
Qed.

(* the step the composite needs: whatever the schedule was, once the deadline has been reached or
   the inner call has completed (with any outcome), the NEXT poll of a polled, un-cancelled call
   resolves it *)
Lemma next_poll_resolves c evs i a :
  let s := run c evs in
  arrival s i = Some a -> ~ In (Drop i) evs ->
  (deadline c i a <= now s \/ gate s i <> None) ->
  cs (step_st c s (Poll i)) i = Done.
Proof.
  intros s Ha Hnd Hp.
  destruct (resolved_or_woken c evs i a Ha Hnd Hp) as [Hd|[Hc _]]; fold s in Hd || fold s in Hc.
  - apply step_done. exact Hd.
  - destruct (gate s i) eqn:Eg.
    + rewrite step_st_poll. unf. rewrite callers_on_same.
      apply (l_ready_resolves c i _ _ (deadline c i a) (linv_run c evs i) Hc). fold s. unf. congruence.
    + destruct Hp as [Hp|Hp]; [|congruence].
      apply (timeout_now c evs i Eg). left. exists (deadline c i a). split; assumption.
Qed.

(* ... and what it answers: the inner outcome if the inner call has completed (ok / error), else
   Timeout *)
Lemma next_poll_answer c evs i a :
  let s := run c evs in
  arrival s i = Some a -> ~ In (Drop i) evs -> cs s i <> Done ->
  (forall o, gate s i = Some o -> o <> OPanic -> snd (step c s (Poll i)) = result i o) /\
  (gate s i = None -> deadline c i a <= now s -> snd (step c s (Poll i)) = timed_out).
Proof.
  intros s Ha Hnd Hnot.
  destruct (deadline_from_first_poll c evs i) as (_ & H2 & H3 & _). fold s in H2, H3.
  assert (Hc : cs s i = Active (deadline c i a)).
  { destruct (cs s i) as [|dl| |] eqn:Ec.
    - exfalso. apply (proj2 (H2 a Ha)). reflexivity.
    - destruct (H3 dl eq_refl) as (a' & Ha' & ->). congruence.
    - congruence.
    - exfalso. apply Hnd. apply (run_dropped c evs i). exact Ec. }
  split.
  - intros o Hg Ho. apply (result_now c evs i o Hg Ho).
    destruct (cancel c); [left|right]; (split; [reflexivity|]); eauto.
  - intros Hg Hd. apply (timeout_now c evs i Hg). left. eauto.
Qed.

(* the composite under the discipline "poll when woken": in a run in which caller i is polled
   whenever woken, at any point where its call (polled before, not cancelled) is due or its inner
   call has completed, either the call is already resolved or the very next event is its poll and
   resolves it - no time passes *)
Lemma polled_when_woken_resolves c i evs e rest a :
  let s := run c evs in
  polled_when_woken c i (evs ++ e :: rest) ->
  arrival s i = Some a -> ~ In (Drop i) evs ->
  (deadline c i a <= now s \/ gate s i <> None) ->
  cs s i = Done \/
  (e = Poll i /\ cs (run c (evs ++ [e])) i = Done /\ now (run c (evs ++ [e])) = now s).
Proof.
  intros s Hp Ha Hnd Hov.
  destruct (resolved_or_woken c evs i a Ha Hnd Hov) as [Hd|[Hc Hw]]; [left; exact Hd|right].
  assert (He : e = Poll i).
  { destruct evs as [|e0 evs0] using rev_ind; [discriminate|].
    apply (Hp evs0 e0 e rest); [rewrite <- app_assoc; reflexivity|exact Hw]. }
  subst e. split; [reflexivity|]. rewrite run_snoc. split.
  - apply (next_poll_resolves c evs i a Ha Hnd Hov).
  - rewrite step_st_poll. reflexivity.
Qed.

Lemma deadline_bounds c i a :
  a + tmo c i <= deadline c i a /\ deadline c i a < a + tmo c i + Z.max 1 (gran c) /\
  (gran c <= 1 -> deadline c i a = a + tmo c i) /\
  (forall b, a <= b -> deadline c i a <= deadline c i b).
Proof.
  split; [apply deadline_ge|]. split; [apply deadline_lt|]. split; [apply deadline_exact|].
  apply deadline_mono.
Qed.

Lemma no_timeout_before_timer c evs i :
  let s := run c evs in
  r (snd (step c s (Poll i))) = 3 -> gate s i <> Some OPanic ->
  exists a, arrival (step_st c s (Poll i)) i = Some a /\
    a + tmo c i <= deadline c i a /\ deadline c i a <= now s.
Proof.
  intros s Hr Hg. pose proof (linv_run c evs i) as HL. fold s in HL.
  rewrite step_poll in Hr. cbn [snd] in Hr.
  destruct (l_timeout_inv c i _ _ HL Hr Hg) as (_ & _ & a & Ha & Hd).
  exists a. rewrite step_st_poll. unf. rewrite callers_on_same.
  split; [exact Ha|]. split; [apply deadline_ge|exact Hd].
Qed.

(* ---------- non-vacuity: the hypotheses of the theorems are met by reachable states ---------- *)
Definition c_cancel : cfg := {| cancel := true; tmo := fun i => if Nat.eqb i 0 then 10 else 25; gran := 1 |}.
Definition c_nocancel : cfg := {| cancel := false; tmo := fun i => if Nat.eqb i 0 then 10 else 25; gran := 1 |}.

(* inner result strictly before the deadline: delivered at the next poll, both modes *)
Example ex_result_before_cancel :
  let s := run c_cancel [Poll 0; Advance 9; Complete 0 OErr] in
  cs s 0%nat = Active 10 /\ gate s 0%nat = Some OErr /\ now s = 9 /\ woken s 0%nat = true /\
  snd (step c_cancel s (Poll 0)) = result 0 OErr.
Proof. vm_compute. repeat split; reflexivity. Qed.

Example ex_result_before_nocancel :
  let s := run c_nocancel [Call 0; Advance 3; Poll 0; Advance 9; Complete 0 OOk] in
  cs s 0%nat = Active 13 /\ gate s 0%nat = Some OOk /\ now s = 12 /\ woken s 0%nat = true /\
  inner s 0%nat = IFinished OOk /\ snd (step c_nocancel s (Poll 0)) = result 0 OOk.
Proof. vm_compute. repeat split; reflexivity. Qed.

(* inner unfinished at the deadline: woken by the timer, Timeout at the poll; the inner future is
   dropped in cancel mode and keeps running (and later finishes) in non-cancel mode *)
Example ex_timeout_cancel :
  let s := run c_cancel [Poll 0; Advance 10] in
  cs s 0%nat = Active 10 /\ gate s 0%nat = None /\ now s = 10 /\ woken s 0%nat = true /\
  inner s 0%nat = IRunning /\
  snd (step c_cancel s (Poll 0)) = timed_out /\
  inner (step_st c_cancel s (Poll 0)) 0%nat = IDropped.
Proof. vm_compute. repeat split; reflexivity. Qed.

Example ex_timeout_nocancel_runs_on :
  let s := run c_nocancel [Poll 0; Advance 10; Poll 0] in
  cs s 0%nat = Done /\ inner s 0%nat = IRunning /\
  inner (step_st c_nocancel s (Complete 0 OOk)) 0%nat = IFinished OOk /\
  inner (run c_nocancel [Poll 0; Drop 0; Advance 50; Complete 0 OErr]) 0%nat = IFinished OErr.
Proof. vm_compute. repeat split; reflexivity. Qed.

(* exact tie: inner completes at the deadline instant - the result wins in both modes *)
Example ex_tie :
  let evs := [Poll 0; Advance 10; Complete 0 OOk] in
  cs (run c_cancel evs) 0%nat = Active 10 /\ now (run c_cancel evs) = 10 /\
  snd (step c_cancel (run c_cancel evs) (Poll 0)) = result 0 OOk /\
  snd (step c_nocancel (run c_nocancel evs) (Poll 0)) = result 0 OOk.
Proof. vm_compute. repeat split; reflexivity. Qed.

(* several concurrent calls with different deadlines *)
Example ex_concurrent :
  let evs := [Poll 0; Advance 5; Poll 1; Advance 5; Poll 0; Complete 1 OOk; Advance 24] in
  let s := run c_nocancel evs in
  cs s 0%nat = Done /\ cs s 1%nat = Active 30 /\ now s = 34 /\
  filter (concerns 1) evs = [Advance 5; Poll 1; Advance 5; Complete 1 OOk; Advance 24].
Proof. vm_compute. repeat split; reflexivity. Qed.

(* a result that was available strictly before the deadline is returned even when the future is
   polled only at/after the deadline (non-cancel mode: biased select!, receiver first) *)
Example ex_nocancel_late_poll_gets_result :
  let s := run c_nocancel [Poll 0; Advance 2; Complete 0 OOk; Advance 8] in
  inner s 0%nat = IFinished OOk /\ now s = 10 /\ cs s 0%nat = Active 10 /\
  snd (step c_nocancel s (Poll 0)) = result 0 OOk.
Proof. vm_compute. repeat split; reflexivity. Qed.

(* behaviour the property does not cover, kept visible: non-cancel mode, inner panic: reported
   as Timeout, before the deadline *)
Example ex_nocancel_panic_is_timeout :
  let s := run c_nocancel [Poll 0; Advance 2; Complete 0 OPanic] in
  now s = 2 /\ snd (step c_nocancel s (Poll 0)) = timed_out.
Proof. vm_compute. repeat split; reflexivity. Qed.

Ltac walk_splits pre H tac :=
  repeat (let x := fresh "x" in destruct pre as [|x pre];
     [ cbn in H; try discriminate H; tac
     | cbn in H; try discriminate H; injection H as -> H ]).

Definition ex_evs : list ev :=
  [Poll 0; Advance 4; Poll 1; Advance 6; Poll 0; Advance 3; Complete 1 OOk; Poll 1; Advance 30].

Example ex_prompt_punctual :
  prompt c_cancel 0 ex_evs /\ punctual c_cancel 0 ex_evs /\
  prompt c_nocancel 1 ex_evs /\ punctual c_nocancel 1 ex_evs /\
  r (snd (step c_cancel (run c_cancel [Poll 0; Advance 4; Poll 1; Advance 6]) (Poll 0))) = 3 /\
  now (run c_cancel [Poll 0; Advance 4; Poll 1; Advance 6]) = deadline c_cancel 0 0 /\
  snd (step c_nocancel (run c_nocancel [Poll 0; Advance 4; Poll 1; Advance 6; Poll 0; Advance 3; Complete 1 OOk])
         (Poll 1)) = result 1 OOk /\
  arrival (run c_cancel ex_evs) 0%nat = Some 0 /\ cs (run c_cancel ex_evs) 0%nat = Done.
Proof.
  unfold prompt, polled_when_woken, punctual, ex_evs.
  repeat split; try (vm_compute; reflexivity).
  - intros pre e e' post H Hw.
    symmetry in H. walk_splits pre H ltac:(injection H as -> -> _; vm_compute in Hw; first [discriminate Hw|reflexivity]).
  - intros pre d post dl H Hc Hlt.
    symmetry in H. walk_splits pre H ltac:(try discriminate H; injection H as -> _; vm_compute in Hc; try discriminate Hc;
                            injection Hc as <-; vm_compute; discriminate).
  - intros pre e e' post H Hw.
    symmetry in H. walk_splits pre H ltac:(injection H as -> -> _; vm_compute in Hw; first [discriminate Hw|reflexivity]).
  - intros pre d post dl H Hc Hlt.
    symmetry in H. walk_splits pre H ltac:(try discriminate H; injection H as -> _; vm_compute in Hc; try discriminate Hc;
                            injection Hc as <-; vm_compute; discriminate).
Qed.

(* microsecond unit: a 1500 us timeout armed at 0 fires at the 2 ms tick (tokio's timer wheel) *)
Definition c_us : cfg := {| cancel := true; tmo := fun _ => 1500; gran := 1000 |}.
Example ex_us_tick :
  deadline c_us 0 0 = 2000 /\
  snd (step c_us (run c_us [Poll 0; Advance 1999]) (Poll 0)) = pending /\
  woken (run c_us [Poll 0; Advance 1999; Poll 0; Advance 1]) 0%nat = true /\
  snd (step c_us (run c_us [Poll 0; Advance 1999; Poll 0; Advance 1]) (Poll 0)) = timed_out /\
  deadline c_us 0 500 = 2000 /\ deadline c_cancel 0 7 = 17.
Proof. vm_compute. repeat split; reflexivity. Qed.

(* the hypotheses of polled_when_woken_resolves at the point where caller 0 of ex_evs is due *)
Example ex_due_point :
  let pre := [Poll 0; Advance 4; Poll 1; Advance 6] in
  ex_evs = pre ++ Poll 0 :: [Advance 3; Complete 1 OOk; Poll 1; Advance 30] /\
  arrival (run c_cancel pre) 0%nat = Some 0 /\ cs (run c_cancel pre) 0%nat = Active 10 /\
  deadline c_cancel 0 0 <= now (run c_cancel pre) /\ ~ In (Drop 0) pre.
Proof.
  repeat split; try (vm_compute; reflexivity); try (vm_compute; discriminate).
  cbn. intros [H|[H|[H|[H|[]]]]]; discriminate.
Qed.

(* a prompt, punctual schedule in the microsecond unit (deadline 1500 us, timer tick 2000 us) *)
Example ex_us_prompt_punctual :
  let evs := [Poll 0; Advance 1500; Advance 499; Advance 1; Poll 0] in
  prompt c_us 0 evs /\ punctual c_us 0 evs /\ cs (run c_us evs) 0%nat = Done.
Proof.
  unfold prompt, polled_when_woken, punctual.
  repeat split; try (vm_compute; reflexivity).
  - intros pre e e' post H Hw.
    symmetry in H. walk_splits pre H ltac:(injection H as -> -> _; vm_compute in Hw; first [discriminate Hw|reflexivity]).
  - intros pre d post dl H Hc Hlt.
    symmetry in H. walk_splits pre H ltac:(try discriminate H; injection H as -> _; vm_compute in Hc; try discriminate Hc;
                            injection Hc as <-; vm_compute; discriminate).
Qed.
