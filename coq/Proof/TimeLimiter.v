(* Invariants of the time-limiter model and the lemmas Props/C06.v uses. *)
From TR Require Import Lib.Base Model.TimeLimiter.

Lemma upd_same {A} (f : nat -> A) i v : upd f i v i = v.
Proof. unfold upd. rewrite Nat.eqb_refl. reflexivity. Qed.
Lemma upd_other {A} (f : nat -> A) i v j : j <> i -> upd f i v j = f j.
Proof. intros H. unfold upd. apply Nat.eqb_neq in H. rewrite H. reflexivity. Qed.
Arguments upd : simpl never.

Definition Linv (c : cfg) (i : nat) (t : Z) (l : loc) : Prop :=
  (lcs l = Created -> linner l = INone /\ larrival l = None /\ lwoken l = false) /\
  (forall dl, lcs l = Active dl -> exists a, larrival l = Some a /\ dl = a + tmo c i) /\
  (forall a, larrival l = Some a -> a <= t /\ lcs l <> Created) /\
  (cancel c = true -> (linner l = IRunning <-> exists dl, lcs l = Active dl)) /\
  (cancel c = false -> forall dl, lcs l = Active dl -> linner l <> INone) /\
  (cancel c = false -> linner l = IRunning -> lgate l = None) /\
  (forall o, linner l = IFinished o -> lgate l = Some o /\ o <> OPanic) /\
  (cancel c = false -> linner l = IDropped -> lgate l = Some OPanic) /\
  (lwoken l = true -> exists dl, lcs l = Active dl).

Ltac inv_solve :=
  repeat match goal with
  | |- _ /\ _ => split
  | |- _ <-> _ => split
  | |- forall _, _ => intro
  | H : exists _, _ |- _ => destruct H
  | H : _ /\ _ |- _ => destruct H
  end;
  repeat match goal with
  | H : Some _ = Some _ |- _ => injection H as H; try subst
  | H : Active _ = Active _ |- _ => injection H as H; try subst
  | H : IFinished _ = IFinished _ |- _ => injection H as H; try subst
  end;
  subst;
  try discriminate; try congruence; try lia; eauto;
  try (eexists; split; [reflexivity|congruence]);
  try (eexists; reflexivity);
  try (match goal with H : _ <-> _ |- _ => apply H; eexists; reflexivity end);
  try (match goal with H : _ -> _ <-> _ |- _ => apply H; solve [eauto] end);
  try solve [firstorder (try congruence; try lia)].

Lemma linv_init c i t : 0 <= t -> Linv c i t init_loc.
Proof. intros. unfold Linv, init_loc; cbn. inv_solve. Qed.

Lemma linv_mono c i t t' l : t <= t' -> Linv c i t l -> Linv c i t' l.
Proof.
  intros Ht (H1&H2&H3&H4&H5&H6&H7&H8&H9).
  refine (conj H1 (conj H2 (conj _ (conj H4 (conj H5 (conj H6 (conj H7 (conj H8 H9)))))))).
  intros a Ha. destruct (H3 a Ha). split; [lia|assumption].
Qed.

(* specialise the invariant's hypotheses on a concrete record *)
Ltac spec_inv :=
  repeat match goal with
  | H : ?x = ?x -> _ |- _ => specialize (H eq_refl)
  | H : forall dl, Active ?d = Active dl -> _ |- _ => specialize (H d eq_refl)
  | H : forall a, Some ?x = Some a -> _ |- _ => specialize (H x eq_refl)
  | H : forall o, IFinished ?x = IFinished o -> _ |- _ => specialize (H x eq_refl)
  | H : true = false -> _ |- _ => clear H
  | H : false = true -> _ |- _ => clear H
  | H : Created = Active _ -> _ |- _ => clear H
  end.

Ltac fin := unfold Linv; cbn; spec_inv; inv_solve.

(* the case analysis every statement about one poll goes through: the invariant prunes the
   combinations of (future state, inner-call state, gate) that cannot occur *)
Ltac poll_cases c :=
  match goal with H : Linv _ _ _ ?l |- _ =>
    let H1 := fresh "H1" in let H2 := fresh "H2" in let H3 := fresh "H3" in
    let H4 := fresh "H4" in let H5 := fresh "H5" in let H6 := fresh "H6" in
    let H7 := fresh "H7" in let H8 := fresh "H8" in let H9 := fresh "H9" in
    let cs0 := fresh "cs0" in let in0 := fresh "in0" in let g0 := fresh "g0" in
    let w0 := fresh "w0" in let a0 := fresh "a0" in let dl := fresh "dl" in
    let Ec := fresh "Ec" in let E := fresh "E" in let a := fresh "a" in let oi := fresh "oi" in
    destruct H as (H1&H2&H3&H4&H5&H6&H7&H8&H9);
    destruct l as [cs0 in0 g0 w0 a0]; cbn in *;
    unfold lpoll, poll_cancel, poll_select, task_run, rx_state, finish_inner; cbn;
    destruct cs0 as [|dl| |]; cbn;
    [ destruct (H1 eq_refl) as (-> & -> & ->);
      destruct (cancel c) eqn:Ec; destruct g0 as [[]|]; cbn;
      try destruct (_ <=? _) eqn:E; cbn
    | destruct (H2 dl eq_refl) as (a & -> & ->);
      destruct (cancel c) eqn:Ec;
      [ assert (in0 = IRunning) as -> by (apply H4; eauto);
        destruct g0 as [[]|]; cbn; try destruct (_ <=? _) eqn:E; cbn
      | destruct in0 as [| |oi|]; destruct g0 as [[]|]; cbn;
        try destruct (_ <=? _) eqn:E; try destruct oi; cbn ]
    | | ]
  end.

Lemma linv_poll c i t l : Linv c i t l -> Linv c i t (fst (lpoll c i t l)).
Proof. intros H. poll_cases c; fin. Qed.

Lemma linv_drop c i t l : Linv c i t l -> Linv c i t (ldrop c l).
Proof.
  intros (H1&H2&H3&H4&H5&H6&H7&H8&H9).
  destruct l as [cs0 in0 g0 w0 a0]; cbn in *. unfold ldrop; cbn.
  destruct cs0 as [|dl| |]; cbn; try destruct (cancel c) eqn:Ec; fin.
Qed.

Lemma linv_complete c i t l o : Linv c i t l -> Linv c i t (lcomplete c l o).
Proof.
  intros (H1&H2&H3&H4&H5&H6&H7&H8&H9).
  destruct l as [cs0 in0 g0 w0 a0]; cbn in *. unfold lcomplete, task_run, finish_inner; cbn.
  destruct g0 as [g|]; [fin; fail|].
  destruct (cancel c) eqn:Ec; destruct cs0 as [|dl| |]; cbn; try solve [fin];
    destruct in0 as [| |oi|]; destruct o; cbn; fin.
Qed.

Lemma linv_advance c i t t1 l : t <= t1 -> Linv c i t l -> Linv c i t1 (ladvance t t1 l).
Proof.
  intros Ht H. apply (linv_mono c i t t1) in H; [|exact Ht].
  destruct H as (H1&H2&H3&H4&H5&H6&H7&H8&H9).
  destruct l as [cs0 in0 g0 w0 a0]; cbn in *. unfold ladvance, timer_fires; cbn.
  destruct cs0 as [|dl| |]; cbn; rewrite ?Bool.orb_false_r; fin.
Qed.

(* ---------- global invariant ---------- *)
Definition Inv (c : cfg) (s : st) : Prop :=
  0 <= now s /\ forall i, Linv c i (now s) (callers s i).

Lemma callers_on_same s i l : callers (on s i l) i = l.
Proof. cbn. apply upd_same. Qed.
Lemma callers_on_other s i l j : j <> i -> callers (on s i l) j = callers s j.
Proof. intros H. cbn. apply upd_other. exact H. Qed.

Lemma step_poll c s i :
  step c s (Poll i) =
  (on s i (fst (lpoll c i (now s) (callers s i))), snd (lpoll c i (now s) (callers s i))).
Proof. cbn [step]. destruct (lpoll c i (now s) (callers s i)). reflexivity. Qed.

Lemma inv_on c s i l : Inv c s -> Linv c i (now s) l -> Inv c (on s i l).
Proof.
  intros [H0 H] Hl. split; [exact H0|]. intros j. cbn [now on].
  destruct (Nat.eq_dec j i) as [->|Hne].
  - rewrite callers_on_same. exact Hl.
  - rewrite callers_on_other by exact Hne. apply H.
Qed.

Lemma inv_init c : Inv c init.
Proof. split; [cbn; lia|]. intros i. apply linv_init. cbn. lia. Qed.

Lemma inv_step c s e : Inv c s -> Inv c (step_st c s e).
Proof.
  intros HI. unfold step_st. destruct e as [j|j|j|d|j o].
  - exact HI.
  - rewrite step_poll. cbn [fst]. apply inv_on; [exact HI|]. apply linv_poll. apply HI.
  - cbn [step fst]. apply inv_on; [exact HI|]. apply linv_drop. apply HI.
  - cbn [step fst]. destruct HI as [H0 H]. split; cbn [now callers]; [lia|].
    intros i. apply linv_advance; [lia|apply H].
  - cbn [step fst]. apply inv_on; [exact HI|]. apply linv_complete. apply HI.
Qed.

Lemma inv_run c evs : Inv c (run c evs).
Proof. unfold run. apply fold_left_inv; [apply inv_init|apply inv_step]. Qed.

Lemma linv_run c evs i : Linv c i (now (run c evs)) (callers (run c evs) i).
Proof. apply inv_run. Qed.

(* ---------- one poll, locally ---------- *)
Lemma l_no_early_timeout c i t l :
  Linv c i t l -> r (snd (lpoll c i t l)) = 3 -> lgate l <> Some OPanic ->
  exists a, larrival (fst (lpoll c i t l)) = Some a /\ a + tmo c i <= t.
Proof.
  intros H. poll_cases c; intros Hr Hg; try discriminate; try congruence;
    try (eexists; split; [reflexivity|lia]).
  all: spec_inv; try congruence; exfalso; apply Hg; auto.
Qed.

Lemma l_result c i t l o :
  Linv c i t l -> lgate l = Some o -> o <> OPanic ->
  (cancel c = true /\ (lcs l = Created \/ exists dl, lcs l = Active dl)) \/
  (cancel c = false /\ exists dl, lcs l = Active dl) ->
  snd (lpoll c i t l) = result i o /\
  lcs (fst (lpoll c i t l)) = Done /\ linner (fst (lpoll c i t l)) = IFinished o.
Proof.
  intros H. poll_cases c; intros Hg Ho Hc; try discriminate; try congruence;
    try (injection Hg as <-); try (exfalso; apply Ho; reflexivity);
    try (destruct Hc as [[Hc1 Hc2]|[Hc1 [d Hc2]]]; try discriminate;
         try (destruct Hc2 as [Hc2|[d Hc2]]; discriminate));
    spec_inv; try tauto; try congruence; auto.
  all: try (exfalso; firstorder congruence).
Qed.

Lemma l_timeout c i t l :
  Linv c i t l -> lgate l = None ->
  (exists dl, lcs l = Active dl /\ dl <= t) \/ (lcs l = Created /\ tmo c i <= 0) ->
  snd (lpoll c i t l) = timed_out /\ lcs (fst (lpoll c i t l)) = Done.
Proof.
  intros H. poll_cases c; intros Hg Hc; try discriminate; auto;
    try (destruct Hc as [[d [Hc1 Hc2]]|[Hc1 Hc2]]; try discriminate;
         try (injection Hc1 as <-); lia);
    spec_inv; try congruence.
  all: try (destruct Hc as [[d [Hc1 Hc2]]|[Hc1 Hc2]]; try discriminate;
         try (injection Hc1 as <-); lia).
  all: try (exfalso; firstorder congruence).
Qed.

Lemma l_pending c i t l :
  Linv c i t l -> lgate l = None ->
  (exists dl, lcs l = Active dl /\ t < dl) \/ (lcs l = Created /\ 0 < tmo c i) ->
  snd (lpoll c i t l) = pending /\
  exists dl, lcs (fst (lpoll c i t l)) = Active dl /\ t < dl.
Proof.
  intros H. poll_cases c; intros Hg Hc; try discriminate;
    try (split; [reflexivity|eexists; split; [reflexivity|lia]]);
    try (destruct Hc as [[d [Hc1 Hc2]]|[Hc1 Hc2]]; try discriminate;
         try (injection Hc1 as <-); lia);
    spec_inv; try congruence.
  all: try (exfalso; firstorder congruence).
Qed.

(* both the inner result and the timer are ready *)
Lemma l_tie c i t l o dl :
  Linv c i t l -> lcs l = Active dl -> lgate l = Some o -> o <> OPanic -> dl <= t ->
  snd (lpoll c i t l) = result i o /\
  lcs (fst (lpoll c i t l)) = Done.
Proof.
  intros H. poll_cases c; intros Hc Hg Ho Hd; try discriminate;
    try (injection Hc as <-); try (injection Hg as <-); try lia; auto;
    try (exfalso; apply Ho; reflexivity); spec_inv; try congruence.
  all: try (exfalso; firstorder congruence).
Qed.

Lemma l_cancel_drop c i t l :
  Linv c i t l -> cancel c = true -> r (snd (lpoll c i t l)) = 3 ->
  linner (fst (lpoll c i t l)) = IDropped /\ lcs (fst (lpoll c i t l)) = Done.
Proof.
  intros H. poll_cases c; intros Hc Hr; try discriminate; auto.
Qed.

(* non-cancel mode: the inner call is started by the first poll and is never touched by
   polls or drops afterwards *)
Lemma l_nocancel_poll c i t l :
  Linv c i t l -> cancel c = false ->
  (lcs l = Created -> linner (fst (lpoll c i t l)) <> INone) /\
  (linner l <> INone -> linner (fst (lpoll c i t l)) = linner l).
Proof.
  intros H. poll_cases c; intros Hc; try discriminate; split; intros; cbn; try congruence; auto.
Qed.

Lemma l_nocancel_drop c l : cancel c = false -> linner (ldrop c l) = linner l.
Proof.
  intros Hc. destruct l as [cs0 in0 g0 w0 a0]. unfold ldrop; cbn. rewrite Hc.
  destruct cs0; reflexivity.
Qed.

Lemma l_advance_core t0 t1 l :
  lcs (ladvance t0 t1 l) = lcs l /\ linner (ladvance t0 t1 l) = linner l /\
  lgate (ladvance t0 t1 l) = lgate l /\ larrival (ladvance t0 t1 l) = larrival l.
Proof. destruct l. cbn. auto. Qed.

Lemma l_advance_wake t0 t1 l dl :
  lcs l = Active dl -> t0 < dl -> dl <= t1 -> lwoken (ladvance t0 t1 l) = true.
Proof.
  intros Hc H0 H1. destruct l as [cs0 in0 g0 w0 a0]; cbn in *. subst.
  unfold timer_fires; cbn.
  replace (t0 <? dl) with true by (symmetry; apply Z.ltb_lt; lia).
  replace (dl <=? t1) with true by (symmetry; apply Z.leb_le; lia).
  apply Bool.orb_true_r.
Qed.

Lemma l_complete c i t l o :
  Linv c i t l -> lgate l = None ->
  lgate (lcomplete c l o) = Some o /\ lcs (lcomplete c l o) = lcs l /\
  larrival (lcomplete c l o) = larrival l /\
  ((exists dl, lcs l = Active dl) -> lwoken (lcomplete c l o) = true) /\
  (cancel c = true -> linner (lcomplete c l o) = linner l) /\
  (cancel c = false -> linner l = IRunning ->
     linner (lcomplete c l o) = match o with OPanic => IDropped | _ => IFinished o end) /\
  (linner l <> IRunning -> linner (lcomplete c l o) = linner l).
Proof.
  intros (H1&H2&H3&H4&H5&H6&H7&H8&H9) Hg.
  destruct l as [cs0 in0 g0 w0 a0]; cbn in *. subst g0.
  unfold lcomplete, task_run, finish_inner; cbn.
  destruct (cancel c) eqn:Ec.
  - destruct cs0; cbn; repeat split; auto; try discriminate; intros [d Hd]; discriminate.
  - destruct in0 as [| |oi|]; cbn; try (destruct cs0; cbn);
      repeat split; auto; try discriminate; try congruence;
      try (intros [d Hd]; try discriminate);
      try (destruct o; reflexivity); spec_inv;
      try (exfalso; firstorder congruence).
Qed.

Lemma l_complete_noop c l o g : lgate l = Some g -> lcomplete c l o = l.
Proof. intros H. unfold lcomplete. rewrite H. reflexivity. Qed.

(* ---------- lifting to runs ---------- *)
Ltac unf := unfold cs, inner, gate, woken, arrival in *.

Lemma step_st_poll c s i :
  step_st c s (Poll i) = on s i (fst (lpoll c i (now s) (callers s i))).
Proof. unfold step_st. rewrite step_poll. reflexivity. Qed.

Lemma deadline_from_first_poll c evs i :
  let s := run c evs in
  (cs s i = Created -> arrival s i = None /\ inner s i = INone) /\
  (forall a, arrival s i = Some a -> a <= now s /\ cs s i <> Created) /\
  (forall dl, cs s i = Active dl -> exists a, arrival s i = Some a /\ dl = a + tmo c i) /\
  (cs s i = Created -> arrival (step_st c s (Poll i)) i = Some (now s)) /\
  (forall e a, arrival s i = Some a -> arrival (step_st c s e) i = Some a) /\
  (forall j, step_st c s (Call j) = s).
Proof.
  intros s. pose proof (linv_run c evs i) as H. fold s in H.
  destruct H as (H1&H2&H3&H4&H5&H6&H7&H8&H9). unf.
  repeat split.
  - apply H1; assumption.
  - apply H1; assumption.
  - apply (H3 a); assumption.
  - apply (H3 a); assumption.
  - exact H2.
  - intros Hc. rewrite step_st_poll, callers_on_same.
    destruct (callers s i) as [cs0 in0 g0 w0 a0]; cbn in *. subst cs0.
    unfold lpoll, poll_cancel, poll_select, task_run, rx_state, finish_inner; cbn.
    destruct (H1 eq_refl) as (-> & -> & ->).
    destruct (cancel c); destruct g0 as [[]|]; cbn; try destruct (_ <=? _); reflexivity.
  - intros e a Ha. unfold step_st. destruct e as [j|j|j|d|j o].
    + exact Ha.
    + rewrite step_poll. cbn [fst]. destruct (Nat.eq_dec i j) as [->|Hne].
      * rewrite callers_on_same.
        destruct (callers s j) as [cs0 in0 g0 w0 a0]; cbn in *. subst a0.
        unfold lpoll, poll_cancel, poll_select, task_run, rx_state, finish_inner; cbn.
        destruct (H3 a eq_refl) as [_ Hnc].
        destruct cs0; try congruence; cbn; destruct (cancel c); destruct g0 as [[]|]; cbn;
          try destruct (_ <=? _); try reflexivity;
          destruct in0 as [| |[]|]; reflexivity.
      * rewrite callers_on_other by exact Hne. exact Ha.
    + cbn [step fst]. destruct (Nat.eq_dec i j) as [->|Hne].
      * rewrite callers_on_same. destruct (callers s j) as [cs0 in0 g0 w0 a0]; cbn in *.
        unfold ldrop; cbn. destruct cs0; cbn; try destruct (cancel c); exact Ha.
      * rewrite callers_on_other by exact Hne. exact Ha.
    + cbn [step fst callers]. destruct (l_advance_core (now s) (now s + Z.max 0 d) (callers s i)) as (_&_&_&->).
      exact Ha.
    + cbn [step fst]. destruct (Nat.eq_dec i j) as [->|Hne].
      * rewrite callers_on_same. destruct (callers s j) as [cs0 in0 g0 w0 a0]; cbn in *.
        unfold lcomplete, task_run, finish_inner; cbn.
        destruct g0; [exact Ha|]. destruct (cancel c); cbn.
        -- destruct cs0; exact Ha.
        -- destruct in0; try exact Ha. destruct o; cbn; destruct cs0; exact Ha.
      * rewrite callers_on_other by exact Hne. exact Ha.
Qed.

Lemma no_timeout_before_deadline c evs i :
  let s := run c evs in
  r (snd (step c s (Poll i))) = 3 -> gate s i <> Some OPanic ->
  exists a, arrival (step_st c s (Poll i)) i = Some a /\ a + tmo c i <= now s.
Proof.
  intros s. rewrite step_st_poll, step_poll. unf. rewrite callers_on_same. cbn [snd].
  apply l_no_early_timeout. apply linv_run.
Qed.

Lemma result_now c evs i o :
  let s := run c evs in
  gate s i = Some o -> o <> OPanic ->
  (cancel c = true /\ (cs s i = Created \/ exists dl, cs s i = Active dl)) \/
  (cancel c = false /\ exists dl, cs s i = Active dl) ->
  snd (step c s (Poll i)) = result i o /\
  cs (step_st c s (Poll i)) i = Done /\ inner (step_st c s (Poll i)) i = IFinished o.
Proof.
  intros s. rewrite step_st_poll, step_poll. unf. rewrite callers_on_same. cbn [snd].
  apply l_result. apply linv_run.
Qed.

Lemma timeout_now c evs i :
  let s := run c evs in
  gate s i = None ->
  (exists dl, cs s i = Active dl /\ dl <= now s) \/ (cs s i = Created /\ tmo c i <= 0) ->
  snd (step c s (Poll i)) = timed_out /\ cs (step_st c s (Poll i)) i = Done.
Proof.
  intros s. rewrite step_st_poll, step_poll. unf. rewrite callers_on_same. cbn [snd].
  apply l_timeout. apply linv_run.
Qed.

Lemma pending_now c evs i :
  let s := run c evs in
  gate s i = None ->
  (exists dl, cs s i = Active dl /\ now s < dl) \/ (cs s i = Created /\ 0 < tmo c i) ->
  snd (step c s (Poll i)) = pending /\
  exists dl, cs (step_st c s (Poll i)) i = Active dl /\ now s < dl.
Proof.
  intros s. rewrite step_st_poll, step_poll. unf. rewrite callers_on_same. cbn [snd].
  apply l_pending. apply linv_run.
Qed.

Lemma timer_wakes c evs i dl d :
  let s := run c evs in
  cs s i = Active dl -> now s < dl -> dl <= now s + d ->
  woken (step_st c s (Advance d)) i = true /\ cs (step_st c s (Advance d)) i = Active dl.
Proof.
  intros s Hc H0 H1. unfold step_st. cbn [step fst]. unf. cbn [callers]. split.
  - apply (l_advance_wake _ _ _ dl); [exact Hc|exact H0|lia].
  - destruct (l_advance_core (now s) (now s + Z.max 0 d) (callers s i)) as (->&_). exact Hc.
Qed.

Lemma tie_either c evs i o dl :
  let s := run c evs in
  cs s i = Active dl -> gate s i = Some o -> o <> OPanic -> dl <= now s ->
  snd (step c s (Poll i)) =
    result i o /\
  cs (step_st c s (Poll i)) i = Done.
Proof.
  intros s. rewrite step_st_poll, step_poll. unf. rewrite callers_on_same. cbn [snd].
  apply l_tie. apply linv_run.
Qed.

Lemma cancel_drops c evs i :
  let s := run c evs in
  cancel c = true ->
  (inner s i = IRunning <-> exists dl, cs s i = Active dl) /\
  (r (snd (step c s (Poll i))) = 3 ->
     inner (step_st c s (Poll i)) i = IDropped /\ cs (step_st c s (Poll i)) i = Done /\
     exists a, arrival (step_st c s (Poll i)) i = Some a /\ a + tmo c i <= now s) /\
  ((exists dl, cs s i = Active dl) -> inner (step_st c s (Drop i)) i = IDropped).
Proof.
  intros s Hc. pose proof (linv_run c evs i) as H. fold s in H. split; [|split].
  - destruct H as (H1&H2&H3&H4&H5&H6&H7&H8&H9). unf. apply H4. exact Hc.
  - intros Hr. rewrite step_st_poll. rewrite step_poll in Hr. cbn [snd] in Hr.
    unf. rewrite callers_on_same.
    destruct (l_cancel_drop c i _ _ H Hc Hr) as [Ha Hb]. repeat split; try assumption.
    apply l_no_early_timeout; [exact H|exact Hr|].
    (* a panic is reported as a panic in cancel mode, never as Timeout *)
    intros Hg. revert Hr. clear -Hg Hc H.
    poll_cases c; intros; try discriminate; try congruence.
  - intros [dl Hd]. unfold step_st. cbn [step fst]. unf. rewrite callers_on_same.
    destruct (callers s i) as [cs0 in0 g0 w0 a0]; cbn in *. subst cs0.
    unfold ldrop; cbn. rewrite Hc. reflexivity.
Qed.

Lemma nocancel_runs_on c evs i :
  let s := run c evs in
  cancel c = false ->
  (cs s i = Created -> inner (step_st c s (Poll i)) i <> INone) /\
  (inner s i = IDropped -> gate s i = Some OPanic) /\
  (forall e, inner s i = IRunning ->
     inner (step_st c s e) i = IRunning \/ exists o, e = Complete i o) /\
  (forall o, inner s i = IRunning ->
     inner (step_st c s (Complete i o)) i = match o with OPanic => IDropped | _ => IFinished o end) /\
  (forall e o, inner s i = IFinished o -> inner (step_st c s e) i = IFinished o).
Proof.
  intros s Hc. pose proof (linv_run c evs i) as H. fold s in H.
  assert (Hstep : forall e, (forall o, e <> Complete i o) -> inner s i <> INone ->
                    inner (step_st c s e) i = inner s i).
  { intros e He Hn. unfold step_st. destruct e as [j|j|j|d|j o]; unf.
    - reflexivity.
    - rewrite step_poll. cbn [fst]. destruct (Nat.eq_dec i j) as [->|Hne].
      + rewrite callers_on_same. apply (l_nocancel_poll c j _ _ (linv_run c evs j) Hc). exact Hn.
      + rewrite callers_on_other by exact Hne. reflexivity.
    - cbn [step fst]. destruct (Nat.eq_dec i j) as [->|Hne].
      + rewrite callers_on_same. apply l_nocancel_drop. exact Hc.
      + rewrite callers_on_other by exact Hne. reflexivity.
    - cbn [step fst callers]. apply l_advance_core.
    - cbn [step fst]. destruct (Nat.eq_dec i j) as [->|Hne].
      + exfalso. apply (He o). reflexivity.
      + rewrite callers_on_other by exact Hne. reflexivity. }
  repeat split.
  - intros Hcr. rewrite step_st_poll. unf. rewrite callers_on_same.
    apply (l_nocancel_poll c i _ _ H Hc). exact Hcr.
  - destruct H as (H1&H2&H3&H4&H5&H6&H7&H8&H9). unf. apply H8. exact Hc.
  - intros e Hr. destruct e as [j|j|j|d|j o].
    5: destruct (Nat.eq_dec j i) as [->|Hne]; [right; eexists; reflexivity|].
    all: left; rewrite Hstep; try exact Hr; try (intros o' Ho'; discriminate); try congruence.
  - intros o Hr. unfold step_st. cbn [step fst]. unf. rewrite callers_on_same.
    assert (Hg : lgate (callers s i) = None).
    { destruct H as (H1&H2&H3&H4&H5&H6&H7&H8&H9). apply H6; assumption. }
    apply (l_complete c i _ _ o H Hg); assumption.
  - intros e o Hf. destruct e as [j|j|j|d|j o'].
    5: destruct (Nat.eq_dec j i) as [->|Hne].
    5: { unfold step_st. cbn [step fst]. unf. rewrite callers_on_same.
         destruct H as (H1&H2&H3&H4&H5&H6&H7&H8&H9). destruct (H7 o Hf) as [Hg _].
         rewrite (l_complete_noop c _ o' o Hg). exact Hf. }
    all: rewrite Hstep; try exact Hf; try (intros o'' Ho''; discriminate); try congruence.
Qed.

(* ---------- events that do not poll or drop caller i ---------- *)
Definition core (l : loc) := (lcs l, linner l, lgate l, larrival l).

Lemma quiet_step c s e i :
  e <> Drop i -> e <> Poll i ->
  (lgate (callers s i) <> None \/ forall o, e <> Complete i o) ->
  core (callers (step_st c s e) i) = core (callers s i) /\ now s <= now (step_st c s e).
Proof.
  intros Hd Hp Hc. unfold step_st. destruct e as [j|j|j|d|j o].
  - cbn [step fst]. split; [reflexivity|lia].
  - rewrite step_poll. cbn [fst now on]. destruct (Nat.eq_dec i j) as [->|Hne].
    + exfalso. apply Hp. reflexivity.
    + rewrite callers_on_other by exact Hne. split; [reflexivity|lia].
  - cbn [step fst now on]. destruct (Nat.eq_dec i j) as [->|Hne].
    + exfalso. apply Hd. reflexivity.
    + rewrite callers_on_other by exact Hne. split; [reflexivity|lia].
  - cbn [step fst now callers]. split; [|lia]. unfold core.
    destruct (l_advance_core (now s) (now s + Z.max 0 d) (callers s i)) as (->&->&->&->). reflexivity.
  - cbn [step fst now on]. destruct (Nat.eq_dec i j) as [->|Hne].
    + rewrite callers_on_same. destruct Hc as [Hg|Hn].
      * destruct (lgate (callers s j)) as [g|] eqn:Eg; [|congruence].
        rewrite (l_complete_noop c _ o g Eg). split; [reflexivity|lia].
      * exfalso. apply (Hn o). reflexivity.
    + rewrite callers_on_other by exact Hne. split; [reflexivity|lia].
Qed.

Lemma quiet_run c evs s i :
  (forall e, In e evs -> e <> Drop i /\ e <> Poll i /\
     (lgate (callers s i) <> None \/ forall o, e <> Complete i o)) ->
  core (callers (fold_left (step_st c) evs s) i) = core (callers s i) /\
  now s <= now (fold_left (step_st c) evs s).
Proof.
  revert s. induction evs as [|e t IH]; intros s H; cbn [fold_left].
  - split; [reflexivity|lia].
  - destruct (H e (or_introl eq_refl)) as (Hd & Hp & Hc).
    destruct (quiet_step c s e i Hd Hp Hc) as [Hcore Hnow].
    destruct (IH (step_st c s e)) as [Hc2 Hn2].
    + intros e' Hin. destruct (H e' (or_intror Hin)) as (Hd' & Hp' & Hc'). repeat split; auto.
      unfold core in Hcore. injection Hcore as _ _ Hg _. rewrite Hg. exact Hc'.
    + split; [congruence|lia].
Qed.

Lemma run_app c evs1 evs2 : run c (evs1 ++ evs2) = fold_left (step_st c) evs2 (run c evs1).
Proof. unfold run. apply fold_left_app. Qed.

Lemma result_if_before c evs1 i o evs2 dl :
  let s1 := run c evs1 in
  cs s1 i = Active dl -> gate s1 i = None -> o <> OPanic ->
  (forall e, In e evs2 -> e <> Drop i /\ e <> Poll i) ->
  let s2 := run c (evs1 ++ Complete i o :: evs2) in
  woken (step_st c s1 (Complete i o)) i = true /\
  snd (step c s2 (Poll i)) = result i o /\
  cs (step_st c s2 (Poll i)) i = Done /\ inner (step_st c s2 (Poll i)) i = IFinished o.
Proof.
  intros s1 Hc Hg Ho Hq s2.
  pose proof (linv_run c evs1 i) as H1. fold s1 in H1. unf.
  destruct (l_complete c i _ _ o H1 Hg) as (Hg' & Hc' & _ & Hw & _).
  set (s1' := step_st c s1 (Complete i o)).
  assert (Hs1' : callers s1' i = lcomplete c (callers s1 i) o).
  { unfold s1', step_st. cbn [step fst]. apply callers_on_same. }
  split.
  { fold s1'. rewrite Hs1'. apply Hw. eexists. exact Hc. }
  assert (Hs2 : s2 = fold_left (step_st c) evs2 s1').
  { unfold s2. rewrite run_app. cbn [fold_left]. reflexivity. }
  destruct (quiet_run c evs2 s1' i) as [Hcore Hnow].
  { intros e Hin. destruct (Hq e Hin) as [Hd Hp]. repeat split; auto.
    left. rewrite Hs1', Hg'. discriminate. }
  rewrite <- Hs2 in Hcore. unfold core in Hcore. rewrite Hs1' in Hcore.
  injection Hcore as Hcs _ Hgt _.
  apply (result_now c (evs1 ++ Complete i o :: evs2) i o); fold s2; unf.
  - rewrite Hgt. exact Hg'.
  - exact Ho.
  - destruct (cancel c) eqn:Ec.
    + left. split; [reflexivity|]. right. exists dl. rewrite Hcs, Hc'. exact Hc.
    + right. split; [reflexivity|]. exists dl. rewrite Hcs, Hc'. exact Hc.
Qed.

Lemma timeout_if_after c evs1 i evs2 dl :
  let s1 := run c evs1 in
  cs s1 i = Active dl -> gate s1 i = None ->
  (forall e, In e evs2 -> e <> Drop i /\ e <> Poll i /\ forall o, e <> Complete i o) ->
  let s2 := run c (evs1 ++ evs2) in
  dl <= now s2 ->
  snd (step c s2 (Poll i)) = timed_out /\ cs (step_st c s2 (Poll i)) i = Done.
Proof.
  intros s1 Hc Hg Hq s2 Hd. unf.
  assert (Hs2 : s2 = fold_left (step_st c) evs2 s1) by (unfold s2; apply run_app).
  destruct (quiet_run c evs2 s1 i) as [Hcore Hnow].
  { intros e Hin. destruct (Hq e Hin) as (Ha & Hb & Hcc). repeat split; auto. }
  rewrite <- Hs2 in Hcore. unfold core in Hcore. injection Hcore as Hcs _ Hgt _.
  apply (timeout_now c (evs1 ++ evs2) i); fold s2; unf.
  - rewrite Hgt. exact Hg.
  - left. exists dl. split; [rewrite Hcs; exact Hc|exact Hd].
Qed.

(* ---------- independence of concurrent calls ---------- *)
Definition concerns (i : nat) (e : ev) : bool :=
  match e with
  | Advance _ => true
  | Call j | Poll j | Drop j | Complete j _ => Nat.eqb j i
  end.

Lemma step_rel c e i s s' :
  now s = now s' -> callers s i = callers s' i -> concerns i e = true ->
  now (step_st c s e) = now (step_st c s' e) /\
  callers (step_st c s e) i = callers (step_st c s' e) i.
Proof.
  intros Hn Hc Ek. unfold step_st. destruct e as [j|j|j|d|j o]; cbn in Ek;
    try (apply Nat.eqb_eq in Ek; subst j).
  - cbn [step fst]. split; assumption.
  - rewrite !step_poll. cbn [fst now on]. rewrite !callers_on_same. rewrite Hn, Hc. split; reflexivity.
  - cbn [step fst now on]. rewrite !callers_on_same. rewrite Hc. split; [exact Hn|reflexivity].
  - cbn [step fst now callers]. rewrite Hn, Hc. split; reflexivity.
  - cbn [step fst now on]. rewrite !callers_on_same. rewrite Hc. split; [exact Hn|reflexivity].
Qed.

(* an event on another caller changes nothing of caller i *)
Lemma other_caller_frame c s e i :
  concerns i e = false -> callers (step_st c s e) i = callers s i /\ now (step_st c s e) = now s.
Proof.
  intros Ek. unfold step_st. destruct e as [j|j|j|d|j o]; cbn in Ek; try discriminate;
    apply Nat.eqb_neq in Ek.
  - cbn [step fst]. split; reflexivity.
  - rewrite step_poll. cbn [fst now on]. rewrite callers_on_other by congruence. split; reflexivity.
  - cbn [step fst now on]. rewrite callers_on_other by congruence. split; reflexivity.
  - cbn [step fst now on]. rewrite callers_on_other by congruence. split; reflexivity.
Qed.

Lemma indep_gen c i evs : forall s s',
  now s = now s' -> callers s i = callers s' i ->
  now (fold_left (step_st c) evs s) = now (fold_left (step_st c) (filter (concerns i) evs) s') /\
  callers (fold_left (step_st c) evs s) i =
  callers (fold_left (step_st c) (filter (concerns i) evs) s') i.
Proof.
  induction evs as [|e t IH]; intros s s' Hn Hc; cbn [fold_left filter].
  - split; assumption.
  - destruct (concerns i e) eqn:Ek; cbn [fold_left].
    + destruct (step_rel c e i s s' Hn Hc Ek) as [Hn' Hc']. apply IH; assumption.
    + destruct (other_caller_frame c s e i Ek) as [Hc' Hn']. apply IH; congruence.
Qed.

Lemma calls_independent c evs i :
  let s := run c evs in let s' := run c (filter (concerns i) evs) in
  now s = now s' /\ callers s i = callers s' i /\
  snd (step c s (Poll i)) = snd (step c s' (Poll i)).
Proof.
  intros s s'. destruct (indep_gen c i evs init init eq_refl eq_refl) as [Hn Hc].
  fold (run c evs) in Hn, Hc. fold (run c (filter (concerns i) evs)) in Hn, Hc.
  fold s in Hn, Hc. fold s' in Hn, Hc.
  repeat split; try assumption. rewrite !step_poll. cbn [snd]. rewrite Hn, Hc. reflexivity.
Qed.


(* ---------- non-vacuity: the hypotheses of the theorems are met by reachable states ---------- *)
Definition c_cancel : cfg := {| cancel := true; tmo := fun i => if Nat.eqb i 0 then 10 else 25 |}.
Definition c_nocancel : cfg := {| cancel := false; tmo := fun i => if Nat.eqb i 0 then 10 else 25 |}.

(* inner result strictly before the deadline: delivered at the next poll, both modes *)
Example ex_result_before_cancel :
  let s := run c_cancel [Poll 0; Advance 9; Complete 0 OErr] in
  cs s 0%nat = Active 10 /\ gate s 0%nat = Some OErr /\ now s = 9 /\ woken s 0%nat = true /\
  snd (step c_cancel s (Poll 0)) = result 0 OErr.
Proof. vm_compute. repeat split; reflexivity. Qed.

Example ex_result_before_nocancel :
  let s := run c_nocancel [Call 0; Advance 3; Poll 0; Advance 9; Complete 0 OOk] in
  cs s 0%nat = Active 13 /\ gate s 0%nat = Some OOk /\ now s = 12 /\ woken s 0%nat = true /\
  inner s 0%nat = IFinished OOk /\ snd (step c_nocancel s (Poll 0)) = result 0 OOk.
Proof. vm_compute. repeat split; reflexivity. Qed.

(* inner unfinished at the deadline: woken by the timer, Timeout at the poll; the inner future is
   dropped in cancel mode and keeps running (and later finishes) in non-cancel mode *)
Example ex_timeout_cancel :
  let s := run c_cancel [Poll 0; Advance 10] in
  cs s 0%nat = Active 10 /\ gate s 0%nat = None /\ now s = 10 /\ woken s 0%nat = true /\
  inner s 0%nat = IRunning /\
  snd (step c_cancel s (Poll 0)) = timed_out /\
  inner (step_st c_cancel s (Poll 0)) 0%nat = IDropped.
Proof. vm_compute. repeat split; reflexivity. Qed.

Example ex_timeout_nocancel_runs_on :
  let s := run c_nocancel [Poll 0; Advance 10; Poll 0] in
  cs s 0%nat = Done /\ inner s 0%nat = IRunning /\
  inner (step_st c_nocancel s (Complete 0 OOk)) 0%nat = IFinished OOk /\
  inner (run c_nocancel [Poll 0; Drop 0; Advance 50; Complete 0 OErr]) 0%nat = IFinished OErr.
Proof. vm_compute. repeat split; reflexivity. Qed.

(* exact tie: inner completes at the deadline instant - the result wins in both modes *)
Example ex_tie :
  let evs := [Poll 0; Advance 10; Complete 0 OOk] in
  cs (run c_cancel evs) 0%nat = Active 10 /\ now (run c_cancel evs) = 10 /\
  snd (step c_cancel (run c_cancel evs) (Poll 0)) = result 0 OOk /\
  snd (step c_nocancel (run c_nocancel evs) (Poll 0)) = result 0 OOk.
Proof. vm_compute. repeat split; reflexivity. Qed.

(* several concurrent calls with different deadlines *)
Example ex_concurrent :
  let evs := [Poll 0; Advance 5; Poll 1; Advance 5; Poll 0; Complete 1 OOk; Advance 24] in
  let s := run c_nocancel evs in
  cs s 0%nat = Done /\ cs s 1%nat = Active 30 /\ now s = 34 /\
  filter (concerns 1) evs = [Advance 5; Poll 1; Advance 5; Complete 1 OOk; Advance 24].
Proof. vm_compute. repeat split; reflexivity. Qed.

(* a result that was available strictly before the deadline is returned even when the future is
   polled only at/after the deadline (non-cancel mode: biased select!, receiver first) *)
Example ex_nocancel_late_poll_gets_result :
  let s := run c_nocancel [Poll 0; Advance 2; Complete 0 OOk; Advance 8] in
  inner s 0%nat = IFinished OOk /\ now s = 10 /\ cs s 0%nat = Active 10 /\
  snd (step c_nocancel s (Poll 0)) = result 0 OOk.
Proof. vm_compute. repeat split; reflexivity. Qed.

(* behaviour the property does not cover, kept visible: non-cancel mode, inner panic: reported
   as Timeout, before the deadline *)
Example ex_nocancel_panic_is_timeout :
  let s := run c_nocancel [Poll 0; Advance 2; Complete 0 OPanic] in
  now s = 2 /\ snd (step c_nocancel s (Poll 0)) = timed_out.
Proof. vm_compute. repeat split; reflexivity. Qed.
