(* C20 (transparency and listeners), tied to the per-layer models.
   Part 1 (kept from the first round): first-call lemmas over the per-layer step models.
   Part 2: [passes w (sem_of_X ...)] for the per-layer semantics of Model/LayerSem.v, over ANY
           non-triggering state of each model; the table [sem_of] run_script executes; the
           trace-level theorems for modes 0 and 4. *)
From TR Require Import Lib.Base Model.Layers Model.LayerSem Proof.Layers.
From TR Require Model.Bulkhead Model.Circuit Model.RateLimiter Model.Fallback Model.Retry Model.TimeLimiter
     Model.Cache Model.Reconnect Model.Coalesce Model.Chaos.
From TR Require Proof.RateLimiter.

(* ---- Part 1 ---------------------------------------------------------------------------------- *)

(* bulkhead with capacity >= 1, nobody else around *)
Lemma bulkhead_alone (c : Bulkhead.cfg) (o : Bulkhead.outcome) :
  (1 <= Bulkhead.cap c)%nat ->
  let p1 := Bulkhead.poll c (Bulkhead.init c) 0%nat in
  let s2 := Bulkhead.complete (fst p1) 0%nat o in
  let p3 := Bulkhead.poll c s2 0%nat in
  Bulkhead.started (snd p1) = true /\ Bulkhead.r (snd p1) = 0 /\
  Bulkhead.started (snd p3) = false /\
  Bulkhead.r (snd p3) = match o with Bulkhead.OOk => 1 | Bulkhead.OErr => 2 | Bulkhead.OPanic => 5 end /\
  Bulkhead.running (fst p3) = [] /\ Bulkhead.free (fst p3) = Bulkhead.cap c.
Proof.
  intros Hc. destruct c as [cap mw]. cbn in Hc. destruct cap as [|n]; [lia|].
  destruct o; cbn; repeat split; reflexivity.
Qed.

(* closed circuit breaker: the call is forwarded and its result returned, whatever the
   classifier says about it *)
Lemma circuit_closed_alone (cf : Circuit.cfg) (o : Circuit.outcome) :
  let p1 := Circuit.poll cf Circuit.init 0%nat in
  let s2 := Circuit.complete (fst p1) 0%nat o in
  let p3 := Circuit.poll cf s2 0%nat in
  Circuit.started (snd p1) = true /\ Circuit.r (snd p1) = 0 /\
  Circuit.started (snd p3) = false /\
  Circuit.r (snd p3) = match o with Circuit.OOk _ => 1 | Circuit.OErr _ => 2
                                    | Circuit.OPanic | Circuit.OCPanic => 5 end.
Proof.
  destruct o; cbn; repeat split; reflexivity.
Qed.

(* rate limiter with limit >= 1: the first call is admitted at once and forwarded once; a
   running call returns the inner outcome *)
Lemma ratelimiter_first_call_admitted (c : RateLimiter.cfg) :
  Proof.RateLimiter.wfc c ->
  RateLimiter.started (snd (RateLimiter.poll c (RateLimiter.init c) 0%nat)) = true /\
  RateLimiter.entered (fst (RateLimiter.poll c (RateLimiter.init c) 0%nat)) 0%nat = 1.
Proof.
  intros Hwf. pose proof Hwf as (Hl & HP & HT).
  assert (Hspare : snd (RateLimiter.try_acquire c (RateLimiter.now (RateLimiter.init c))
                                             (RateLimiter.lm (RateLimiter.init c))) = RateLimiter.AOk None).
  { cbn [RateLimiter.now RateLimiter.lm RateLimiter.init].
    assert (Ht : Forall (eq (RateLimiter.AOk None)) (Proof.RateLimiter.tries c 1 0 (RateLimiter.new_lim c))).
    { destruct (RateLimiter.wt c) eqn:Ew.
      - apply Proof.RateLimiter.fresh_fixed; [exact Hwf|exact Ew|reflexivity|cbn; lia].
      - apply Proof.RateLimiter.fresh_log; [exact Hwf|exact Ew|constructor|cbn; lia].
      - apply Proof.RateLimiter.fresh_counter; [exact Hwf|exact Ew|reflexivity|reflexivity|cbn; lia|cbn; lia]. }
    cbn [Proof.RateLimiter.tries] in Ht.
    destruct (RateLimiter.try_acquire c 0 (RateLimiter.new_lim c)) as [l' a]. inversion Ht; subst. reflexivity. }
  destruct (Proof.RateLimiter.admitted_at_once c (RateLimiter.init c) 0%nat eq_refl Hspare) as [H1 H2].
  split; [exact H1|]. rewrite H2. reflexivity.
Qed.

Lemma ratelimiter_running_returns_outcome (c : RateLimiter.cfg) (s : RateLimiter.st) (i : nat) o :
  RateLimiter.cs s i = RateLimiter.Running -> RateLimiter.gate s i = Some o ->
  RateLimiter.started (snd (RateLimiter.poll c s i)) = false /\
  RateLimiter.r (snd (RateLimiter.poll c s i)) =
    match o with RateLimiter.OOk => 1 | RateLimiter.OErr => 2 | RateLimiter.OPanic => 5 end.
Proof.
  intros Hr Hg. unfold RateLimiter.poll. cbn. rewrite Hr. unfold RateLimiter.poll_running. cbn.
  rewrite Hg. cbn. split; reflexivity.
Qed.

(* fallback: success passes through; an error the predicate refuses passes through as Inner *)
Lemma fallback_nontriggering {Req Res Err : Type}
      (st : Fallback.strategy Req Res Err) pred inner backup req :
  (forall e, inner req = inr e -> exists p, pred = Some p /\ p e = false) ->
  Fallback.inner_calls (Fallback.call st pred inner backup req) = [req] /\
  Fallback.backup_calls (Fallback.call st pred inner backup req) = [] /\
  Fallback.out (Fallback.call st pred inner backup req) =
    match inner req with inl r => inl r | inr e => inr (Fallback.Inner e) end.
Proof.
  intros H. unfold Fallback.call. destruct (inner req) as [r|e] eqn:E; [repeat split|].
  destruct (H e eq_refl) as (p & -> & Hp). rewrite Hp. cbn. repeat split.
Qed.

(* ---- Part 2 ---------------------------------------------------------------------------------- *)
Section Generic.
  Context {E : Type} (w : E -> E) (made : Z -> E).

  Lemma step_sem_passes {S O Ob : Type} (poll : S -> nat -> S * Ob) (complete : S -> nat -> O -> S)
        (rcode : Ob -> Z) (startedf : Ob -> bool) (okO errO : O) (s : S) (i : nat) :
    startedf (snd (poll s i)) = true ->
    (let p3 := poll (complete (fst (poll s i)) i okO) i in startedf (snd p3) = false /\ rcode (snd p3) = 1) ->
    (let p3 := poll (complete (fst (poll s i)) i errO) i in startedf (snd p3) = false /\ rcode (snd p3) = 2) ->
    passes w (step_sem w made poll complete rcode startedf okO errO s i).
  Proof.
    intros H1 [Ho1 Ho2] [He1 He2] inner req. unfold step_sem. rewrite H1.
    destruct (result (inner req)) as [v|e]; cbn [calls result].
    - rewrite Ho1, Ho2, app_nil_r. split; reflexivity.
    - rewrite He1, He2, app_nil_r. split; reflexivity.
  Qed.

  Lemma then_wrap_passes (w1 w' : E -> E) (L : layer_sem E) :
    passes w1 L -> passes (fun e => w' (w1 e)) (then_wrap w' L).
  Proof.
    intros H inner req. destruct (H inner req) as [H1 H2]. unfold then_wrap. cbn [calls result].
    split; [exact H1|]. rewrite H2. destruct (result (inner req)); reflexivity.
  Qed.

  Lemma passes_ext (w1 w2 : E -> E) (L : layer_sem E) :
    (forall e, w1 e = w2 e) -> passes w1 L -> passes w2 L.
  Proof.
    intros Hw H inner req. destruct (H inner req) as [H1 H2]. split; [exact H1|].
    rewrite H2. destruct (result (inner req)); cbn; [reflexivity|rewrite Hw; reflexivity].
  Qed.
End Generic.

Lemma upd_same_b {A} (f : nat -> A) i v : Bulkhead.upd f i v i = v.
Proof. unfold Bulkhead.upd. rewrite Nat.eqb_refl. reflexivity. Qed.

(* bulkhead: ANY state with a free permit in which caller i has not been polled yet *)
Lemma bulkhead_passes {E} (w : E -> E) made (c : Bulkhead.cfg) (s : Bulkhead.st) (i : nat) :
  Bulkhead.cs s i = Bulkhead.Created -> Bulkhead.gate s i = None -> (1 <= Bulkhead.free s)%nat ->
  passes w (sem_of_bulkhead w made c s i).
Proof.
  intros Hc Hg Hf. unfold sem_of_bulkhead.
  destruct (Bulkhead.free s) as [|f] eqn:Ef; [lia|].
  assert (Hp : Bulkhead.poll c s i =
               (fst (Bulkhead.poll c s i), {| Bulkhead.r := 0; Bulkhead.started := true;
                  Bulkhead.seen := Z.of_nat (S (length (Bulkhead.running s))) |}) /\
               Bulkhead.cs (fst (Bulkhead.poll c s i)) i = Bulkhead.Running /\
               Bulkhead.gate (fst (Bulkhead.poll c s i)) i = None).
  { unfold Bulkhead.poll. cbn. rewrite Hc, Ef. unfold Bulkhead.start, Bulkhead.poll_running. cbn.
    rewrite Hg. cbn. rewrite upd_same_b. repeat split; try reflexivity. exact Hg. }
  destruct Hp as (Hp & Hrun & Hgate).
  apply step_sem_passes.
  - rewrite Hp. reflexivity.
  - set (s1 := fst (Bulkhead.poll c s i)) in *. cbn zeta.
    unfold Bulkhead.complete. rewrite Hgate. unfold Bulkhead.poll. cbn. rewrite Hrun.
    unfold Bulkhead.poll_running. cbn. rewrite upd_same_b. cbn. split; reflexivity.
  - set (s1 := fst (Bulkhead.poll c s i)) in *. cbn zeta.
    unfold Bulkhead.complete. rewrite Hgate. unfold Bulkhead.poll. cbn. rewrite Hrun.
    unfold Bulkhead.poll_running. cbn. rewrite upd_same_b. cbn. split; reflexivity.
Qed.

Lemma upd_same_r {A} (f : nat -> A) i v : RateLimiter.upd f i v i = v.
Proof. unfold RateLimiter.upd. rewrite Nat.eqb_refl. reflexivity. Qed.

(* rate limiter: ANY state in which the limiter has a permit to give at once *)
Lemma ratelimiter_passes {E} (w : E -> E) made (c : RateLimiter.cfg) (s : RateLimiter.st) (i : nat) :
  RateLimiter.cs s i = RateLimiter.Created -> RateLimiter.gate s i = None ->
  snd (RateLimiter.try_acquire c (RateLimiter.now s) (RateLimiter.lm s)) = RateLimiter.AOk None ->
  passes w (sem_of_ratelimiter w made c s i).
Proof.
  intros Hc Hg Ha. unfold sem_of_ratelimiter.
  assert (Hp : RateLimiter.started (snd (RateLimiter.poll c s i)) = true /\
               RateLimiter.cs (fst (RateLimiter.poll c s i)) i = RateLimiter.Running /\
               RateLimiter.gate (fst (RateLimiter.poll c s i)) i = None).
  { unfold RateLimiter.poll. cbn. rewrite Hc. unfold RateLimiter.acquire_round. cbn.
    destruct (RateLimiter.try_acquire c (RateLimiter.now s) (RateLimiter.lm s)) as [l' a]. cbn in Ha. subst a.
    unfold RateLimiter.poll_running. cbn. rewrite Hg. cbn. rewrite upd_same_r. repeat split; try reflexivity. exact Hg. }
  destruct Hp as (Hp & Hrun & Hgate).
  apply step_sem_passes.
  - exact Hp.
  - set (s1 := fst (RateLimiter.poll c s i)) in *. cbn zeta.
    unfold RateLimiter.complete. rewrite Hgate. unfold RateLimiter.poll. cbn. rewrite Hrun.
    unfold RateLimiter.poll_running. cbn. rewrite upd_same_r. cbn. split; reflexivity.
  - set (s1 := fst (RateLimiter.poll c s i)) in *. cbn zeta.
    unfold RateLimiter.complete. rewrite Hgate. unfold RateLimiter.poll. cbn. rewrite Hrun.
    unfold RateLimiter.poll_running. cbn. rewrite upd_same_r. cbn. split; reflexivity.
Qed.

Lemma upd_same_c {A} (f : nat -> A) i v : Circuit.upd f i v i = v.
Proof. unfold Circuit.upd. rewrite Nat.eqb_refl. reflexivity. Qed.

Lemma gsync_cs p s : Circuit.cs (Circuit.gsync p s) = Circuit.cs s.
Proof. unfold Circuit.gsync. destruct (_ =? _); reflexivity. Qed.
Lemma gsync_gate p s : Circuit.gate (Circuit.gsync p s) = Circuit.gate s.
Proof. unfold Circuit.gsync. destruct (_ =? _); reflexivity. Qed.

(* circuit breaker: ANY state in which the circuit admits the call (closed, or half-open with a
   trial slot left), whatever the classifier says about an error *)
Lemma circuit_passes {E} (w : E -> E) made (cf : Circuit.cfg) (f : bool) (s : Circuit.st) (i : nat) :
  Circuit.cs s i = Circuit.Created -> Circuit.gate s i = None ->
  snd (Circuit.try_acquire (Circuit.now s) cf (Circuit.circ s)) = true ->
  passes w (sem_of_circuit w made cf f s i).
Proof.
  intros Hc Hg Ha. unfold sem_of_circuit.
  assert (Hp : Circuit.started (snd (Circuit.poll cf s i)) = true /\
               (exists st tr, Circuit.cs (fst (Circuit.poll cf s i)) i = Circuit.Running st tr) /\
               Circuit.gate (fst (Circuit.poll cf s i)) i = None).
  { unfold Circuit.poll. cbn. rewrite Hc.
    destruct (Circuit.try_acquire (Circuit.now s) cf (Circuit.circ s)) as [c' ok]. cbn in Ha. subst ok.
    destruct (Circuit.state c'); unfold Circuit.poll_running; cbn; rewrite ?gsync_gate; cbn; rewrite Hg; cbn;
      rewrite ?gsync_cs; cbn; rewrite upd_same_c; (split; [reflexivity|split; [eauto|]]);
      rewrite ?gsync_gate; cbn; exact Hg. }
  destruct Hp as (Hp & (st & tr & Hrun) & Hgate).
  apply step_sem_passes.
  - exact Hp.
  - set (s1 := fst (Circuit.poll cf s i)) in *. cbn zeta.
    unfold Circuit.complete. rewrite Hgate. unfold Circuit.poll. cbn. rewrite Hrun.
    unfold Circuit.poll_running. cbn. rewrite upd_same_c. cbn. split; reflexivity.
  - set (s1 := fst (Circuit.poll cf s i)) in *. cbn zeta.
    unfold Circuit.complete. rewrite Hgate. unfold Circuit.poll. cbn. rewrite Hrun.
    unfold Circuit.poll_running. cbn. rewrite upd_same_c. cbn. split; reflexivity.
Qed.

(* time limiter, both modes: the answer is observed before the timer fires *)
Lemma tl_first_poll (c : TimeLimiter.cfg) (i : nat) (t1 : Z) :
  t1 < TimeLimiter.deadline c i t1 ->
  TimeLimiter.lpoll c i t1 TimeLimiter.init_loc =
  (TimeLimiter.mkLoc (TimeLimiter.Active (TimeLimiter.deadline c i t1)) TimeLimiter.IRunning None false (Some t1),
   TimeLimiter.pending).
Proof.
  intros H. assert (L : TimeLimiter.deadline c i t1 <=? t1 = false) by (apply Z.leb_gt; lia).
  unfold TimeLimiter.lpoll, TimeLimiter.init_loc, TimeLimiter.set_woken.
  cbn [TimeLimiter.lcs TimeLimiter.linner TimeLimiter.lgate TimeLimiter.lwoken TimeLimiter.larrival].
  destruct (TimeLimiter.cancel c).
  - unfold TimeLimiter.poll_cancel, TimeLimiter.set_inner, TimeLimiter.set_cs.
    cbn [TimeLimiter.lcs TimeLimiter.linner TimeLimiter.lgate TimeLimiter.lwoken TimeLimiter.larrival].
    rewrite L. reflexivity.
  - unfold TimeLimiter.poll_select, TimeLimiter.rx_state.
    cbn [TimeLimiter.lcs TimeLimiter.linner TimeLimiter.lgate TimeLimiter.lwoken TimeLimiter.larrival].
    rewrite L. unfold TimeLimiter.task_run, TimeLimiter.set_inner, TimeLimiter.set_cs.
    cbn [TimeLimiter.lcs TimeLimiter.linner TimeLimiter.lgate TimeLimiter.lwoken TimeLimiter.larrival].
    reflexivity.
Qed.

Lemma tl_second_poll (c : TimeLimiter.cfg) (i : nat) (t1 t2 dl : Z) (o : TimeLimiter.outcome) :
  t2 < dl -> o <> TimeLimiter.OPanic ->
  TimeLimiter.r (snd (TimeLimiter.lpoll c i t2
     (TimeLimiter.lcomplete c (TimeLimiter.mkLoc (TimeLimiter.Active dl) TimeLimiter.IRunning None false (Some t1)) o)))
  = TimeLimiter.code o.
Proof.
  intros H Ho.
  unfold TimeLimiter.lcomplete.
  cbn [TimeLimiter.lcs TimeLimiter.linner TimeLimiter.lgate TimeLimiter.lwoken TimeLimiter.larrival].
  destruct (TimeLimiter.cancel c) eqn:Ec.
  - unfold TimeLimiter.lpoll, TimeLimiter.set_woken.
    cbn [TimeLimiter.lcs TimeLimiter.linner TimeLimiter.lgate TimeLimiter.lwoken TimeLimiter.larrival].
    rewrite Ec. unfold TimeLimiter.poll_cancel.
    cbn [TimeLimiter.lcs TimeLimiter.linner TimeLimiter.lgate TimeLimiter.lwoken TimeLimiter.larrival snd].
    destruct o; [reflexivity|reflexivity|congruence].
  - unfold TimeLimiter.task_run, TimeLimiter.finish_inner, TimeLimiter.set_inner, TimeLimiter.set_woken.
    cbn [TimeLimiter.lcs TimeLimiter.linner TimeLimiter.lgate TimeLimiter.lwoken TimeLimiter.larrival].
    destruct o; [| |congruence];
      cbn [TimeLimiter.lcs TimeLimiter.linner TimeLimiter.lgate TimeLimiter.lwoken TimeLimiter.larrival];
      unfold TimeLimiter.lpoll, TimeLimiter.set_woken;
      cbn [TimeLimiter.lcs TimeLimiter.linner TimeLimiter.lgate TimeLimiter.lwoken TimeLimiter.larrival];
      rewrite Ec; unfold TimeLimiter.poll_select, TimeLimiter.rx_state;
      cbn [TimeLimiter.lcs TimeLimiter.linner TimeLimiter.lgate TimeLimiter.lwoken TimeLimiter.larrival snd];
      reflexivity.
Qed.

Lemma timelimiter_passes {E} (w : E -> E) made (c : TimeLimiter.cfg) (i : nat) (t1 t2 : Z) :
  t1 < TimeLimiter.deadline c i t1 -> t2 < TimeLimiter.deadline c i t1 ->
  passes w (sem_of_timelimiter w made c i t1 t2).
Proof.
  intros H1 H2 inner req. unfold sem_of_timelimiter. rewrite (tl_first_poll c i t1 H1).
  cbn [fst snd TimeLimiter.linner].
  destruct (result (inner req)) as [v|e]; cbn [calls result];
    rewrite (tl_second_poll c i t1 t2 _ _ H2) by discriminate; split; reflexivity.
Qed.

Lemma upd_same_co {A} (f : nat -> A) i v : Coalesce.upd f i v i = v.
Proof. unfold Coalesce.upd. rewrite Nat.eqb_refl. reflexivity. Qed.

Lemma existsb_app_last i l : existsb (Nat.eqb i) (l ++ [i]) = true.
Proof. rewrite existsb_app. cbn [existsb]. rewrite Nat.eqb_refl, orb_true_r. reflexivity. Qed.

Lemma co_poll_pending (s : Coalesce.st) (i k : nat) :
  Coalesce.cs s i = Coalesce.Leading k -> Coalesce.gate s i = None ->
  let s' := fst (Coalesce.poll s i) in
  Coalesce.cs s' i = Coalesce.Leading k /\ Coalesce.gate s' i = None /\ Coalesce.bomb s' i = Coalesce.bomb s i.
Proof.
  intros Hc Hg. unfold Coalesce.poll.
  cbn [Coalesce.cs Coalesce.gate Coalesce.bomb]. rewrite Hc, Hg.
  cbn [fst Coalesce.cs Coalesce.gate Coalesce.bomb]. auto.
Qed.

Lemma co_poll_result (s : Coalesce.st) (i k : nat) (o : Coalesce.outcome) :
  Coalesce.cs s i = Coalesce.Leading k -> Coalesce.gate s i = Some o -> o <> Coalesce.OPanic ->
  Coalesce.bomb s i = false -> Coalesce.r (snd (Coalesce.poll s i)) = Coalesce.code o.
Proof.
  intros Hc Hg Ho Hb. unfold Coalesce.poll.
  cbn [Coalesce.cs Coalesce.gate Coalesce.bomb]. rewrite Hc, Hg, Hb.
  destruct o; [reflexivity|reflexivity|congruence].
Qed.

(* coalesce: ANY state with no request in flight for the key (the caller becomes the leader) *)
Lemma coalesce_passes {E} (w : E -> E) made (s : Coalesce.st) (i k : nat) :
  Coalesce.cs s i = Coalesce.Idle -> Coalesce.lookup k (Coalesce.reqs s) = None ->
  Coalesce.gate s i = None -> Coalesce.bomb s i = false ->
  passes w (sem_of_coalesce w made s i k).
Proof.
  intros Hc Hl Hg Hb inner req. unfold sem_of_coalesce.
  assert (H1 : Coalesce.cs (Coalesce.call s i k) i = Coalesce.Leading k /\
               Coalesce.gate (Coalesce.call s i k) i = None /\
               Coalesce.bomb (Coalesce.call s i k) i = false /\
               existsb (Nat.eqb i) (Coalesce.inflight (Coalesce.call s i k)) = true).
  { unfold Coalesce.call. rewrite Hc, Hl.
    cbn [Coalesce.cs Coalesce.gate Coalesce.bomb Coalesce.inflight].
    rewrite upd_same_co, existsb_app_last. auto. }
  destruct H1 as (C1 & C2 & C3 & C4). rewrite C4.
  destruct (co_poll_pending _ i k C1 C2) as (P1 & P2 & P3). rewrite C3 in P3.
  set (s2 := fst (Coalesce.poll (Coalesce.call s i k) i)) in *.
  assert (H3 : forall o, Coalesce.cs (Coalesce.complete s2 i o) i = Coalesce.Leading k /\
                         Coalesce.gate (Coalesce.complete s2 i o) i = Some o /\
                         Coalesce.bomb (Coalesce.complete s2 i o) i = false).
  { intros o. unfold Coalesce.complete. rewrite P2.
    cbn [Coalesce.cs Coalesce.gate Coalesce.bomb]. rewrite upd_same_co. auto. }
  destruct (result (inner req)) as [v|e]; cbn [calls result].
  - destruct (H3 Coalesce.OOk) as (D1 & D2 & D3).
    rewrite (co_poll_result _ i k _ D1 D2 ltac:(discriminate) D3). split; reflexivity.
  - destruct (H3 Coalesce.OErr) as (D1 & D2 & D3).
    rewrite (co_poll_result _ i k _ D1 D2 ltac:(discriminate) D3). split; reflexivity.
Qed.

Lemma upd_same_ca {A} (f : nat -> A) i v : Cache.upd f i v i = v.
Proof. unfold Cache.upd. rewrite Nat.eqb_refl. reflexivity. Qed.

(* cache: ANY state in which the key is absent from (or expired in) the store: a miss. The model
   carries the value: an Ok result is the inner service's value *)
Lemma cache_poll_result (c : Cache.cfg) (s : Cache.st) (i sid : nat) (k : Z) (o : Cache.outcome) :
  Cache.cs s i = Cache.Running sid k -> Cache.gate s i = Some o ->
  let ob := snd (Cache.step0 c s (Cache.Poll i 0)) in
  match o with
  | Cache.OOk v => Cache.o_r ob = 1 /\ Cache.o_val ob = v
  | Cache.OErr => Cache.o_r ob = 2
  | Cache.OPanic => Cache.o_r ob = 5
  end.
Proof.
  intros Hc Hg. cbn [Cache.step0]. rewrite Hc, Hg. destruct o as [v| |]; [|reflexivity|reflexivity].
  destruct (Cache.insert c 0 (Cache.now s) (Cache.tick s) (Cache.stores s sid) k v) as [[s2 vic] b].
  cbn [snd Cache.o_r Cache.o_val]. split; reflexivity.
Qed.

Lemma cache_passes {E} (w : E -> E) made (c : Cache.cfg) (s : Cache.st) (i svc : nat) (k : Z) :
  Cache.cs s i = Cache.Fresh -> Cache.gate s i = None ->
  (forall v, snd (Cache.store_get c (Cache.now s) (Cache.tick s) (Cache.stores s (Cache.sid_of c svc)) k) <> Cache.Hit v) ->
  passes w (sem_of_cache w made c s i svc k).
Proof.
  intros Hc Hg Hmiss inner req. unfold sem_of_cache.
  assert (H1 : exists s1, Cache.step0 c s (Cache.Call i svc k) = (s1, snd (Cache.step0 c s (Cache.Call i svc k))) /\
               Cache.o_started (snd (Cache.step0 c s (Cache.Call i svc k))) = Some i /\
               Cache.cs s1 i = Cache.Running (Cache.sid_of c svc) k /\ Cache.gate s1 i = None).
  { cbn [Cache.step0]. rewrite Hc.
    destruct (Cache.store_get c (Cache.now s) (Cache.tick s) (Cache.stores s (Cache.sid_of c svc)) k) as [st1 g] eqn:Eg.
    cbn [snd] in Hmiss.
    destruct g as [v| |]; [exfalso; apply (Hmiss v); reflexivity| |];
      eexists; (split; [reflexivity|]); cbn [fst snd Cache.o_started Cache.cs Cache.gate]; rewrite upd_same_ca; auto. }
  destruct H1 as (s1 & E1 & St & C1 & G1). rewrite E1. cbn [fst snd]. rewrite St.
  assert (H2 : forall o, Cache.cs (fst (Cache.step0 c s1 (Cache.Complete i o))) i = Cache.Running (Cache.sid_of c svc) k /\
                         Cache.gate (fst (Cache.step0 c s1 (Cache.Complete i o))) i = Some o).
  { intros o. cbn [Cache.step0]. rewrite G1. cbn [fst Cache.cs Cache.gate]. rewrite upd_same_ca. auto. }
  destruct (result (inner req)) as [v|e]; cbn [calls result].
  - destruct (H2 (Cache.OOk v)) as [D1 D2].
    destruct (cache_poll_result c _ i _ k _ D1 D2) as [R1 R2]. rewrite R1, R2. split; reflexivity.
  - destruct (H2 Cache.OErr) as [D1 D2].
    pose proof (cache_poll_result c _ i _ k _ D1 D2) as R1. cbn zeta in R1. rewrite R1. split; reflexivity.
Qed.

(* fallback: the predicate refuses every error *)
Lemma fallback_passes {E} (w : E -> E) made (st : Fallback.strategy Z Z E) (p : E -> bool) backup :
  (forall e, p e = false) -> passes w (sem_of_fallback w made st (Some p) backup).
Proof.
  intros Hp inner req. unfold sem_of_fallback, Fallback.call, res_of.
  destruct (result (inner req)) as [v|e] eqn:Er; cbn.
  - rewrite app_nil_r. split; reflexivity.
  - rewrite Hp. cbn. rewrite app_nil_r. split; reflexivity.
Qed.

(* retry: the policy refuses every error (or: the budget / attempt limit does not matter then);
   retry's error type is the inner error type: the wrapper is the identity *)
Lemma retry_passes {E} (c : Retry.cfg E) hb max ready grant :
  (forall e, Retry.should_retry c e = false) ->
  passes (fun e => e) (sem_of_retry c hb max ready grant).
Proof.
  intros Hr inner req. unfold sem_of_retry, Retry.retry_run.
  destruct (result (inner req)) as [v|e] eqn:Er.
  - destruct (Nat.pred (Nat.max 1 max)); cbn; rewrite app_nil_r; split; reflexivity.
  - destruct (Nat.pred (Nat.max 1 max)); cbn; rewrite Hr; cbn; rewrite app_nil_r; split; reflexivity.
Qed.

(* reconnect: the predicate refuses every error *)
Lemma reconnect_passes {E} (w : E -> E) made (c : Reconnect.cfg E) ready fuel :
  (forall e, Reconnect.should_reconnect c e = false) ->
  passes w (sem_of_reconnect w made c ready fuel).
Proof.
  intros Hr inner req. unfold sem_of_reconnect, Reconnect.reconnect_run.
  destruct (result (inner req)) as [v|e] eqn:Er.
  - destruct fuel; cbn; rewrite app_nil_r; split; reflexivity.
  - destruct fuel; cbn; rewrite Hr; cbn; rewrite app_nil_r; split; reflexivity.
Qed.

(* chaos with both rates zero, a request polled before the end of the run *)
Lemma chaos_passes {E} made (c : Chaos.config) (t_end i t : Z) (st : list Z) :
  Chaos.erate c = Some 0 -> Chaos.lrate c = Some 0 -> t <= t_end ->
  passes (fun e : E => e) (sem_of_chaos (fun e => e) made c t_end i t st).
Proof.
  intros He Hl Ht inner req.
  assert (L : t <=? t_end = true) by (apply Z.leb_le; exact Ht).
  assert (Hd : Chaos.decide c st =
               ({| Chaos.d_kinds := []; Chaos.d_bits := []; Chaos.d_err := false;
                   Chaos.d_delay := None; Chaos.d_range := None |}, st)).
  { unfold Chaos.decide. rewrite He, Hl. cbn. rewrite andb_false_r. reflexivity. }
  unfold sem_of_chaos, Chaos.handle. rewrite Hd.
  cbn [Chaos.d_err Chaos.d_delay fst snd].
  rewrite Z.add_0_r, L.
  destruct (result (inner req)) as [v|e]; unfold Chaos.q_lat, Chaos.q_kind;
    cbn [Chaos.q_ik Chaos.q_iv]; cbn; rewrite Z.add_0_r, L; cbn; split; reflexivity.
Qed.

Lemma pass_through_passes' {E} (w : E -> E) : passes w (pass_through w).
Proof. intros inner req. split; reflexivity. Qed.

(* the table run_script executes (modes 0 and 4): EVERY entry passes, with the depth-counting
   wrapper of the harness's MapErr. Ten of the thirteen layers are the per-layer models at their
   initial state in the driver's non-triggering configuration; hedge, adaptive limiter and executor
   are [pass_through] by definition. *)
Theorem sem_of_passes (id : Z) : passes wrapd (sem_of id).
Proof.
  unfold sem_of.
  destruct (is_id id [0; 21]).
  { apply bulkhead_passes; [reflexivity|reflexivity|]. destruct (id =? 0); cbn; lia. }
  destruct (is_id id [1; 22]).
  { apply ratelimiter_passes; [reflexivity|reflexivity|vm_compute; reflexivity]. }
  destruct (is_id id [2; 13]).
  { apply circuit_passes; [reflexivity|reflexivity|vm_compute; reflexivity]. }
  destruct (is_id id [3; 15]).
  { apply (passes_ext (fun e => wrapd ((fun e0 : terr => e0) e))); [reflexivity|].
    apply then_wrap_passes. apply retry_passes. intros e. reflexivity. }
  destruct (is_id id [4; 14]).
  { apply timelimiter_passes; destruct (id =? 4); vm_compute; reflexivity. }
  destruct (id =? 5).
  { apply cache_passes; [reflexivity|reflexivity|]. intros v. cbn. discriminate. }
  destruct (id =? 6).
  { apply fallback_passes. reflexivity. }
  destruct (id =? 8).
  { apply reconnect_passes. intros e. reflexivity. }
  destruct (id =? 10).
  { apply coalesce_passes; reflexivity. }
  destruct (id =? 12).
  { apply (passes_ext (fun e => wrapd ((fun e0 : terr => e0) e))); [reflexivity|].
    apply then_wrap_passes. apply chaos_passes; [reflexivity|reflexivity|lia]. }
  apply pass_through_passes'.
Qed.

(* trace level, mode 0: for EVERY list of layer ids (any depth, any order, unknown ids included)
   and every scripted request list, the model trace says: one call of the wrapped service with the
   request unchanged, the scripted outcome unchanged, an error in exactly n pass-through wrappers *)
Lemma wraps_wrapd (ids : list Z) (v : Z) (d : nat) :
  wraps (map (fun _ => wrapd) ids) (v, d) = (v, (length ids + d)%nat).
Proof.
  induction ids as [|a r IH]; [reflexivity|]. cbn [map wraps fold_right length] in *.
  unfold wraps in IH. rewrite IH. unfold wrapd. cbn. f_equal.
Qed.

Theorem run_transparent_spec (ids : list Z) : forall reqs,
  run_transparent ids reqs =
  concat (map (fun r => let '(req, ok, v) := r in [1; req; if ok =? 0 then 0 else 1; v]) reqs).
Proof.
  induction reqs as [|[[req ok] v] rest IH]; [reflexivity|].
  cbn [run_transparent map concat]. rewrite IH. f_equal.
  pose proof (Proof.Layers.stack_passes (map (fun id => (sem_of id, wrapd)) ids)) as H.
  assert (HF : Forall (fun p => passes (snd p) (fst p)) (map (fun id => (sem_of id, wrapd)) ids)).
  { apply Forall_forall. intros p Hp. apply in_map_iff in Hp. destruct Hp as (id & <- & _). apply sem_of_passes. }
  specialize (H HF (scripted ok v) req). rewrite !map_map in H. cbn [fst snd] in H.
  destruct H as [H1 H2]. unfold beh_ints.
  replace (map (fun x : Z => sem_of x) ids) with (map sem_of ids) in * by reflexivity.
  rewrite H1, H2. unfold scripted. cbn [calls result length hd].
  destruct (ok =? 0); cbn [wrap_out]; [reflexivity|].
  rewrite wraps_wrapd. cbn [fst snd]. rewrite Nat.add_0_r, Nat.eqb_refl. reflexivity.
Qed.

(* ------------------------------------------------------------------------- *)
(* trace level, mode 4 (listeners on every layer of a stack): what run_script computes does not
   depend on which listeners panic *)
Definition rsim (r r' : lresult) : Prop := invoked (Some r) = invoked (Some r').
Definition lsim (l l' : listener) : Prop := forall ev, rsim (l ev) (l' ev).
Definition dsim (p p' : Z * list lresult) : Prop := fst p = fst p' /\ Forall2 rsim (snd p) (snd p').

Lemma only_kind_sim : forall ls ls' i, Forall2 lsim ls ls' -> Forall2 lsim (only_kind i ls) (only_kind i ls').
Proof.
  intros ls ls' i H. revert i. induction H as [|l l' r r' Hl Hr IH]; intros i; cbn [only_kind]; constructor.
  - intros ev. destruct (ev =? i); [apply Hl|reflexivity].
  - apply IH.
Qed.

Lemma subscribed_sim id ls ls' : Forall2 lsim ls ls' -> Forall2 lsim (subscribed id ls) (subscribed id ls').
Proof. intros H. unfold subscribed. destruct (id =? 8); [apply only_kind_sim|]; exact H. Qed.

Lemma deliveries_sim ls ls' steps :
  Forall2 lsim ls ls' -> Forall2 dsim (deliveries_of ls steps) (deliveries_of ls' steps).
Proof.
  intros H. induction steps as [|s rest IH]; [constructor|].
  destruct s as [ev|k p]; cbn [deliveries_of]; [|exact IH].
  constructor; [|exact IH]. split; [reflexivity|]. cbn [snd].
  clear IH. induction H as [|l l' r r' Hl Hr IHH]; cbn [map]; constructor; [apply Hl|exact IHH].
Qed.

Lemma nth_error_sim rs rs' i : Forall2 rsim rs rs' -> invoked (nth_error rs i) = invoked (nth_error rs' i).
Proof.
  intros H. revert i. induction H as [|r r' l l' Hr Hl IH]; intros [|i]; cbn [nth_error]; auto.
Qed.

Lemma count_kind_sim d d' i ev : Forall2 dsim d d' -> count_kind i ev d = count_kind i ev d'.
Proof.
  intros H. unfold count_kind. f_equal.
  induction H as [|p p' r r' [Hf Hs] Hr IH]; [reflexivity|]. cbn [filter].
  rewrite Hf, (nth_error_sim _ _ i Hs). destruct (_ && _); cbn [length]; rewrite IH; reflexivity.
Qed.

Lemma counts_of_sim nl d d' : Forall2 dsim d d' -> counts_of nl d = counts_of nl d'.
Proof.
  intros H. unfold counts_of. f_equal. apply map_ext. intros i. apply map_ext. intros e.
  apply count_kind_sim. exact H.
Qed.

(* the listeners [ls] are contained by the guard of every layer of the stack *)
Definition lcontained (ids : list Z) (ls : list listener) : Prop :=
  forall id, In id ids -> contains (guarded_of id) (subscribed id ls).

Lemma only_kind_contains g : forall ls i, contains g ls -> contains g (only_kind i ls).
Proof.
  induction ls as [|l r IH]; intros i H; cbn [only_kind]; [intros l0 ev []|].
  intros l0 ev [<-|Hin].
  - destruct (ev =? i); [apply H; left; reflexivity|destruct g; reflexivity].
  - apply (IH (i + 1)); [|exact Hin]. intros l1 ev1 H1. apply H. right. exact H1.
Qed.

Lemma subscribed_contains g id ls : contains g ls -> contains g (subscribed id ls).
Proof. intros H. unfold subscribed. destruct (id =? 8); [apply only_kind_contains|]; exact H. Qed.

(* one request through the stack: the outcome handed up is the inner one, whatever the (contained)
   listeners do *)
Lemma run_lstack_contained ls : forall ids k p, lcontained ids ls ->
  run_lstack ids ls (FOut k p) =
  (FOut k p, map (fun id => deliveries_of (subscribed id ls) (map SEmit (pre_events id)) ++
                            deliveries_of (subscribed id ls) (map SEmit (post_events id k))) ids).
Proof.
  induction ids as [|id rest IH]; intros k p Hc; [reflexivity|].
  cbn [run_lstack map].
  assert (Hid : contains (guarded_of id) (subscribed id ls)) by (apply Hc; left; reflexivity).
  rewrite (run_steps_contained _ _ Hid). cbn [rev app].
  assert (Hf : forall evs cur, final_of (map SEmit evs) cur = cur)
    by (induction evs as [|e r IHe]; intros cur; cbn; auto).
  rewrite Hf. rewrite IH by (intros id' Hin; apply Hc; right; exact Hin).
  rewrite (run_steps_contained _ _ Hid). cbn [rev app]. rewrite Hf. reflexivity.
Qed.

Lemma zip_app_sim : forall a a' b b',
  Forall2 (Forall2 dsim) a a' -> Forall2 (Forall2 dsim) b b' -> Forall2 (Forall2 dsim) (zip_app a b) (zip_app a' b').
Proof.
  induction a as [|x a IH]; intros a' b b' Ha Hb; inversion Ha; subst; cbn [zip_app].
  - destruct Hb; [constructor|constructor; auto].
  - inversion Hb; subst; cbn [zip_app]; [constructor; auto|].
    constructor; [apply Forall2_app; auto|apply IH; auto].
Qed.

Lemma layer_deliveries_sim ls ls' k : Forall2 lsim ls ls' -> forall ids,
  Forall2 (Forall2 dsim)
    (map (fun id => deliveries_of (subscribed id ls) (map SEmit (pre_events id)) ++
                    deliveries_of (subscribed id ls) (map SEmit (post_events id k))) ids)
    (map (fun id => deliveries_of (subscribed id ls') (map SEmit (pre_events id)) ++
                    deliveries_of (subscribed id ls') (map SEmit (post_events id k))) ids).
Proof.
  intros Hl. induction ids as [|id r IHi]; cbn [map]; [constructor|constructor; [|exact IHi]].
  apply Forall2_app; apply deliveries_sim; apply subscribed_sim; exact Hl.
Qed.

Lemma run_l4_sim ids ls ls' : Forall2 lsim ls ls' -> lcontained ids ls -> lcontained ids ls' ->
  forall reqs acc acc',
  Forall2 (Forall2 dsim) acc acc' ->
  fst (run_l4 ids ls reqs acc) = fst (run_l4 ids ls' reqs acc') /\
  Forall2 (Forall2 dsim) (snd (run_l4 ids ls reqs acc)) (snd (run_l4 ids ls' reqs acc')).
Proof.
  intros Hl Hc Hc'. induction reqs as [|[[req ok] v] rest IH]; intros acc acc' Ha; cbn [run_l4].
  - split; [reflexivity|exact Ha].
  - rewrite !run_lstack_contained by assumption.
    set (k := nth 2 (beh_ints (length ids) (stack_sem (map sem_of ids) (scripted ok v) req)) 0).
    pose proof (layer_deliveries_sim ls ls' k Hl ids) as Hd.
    specialize (IH _ _ (zip_app_sim _ _ _ _ Ha Hd)).
    destruct (run_l4 ids ls rest (zip_app acc _)) as [o1 a1].
    destruct (run_l4 ids ls' rest (zip_app acc' _)) as [o2 a2].
    cbn [fst snd] in *. destruct IH as [I1 I2]. split; [rewrite I1; reflexivity|exact I2].
Qed.

Lemma listener_of_sim mask mask' nl :
  Forall2 lsim (map (listener_of mask) (seq 0 nl)) (map (listener_of mask') (seq 0 nl)).
Proof.
  generalize 0%nat. induction nl as [|n IH]; intros s; cbn [seq map]; constructor; [|apply IH].
  intros ev. unfold rsim, listener_of.
  destruct (Z.testbit mask (Z.of_nat s + 8)); destruct (Z.testbit mask' (Z.of_nat s + 8));
    destruct (Z.testbit mask (Z.of_nat s + 4)); destruct (Z.testbit mask' (Z.of_nat s + 4));
    destruct (Z.testbit mask (Z.of_nat s)); destruct (Z.testbit mask' (Z.of_nat s)); reflexivity.
Qed.

(* every layer's listener invocations contain whatever its listeners do *)
Lemma listeners_contained ids ls : lcontained ids ls.
Proof. intros id Hin. apply subscribed_contains. unfold guarded_of. apply catch_loop_contains. Qed.

(* ... the whole mode-4 trace (outcomes, absolute per-layer / per-listener / per-kind counts, and the
   counts of the reference run) of EVERY script is the trace of the same script with no panicking
   listener, whether the listeners panic with an ordinary payload or with one whose Drop panics *)
Theorem l4_trace_mask_independent ids nl mask reqs :
  l4_trace ids nl mask reqs = l4_trace ids nl 0 reqs.
Proof.
  unfold l4_trace.
  assert (Ha : Forall2 (Forall2 dsim) (map (fun _ : Z => @nil (Z * list lresult)) ids) (map (fun _ : Z => []) ids)).
  { induction ids; cbn; constructor; auto. }
  destruct (run_l4_sim ids _ _ (listener_of_sim mask 0 nl) (listeners_contained ids _) (listeners_contained ids _)
              reqs _ _ Ha) as [H1 H2].
  destruct (run_l4 ids (map (listener_of mask) (seq 0 nl)) reqs _) as [o1 a1].
  destruct (run_l4 ids (map (listener_of 0) (seq 0 nl)) reqs _) as [o2 a2].
  cbn [fst snd] in *. subst o2.
  assert (HC : concat (map (counts_of nl) a1) = concat (map (counts_of nl) a2)).
  { induction H2 as [|d d' r r' Hd Hr IH]; [reflexivity|]. cbn [map concat].
    rewrite (counts_of_sim nl d d' Hd), IH. reflexivity. }
  rewrite HC. reflexivity.
Qed.

(* ... and its outcome part is the transparent one: each request reaches the wrapped service once,
   unchanged, and comes back with the scripted outcome in exactly n pass-through wrappers *)
Theorem l4_outcomes_transparent ids ls : forall reqs acc,
  fst (run_l4 ids ls reqs acc) = run_transparent ids reqs.
Proof.
  pose proof (listeners_contained ids ls) as Hc. induction reqs as [|[[req ok] v] rest IH]; intros acc; [reflexivity|].
  cbn [run_l4 run_transparent]. rewrite run_lstack_contained by exact Hc.
  specialize (IH (zip_app acc (map (fun id => deliveries_of (subscribed id ls) (map SEmit (pre_events id)) ++
     deliveries_of (subscribed id ls) (map SEmit (post_events id
       (nth 2 (beh_ints (length ids) (stack_sem (map sem_of ids) (scripted ok v) req)) 0)))) ids))).
  destruct (run_l4 ids ls rest _) as [o a]. cbn [fst] in *. subst o.
  unfold beh_ints. cbn [firstn nth app]. reflexivity.
Qed.

(* ---- Part 3 ---------------------------------------------------------------------------------- *)
(* ---- non-vacuity: the scripts are executed, the hypotheses are met by reachable states ---- *)

(* mode 1: a retry layer with two further attempts under a bulkhead-like Swap layer (the wrapped service
   fails the first two calls of every request), a Pending answer on the way and an Err at the second
   request's poll_ready (code 1) *)
Example ex_protocol :
  run_script [1; 2; 0; 2; 2; 2; 0; 1; 0; 0; 2] =
  [0; 1;  1;0;0;0; 2;0;3;1; 1;0;1;0; 1;0;0;0; 2;0;3;1; 1;0;0;0; 2;0;1;1;  1;1;2;0;  0].
Proof. vm_compute. reflexivity. Qed.

(* two retrying layers: the readiness error met by the inner one before its further attempt is not
   retried by an outer one that refuses readiness errors, and ends the request (code 2) ... *)
Example ex_two_retrying_layers :
  run_script [1; 2; 2; 2; 1; 1; 0; 0; 2] = [2;  1;0;0;0; 2;0;3;1; 1;0;0;0; 2;0;3;1; 1;1;2;0;  0].
Proof. vm_compute. reflexivity. Qed.

(* ... a single retry layer with the crate's DEFAULT policy returns its own failed readiness check too
   (second review, regression R1) *)
Example ex_default_policy_own_readiness_error :
  run_script [1; 1; 5; 1; 1; 0; 2] = [2;  1;0;0;0; 2;0;3;1; 1;0;2;0;  0].
Proof. vm_compute. reflexivity. Qed.

(* hedge in latency mode with a delay longer than a call, the primary fails: one hedge, on a clone that is
   polled ready first, succeeds and no further hedge is started (regression R3's arm) *)
Example ex_hedge_after_failed_primary :
  run_script [1; 1; 7; 2097154; 1] = [0;  1;0;0;0; 2;0;3;1; 1;1;0;0; 2;1;1;1;  0].
Proof. vm_compute. reflexivity. Qed.

(* an application error of the wrapped service comes back as such (code 10), not retried by a retry layer
   that only accepts transient errors *)
Example ex_application_error :
  run_script [1; 2; 0; 2; 33; 2] = [0; 10;  1;0;0;0; 2;0;3;1; 1;0;0;0; 2;0;1;1;  1;1;0;0; 2;1;5;2;  0].
Proof. vm_compute. reflexivity. Qed.

(* eleven Pending answers before a further attempt -- more than the client itself would accept at
   poll_ready (8): the retry layer keeps polling and the request succeeds *)
Example ex_long_pending_before_retry :
  firstn 1 (run_script [1; 1; 2; 1; 1; 0; 1;1;1;1;1;1;1;1;1;1;1; 0]) = [0].
Proof. vm_compute. reflexivity. Qed.

(* mode 3: the gate scenario (two overlapping requests, the first released, a third request) and a
   program with a clone, a refused call (handle not polled), per-instance Pending and Err answers *)
Example ex_program_gate :
  run_script [3; 1; 0; 0; 7;  0;0;0; 1;0;1; 0;0;0; 1;0;0; 3;1;0; 0;0;0; 1;0;0] =
  [0;0;0;0;0;0;0;  0;0;0;  1;0;0;0; 2;0;1;1; 1;1;0;0; 2;1;1;2; 1;2;0;0; 2;2;1;3;  0].
Proof. vm_compute. reflexivity. Qed.

Example ex_program_clone :
  run_script [3; 2; 0; 2; 1; 6;  2;0;0; 0;1;0; 1;1;0; 0;0;0; 1;0;0; 1;9;0;  0;-1; 1;0;-1; 2;-1] =
  [0;0;0;0;0;8;  0;0;  1;0;0;0; 2;0;3;1; 1;0;0;0; 2;0;1;1; 1;1;1;0; 1;1;0;0; 2;1;3;2; 1;1;0;0; 2;1;1;2;  0].
Proof. vm_compute. reflexivity. Qed.

(* mode 0 through the per-layer models (bulkhead, reconnect, cache, an unknown id) and mode 4 with two
   listeners, the first panicking with a payload whose Drop panics (mask 16) and the second with an
   ordinary one (mask 1 is listener 0: here mask 17 = both styles on listener 0), on bulkhead / retry /
   fallback: the counts equal those of the reference run (second half) *)
Example ex_transparent :
  run_script [0; 4; 0; 8; 5; 99; 0; 2;  5;0;11; 6;1;12] = [1;5;0;11; 1;6;1;12].
Proof. vm_compute. reflexivity. Qed.

Example ex_listeners_stack :
  run_script [4; 3; 0; 3; 6; 2; 17; 3;  5;0;11; 6;1;12; 7;0;13] =
  [1;5;0;11; 1;6;1;12; 1;7;0;13;
   3;0;2;1;0;0; 3;0;2;1;0;0;  0;2;0;1;0;0; 0;2;0;1;0;0;  2;0;0;0;1;0; 2;0;0;0;1;0;
   3;0;2;1;0;0; 3;0;2;1;0;0;  0;2;0;1;0;0; 0;2;0;1;0;0;  2;0;0;0;1;0; 2;0;0;0;1;0].
Proof. vm_compute. reflexivity. Qed.

(* the per-layer lemmas at reachable states that are NOT the initial one *)
(* bulkhead of capacity 2 with caller 1 already running: caller 0 still passes *)
Example ex_bulkhead_busy :
  let c := {| Bulkhead.cap := 2; Bulkhead.max_wait := None |} in
  let s := fst (Bulkhead.poll c (Bulkhead.init c) 1%nat) in
  Bulkhead.running s = [1%nat] /\ Bulkhead.free s = 1%nat /\
  passes wrapd (sem_of_bulkhead wrapd maded c s 0).
Proof.
  cbn zeta. split; [reflexivity|]. split; [reflexivity|].
  apply bulkhead_passes; [reflexivity|reflexivity|cbn; lia].
Qed.

(* closed breaker whose window already holds a recorded failure (caller 1 failed): caller 0 passes *)
Example ex_circuit_nonempty_window :
  let s1 := fst (Circuit.poll cb_cfg Circuit.init 1%nat) in
  let s2 := fst (Circuit.poll cb_cfg (Circuit.complete s1 1%nat (Circuit.OErr true)) 1%nat) in
  Circuit.state (Circuit.circ s2) = Circuit.Closed /\
  passes wrapd (sem_of_circuit wrapd maded cb_cfg true s2 0).
Proof.
  cbn zeta. split; [vm_compute; reflexivity|].
  apply circuit_passes; [reflexivity|reflexivity|vm_compute; reflexivity].
Qed.

(* rate limiter of 2 permits per window, one already taken by caller 1 (still running) *)
Example ex_ratelimiter_mid_window :
  let c := RateLimiter.mkCfg RateLimiter.Fixed 2 1000 0 0 in
  let s := fst (RateLimiter.poll c (RateLimiter.init c) 1%nat) in
  RateLimiter.cs s 1%nat = RateLimiter.Running /\
  passes wrapd (sem_of_ratelimiter wrapd maded c s 0).
Proof.
  cbn zeta. split; [reflexivity|].
  apply ratelimiter_passes; [reflexivity|reflexivity|vm_compute; reflexivity].
Qed.

(* the hypotheses of ratelimiter_running_returns_outcome at a reachable state *)
Example ex_ratelimiter_running_reachable :
  let c := RateLimiter.mkCfg RateLimiter.Fixed 2 1000 0 0 in
  let s := RateLimiter.complete (fst (RateLimiter.poll c (RateLimiter.init c) 0%nat)) 0%nat RateLimiter.OErr in
  RateLimiter.cs s 0%nat = RateLimiter.Running /\ RateLimiter.gate s 0%nat = Some RateLimiter.OErr.
Proof. cbn zeta. split; reflexivity. Qed.

(* coalesce with another key in flight (caller 1 leads key 7) *)
Example ex_coalesce_other_key :
  let s := Coalesce.call Coalesce.init 1%nat 7%nat in
  Coalesce.inflight s = [1%nat] /\ passes wrapd (sem_of_coalesce wrapd maded s 0 3).
Proof. cbn zeta. split; [reflexivity|]. apply coalesce_passes; reflexivity. Qed.

(* the readiness-error counting theorem is not vacuous: a hedge-free stack, two errors, two surfaced *)
Example ex_errors_counted :
  let r := client CF 9 [Swap; Retry 1 false; Direct] (init_stack [Swap; Retry 1 false; Direct] (init_base_f [RErr; RReady; RErr] 1 0)) [1; 2; 3] in
  nerrs (blog (snd (fst r))) = 2%nat /\ snd r = [1; 2; 0].
Proof. vm_compute. split; reflexivity. Qed.
