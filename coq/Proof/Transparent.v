(* C20 (transparency), tied to the per-layer models: in a non-triggering configuration each
   modelled layer forwards one request to the inner service exactly once and returns the
   inner outcome (as its pass-through result code). *)
From TR Require Import Lib.Base.
From TR Require Model.Bulkhead Model.Circuit Model.RateLimiter Model.Fallback.
From TR Require Proof.RateLimiter.

(* bulkhead with capacity >= 1, nobody else around *)
Lemma bulkhead_alone (c : Bulkhead.cfg) (o : Bulkhead.outcome) :
  (1 <= Bulkhead.cap c)%nat ->
  let p1 := Bulkhead.poll c (Bulkhead.init c) 0%nat in
  let s2 := Bulkhead.complete (fst p1) 0%nat o in
  let p3 := Bulkhead.poll c s2 0%nat in
  Bulkhead.started (snd p1) = true /\ Bulkhead.r (snd p1) = 0 /\
  Bulkhead.started (snd p3) = false /\
  Bulkhead.r (snd p3) = match o with Bulkhead.OOk => 1 | Bulkhead.OErr => 2 | Bulkhead.OPanic => 5 end /\
  Bulkhead.running (fst p3) = [] /\ Bulkhead.free (fst p3) = Bulkhead.cap c.
Proof.
  intros Hc. destruct c as [cap mw]. cbn in Hc. destruct cap as [|n]; [lia|].
  destruct o; cbn; repeat split; reflexivity.
Qed.

(* closed circuit breaker: the call is forwarded and its result returned, whatever the
   classifier says about it *)
Lemma circuit_closed_alone (cf : Circuit.cfg) (o : Circuit.outcome) :
  let p1 := Circuit.poll cf Circuit.init 0%nat in
  let s2 := Circuit.complete (fst p1) 0%nat o in
  let p3 := Circuit.poll cf s2 0%nat in
  Circuit.started (snd p1) = true /\ Circuit.r (snd p1) = 0 /\
  Circuit.started (snd p3) = false /\
  Circuit.r (snd p3) = match o with Circuit.OOk _ => 1 | Circuit.OErr _ => 2
                                    | Circuit.OPanic | Circuit.OCPanic => 5 end.
Proof.
  destruct o; cbn; repeat split; reflexivity.
Qed.

(* rate limiter with limit >= 1: the first call is admitted at once and forwarded once; a
   running call returns the inner outcome *)
Lemma ratelimiter_first_call_admitted (c : RateLimiter.cfg) :
  Proof.RateLimiter.wfc c ->
  RateLimiter.started (snd (RateLimiter.poll c (RateLimiter.init c) 0%nat)) = true /\
  RateLimiter.entered (fst (RateLimiter.poll c (RateLimiter.init c) 0%nat)) 0%nat = 1.
Proof.
  intros Hwf. pose proof Hwf as (Hl & HP & HT).
  assert (Hspare : snd (RateLimiter.try_acquire c (RateLimiter.now (RateLimiter.init c))
                                             (RateLimiter.lm (RateLimiter.init c))) = RateLimiter.AOk None).
  { unfold RateLimiter.try_acquire. cbn [RateLimiter.now RateLimiter.lm RateLimiter.init].
    destruct (RateLimiter.wt c).
    - apply Proof.RateLimiter.fixed_spare; [exact Hwf|]. left. cbn. lia.
    - apply Proof.RateLimiter.log_spare. cbn. lia.
    - unfold RateLimiter.counter_try, RateLimiter.rotate.
      cbn [RateLimiter.bucket_start RateLimiter.new_lim RateLimiter.prevc RateLimiter.curc].
      match goal with |- context [if RateLimiter.period c <=? ?e then _ else _] =>
        assert (RateLimiter.period c <=? e = false) as -> by (apply Z.leb_gt; lia) end.
      cbn [RateLimiter.bucket_start RateLimiter.new_lim RateLimiter.prevc RateLimiter.curc].
      match goal with |- context [if ?b then _ else _] =>
        assert (b = true) as -> by (apply Z.ltb_lt; nia) end. reflexivity. }
  destruct (Proof.RateLimiter.admitted_at_once c (RateLimiter.init c) 0%nat eq_refl Hspare) as [H1 H2].
  split; [exact H1|]. rewrite H2. reflexivity.
Qed.

Lemma ratelimiter_running_returns_outcome (c : RateLimiter.cfg) (s : RateLimiter.st) (i : nat) o :
  RateLimiter.cs s i = RateLimiter.Running -> RateLimiter.gate s i = Some o ->
  RateLimiter.started (snd (RateLimiter.poll c s i)) = false /\
  RateLimiter.r (snd (RateLimiter.poll c s i)) =
    match o with RateLimiter.OOk => 1 | RateLimiter.OErr => 2 | RateLimiter.OPanic => 5 end.
Proof.
  intros Hr Hg. unfold RateLimiter.poll. cbn. rewrite Hr. unfold RateLimiter.poll_running. cbn.
  rewrite Hg. cbn. split; reflexivity.
Qed.

(* fallback: success passes through; an error the predicate refuses passes through as Inner *)
Lemma fallback_nontriggering {Req Res Err : Type}
      (st : Fallback.strategy Req Res Err) pred inner backup req :
  (forall e, inner req = inr e -> exists p, pred = Some p /\ p e = false) ->
  Fallback.inner_calls (Fallback.call st pred inner backup req) = [req] /\
  Fallback.backup_calls (Fallback.call st pred inner backup req) = [] /\
  Fallback.out (Fallback.call st pred inner backup req) =
    match inner req with inl r => inl r | inr e => inr (Fallback.Inner e) end.
Proof.
  intros H. unfold Fallback.call. destruct (inner req) as [r|e] eqn:E; [repeat split|].
  destruct (H e eq_refl) as (p & -> & Hp). rewrite Hp. cbn. repeat split.
Qed.
