(* C04: the transcribed Circuit (Model/Circuit.v) refines the documented circuit-breaker
   state machine (Model/CircuitSpec.v) on every sequential history, for every well-formed
   configuration. *)
From TR Require Import Lib.Base Model.Circuit Model.CircuitSpec.
From RecordUpdate Require Import RecordUpdate.

Notation rec := (Z * bool * bool)%type.

(* keep cbn away from binary arithmetic *)
#[local] Arguments Z.add : simpl never.
#[local] Arguments Z.sub : simpl never.
#[local] Arguments Z.mul : simpl never.
#[local] Arguments Z.opp : simpl never.
#[local] Arguments Z.max : simpl never.
#[local] Arguments Z.min : simpl never.
#[local] Arguments Z.ltb : simpl never.
#[local] Arguments Z.leb : simpl never.
#[local] Arguments Z.eqb : simpl never.
#[local] Arguments Z.compare : simpl never.
#[local] Arguments Z.of_nat : simpl never.
#[local] Arguments Z.to_nat : simpl never.

(* ------------------------------------------------------------------------- *)
(* lastn *)

Lemma lastn_all {A} (n : nat) (l : list A) : (length l <= n)%nat -> lastn n l = l.
Proof.
  intros H. unfold lastn. replace (length l - n)%nat with 0%nat by lia. reflexivity.
Qed.

Lemma lastn_length {A} (n : nat) (l : list A) : length (lastn n l) = Nat.min n (length l).
Proof. unfold lastn. rewrite skipn_length. lia. Qed.

Lemma lastn_cons_drop {A} (n : nat) (x : A) (l : list A) :
  (n <= length l)%nat -> lastn n (x :: l) = lastn n l.
Proof.
  intros H. unfold lastn. cbn [length].
  replace (S (length l) - n)%nat with (S (length l - n)) by lia. reflexivity.
Qed.

Lemma skipn_skipn' {A} (a b : nat) (l : list A) : skipn a (skipn b l) = skipn (b + a) l.
Proof.
  revert l. induction b as [|b IH]; intros l; [reflexivity|].
  destruct l as [|x l]; cbn [skipn Nat.add]; [destruct a; reflexivity|apply IH].
Qed.

Lemma lastn_lastn {A} (m n : nat) (l : list A) :
  (m <= n)%nat -> lastn m (lastn n l) = lastn m l.
Proof.
  intros H. unfold lastn at 1. rewrite lastn_length. unfold lastn.
  rewrite skipn_skipn'. f_equal. lia.
Qed.

Lemma lastn_snoc {A} (n : nat) (l : list A) (x : A) :
  (1 <= n)%nat -> lastn n (l ++ [x]) = lastn (n - 1) l ++ [x].
Proof.
  intros H. unfold lastn. rewrite app_length. cbn [length].
  rewrite skipn_app.
  replace (length l + 1 - n)%nat with (length l - (n - 1))%nat by lia.
  replace (length l - (n - 1) - length l)%nat with 0%nat by lia. reflexivity.
Qed.

Lemma lastn_push {A} (n : nat) (l : list A) (x : A) :
  (1 <= n)%nat -> lastn n (lastn n l ++ [x]) = lastn n (l ++ [x]).
Proof.
  intros H. rewrite !lastn_snoc by exact H. rewrite lastn_lastn by lia. reflexivity.
Qed.

(* ------------------------------------------------------------------------- *)
(* aggregates *)

Definition b2n (b : bool) : Z := if b then 1 else 0.
Definition isf (r : rec) : bool := snd (fst r).
Definition iss (r : rec) : bool := snd r.
Definition pr (r : rec) : bool * bool := (snd (fst r), snd r).

Lemma count_fail_nil : count_fail [] = 0.
Proof. reflexivity. Qed.
Lemma count_slow_nil : count_slow [] = 0.
Proof. reflexivity. Qed.

Lemma count_fail_cons r l : count_fail (r :: l) = b2n (isf r) + count_fail l.
Proof.
  unfold count_fail, isf, b2n. cbn [filter]. destruct (snd (fst r)); cbn [length]; lia.
Qed.
Lemma count_slow_cons r l : count_slow (r :: l) = b2n (iss r) + count_slow l.
Proof.
  unfold count_slow, iss, b2n. cbn [filter]. destruct (snd r); cbn [length]; lia.
Qed.
Lemma count_fail_snoc l r : count_fail (l ++ [r]) = count_fail l + b2n (isf r).
Proof.
  unfold count_fail, isf, b2n. rewrite filter_app, app_length. cbn [filter].
  destruct (snd (fst r)); cbn [length]; lia.
Qed.
Lemma count_slow_snoc l r : count_slow (l ++ [r]) = count_slow l + b2n (iss r).
Proof.
  unfold count_slow, iss, b2n. rewrite filter_app, app_length. cbn [filter].
  destruct (snd r); cbn [length]; lia.
Qed.

(* the count-based ring buffer and its counters hold exactly the outcomes [w] *)
Definition agg (c : circuit) (w : list rec) : Prop :=
  cwin c = map pr w /\ tc c = Z.of_nat (length w) /\ fc c = count_fail w /\
  slowc c = count_slow w.

(* fields that slide_loop leaves alone *)
Definition same_ctl (c c' : circuit) : Prop :=
  state c' = state c /\ state_atomic c' = state_atomic c /\ last_change c' = last_change c /\
  rsc c' = rsc c /\ hos c' = hos c /\ admitted c' = admitted c /\ records c' = records c.

Lemma slide_loop_spec (n : nat) : forall (fuel : nat) (c : circuit) (w : list rec),
  agg c w -> (length w <= fuel)%nat ->
  agg (slide_loop fuel (Z.of_nat n) c) (lastn n w) /\ same_ctl c (slide_loop fuel (Z.of_nat n) c).
Proof.
  induction fuel as [|k IH]; intros c w Hagg Hlen.
  - destruct w; [|cbn in Hlen; lia]. cbn [slide_loop]. split; [exact Hagg|].
    unfold same_ctl; repeat split.
  - cbn [slide_loop]. destruct Hagg as (Hw & Ht & Hf & Hs).
    rewrite Hw, map_length.
    destruct (Z.of_nat n <? Z.of_nat (length w)) eqn:E.
    + apply Z.ltb_lt in E.
      destruct w as [|[[ts f] s] rest]; [cbn in E; lia|].
      cbn [map pr fst snd]. cbn [length] in *.
      rewrite lastn_cons_drop by lia.
      match goal with |- agg (slide_loop k _ ?c') _ /\ _ => specialize (IH c' rest) end.
      destruct IH as [IH1 IH2].
      * rewrite count_fail_cons in Hf. rewrite count_slow_cons in Hs.
        unfold isf, iss, b2n in Hf, Hs. cbn [fst snd] in Hf, Hs.
        destruct c; cbn in *. subst.
        destruct f, s; cbn; unfold agg; cbn; repeat split; lia.
      * lia.
      * split; [exact IH1|].
        destruct IH2 as (a1 & a2 & a3 & a4 & a5 & a6 & a7).
        unfold same_ctl. rewrite a1, a2, a3, a4, a5, a6, a7.
        destruct c; destruct f, s; cbn; repeat split.
    + apply Z.ltb_ge in E. rewrite lastn_all by lia.
      split; [unfold agg; auto|]. unfold same_ctl; repeat split.
Qed.

(* ------------------------------------------------------------------------- *)
(* time-based window: drop_old on sorted timestamps is a filter *)

Definition keep (now dur : Z) (r : rec) : bool := negb (dur <? now - fst (fst r)).

(* timestamps nondecreasing and bounded by [hi] *)
Fixpoint srt (l : list rec) (hi : Z) : Prop :=
  match l with
  | [] => True
  | r :: rest => Forall (fun r' => fst (fst r) <= fst (fst r')) rest /\ fst (fst r) <= hi /\ srt rest hi
  end.

Lemma srt_mono l hi hi' : srt l hi -> hi <= hi' -> srt l hi'.
Proof.
  induction l as [|r rest IH]; cbn [srt]; [auto|].
  intros (H1 & H2 & H3) Hle. repeat split; [exact H1|lia|apply IH; assumption].
Qed.

Lemma srt_bound l hi : srt l hi -> Forall (fun r => fst (fst r) <= hi) l.
Proof.
  induction l as [|r rest IH]; cbn [srt]; [constructor|].
  intros (H1 & H2 & H3). constructor; [exact H2|apply IH; exact H3].
Qed.

Lemma srt_snoc l hi x : srt l hi -> hi <= fst (fst x) -> srt (l ++ [x]) (fst (fst x)).
Proof.
  induction l as [|r rest IH]; cbn [srt app].
  - intros _ _. repeat split; [constructor|lia].
  - intros (H1 & H2 & H3) Hle. repeat split.
    + apply Forall_app. split; [exact H1|]. constructor; [lia|constructor].
    + lia.
    + apply IH; assumption.
Qed.

Lemma filter_all {A} (p : A -> bool) l : Forall (fun x => p x = true) l -> filter p l = l.
Proof.
  induction 1 as [|x l Hx _ IH]; cbn [filter]; [reflexivity|]. rewrite Hx, IH. reflexivity.
Qed.

Lemma drop_old_filter now dur l hi : srt l hi -> drop_old now dur l = filter (keep now dur) l.
Proof.
  induction l as [|[[ts f] s] rest IH]; [reflexivity|].
  intros Hs. pose proof Hs as (H1 & H2 & H3). cbn [drop_old filter].
  unfold keep at 1. cbn [fst snd].
  destruct (dur <? now - ts) eqn:E; cbn [negb].
  - apply IH. exact H3.
  - f_equal. symmetry. apply filter_all.
    apply Z.ltb_ge in E. eapply Forall_impl; [|exact H1].
    cbn [fst snd]. intros r Hr. unfold keep. apply negb_true_iff. apply Z.ltb_ge. lia.
Qed.

Lemma drop_old_filter_filter now tl dur l hi :
  srt l hi -> tl <= now ->
  drop_old now dur (filter (keep tl dur) l) = filter (keep now dur) l.
Proof.
  intros Hs Hle. induction l as [|r rest IH]; [reflexivity|].
  pose proof Hs as (H1 & H2 & H3). cbn [filter].
  destruct (keep tl dur r) eqn:E.
  - assert (Hall : filter (keep tl dur) rest = rest).
    { apply filter_all. eapply Forall_impl; [|exact H1].
      intros r' Hr'. unfold keep in *. apply negb_true_iff in E. apply Z.ltb_ge in E.
      apply negb_true_iff. apply Z.ltb_ge. lia. }
    rewrite Hall. rewrite (drop_old_filter now dur (r :: rest) hi Hs). reflexivity.
  - assert (E' : keep now dur r = false).
    { unfold keep in *. apply negb_false_iff in E. apply Z.ltb_lt in E.
      apply negb_false_iff. apply Z.ltb_lt. lia. }
    rewrite E'. apply IH. exact H3.
Qed.

(* ------------------------------------------------------------------------- *)
(* the abstraction relation *)

Definition nwin (cf : cfg) : nat := Z.to_nat (Z.max (wsize cf) 1).

Definition Rclosed (cf : cfg) (t : Z) (c : circuit) (hist : list rec) : Prop :=
  if time_based cf then
    srt hist t /\ exists tl, tl <= t /\ records c = filter (keep tl (wdur cf)) hist
  else
    agg c (lastn (nwin cf) hist) /\ rsc c = Z.of_nat (length hist).

Definition R (cf : cfg) (t : Z) (c : circuit) (sp : sstate) : Prop :=
  match sp with
  | SClosed hist => state c = Closed /\ state_atomic c = Closed /\ Rclosed cf t c hist
  | SOpen since => state c = Open /\ state_atomic c = Open /\ last_change c = since
  | SHalfOpen succ =>
    state c = HalfOpen /\ state_atomic c = HalfOpen /\ hos c = succ /\ admitted c = succ /\
    succ < permitted cf
  end.

#[local] Arguments R : simpl never.

Lemma nwin_pos cf : (1 <= nwin cf)%nat.
Proof. unfold nwin. lia. Qed.
Lemma nwin_Z cf : Z.of_nat (nwin cf) = Z.max (wsize cf) 1.
Proof. unfold nwin. lia. Qed.

Lemma R_init cf : R cf 0 new_circuit (SClosed []).
Proof.
  unfold R. cbn. repeat split. unfold Rclosed. destruct (time_based cf).
  - split; [exact I|]. exists 0. split; [lia|reflexivity].
  - cbn. unfold agg. cbn. repeat split.
Qed.

(* observations agree under R *)
Lemma obs_agree cf t c sp inv : R cf t c sp -> conc_obs cf c inv = spec_obs cf t sp inv.
Proof.
  intros HR. unfold conc_obs, spec_obs, metrics, time_based_stats.
  destruct sp as [hist|since|succ]; unfold R in HR; cbn [sstate_code].
  - destruct HR as (H1 & H2 & H3). unfold Rclosed, window in *.
    destruct (time_based cf); cbn [negb andb]; rewrite H1, H2; [reflexivity|].
    cbn [cstate_eqb]. destruct H3 as ((_ & Ht & Hf & Hs) & _).
    fold (nwin cf). rewrite Ht, Hf, Hs. reflexivity.
  - destruct HR as (H1 & H2 & _). rewrite H1, H2.
    destruct (time_based cf); cbn; reflexivity.
  - destruct HR as (H1 & H2 & _). rewrite H1, H2.
    destruct (time_based cf); cbn; reflexivity.
Qed.

Lemma R_mono cf t t' c sp : R cf t c sp -> t <= t' -> R cf t' c sp.
Proof.
  destruct sp as [hist|since|succ]; unfold R; auto.
  intros (H1 & H2 & H3) Hle. repeat split; auto.
  unfold Rclosed in *. destruct (time_based cf); [|exact H3].
  destruct H3 as (Hs & tl & Htl & Hr). split; [eapply srt_mono; eauto|].
  exists tl. split; [lia|exact Hr].
Qed.

Lemma R_closed_nil cf t c :
  state c = Closed -> state_atomic c = Closed -> records c = [] -> cwin c = [] ->
  tc c = 0 -> fc c = 0 -> slowc c = 0 -> rsc c = 0 -> R cf t c (SClosed []).
Proof.
  intros. unfold R. repeat split; auto. unfold Rclosed. destruct (time_based cf).
  - split; [exact I|]. exists t. split; [lia|assumption].
  - cbn. unfold agg. cbn. repeat split; assumption.
Qed.

(* every way of becoming closed yields the empty history *)
Lemma R_transition_closed cf t now c :
  state c <> Closed -> R cf t (transition_to now Closed c) (SClosed []).
Proof.
  intros Hne. destruct c; cbn in *. destruct state; [congruence| |];
    apply R_closed_nil; reflexivity.
Qed.

Lemma R_clear_closed cf t c :
  state c = Closed -> state_atomic c = Closed -> R cf t (clear_window c) (SClosed []).
Proof.
  intros H1 H2. destruct c; cbn in *. subst. apply R_closed_nil; reflexivity.
Qed.

Lemma R_transition_open cf t now c :
  state c <> Open -> R cf t (transition_to now Open c) (SOpen now).
Proof.
  intros Hne. destruct c; cbn in *. destruct state; [|congruence|]; unfold R; cbn; auto.
Qed.

Definition trial (cf : cfg) (t' : Z) (f : bool) (succ : Z) : sstate :=
  if f then SOpen t'
  else if permitted cf <=? succ + 1 then SClosed [] else SHalfOpen (succ + 1).

(* recording the outcome of a trial call: the slot was taken (admitted = hos + 1) *)
Lemma record_halfopen cf t' f d c :
  state c = HalfOpen -> state_atomic c = HalfOpen -> admitted c = hos c + 1 ->
  R cf t' (record t' cf f d c) (trial cf t' f (hos c)).
Proof.
  intros H1 H2 H3. destruct c; cbn in *. subst.
  unfold record, trial, cleanup_old_records, slide_count_window.
  destruct (time_based cf), f, (slow_on cf && (slow_thr cf <=? d)); cbn;
    try (unfold R; cbn; repeat split; reflexivity);
    destruct (permitted cf <=? hos + 1) eqn:E; cbn;
    try (apply R_closed_nil; reflexivity);
    apply Z.leb_gt in E; unfold R; cbn; repeat split; lia.
Qed.

Lemma wf_dur cf : wf cf = true -> 0 <= wdur cf.
Proof. unfold wf. intros H. repeat (apply andb_prop in H; destruct H as [H ?]). lia. Qed.

Lemma record_closed_tb cf t t' f d c hist :
  wf cf = true -> time_based cf = true ->
  state c = Closed -> state_atomic c = Closed -> Rclosed cf t c hist -> t <= t' ->
  let hist' := hist ++ [(t', f, is_slow cf d)] in
  R cf t' (record t' cf f d c) (if trips cf t' hist' then SOpen t' else SClosed hist').
Proof.
  intros Hwf Htb H1 H2 HR Hle hist'.
  unfold Rclosed in HR. rewrite Htb in HR. destruct HR as (Hs & tl & Htl & Hrec).
  assert (Hs' : srt hist' t').
  { apply (srt_snoc hist t (t', f, is_slow cf d)); [exact Hs|cbn; lia]. }
  assert (Hrecs : drop_old t' (wdur cf)
            (drop_old t' (wdur cf) (filter (keep tl (wdur cf)) hist) ++ [(t', f, is_slow cf d)])
          = filter (keep t' (wdur cf)) hist').
  { rewrite (drop_old_filter_filter t' tl (wdur cf) hist t Hs) by lia.
    assert (Hk : keep t' (wdur cf) (t', f, is_slow cf d) = true).
    { unfold keep. cbn [fst]. apply negb_true_iff. apply Z.ltb_ge.
      pose proof (wf_dur cf Hwf). lia. }
    assert (Hf : filter (keep t' (wdur cf)) hist' =
                 filter (keep t' (wdur cf)) hist ++ [(t', f, is_slow cf d)]).
    { unfold hist'. rewrite filter_app. cbn [filter]. rewrite Hk. reflexivity. }
    rewrite <- Hf. apply (drop_old_filter_filter t' t' (wdur cf) hist' t' Hs'). lia. }
  destruct c; cbn in *; subst.
  unfold record, evaluate_window, cleanup_old_records, time_based_stats, trips, enough, window.
  rewrite Htb. cbn. fold (is_slow cf d). rewrite Hrecs. fold hist'.
  set (w := filter (keep t' (wdur cf)) hist').
  assert (Hw : filter (fun r : rec => negb (wdur cf <? t' - fst (fst r))) hist' = w) by reflexivity.
  rewrite Hw.
  destruct (Z.of_nat (length w) <? minc cf) eqn:E.
  - apply Z.ltb_lt in E. replace (minc cf <=? Z.of_nat (length w)) with false by (symmetry; apply Z.leb_gt; lia).
    cbn [andb]. unfold R; cbn. repeat split. unfold Rclosed. rewrite Htb. split; [exact Hs'|].
    exists t'. split; [lia|reflexivity].
  - apply Z.ltb_ge in E. replace (minc cf <=? Z.of_nat (length w)) with true by (symmetry; apply Z.leb_le; lia).
    cbn [andb].
    destruct (rate_ge (count_fail w) (Z.of_nat (length w)) (fnum cf) (fden cf)
              || slow_on cf && rate_ge (count_slow w) (Z.of_nat (length w)) (snum cf) (sden cf)).
    + unfold R; cbn. auto.
    + unfold R; cbn. repeat split. unfold Rclosed. rewrite Htb. split; [exact Hs'|].
      exists t'. split; [lia|reflexivity].
Qed.

(* count-based: the counter updates at the head of [record] *)
Definition bump (f s : bool) (c0 : circuit) : circuit :=
  let c := if f then c0 <| fc := fc c0 + 1 |> else c0 <| sc := sc c0 + 1 |> in
  let c := c <| tc := tc c + 1 |> in
  if s then c <| slowc := slowc c + 1 |> else c.

Lemma record_cb now cf f d c :
  time_based cf = false ->
  record now cf f d c =
  let c1 := slide_count_window cf f (is_slow cf d) (bump f (is_slow cf d) c) in
  match state c1 with
  | HalfOpen =>
    if f then transition_to now Open c1
    else let c2 := c1 <| hos := hos c1 + 1 |> in
         if permitted cf <=? hos c2 then transition_to now Closed c2 else c2
  | _ => evaluate_window now cf c1
  end.
Proof. intros H. unfold record. rewrite H. reflexivity. Qed.

(* the ring-buffer lemma *)
Lemma slide_count_window_closed cf ts f s c w :
  state c = Closed -> agg c w ->
  let c1 := slide_count_window cf f s (bump f s c) in
  agg c1 (lastn (nwin cf) (w ++ [(ts, f, s)])) /\
  state c1 = Closed /\ state_atomic c1 = state_atomic c /\ rsc c1 = rsc c + 1.
Proof.
  intros H1 Hagg c1.
  set (c0 := (bump f s c) <| rsc := rsc (bump f s c) + 1 |>
                          <| cwin := cwin (bump f s c) ++ [(f, s)] |>).
  assert (Hc0 : agg c0 (w ++ [(ts, f, s)])).
  { destruct Hagg as (Hw & Ht & Hf & Hs). unfold agg.
    rewrite count_fail_snoc, count_slow_snoc, app_length, map_app.
    unfold isf, iss, b2n, pr. cbn [fst snd map length].
    subst c0. destruct c; cbn in *; subst.
    destruct f, s; cbn; repeat split; lia. }
  assert (Hst : state c0 = Closed /\ state_atomic c0 = state_atomic c /\ rsc c0 = rsc c + 1).
  { subst c0. destruct c; cbn in *; subst. destruct f, s; cbn; repeat split. }
  assert (Hlen : length (cwin c0) = length (w ++ [(ts, f, s)])).
  { destruct Hc0 as (Hw & _). rewrite Hw, map_length. reflexivity. }
  assert (Hc1 : c1 = slide_loop (length (cwin c0)) (Z.of_nat (nwin cf)) c0).
  { subst c1. unfold slide_count_window. fold c0.
    destruct Hst as (Hst & _). rewrite Hst. rewrite nwin_Z. reflexivity. }
  destruct (slide_loop_spec (nwin cf) (length (cwin c0)) c0 _ Hc0) as [Ha Hc]; [lia|].
  rewrite <- Hc1 in Ha, Hc. destruct Hc as (a1 & a2 & _ & a4 & _).
  destruct Hst as (s1 & s2 & s3).
  split; [exact Ha|]. rewrite a1, a2, a4. auto.
Qed.

Lemma evaluate_cb cf t' c hist' :
  time_based cf = false -> state c = Closed -> state_atomic c = Closed ->
  agg c (lastn (nwin cf) hist') -> rsc c = Z.of_nat (length hist') ->
  R cf t' (evaluate_window t' cf c) (if trips cf t' hist' then SOpen t' else SClosed hist').
Proof.
  intros Htb H1 H2 Hagg Hrsc. pose proof Hagg as (Hw & Ht & Hf & Hs).
  assert (Hkeep : R cf t' c (SClosed hist')).
  { unfold R. repeat split; auto. unfold Rclosed. rewrite Htb. auto. }
  unfold evaluate_window, trips, enough, window. rewrite Htb. cbn [negb andb].
  fold (nwin cf). rewrite Hrsc, Ht, Hf, Hs.
  destruct (Z.of_nat (length hist') <? minc cf) eqn:E1.
  - apply Z.ltb_lt in E1.
    replace (minc cf <=? Z.of_nat (length hist')) with false by (symmetry; apply Z.leb_gt; lia).
    exact Hkeep.
  - apply Z.ltb_ge in E1.
    replace (minc cf <=? Z.of_nat (length hist')) with true by (symmetry; apply Z.leb_le; lia).
    cbn [andb].
    destruct (Z.of_nat (length hist') <? wsize cf) eqn:E2.
    + apply Z.ltb_lt in E2.
      replace (wsize cf <=? Z.of_nat (length hist')) with false by (symmetry; apply Z.leb_gt; lia).
      exact Hkeep.
    + apply Z.ltb_ge in E2.
      replace (wsize cf <=? Z.of_nat (length hist')) with true by (symmetry; apply Z.leb_le; lia).
      cbn [andb].
      match goal with |- context [if ?b then transition_to _ _ _ else _] => destruct b end.
      * apply R_transition_open. congruence.
      * exact Hkeep.
Qed.

Lemma record_closed_cb cf t' f d c hist :
  time_based cf = false ->
  state c = Closed -> state_atomic c = Closed -> Rclosed cf t' c hist ->
  let hist' := hist ++ [(t', f, is_slow cf d)] in
  R cf t' (record t' cf f d c) (if trips cf t' hist' then SOpen t' else SClosed hist').
Proof.
  intros Htb H1 H2 HR hist'. unfold Rclosed in HR. rewrite Htb in HR. destruct HR as (Hagg & Hrsc).
  rewrite (record_cb t' cf f d c Htb).
  destruct (slide_count_window_closed cf t' f (is_slow cf d) c _ H1 Hagg) as (Ha & Hs & Hsa & Hr).
  cbv zeta. rewrite Hs.
  rewrite lastn_push in Ha by apply nwin_pos.
  apply evaluate_cb; auto.
  - congruence.
  - rewrite Hr, Hrsc. unfold hist'. rewrite app_length. cbn [length]. lia.
Qed.

Lemma record_closed cf t t' f d c hist :
  wf cf = true -> t <= t' ->
  state c = Closed -> state_atomic c = Closed -> Rclosed cf t c hist ->
  let hist' := hist ++ [(t', f, is_slow cf d)] in
  R cf t' (record t' cf f d c) (if trips cf t' hist' then SOpen t' else SClosed hist').
Proof.
  intros Hwf Hle H1 H2 HR. destruct (time_based cf) eqn:Htb.
  - eapply record_closed_tb; eauto.
  - apply record_closed_cb; auto.
    assert (HR' : R cf t' c (SClosed hist)).
    { apply (R_mono cf t t'); [|exact Hle]. unfold R. auto. }
    unfold R in HR'. tauto.
Qed.

Lemma lat_nonneg l : 0 <= lat l.
Proof. unfold lat. lia. Qed.

#[local] Arguments record : simpl never.
#[local] Arguments transition_to : simpl never.
#[local] Arguments trips : simpl never.

(* one event: same clock, same admission verdict, R re-established *)
Lemma step_R cf t c sp e :
  wf cf = true -> R cf t c sp ->
  fst (fst (seq_step cf (t, c) e)) = fst (fst (spec_step cf (t, sp) e)) /\
  snd (seq_step cf (t, c) e) = snd (spec_step cf (t, sp) e) /\
  R cf (fst (fst (seq_step cf (t, c) e))) (snd (fst (seq_step cf (t, c) e)))
    (snd (fst (spec_step cf (t, sp) e))).
Proof.
  intros Hwf HR. destruct e as [f l|d| | |].
  - (* HCall *)
    pose proof (lat_nonneg l) as Hl.
    destruct sp as [hist|since|succ]; unfold R in HR.
    + destruct HR as (H1 & H2 & H3).
      unfold seq_step, spec_step, try_acquire. rewrite H1. cbn [fst snd].
      repeat split. apply (record_closed cf t); auto. lia.
    + destruct HR as (H1 & H2 & H3).
      unfold seq_step, spec_step, try_acquire. rewrite H1, H3.
      destruct (wait_open cf <=? t - since); cbn [fst snd]; [|unfold R; auto].
      repeat split.
      set (c' := (transition_to t HalfOpen c) <| admitted := 1 |>).
      assert (Hc' : state c' = HalfOpen /\ state_atomic c' = HalfOpen /\ hos c' = 0 /\ admitted c' = 1).
      { subst c'. unfold transition_to. rewrite H1. destruct c; cbn. auto. }
      destruct Hc' as (a1 & a2 & a3 & a4).
      pose proof (record_halfopen cf (t + lat l) f (lat l) c' a1 a2) as HH.
      rewrite a3 in HH. apply HH. lia.
    + destruct HR as (H1 & H2 & H3 & H4 & H5).
      unfold seq_step, spec_step, try_acquire. rewrite H1, H4.
      replace (succ <? permitted cf) with true by (symmetry; apply Z.ltb_lt; lia).
      cbn [fst snd]. repeat split.
      set (c' := c <| admitted := succ + 1 |>).
      assert (Hc' : state c' = HalfOpen /\ state_atomic c' = HalfOpen /\ hos c' = succ /\ admitted c' = succ + 1).
      { subst c'. destruct c; cbn in *. auto. }
      destruct Hc' as (a1 & a2 & a3 & a4).
      pose proof (record_halfopen cf (t + lat l) f (lat l) c' a1 a2) as HH.
      rewrite a3 in HH. apply HH. lia.
  - (* HWait *)
    cbn. repeat split. apply (R_mono cf t); [exact HR|]. pose proof (lat_nonneg d). lia.
  - (* HForceOpen *)
    cbn [seq_step spec_step fst snd]. repeat split. unfold force_open.
    destruct sp as [hist|since|succ]; unfold R in HR.
    + apply R_transition_open. destruct HR as (H1 & _). congruence.
    + destruct HR as (H1 & H2 & H3). unfold transition_to. rewrite H1. cbn. unfold R. auto.
    + apply R_transition_open. destruct HR as (H1 & _). congruence.
  - (* HForceClosed *)
    cbn [seq_step spec_step fst snd]. repeat split. unfold force_closed.
    destruct sp as [hist|since|succ]; unfold R in HR.
    + destruct HR as (H1 & H2 & H3). unfold transition_to. rewrite H1. cbn. unfold R. auto.
    + apply R_transition_closed. destruct HR as (H1 & _). congruence.
    + apply R_transition_closed. destruct HR as (H1 & _). congruence.
  - (* HReset *)
    cbn [seq_step spec_step fst snd]. split; [reflexivity|split; [reflexivity|]]. unfold reset.
    destruct sp as [hist|since|succ]; unfold R in HR.
    + destruct HR as (H1 & H2 & H3). unfold transition_to. rewrite H1. cbn [cstate_eqb].
      apply R_clear_closed; assumption.
    + destruct HR as (H1 & H2 & H3). unfold transition_to. rewrite H1.
      apply (R_closed_nil cf t); destruct c; cbn in *; reflexivity.
    + destruct HR as (H1 & H2 & H3). unfold transition_to. rewrite H1.
      apply (R_closed_nil cf t); destruct c; cbn in *; reflexivity.
Qed.

Lemma refines_from cf h : wf cf = true -> forall t c sp,
  R cf t c sp -> run_seq cf (t, c) h = run_spec cf (t, sp) h.
Proof.
  intros Hwf. induction h as [|e rest IH]; intros t c sp HR; [reflexivity|].
  cbn [run_seq run_spec].
  pose proof (step_R cf t c sp e Hwf HR) as (Ht & Hi & HR').
  destruct (seq_step cf (t, c) e) as [[t1 c1] i1].
  destruct (spec_step cf (t, sp) e) as [[t2 sp2] i2].
  cbn [fst snd] in *. subst t2 i2.
  f_equal.
  - apply obs_agree. exact HR'.
  - apply IH. exact HR'.
Qed.

Theorem refines_spec : forall cf h, wf cf = true ->
  run_seq cf (0, new_circuit) h = run_spec cf (0, SClosed []) h.
Proof. intros cf h Hwf. apply refines_from; [exact Hwf|apply R_init]. Qed.

(* the three views of the state coincide (the spec reports one value for all of them) *)
Lemma spec_views cf h : forall p,
  Forall (fun o => o_state o = o_sync o /\ o_sync o = o_metrics_state o) (run_spec cf p h).
Proof.
  induction h as [|e rest IH]; intros p; cbn [run_spec]; [constructor|].
  destruct (spec_step cf p e) as [p' inv]. constructor; [|apply IH].
  unfold spec_obs. cbn. split; reflexivity.
Qed.

Theorem views_agree : forall cf h, wf cf = true ->
  Forall (fun o => o_state o = o_sync o /\ o_sync o = o_metrics_state o)
         (run_seq cf (0, new_circuit) h).
Proof. intros cf h Hwf. rewrite (refines_spec cf h Hwf). apply spec_views. Qed.

(* ------------------------------------------------------------------------- *)
(* non-vacuity *)

(* count-based, window 3, minimum 3 calls, trip at 100 % failures: six successes slide
   through the window, two failures leave one success in it, the third failure trips *)
Definition cf_count : cfg := mkCfg false 3 10 3 1 1 false 0 1 1 10 1 false.

Example ex_wf_count : wf cf_count = true.
Proof. reflexivity. Qed.

Example ex_window_slides_then_trips :
  let h := [HCall false 0; HCall false 0; HCall false 0; HCall false 0; HCall false 0;
            HCall false 0; HCall true 0; HCall true 0; HCall true 0] in
  map (fun o => (o_state o, o_counts o)) (run_seq cf_count (0, new_circuit) h) =
  [(Closed, Some (1, 0, 0)); (Closed, Some (2, 0, 0)); (Closed, Some (3, 0, 0));
   (Closed, Some (3, 0, 0)); (Closed, Some (3, 0, 0)); (Closed, Some (3, 0, 0));
   (Closed, Some (3, 1, 0)); (Closed, Some (3, 2, 0)); (Open, None)]
  /\ run_seq cf_count (0, new_circuit) h = run_spec cf_count (0, SClosed []) h.
Proof. vm_compute. split; reflexivity. Qed.

(* reset while closed empties the window: without it the third failure trips, with it the
   count restarts *)
Example ex_reset_empties_window :
  map (fun o => (o_state o, o_counts o))
      (run_seq cf_count (0, new_circuit) [HCall true 0; HCall true 0; HReset; HCall true 0; HCall true 0]) =
  [(Closed, Some (1, 1, 0)); (Closed, Some (2, 2, 0)); (Closed, Some (0, 0, 0));
   (Closed, Some (1, 1, 0)); (Closed, Some (2, 2, 0))]
  /\ map o_state (run_seq cf_count (0, new_circuit) [HCall true 0; HCall true 0; HCall true 0]) =
     [Closed; Closed; Open].
Proof. vm_compute. split; reflexivity. Qed.

(* time-based, window 5 ms, wait 10 ms, two trial successes needed: the trial successes are
   100 ms apart (the first one is long out of the window) and still close the breaker; a
   rejected call in between does not invoke the inner service *)
Definition cf_time : cfg := mkCfg true 0 5 1 1 2 true 3 1 1 10 2 false.

Example ex_wf_time : wf cf_time = true.
Proof. reflexivity. Qed.

Example ex_time_based_trials_close :
  let h := [HCall true 0; HCall false 0; HWait 10; HCall false 0; HWait 100; HCall false 0;
            HCall false 4; HWait 6; HCall false 0] in
  map (fun o => (o_state o, o_invoked o)) (run_seq cf_time (0, new_circuit) h) =
  [(Open, Some true); (Open, Some false); (Open, None); (HalfOpen, Some true);
   (HalfOpen, None); (Closed, Some true); (Open, Some true); (Open, None); (Open, Some false)]
  /\ run_seq cf_time (0, new_circuit) h = run_spec cf_time (0, SClosed []) h.
Proof. vm_compute. split; reflexivity. Qed.

(* time-based window really slides: two failures 6 ms apart never share the 5 ms window
   (minimum 2 calls), two failures 1 ms apart trip *)
Definition cf_time2 : cfg := mkCfg true 0 5 2 1 1 false 0 1 1 10 1 false.

Example ex_time_window_expires :
  map o_state (run_seq cf_time2 (0, new_circuit) [HCall true 0; HWait 6; HCall true 0]) =
    [Closed; Closed; Closed]
  /\ map o_state (run_seq cf_time2 (0, new_circuit) [HCall true 0; HWait 1; HCall true 0]) =
    [Closed; Closed; Open]
  /\ wf cf_time2 = true.
Proof. vm_compute. repeat split; reflexivity. Qed.
