(* Service-level invariants of the circuit-breaker model: lemmas for Props/C03.v and Props/C09.v *)
From TR Require Import Lib.Base Model.Circuit.
From RecordUpdate Require Import RecordUpdate.

Arguments Z.add : simpl never.
Arguments Z.sub : simpl never.
Arguments Z.max : simpl never.
Arguments Z.leb : simpl never.
Arguments Z.ltb : simpl never.
Arguments Z.eqb : simpl never.
Arguments Z.mul : simpl never.
Arguments upd : simpl never.

Lemma cstate_eqb_eq a b : cstate_eqb a b = true <-> a = b.
Proof. destruct a, b; cbn; split; intros H; congruence. Qed.

(* ---------- what circuit operations do to the control fields ---------- *)
(* "bookkeeping": only counters / windows change *)
Definition same_ctl (c c' : circuit) : Prop :=
  state c' = state c /\ state_atomic c' = state_atomic c /\ last_change c' = last_change c /\
  phase c' = phase c /\ admitted c' = admitted c.

Lemma same_ctl_refl c : same_ctl c c.
Proof. repeat split. Qed.

Lemma same_ctl_trans a b c : same_ctl a b -> same_ctl b c -> same_ctl a c.
Proof. unfold same_ctl. intros (A1&A2&A3&A4&A5) (B1&B2&B3&B4&B5). repeat split; congruence. Qed.

Lemma slide_loop_ctl fuel n c : same_ctl c (slide_loop fuel n c).
Proof.
  revert c. induction fuel as [|k IH]; intros c; cbn [slide_loop]; [apply same_ctl_refl|].
  destruct (n <? Z.of_nat (length (cwin c))); [|apply same_ctl_refl].
  destruct (cwin c) as [|[oldf olds] rest]; [apply same_ctl_refl|].
  eapply same_ctl_trans; [|apply IH].
  destruct oldf, olds; repeat split.
Qed.

Lemma slide_count_window_ctl cf f sl c : same_ctl c (slide_count_window cf f sl c).
Proof.
  unfold slide_count_window. cbn.
  destruct (state c); try (eapply same_ctl_trans; [|apply slide_loop_ctl]); repeat split.
Qed.

Lemma cleanup_ctl now cf c : same_ctl c (cleanup_old_records now cf c).
Proof. repeat split. Qed.

(* a (possible) transition performed at instant [now] *)
Definition trans_or_same (now : Z) (c c' : circuit) : Prop :=
  same_ctl c c' \/
  (state c' <> state c /\ state_atomic c' = state c' /\ last_change c' = now /\
   phase c' = phase c + 1 /\ admitted c' = 0).

Lemma transition_to_spec now s c :
  trans_or_same now c (transition_to now s c) /\
  (state (transition_to now s c) = s) /\
  (state_atomic c = state c -> state_atomic (transition_to now s c) = s).
Proof.
  unfold transition_to. destruct (cstate_eqb (state c) s) eqn:E.
  - apply cstate_eqb_eq in E. split; [left; apply same_ctl_refl|]. split; [exact E|congruence].
  - split; [|split; [reflexivity|intros _; reflexivity]].
    right. cbn. repeat split. intros H. rewrite H in E.
    assert (cstate_eqb (state c) (state c) = true) by (apply cstate_eqb_eq; reflexivity). congruence.
Qed.

Lemma trans_or_same_pre now a b c : same_ctl a b -> trans_or_same now b c -> trans_or_same now a c.
Proof.
  intros Hab [Hbc|(H1&H2&H3&H4&H5)].
  - left. eapply same_ctl_trans; eassumption.
  - destruct Hab as (A1&A2&A3&A4&A5). right. repeat split; congruence.
Qed.

Lemma trans_or_same_post now a b c : trans_or_same now a b -> same_ctl b c -> trans_or_same now a c.
Proof.
  intros [Hab|(H1&H2&H3&H4&H5)] Hbc.
  - left. eapply same_ctl_trans; eassumption.
  - destruct Hbc as (A1&A2&A3&A4&A5). right. repeat split; congruence.
Qed.

Lemma evaluate_window_spec now cf c : trans_or_same now c (evaluate_window now cf c).
Proof.
  unfold evaluate_window.
  set (c1 := if time_based cf then cleanup_old_records now cf c else c).
  assert (H1 : same_ctl c c1) by (subst c1; destruct (time_based cf); [apply cleanup_ctl|apply same_ctl_refl]).
  destruct (if time_based cf then time_based_stats c1 else (tc c1, fc c1, sc c1, slowc c1))
    as [[[total failures] succ] slow].
  destruct (_ <? minc cf); [left; exact H1|].
  destruct (negb (time_based cf) && _); [left; exact H1|].
  destruct (_ || _); [|left; exact H1].
  eapply trans_or_same_pre; [exact H1|]. apply transition_to_spec.
Qed.

Lemma record_spec now cf f d c : trans_or_same now c (record now cf f d c).
Proof.
  unfold record.
  set (c1 := if time_based cf then _ else _).
  assert (H1 : same_ctl c c1).
  { subst c1. destruct (time_based cf).
    - repeat split.
    - eapply same_ctl_trans; [|apply slide_count_window_ctl].
      destruct f, (slow_on cf && (slow_thr cf <=? d)); repeat split. }
  destruct (state c1).
  - eapply trans_or_same_pre; [exact H1|]. apply evaluate_window_spec.
  - eapply trans_or_same_pre; [exact H1|]. apply evaluate_window_spec.
  - destruct f.
    + eapply trans_or_same_pre; [exact H1|]. apply transition_to_spec.
    + cbn. destruct (permitted cf <=? hos c1 + 1).
      * eapply trans_or_same_pre; [|apply transition_to_spec].
        eapply same_ctl_trans; [exact H1|]. repeat split.
      * left. eapply same_ctl_trans; [exact H1|]. repeat split.
Qed.

Lemma clear_window_ctl c : same_ctl c (clear_window c).
Proof. repeat split. Qed.

(* the lock-free mirror always equals the state *)
Definition synced (c : circuit) : Prop := state_atomic c = state c.

Lemma trans_or_same_synced now c c' : synced c -> trans_or_same now c c' -> synced c'.
Proof.
  unfold synced. intros H [(A1&A2&A3&A4&A5)|(H1&H2&H3&H4&H5)]; congruence.
Qed.

Lemma try_acquire_spec now cf c :
  let c' := fst (try_acquire now cf c) in
  let ok := snd (try_acquire now cf c) in
  (synced c -> synced c') /\
  (* Open and wait not elapsed: rejected, nothing changes *)
  (state c = Open -> now - last_change c < wait_open cf -> ok = false /\ c' = c) /\
  (* half-open and all slots taken: rejected, nothing changes *)
  (state c = HalfOpen -> permitted cf <= admitted c -> ok = false /\ c' = c) /\
  (* admission while half-open takes a slot of the same phase *)
  (state c = HalfOpen -> admitted c < permitted cf ->
     ok = true /\ state c' = HalfOpen /\ phase c' = phase c /\ admitted c' = admitted c + 1
     /\ last_change c' = last_change c) /\
  (* open and wait elapsed: first trial of a new phase *)
  (state c = Open -> wait_open cf <= now - last_change c ->
     ok = true /\ state c' = HalfOpen /\ phase c' = phase c + 1 /\ admitted c' = 1 /\
     last_change c' = now) /\
  (state c = Closed -> ok = true /\ c' = c).
Proof.
  unfold try_acquire. cbn zeta. destruct (state c) eqn:Es.
  - cbn. repeat split; try discriminate; try (intros; assumption).
  - destruct (wait_open cf <=? now - last_change c) eqn:Ew; cbn.
    + apply Z.leb_le in Ew. repeat split; try discriminate; try lia.
      * intros Hs. unfold synced. cbn. unfold transition_to. rewrite Es. cbn. reflexivity.
      * unfold transition_to. rewrite Es. reflexivity.
      * unfold transition_to. rewrite Es. reflexivity.
      * unfold transition_to. rewrite Es. reflexivity.
    + apply Z.leb_gt in Ew. repeat split; try discriminate; try lia; try (intros; assumption).
  - destruct (admitted c <? permitted cf) eqn:Ea; cbn.
    + apply Z.ltb_lt in Ea. repeat split; try discriminate; try lia; try (intros; assumption).
    + apply Z.ltb_ge in Ea. repeat split; try discriminate; try lia; try (intros; assumption).
Qed.

(* ---------- reachable-state invariant of the service model ---------- *)
Record Inv (cf : cfg) (s : st) : Prop := {
  i_sync : synced (circ s);
  i_adm0 : 0 <= admitted (circ s);
  i_hand0 : 0 <= ghand s;
  i_adm : state (circ s) = HalfOpen -> admitted (circ s) <= permitted cf;
  i_ghost : gstarts s <= admitted (circ s) + ghand s;
  i_lc : last_change (circ s) <= now s
}.

Lemma inv_init cf : Inv cf init.
Proof. constructor; cbn; try reflexivity; try lia. discriminate. Qed.

(* an operation of the circuit that is a transition-or-same, followed by gsync *)
Lemma inv_gsync_trans cf s c' :
  1 <= permitted cf -> Inv cf s -> trans_or_same (now s) (circ s) c' ->
  Inv cf (gsync (phase (circ s)) (s <| circ := c' |>)).
Proof.
  intros Hp [Hs Ha0 Hh0 Ha Hg Hl] Ht. unfold gsync. cbn.
  destruct Ht as [(A1&A2&A3&A4&A5)|(H1&H2&H3&H4&H5)].
  - rewrite A4, Z.eqb_refl. constructor; cbn; unfold synced in *; try congruence; try lia.
    rewrite A1. rewrite A5. exact Ha.
  - destruct (phase c' =? phase (circ s)) eqn:E; [apply Z.eqb_eq in E; lia|].
    constructor; cbn; unfold synced in *; try congruence; try lia.
Qed.

Lemma drop_trial_spec tr c :
  same_ctl c (drop_trial tr c) \/
  (exists p, tr = Some p /\ p = phase c /\
     state (drop_trial tr c) = state c /\ state_atomic (drop_trial tr c) = state_atomic c /\
     last_change (drop_trial tr c) = last_change c /\ phase (drop_trial tr c) = phase c /\
     admitted (drop_trial tr c) = Z.max 0 (admitted c - 1)).
Proof.
  destruct tr as [p|]; cbn; [|left; apply same_ctl_refl].
  destruct (p =? phase c) eqn:E; [|left; apply same_ctl_refl].
  apply Z.eqb_eq in E. right. exists p. repeat split; assumption.
Qed.

Lemma inv_handback cf s tr :
  Inv cf s -> Inv cf ((ghandback tr s) <| circ := drop_trial tr (circ s) |>).
Proof.
  intros [Hs Ha0 Hh0 Ha Hg Hl]. destruct tr as [p|]; cbn; [|constructor; assumption].
  destruct (p =? phase (circ s)) eqn:E; cbn; [|constructor; assumption].
  constructor; cbn; unfold synced in *; try assumption; try lia.
  intros H. specialize (Ha H). lia.
Qed.

(* setters that do not touch circ / ghosts / now preserve Inv *)
Lemma inv_frame cf s s' :
  Inv cf s -> circ s' = circ s -> gstarts s' = gstarts s -> ghand s' = ghand s -> now s' = now s ->
  Inv cf s'.
Proof.
  intros [Hs Ha0 Hh0 Ha Hg Hl] Hc Hgs Hgh Hn. constructor; rewrite ?Hc, ?Hgs, ?Hgh, ?Hn; assumption.
Qed.

Lemma poll_running_inv cf s i start tr b :
  1 <= permitted cf -> Inv cf s -> Inv cf (fst (poll_running cf s i start tr b)).
Proof.
  intros Hp Hinv. unfold poll_running. destruct (gate s i) as [[f|f| |]|]; cbn [fst].
  - eapply inv_frame with (s := gsync (phase (circ s)) (s <| circ := record (now s) cf f (now s - start) (circ s) |>)).
    + apply inv_gsync_trans; [exact Hp|exact Hinv|apply record_spec].
    + unfold gsync. cbn. destruct (_ =? _); reflexivity.
    + unfold gsync. cbn. destruct (_ =? _); reflexivity.
    + unfold gsync. cbn. destruct (_ =? _); reflexivity.
    + unfold gsync. cbn. destruct (_ =? _); reflexivity.
  - eapply inv_frame with (s := gsync (phase (circ s)) (s <| circ := record (now s) cf f (now s - start) (circ s) |>)).
    + apply inv_gsync_trans; [exact Hp|exact Hinv|apply record_spec].
    + unfold gsync. cbn. destruct (_ =? _); reflexivity.
    + unfold gsync. cbn. destruct (_ =? _); reflexivity.
    + unfold gsync. cbn. destruct (_ =? _); reflexivity.
    + unfold gsync. cbn. destruct (_ =? _); reflexivity.
  - eapply inv_frame with (s := (ghandback tr s) <| circ := drop_trial tr (circ s) |>).
    + apply inv_handback. exact Hinv.
    + reflexivity.
    + destruct tr as [p|]; cbn; [destruct (p =? phase (circ s))|]; reflexivity.
    + destruct tr as [p|]; cbn; [destruct (p =? phase (circ s))|]; reflexivity.
    + destruct tr as [p|]; cbn; [destruct (p =? phase (circ s))|]; reflexivity.
  - eapply inv_frame; [exact Hinv|reflexivity..].
  - exact Hinv.
Qed.

Lemma poll_inv cf s i : 1 <= permitted cf -> Inv cf s -> Inv cf (fst (poll cf s i)).
Proof.
  intros Hp Hinv0. unfold poll.
  set (s1 := s <| woken := upd (woken s) i false |>).
  assert (Hinv : Inv cf s1) by (eapply inv_frame; [exact Hinv0|reflexivity..]).
  change (cs s1 i) with (cs s i). destruct (cs s i) as [|start tr| |].
  - (* Created *)
    change (now s1) with (now s). change (circ s1) with (circ s).
    pose proof (try_acquire_spec (now s) cf (circ s)) as Hacq. cbn zeta in Hacq.
    destruct (try_acquire (now s) cf (circ s)) as [c' ok] eqn:Eacq. cbn [fst snd] in Hacq.
    destruct Hacq as (Hsy & Hrej & Hfull & Hho & Hoe & Hcl).
    destruct Hinv as [Hs Ha0 Hh0 Ha Hg Hl]. cbn in Hs, Ha0, Hh0, Ha, Hg, Hl.
    destruct ok.
    + apply poll_running_inv; [exact Hp|].
      destruct (state (circ s)) eqn:Es.
      * (* Closed *) destruct (Hcl eq_refl) as [_ ->]. rewrite Es. unfold gsync. cbn. rewrite Z.eqb_refl.
        constructor; cbn; try assumption. rewrite Es. discriminate.
      * (* Open: wait elapsed *)
        destruct (Z_lt_le_dec (now s - last_change (circ s)) (wait_open cf)) as [Hlt|Hge].
        { destruct (Hrej eq_refl Hlt) as [Hf _]. discriminate. }
        destruct (Hoe eq_refl Hge) as (_ & E1 & E2 & E3 & E4). rewrite E1. unfold gsync. cbn.
        destruct (phase c' =? phase (circ s)) eqn:E; [apply Z.eqb_eq in E; lia|]. cbn.
        constructor; cbn; unfold synced in *; try lia.
        -- apply Hsy. exact Hs.
      * (* HalfOpen *)
        destruct (Z_lt_le_dec (admitted (circ s)) (permitted cf)) as [Hlt|Hge].
        2:{ destruct (Hfull eq_refl Hge) as [Hf _]. discriminate. }
        destruct (Hho eq_refl Hlt) as (_ & E1 & E2 & E3 & E4). rewrite E1. unfold gsync. cbn.
        rewrite E2, Z.eqb_refl. cbn.
        constructor; cbn; unfold synced in *; try lia.
        -- apply Hsy. exact Hs.
    + (* rejected *)
      cbn [fst].
      assert (Hc : c' = circ s).
      { destruct (state (circ s)) eqn:Es.
        - destruct (Hcl eq_refl). discriminate.
        - destruct (Z_lt_le_dec (now s - last_change (circ s)) (wait_open cf)) as [Hlt|Hge].
          + apply (Hrej eq_refl Hlt).
          + destruct (Hoe eq_refl Hge) as [Hf _]. discriminate.
        - destruct (Z_lt_le_dec (admitted (circ s)) (permitted cf)) as [Hlt|Hge].
          + destruct (Hho eq_refl Hlt) as [Hf _]. discriminate.
          + apply (Hfull eq_refl Hge). }
      subst c'. constructor; cbn; assumption.
  - apply poll_running_inv; [exact Hp|exact Hinv].
  - exact Hinv.
  - exact Hinv.
Qed.

Lemma drop_inv cf s i : Inv cf s -> Inv cf (drop s i).
Proof.
  intros Hinv0. unfold drop.
  set (s1 := s <| woken := upd (woken s) i false |>).
  assert (Hinv : Inv cf s1) by (eapply inv_frame; [exact Hinv0|reflexivity..]).
  change (cs s1 i) with (cs s i). destruct (cs s i) as [|start tr| |]; try exact Hinv.
  - eapply inv_frame; [exact Hinv|reflexivity..].
  - eapply inv_frame with (s := (ghandback tr s1) <| circ := drop_trial tr (circ s1) |>).
    + apply inv_handback. exact Hinv.
    + reflexivity.
    + destruct tr as [p|]; cbn; [destruct (p =? phase (circ s))|]; reflexivity.
    + destruct tr as [p|]; cbn; [destruct (p =? phase (circ s))|]; reflexivity.
    + destruct tr as [p|]; cbn; [destruct (p =? phase (circ s))|]; reflexivity.
Qed.

Lemma step_inv cf s e : 1 <= permitted cf -> Inv cf s -> Inv cf (step_st cf s e).
Proof.
  intros Hp Hinv. unfold step_st, step. destruct e as [i|i|d|i o| | |]; cbn [fst].
  - apply poll_inv; assumption.
  - apply drop_inv; assumption.
  - destruct Hinv as [Hs Ha0 Hh0 Ha Hg Hl]. constructor; cbn; try assumption. lia.
  - unfold complete. destruct (gate s i); [exact Hinv|]. eapply inv_frame; [exact Hinv|reflexivity..].
  - apply inv_gsync_trans; [exact Hp|exact Hinv|]. apply transition_to_spec.
  - apply inv_gsync_trans; [exact Hp|exact Hinv|]. apply transition_to_spec.
  - apply inv_gsync_trans; [exact Hp|exact Hinv|].
    eapply trans_or_same_post; [apply transition_to_spec|apply clear_window_ctl].
Qed.

Lemma reach_Inv cf evs :
  1 <= permitted cf -> Forall (Inv cf) (states (step_st cf) init evs).
Proof. intros Hp. apply reach_inv; [apply inv_init|intros s e; apply step_inv; exact Hp]. Qed.

(* ---------- C03 ---------- *)
Definition shielded (cf : cfg) (s : st) : Prop :=
  state (circ s) = Open /\ now s - last_change (circ s) < wait_open cf.

(* a new call arriving while the breaker is open and the wait has not elapsed is answered at
   once (OpenCircuit, or the fallback's response) and touches neither the inner service nor
   the circuit *)
Lemma open_rejects cf s i :
  shielded cf s -> cs s i = Created ->
  let s' := fst (poll cf s i) in let o := snd (poll cf s i) in
  r o = (if has_fallback cf then 4 else 3) /\ started o = false /\
  inflight s' = inflight s /\ circ s' = circ s /\ cs s' i = Done.
Proof.
  intros [Hop Hw] Hcr. unfold poll. cbn. rewrite Hcr.
  destruct (try_acquire_spec (now s) cf (circ s)) as (_ & Hrej & _). cbn zeta in Hrej.
  destruct (Hrej Hop Hw) as [Hok Hc].
  destruct (try_acquire (now s) cf (circ s)) as [c' ok]. cbn in Hok, Hc. subst. cbn.
  repeat split. unfold upd. rewrite Nat.eqb_refl. reflexivity.
Qed.

(* no event starts an inner call while the breaker is shielded *)
Lemma no_start_while_open cf s e :
  shielded cf s -> started (snd (step cf s e)) = false.
Proof.
  intros Hsh. destruct e as [i|i|d|i o| | |]; cbn; try reflexivity.
  unfold poll. cbn. destruct (cs s i) as [|start tr| |] eqn:Ecs.
  - destruct Hsh as [Hop Hw].
    destruct (try_acquire_spec (now s) cf (circ s)) as (_ & Hrej & _). cbn zeta in Hrej.
    destruct (Hrej Hop Hw) as [Hok Hc].
    destruct (try_acquire (now s) cf (circ s)) as [c' ok]. cbn in Hok. subst. reflexivity.
  - unfold poll_running. cbn. destruct (gate s i) as [[f|f| |]|]; reflexivity.
  - reflexivity.
  - reflexivity.
Qed.

(* calls admitted before the breaker opened still complete with the inner outcome *)
Lemma admitted_call_completes cf s i start tr :
  cs s i = Running start tr ->
  (forall f, gate s i = Some (OOk f) -> r (snd (poll cf s i)) = 1) /\
  (forall f, gate s i = Some (OErr f) -> r (snd (poll cf s i)) = 2).
Proof.
  intros Hr. unfold poll. cbn. rewrite Hr. unfold poll_running. cbn.
  split; intros f Hg; rewrite Hg; reflexivity.
Qed.

(* [last_change] is the instant the breaker entered its current state: every step either
   leaves state and last_change alone or stamps last_change with the current instant *)
Definition stamp (t : Z) (c c' : circuit) : Prop :=
  (state c' = state c /\ last_change c' = last_change c) \/ last_change c' = t.

Lemma stamp_refl t c : stamp t c c.
Proof. left. split; reflexivity. Qed.

Lemma stamp_trans t a b c : stamp t a b -> stamp t b c -> stamp t a c.
Proof.
  intros [[A1 A2]|A] [[B1 B2]|B]; unfold stamp.
  - left. split; congruence.
  - right. exact B.
  - right. congruence.
  - right. exact B.
Qed.

Lemma stamp_of_trans t c c' : trans_or_same t c c' -> stamp t c c'.
Proof.
  intros [(A1&A2&A3&A4&A5)|(H1&H2&H3&H4&H5)]; [left; split; assumption|right; exact H3].
Qed.

Lemma stamp_try_acquire t cf c : stamp t c (fst (try_acquire t cf c)).
Proof.
  unfold try_acquire. destruct (state c) eqn:Es; cbn.
  - apply stamp_refl.
  - destruct (wait_open cf <=? t - last_change c); cbn; [|apply stamp_refl].
    right. unfold transition_to. rewrite Es. reflexivity.
  - destruct (admitted c <? permitted cf); cbn; [left; split; reflexivity|apply stamp_refl].
Qed.

Lemma stamp_drop_trial t tr c : stamp t c (drop_trial tr c).
Proof.
  destruct tr as [p|]; cbn; [|apply stamp_refl].
  destruct (p =? phase c); [left; split; reflexivity|apply stamp_refl].
Qed.

Lemma circ_gsync old s : circ (gsync old s) = circ s.
Proof. unfold gsync. destruct (_ =? _); reflexivity. Qed.

Lemma now_gsync old s : now (gsync old s) = now s.
Proof. unfold gsync. destruct (_ =? _); reflexivity. Qed.

Lemma stamp_poll_running cf s i start tr b :
  stamp (now s) (circ s) (circ (fst (poll_running cf s i start tr b))).
Proof.
  unfold poll_running. destruct (gate s i) as [[f|f| |]|]; cbn [fst].
  - rewrite circ_gsync. cbn. apply stamp_of_trans. apply record_spec.
  - rewrite circ_gsync. cbn. apply stamp_of_trans. apply record_spec.
  - cbn. apply stamp_drop_trial.
  - cbn. apply stamp_refl.
  - apply stamp_refl.
Qed.

Lemma stamp_step cf s e : stamp (now s) (circ s) (circ (step_st cf s e)).
Proof.
  unfold step_st, step. destruct e as [i|i|d|i o| | |]; cbn [fst].
  - unfold poll. cbn. destruct (cs s i) as [|start tr| |].
    + pose proof (stamp_try_acquire (now s) cf (circ s)) as Ha.
      destruct (try_acquire (now s) cf (circ s)) as [c' ok]. cbn [fst] in Ha. destruct ok.
      * eapply stamp_trans; [exact Ha|].
        match goal with |- stamp _ _ (circ (fst (poll_running _ ?s2 _ ?st ?tr _))) =>
          pose proof (stamp_poll_running cf s2 i st tr true) as Hp;
          assert (Hn : now s2 = now s) by (destruct (state c'); cbn; rewrite now_gsync; reflexivity);
          assert (Hc : circ s2 = c') by (destruct (state c'); cbn; rewrite circ_gsync; reflexivity)
        end.
        rewrite Hn, Hc in Hp. exact Hp.
      * cbn. exact Ha.
    + match goal with |- stamp _ _ (circ (fst (poll_running _ ?s2 _ _ _ _))) =>
        exact (stamp_poll_running cf s2 i start tr false) end.
    + apply stamp_refl.
    + apply stamp_refl.
  - unfold drop. cbn. destruct (cs s i) as [|start tr| |]; cbn; try apply stamp_refl.
    apply stamp_drop_trial.
  - apply stamp_refl.
  - unfold complete. destruct (gate s i); apply stamp_refl.
  - rewrite circ_gsync. cbn. apply stamp_of_trans. apply transition_to_spec.
  - rewrite circ_gsync. cbn. apply stamp_of_trans. apply transition_to_spec.
  - rewrite circ_gsync. cbn. apply stamp_of_trans.
    eapply trans_or_same_post; [apply transition_to_spec|apply clear_window_ctl].
Qed.

(* whenever a step changes the state, the new state's last_change is the instant of that step:
   in particular "open since last_change" is the moment the breaker opened *)
Lemma last_change_is_transition_instant cf s e :
  state (circ (step_st cf s e)) <> state (circ s) ->
  last_change (circ (step_st cf s e)) = now s.
Proof.
  intros Hne. destruct (stamp_step cf s e) as [[H _]|H]; [contradiction|exact H].
Qed.

(* an operator's force_open on an already open breaker does not restart the wait *)
Lemma force_open_when_open cf s :
  state (circ s) = Open -> circ (step_st cf s ForceOpen) = circ s.
Proof.
  intros H. unfold step_st, step. cbn [fst]. rewrite circ_gsync. cbn.
  unfold force_open, transition_to. rewrite H. reflexivity.
Qed.

(* the three views agree in every reachable state *)
Lemma views_agree cf evs :
  1 <= permitted cf ->
  Forall (fun s => state_atomic (circ s) = state (circ s) /\
                   fst (fst (fst (fst (metrics cf (circ s))))) = state (circ s))
         (states (step_st cf) init evs).
Proof.
  intros Hp. eapply Forall_impl; [|apply reach_Inv; exact Hp]. intros s [Hs _ _ _ _ _]. split; [exact Hs|].
  unfold metrics. destruct (time_based cf); [unfold time_based_stats|]; reflexivity.
Qed.

(* ---------- C09 ---------- *)
(* while half-open, trial calls started in this phase minus those handed back by
   cancellation never exceed the permitted number *)
Lemma half_open_bound cf evs :
  1 <= permitted cf ->
  Forall (fun s => state (circ s) = HalfOpen ->
                   gstarts s - ghand s <= permitted cf /\ 0 <= ghand s /\
                   admitted (circ s) <= permitted cf)
         (states (step_st cf) init evs).
Proof.
  intros Hp. eapply Forall_impl; [|apply reach_Inv; exact Hp].
  intros s [Hs Ha0 Hh0 Ha Hg Hl] Hho. specialize (Ha Hho). repeat split; lia.
Qed.

(* callers beyond the permitted number are rejected without reaching the inner service *)
Lemma beyond_permitted_rejected cf s i :
  state (circ s) = HalfOpen -> permitted cf <= admitted (circ s) -> cs s i = Created ->
  let s' := fst (poll cf s i) in let o := snd (poll cf s i) in
  r o = (if has_fallback cf then 4 else 3) /\ started o = false /\
  inflight s' = inflight s /\ circ s' = circ s.
Proof.
  intros Hho Hfull Hcr. unfold poll. cbn. rewrite Hcr.
  destruct (try_acquire_spec (now s) cf (circ s)) as (_ & _ & Hf & _). cbn zeta in Hf.
  destruct (Hf Hho Hfull) as [Hok Hc].
  destruct (try_acquire (now s) cf (circ s)) as [c' ok]. cbn in Hok, Hc. subst. cbn.
  repeat split.
Qed.

(* every inner call started while the breaker is half-open (or by the call that makes it
   half-open) is counted as a trial of the phase *)
Lemma trial_start_counted cf s i :
  cs s i = Created -> gate s i = None ->
  (state (circ s) = HalfOpen \/ state (circ s) = Open) ->
  started (snd (poll cf s i)) = true ->
  let s' := fst (poll cf s i) in
  state (circ s') = HalfOpen /\
  gstarts s' = (if cstate_eqb (state (circ s)) HalfOpen then gstarts s + 1 else 1).
Proof.
  intros Hcr Hg Hst. unfold poll. cbn. rewrite Hcr.
  pose proof (try_acquire_spec (now s) cf (circ s)) as Hacq. cbn zeta in Hacq.
  destruct (try_acquire (now s) cf (circ s)) as [c' ok] eqn:Eacq. cbn [fst snd] in Hacq.
  destruct Hacq as (Hsy & Hrej & Hfull & Hho & Hoe & Hcl).
  destruct ok; [|cbn; discriminate].
  intros _. destruct Hst as [Hs|Hs].
  - destruct (Z_lt_le_dec (admitted (circ s)) (permitted cf)) as [Hlt|Hge].
    2:{ destruct (Hfull Hs Hge) as [Hf _]. discriminate. }
    destruct (Hho Hs Hlt) as (_ & E1 & E2 & E3 & E4). rewrite E1, Hs. cbn.
    unfold gsync. cbn. rewrite E2, Z.eqb_refl. cbn. unfold poll_running. cbn.
    unfold upd at 1. cbn. rewrite Hg. cbn. split; [exact E1|reflexivity].
  - destruct (Z_lt_le_dec (now s - last_change (circ s)) (wait_open cf)) as [Hlt|Hge].
    { destruct (Hrej Hs Hlt) as [Hf _]. discriminate. }
    destruct (Hoe Hs Hge) as (_ & E1 & E2 & E3 & E4). rewrite E1, Hs. cbn.
    unfold gsync. cbn.
    destruct (phase c' =? phase (circ s)) eqn:E; [apply Z.eqb_eq in E; lia|]. cbn.
    unfold poll_running. cbn. rewrite Hg. cbn. split; [exact E1|reflexivity].
Qed.

(* slots are handed back only by cancellation: a Drop, or a poll in which the inner call panics *)
Lemma ghand_gsync old s : 0 <= ghand s -> 0 <= ghand (gsync old s) <= ghand s.
Proof. intros H. unfold gsync. destruct (_ =? _); cbn; lia. Qed.

Lemma ghand_poll_running cf s i start tr b :
  0 <= ghand s ->
  ghand s < ghand (fst (poll_running cf s i start tr b)) ->
  r (snd (poll_running cf s i start tr b)) = 5.
Proof.
  intros H0. unfold poll_running. destruct (gate s i) as [[f|f| |]|]; cbn [fst snd].
  - match goal with |- context [gsync ?o ?x] => pose proof (ghand_gsync o x) as Hg end.
    cbn in Hg. specialize (Hg H0). lia.
  - match goal with |- context [gsync ?o ?x] => pose proof (ghand_gsync o x) as Hg end.
    cbn in Hg. specialize (Hg H0). lia.
  - reflexivity.
  - reflexivity.
  - lia.
Qed.

Lemma handback_only_on_cancel cf s e :
  0 <= ghand s ->
  ghand s < ghand (step_st cf s e) ->
  (exists i, e = Drop i) \/ (exists i, e = Poll i /\ r (snd (step cf s e)) = 5).
Proof.
  intros H0. unfold step_st, step. destruct e as [i|i|d|i o| | |]; cbn [fst snd].
  - intros H. right. exists i. split; [reflexivity|]. revert H.
    unfold poll. cbn. destruct (cs s i) as [|start tr| |].
    + destruct (try_acquire (now s) cf (circ s)) as [c' ok]. destruct ok; cbn [fst snd].
      * match goal with |- context [poll_running cf ?s2 i ?st ?tr true] =>
          pose proof (ghand_poll_running cf s2 i st tr true) as Hp;
          assert (Hle : 0 <= ghand s2 <= ghand s)
        end.
        { destruct (state c'); cbn;
            match goal with |- context [gsync ?o ?x] => pose proof (ghand_gsync o x) as Hg end;
            cbn in Hg; specialize (Hg H0); lia. }
        intros H. apply Hp; lia.
      * cbn. lia.
    + match goal with |- context [poll_running cf ?s2 i start tr false] =>
        intros H; apply (ghand_poll_running cf s2 i start tr false); assumption end.
    + cbn. lia.
    + cbn. lia.
  - intros _. left. exists i. reflexivity.
  - cbn. lia.
  - unfold complete. destruct (gate s i); cbn; lia.
  - intros H. match type of H with context [gsync ?o ?x] => pose proof (ghand_gsync o x H0) as Hg end. cbn in Hg. exfalso. lia.
  - intros H. match type of H with context [gsync ?o ?x] => pose proof (ghand_gsync o x H0) as Hg end. cbn in Hg. exfalso. lia.
  - intros H. match type of H with context [gsync ?o ?x] => pose proof (ghand_gsync o x H0) as Hg end. cbn in Hg. exfalso. lia.
Qed.

(* non-vacuity: a burst of five callers at a half-open breaker with two permitted calls *)
Example ex_burst :
  let cf := mkCfg false 2 100 2 1 2 false 50 1 2 10 2 false in
  let evs := [Poll 0%nat; Complete 0%nat (OErr true); Poll 0%nat;
              Poll 1%nat; Complete 1%nat (OErr true); Poll 1%nat;
              Advance 10; Poll 2%nat; Poll 3%nat; Poll 4%nat; Poll 5%nat; Poll 6%nat] in
  let s := fold_left (step_st cf) evs init in
  state (circ s) = HalfOpen /\ inflight s = 2 /\ gstarts s = 2 /\ admitted (circ s) = 2.
Proof. vm_compute. repeat split. Qed.

Example ex_shielded :
  let cf := mkCfg false 2 100 2 1 2 false 50 1 2 10 2 false in
  let evs := [Poll 0%nat; Complete 0%nat (OErr true); Poll 0%nat;
              Poll 1%nat; Complete 1%nat (OErr true); Poll 1%nat; Advance 9] in
  let s := fold_left (step_st cf) evs init in
  shielded cf s /\ r (snd (poll cf s 2%nat)) = 3.
Proof. vm_compute. repeat split. Qed.

(* ================= C03: the shield persists (interval form) ================= *)
Lemma transition_same now s c : state c = s -> transition_to now s c = c.
Proof.
  intros H. unfold transition_to. rewrite H.
  assert (E : cstate_eqb s s = true) by (apply cstate_eqb_eq; reflexivity). rewrite E. reflexivity.
Qed.

Lemma transition_state now s c : state (transition_to now s c) = s.
Proof. apply transition_to_spec. Qed.

Lemma record_same_ctl_pre now cf f d c :
  exists c1, same_ctl c c1 /\
    record now cf f d c =
      match state c1 with
      | HalfOpen =>
        if f then transition_to now Open c1
        else let c2 := c1 <| hos := hos c1 + 1 |> in
             if permitted cf <=? hos c2 then transition_to now Closed c2 else c2
      | _ => evaluate_window now cf c1
      end.
Proof.
  unfold record.
  set (c1 := if time_based cf then _ else _).
  exists c1. split; [|reflexivity].
  subst c1. destruct (time_based cf).
  - repeat split.
  - eapply same_ctl_trans; [|apply slide_count_window_ctl].
    destruct f, (slow_on cf && (slow_thr cf <=? d)); repeat split.
Qed.

Lemma evaluate_open now cf c : state c = Open ->
  state (evaluate_window now cf c) = Open /\ last_change (evaluate_window now cf c) = last_change c.
Proof.
  intros H. unfold evaluate_window.
  set (c1 := if time_based cf then cleanup_old_records now cf c else c).
  assert (H1 : state c1 = Open /\ last_change c1 = last_change c)
    by (subst c1; destruct (time_based cf); cbn; auto).
  destruct (if time_based cf then time_based_stats c1 else (tc c1, fc c1, sc c1, slowc c1)) as [[[a b] d] e].
  destruct (_ <? minc cf); [exact H1|].
  destruct (negb (time_based cf) && _); [exact H1|].
  destruct (_ || _); [|exact H1].
  rewrite transition_same by apply H1. exact H1.
Qed.

(* an outcome recorded while the breaker is open (a call admitted earlier completes late)
   leaves it open and does not restart the wait *)
Lemma record_open now cf f d c : state c = Open ->
  state (record now cf f d c) = Open /\ last_change (record now cf f d c) = last_change c.
Proof.
  intros H. destruct (record_same_ctl_pre now cf f d c) as (c1 & (A1&A2&A3&A4&A5) & ->).
  assert (Hs : state c1 = Open) by congruence. rewrite Hs.
  destruct (evaluate_open now cf c1 Hs) as [E1 E2]. split; congruence.
Qed.

Lemma shield_persists cf s e :
  shielded cf s -> e <> ForceClosed -> e <> Reset ->
  state (circ (step_st cf s e)) = Open /\
  last_change (circ (step_st cf s e)) = last_change (circ s) /\
  inflight (step_st cf s e) <= inflight s.
Proof.
  intros [Hop Hw] H1 H2. unfold step_st, step.
  destruct e as [i|i|d|i o| | |]; cbn [fst]; try congruence.
  - unfold poll. cbn. destruct (cs s i) as [|start tr| |] eqn:Ecs.
    + destruct (try_acquire_spec (now s) cf (circ s)) as (_ & Hrej & _). cbn zeta in Hrej.
      destruct (Hrej Hop Hw) as [Hok Hc].
      destruct (try_acquire (now s) cf (circ s)) as [c' ok]. cbn in Hok, Hc. subst. cbn.
      repeat split; auto; lia.
    + unfold poll_running. cbn. destruct (gate s i) as [[f|f| |]|]; cbn [fst].
      * rewrite circ_gsync. cbn. destruct (record_open (now s) cf f (now s - start) (circ s) Hop).
        repeat split; auto. unfold gsync. destruct (_ =? _); cbn; lia.
      * rewrite circ_gsync. cbn. destruct (record_open (now s) cf f (now s - start) (circ s) Hop).
        repeat split; auto. unfold gsync. destruct (_ =? _); cbn; lia.
      * cbn. destruct tr as [p|]; cbn; [destruct (p =? phase (circ s)) eqn:E; cbn|];
          repeat split; auto; try lia; rewrite ?E; cbn; lia.
      * cbn. repeat split; auto; lia.
      * cbn. repeat split; auto; lia.
    + cbn. repeat split; auto; lia.
    + cbn. repeat split; auto; lia.
  - unfold drop. cbn. destruct (cs s i) as [|start tr| |]; cbn; try (repeat split; auto; lia).
    destruct tr as [p|]; cbn; [destruct (p =? phase (circ s)) eqn:E; cbn|]; repeat split; auto; try lia;
      try (rewrite E; cbn; lia).
  - cbn. repeat split; auto; lia.
  - unfold complete. destruct (gate s i); cbn; repeat split; auto; lia.
  - rewrite circ_gsync. cbn. unfold force_open. rewrite transition_same by exact Hop. repeat split; auto.
    unfold gsync. destruct (_ =? _); cbn; lia.
Qed.

Lemma now_poll_running cf s i start tr b : now (fst (poll_running cf s i start tr b)) = now s.
Proof.
  unfold poll_running. destruct (gate s i) as [[f|f| |]|]; cbn [fst]; rewrite ?now_gsync; cbn; try reflexivity.
  destruct tr as [p|]; cbn; [destruct (p =? phase (circ s)); cbn|]; reflexivity.
Qed.

Lemma now_step cf s e :
  now (step_st cf s e) = match e with Advance d => now s + Z.max 0 d | _ => now s end.
Proof.
  unfold step_st, step. destruct e as [i|i|d|i o| | |]; cbn [fst]; try (rewrite now_gsync; reflexivity).
  - unfold poll. cbn. destruct (cs s i) as [|start tr| |]; try reflexivity.
    + destruct (try_acquire (now s) cf (circ s)) as [c' ok]. destruct ok; cbn [fst]; [|reflexivity].
      rewrite now_poll_running. destruct (state c'); cbn; rewrite now_gsync; reflexivity.
    + rewrite now_poll_running. reflexivity.
  - unfold drop. cbn. destruct (cs s i) as [|start tr| |]; cbn; try reflexivity.
    destruct tr as [p|]; cbn; [destruct (p =? phase (circ s)); cbn|]; reflexivity.
  - reflexivity.
  - unfold complete. destruct (gate s i); reflexivity.
Qed.

Lemma now_mono cf s e : now s <= now (step_st cf s e).
Proof. rewrite now_step. destruct e; lia. Qed.

Lemma now_mono_run cf evs : forall s, now s <= now (fold_left (step_st cf) evs s).
Proof.
  induction evs as [|e t IH]; intros s; cbn [fold_left]; [lia|].
  etransitivity; [apply (now_mono cf s e)|apply IH].
Qed.

(* the [started] flags produced along a run (what run_script prints as the second field) *)
Fixpoint starts_in (cf : cfg) (s : st) (evs : list ev) : list bool :=
  match evs with
  | [] => []
  | e :: t => started (snd (step cf s e)) :: starts_in cf (step_st cf s e) t
  end.

(* the property's own sentence: from a state in which the breaker is open (since last_change)
   until wait_duration_in_open has elapsed, unless an operator closes or resets it, no event
   starts an inner call, the breaker stays open with the same opening instant, and the number of
   inner calls in flight never grows *)
Lemma interval cf evs : forall s,
  state (circ s) = Open ->
  Forall (fun e => e <> ForceClosed /\ e <> Reset) evs ->
  now (fold_left (step_st cf) evs s) - last_change (circ s) < wait_open cf ->
  Forall (fun b => b = false) (starts_in cf s evs) /\
  Forall (fun s' => state (circ s') = Open /\ last_change (circ s') = last_change (circ s) /\
                    inflight s' <= inflight s)
         (states (step_st cf) s evs).
Proof.
  induction evs as [|e t IH]; intros s Hop Hall Hend; cbn [starts_in fold_left states].
  - split; [constructor|]. constructor; [|constructor]. repeat split; auto; lia.
  - inversion Hall as [|? ? [Hfc Hr] Ht]; subst.
    cbn [fold_left] in Hend.
    pose proof (now_mono_run cf t (step_st cf s e)) as Hm1. pose proof (now_mono cf s e) as Hm2.
    assert (Hsh : shielded cf s) by (split; [exact Hop|lia]).
    destruct (shield_persists cf s e Hsh Hfc Hr) as (P1 & P2 & P3).
    destruct (IH (step_st cf s e) P1 Ht) as [I1 I2]; [rewrite P2; exact Hend|].
    split; [constructor; [apply no_start_while_open; exact Hsh|exact I1]|].
    constructor; [repeat split; auto; lia|].
    eapply Forall_impl; [|exact I2]. cbn. intros s' (Q1 & Q2 & Q3). repeat split; auto; lia.
Qed.

(* non-vacuity of the interval form: opened by failure rate at t=0, then 9 ms of new callers,
   late completion of an earlier call, cancellations, force_open; all rejected, still open *)
Example ex_interval :
  let cf := mkCfg false 2 100 2 1 2 false 50 1 2 10 2 false in
  let evs0 := [Poll 7%nat; Poll 0%nat; Complete 0%nat (OErr true); Poll 0%nat;
               Poll 1%nat; Complete 1%nat (OErr true); Poll 1%nat] in
  let evs := [Poll 2%nat; Advance 4; Complete 7%nat (OOk false); Poll 7%nat; Poll 3%nat; Drop 4%nat;
              ForceOpen; Advance 5; Poll 5%nat] in
  let s := fold_left (step_st cf) evs0 init in
  state (circ s) = Open /\ last_change (circ s) = 0 /\ inflight s = 1 /\
  now (fold_left (step_st cf) evs s) = 9 /\
  state (circ (fold_left (step_st cf) evs s)) = Open /\
  (* one more millisecond and the next caller is admitted as a trial *)
  started (snd (step cf (fold_left (step_st cf) (evs ++ [Advance 1]) s) (Poll 6%nat))) = true.
Proof. vm_compute. repeat split. Qed.

(* the lock-free mirror equals the state in every reachable state, for every configuration
   (also permitted_calls_in_half_open = 0, which the builder accepts) *)
Lemma synced_poll_running cf s i start tr b :
  synced (circ s) -> synced (circ (fst (poll_running cf s i start tr b))).
Proof.
  intros H. unfold poll_running. destruct (gate s i) as [[f|f| |]|]; cbn [fst].
  - rewrite circ_gsync. cbn. eapply trans_or_same_synced; [exact H|apply record_spec].
  - rewrite circ_gsync. cbn. eapply trans_or_same_synced; [exact H|apply record_spec].
  - cbn. destruct tr as [p|]; cbn; [destruct (p =? phase (circ s))|]; exact H.
  - exact H.
  - exact H.
Qed.

Lemma synced_step cf s e : synced (circ s) -> synced (circ (step_st cf s e)).
Proof.
  intros H. unfold step_st, step. destruct e as [i|i|d|i o| | |]; cbn [fst].
  - unfold poll. cbn. destruct (cs s i) as [|start tr| |]; try exact H.
    + pose proof (try_acquire_spec (now s) cf (circ s)) as (Hsy & _). cbn zeta in Hsy.
      destruct (try_acquire (now s) cf (circ s)) as [c' ok]. cbn [fst] in Hsy. specialize (Hsy H).
      destruct ok; cbn [fst]; [|exact Hsy].
      apply synced_poll_running. destruct (state c'); cbn; rewrite circ_gsync; exact Hsy.
    + apply synced_poll_running. exact H.
  - unfold drop. cbn. destruct (cs s i) as [|start tr| |]; cbn; try exact H.
    destruct tr as [p|]; cbn; [destruct (p =? phase (circ s))|]; exact H.
  - exact H.
  - unfold complete. destruct (gate s i); exact H.
  - rewrite circ_gsync. cbn. eapply trans_or_same_synced; [exact H|apply transition_to_spec].
  - rewrite circ_gsync. cbn. eapply trans_or_same_synced; [exact H|apply transition_to_spec].
  - rewrite circ_gsync. cbn. eapply trans_or_same_synced; [exact H|].
    eapply trans_or_same_post; [apply transition_to_spec|apply clear_window_ctl].
Qed.

Lemma views_agree_all cf evs :
  Forall (fun s => state_atomic (circ s) = state (circ s) /\
                   fst (fst (fst (fst (metrics cf (circ s))))) = state (circ s))
         (states (step_st cf) init evs).
Proof.
  eapply Forall_impl; [|apply (reach_inv (step_st cf) (fun s => synced (circ s)) init);
                        [reflexivity|intros s e; apply synced_step]].
  intros s Hs. split; [exact Hs|].
  unfold metrics. destruct (time_based cf); [unfold time_based_stats|]; reflexivity.
Qed.

(* ================= C09: statements over observable starts ================= *)
Lemma gsync_same old s : phase (circ s) = old -> gsync old s = s.
Proof. intros H. unfold gsync. rewrite H, Z.eqb_refl. reflexivity. Qed.

Lemma gsync_diff old s :
  phase (circ s) <> old -> gsync old s = s <| gstarts := 0 |> <| ghand := 0 |>.
Proof. intros H. unfold gsync. apply Z.eqb_neq in H. rewrite H. reflexivity. Qed.

Lemma record_ho_same now cf f d c :
  state c = HalfOpen -> state (record now cf f d c) = HalfOpen -> same_ctl c (record now cf f d c).
Proof.
  intros H H'. destruct (record_spec now cf f d c) as [A|(B1&_)]; [exact A|congruence].
Qed.

Lemma evaluate_state now cf c :
  state (evaluate_window now cf c) = state c \/ state (evaluate_window now cf c) = Open.
Proof.
  unfold evaluate_window.
  set (c1 := if time_based cf then cleanup_old_records now cf c else c).
  assert (H1 : state c1 = state c) by (subst c1; destruct (time_based cf); reflexivity).
  destruct (if time_based cf then time_based_stats c1 else (tc c1, fc c1, sc c1, slowc c1)) as [[[a b] d] e].
  destruct (_ <? minc cf); [left; exact H1|].
  destruct (negb (time_based cf) && _); [left; exact H1|].
  destruct (_ || _); [|left; exact H1]. right. apply transition_state.
Qed.

(* recording an outcome never makes the breaker half-open *)
Lemma record_not_ho now cf f d c : state c <> HalfOpen -> state (record now cf f d c) <> HalfOpen.
Proof.
  intros H. destruct (record_same_ctl_pre now cf f d c) as (c1 & (A1&_) & ->).
  destruct (state c1) eqn:E; try congruence.
  - destruct (evaluate_state now cf c1) as [X|X]; rewrite X; congruence.
  - destruct (evaluate_state now cf c1) as [X|X]; rewrite X; congruence.
Qed.

Lemma poll_running_not_ho cf s i start tr b :
  state (circ s) <> HalfOpen -> state (circ (fst (poll_running cf s i start tr b))) <> HalfOpen.
Proof.
  intros H. unfold poll_running. destruct (gate s i) as [[f|f| |]|]; cbn [fst].
  - rewrite circ_gsync. cbn. apply record_not_ho. exact H.
  - rewrite circ_gsync. cbn. apply record_not_ho. exact H.
  - cbn. destruct tr as [p|]; cbn; [destruct (p =? phase (circ s)); cbn|]; exact H.
  - exact H.
  - exact H.
Qed.

Lemma gstarts_poll_running cf s i start tr b :
  state (circ s) = HalfOpen -> state (circ (fst (poll_running cf s i start tr b))) = HalfOpen ->
  gstarts (fst (poll_running cf s i start tr b)) = gstarts s /\
  started (snd (poll_running cf s i start tr b)) = b.
Proof.
  intros Hho. unfold poll_running. destruct (gate s i) as [[f|f| |]|]; cbn [fst snd started]; intros H'.
  - rewrite circ_gsync in H'. cbn in H'.
    destruct (record_ho_same _ _ _ _ _ Hho H') as (_&_&_&HP&_).
    rewrite gsync_same by (cbn; exact HP). cbn. auto.
  - rewrite circ_gsync in H'. cbn in H'.
    destruct (record_ho_same _ _ _ _ _ Hho H') as (_&_&_&HP&_).
    rewrite gsync_same by (cbn; exact HP). cbn. auto.
  - split; [|reflexivity]. destruct tr as [p|]; cbn; [destruct (p =? phase (circ s)); cbn|]; reflexivity.
  - auto.
  - auto.
Qed.

(* within a half-open phase the ghost start counter counts exactly the observable starts,
   whatever the gate of the polled caller holds *)
Lemma gstarts_step cf s e :
  state (circ s) = HalfOpen -> state (circ (step_st cf s e)) = HalfOpen ->
  gstarts (step_st cf s e) = gstarts s + b2z (started (snd (step cf s e))).
Proof.
  intros Hho. unfold step_st, step. destruct e as [i|i|d|i o| | |]; cbn [fst snd].
  - unfold poll. cbn. destruct (cs s i) as [|start tr| |] eqn:Ecs.
    + unfold try_acquire. rewrite Hho.
      destruct (admitted (circ s) <? permitted cf); cbn [fst snd].
      * cbn. rewrite Hho. cbn. rewrite !gsync_same by reflexivity. cbn.
        intros H'.
        match goal with |- context [poll_running cf ?s2 i ?st ?tr true] =>
          destruct (gstarts_poll_running cf s2 i st tr true) as [G1 G2]; [cbn; exact Hho|exact H'|] end.
        rewrite G1, G2. cbn. reflexivity.
      * cbn. intros _. lia.
    + intros H'.
      match goal with |- context [poll_running cf ?s2 i ?st ?tr false] =>
          destruct (gstarts_poll_running cf s2 i st tr false) as [G1 G2]; [cbn; exact Hho|exact H'|] end.
      rewrite G1, G2. cbn. lia.
    + cbn. lia.
    + cbn. lia.
  - unfold drop. cbn. destruct (cs s i) as [|start tr| |]; cbn; intros _; try lia.
    destruct tr as [p|]; cbn; [destruct (p =? phase (circ s)); cbn|]; lia.
  - cbn. lia.
  - unfold complete. destruct (gate s i); cbn; lia.
  - rewrite circ_gsync. cbn. unfold force_open, transition_to. rewrite Hho. cbn. discriminate.
  - rewrite circ_gsync. cbn. unfold force_closed, transition_to. rewrite Hho. cbn. discriminate.
  - rewrite circ_gsync. cbn. unfold reset, transition_to. rewrite Hho. cbn. discriminate.
Qed.

Lemma ghand_poll_running_nonneg cf s i start tr b :
  0 <= ghand s -> 0 <= ghand (fst (poll_running cf s i start tr b)).
Proof.
  intros H0. unfold poll_running. destruct (gate s i) as [[f|f| |]|]; cbn [fst].
  - match goal with |- context [gsync ?o ?x] => pose proof (ghand_gsync o x) as Hgg end. cbn in Hgg. specialize (Hgg H0). lia.
  - match goal with |- context [gsync ?o ?x] => pose proof (ghand_gsync o x) as Hgg end. cbn in Hgg. specialize (Hgg H0). lia.
  - cbn. destruct tr as [p|]; cbn; [destruct (_ =? _); cbn|]; lia.
  - cbn. lia.
  - lia.
Qed.

Lemma ghand_poll_running_le1 cf s i start tr b :
  0 <= ghand s -> ghand (fst (poll_running cf s i start tr b)) <= ghand s + 1.
Proof.
  intros H0. unfold poll_running. destruct (gate s i) as [[f|f| |]|]; cbn [fst].
  - match goal with |- context [gsync ?o ?x] => pose proof (ghand_gsync o x) as Hgg end. cbn in Hgg. specialize (Hgg H0). lia.
  - match goal with |- context [gsync ?o ?x] => pose proof (ghand_gsync o x) as Hgg end. cbn in Hgg. specialize (Hgg H0). lia.
  - cbn. destruct tr as [p|]; cbn; [destruct (_ =? _); cbn|]; lia.
  - cbn. lia.
  - lia.
Qed.

(* the breaker becomes half-open in exactly one way: a poll that starts the first trial call *)
Lemma gstarts_enter cf s e :
  state (circ s) <> HalfOpen -> state (circ (step_st cf s e)) = HalfOpen ->
  gstarts (step_st cf s e) = 1 /\ started (snd (step cf s e)) = true /\
  (exists i, e = Poll i) /\ state (circ s) = Open /\
  (r (snd (step cf s e)) <> 5 -> ghand (step_st cf s e) = 0) /\
  ghand (step_st cf s e) <= 1.
Proof.
  intros Hn. unfold step_st, step. destruct e as [i|i|d|i o| | |]; cbn [fst snd].
  - unfold poll. cbn. destruct (cs s i) as [|start tr| |] eqn:Ecs.
    + unfold try_acquire. destruct (state (circ s)) eqn:Es; [| |congruence].
      * cbn. rewrite Es. rewrite !gsync_same by reflexivity. intros H'. exfalso.
        revert H'. apply poll_running_not_ho. cbn. congruence.
      * destruct (wait_open cf <=? now s - last_change (circ s)); cbn [fst snd].
        -- unfold transition_to. rewrite Es. cbn.
           rewrite !gsync_diff by (cbn; lia). cbn.
           intros H'.
           match goal with |- context [poll_running cf ?s2 i ?st ?tr true] =>
             destruct (gstarts_poll_running cf s2 i st tr true) as [G1 G2]; [reflexivity|exact H'|];
             pose proof (ghand_poll_running cf s2 i st tr true) as G3;
             pose proof (ghand_poll_running_nonneg cf s2 i st tr true) as G4;
             pose proof (ghand_poll_running_le1 cf s2 i st tr true) as G5 end.
           cbn in G3, G4, G5. specialize (G4 ltac:(lia)). specialize (G5 ltac:(lia)).
           rewrite G1, G2. cbn. repeat split; [eexists; reflexivity| |lia]. intros Hr.
           match goal with |- ?x = 0 => destruct (Z_lt_le_dec 0 x) as [L|L]; [|lia] end.
           exfalso. apply Hr. apply G3; lia.
        -- cbn. rewrite Es. discriminate.
    + intros H'. exfalso. revert H'. apply poll_running_not_ho. exact Hn.
    + cbn. intros; congruence.
    + cbn. intros; congruence.
  - unfold drop. cbn. destruct (cs s i) as [|start tr| |]; cbn; try (intros; congruence).
    destruct tr as [p|]; cbn; [destruct (p =? phase (circ s)); cbn|]; intros; congruence.
  - cbn. intros; congruence.
  - unfold complete. destruct (gate s i); cbn; intros; congruence.
  - rewrite circ_gsync. cbn. unfold force_open. rewrite transition_state. discriminate.
  - rewrite circ_gsync. cbn. unfold force_closed. rewrite transition_state. discriminate.
  - rewrite circ_gsync. cbn. unfold reset. cbn. rewrite transition_state. discriminate.
Qed.

(* number of inner calls started along a run (sum of the trace's [started] fields) *)
Fixpoint nstarts (cf : cfg) (s : st) (evs : list ev) : Z :=
  match evs with
  | [] => 0
  | e :: t => b2z (started (snd (step cf s e))) + nstarts cf (step_st cf s e) t
  end.

(* number of events of a run that end a call without an outcome: a cancellation (Drop) or a
   poll that panics (r = 5) *)
Definition is_cancel (cf : cfg) (s : st) (e : ev) : bool :=
  match e with
  | Drop _ => true
  | Poll _ => r (snd (step cf s e)) =? 5
  | _ => false
  end.
Fixpoint ncancel (cf : cfg) (s : st) (evs : list ev) : Z :=
  match evs with
  | [] => 0
  | e :: t => b2z (is_cancel cf s e) + ncancel cf (step_st cf s e) t
  end.

(* the breaker is half-open after every step of the run *)
Fixpoint stays_ho (cf : cfg) (s : st) (evs : list ev) : Prop :=
  match evs with
  | [] => True
  | e :: t => state (circ (step_st cf s e)) = HalfOpen /\ stays_ho cf (step_st cf s e) t
  end.

Lemma ghand_step_le cf s e :
  0 <= ghand s -> ghand (step_st cf s e) <= ghand s + b2z (is_cancel cf s e).
Proof.
  intros H0. destruct (Z_lt_le_dec (ghand s) (ghand (step_st cf s e))) as [L|L].
  - assert (Hone : ghand (step_st cf s e) <= ghand s + 1).
    { clear L. unfold step_st, step. destruct e as [i|i|d|i o| | |]; cbn [fst].
      - unfold poll. cbn. destruct (cs s i) as [|start tr| |]; cbn; try lia.
        + destruct (try_acquire (now s) cf (circ s)) as [c' ok]. destruct ok; cbn [fst]; [|cbn; lia].
          match goal with |- context [poll_running cf ?s2 i ?st ?tr true] =>
            pose proof (ghand_poll_running_le1 cf s2 i st tr true) as Hp;
            assert (Hle : 0 <= ghand s2 <= ghand s)
          end.
          { destruct (state c'); cbn;
              match goal with |- context [gsync ?o ?x] => pose proof (ghand_gsync o x) as Hg end;
              cbn in Hg; specialize (Hg H0); lia. }
          specialize (Hp ltac:(lia)). lia.
        + match goal with |- context [poll_running cf ?s2 i ?st ?tr false] =>
            pose proof (ghand_poll_running_le1 cf s2 i st tr false) as Hp end.
          cbn in Hp. specialize (Hp H0). lia.
      - unfold drop. cbn. destruct (cs s i) as [|start tr| |]; cbn; try lia.
        destruct tr as [p|]; cbn; [destruct (_ =? _); cbn|]; lia.
      - cbn. lia.
      - unfold complete. destruct (gate s i); cbn; lia.
      - match goal with |- context [gsync ?o ?x] => pose proof (ghand_gsync o x H0) as Hg end. cbn in Hg. lia.
      - match goal with |- context [gsync ?o ?x] => pose proof (ghand_gsync o x H0) as Hg end. cbn in Hg. lia.
      - match goal with |- context [gsync ?o ?x] => pose proof (ghand_gsync o x H0) as Hg end. cbn in Hg. lia. }
    destruct (handback_only_on_cancel cf s e H0 L) as [[i ->]|[i [-> Hr]]]; cbn [is_cancel].
    + cbn [b2z]. lia.
    + rewrite Hr, Z.eqb_refl. cbn [b2z]. lia.
  - destruct (is_cancel cf s e); cbn [b2z]; lia.
Qed.

Lemma phase_run cf : 1 <= permitted cf -> forall evs s,
  Inv cf s -> state (circ s) = HalfOpen -> stays_ho cf s evs ->
  let s' := fold_left (step_st cf) evs s in
  gstarts s' = gstarts s + nstarts cf s evs /\ ghand s' <= ghand s + ncancel cf s evs /\
  Inv cf s' /\ state (circ s') = HalfOpen.
Proof.
  intros Hp. induction evs as [|e t IH]; intros s Hinv Hho Hrun; cbv zeta; cbn [fold_left nstarts ncancel].
  - split; [lia|split; [lia|split; assumption]].
  - destruct Hrun as (H1 & H4).
    pose proof (step_inv cf s e Hp Hinv) as Hinv'.
    destruct (IH _ Hinv' H1 H4) as (I1 & I2 & I3 & I4).
    pose proof (gstarts_step cf s e Hho H1) as G.
    pose proof (ghand_step_le cf s e (i_hand0 _ _ Hinv)) as Hh.
    split; [lia|split; [lia|split; assumption]].
Qed.

(* C09 over what the trace shows only (started flags, result codes, state after each event):
   take any reachable state in which the breaker is not half-open and any continuation after
   every event of which it is half-open (one half-open phase, from the event that enters it):
   the inner calls started exceed permitted_calls_in_half_open by at most the number of events
   that ended a call without an outcome (cancellations and panicking polls) *)
Lemma phase_trace cf evs0 evs :
  1 <= permitted cf ->
  let s := fold_left (step_st cf) evs0 init in
  state (circ s) <> HalfOpen -> stays_ho cf s evs ->
  nstarts cf s evs <= permitted cf + ncancel cf s evs.
Proof.
  intros Hp s Hn Hrun.
  assert (Hinv : Inv cf s).
  { pose proof (reach_Inv cf evs0 Hp) as HF. rewrite Forall_forall in HF. apply HF. apply states_last. }
  destruct evs as [|e t]; cbn [nstarts ncancel]; [lia|].
  destruct Hrun as (H1 & H4).
  destruct (gstarts_enter cf s e Hn H1) as (E1 & E2 & [i ->] & _ & E3 & E4).
  pose proof (step_inv cf s (Poll i) Hp Hinv) as Hinv'.
  destruct (phase_run cf Hp t _ Hinv' H1 H4) as (I1 & I2 & I3 & I4).
  destruct I3 as [_ _ Hh0 Ha Hg _]. specialize (Ha I4).
  rewrite E2. cbn [b2z is_cancel].
  destruct (r (snd (step cf s (Poll i))) =? 5) eqn:Ec; cbn [b2z].
  - lia.
  - apply Z.eqb_neq in Ec. specialize (E3 Ec). lia.
Qed.

(* under the property's own quantifier (trial calls run to an outcome: nothing is cancelled, no
   poll panics) the bound is on ALL inner calls started in the phase *)
Lemma phase_trace_no_cancel cf evs0 evs :
  1 <= permitted cf ->
  let s := fold_left (step_st cf) evs0 init in
  state (circ s) <> HalfOpen -> stays_ho cf s evs -> ncancel cf s evs = 0 ->
  nstarts cf s evs <= permitted cf.
Proof. intros Hp s Hn Hrun Hc. pose proof (phase_trace cf evs0 evs Hp Hn Hrun) as H. fold s in H. lia. Qed.

Example ex_phase :
  let cf := mkCfg false 2 100 2 1 2 false 50 1 2 10 2 false in
  let evs0 := [Poll 0%nat; Complete 0%nat (OErr true); Poll 0%nat;
              Poll 1%nat; Complete 1%nat (OErr true); Poll 1%nat; Advance 10] in
  let evs := [Poll 2%nat; Poll 3%nat; Poll 4%nat; Poll 5%nat; Poll 6%nat] in
  let s := fold_left (step_st cf) evs0 init in
  state (circ s) = Open /\ nstarts cf s evs = 2 /\ ncancel cf s evs = 0 /\
  state (circ (fold_left (step_st cf) evs s)) = HalfOpen.
Proof. vm_compute. repeat split. Qed.

(* with cancellations the excess is real: permitted = 1, three trial calls reach the inner
   service in ONE half-open phase because two of them end without an outcome (one panics, one is
   dropped) and hand their slot back *)
Example ex_phase_cancel :
  let cf := mkCfg false 2 100 2 1 2 false 50 1 2 10 1 false in
  let evs0 := [Poll 0%nat; Complete 0%nat (OErr true); Poll 0%nat;
              Poll 1%nat; Complete 1%nat (OErr true); Poll 1%nat; Advance 10] in
  let evs := [Poll 2%nat; Poll 3%nat; Complete 2%nat OPanic; Poll 2%nat; Poll 4%nat; Drop 4%nat; Poll 5%nat; Poll 6%nat] in
  let s := fold_left (step_st cf) evs0 init in
  stays_ho cf s evs /\ nstarts cf s evs = 3 /\ ncancel cf s evs = 2 /\ inflight (fold_left (step_st cf) evs s) = 1.
Proof. vm_compute. repeat split. Qed.

(* ================= C09: the trace monitor, in Gallina =================
   gen/c09.py's monitor transliterated: it reads, per event, the event itself, the result code
   and started flag of the poll, and the state observed after the event — i.e. fields of the
   trace that run_script prints — and nothing of the model's internals.
   Per half-open phase: S = trial calls started, C = trial calls that ended without an outcome
   (their caller was dropped while its trial was in flight, or its poll panicked),
   M = callers whose trial is in flight. *)
Definition mem (a : nat) (l : list nat) : bool := existsb (Nat.eqb a) l.
Definition rem (a : nat) (l : list nat) : list nat := filter (fun x => negb (Nat.eqb a x)) l.

Arguments mem : simpl never.
Arguments rem : simpl never.

Definition phase_acct := (Z * Z * list nat)%type.

Record c09m := mkM { m_prev : cstate; m_cur : option phase_acct; m_seen : list nat }.

Definition c09_init : c09m := mkM Closed None [].

(* a trial that delivered its result (r = 1, 2) or panicked (r = 5) leaves M; a panic counts in C *)
Definition acct_result (cur : option phase_acct) (a : nat) (rc : Z) : option phase_acct :=
  match cur with
  | Some (ns, nc, ms) =>
    if ((rc =? 1) || (rc =? 2) || (rc =? 5)) && mem a ms
    then Some (ns, if rc =? 5 then nc + 1 else nc, rem a ms)
    else cur
  | None => None
  end.

Definition acct_start (prev : cstate) (cur : option phase_acct) (a : nat) : option phase_acct :=
  match prev, cur with
  | HalfOpen, Some (ns, nc, ms) => Some (ns + 1, nc, a :: ms)
  | Open, _ => Some (1, 0, [a])
  | _, c => c
  end.

Definition is_full (perm : Z) (prev : cstate) (cur : option phase_acct) : bool :=
  match prev, cur with
  | HalfOpen, Some (ns, nc, _) => perm <=? ns - nc
  | _, _ => false
  end.

(* the accounting of one event; None = alarm (R) *)
Definition c09_acct (perm : Z) (m : c09m) (e : ev) (o : obs) : option (option phase_acct * list nat) :=
  match e with
  | Poll a =>
    let fresh := negb (mem a (m_seen m)) in
    (* (R) a caller beyond the permitted number is rejected at once and starts nothing *)
    if fresh && is_full perm (m_prev m) (m_cur m) &&
       (started o || negb ((r o =? 3) || (r o =? 4)))
    then None
    else
      let cur1 := if started o then acct_start (m_prev m) (m_cur m) a else m_cur m in
      Some (acct_result cur1 a (r o), a :: m_seen m)
  | Drop a =>
    (* a dropped trial leaves M and counts in C *)
    Some (acct_result (m_cur m) a 5, a :: m_seen m)
  | _ =>
    Some (if started o
          then match m_prev m, m_cur m with
               | HalfOpen, Some (ns, nc, ms) => Some (ns + 1, nc, ms)
               | _, c => c
               end
          else m_cur m, m_seen m)
  end.

(* end of the event: the phase ends when the observed state is not half-open; None = alarm (B) *)
Definition c09_end (perm : Z) (cur : option phase_acct) (seen : list nat) (st' : cstate) : option c09m :=
  match st' with
  | HalfOpen =>
    let '(ns, nc, ms) := match cur with Some c => c | None => (0, 0, []) end in
    (* (B) trial calls started minus those that ended without an outcome <= permitted *)
    if perm <? ns - nc then None else Some (mkM HalfOpen (Some (ns, nc, ms)) seen)
  | _ => Some (mkM st' None seen)
  end.

Definition c09_step (perm : Z) (m : c09m) (e : ev) (o : obs) (st' : cstate) : option c09m :=
  match c09_acct perm m e o with
  | None => None
  | Some (cur, seen) => c09_end perm cur seen st'
  end.

(* the monitor run along an execution of the model: it sees (event, output, state after) *)
Fixpoint c09_run (cf : cfg) (m : c09m) (s : st) (evs : list ev) : bool :=
  match evs with
  | [] => true
  | e :: t =>
    match c09_step (permitted cf) m e (snd (step cf s e)) (state (circ (step_st cf s e))) with
    | None => false
    | Some m' => c09_run cf m' (step_st cf s e) t
    end
  end.

(* ---------- list helpers ---------- *)
Lemma mem_cons_same a l : mem a (a :: l) = true.
Proof. unfold mem. cbn. rewrite Nat.eqb_refl. reflexivity. Qed.
Lemma mem_cons a b l : mem a l = true -> mem a (b :: l) = true.
Proof. unfold mem. cbn. intros ->. apply orb_true_r. Qed.
Lemma mem_cons_inv a b l : mem a (b :: l) = false -> a <> b /\ mem a l = false.
Proof.
  unfold mem. cbn. intros H. apply orb_false_iff in H. destruct H as [H1 H2].
  split; [apply Nat.eqb_neq; exact H1|exact H2].
Qed.
Lemma mem_rem a b l : a <> b -> mem a l = true -> mem a (rem b l) = true.
Proof.
  intros Hn. unfold mem, rem. rewrite !existsb_exists. intros [x [Hin Hx]].
  exists x. split; [|exact Hx]. apply filter_In. split; [exact Hin|].
  apply Nat.eqb_eq in Hx. subst x. apply negb_true_iff. apply Nat.eqb_neq. congruence.
Qed.

(* ---------- what a step does to the callers ---------- *)
Lemma cs_poll_running cf s i start tr b j :
  cs (fst (poll_running cf s i start tr b)) j =
    (if Nat.eqb j i then match gate s i with None => cs s i | Some _ => Done end else cs s j).
Proof.
  unfold poll_running. destruct (gate s i) as [[f|f| |]|]; cbn [fst]; unfold gsync;
    try (destruct (_ =? _)); cbn; try (destruct tr as [p|]; cbn; try destruct (_ =? _); cbn);
    unfold upd; destruct (Nat.eqb j i) eqn:E; try reflexivity;
    apply Nat.eqb_eq in E; subst; reflexivity.
Qed.

Lemma cs_step_other cf s e j :
  (forall i, e = Poll i \/ e = Drop i -> j <> i) -> cs (step_st cf s e) j = cs s j.
Proof.
  intros Hj. unfold step_st, step. destruct e as [i|i|d|i o| | |]; cbn [fst].
  - assert (Hne : Nat.eqb j i = false) by (apply Nat.eqb_neq; apply Hj; auto).
    unfold poll. cbn. destruct (cs s i) as [|start tr| |]; try reflexivity.
    + destruct (try_acquire (now s) cf (circ s)) as [c' ok]. destruct ok; cbn [fst].
      * rewrite cs_poll_running, Hne. destruct (state c'); cbn; unfold gsync;
          destruct (_ =? _); cbn; unfold upd; rewrite Hne; reflexivity.
      * cbn. unfold upd. rewrite Hne. reflexivity.
    + rewrite cs_poll_running, Hne. reflexivity.
  - assert (Hne : Nat.eqb j i = false) by (apply Nat.eqb_neq; apply Hj; auto).
    unfold drop. cbn. destruct (cs s i) as [|start tr| |]; cbn; try reflexivity.
    + unfold upd. rewrite Hne. reflexivity.
    + destruct tr as [p|]; cbn; try (destruct (p =? _); cbn); unfold upd; rewrite Hne; reflexivity.
  - reflexivity.
  - unfold complete. destruct (gate s i); reflexivity.
  - unfold gsync. destruct (_ =? _); reflexivity.
  - unfold gsync. destruct (_ =? _); reflexivity.
  - unfold gsync. destruct (_ =? _); reflexivity.
Qed.

(* a caller that has been polled or dropped is never [Created] again *)
Lemma cs_step_not_created cf s e i :
  (e = Poll i \/ e = Drop i) -> cs (step_st cf s e) i <> Created.
Proof.
  intros [->| ->]; unfold step_st, step; cbn [fst].
  - unfold poll. cbn. destruct (cs s i) as [|start tr| |] eqn:Ecs; cbn; try (rewrite Ecs; discriminate).
    + destruct (try_acquire (now s) cf (circ s)) as [c' ok]. destruct ok; cbn [fst].
      * rewrite cs_poll_running, Nat.eqb_refl.
        match goal with |- context [gate ?x i] => destruct (gate x i) end; [discriminate|].
        destruct (state c'); cbn; unfold gsync; destruct (_ =? _); cbn; unfold upd;
          rewrite Nat.eqb_refl; discriminate.
      * cbn. unfold upd. rewrite Nat.eqb_refl. discriminate.
    + rewrite cs_poll_running, Nat.eqb_refl. cbn. destruct (gate s i); [discriminate|]. rewrite Ecs. discriminate.
  - unfold drop. cbn. destruct (cs s i) as [|start tr| |] eqn:Ecs; cbn; try (rewrite Ecs; discriminate).
    + unfold upd. rewrite Nat.eqb_refl. discriminate.
    + destruct tr as [p|]; cbn; try (destruct (p =? _); cbn); unfold upd; rewrite Nat.eqb_refl; discriminate.
Qed.

(* ---------- the poll of a fresh caller, decomposed ---------- *)
Definition tr_of (c' : circuit) : option Z :=
  match state c' with HalfOpen => Some (phase c') | _ => None end.

Definition admit_state (s : st) (i : nat) (c' : circuit) : st :=
  let s1 := s <| woken := upd (woken s) i false |> in
  let sg := gsync (phase (circ s))
              (s1 <| circ := c' |> <| cs := upd (cs s1) i (Running (now s1) (tr_of c')) |>
                  <| inflight := inflight s1 + 1 |>) in
  match tr_of c' with Some _ => sg <| gstarts := gstarts sg + 1 |> | None => sg end.

Lemma poll_created cf s i :
  cs s i = Created ->
  poll cf s i =
    (if snd (try_acquire (now s) cf (circ s))
     then poll_running cf (admit_state s i (fst (try_acquire (now s) cf (circ s)))) i (now s)
            (tr_of (fst (try_acquire (now s) cf (circ s)))) true
     else ((s <| woken := upd (woken s) i false |>)
             <| circ := fst (try_acquire (now s) cf (circ s)) |> <| cs := upd (cs s) i Done |>,
           {| r := if has_fallback cf then 4 else 3; started := false |})).
Proof.
  intros Hc. unfold poll. cbn. rewrite Hc.
  destruct (try_acquire (now s) cf (circ s)) as [c' ok]. cbn [fst snd]. destruct ok; reflexivity.
Qed.

Lemma admit_state_fields s i c' :
  circ (admit_state s i c') = c' /\ now (admit_state s i c') = now s /\
  cs (admit_state s i c') = upd (cs s) i (Running (now s) (tr_of c')) /\
  gate (admit_state s i c') = gate s.
Proof.
  unfold admit_state. destruct (tr_of c'); cbn; rewrite ?circ_gsync, ?now_gsync; cbn;
    unfold gsync; destruct (_ =? _); cbn; auto.
Qed.

(* ---------- phases only grow; no caller holds a guard of a future phase ---------- *)
Definition phase_le (s : st) : Prop :=
  forall j st0 p, cs s j = Running st0 (Some p) -> p <= phase (circ s).

Lemma trans_or_same_phase now c c' : trans_or_same now c c' -> phase c <= phase c' <= phase c + 1.
Proof. intros [(_&_&_&A&_)|(_&_&_&A&_)]; lia. Qed.

Lemma try_acquire_phase now cf c :
  phase c <= phase (fst (try_acquire now cf c)) <= phase c + 1.
Proof.
  unfold try_acquire. destruct (state c) eqn:Es; cbn; try lia.
  - destruct (wait_open cf <=? now - last_change c); cbn; [|lia].
    unfold transition_to. rewrite Es. cbn. lia.
  - destruct (admitted c <? permitted cf); cbn; lia.
Qed.

Lemma drop_trial_phase tr c : phase (drop_trial tr c) = phase c.
Proof. destruct tr as [p|]; cbn; [destruct (_ =? _)|]; reflexivity. Qed.

Lemma phase_poll_running cf s i start tr b :
  phase (circ s) <= phase (circ (fst (poll_running cf s i start tr b))).
Proof.
  unfold poll_running. destruct (gate s i) as [[f|f| |]|]; cbn [fst].
  - rewrite circ_gsync. cbn. apply (trans_or_same_phase (now s)). apply record_spec.
  - rewrite circ_gsync. cbn. apply (trans_or_same_phase (now s)). apply record_spec.
  - cbn. rewrite drop_trial_phase. lia.
  - cbn. lia.
  - lia.
Qed.

Lemma phase_le_poll_running cf s i start tr b :
  phase_le s -> phase_le (fst (poll_running cf s i start tr b)).
Proof.
  intros H j st0 p. rewrite cs_poll_running.
  pose proof (phase_poll_running cf s i start tr b) as Hm.
  destruct (Nat.eqb j i) eqn:E.
  - apply Nat.eqb_eq in E. subst j. destruct (gate s i); [discriminate|].
    intros Hc. specialize (H _ _ _ Hc). lia.
  - intros Hc. specialize (H _ _ _ Hc). lia.
Qed.

Lemma phase_le_step cf s e : phase_le s -> phase_le (step_st cf s e).
Proof.
  intros H. unfold step_st, step. destruct e as [i|i|d|i o| | |]; cbn [fst].
  - destruct (cs s i) as [|start tr| |] eqn:Ecs.
    + rewrite (poll_created cf s i Ecs).
      pose proof (try_acquire_phase (now s) cf (circ s)) as Hm.
      destruct (try_acquire (now s) cf (circ s)) as [c' ok]. cbn [fst snd] in *. destruct ok; cbn [fst].
      * apply phase_le_poll_running.
        destruct (admit_state_fields s i c') as (F1 & F2 & F3 & F4).
        intros j st0 p. rewrite F1, F3. unfold upd. destruct (Nat.eqb j i).
        -- unfold tr_of. destruct (state c'); intros Hc; inversion Hc; lia.
        -- intros Hc. specialize (H _ _ _ Hc). lia.
      * intros j st0 p. cbn. unfold upd. destruct (Nat.eqb j i); [discriminate|].
        intros Hc. specialize (H _ _ _ Hc). lia.
    + unfold poll. cbn. rewrite Ecs.
      match goal with |- phase_le (fst (poll_running cf ?s1 i start tr false)) =>
        apply (phase_le_poll_running cf s1 i start tr false) end.
      exact H.
    + unfold poll. cbn. rewrite Ecs. exact H.
    + unfold poll. cbn. rewrite Ecs. exact H.
  - unfold drop. cbn. destruct (cs s i) as [|start tr| |] eqn:Ecs; try exact H.
    + intros j st0 p. cbn. unfold upd. destruct (Nat.eqb j i); [discriminate|]. apply H.
    + intros j st0 p. cbn. rewrite drop_trial_phase.
      replace (cs (ghandback tr (s <| woken := upd (woken s) i false |>))) with (cs s)
        by (destruct tr as [q|]; cbn; [destruct (_ =? _)|]; reflexivity).
      replace (circ (ghandback tr (s <| woken := upd (woken s) i false |>))) with (circ s)
        by (destruct tr as [q|]; cbn; [destruct (_ =? _)|]; reflexivity).
      unfold upd. destruct (Nat.eqb j i); [discriminate|]. apply H.
  - exact H.
  - unfold complete. destruct (gate s i); exact H.
  - intros j st0 p. rewrite circ_gsync. replace (cs (gsync _ _)) with (cs s) by (unfold gsync; destruct (_ =? _); reflexivity).
    cbn. intros Hc. specialize (H _ _ _ Hc).
    pose proof (trans_or_same_phase (now s) (circ s) (force_open (now s) (circ s)) (proj1 (transition_to_spec _ _ _))). lia.
  - intros j st0 p. rewrite circ_gsync. replace (cs (gsync _ _)) with (cs s) by (unfold gsync; destruct (_ =? _); reflexivity).
    cbn. intros Hc. specialize (H _ _ _ Hc).
    pose proof (trans_or_same_phase (now s) (circ s) (force_closed (now s) (circ s)) (proj1 (transition_to_spec _ _ _))). lia.
  - intros j st0 p. rewrite circ_gsync. replace (cs (gsync _ _)) with (cs s) by (unfold gsync; destruct (_ =? _); reflexivity).
    cbn. intros Hc. specialize (H _ _ _ Hc).
    assert (Ht : trans_or_same (now s) (circ s) (reset (now s) (circ s)))
      by (eapply trans_or_same_post; [apply transition_to_spec|apply clear_window_ctl]).
    pose proof (trans_or_same_phase _ _ _ Ht) as Hm. unfold reset in Hm. cbn in Hm. lia.
Qed.

Lemma phase_le_init : phase_le init.
Proof. intros j st0 p. cbn. discriminate. Qed.

(* ---------- the monitor's state against the model's state ---------- *)
Definition members_ok (s : st) (ms : list nat) : Prop :=
  forall j st0, cs s j = Running st0 (Some (phase (circ s))) -> mem j ms = true.

Definition cur_ok (cur : option phase_acct) (s : st) : Prop :=
  state (circ s) = HalfOpen ->
  exists ns nc ms, cur = Some (ns, nc, ms) /\ ns <= gstarts s /\ ghand s <= nc /\ members_ok s ms.

Record Rel (cf : cfg) (m : c09m) (s : st) : Prop := {
  r_prev : m_prev m = state (circ s);
  r_seen : forall i, mem i (m_seen m) = false -> cs s i = Created;
  r_cur : cur_ok (m_cur m) s;
  r_inv : Inv cf s;
  r_ple : phase_le s
}.

Lemma acct_result_other cur a rc :
  (rc =? 1) || (rc =? 2) || (rc =? 5) = false -> acct_result cur a rc = cur.
Proof. intros H. unfold acct_result. destruct cur as [[[ns nc] ms]|]; [|reflexivity]. rewrite H. reflexivity. Qed.

(* caller i's call ends (result delivered, panic, or drop): it leaves M; if its slot was handed
   back (ghand + 1) it was a trial of the current phase, hence in M, and rc = 5 counts it in C *)
Lemma cur_ok_done cur s s3 i rc :
  cur_ok cur s ->
  (state (circ s3) = HalfOpen ->
     state (circ s) = HalfOpen /\ phase (circ s3) = phase (circ s) /\ gstarts s3 = gstarts s /\
     (ghand s3 = ghand s \/
      (ghand s3 = ghand s + 1 /\ rc = 5 /\ exists st0, cs s i = Running st0 (Some (phase (circ s)))))) ->
  (forall j, j <> i -> cs s3 j = cs s j) ->
  (forall st0 p, cs s3 i <> Running st0 p) ->
  cur_ok (acct_result cur i rc) s3.
Proof.
  intros Hcur Hst Hoth Hi Hho.
  destruct (Hst Hho) as (Hs & Hph & Hgs & Hgh).
  destruct (Hcur Hs) as (ns & nc & ms & -> & H1 & H2 & H3).
  assert (Hmem : forall ms', (forall j, j <> i -> mem j ms = true -> mem j ms' = true) -> members_ok s3 ms').
  { intros ms' Hms j st0 Hj. destruct (Nat.eq_dec j i) as [->|Hne].
    - exfalso. eapply Hi. exact Hj.
    - apply Hms; [exact Hne|]. rewrite Hoth, Hph in Hj by exact Hne. eapply H3. exact Hj. }
  unfold acct_result.
  destruct (((rc =? 1) || (rc =? 2) || (rc =? 5)) && mem i ms) eqn:E.
  - apply andb_true_iff in E. destruct E as [E1 E2].
    exists ns, (if rc =? 5 then nc + 1 else nc), (rem i ms). split; [reflexivity|].
    split; [lia|]. split.
    + destruct Hgh as [Hg|(Hg & -> & _)].
      * destruct (rc =? 5); lia.
      * rewrite Z.eqb_refl. lia.
    + apply Hmem. intros j Hne Hj. apply mem_rem; assumption.
  - exists ns, nc, ms. split; [reflexivity|]. split; [lia|]. split.
    + destruct Hgh as [Hg|(Hg & -> & st0 & Hr)]; [lia|].
      exfalso. specialize (H3 _ _ Hr). rewrite H3, andb_true_r in E. discriminate.
    + apply Hmem. auto.
Qed.

Lemma started_poll_running cf s i start tr b : started (snd (poll_running cf s i start tr b)) = b.
Proof. unfold poll_running. destruct (gate s i) as [[f|f| |]|]; reflexivity. Qed.

Lemma cur_ok_poll_running cf s i start tr b cur :
  cur_ok cur s -> cs s i = Running start tr ->
  cur_ok (acct_result cur i (r (snd (poll_running cf s i start tr b))))
         (fst (poll_running cf s i start tr b)).
Proof.
  intros Hcur Hcs.
  assert (Hoth : forall j, j <> i -> cs (fst (poll_running cf s i start tr b)) j = cs s j).
  { intros j Hne. rewrite cs_poll_running. apply Nat.eqb_neq in Hne. rewrite Hne. reflexivity. }
  assert (Hi : gate s i <> None -> forall st0 p, cs (fst (poll_running cf s i start tr b)) i <> Running st0 p).
  { intros Hg st0 p. rewrite cs_poll_running, Nat.eqb_refl. destruct (gate s i); [discriminate|congruence]. }
  revert Hoth Hi. unfold poll_running. destruct (gate s i) as [[f|f| |]|]; cbn [fst snd r]; intros Hoth Hi.
  - (* result recorded *)
    eapply cur_ok_done; [exact Hcur| |exact Hoth|apply Hi; discriminate].
    rewrite circ_gsync. cbn. intros Hho.
    destruct (state (circ s)) eqn:Es;
      try (exfalso; revert Hho; apply record_not_ho; congruence).
    destruct (record_ho_same _ _ _ _ _ Es Hho) as (_&_&_&HP&_).
    rewrite gsync_same by (cbn; exact HP). cbn. auto.
  - eapply cur_ok_done; [exact Hcur| |exact Hoth|apply Hi; discriminate].
    rewrite circ_gsync. cbn. intros Hho.
    destruct (state (circ s)) eqn:Es;
      try (exfalso; revert Hho; apply record_not_ho; congruence).
    destruct (record_ho_same _ _ _ _ _ Es Hho) as (_&_&_&HP&_).
    rewrite gsync_same by (cbn; exact HP). cbn. auto.
  - (* inner panic: the guard is dropped unrecorded *)
    eapply cur_ok_done; [exact Hcur| |exact Hoth|apply Hi; discriminate].
    cbn. destruct tr as [p|]; cbn; [destruct (p =? phase (circ s)) eqn:E; cbn|]; auto.
    intros Hho. repeat split; auto. right. apply Z.eqb_eq in E. subst p. repeat split. eexists. exact Hcs.
  - (* classifier panic: no hand-back *)
    eapply cur_ok_done; [exact Hcur| |exact Hoth|apply Hi; discriminate].
    cbn. auto.
  - (* still pending *)
    rewrite acct_result_other by reflexivity. exact Hcur.
Qed.

Lemma cur_ok_frame cur s s' :
  cur_ok cur s -> circ s' = circ s -> cs s' = cs s -> gstarts s' = gstarts s -> ghand s' = ghand s ->
  cur_ok cur s'.
Proof.
  intros H Hc Hcs Hg Hh Hho. rewrite Hc in Hho. destruct (H Hho) as (ns & nc & ms & -> & H1 & H2 & H3).
  exists ns, nc, ms. rewrite Hg, Hh. repeat split; auto.
  intros j st0. rewrite Hcs, Hc. apply H3.
Qed.

Lemma cur_ok_not_ho cur s : state (circ s) <> HalfOpen -> cur_ok cur s.
Proof. intros H Hho. contradiction. Qed.

(* the end-of-event check never fires on a state satisfying the invariant *)
Lemma c09_end_ok cf cur seen s :
  cur_ok cur s -> Inv cf s ->
  exists m', c09_end (permitted cf) cur seen (state (circ s)) = Some m' /\
             m_prev m' = state (circ s) /\ m_seen m' = seen /\ cur_ok (m_cur m') s.
Proof.
  intros Hcur Hinv. unfold c09_end. destruct (state (circ s)) eqn:Es.
  - eexists. repeat split. apply cur_ok_not_ho. congruence.
  - eexists. repeat split. apply cur_ok_not_ho. congruence.
  - destruct (Hcur Es) as (ns & nc & ms & -> & H1 & H2 & H3).
    destruct Hinv as [_ _ _ Ha Hg _]. specialize (Ha Es).
    assert (E : permitted cf <? ns - nc = false) by (apply Z.ltb_ge; lia).
    rewrite E. eexists. repeat split. cbn. intros _. exists ns, nc, ms. auto.
Qed.

Lemma acct_ok cf m s e :
  1 <= permitted cf -> Rel cf m s ->
  exists cur seen,
    c09_acct (permitted cf) m e (snd (step cf s e)) = Some (cur, seen) /\
    cur_ok cur (step_st cf s e) /\
    (forall i, mem i seen = false -> cs (step_st cf s e) i = Created).
Proof.
  intros Hp [Rp Rs Rc Ri Rl].
  assert (Hseen : forall i, (e = Poll i \/ e = Drop i) ->
            forall j, mem j (i :: m_seen m) = false -> cs (step_st cf s e) j = Created).
  { intros i He j Hj. apply mem_cons_inv in Hj. destruct Hj as [Hne Hj].
    rewrite cs_step_other; [apply Rs; exact Hj|].
    intros i' [E|E]; destruct He as [He|He]; subst e; inversion E; subst; exact Hne. }
  destruct e as [i|i|d|i o| | |].
  - (* Poll *)
    unfold c09_acct.
    destruct (cs s i) as [|start tr| |] eqn:Ecs.
    + (* a fresh caller *)
      pose proof (Hseen i (or_introl eq_refl)) as Hsi.
      unfold step_st, step in Hsi |- *. rewrite (poll_created cf s i Ecs) in Hsi |- *.
      pose proof (try_acquire_spec (now s) cf (circ s)) as Hacq. cbn zeta in Hacq.
      revert Hsi Hacq.
      destruct (try_acquire (now s) cf (circ s)) as [c' ok] eqn:Eacq. cbn [fst snd].
      intros Hsi (Hsy & Hrej & Hfull & Hho & Hoe & Hcl).
      destruct ok; cbn [fst snd] in Hsi |- *.
      * (* admitted *)
        rewrite started_poll_running.
        destruct (admit_state_fields s i c') as (F1 & F2 & F3 & F4).
        assert (Hnf : is_full (permitted cf) (m_prev m) (m_cur m) = false).
        { unfold is_full. rewrite Rp. destruct (state (circ s)) eqn:Es; try reflexivity.
          destruct (Rc Es) as (ns & nc & ms & -> & H1 & H2 & H3).
          apply Z.leb_gt.
          destruct (Z_lt_le_dec (admitted (circ s)) (permitted cf)) as [Hlt|Hge].
          - destruct Ri as [_ _ _ _ Hg _]. lia.
          - destruct (Hfull eq_refl Hge) as [Hf _]. discriminate. }
        rewrite Hnf, andb_false_r. cbn [andb].
        eexists _, _. split; [reflexivity|]. split; [|exact Hsi].
        apply cur_ok_poll_running; [|rewrite F3; unfold upd; rewrite Nat.eqb_refl; reflexivity].
        (* the state right after admission *)
        intros Hho2. rewrite F1 in Hho2. unfold acct_start. rewrite Rp.
        destruct (state (circ s)) eqn:Es.
        -- destruct (Hcl eq_refl) as [_ ->]. congruence.
        -- (* Open -> HalfOpen: a new phase *)
           destruct (Z_lt_le_dec (now s - last_change (circ s)) (wait_open cf)) as [Hlt|Hge].
           { destruct (Hrej eq_refl Hlt) as [Hf _]. discriminate. }
           destruct (Hoe eq_refl Hge) as (_ & E1 & E2 & E3 & E4).
           exists 1, 0, [i]. split; [reflexivity|].
           unfold admit_state, tr_of. rewrite E1. cbn.
           rewrite !gsync_diff by (cbn; lia). cbn. repeat split; try lia.
           intros j st0. cbn. unfold upd. destruct (Nat.eqb j i) eqn:Ej.
           ++ intros _. apply Nat.eqb_eq in Ej. subst j. apply mem_cons_same.
           ++ intros Hj. specialize (Rl _ _ _ Hj). lia.
        -- (* HalfOpen: one more trial of the phase *)
           destruct (Z_lt_le_dec (admitted (circ s)) (permitted cf)) as [Hlt|Hge].
           2:{ destruct (Hfull eq_refl Hge) as [Hf _]. discriminate. }
           destruct (Hho eq_refl Hlt) as (_ & E1 & E2 & E3 & E4).
           destruct (Rc Es) as (ns & nc & ms & -> & H1 & H2 & H3).
           exists (ns + 1), nc, (i :: ms). split; [reflexivity|].
           unfold admit_state, tr_of. rewrite E1. cbn.
           rewrite !gsync_same by (cbn; lia). cbn. repeat split; try lia.
           intros j st0. cbn. unfold upd. destruct (Nat.eqb j i) eqn:Ej.
           ++ intros _. apply Nat.eqb_eq in Ej. subst j. apply mem_cons_same.
           ++ rewrite E2. intros Hj. apply mem_cons. eapply H3. exact Hj.
      * (* rejected *)
        assert (Hc : c' = circ s).
        { destruct (state (circ s)) eqn:Es.
          - destruct (Hcl eq_refl). discriminate.
          - destruct (Z_lt_le_dec (now s - last_change (circ s)) (wait_open cf)) as [Hlt|Hge].
            + apply (Hrej eq_refl Hlt).
            + destruct (Hoe eq_refl Hge) as [Hf _]. discriminate.
          - destruct (Z_lt_le_dec (admitted (circ s)) (permitted cf)) as [Hlt|Hge].
            + destruct (Hho eq_refl Hlt) as [Hf _]. discriminate.
            + apply (Hfull eq_refl Hge). }
        subst c'.
        assert (Hbad : (false || negb (((if has_fallback cf then 4 else 3) =? 3) ||
                                       ((if has_fallback cf then 4 else 3) =? 4))) = false)
          by (destruct (has_fallback cf); reflexivity).
        cbn [r started fst snd]. rewrite Hbad, andb_false_r.
        rewrite acct_result_other by (destruct (has_fallback cf); reflexivity).
        eexists _, _. split; [reflexivity|]. split; [|exact Hsi].
        intros Hho2. cbn in Hho2. destruct (Rc Hho2) as (ns & nc & ms & -> & H1 & H2 & H3).
        exists ns, nc, ms. cbn. repeat split; auto.
        intros j st0. cbn. unfold upd. destruct (Nat.eqb j i); [discriminate|]. apply H3.
    + (* a caller whose inner call is in flight *)
      assert (Hfr : mem i (m_seen m) = true).
      { destruct (mem i (m_seen m)) eqn:E; [reflexivity|]. rewrite (Rs _ E) in Ecs. discriminate. }
      rewrite Hfr. cbn [negb andb].
      pose proof (Hseen i (or_introl eq_refl)) as Hsi.
      unfold step_st, step, poll in Hsi |- *. cbn [fst snd] in Hsi |- *. cbn in Hsi |- *.
      rewrite Ecs in Hsi |- *.
      rewrite started_poll_running.
      eexists _, _. split; [reflexivity|]. split; [|exact Hsi].
      apply cur_ok_poll_running; [|exact Ecs].
      eapply cur_ok_frame; [exact Rc|reflexivity..].
    + assert (Hfr : mem i (m_seen m) = true).
      { destruct (mem i (m_seen m)) eqn:E; [reflexivity|]. rewrite (Rs _ E) in Ecs. discriminate. }
      rewrite Hfr. cbn [negb andb].
      pose proof (Hseen i (or_introl eq_refl)) as Hsi.
      unfold step_st, step, poll in Hsi |- *. cbn [fst snd] in Hsi |- *. cbn in Hsi |- *.
      rewrite Ecs in Hsi |- *. cbn in Hsi |- *.
      rewrite acct_result_other by reflexivity.
      eexists _, _. split; [reflexivity|]. split; [|exact Hsi].
      eapply cur_ok_frame; [exact Rc|reflexivity..].
    + assert (Hfr : mem i (m_seen m) = true).
      { destruct (mem i (m_seen m)) eqn:E; [reflexivity|]. rewrite (Rs _ E) in Ecs. discriminate. }
      rewrite Hfr. cbn [negb andb].
      pose proof (Hseen i (or_introl eq_refl)) as Hsi.
      unfold step_st, step, poll in Hsi |- *. cbn [fst snd] in Hsi |- *. cbn in Hsi |- *.
      rewrite Ecs in Hsi |- *. cbn in Hsi |- *.
      rewrite acct_result_other by reflexivity.
      eexists _, _. split; [reflexivity|]. split; [|exact Hsi].
      eapply cur_ok_frame; [exact Rc|reflexivity..].
  - (* Drop *)
    unfold c09_acct. eexists _, _. split; [reflexivity|]. split; [|apply (Hseen i); auto].
    unfold step_st, step. cbn [fst]. unfold drop. cbn.
    destruct (cs s i) as [|start tr| |] eqn:Ecs.
    + eapply cur_ok_done; [exact Rc| | |].
      * cbn. auto.
      * intros j Hne. cbn. unfold upd. apply Nat.eqb_neq in Hne. rewrite Hne. reflexivity.
      * intros st0 p. cbn. unfold upd. rewrite Nat.eqb_refl. discriminate.
    + eapply cur_ok_done; [exact Rc| | |].
      * cbn. destruct tr as [p|]; cbn; [destruct (p =? phase (circ s)) eqn:E; cbn|]; auto.
        intros Hho. repeat split; auto. right. apply Z.eqb_eq in E. subst p. repeat split. eexists. exact Ecs.
      * intros j Hne. cbn.
        replace (cs (ghandback tr (s <| woken := upd (woken s) i false |>))) with (cs s)
          by (destruct tr as [q|]; cbn; [destruct (_ =? _)|]; reflexivity).
        unfold upd. apply Nat.eqb_neq in Hne. rewrite Hne. reflexivity.
      * intros st0 p. cbn. unfold upd. rewrite Nat.eqb_refl. discriminate.
    + eapply cur_ok_done; [exact Rc| | |].
      * cbn. auto.
      * intros j Hne. reflexivity.
      * intros st0 p. cbn. rewrite Ecs. discriminate.
    + eapply cur_ok_done; [exact Rc| | |].
      * cbn. auto.
      * intros j Hne. reflexivity.
      * intros st0 p. cbn. rewrite Ecs. discriminate.
  - (* Advance *)
    eexists _, _. split; [reflexivity|]. cbn. split; [|exact Rs].
    eapply cur_ok_frame; [exact Rc|reflexivity..].
  - (* Complete *)
    eexists _, _. split; [reflexivity|]. unfold step_st, step, complete. cbn [fst].
    destruct (gate s i); (split; [eapply cur_ok_frame; [exact Rc|reflexivity..]|exact Rs]).
  - eexists _, _. split; [reflexivity|]. unfold step_st, step. cbn [fst]. split.
    + apply cur_ok_not_ho. rewrite circ_gsync. cbn. unfold force_open. rewrite transition_state. discriminate.
    + intros j Hj. unfold gsync. destruct (_ =? _); cbn; apply Rs; exact Hj.
  - eexists _, _. split; [reflexivity|]. unfold step_st, step. cbn [fst]. split.
    + apply cur_ok_not_ho. rewrite circ_gsync. cbn. unfold force_closed. rewrite transition_state. discriminate.
    + intros j Hj. unfold gsync. destruct (_ =? _); cbn; apply Rs; exact Hj.
  - eexists _, _. split; [reflexivity|]. unfold step_st, step. cbn [fst]. split.
    + apply cur_ok_not_ho. rewrite circ_gsync. cbn. unfold reset. cbn. rewrite transition_state. discriminate.
    + intros j Hj. unfold gsync. destruct (_ =? _); cbn; apply Rs; exact Hj.
Qed.

Lemma rel_step cf m s e :
  1 <= permitted cf -> Rel cf m s ->
  exists m', c09_step (permitted cf) m e (snd (step cf s e)) (state (circ (step_st cf s e))) = Some m' /\
             Rel cf m' (step_st cf s e).
Proof.
  intros Hp HR.
  destruct (acct_ok cf m s e Hp HR) as (cur & seen & Ha & Hc & Hs).
  pose proof (step_inv cf s e Hp (r_inv _ _ _ HR)) as Hinv'.
  destruct (c09_end_ok cf cur seen _ Hc Hinv') as (m' & He & P1 & P2 & P3).
  exists m'. unfold c09_step. rewrite Ha. split; [exact He|].
  constructor; [exact P1|rewrite P2; exact Hs|exact P3|exact Hinv'|].
  apply phase_le_step. apply (r_ple _ _ _ HR).
Qed.

Lemma rel_init cf : Rel cf c09_init init.
Proof.
  constructor; cbn.
  - reflexivity.
  - reflexivity.
  - apply cur_ok_not_ho. cbn. discriminate.
  - apply inv_init.
  - apply phase_le_init.
Qed.

Lemma c09_run_accepts cf : 1 <= permitted cf -> forall evs m s, Rel cf m s -> c09_run cf m s evs = true.
Proof.
  intros Hp. induction evs as [|e t IH]; intros m s HR; cbn [c09_run]; [reflexivity|].
  destruct (rel_step cf m s e Hp HR) as (m' & -> & HR'). apply IH. exact HR'.
Qed.

(* the monitor accepts every trace of the model *)
Lemma monitor_accepts cf evs : 1 <= permitted cf -> c09_run cf c09_init init evs = true.
Proof. intros Hp. apply c09_run_accepts; [exact Hp|apply rel_init]. Qed.

(* the monitor is not vacuous: it raises an alarm on an over-admission ... *)
Example ex_monitor_alarm_R :
  c09_step 1 (mkM HalfOpen (Some (1, 0, [2%nat])) [2%nat]) (Poll 3%nat)
           {| r := 0; started := true |} HalfOpen = None.
Proof. reflexivity. Qed.
(* ... also when the over-admitted call ends the phase in the same poll ... *)
Example ex_monitor_alarm_R' :
  c09_step 1 (mkM HalfOpen (Some (1, 0, [2%nat])) [2%nat]) (Poll 3%nat)
           {| r := 2; started := true |} Open = None.
Proof. reflexivity. Qed.
(* ... on a start that no poll of a fresh caller explains ... *)
Example ex_monitor_alarm_B :
  c09_step 1 (mkM HalfOpen (Some (1, 0, [2%nat])) [2%nat; 3%nat]) (Poll 3%nat)
           {| r := 0; started := true |} HalfOpen = None.
Proof. reflexivity. Qed.
(* ... and a slot is given back only for a trial of the CURRENT phase: caller 7 (a trial of an
   earlier phase, not in M) being dropped does not make room for caller 3 *)
Example ex_monitor_alarm_stale :
  match c09_step 1 (mkM HalfOpen (Some (1, 0, [2%nat])) [2%nat; 7%nat]) (Drop 7%nat) no_obs HalfOpen with
  | Some m' => c09_step 1 m' (Poll 3%nat) {| r := 0; started := true |} HalfOpen
  | None => None
  end = None.
Proof. reflexivity. Qed.
(* while the drop of the running trial 2 does *)
Example ex_monitor_handback :
  match c09_step 1 (mkM HalfOpen (Some (1, 0, [2%nat])) [2%nat; 7%nat]) (Drop 2%nat) no_obs HalfOpen with
  | Some m' => c09_step 1 m' (Poll 3%nat) {| r := 0; started := true |} HalfOpen
  | None => None
  end = Some (mkM HalfOpen (Some (2, 1, [3%nat])) [3%nat; 2%nat; 2%nat; 7%nat]).
Proof. reflexivity. Qed.

(* ================= C09: trial calls in the wrapped service at one instant =================
   No ghost counters: a caller "holds a trial" when its inner call is in flight under a trial
   guard of the breaker's current phase.  Any set of distinct such callers has at most
   [admitted] elements (so the guard's saturating subtraction never saturates), and [admitted]
   is at most permitted_calls_in_half_open while half-open. *)
Definition holds_trial (s : st) (j : nat) : Prop :=
  exists st0, cs s j = Running st0 (Some (phase (circ s))).

Definition live_bound (s : st) : Prop :=
  forall l, NoDup l -> (forall j, In j l -> holds_trial s j) ->
            Z.of_nat (length l) <= admitted (circ s).

Lemma lb_subset s s' :
  live_bound s -> (forall j, holds_trial s' j -> holds_trial s j) ->
  admitted (circ s) <= admitted (circ s') -> live_bound s'.
Proof.
  intros H Hsub Ha l Hnd Hl. specialize (H l Hnd). etransitivity; [apply H|exact Ha].
  intros j Hj. apply Hsub. apply Hl. exact Hj.
Qed.

Lemma lb_none s' : (forall j, ~ holds_trial s' j) -> 0 <= admitted (circ s') -> live_bound s'.
Proof.
  intros Hn Ha l _ Hl. destruct l as [|j l]; [cbn; lia|]. exfalso. apply (Hn j). apply Hl. left. reflexivity.
Qed.

Lemma lb_handback s s' i :
  live_bound s -> holds_trial s i ->
  (forall j, holds_trial s' j -> j <> i /\ holds_trial s j) ->
  admitted (circ s') = Z.max 0 (admitted (circ s) - 1) -> live_bound s'.
Proof.
  intros H Hi Hsub Ha l Hnd Hl.
  assert (Hni : ~ In i l) by (intros Hin; destruct (Hsub _ (Hl _ Hin)) as [Hne _]; congruence).
  specialize (H (i :: l)). cbn [length] in H. rewrite Nat2Z.inj_succ in H.
  assert (Z.succ (Z.of_nat (length l)) <= admitted (circ s)).
  { apply H; [constructor; assumption|]. intros j [<-|Hj]; [exact Hi|]. apply Hsub. apply Hl. exact Hj. }
  rewrite Ha. lia.
Qed.

Lemma length_rem_nodup i l : NoDup l -> (length l <= S (length (rem i l)))%nat.
Proof.
  unfold rem. induction l as [|x l IH]; intros Hnd; cbn; [lia|].
  inversion Hnd as [|? ? Hx Hnd']; subst.
  destruct (Nat.eqb i x) eqn:E; cbn.
  - apply Nat.eqb_eq in E. subst x.
    assert (Hf : filter (fun x => negb (Nat.eqb i x)) l = l).
    { clear - Hx. induction l as [|y l IH]; cbn; [reflexivity|].
      destruct (Nat.eqb i y) eqn:E; cbn.
      - apply Nat.eqb_eq in E. subst y. exfalso. apply Hx. left. reflexivity.
      - f_equal. apply IH. intros H. apply Hx. right. exact H. }
    rewrite Hf. lia.
  - specialize (IH Hnd'). lia.
Qed.

Lemma nodup_rem i l : NoDup l -> NoDup (rem i l).
Proof. intros H. unfold rem. apply NoDup_filter. exact H. Qed.

Lemma in_rem i j l : In j (rem i l) -> j <> i /\ In j l.
Proof.
  unfold rem. rewrite filter_In. intros [H1 H2]. split; [|exact H1].
  apply negb_true_iff in H2. apply Nat.eqb_neq in H2. congruence.
Qed.

Lemma lb_admit s s' i :
  live_bound s -> (forall j, holds_trial s' j -> j = i \/ holds_trial s j) ->
  admitted (circ s') = admitted (circ s) + 1 -> live_bound s'.
Proof.
  intros H Hsub Ha l Hnd Hl.
  pose proof (length_rem_nodup i l Hnd) as Hlen.
  specialize (H (rem i l) (nodup_rem i l Hnd)).
  assert (Z.of_nat (length (rem i l)) <= admitted (circ s)).
  { apply H. intros j Hj. destruct (in_rem _ _ _ Hj) as [Hne Hin].
    destruct (Hsub _ (Hl _ Hin)) as [->|Hh]; [congruence|exact Hh]. }
  rewrite Ha. lia.
Qed.

Lemma lb_first s' i : (forall j, holds_trial s' j -> j = i) -> admitted (circ s') = 1 -> live_bound s'.
Proof.
  intros Hsub Ha l Hnd Hl. rewrite Ha.
  destruct l as [|a [|b l]]; cbn; try lia. exfalso.
  assert (a = i) by (apply Hsub, Hl; left; reflexivity).
  assert (b = i) by (apply Hsub, Hl; right; left; reflexivity).
  subst. inversion Hnd as [|? ? Hx _]. apply Hx. left. reflexivity.
Qed.

(* a transition-or-same of the circuit, callers unchanged or one of them finished *)
Lemma lb_trans now0 s s' :
  live_bound s -> phase_le s -> trans_or_same now0 (circ s) (circ s') ->
  (forall j st0 p, cs s' j = Running st0 p -> cs s j = Running st0 p) -> live_bound s'.
Proof.
  intros H Hple [(A1&A2&A3&A4&A5)|(B1&B2&B3&B4&B5)] Hcs.
  - eapply lb_subset; [exact H| |lia].
    intros j [st0 Hj]. exists st0. rewrite <- A4. apply Hcs. exact Hj.
  - apply lb_none; [|lia]. intros j [st0 Hj]. apply Hcs in Hj. specialize (Hple _ _ _ Hj). lia.
Qed.

Lemma lb_poll_running cf s i start tr b :
  live_bound s -> phase_le s -> cs s i = Running start tr ->
  live_bound (fst (poll_running cf s i start tr b)).
Proof.
  intros H Hple Hcs.
  assert (Hsub : forall j st0 p, cs (fst (poll_running cf s i start tr b)) j = Running st0 p ->
                                 (j <> i \/ gate s i = None) /\ cs s j = Running st0 p).
  { intros j st0 p. rewrite cs_poll_running. destruct (Nat.eqb j i) eqn:E.
    - apply Nat.eqb_eq in E. subst j. destruct (gate s i); [discriminate|]. auto.
    - apply Nat.eqb_neq in E. auto. }
  revert Hsub. unfold poll_running. destruct (gate s i) as [[f|f| |]|] eqn:Eg; cbn [fst]; intros Hsub.
  - eapply (lb_trans (now s)); [exact H|exact Hple| |intros j st0 p Hj; apply (Hsub _ _ _ Hj)].
    rewrite circ_gsync. cbn. apply record_spec.
  - eapply (lb_trans (now s)); [exact H|exact Hple| |intros j st0 p Hj; apply (Hsub _ _ _ Hj)].
    rewrite circ_gsync. cbn. apply record_spec.
  - (* inner panic: hand-back *)
    destruct tr as [p|]; [destruct (p =? phase (circ s)) eqn:E|].
    + apply Z.eqb_eq in E. subst p.
      eapply lb_handback with (i := i); [exact H|eexists; exact Hcs| |].
      * intros j [st0 Hj]. revert Hj. cbn. rewrite Z.eqb_refl. cbn. intros Hj.
        destruct (Hsub j st0 _ Hj) as [[Hne|Hf] Hc]; [|discriminate].
        split; [exact Hne|]. eexists. exact Hc.
      * cbn. rewrite Z.eqb_refl. reflexivity.
    + eapply lb_subset; [exact H| |cbn; rewrite E; cbn; lia].
      intros j [st0 Hj]. revert Hj. cbn. rewrite E. cbn. intros Hj.
      destruct (Hsub j st0 _ Hj) as [_ Hc]. eexists. exact Hc.
    + eapply lb_subset; [exact H| |cbn; lia].
      intros j [st0 Hj]. revert Hj. cbn. intros Hj.
      destruct (Hsub j st0 _ Hj) as [_ Hc]. eexists. exact Hc.
  - (* classifier panic: the slot stays taken *)
    eapply lb_subset; [exact H| |cbn; lia].
    intros j [st0 Hj]. revert Hj. cbn. intros Hj.
    destruct (Hsub j st0 _ Hj) as [_ Hc]. eexists. exact Hc.
  - exact H.
Qed.

Lemma lb_step cf s e :
  live_bound s -> phase_le s -> live_bound (step_st cf s e).
Proof.
  intros H Hple. unfold step_st, step. destruct e as [i|i|d|i o| | |]; cbn [fst].
  - destruct (cs s i) as [|start tr| |] eqn:Ecs.
    + rewrite (poll_created cf s i Ecs).
      pose proof (try_acquire_spec (now s) cf (circ s)) as Hacq. cbn zeta in Hacq.
      pose proof (try_acquire_phase (now s) cf (circ s)) as Hph.
      destruct (try_acquire (now s) cf (circ s)) as [c' ok] eqn:Eacq. cbn [fst snd] in *.
      destruct Hacq as (Hsy & Hrej & Hfull & Hho & Hoe & Hcl).
      destruct (admit_state_fields s i c') as (F1 & F2 & F3 & F4).
      assert (H0 : 0 <= admitted (circ s)) by (apply (H [] (NoDup_nil _)); intros j []).
      destruct ok; cbn [fst].
      * apply lb_poll_running.
        -- (* the state right after admission *)
           destruct (state (circ s)) eqn:Es.
           ++ destruct (Hcl eq_refl) as [_ ->].
              eapply lb_subset; [exact H| |rewrite F1; lia].
              intros j [st0 Hj]. rewrite F1, F3 in Hj. unfold upd, tr_of in Hj. rewrite Es in Hj.
              destruct (Nat.eqb j i); [discriminate|]. eexists. exact Hj.
           ++ destruct (Z_lt_le_dec (now s - last_change (circ s)) (wait_open cf)) as [Hlt|Hge].
              { destruct (Hrej eq_refl Hlt) as [Hf _]. discriminate. }
              destruct (Hoe eq_refl Hge) as (_ & E1 & E2 & E3 & E4).
              apply lb_first with (i := i); [|rewrite F1; exact E3].
              intros j [st0 Hj]. rewrite F1, F3 in Hj. unfold upd in Hj.
              destruct (Nat.eqb j i) eqn:Ej; [apply Nat.eqb_eq in Ej; exact Ej|].
              specialize (Hple _ _ _ Hj). lia.
           ++ destruct (Z_lt_le_dec (admitted (circ s)) (permitted cf)) as [Hlt|Hge].
              2:{ destruct (Hfull eq_refl Hge) as [Hf _]. discriminate. }
              destruct (Hho eq_refl Hlt) as (_ & E1 & E2 & E3 & E4).
              apply lb_admit with (s := s) (i := i); [exact H| |rewrite F1; exact E3].
              intros j [st0 Hj]. rewrite F1, F3 in Hj. unfold upd in Hj.
              destruct (Nat.eqb j i) eqn:Ej; [left; apply Nat.eqb_eq in Ej; exact Ej|].
              right. rewrite E2 in Hj. eexists. exact Hj.
        -- intros j st0 p. rewrite F1, F3. unfold upd. destruct (Nat.eqb j i).
           ++ unfold tr_of. destruct (state c'); intros Hc; inversion Hc; lia.
           ++ intros Hc. specialize (Hple _ _ _ Hc). lia.
        -- rewrite F3. unfold upd. rewrite Nat.eqb_refl. reflexivity.
      * assert (Hc : c' = circ s).
        { destruct (state (circ s)) eqn:Es.
          - destruct (Hcl eq_refl). discriminate.
          - destruct (Z_lt_le_dec (now s - last_change (circ s)) (wait_open cf)) as [Hlt|Hge].
            + apply (Hrej eq_refl Hlt).
            + destruct (Hoe eq_refl Hge) as [Hf _]. discriminate.
          - destruct (Z_lt_le_dec (admitted (circ s)) (permitted cf)) as [Hlt|Hge].
            + destruct (Hho eq_refl Hlt) as [Hf _]. discriminate.
            + apply (Hfull eq_refl Hge). }
        subst c'. eapply lb_subset; [exact H| |cbn; lia].
        intros j [st0 Hj]. revert Hj. cbn. unfold upd. destruct (Nat.eqb j i); [discriminate|].
        intros Hj. eexists. exact Hj.
    + unfold poll. cbn. rewrite Ecs.
      match goal with |- live_bound (fst (poll_running cf ?s1 i start tr false)) =>
        apply (lb_poll_running cf s1 i start tr false) end; [exact H|exact Hple|exact Ecs].
    + unfold poll. cbn. rewrite Ecs. exact H.
    + unfold poll. cbn. rewrite Ecs. exact H.
  - unfold drop. cbn. destruct (cs s i) as [|start tr| |] eqn:Ecs; try exact H.
    + eapply lb_subset; [exact H| |cbn; lia].
      intros j [st0 Hj]. revert Hj. cbn. unfold upd. destruct (Nat.eqb j i); [discriminate|].
      intros Hj. eexists. exact Hj.
    + destruct tr as [p|]; [destruct (p =? phase (circ s)) eqn:E|].
      * apply Z.eqb_eq in E. subst p.
        eapply lb_handback with (i := i); [exact H|eexists; exact Ecs| |].
        -- intros j [st0 Hj]. revert Hj. cbn. rewrite Z.eqb_refl. cbn. unfold upd.
           destruct (Nat.eqb j i) eqn:Ej; [discriminate|]. intros Hj.
           split; [apply Nat.eqb_neq; exact Ej|]. eexists. exact Hj.
        -- cbn. rewrite Z.eqb_refl. reflexivity.
      * eapply lb_subset; [exact H| |cbn; rewrite E; cbn; lia].
        intros j [st0 Hj]. revert Hj. cbn. rewrite E. cbn. unfold upd.
        destruct (Nat.eqb j i); [discriminate|]. intros Hj. eexists. exact Hj.
      * eapply lb_subset; [exact H| |cbn; lia].
        intros j [st0 Hj]. revert Hj. cbn. unfold upd.
        destruct (Nat.eqb j i); [discriminate|]. intros Hj. eexists. exact Hj.
  - exact H.
  - unfold complete. destruct (gate s i); exact H.
  - eapply (lb_trans (now s)); [exact H|exact Hple| |].
    + rewrite circ_gsync. cbn. apply transition_to_spec.
    + intros j st0 p. unfold gsync. destruct (_ =? _); cbn; auto.
  - eapply (lb_trans (now s)); [exact H|exact Hple| |].
    + rewrite circ_gsync. cbn. apply transition_to_spec.
    + intros j st0 p. unfold gsync. destruct (_ =? _); cbn; auto.
  - eapply (lb_trans (now s)); [exact H|exact Hple| |].
    + rewrite circ_gsync. cbn.
      eapply trans_or_same_post; [apply transition_to_spec|apply clear_window_ctl].
    + intros j st0 p. unfold gsync. destruct (_ =? _); cbn; auto.
Qed.

Lemma lb_init : live_bound init.
Proof. apply lb_none; [|cbn; lia]. intros j [st0 Hj]. cbn in Hj. discriminate. Qed.

Lemma reach_live_bound cf evs :
  Forall (fun s => live_bound s /\ phase_le s) (states (step_st cf) init evs).
Proof.
  apply reach_inv; [split; [apply lb_init|apply phase_le_init]|].
  intros s e [H1 H2]. split; [apply lb_step; assumption|apply phase_le_step; assumption].
Qed.

(* at every instant of a half-open phase at most permitted_calls_in_half_open trial calls of the
   phase are in the wrapped service: any set of distinct callers whose inner call is in flight
   under a trial guard of the current phase has at most [admitted] <= permitted elements *)
Lemma trials_in_flight cf evs :
  1 <= permitted cf ->
  Forall (fun s => forall l, NoDup l -> (forall j, In j l -> holds_trial s j) ->
                     Z.of_nat (length l) <= admitted (circ s) /\
                     (state (circ s) = HalfOpen -> Z.of_nat (length l) <= permitted cf))
         (states (step_st cf) init evs).
Proof.
  intros Hp. pose proof (reach_live_bound cf evs) as H1. pose proof (reach_Inv cf evs Hp) as H2.
  rewrite Forall_forall in *. intros s Hs l Hnd Hl.
  destruct (H1 s Hs) as [Hlb _]. specialize (Hlb l Hnd Hl).
  split; [exact Hlb|]. intros Hho. pose proof (i_adm _ _ (H2 s Hs) Hho). lia.
Qed.

(* hence the hand-back's saturating subtraction never saturates: a live trial guard of the
   current phase implies admitted >= 1 *)
Lemma handback_exact cf evs :
  Forall (fun s => forall j, holds_trial s j -> 1 <= admitted (circ s))
         (states (step_st cf) init evs).
Proof.
  eapply Forall_impl; [|apply (reach_live_bound cf evs)]. intros s [Hlb _] j Hj.
  apply (Hlb [j]); [constructor; [intros []|constructor]|]. intros k [<-|[]]. exact Hj.
Qed.

Example ex_trials_in_flight :
  let cf := mkCfg false 2 100 2 1 2 false 50 1 2 10 2 false in
  let evs := [Poll 0%nat; Complete 0%nat (OErr true); Poll 0%nat;
              Poll 1%nat; Complete 1%nat (OErr true); Poll 1%nat;
              Advance 10; Poll 2%nat; Poll 3%nat; Poll 4%nat] in
  let s := fold_left (step_st cf) evs init in
  state (circ s) = HalfOpen /\ holds_trial s 2%nat /\ holds_trial s 3%nat /\ cs s 4%nat = Done.
Proof. vm_compute. repeat split; eexists; reflexivity. Qed.

(* The LITERAL reading "at most permitted trial calls reach the wrapped service in one half-open
   phase" is false once trial calls may end without an outcome, even with no cancellation by the
   caller at all: each panicking trial hands its slot back (inner panics are among "all outcomes
   of the trial calls").  permitted = 1, three trial calls started in one phase, no Drop. *)
Lemma literal_bound_refuted :
  exists (cf : cfg) (evs0 evs : list ev),
    1 <= permitted cf /\
    let s := fold_left (step_st cf) evs0 init in
    state (circ s) <> HalfOpen /\ stays_ho cf s evs /\ (forall i, ~ In (Drop i) evs) /\
    permitted cf < nstarts cf s evs.
Proof.
  exists (mkCfg false 2 100 2 1 2 false 50 1 2 10 1 false).
  exists [Poll 0%nat; Complete 0%nat (OErr true); Poll 0%nat;
          Poll 1%nat; Complete 1%nat (OErr true); Poll 1%nat; Advance 10].
  exists [Poll 2%nat; Complete 2%nat OPanic; Poll 2%nat; Poll 3%nat; Complete 3%nat OPanic; Poll 3%nat;
          Poll 4%nat].
  split; [cbn; lia|]. cbv zeta. split; [vm_compute; discriminate|].
  split; [vm_compute; repeat split|]. split.
  - intros i H. cbn in H. repeat (destruct H as [H|H]; [discriminate|]). exact H.
  - vm_compute. reflexivity.
Qed.
