(* Service-level invariants of the circuit-breaker model: lemmas for Props/C03.v and Props/C09.v *)
From TR Require Import Lib.Base Model.Circuit.
From RecordUpdate Require Import RecordUpdate.

Arguments Z.add : simpl never.
Arguments Z.sub : simpl never.
Arguments Z.max : simpl never.
Arguments Z.leb : simpl never.
Arguments Z.ltb : simpl never.
Arguments Z.eqb : simpl never.
Arguments Z.mul : simpl never.
Arguments upd : simpl never.

Lemma cstate_eqb_eq a b : cstate_eqb a b = true <-> a = b.
Proof. destruct a, b; cbn; split; intros H; congruence. Qed.

(* ---------- what circuit operations do to the control fields ---------- *)
(* "bookkeeping": only counters / windows change *)
Definition same_ctl (c c' : circuit) : Prop :=
  state c' = state c /\ state_atomic c' = state_atomic c /\ last_change c' = last_change c /\
  phase c' = phase c /\ admitted c' = admitted c.

Lemma same_ctl_refl c : same_ctl c c.
Proof. repeat split. Qed.

Lemma same_ctl_trans a b c : same_ctl a b -> same_ctl b c -> same_ctl a c.
Proof. unfold same_ctl. intros (A1&A2&A3&A4&A5) (B1&B2&B3&B4&B5). repeat split; congruence. Qed.

Lemma slide_loop_ctl fuel n c : same_ctl c (slide_loop fuel n c).
Proof.
  revert c. induction fuel as [|k IH]; intros c; cbn [slide_loop]; [apply same_ctl_refl|].
  destruct (n <? Z.of_nat (length (cwin c))); [|apply same_ctl_refl].
  destruct (cwin c) as [|[oldf olds] rest]; [apply same_ctl_refl|].
  eapply same_ctl_trans; [|apply IH].
  destruct oldf, olds; repeat split.
Qed.

Lemma slide_count_window_ctl cf f sl c : same_ctl c (slide_count_window cf f sl c).
Proof.
  unfold slide_count_window. cbn.
  destruct (state c); try (eapply same_ctl_trans; [|apply slide_loop_ctl]); repeat split.
Qed.

Lemma cleanup_ctl now cf c : same_ctl c (cleanup_old_records now cf c).
Proof. repeat split. Qed.

(* a (possible) transition performed at instant [now] *)
Definition trans_or_same (now : Z) (c c' : circuit) : Prop :=
  same_ctl c c' \/
  (state c' <> state c /\ state_atomic c' = state c' /\ last_change c' = now /\
   phase c' = phase c + 1 /\ admitted c' = 0).

Lemma transition_to_spec now s c :
  trans_or_same now c (transition_to now s c) /\
  (state (transition_to now s c) = s) /\
  (state_atomic c = state c -> state_atomic (transition_to now s c) = s).
Proof.
  unfold transition_to. destruct (cstate_eqb (state c) s) eqn:E.
  - apply cstate_eqb_eq in E. split; [left; apply same_ctl_refl|]. split; [exact E|congruence].
  - split; [|split; [reflexivity|intros _; reflexivity]].
    right. cbn. repeat split. intros H. rewrite H in E.
    assert (cstate_eqb (state c) (state c) = true) by (apply cstate_eqb_eq; reflexivity). congruence.
Qed.

Lemma trans_or_same_pre now a b c : same_ctl a b -> trans_or_same now b c -> trans_or_same now a c.
Proof.
  intros Hab [Hbc|(H1&H2&H3&H4&H5)].
  - left. eapply same_ctl_trans; eassumption.
  - destruct Hab as (A1&A2&A3&A4&A5). right. repeat split; congruence.
Qed.

Lemma trans_or_same_post now a b c : trans_or_same now a b -> same_ctl b c -> trans_or_same now a c.
Proof.
  intros [Hab|(H1&H2&H3&H4&H5)] Hbc.
  - left. eapply same_ctl_trans; eassumption.
  - destruct Hbc as (A1&A2&A3&A4&A5). right. repeat split; congruence.
Qed.

Lemma evaluate_window_spec now cf c : trans_or_same now c (evaluate_window now cf c).
Proof.
  unfold evaluate_window.
  set (c1 := if time_based cf then cleanup_old_records now cf c else c).
  assert (H1 : same_ctl c c1) by (subst c1; destruct (time_based cf); [apply cleanup_ctl|apply same_ctl_refl]).
  destruct (if time_based cf then time_based_stats c1 else (tc c1, fc c1, sc c1, slowc c1))
    as [[[total failures] succ] slow].
  destruct (_ <? minc cf); [left; exact H1|].
  destruct (negb (time_based cf) && _); [left; exact H1|].
  destruct (_ || _); [|left; exact H1].
  eapply trans_or_same_pre; [exact H1|]. apply transition_to_spec.
Qed.

Lemma record_spec now cf f d c : trans_or_same now c (record now cf f d c).
Proof.
  unfold record.
  set (c1 := if time_based cf then _ else _).
  assert (H1 : same_ctl c c1).
  { subst c1. destruct (time_based cf).
    - repeat split.
    - eapply same_ctl_trans; [|apply slide_count_window_ctl].
      destruct f, (slow_on cf && (slow_thr cf <=? d)); repeat split. }
  destruct (state c1).
  - eapply trans_or_same_pre; [exact H1|]. apply evaluate_window_spec.
  - eapply trans_or_same_pre; [exact H1|]. apply evaluate_window_spec.
  - destruct f.
    + eapply trans_or_same_pre; [exact H1|]. apply transition_to_spec.
    + cbn. destruct (permitted cf <=? hos c1 + 1).
      * eapply trans_or_same_pre; [|apply transition_to_spec].
        eapply same_ctl_trans; [exact H1|]. repeat split.
      * left. eapply same_ctl_trans; [exact H1|]. repeat split.
Qed.

Lemma clear_window_ctl c : same_ctl c (clear_window c).
Proof. repeat split. Qed.

(* the lock-free mirror always equals the state *)
Definition synced (c : circuit) : Prop := state_atomic c = state c.

Lemma trans_or_same_synced now c c' : synced c -> trans_or_same now c c' -> synced c'.
Proof.
  unfold synced. intros H [(A1&A2&A3&A4&A5)|(H1&H2&H3&H4&H5)]; congruence.
Qed.

Lemma try_acquire_spec now cf c :
  let c' := fst (try_acquire now cf c) in
  let ok := snd (try_acquire now cf c) in
  (synced c -> synced c') /\
  (* Open and wait not elapsed: rejected, nothing changes *)
  (state c = Open -> now - last_change c < wait_open cf -> ok = false /\ c' = c) /\
  (* half-open and all slots taken: rejected, nothing changes *)
  (state c = HalfOpen -> permitted cf <= admitted c -> ok = false /\ c' = c) /\
  (* admission while half-open takes a slot of the same phase *)
  (state c = HalfOpen -> admitted c < permitted cf ->
     ok = true /\ state c' = HalfOpen /\ phase c' = phase c /\ admitted c' = admitted c + 1
     /\ last_change c' = last_change c) /\
  (* open and wait elapsed: first trial of a new phase *)
  (state c = Open -> wait_open cf <= now - last_change c ->
     ok = true /\ state c' = HalfOpen /\ phase c' = phase c + 1 /\ admitted c' = 1 /\
     last_change c' = now) /\
  (state c = Closed -> ok = true /\ c' = c).
Proof.
  unfold try_acquire. cbn zeta. destruct (state c) eqn:Es.
  - cbn. repeat split; try discriminate; try (intros; assumption).
  - destruct (wait_open cf <=? now - last_change c) eqn:Ew; cbn.
    + apply Z.leb_le in Ew. repeat split; try discriminate; try lia.
      * intros Hs. unfold synced. cbn. unfold transition_to. rewrite Es. cbn. reflexivity.
      * unfold transition_to. rewrite Es. reflexivity.
      * unfold transition_to. rewrite Es. reflexivity.
      * unfold transition_to. rewrite Es. reflexivity.
    + apply Z.leb_gt in Ew. repeat split; try discriminate; try lia; try (intros; assumption).
  - destruct (admitted c <? permitted cf) eqn:Ea; cbn.
    + apply Z.ltb_lt in Ea. repeat split; try discriminate; try lia; try (intros; assumption).
    + apply Z.ltb_ge in Ea. repeat split; try discriminate; try lia; try (intros; assumption).
Qed.

(* ---------- reachable-state invariant of the service model ---------- *)
Record Inv (cf : cfg) (s : st) : Prop := {
  i_sync : synced (circ s);
  i_adm0 : 0 <= admitted (circ s);
  i_hand0 : 0 <= ghand s;
  i_adm : state (circ s) = HalfOpen -> admitted (circ s) <= permitted cf;
  i_ghost : gstarts s <= admitted (circ s) + ghand s;
  i_lc : last_change (circ s) <= now s
}.

Lemma inv_init cf : Inv cf init.
Proof. constructor; cbn; try reflexivity; try lia. discriminate. Qed.

(* an operation of the circuit that is a transition-or-same, followed by gsync *)
Lemma inv_gsync_trans cf s c' :
  1 <= permitted cf -> Inv cf s -> trans_or_same (now s) (circ s) c' ->
  Inv cf (gsync (phase (circ s)) (s <| circ := c' |>)).
Proof.
  intros Hp [Hs Ha0 Hh0 Ha Hg Hl] Ht. unfold gsync. cbn.
  destruct Ht as [(A1&A2&A3&A4&A5)|(H1&H2&H3&H4&H5)].
  - rewrite A4, Z.eqb_refl. constructor; cbn; unfold synced in *; try congruence; try lia.
    rewrite A1. rewrite A5. exact Ha.
  - destruct (phase c' =? phase (circ s)) eqn:E; [apply Z.eqb_eq in E; lia|].
    constructor; cbn; unfold synced in *; try congruence; try lia.
Qed.

Lemma drop_trial_spec tr c :
  same_ctl c (drop_trial tr c) \/
  (exists p, tr = Some p /\ p = phase c /\
     state (drop_trial tr c) = state c /\ state_atomic (drop_trial tr c) = state_atomic c /\
     last_change (drop_trial tr c) = last_change c /\ phase (drop_trial tr c) = phase c /\
     admitted (drop_trial tr c) = Z.max 0 (admitted c - 1)).
Proof.
  destruct tr as [p|]; cbn; [|left; apply same_ctl_refl].
  destruct (p =? phase c) eqn:E; [|left; apply same_ctl_refl].
  apply Z.eqb_eq in E. right. exists p. repeat split; assumption.
Qed.

Lemma inv_handback cf s tr :
  Inv cf s -> Inv cf ((ghandback tr s) <| circ := drop_trial tr (circ s) |>).
Proof.
  intros [Hs Ha0 Hh0 Ha Hg Hl]. destruct tr as [p|]; cbn; [|constructor; assumption].
  destruct (p =? phase (circ s)) eqn:E; cbn; [|constructor; assumption].
  constructor; cbn; unfold synced in *; try assumption; try lia.
  intros H. specialize (Ha H). lia.
Qed.

(* setters that do not touch circ / ghosts / now preserve Inv *)
Lemma inv_frame cf s s' :
  Inv cf s -> circ s' = circ s -> gstarts s' = gstarts s -> ghand s' = ghand s -> now s' = now s ->
  Inv cf s'.
Proof.
  intros [Hs Ha0 Hh0 Ha Hg Hl] Hc Hgs Hgh Hn. constructor; rewrite ?Hc, ?Hgs, ?Hgh, ?Hn; assumption.
Qed.

Lemma poll_running_inv cf s i start tr b :
  1 <= permitted cf -> Inv cf s -> Inv cf (fst (poll_running cf s i start tr b)).
Proof.
  intros Hp Hinv. unfold poll_running. destruct (gate s i) as [[f|f|]|]; cbn [fst].
  - eapply inv_frame with (s := gsync (phase (circ s)) (s <| circ := record (now s) cf f (now s - start) (circ s) |>)).
    + apply inv_gsync_trans; [exact Hp|exact Hinv|apply record_spec].
    + unfold gsync. cbn. destruct (_ =? _); reflexivity.
    + unfold gsync. cbn. destruct (_ =? _); reflexivity.
    + unfold gsync. cbn. destruct (_ =? _); reflexivity.
    + unfold gsync. cbn. destruct (_ =? _); reflexivity.
  - eapply inv_frame with (s := gsync (phase (circ s)) (s <| circ := record (now s) cf f (now s - start) (circ s) |>)).
    + apply inv_gsync_trans; [exact Hp|exact Hinv|apply record_spec].
    + unfold gsync. cbn. destruct (_ =? _); reflexivity.
    + unfold gsync. cbn. destruct (_ =? _); reflexivity.
    + unfold gsync. cbn. destruct (_ =? _); reflexivity.
    + unfold gsync. cbn. destruct (_ =? _); reflexivity.
  - eapply inv_frame with (s := (ghandback tr s) <| circ := drop_trial tr (circ s) |>).
    + apply inv_handback. exact Hinv.
    + reflexivity.
    + destruct tr as [p|]; cbn; [destruct (p =? phase (circ s))|]; reflexivity.
    + destruct tr as [p|]; cbn; [destruct (p =? phase (circ s))|]; reflexivity.
    + destruct tr as [p|]; cbn; [destruct (p =? phase (circ s))|]; reflexivity.
  - exact Hinv.
Qed.

Lemma poll_inv cf s i : 1 <= permitted cf -> Inv cf s -> Inv cf (fst (poll cf s i)).
Proof.
  intros Hp Hinv0. unfold poll.
  set (s1 := s <| woken := upd (woken s) i false |>).
  assert (Hinv : Inv cf s1) by (eapply inv_frame; [exact Hinv0|reflexivity..]).
  change (cs s1 i) with (cs s i). destruct (cs s i) as [|start tr| |].
  - (* Created *)
    change (now s1) with (now s). change (circ s1) with (circ s).
    pose proof (try_acquire_spec (now s) cf (circ s)) as Hacq. cbn zeta in Hacq.
    destruct (try_acquire (now s) cf (circ s)) as [c' ok] eqn:Eacq. cbn [fst snd] in Hacq.
    destruct Hacq as (Hsy & Hrej & Hfull & Hho & Hoe & Hcl).
    destruct Hinv as [Hs Ha0 Hh0 Ha Hg Hl]. cbn in Hs, Ha0, Hh0, Ha, Hg, Hl.
    destruct ok.
    + apply poll_running_inv; [exact Hp|].
      destruct (state (circ s)) eqn:Es.
      * (* Closed *) destruct (Hcl eq_refl) as [_ ->]. rewrite Es. unfold gsync. cbn. rewrite Z.eqb_refl.
        constructor; cbn; try assumption. rewrite Es. discriminate.
      * (* Open: wait elapsed *)
        destruct (Z_lt_le_dec (now s - last_change (circ s)) (wait_open cf)) as [Hlt|Hge].
        { destruct (Hrej eq_refl Hlt) as [Hf _]. discriminate. }
        destruct (Hoe eq_refl Hge) as (_ & E1 & E2 & E3 & E4). rewrite E1. unfold gsync. cbn.
        destruct (phase c' =? phase (circ s)) eqn:E; [apply Z.eqb_eq in E; lia|]. cbn.
        constructor; cbn; unfold synced in *; try lia.
        -- apply Hsy. exact Hs.
      * (* HalfOpen *)
        destruct (Z_lt_le_dec (admitted (circ s)) (permitted cf)) as [Hlt|Hge].
        2:{ destruct (Hfull eq_refl Hge) as [Hf _]. discriminate. }
        destruct (Hho eq_refl Hlt) as (_ & E1 & E2 & E3 & E4). rewrite E1. unfold gsync. cbn.
        rewrite E2, Z.eqb_refl. cbn.
        constructor; cbn; unfold synced in *; try lia.
        -- apply Hsy. exact Hs.
    + (* rejected *)
      cbn [fst].
      assert (Hc : c' = circ s).
      { destruct (state (circ s)) eqn:Es.
        - destruct (Hcl eq_refl). discriminate.
        - destruct (Z_lt_le_dec (now s - last_change (circ s)) (wait_open cf)) as [Hlt|Hge].
          + apply (Hrej eq_refl Hlt).
          + destruct (Hoe eq_refl Hge) as [Hf _]. discriminate.
        - destruct (Z_lt_le_dec (admitted (circ s)) (permitted cf)) as [Hlt|Hge].
          + destruct (Hho eq_refl Hlt) as [Hf _]. discriminate.
          + apply (Hfull eq_refl Hge). }
      subst c'. constructor; cbn; assumption.
  - apply poll_running_inv; [exact Hp|exact Hinv].
  - exact Hinv.
  - exact Hinv.
Qed.

Lemma drop_inv cf s i : Inv cf s -> Inv cf (drop s i).
Proof.
  intros Hinv0. unfold drop.
  set (s1 := s <| woken := upd (woken s) i false |>).
  assert (Hinv : Inv cf s1) by (eapply inv_frame; [exact Hinv0|reflexivity..]).
  change (cs s1 i) with (cs s i). destruct (cs s i) as [|start tr| |]; try exact Hinv.
  - eapply inv_frame; [exact Hinv|reflexivity..].
  - eapply inv_frame with (s := (ghandback tr s1) <| circ := drop_trial tr (circ s1) |>).
    + apply inv_handback. exact Hinv.
    + reflexivity.
    + destruct tr as [p|]; cbn; [destruct (p =? phase (circ s))|]; reflexivity.
    + destruct tr as [p|]; cbn; [destruct (p =? phase (circ s))|]; reflexivity.
    + destruct tr as [p|]; cbn; [destruct (p =? phase (circ s))|]; reflexivity.
Qed.

Lemma step_inv cf s e : 1 <= permitted cf -> Inv cf s -> Inv cf (step_st cf s e).
Proof.
  intros Hp Hinv. unfold step_st, step. destruct e as [i|i|d|i o| | |]; cbn [fst].
  - apply poll_inv; assumption.
  - apply drop_inv; assumption.
  - destruct Hinv as [Hs Ha0 Hh0 Ha Hg Hl]. constructor; cbn; try assumption. lia.
  - unfold complete. destruct (gate s i); [exact Hinv|]. eapply inv_frame; [exact Hinv|reflexivity..].
  - apply inv_gsync_trans; [exact Hp|exact Hinv|]. apply transition_to_spec.
  - apply inv_gsync_trans; [exact Hp|exact Hinv|]. apply transition_to_spec.
  - apply inv_gsync_trans; [exact Hp|exact Hinv|].
    eapply trans_or_same_post; [apply transition_to_spec|apply clear_window_ctl].
Qed.

Lemma reach_Inv cf evs :
  1 <= permitted cf -> Forall (Inv cf) (states (step_st cf) init evs).
Proof. intros Hp. apply reach_inv; [apply inv_init|intros s e; apply step_inv; exact Hp]. Qed.

(* ---------- C03 ---------- *)
Definition shielded (cf : cfg) (s : st) : Prop :=
  state (circ s) = Open /\ now s - last_change (circ s) < wait_open cf.

(* a new call arriving while the breaker is open and the wait has not elapsed is answered at
   once (OpenCircuit, or the fallback's response) and touches neither the inner service nor
   the circuit *)
Lemma open_rejects cf s i :
  shielded cf s -> cs s i = Created ->
  let s' := fst (poll cf s i) in let o := snd (poll cf s i) in
  r o = (if has_fallback cf then 4 else 3) /\ started o = false /\
  inflight s' = inflight s /\ circ s' = circ s /\ cs s' i = Done.
Proof.
  intros [Hop Hw] Hcr. unfold poll. cbn. rewrite Hcr.
  destruct (try_acquire_spec (now s) cf (circ s)) as (_ & Hrej & _). cbn zeta in Hrej.
  destruct (Hrej Hop Hw) as [Hok Hc].
  destruct (try_acquire (now s) cf (circ s)) as [c' ok]. cbn in Hok, Hc. subst. cbn.
  repeat split. unfold upd. rewrite Nat.eqb_refl. reflexivity.
Qed.

(* no event starts an inner call while the breaker is shielded *)
Lemma no_start_while_open cf s e :
  shielded cf s -> started (snd (step cf s e)) = false.
Proof.
  intros Hsh. destruct e as [i|i|d|i o| | |]; cbn; try reflexivity.
  unfold poll. cbn. destruct (cs s i) as [|start tr| |] eqn:Ecs.
  - destruct Hsh as [Hop Hw].
    destruct (try_acquire_spec (now s) cf (circ s)) as (_ & Hrej & _). cbn zeta in Hrej.
    destruct (Hrej Hop Hw) as [Hok Hc].
    destruct (try_acquire (now s) cf (circ s)) as [c' ok]. cbn in Hok. subst. reflexivity.
  - unfold poll_running. cbn. destruct (gate s i) as [[f|f|]|]; reflexivity.
  - reflexivity.
  - reflexivity.
Qed.

(* calls admitted before the breaker opened still complete with the inner outcome *)
Lemma admitted_call_completes cf s i start tr :
  cs s i = Running start tr ->
  (forall f, gate s i = Some (OOk f) -> r (snd (poll cf s i)) = 1) /\
  (forall f, gate s i = Some (OErr f) -> r (snd (poll cf s i)) = 2).
Proof.
  intros Hr. unfold poll. cbn. rewrite Hr. unfold poll_running. cbn.
  split; intros f Hg; rewrite Hg; reflexivity.
Qed.

(* [last_change] is the instant the breaker entered its current state: every step either
   leaves state and last_change alone or stamps last_change with the current instant *)
Definition stamp (t : Z) (c c' : circuit) : Prop :=
  (state c' = state c /\ last_change c' = last_change c) \/ last_change c' = t.

Lemma stamp_refl t c : stamp t c c.
Proof. left. split; reflexivity. Qed.

Lemma stamp_trans t a b c : stamp t a b -> stamp t b c -> stamp t a c.
Proof.
  intros [[A1 A2]|A] [[B1 B2]|B]; unfold stamp.
  - left. split; congruence.
  - right. exact B.
  - right. congruence.
  - right. exact B.
Qed.

Lemma stamp_of_trans t c c' : trans_or_same t c c' -> stamp t c c'.
Proof.
  intros [(A1&A2&A3&A4&A5)|(H1&H2&H3&H4&H5)]; [left; split; assumption|right; exact H3].
Qed.

Lemma stamp_try_acquire t cf c : stamp t c (fst (try_acquire t cf c)).
Proof.
  unfold try_acquire. destruct (state c) eqn:Es; cbn.
  - apply stamp_refl.
  - destruct (wait_open cf <=? t - last_change c); cbn; [|apply stamp_refl].
    right. unfold transition_to. rewrite Es. reflexivity.
  - destruct (admitted c <? permitted cf); cbn; [left; split; reflexivity|apply stamp_refl].
Qed.

Lemma stamp_drop_trial t tr c : stamp t c (drop_trial tr c).
Proof.
  destruct tr as [p|]; cbn; [|apply stamp_refl].
  destruct (p =? phase c); [left; split; reflexivity|apply stamp_refl].
Qed.

Lemma circ_gsync old s : circ (gsync old s) = circ s.
Proof. unfold gsync. destruct (_ =? _); reflexivity. Qed.

Lemma now_gsync old s : now (gsync old s) = now s.
Proof. unfold gsync. destruct (_ =? _); reflexivity. Qed.

Lemma stamp_poll_running cf s i start tr b :
  stamp (now s) (circ s) (circ (fst (poll_running cf s i start tr b))).
Proof.
  unfold poll_running. destruct (gate s i) as [[f|f|]|]; cbn [fst].
  - rewrite circ_gsync. cbn. apply stamp_of_trans. apply record_spec.
  - rewrite circ_gsync. cbn. apply stamp_of_trans. apply record_spec.
  - cbn. apply stamp_drop_trial.
  - apply stamp_refl.
Qed.

Lemma stamp_step cf s e : stamp (now s) (circ s) (circ (step_st cf s e)).
Proof.
  unfold step_st, step. destruct e as [i|i|d|i o| | |]; cbn [fst].
  - unfold poll. cbn. destruct (cs s i) as [|start tr| |].
    + pose proof (stamp_try_acquire (now s) cf (circ s)) as Ha.
      destruct (try_acquire (now s) cf (circ s)) as [c' ok]. cbn [fst] in Ha. destruct ok.
      * eapply stamp_trans; [exact Ha|].
        match goal with |- stamp _ _ (circ (fst (poll_running _ ?s2 _ ?st ?tr _))) =>
          pose proof (stamp_poll_running cf s2 i st tr true) as Hp;
          assert (Hn : now s2 = now s) by (destruct (state c'); cbn; rewrite now_gsync; reflexivity);
          assert (Hc : circ s2 = c') by (destruct (state c'); cbn; rewrite circ_gsync; reflexivity)
        end.
        rewrite Hn, Hc in Hp. exact Hp.
      * cbn. exact Ha.
    + match goal with |- stamp _ _ (circ (fst (poll_running _ ?s2 _ _ _ _))) =>
        exact (stamp_poll_running cf s2 i start tr false) end.
    + apply stamp_refl.
    + apply stamp_refl.
  - unfold drop. cbn. destruct (cs s i) as [|start tr| |]; cbn; try apply stamp_refl.
    apply stamp_drop_trial.
  - apply stamp_refl.
  - unfold complete. destruct (gate s i); apply stamp_refl.
  - rewrite circ_gsync. cbn. apply stamp_of_trans. apply transition_to_spec.
  - rewrite circ_gsync. cbn. apply stamp_of_trans. apply transition_to_spec.
  - rewrite circ_gsync. cbn. apply stamp_of_trans.
    eapply trans_or_same_post; [apply transition_to_spec|apply clear_window_ctl].
Qed.

(* whenever a step changes the state, the new state's last_change is the instant of that step:
   in particular "open since last_change" is the moment the breaker opened *)
Lemma last_change_is_transition_instant cf s e :
  state (circ (step_st cf s e)) <> state (circ s) ->
  last_change (circ (step_st cf s e)) = now s.
Proof.
  intros Hne. destruct (stamp_step cf s e) as [[H _]|H]; [contradiction|exact H].
Qed.

(* an operator's force_open on an already open breaker does not restart the wait *)
Lemma force_open_when_open cf s :
  state (circ s) = Open -> circ (step_st cf s ForceOpen) = circ s.
Proof.
  intros H. unfold step_st, step. cbn [fst]. rewrite circ_gsync. cbn.
  unfold force_open, transition_to. rewrite H. reflexivity.
Qed.

(* the three views agree in every reachable state *)
Lemma views_agree cf evs :
  1 <= permitted cf ->
  Forall (fun s => state_atomic (circ s) = state (circ s) /\
                   fst (fst (fst (fst (metrics cf (circ s))))) = state (circ s))
         (states (step_st cf) init evs).
Proof.
  intros Hp. eapply Forall_impl; [|apply reach_Inv; exact Hp]. intros s [Hs _ _ _ _ _]. split; [exact Hs|].
  unfold metrics. destruct (time_based cf); [unfold time_based_stats|]; reflexivity.
Qed.

(* ---------- C09 ---------- *)
(* while half-open, trial calls started in this phase minus those handed back by
   cancellation never exceed the permitted number *)
Lemma half_open_bound cf evs :
  1 <= permitted cf ->
  Forall (fun s => state (circ s) = HalfOpen ->
                   gstarts s - ghand s <= permitted cf /\ 0 <= ghand s /\
                   admitted (circ s) <= permitted cf)
         (states (step_st cf) init evs).
Proof.
  intros Hp. eapply Forall_impl; [|apply reach_Inv; exact Hp].
  intros s [Hs Ha0 Hh0 Ha Hg Hl] Hho. specialize (Ha Hho). repeat split; lia.
Qed.

(* callers beyond the permitted number are rejected without reaching the inner service *)
Lemma beyond_permitted_rejected cf s i :
  state (circ s) = HalfOpen -> permitted cf <= admitted (circ s) -> cs s i = Created ->
  let s' := fst (poll cf s i) in let o := snd (poll cf s i) in
  r o = (if has_fallback cf then 4 else 3) /\ started o = false /\
  inflight s' = inflight s /\ circ s' = circ s.
Proof.
  intros Hho Hfull Hcr. unfold poll. cbn. rewrite Hcr.
  destruct (try_acquire_spec (now s) cf (circ s)) as (_ & _ & Hf & _). cbn zeta in Hf.
  destruct (Hf Hho Hfull) as [Hok Hc].
  destruct (try_acquire (now s) cf (circ s)) as [c' ok]. cbn in Hok, Hc. subst. cbn.
  repeat split.
Qed.

(* every inner call started while the breaker is half-open (or by the call that makes it
   half-open) is counted as a trial of the phase *)
Lemma trial_start_counted cf s i :
  cs s i = Created -> gate s i = None ->
  (state (circ s) = HalfOpen \/ state (circ s) = Open) ->
  started (snd (poll cf s i)) = true ->
  let s' := fst (poll cf s i) in
  state (circ s') = HalfOpen /\
  gstarts s' = (if cstate_eqb (state (circ s)) HalfOpen then gstarts s + 1 else 1).
Proof.
  intros Hcr Hg Hst. unfold poll. cbn. rewrite Hcr.
  pose proof (try_acquire_spec (now s) cf (circ s)) as Hacq. cbn zeta in Hacq.
  destruct (try_acquire (now s) cf (circ s)) as [c' ok] eqn:Eacq. cbn [fst snd] in Hacq.
  destruct Hacq as (Hsy & Hrej & Hfull & Hho & Hoe & Hcl).
  destruct ok; [|cbn; discriminate].
  intros _. destruct Hst as [Hs|Hs].
  - destruct (Z_lt_le_dec (admitted (circ s)) (permitted cf)) as [Hlt|Hge].
    2:{ destruct (Hfull Hs Hge) as [Hf _]. discriminate. }
    destruct (Hho Hs Hlt) as (_ & E1 & E2 & E3 & E4). rewrite E1, Hs. cbn.
    unfold gsync. cbn. rewrite E2, Z.eqb_refl. cbn. unfold poll_running. cbn.
    unfold upd at 1. cbn. rewrite Hg. cbn. split; [exact E1|reflexivity].
  - destruct (Z_lt_le_dec (now s - last_change (circ s)) (wait_open cf)) as [Hlt|Hge].
    { destruct (Hrej Hs Hlt) as [Hf _]. discriminate. }
    destruct (Hoe Hs Hge) as (_ & E1 & E2 & E3 & E4). rewrite E1, Hs. cbn.
    unfold gsync. cbn.
    destruct (phase c' =? phase (circ s)) eqn:E; [apply Z.eqb_eq in E; lia|]. cbn.
    unfold poll_running. cbn. rewrite Hg. cbn. split; [exact E1|reflexivity].
Qed.

(* slots are handed back only by cancellation: a Drop, or a poll in which the inner call panics *)
Lemma ghand_gsync old s : 0 <= ghand s -> 0 <= ghand (gsync old s) <= ghand s.
Proof. intros H. unfold gsync. destruct (_ =? _); cbn; lia. Qed.

Lemma ghand_poll_running cf s i start tr b :
  0 <= ghand s ->
  ghand s < ghand (fst (poll_running cf s i start tr b)) ->
  r (snd (poll_running cf s i start tr b)) = 5.
Proof.
  intros H0. unfold poll_running. destruct (gate s i) as [[f|f|]|]; cbn [fst snd].
  - match goal with |- context [gsync ?o ?x] => pose proof (ghand_gsync o x) as Hg end.
    cbn in Hg. specialize (Hg H0). lia.
  - match goal with |- context [gsync ?o ?x] => pose proof (ghand_gsync o x) as Hg end.
    cbn in Hg. specialize (Hg H0). lia.
  - reflexivity.
  - lia.
Qed.

Lemma handback_only_on_cancel cf s e :
  0 <= ghand s ->
  ghand s < ghand (step_st cf s e) ->
  (exists i, e = Drop i) \/ (exists i, e = Poll i /\ r (snd (step cf s e)) = 5).
Proof.
  intros H0. unfold step_st, step. destruct e as [i|i|d|i o| | |]; cbn [fst snd].
  - intros H. right. exists i. split; [reflexivity|]. revert H.
    unfold poll. cbn. destruct (cs s i) as [|start tr| |].
    + destruct (try_acquire (now s) cf (circ s)) as [c' ok]. destruct ok; cbn [fst snd].
      * match goal with |- context [poll_running cf ?s2 i ?st ?tr true] =>
          pose proof (ghand_poll_running cf s2 i st tr true) as Hp;
          assert (Hle : 0 <= ghand s2 <= ghand s)
        end.
        { destruct (state c'); cbn;
            match goal with |- context [gsync ?o ?x] => pose proof (ghand_gsync o x) as Hg end;
            cbn in Hg; specialize (Hg H0); lia. }
        intros H. apply Hp; lia.
      * cbn. lia.
    + match goal with |- context [poll_running cf ?s2 i start tr false] =>
        intros H; apply (ghand_poll_running cf s2 i start tr false); assumption end.
    + cbn. lia.
    + cbn. lia.
  - intros _. left. exists i. reflexivity.
  - cbn. lia.
  - unfold complete. destruct (gate s i); cbn; lia.
  - intros H. match type of H with context [gsync ?o ?x] => pose proof (ghand_gsync o x H0) as Hg end. cbn in Hg. exfalso. lia.
  - intros H. match type of H with context [gsync ?o ?x] => pose proof (ghand_gsync o x H0) as Hg end. cbn in Hg. exfalso. lia.
  - intros H. match type of H with context [gsync ?o ?x] => pose proof (ghand_gsync o x H0) as Hg end. cbn in Hg. exfalso. lia.
Qed.

(* non-vacuity: a burst of five callers at a half-open breaker with two permitted calls *)
Example ex_burst :
  let cf := mkCfg false 2 100 2 1 2 false 50 1 2 10 2 false in
  let evs := [Poll 0%nat; Complete 0%nat (OErr true); Poll 0%nat;
              Poll 1%nat; Complete 1%nat (OErr true); Poll 1%nat;
              Advance 10; Poll 2%nat; Poll 3%nat; Poll 4%nat; Poll 5%nat; Poll 6%nat] in
  let s := fold_left (step_st cf) evs init in
  state (circ s) = HalfOpen /\ inflight s = 2 /\ gstarts s = 2 /\ admitted (circ s) = 2.
Proof. vm_compute. repeat split. Qed.

Example ex_shielded :
  let cf := mkCfg false 2 100 2 1 2 false 50 1 2 10 2 false in
  let evs := [Poll 0%nat; Complete 0%nat (OErr true); Poll 0%nat;
              Poll 1%nat; Complete 1%nat (OErr true); Poll 1%nat; Advance 9] in
  let s := fold_left (step_st cf) evs init in
  shielded cf s /\ r (snd (poll cf s 2%nat)) = 3.
Proof. vm_compute. repeat split. Qed.
