(* Invariants of the bulkhead model and the lemmas Props/C01.v and Props/C07.v use. *)
From TR Require Import Lib.Base Model.Bulkhead.

(* ---------- list helpers ---------- *)
Lemma mem_In i l : mem i l = true <-> In i l.
Proof.
  unfold mem. rewrite existsb_exists. split.
  - intros [x [Hx He]]. apply Nat.eqb_eq in He. subst. exact Hx.
  - intros H. exists i. split; [exact H|apply Nat.eqb_refl].
Qed.

Lemma mem_false i l : mem i l = false <-> ~ In i l.
Proof.
  rewrite <- mem_In. destruct (mem i l); split; intros H; try congruence;
    try reflexivity; try (exfalso; apply H; reflexivity).
Qed.

Lemma in_remove_id j i l : In j (remove_id i l) <-> In j l /\ j <> i.
Proof.
  unfold remove_id. rewrite filter_In. split; intros [H1 H2]; split; try exact H1.
  - intros ->. rewrite Nat.eqb_refl in H2. discriminate.
  - apply Bool.negb_true_iff. apply Nat.eqb_neq. exact H2.
Qed.

Lemma nodup_remove_id i l : NoDup l -> NoDup (remove_id i l).
Proof. intros H. apply NoDup_filter. exact H. Qed.

Lemma remove_id_cons i x t :
  remove_id i (x :: t) = if Nat.eqb x i then remove_id i t else x :: remove_id i t.
Proof. unfold remove_id. cbn. destruct (Nat.eqb x i); reflexivity. Qed.

Lemma remove_id_notin i l : ~ In i l -> remove_id i l = l.
Proof.
  induction l as [|x t IH]; intros H; [reflexivity|].
  rewrite remove_id_cons. destruct (Nat.eqb_spec x i) as [->|Hne].
  - exfalso. apply H. left. reflexivity.
  - f_equal. apply IH. intros Hi. apply H. right. exact Hi.
Qed.

Lemma length_remove_id i l : NoDup l -> In i l -> S (length (remove_id i l)) = length l :> nat.
Proof.
  induction l as [|x t IH]; intros Hnd Hin; [destruct Hin|].
  inversion Hnd as [|? ? Hx Ht]; subst. rewrite remove_id_cons.
  destruct (Nat.eqb_spec x i) as [->|Hne]; cbn [length].
  - rewrite remove_id_notin by exact Hx. reflexivity.
  - f_equal. apply IH; [exact Ht|]. destruct Hin as [->|Hin]; [congruence|exact Hin].
Qed.

Lemma nodup_snoc (l : list nat) x : NoDup l -> ~ In x l -> NoDup (l ++ [x]).
Proof.
  induction l as [|y t IH]; intros H Hx; cbn.
  - constructor; [intros []|constructor].
  - inversion H as [|? ? Hy Ht]; subst. constructor.
    + rewrite in_app_iff. intros [Hin|[->|[]]]; [exact (Hy Hin)|].
      apply Hx. left. reflexivity.
    + apply IH; [exact Ht|]. intros Hin. apply Hx. right. exact Hin.
Qed.

Lemma upd_same {A} (f : nat -> A) i v : upd f i v i = v.
Proof. unfold upd. rewrite Nat.eqb_refl. reflexivity. Qed.

Lemma upd_other {A} (f : nat -> A) i v j : j <> i -> upd f i v j = f j.
Proof. intros H. unfold upd. apply Nat.eqb_neq in H. rewrite H. reflexivity. Qed.

Arguments remove_id : simpl never.
Arguments upd : simpl never.
Arguments mem : simpl never.

(* ---------- the invariant ---------- *)
(* list part, with k permits currently "in hand" (taken from the semaphore but not
   yet accounted to a running caller) *)
Record G (c : cfg) (k : nat) (s : st) : Prop := {
  g_cons : (free s + length (granted s) + length (running s) + k = cap c)%nat;
  g_ndq : NoDup (queue s);
  g_ndg : NoDup (granted s);
  g_ndr : NoDup (running s);
  g_disj : forall j, In j (queue s) -> ~ In j (granted s);
  g_fq : (free s > 0)%nat -> queue s = []
}.

(* per-caller part: how the caller's state relates to the lists and the ghosts *)
Definition is_waiting (x : cst) : Prop := exists dl, x = Waiting dl.

Record Cj (c : cfg) (s : st) (j : nat) : Prop := {
  c_wait : (In j (queue s) \/ In j (granted s)) <-> is_waiting (cs s j);
  c_run : In j (running s) <-> cs s j = Running;
  c_ent : (cs s j = Created \/ is_waiting (cs s j)) -> entered s j = false;
  c_dl : forall d, cs s j = Waiting (Some d) ->
           exists a w, arrival s j = Some a /\ max_wait c = Some w /\ d = a + w;
  c_arr : forall a, arrival s j = Some a -> a <= now s
}.

Definition Inv (c : cfg) (s : st) : Prop := G c 0 s /\ forall j, Cj c s j.

Lemma inv_init c : Inv c (init c).
Proof.
  split.
  - constructor; cbn.
    + lia.
    + constructor.
    + constructor.
    + constructor.
    + intros j [].
    + reflexivity.
  - intros j. constructor; cbn.
    + split; [intros [[]|[]]|intros [dl H]; discriminate].
    + split; [intros []|discriminate].
    + reflexivity.
    + discriminate.
    + discriminate.
Qed.

(* ---------- release ---------- *)
Lemma release_G c k s : G c (S k) s -> G c k (release s).
Proof.
  intros [Hc Hq Hg Hr Hd Hf]. unfold release. destruct (queue s) as [|h q] eqn:Eq; constructor; cbn.
  - lia.
  - constructor.
  - exact Hg.
  - exact Hr.
  - intros j [].
  - reflexivity.
  - rewrite app_length. cbn. lia.
  - inversion Hq; assumption.
  - apply nodup_snoc; [exact Hg|]. apply Hd. left. reflexivity.
  - exact Hr.
  - intros j Hj. rewrite in_app_iff. intros [Hjg|[->|[]]].
    + apply (Hd j); [right; exact Hj|exact Hjg].
    + inversion Hq; contradiction.
  - intros Hpos. specialize (Hf Hpos). discriminate.
Qed.

Lemma release_C c s j : Cj c s j -> Cj c (release s) j.
Proof.
  intros [Hw Hr He Hd Ha]. unfold release. destruct (queue s) as [|h q] eqn:Eq; constructor; cbn;
    try assumption.
  rewrite <- Hw. rewrite in_app_iff. cbn. tauto.
Qed.

Lemma release_cs s : cs (release s) = cs s.
Proof. unfold release. destruct (queue s); reflexivity. Qed.
Lemma release_running s : running (release s) = running s.
Proof. unfold release. destruct (queue s); reflexivity. Qed.
Lemma release_entered s : entered (release s) = entered s.
Proof. unfold release. destruct (queue s); reflexivity. Qed.
Lemma release_arrival s : arrival (release s) = arrival s.
Proof. unfold release. destruct (queue s); reflexivity. Qed.
Lemma release_now s : now (release s) = now s.
Proof. unfold release. destruct (queue s); reflexivity. Qed.
Lemma release_gate s : gate (release s) = gate s.
Proof. unfold release. destruct (queue s); reflexivity. Qed.

(* ---------- a running caller is polled ---------- *)
Lemma poll_running_inv c s i b z :
  Inv c s -> cs s i = Running -> Inv c (fst (poll_running s i b z)).
Proof.
  intros [HG HC] Hrun. unfold poll_running. destruct (gate s i) as [o|]; cbn [fst]; [|split; assumption].
  destruct (HC i) as [Hwi Hri _ _ Hai].
  assert (Hin : In i (running s)) by (apply Hri; exact Hrun).
  assert (Hnw : ~ is_waiting (cs s i)) by (rewrite Hrun; intros [dl H]; discriminate).
  set (s1 := mkSt _ _ _ _ _ _ _ _ _ _).
  assert (HG1 : G c 1 s1).
  { destruct HG as [Hc Hq Hg Hr Hd Hf]. constructor; cbn; try assumption.
    - pose proof (length_remove_id i (running s) Hr Hin). lia.
    - apply nodup_remove_id. exact Hr. }
  assert (HC1 : forall j, Cj c s1 j).
  { intros j. destruct (HC j) as [Hw Hr He Hd Ha]. constructor; cbn.
    - destruct (Nat.eq_dec j i) as [->|Hne].
      + rewrite upd_same. split; [intros H; exfalso; apply Hnw; apply Hwi; exact H|].
        intros [dl H]; discriminate.
      + rewrite upd_other by exact Hne. exact Hw.
    - rewrite in_remove_id. destruct (Nat.eq_dec j i) as [->|Hne].
      + rewrite upd_same. split; [intros [_ H]; congruence|discriminate].
      + rewrite upd_other by exact Hne. rewrite Hr. tauto.
    - destruct (Nat.eq_dec j i) as [->|Hne].
      + rewrite upd_same. intros [H|[dl H]]; discriminate.
      + rewrite upd_other by exact Hne. exact He.
    - destruct (Nat.eq_dec j i) as [->|Hne].
      + rewrite upd_same. discriminate.
      + rewrite upd_other by exact Hne. exact Hd.
    - exact Ha. }
  split; [apply release_G; exact HG1|intros j; apply release_C; apply HC1].
Qed.

(* ---------- a caller holding a permit starts its inner call ---------- *)
(* [s] is the state in which the permit has been taken (k = 1) and caller i is in no list *)
Lemma start_inv c s i :
  G c 1 s -> (forall j, j <> i -> Cj c s j) ->
  ~ In i (queue s) -> ~ In i (granted s) -> ~ In i (running s) ->
  (forall a, arrival s i = Some a -> a <= now s) ->
  Inv c (fst (start s i)).
Proof.
  intros HG HC Hq Hg Hr Hai. unfold start.
  set (s1 := mkSt _ _ _ _ _ _ _ _ _ _).
  assert (Hinv1 : Inv c s1).
  { split.
    - destruct HG as [Hc Hndq Hndg Hndr Hd Hf]. constructor; cbn; try assumption.
      + lia.
      + constructor; assumption.
    - intros j. destruct (Nat.eq_dec j i) as [->|Hne].
      + constructor; cbn; rewrite ?upd_same.
        * split; [intros [H|H]; contradiction|intros [dl H]; discriminate].
        * split; [reflexivity|intros _; left; reflexivity].
        * intros [H|[dl H]]; discriminate.
        * discriminate.
        * exact Hai.
      + destruct (HC j Hne) as [Hw Hrr He Hd Ha]. constructor; cbn; rewrite ?upd_other in * by exact Hne.
        * exact Hw.
        * rewrite <- Hrr. split; [intros [H|H]; [congruence|exact H]|intros H; right; exact H].
        * exact He.
        * exact Hd.
        * exact Ha. }
  apply poll_running_inv; [exact Hinv1|]. cbn. apply upd_same.
Qed.

(* ---------- poll ---------- *)
Ltac solve_arr H :=
  first [exact H | (let a := fresh in let Hx := fresh in intros a Hx; inversion Hx; lia)
        | (let a := fresh in let Hx := fresh in intros a Hx; apply H; cbn; rewrite ?upd_same; exact Hx)].

Lemma poll_inv c s i : Inv c s -> Inv c (fst (poll c s i)).
Proof.
  intros [HG HC]. unfold poll.
  set (s' := mkSt (now s) (free s) (queue s) (granted s) (running s) (cs s) (gate s)
                  (upd (woken s) i false) (entered s) _).
  assert (HG' : G c 0 s') by (destruct HG; constructor; assumption).
  assert (HC' : forall j, j <> i -> Cj c s' j).
  { intros j Hne. destruct (HC j) as [Hw Hr He Hd Ha]. constructor; cbn; try assumption.
    - intros d Hd'. destruct (Hd d Hd') as [a [w [H1 H2]]]. exists a, w. split; [|exact H2].
      destruct (cs s i); try exact H1; rewrite upd_other by exact Hne; exact H1.
    - intros a. destruct (cs s i); try apply Ha; rewrite upd_other by exact Hne; apply Ha. }
  assert (Harr : forall a, arrival s' i = Some a -> a <= now s).
  { intros a. cbn. destruct (HC i) as [_ _ _ _ Ha]. destruct (cs s i); try apply Ha.
    rewrite upd_same. intros H. inversion H. lia. }
  assert (HCi : Cj c s' i).
  { destruct (HC i) as [Hw Hr He Hd Ha]. constructor; cbn; try assumption.
    - intros d Hd'. destruct (Hd d Hd') as [a [w [H1 H2]]]. exists a, w. split; [|exact H2].
      rewrite Hd'. exact H1. }
  assert (Hinv' : Inv c s') by (split; [exact HG'|intros j; destruct (Nat.eq_dec j i) as [->|Hne]; [exact HCi|apply HC'; exact Hne]]).
  assert (Hac : cs s i = Created -> arrival s' i = Some (now s))
    by (intros H; cbn; rewrite H; apply upd_same).
  change (cs s' i) with (cs s i).
  destruct (HC i) as [Hwi Hri Hei Hdi Hai].
  destruct (cs s i) as [|dl| | |] eqn:Ecs.
  - (* Created *)
    assert (Hnq : ~ In i (queue s) /\ ~ In i (granted s)).
    { split; intros H; assert (Hw : is_waiting Created) by (apply Hwi; tauto);
        destruct Hw as [dl H']; discriminate. }
    assert (Hnr : ~ In i (running s)) by (intros H; apply Hri in H; discriminate).
    change (free s') with (free s).
    destruct (free s) as [|f] eqn:Ef.
    + (* no permit *)
      assert (Hstep : forall dl0,
                (forall d, dl0 = Some d -> exists w, max_wait c = Some w /\ d = now s + w) ->
                Inv c (mkSt (now s') (free s') (queue s' ++ [i]) (granted s') (running s')
                            (upd (cs s') i (Waiting dl0)) (gate s') (woken s') (entered s') (arrival s'))).
      { intros dl0 Hdl0. split.
        - destruct HG' as [Hc Hndq Hndg Hndr Hd Hf]. constructor; cbn in *; try assumption.
          + apply nodup_snoc; [exact Hndq|tauto].
          + intros j. rewrite in_app_iff. intros [Hj|[->|[]]]; [apply Hd; exact Hj|tauto].
          + intros Hpos. lia.
        - intros j. destruct (Nat.eq_dec j i) as [->|Hne].
          + constructor; cbn; rewrite ?upd_same.
            * split; [intros _; eexists; reflexivity|intros _; left; rewrite in_app_iff; right; left; reflexivity].
            * split; [intros H; contradiction|discriminate].
            * intros _. apply Hei. left. reflexivity.
            * intros d Hd'. inversion Hd'; subst. destruct (Hdl0 d eq_refl) as [w [Hw Hd]].
              exists (now s), w. split; [first [reflexivity|apply Hac; reflexivity]|split; assumption].
            * solve_arr Harr.
          + destruct (HC' j Hne) as [Hw Hr He Hd Ha]. constructor; cbn in *; rewrite ?upd_other in * by exact Hne; try assumption.
            rewrite <- Hw. rewrite in_app_iff. cbn. split; [intros [[H|[H|[]]]|H]; [tauto|congruence|tauto]|tauto]. }
      destruct (max_wait c) as [w|] eqn:Emw.
      * destruct (w <=? 0) eqn:Ew; cbn [fst].
        -- split.
           ++ destruct HG' as [Hc Hndq Hndg Hndr Hd Hf]. constructor; cbn in *; assumption.
           ++ intros j. destruct (Nat.eq_dec j i) as [->|Hne].
              ** constructor; cbn; rewrite ?upd_same.
                 --- split; [intros [H|H]; tauto|intros [dl H]; discriminate].
                 --- split; [intros H; contradiction|discriminate].
                 --- intros [H|[dl H]]; discriminate.
                 --- discriminate.
                 --- solve_arr Harr.
              ** destruct (HC' j Hne) as [Hw Hr He Hd Ha]. constructor; cbn in *; rewrite ?upd_other in * by exact Hne; assumption.
        -- apply Hstep. intros d Hd. inversion Hd. exists w. split; reflexivity.
      * cbn [fst]. apply Hstep. discriminate.
    + (* a permit is free: take it and start *)
      apply start_inv; cbn.
      * destruct HG as [Hc Hndq Hndg Hndr Hd Hf]. constructor; cbn; try assumption.
        -- lia.
        -- intros _. apply Hf. lia.
      * intros j Hne. destruct (HC' j Hne) as [Hw Hr He Hd Ha]. constructor; cbn in *; assumption.
      * tauto.
      * tauto.
      * exact Hnr.
      * solve_arr Harr.
  - (* Waiting *)
    assert (Hnr : ~ In i (running s)) by (intros H; apply Hri in H; discriminate).
    change (granted s') with (granted s).
    destruct (mem i (granted s)) eqn:Emem.
    + apply mem_In in Emem.
      assert (Hnq : ~ In i (queue s)) by (intros H; destruct HG as [_ _ _ _ Hd _]; exact (Hd i H Emem)).
      apply start_inv; cbn.
      * destruct HG as [Hc Hndq Hndg Hndr Hd Hf]. constructor; cbn; try assumption.
        -- pose proof (length_remove_id i (granted s) Hndg Emem). lia.
        -- apply nodup_remove_id. exact Hndg.
        -- intros j Hj. rewrite in_remove_id. intros [Hjg _]. exact (Hd j Hj Hjg).
      * intros j Hne. destruct (HC' j Hne) as [Hw Hr He Hd Ha]. constructor; cbn in *; try assumption.
        rewrite <- Hw. rewrite in_remove_id. tauto.
      * exact Hnq.
      * rewrite in_remove_id. tauto.
      * exact Hnr.
      * solve_arr Harr.
    + apply mem_false in Emem.
      assert (Hq : In i (queue s)).
      { assert (Hw : is_waiting (Waiting dl)) by (eexists; reflexivity). apply Hwi in Hw. tauto. }
      assert (Hto : Inv c (mkSt (now s') (free s') (remove_id i (queue s')) (granted s') (running s')
                                (upd (cs s') i Done) (gate s') (woken s') (entered s') (arrival s'))).
      { split.
        - destruct HG' as [Hc Hndq Hndg Hndr Hd Hf]. constructor; cbn in *; try assumption.
          + apply nodup_remove_id. exact Hndq.
          + intros j. rewrite in_remove_id. intros [Hj _]. apply Hd. exact Hj.
          + intros Hpos. rewrite (Hf Hpos). reflexivity.
        - intros j. destruct (Nat.eq_dec j i) as [->|Hne].
          + constructor; cbn; rewrite ?upd_same.
            * split; [rewrite in_remove_id; intros [[_ H]|H]; tauto|intros [dl' H]; discriminate].
            * split; [intros H; contradiction|discriminate].
            * intros [H|[dl' H]]; discriminate.
            * discriminate.
            * solve_arr Harr.
          + destruct (HC' j Hne) as [Hw Hr He Hd Ha]. constructor; cbn in *; rewrite ?upd_other in * by exact Hne; try assumption.
            rewrite <- Hw. rewrite in_remove_id. tauto. }
      destruct dl as [d|]; [destruct (d <=? now s')|]; cbn [fst]; [exact Hto|exact Hinv'|exact Hinv'].
  - (* Running *)
    apply poll_running_inv; [exact Hinv'|exact Ecs].
  - exact Hinv'.
  - exact Hinv'.
Qed.

(* ---------- drop ---------- *)
Lemma drop_inv c s i : Inv c s -> Inv c (drop s i).
Proof.
  intros [HG HC]. unfold drop.
  set (s' := mkSt (now s) (free s) (queue s) (granted s) (running s) (cs s) (gate s)
                  (upd (woken s) i false) (entered s) (arrival s)).
  assert (HG' : G c 0 s') by (destruct HG; constructor; assumption).
  assert (HC' : forall j, Cj c s' j) by (intros j; destruct (HC j); constructor; assumption).
  change (cs s' i) with (cs s i).
  destruct (HC i) as [Hwi Hri Hei Hdi Hai].
  destruct (cs s i) as [|dl| | |] eqn:Ecs.
  - (* Created *)
    split; [destruct HG'; constructor; assumption|].
    intros j. destruct (Nat.eq_dec j i) as [->|Hne].
    + constructor; cbn; rewrite ?upd_same.
      * split; [intros H; apply Hwi in H; destruct H as [dl H]; discriminate|intros [dl H]; discriminate].
      * split; [intros H; apply Hri in H; discriminate|discriminate].
      * intros [H|[dl H]]; discriminate.
      * discriminate.
      * exact Hai.
    + destruct (HC' j) as [Hw Hr He Hd Ha]. constructor; cbn in *; rewrite ?upd_other in * by exact Hne; assumption.
  - (* Waiting *)
    assert (Hnr : ~ In i (running s)) by (intros H; apply Hri in H; discriminate).
    change (granted s') with (granted s).
    destruct (mem i (granted s)) eqn:Emem.
    + apply mem_In in Emem.
      assert (Hnq : ~ In i (queue s)) by (intros H; destruct HG as [_ _ _ _ Hd _]; exact (Hd i H Emem)).
      split.
      * apply release_G. destruct HG as [Hc Hndq Hndg Hndr Hd Hf]. constructor; cbn; try assumption.
        -- pose proof (length_remove_id i (granted s) Hndg Emem). lia.
        -- apply nodup_remove_id. exact Hndg.
        -- intros j Hj. rewrite in_remove_id. intros [Hjg _]. exact (Hd j Hj Hjg).
      * intros j. apply release_C. destruct (Nat.eq_dec j i) as [->|Hne].
        -- constructor; cbn; rewrite ?upd_same.
           ++ split; [rewrite in_remove_id; intros [H|[_ H]]; tauto|intros [dl' H]; discriminate].
           ++ split; [intros H; contradiction|discriminate].
           ++ intros [H|[dl' H]]; discriminate.
           ++ discriminate.
           ++ exact Hai.
        -- destruct (HC' j) as [Hw Hr He Hd Ha]. constructor; cbn in *; rewrite ?upd_other in * by exact Hne; try assumption.
           rewrite <- Hw. rewrite in_remove_id. tauto.
    + apply mem_false in Emem. split.
      * destruct HG' as [Hc Hndq Hndg Hndr Hd Hf]. constructor; cbn in *; try assumption.
        -- apply nodup_remove_id. exact Hndq.
        -- intros j. rewrite in_remove_id. intros [Hj _]. apply Hd. exact Hj.
        -- intros Hpos. rewrite (Hf Hpos). reflexivity.
      * intros j. destruct (Nat.eq_dec j i) as [->|Hne].
        -- constructor; cbn; rewrite ?upd_same.
           ++ split; [rewrite in_remove_id; intros [[_ H]|H]; tauto|intros [dl' H]; discriminate].
           ++ split; [intros H; contradiction|discriminate].
           ++ intros [H|[dl' H]]; discriminate.
           ++ discriminate.
           ++ exact Hai.
        -- destruct (HC' j) as [Hw Hr He Hd Ha]. constructor; cbn in *; rewrite ?upd_other in * by exact Hne; try assumption.
           rewrite <- Hw. rewrite in_remove_id. tauto.
  - (* Running *)
    assert (Hin : In i (running s)) by (apply Hri; reflexivity).
    assert (Hnw : ~ (In i (queue s) \/ In i (granted s))).
    { intros H. apply Hwi in H. destruct H as [dl H]. discriminate. }
    split.
    + apply release_G. destruct HG as [Hc Hndq Hndg Hndr Hd Hf]. constructor; cbn; try assumption.
      * pose proof (length_remove_id i (running s) Hndr Hin). lia.
      * apply nodup_remove_id. exact Hndr.
    + intros j. apply release_C. destruct (Nat.eq_dec j i) as [->|Hne].
      * constructor; cbn; rewrite ?upd_same.
        -- split; [intros H; tauto|intros [dl' H]; discriminate].
        -- split; [rewrite in_remove_id; intros [_ H]; congruence|discriminate].
        -- intros [H|[dl' H]]; discriminate.
        -- discriminate.
        -- exact Hai.
      * destruct (HC' j) as [Hw Hr He Hd Ha]. constructor; cbn in *; rewrite ?upd_other in * by exact Hne; try assumption.
        rewrite <- Hr. rewrite in_remove_id. tauto.
  - split; assumption.
  - split; assumption.
Qed.

Lemma advance_inv c s d : Inv c s -> Inv c (advance s d).
Proof.
  intros [HG HC]. split.
  - destruct HG; constructor; assumption.
  - intros j. destruct (HC j) as [Hw Hr He Hd Ha]. constructor; cbn; try assumption.
    intros a H. specialize (Ha a H). lia.
Qed.

Lemma complete_inv c s i o : Inv c s -> Inv c (complete s i o).
Proof.
  intros [HG HC]. unfold complete. destruct (gate s i); [split; assumption|]. split.
  - destruct HG; constructor; assumption.
  - intros j. destruct (HC j); constructor; assumption.
Qed.

Lemma step_inv c s e : Inv c s -> Inv c (step_st c s e).
Proof.
  intros H. unfold step_st, step. destruct e; cbn [fst].
  - apply poll_inv. exact H.
  - apply drop_inv. exact H.
  - apply advance_inv. exact H.
  - apply complete_inv. exact H.
Qed.

Lemma reach_Inv c evs : Forall (Inv c) (states (step_st c) (init c) evs).
Proof. apply reach_inv; [apply inv_init|intros s e; apply step_inv]. Qed.

(* ---------- consequences ---------- *)
Definition inflight (s : st) : nat := length (running s).

(* C01: the callers inside the inner service are exactly the Running ones, each once,
   and there are at most cap of them *)
Lemma inflight_le_cap c evs :
  Forall (fun s => (inflight s <= cap c)%nat /\ NoDup (running s) /\
                   (forall i, In i (running s) <-> cs s i = Running))
         (states (step_st c) (init c) evs).
Proof.
  eapply Forall_impl; [|apply reach_Inv]. intros s [HG HC]. unfold inflight.
  destruct HG as [Hc _ _ Hr _ _]. repeat split; try lia; try assumption; apply (HC i).
Qed.

Lemma conservation c evs :
  Forall (fun s => (free s + length (granted s) + inflight s = cap c)%nat)
         (states (step_st c) (init c) evs).
Proof.
  eapply Forall_impl; [|apply reach_Inv]. intros s [[Hc _ _ _ _ _] _]. unfold inflight. lia.
Qed.

Definition idle (s : st) : Prop :=
  forall i, cs s i <> Running /\ ~ is_waiting (cs s i).

Lemma no_leak c evs :
  Forall (fun s => idle s -> free s = cap c) (states (step_st c) (init c) evs).
Proof.
  eapply Forall_impl; [|apply reach_Inv]. intros s [[Hc _ _ _ _ _] HC] Hidle.
  assert (Hr : running s = []).
  { destruct (running s) as [|x t] eqn:E; [reflexivity|]. exfalso.
    destruct (HC x) as [_ Hr _ _ _]. apply (proj1 (Hidle x)). apply Hr. rewrite E. left. reflexivity. }
  assert (Hg : granted s = []).
  { destruct (granted s) as [|x t] eqn:E; [reflexivity|]. exfalso.
    destruct (HC x) as [Hw _ _ _ _]. apply (proj2 (Hidle x)). apply Hw. right. rewrite E. left. reflexivity. }
  rewrite Hr, Hg in Hc. cbn in Hc. lia.
Qed.

(* a fresh caller arriving while fewer than cap are in flight and nobody is queued
   (neither waiting nor holding an undelivered grant) enters in its first poll *)
Lemma immediate c s i :
  Inv c s -> (inflight s < cap c)%nat -> queue s = [] -> granted s = [] -> cs s i = Created ->
  started (snd (poll c s i)) = true /\ entered (fst (poll c s i)) i = true.
Proof.
  intros [[Hc _ _ _ _ _] _] Hlt Hq Hg Hcr. unfold inflight in Hlt. rewrite Hg in Hc. cbn in Hc.
  unfold poll. cbn. rewrite Hcr.
  destruct (free s) as [|f] eqn:Ef; [lia|].
  unfold start, poll_running. cbn. destruct (gate s i); cbn.
  - rewrite release_entered. cbn. split; [reflexivity|apply upd_same].
  - split; [reflexivity|apply upd_same].
Qed.

(* the only bulkhead error is Timeout, never before arrival + max_wait, and the
   rejected caller has not entered the inner service *)
Lemma reject_only_by_timeout c s i :
  Inv c s ->
  let s' := fst (poll c s i) in let o := snd (poll c s i) in
  r o <> 4 /\
  (r o = 3 ->
     exists w a, max_wait c = Some w /\ arrival s' i = Some a /\ a + w <= now s /\
                 started o = false /\ entered s' i = false /\ cs s' i = Done /\
                 ~ In i (running s')).
Proof.
  intros [HG HC]. cbn zeta. destruct (HC i) as [Hwi Hri Hei Hdi Hai].
  unfold poll. cbn. destruct (cs s i) as [|dl| | |] eqn:Ecs.
  - destruct (free s) as [|f].
    + destruct (max_wait c) as [w|] eqn:Emw.
      * destruct (w <=? 0) eqn:Ew; cbn.
        -- split; [discriminate|]. intros _. exists w, (now s). rewrite upd_same.
           apply Z.leb_le in Ew. repeat split; try reflexivity; try lia.
           ++ apply Hei. left. reflexivity.
           ++ apply upd_same.
           ++ intros H. apply Hri in H. discriminate.
        -- split; discriminate.
      * cbn. split; discriminate.
    + unfold start, poll_running. cbn. destruct (gate s i) as [[]|]; cbn; split; discriminate.
  - destruct (mem i (granted s)) eqn:Emem.
    + unfold start, poll_running. cbn. destruct (gate s i) as [[]|]; cbn; split; discriminate.
    + destruct dl as [d|]; [|cbn; split; discriminate].
      destruct (d <=? now s) eqn:Ed; cbn; [|split; discriminate].
      split; [discriminate|]. intros _.
      destruct (Hdi d eq_refl) as [a [w [Ha [Hw Hd]]]]. exists w, a.
      apply Z.leb_le in Ed. repeat split; try assumption; try lia.
      * apply Hei. right. eexists. reflexivity.
      * apply upd_same.
      * intros H. apply Hri in H. discriminate.
  - unfold poll_running. cbn. destruct (gate s i) as [[]|]; cbn; split; discriminate.
  - cbn. split; discriminate.
  - cbn. split; discriminate.
Qed.

(* every poll of a waiter that has not been handed a permit, at or after its deadline, rejects *)
Lemma deadline_rejects c s i d :
  cs s i = Waiting (Some d) -> ~ In i (granted s) -> d <= now s ->
  r (snd (poll c s i)) = 3.
Proof.
  intros Hcs Hg Hd. unfold poll. cbn. rewrite Hcs. apply mem_false in Hg. rewrite Hg.
  apply Z.leb_le in Hd. rewrite Hd. reflexivity.
Qed.

(* ... and the waiter is woken by its timer exactly when the clock reaches the deadline *)
Lemma timer_wakes s i d dd :
  cs s i = Waiting (Some d) -> now s < d -> d <= now s + dd ->
  woken (advance s dd) i = true.
Proof.
  intros Hcs H1 H2. unfold advance. cbn. unfold timer_fires. rewrite Hcs.
  apply Bool.orb_true_iff. right. apply andb_true_intro. split.
  - apply Z.ltb_lt. exact H1.
  - apply Z.leb_le. lia.
Qed.

(* the deadline of a waiter is its arrival plus max_wait *)
Lemma deadline_is_arrival_plus_wait c evs :
  Forall (fun s => forall i d, cs s i = Waiting (Some d) ->
                     exists a w, arrival s i = Some a /\ max_wait c = Some w /\ d = a + w)
         (states (step_st c) (init c) evs).
Proof.
  eapply Forall_impl; [|apply reach_Inv]. intros s [_ HC] i d H. apply (HC i). exact H.
Qed.

(* a request never reaches the inner service after its caller was rejected or dropped:
   [entered] can only change for a caller that is Created or Waiting *)
Lemma entered_stable c s e i :
  (cs s i = Done \/ cs s i = Dropped) ->
  entered (step_st c s e) i = entered s i /\
  (cs (step_st c s e) i = cs s i).
Proof.
  intros Hfin. unfold step_st, step. destruct e as [j|j|d|j o]; cbn [fst].
  - unfold poll. cbn. destruct (Nat.eq_dec j i) as [->|Hne].
    + destruct Hfin as [H|H]; rewrite H; cbn; split; congruence.
    + assert (Hu : forall A (f : nat -> A) v, upd f j v i = f i) by (intros; apply upd_other; congruence).
      destruct (cs s j) as [|dl| | |].
      * destruct (free s).
        -- destruct (max_wait c) as [w|]; [destruct (w <=? 0)|]; cbn; rewrite ?Hu; split; reflexivity.
        -- unfold start, poll_running. cbn. destruct (gate s j); cbn;
             rewrite ?release_entered, ?release_cs; cbn; rewrite ?Hu; split; reflexivity.
      * destruct (mem j (granted s)).
        -- unfold start, poll_running. cbn. destruct (gate s j); cbn;
             rewrite ?release_entered, ?release_cs; cbn; rewrite ?Hu; split; reflexivity.
        -- destruct dl as [d|]; [destruct (d <=? now s)|]; cbn; rewrite ?Hu; split; reflexivity.
      * unfold poll_running. cbn. destruct (gate s j); cbn;
          rewrite ?release_entered, ?release_cs; cbn; rewrite ?Hu; split; reflexivity.
      * cbn. split; reflexivity.
      * cbn. split; reflexivity.
  - unfold drop. cbn. destruct (Nat.eq_dec j i) as [->|Hne].
    + destruct Hfin as [H|H]; rewrite H; cbn; split; congruence.
    + assert (Hu : forall A (f : nat -> A) v, upd f j v i = f i) by (intros; apply upd_other; congruence).
      destruct (cs s j) as [|dl| | |]; cbn; rewrite ?Hu; try (split; reflexivity).
      * destruct (mem j (granted s)); rewrite ?release_entered, ?release_cs; cbn; rewrite ?Hu; split; reflexivity.
      * rewrite ?release_entered, ?release_cs. cbn. rewrite ?Hu. split; reflexivity.
  - cbn. split; reflexivity.
  - unfold complete. destruct (gate s j); cbn; split; reflexivity.
Qed.

(* a caller dropped before it was admitted (before its first poll or while waiting)
   has not entered the inner service *)
Lemma cancelled_waiting_never_entered c s i :
  Inv c s -> (cs s i = Created \/ is_waiting (cs s i)) ->
  entered (drop s i) i = false /\ cs (drop s i) i = Dropped.
Proof.
  intros [HG HC] Hst. destruct (HC i) as [_ _ Hei _ _]. specialize (Hei Hst).
  unfold drop. cbn. destruct Hst as [H|[dl H]]; rewrite H.
  - cbn. split; [exact Hei|apply upd_same].
  - destruct (mem i (granted s)); rewrite ?release_entered, ?release_cs; cbn;
      (split; [exact Hei|apply upd_same]).
Qed.

(* non-vacuity: a concrete reachable state with a queued waiter past its deadline *)
Example ex_reject :
  let c := {| cap := 1%nat; max_wait := Some 10 |} in
  let s := fold_left (step_st c) [Poll 0%nat; Poll 1%nat; Advance 10] (init c) in
  cs s 1%nat = Waiting (Some 10) /\ ~ In 1%nat (granted s) /\ r (snd (poll c s 1%nat)) = 3 /\ inflight s = 1%nat.
Proof. cbn. repeat split; try reflexivity. intros []. Qed.
