(* Invariants of the bulkhead model and the lemmas Props/C01.v and Props/C07.v use. *)
From TR Require Import Lib.Base Lib.TokioTime Model.Bulkhead.
Arguments ceil_ms : simpl never.
Ltac case_tick :=
  cbv zeta; match goal with |- context [ceil_ms ?x <=? ?y] => destruct (ceil_ms x <=? y) end.

(* ---------- list helpers ---------- *)
Lemma mem_In i l : mem i l = true <-> In i l.
Proof.
  unfold mem. rewrite existsb_exists. split.
  - intros [x [Hx He]]. apply Nat.eqb_eq in He. subst. exact Hx.
  - intros H. exists i. split; [exact H|apply Nat.eqb_refl].
Qed.

Lemma mem_false i l : mem i l = false <-> ~ In i l.
Proof.
  rewrite <- mem_In. destruct (mem i l); split; intros H; try congruence;
    try reflexivity; try (exfalso; apply H; reflexivity).
Qed.

Lemma in_remove_id j i l : In j (remove_id i l) <-> In j l /\ j <> i.
Proof.
  unfold remove_id. rewrite filter_In. split; intros [H1 H2]; split; try exact H1.
  - intros ->. rewrite Nat.eqb_refl in H2. discriminate.
  - apply Bool.negb_true_iff. apply Nat.eqb_neq. exact H2.
Qed.

Lemma nodup_remove_id i l : NoDup l -> NoDup (remove_id i l).
Proof. intros H. apply NoDup_filter. exact H. Qed.

Lemma remove_id_cons i x t :
  remove_id i (x :: t) = if Nat.eqb x i then remove_id i t else x :: remove_id i t.
Proof. unfold remove_id. cbn. destruct (Nat.eqb x i); reflexivity. Qed.

Lemma remove_id_notin i l : ~ In i l -> remove_id i l = l.
Proof.
  induction l as [|x t IH]; intros H; [reflexivity|].
  rewrite remove_id_cons. destruct (Nat.eqb_spec x i) as [->|Hne].
  - exfalso. apply H. left. reflexivity.
  - f_equal. apply IH. intros Hi. apply H. right. exact Hi.
Qed.

Lemma length_remove_id i l : NoDup l -> In i l -> S (length (remove_id i l)) = length l :> nat.
Proof.
  induction l as [|x t IH]; intros Hnd Hin; [destruct Hin|].
  inversion Hnd as [|? ? Hx Ht]; subst. rewrite remove_id_cons.
  destruct (Nat.eqb_spec x i) as [->|Hne]; cbn [length].
  - rewrite remove_id_notin by exact Hx. reflexivity.
  - f_equal. apply IH; [exact Ht|]. destruct Hin as [->|Hin]; [congruence|exact Hin].
Qed.

Lemma nodup_snoc (l : list nat) x : NoDup l -> ~ In x l -> NoDup (l ++ [x]).
Proof.
  induction l as [|y t IH]; intros H Hx; cbn.
  - constructor; [intros []|constructor].
  - inversion H as [|? ? Hy Ht]; subst. constructor.
    + rewrite in_app_iff. intros [Hin|[->|[]]]; [exact (Hy Hin)|].
      apply Hx. left. reflexivity.
    + apply IH; [exact Ht|]. intros Hin. apply Hx. right. exact Hin.
Qed.

Lemma upd_same {A} (f : nat -> A) i v : upd f i v i = v.
Proof. unfold upd. rewrite Nat.eqb_refl. reflexivity. Qed.

Lemma upd_other {A} (f : nat -> A) i v j : j <> i -> upd f i v j = f j.
Proof. intros H. unfold upd. apply Nat.eqb_neq in H. rewrite H. reflexivity. Qed.

Arguments remove_id : simpl never.
Arguments upd : simpl never.
Arguments mem : simpl never.

(* ---------- the invariant ---------- *)
(* list part, with k permits currently "in hand" (taken from the semaphore but not
   yet accounted to a running caller) *)
Record G (c : cfg) (k : nat) (s : st) : Prop := {
  g_cons : (free s + length (granted s) + length (running s) + k = cap c)%nat;
  g_ndq : NoDup (queue s);
  g_ndg : NoDup (granted s);
  g_ndr : NoDup (running s);
  g_disj : forall j, In j (queue s) -> ~ In j (granted s);
  g_fq : (free s > 0)%nat -> queue s = []
}.

(* per-caller part: how the caller's state relates to the lists and the ghosts *)
Definition is_waiting (x : cst) : Prop := exists dl, x = Waiting dl.

Record Cj (c : cfg) (s : st) (j : nat) : Prop := {
  c_wait : (In j (queue s) \/ In j (granted s)) <-> is_waiting (cs s j);
  c_run : In j (running s) <-> cs s j = Running;
  c_ent : (cs s j = Created \/ is_waiting (cs s j)) -> entered s j = false;
  c_dl : forall d, cs s j = Waiting (Some d) ->
           exists a w, arrival s j = Some a /\ max_wait c = Some w /\ d = ceil_ms (a + w);
  c_arr : forall a, arrival s j = Some a -> a <= now s
}.

Definition Inv (c : cfg) (s : st) : Prop := G c 0 s /\ forall j, Cj c s j.

Lemma inv_init c : Inv c (init c).
Proof.
  split.
  - constructor; cbn.
    + lia.
    + constructor.
    + constructor.
    + constructor.
    + intros j [].
    + reflexivity.
  - intros j. constructor; cbn.
    + split; [intros [[]|[]]|intros [dl H]; discriminate].
    + split; [intros []|discriminate].
    + reflexivity.
    + discriminate.
    + discriminate.
Qed.

(* ---------- release ---------- *)
Lemma release_G c k s : G c (S k) s -> G c k (release s).
Proof.
  intros [Hc Hq Hg Hr Hd Hf]. unfold release. destruct (queue s) as [|h q] eqn:Eq; constructor; cbn.
  - lia.
  - constructor.
  - exact Hg.
  - exact Hr.
  - intros j [].
  - reflexivity.
  - rewrite app_length. cbn. lia.
  - inversion Hq; assumption.
  - apply nodup_snoc; [exact Hg|]. apply Hd. left. reflexivity.
  - exact Hr.
  - intros j Hj. rewrite in_app_iff. intros [Hjg|[->|[]]].
    + apply (Hd j); [right; exact Hj|exact Hjg].
    + inversion Hq; contradiction.
  - intros Hpos. specialize (Hf Hpos). discriminate.
Qed.

Lemma release_C c s j : Cj c s j -> Cj c (release s) j.
Proof.
  intros [Hw Hr He Hd Ha]. unfold release. destruct (queue s) as [|h q] eqn:Eq; constructor; cbn;
    try assumption.
  rewrite <- Hw. rewrite in_app_iff. cbn. tauto.
Qed.

Lemma release_cs s : cs (release s) = cs s.
Proof. unfold release. destruct (queue s); reflexivity. Qed.
Lemma release_running s : running (release s) = running s.
Proof. unfold release. destruct (queue s); reflexivity. Qed.
Lemma release_entered s : entered (release s) = entered s.
Proof. unfold release. destruct (queue s); reflexivity. Qed.
Lemma release_arrival s : arrival (release s) = arrival s.
Proof. unfold release. destruct (queue s); reflexivity. Qed.
Lemma release_now s : now (release s) = now s.
Proof. unfold release. destruct (queue s); reflexivity. Qed.
Lemma release_gate s : gate (release s) = gate s.
Proof. unfold release. destruct (queue s); reflexivity. Qed.

(* ---------- a running caller is polled ---------- *)
Lemma poll_running_inv c s i b z :
  Inv c s -> cs s i = Running -> Inv c (fst (poll_running s i b z)).
Proof.
  intros [HG HC] Hrun. unfold poll_running. destruct (gate s i) as [o|]; cbn [fst]; [|split; assumption].
  destruct (HC i) as [Hwi Hri _ _ Hai].
  assert (Hin : In i (running s)) by (apply Hri; exact Hrun).
  assert (Hnw : ~ is_waiting (cs s i)) by (rewrite Hrun; intros [dl H]; discriminate).
  set (s1 := mkSt _ _ _ _ _ _ _ _ _ _).
  assert (HG1 : G c 1 s1).
  { destruct HG as [Hc Hq Hg Hr Hd Hf]. constructor; cbn; try assumption.
    - pose proof (length_remove_id i (running s) Hr Hin). lia.
    - apply nodup_remove_id. exact Hr. }
  assert (HC1 : forall j, Cj c s1 j).
  { intros j. destruct (HC j) as [Hw Hr He Hd Ha]. constructor; cbn.
    - destruct (Nat.eq_dec j i) as [->|Hne].
      + rewrite upd_same. split; [intros H; exfalso; apply Hnw; apply Hwi; exact H|].
        intros [dl H]; discriminate.
      + rewrite upd_other by exact Hne. exact Hw.
    - rewrite in_remove_id. destruct (Nat.eq_dec j i) as [->|Hne].
      + rewrite upd_same. split; [intros [_ H]; congruence|discriminate].
      + rewrite upd_other by exact Hne. rewrite Hr. tauto.
    - destruct (Nat.eq_dec j i) as [->|Hne].
      + rewrite upd_same. intros [H|[dl H]]; discriminate.
      + rewrite upd_other by exact Hne. exact He.
    - destruct (Nat.eq_dec j i) as [->|Hne].
      + rewrite upd_same. discriminate.
      + rewrite upd_other by exact Hne. exact Hd.
    - exact Ha. }
  split; [apply release_G; exact HG1|intros j; apply release_C; apply HC1].
Qed.

(* ---------- a caller holding a permit starts its inner call ---------- *)
(* [s] is the state in which the permit has been taken (k = 1) and caller i is in no list *)
Lemma start_inv c s i :
  G c 1 s -> (forall j, j <> i -> Cj c s j) ->
  ~ In i (queue s) -> ~ In i (granted s) -> ~ In i (running s) ->
  (forall a, arrival s i = Some a -> a <= now s) ->
  Inv c (fst (start s i)).
Proof.
  intros HG HC Hq Hg Hr Hai. unfold start.
  set (s1 := mkSt _ _ _ _ _ _ _ _ _ _).
  assert (Hinv1 : Inv c s1).
  { split.
    - destruct HG as [Hc Hndq Hndg Hndr Hd Hf]. constructor; cbn; try assumption.
      + lia.
      + constructor; assumption.
    - intros j. destruct (Nat.eq_dec j i) as [->|Hne].
      + constructor; cbn; rewrite ?upd_same.
        * split; [intros [H|H]; contradiction|intros [dl H]; discriminate].
        * split; [reflexivity|intros _; left; reflexivity].
        * intros [H|[dl H]]; discriminate.
        * discriminate.
        * exact Hai.
      + destruct (HC j Hne) as [Hw Hrr He Hd Ha]. constructor; cbn; rewrite ?upd_other in * by exact Hne.
        * exact Hw.
        * rewrite <- Hrr. split; [intros [H|H]; [congruence|exact H]|intros H; right; exact H].
        * exact He.
        * exact Hd.
        * exact Ha. }
  apply poll_running_inv; [exact Hinv1|]. cbn. apply upd_same.
Qed.

(* ---------- poll ---------- *)
Ltac solve_arr H :=
  first [exact H | (let a := fresh in let Hx := fresh in intros a Hx; inversion Hx; lia)
        | (let a := fresh in let Hx := fresh in intros a Hx; apply H; cbn; rewrite ?upd_same; exact Hx)].

Lemma poll_inv c s i : Inv c s -> Inv c (fst (poll c s i)).
Proof.
  intros [HG HC]. unfold poll.
  set (s' := mkSt (now s) (free s) (queue s) (granted s) (running s) (cs s) (gate s)
                  (upd (woken s) i false) (entered s) _).
  assert (HG' : G c 0 s') by (destruct HG; constructor; assumption).
  assert (HC' : forall j, j <> i -> Cj c s' j).
  { intros j Hne. destruct (HC j) as [Hw Hr He Hd Ha]. constructor; cbn; try assumption.
    - intros d Hd'. destruct (Hd d Hd') as [a [w [H1 H2]]]. exists a, w. split; [|exact H2].
      destruct (cs s i); try exact H1; rewrite upd_other by exact Hne; exact H1.
    - intros a. destruct (cs s i); try apply Ha; rewrite upd_other by exact Hne; apply Ha. }
  assert (Harr : forall a, arrival s' i = Some a -> a <= now s).
  { intros a. cbn. destruct (HC i) as [_ _ _ _ Ha]. destruct (cs s i); try apply Ha.
    rewrite upd_same. intros H. inversion H. lia. }
  assert (HCi : Cj c s' i).
  { destruct (HC i) as [Hw Hr He Hd Ha]. constructor; cbn; try assumption.
    - intros d Hd'. destruct (Hd d Hd') as [a [w [H1 H2]]]. exists a, w. split; [|exact H2].
      rewrite Hd'. exact H1. }
  assert (Hinv' : Inv c s') by (split; [exact HG'|intros j; destruct (Nat.eq_dec j i) as [->|Hne]; [exact HCi|apply HC'; exact Hne]]).
  assert (Hac : cs s i = Created -> arrival s' i = Some (now s))
    by (intros H; cbn; rewrite H; apply upd_same).
  change (cs s' i) with (cs s i).
  destruct (HC i) as [Hwi Hri Hei Hdi Hai].
  destruct (cs s i) as [|dl| | |] eqn:Ecs.
  - (* Created *)
    assert (Hnq : ~ In i (queue s) /\ ~ In i (granted s)).
    { split; intros H; assert (Hw : is_waiting Created) by (apply Hwi; tauto);
        destruct Hw as [dl H']; discriminate. }
    assert (Hnr : ~ In i (running s)) by (intros H; apply Hri in H; discriminate).
    change (free s') with (free s).
    destruct (free s) as [|f] eqn:Ef.
    + (* no permit *)
      assert (Hstep : forall dl0,
                (forall d, dl0 = Some d -> exists w, max_wait c = Some w /\ d = ceil_ms (now s + w)) ->
                Inv c (mkSt (now s') (free s') (queue s' ++ [i]) (granted s') (running s')
                            (upd (cs s') i (Waiting dl0)) (gate s') (woken s') (entered s') (arrival s'))).
      { intros dl0 Hdl0. split.
        - destruct HG' as [Hc Hndq Hndg Hndr Hd Hf]. constructor; cbn in *; try assumption.
          + apply nodup_snoc; [exact Hndq|tauto].
          + intros j. rewrite in_app_iff. intros [Hj|[->|[]]]; [apply Hd; exact Hj|tauto].
          + intros Hpos. lia.
        - intros j. destruct (Nat.eq_dec j i) as [->|Hne].
          + constructor; cbn; rewrite ?upd_same.
            * split; [intros _; eexists; reflexivity|intros _; left; rewrite in_app_iff; right; left; reflexivity].
            * split; [intros H; contradiction|discriminate].
            * intros _. apply Hei. left. reflexivity.
            * intros d Hd'. inversion Hd'; subst. destruct (Hdl0 d eq_refl) as [w [Hw Hd]].
              exists (now s), w. split; [first [reflexivity|apply Hac; reflexivity]|split; assumption].
            * solve_arr Harr.
          + destruct (HC' j Hne) as [Hw Hr He Hd Ha]. constructor; cbn in *; rewrite ?upd_other in * by exact Hne; try assumption.
            rewrite <- Hw. rewrite in_app_iff. cbn. split; [intros [[H|[H|[]]]|H]; [tauto|congruence|tauto]|tauto]. }
      destruct (max_wait c) as [w|] eqn:Emw.
      * cbv zeta. change (now s') with (now s).
        destruct (ceil_ms (now s + w) <=? now s) eqn:Ew; cbn [fst].
        -- split.
           ++ destruct HG' as [Hc Hndq Hndg Hndr Hd Hf]. constructor; cbn in *; assumption.
           ++ intros j. destruct (Nat.eq_dec j i) as [->|Hne].
              ** constructor; cbn; rewrite ?upd_same.
                 --- split; [intros [H|H]; tauto|intros [dl H]; discriminate].
                 --- split; [intros H; contradiction|discriminate].
                 --- intros [H|[dl H]]; discriminate.
                 --- discriminate.
                 --- solve_arr Harr.
              ** destruct (HC' j Hne) as [Hw Hr He Hd Ha]. constructor; cbn in *; rewrite ?upd_other in * by exact Hne; assumption.
        -- apply Hstep. intros d Hd. inversion Hd. exists w. split; reflexivity.
      * cbn [fst]. apply Hstep. discriminate.
    + (* a permit is free: take it and start *)
      apply start_inv; cbn.
      * destruct HG as [Hc Hndq Hndg Hndr Hd Hf]. constructor; cbn; try assumption.
        -- lia.
        -- intros _. apply Hf. lia.
      * intros j Hne. destruct (HC' j Hne) as [Hw Hr He Hd Ha]. constructor; cbn in *; assumption.
      * tauto.
      * tauto.
      * exact Hnr.
      * solve_arr Harr.
  - (* Waiting *)
    assert (Hnr : ~ In i (running s)) by (intros H; apply Hri in H; discriminate).
    change (granted s') with (granted s).
    destruct (mem i (granted s)) eqn:Emem.
    + apply mem_In in Emem.
      assert (Hnq : ~ In i (queue s)) by (intros H; destruct HG as [_ _ _ _ Hd _]; exact (Hd i H Emem)).
      apply start_inv; cbn.
      * destruct HG as [Hc Hndq Hndg Hndr Hd Hf]. constructor; cbn; try assumption.
        -- pose proof (length_remove_id i (granted s) Hndg Emem). lia.
        -- apply nodup_remove_id. exact Hndg.
        -- intros j Hj. rewrite in_remove_id. intros [Hjg _]. exact (Hd j Hj Hjg).
      * intros j Hne. destruct (HC' j Hne) as [Hw Hr He Hd Ha]. constructor; cbn in *; try assumption.
        rewrite <- Hw. rewrite in_remove_id. tauto.
      * exact Hnq.
      * rewrite in_remove_id. tauto.
      * exact Hnr.
      * solve_arr Harr.
    + apply mem_false in Emem.
      assert (Hq : In i (queue s)).
      { assert (Hw : is_waiting (Waiting dl)) by (eexists; reflexivity). apply Hwi in Hw. tauto. }
      assert (Hto : Inv c (mkSt (now s') (free s') (remove_id i (queue s')) (granted s') (running s')
                                (upd (cs s') i Done) (gate s') (woken s') (entered s') (arrival s'))).
      { split.
        - destruct HG' as [Hc Hndq Hndg Hndr Hd Hf]. constructor; cbn in *; try assumption.
          + apply nodup_remove_id. exact Hndq.
          + intros j. rewrite in_remove_id. intros [Hj _]. apply Hd. exact Hj.
          + intros Hpos. rewrite (Hf Hpos). reflexivity.
        - intros j. destruct (Nat.eq_dec j i) as [->|Hne].
          + constructor; cbn; rewrite ?upd_same.
            * split; [rewrite in_remove_id; intros [[_ H]|H]; tauto|intros [dl' H]; discriminate].
            * split; [intros H; contradiction|discriminate].
            * intros [H|[dl' H]]; discriminate.
            * discriminate.
            * solve_arr Harr.
          + destruct (HC' j Hne) as [Hw Hr He Hd Ha]. constructor; cbn in *; rewrite ?upd_other in * by exact Hne; try assumption.
            rewrite <- Hw. rewrite in_remove_id. tauto. }
      destruct dl as [d|]; [destruct (d <=? now s')|]; cbn [fst]; [exact Hto|exact Hinv'|exact Hinv'].
  - (* Running *)
    apply poll_running_inv; [exact Hinv'|exact Ecs].
  - exact Hinv'.
  - exact Hinv'.
Qed.

(* ---------- drop ---------- *)
Lemma drop_inv c s i : Inv c s -> Inv c (drop s i).
Proof.
  intros [HG HC]. unfold drop.
  set (s' := mkSt (now s) (free s) (queue s) (granted s) (running s) (cs s) (gate s)
                  (upd (woken s) i false) (entered s) (arrival s)).
  assert (HG' : G c 0 s') by (destruct HG; constructor; assumption).
  assert (HC' : forall j, Cj c s' j) by (intros j; destruct (HC j); constructor; assumption).
  change (cs s' i) with (cs s i).
  destruct (HC i) as [Hwi Hri Hei Hdi Hai].
  destruct (cs s i) as [|dl| | |] eqn:Ecs.
  - (* Created *)
    split; [destruct HG'; constructor; assumption|].
    intros j. destruct (Nat.eq_dec j i) as [->|Hne].
    + constructor; cbn; rewrite ?upd_same.
      * split; [intros H; apply Hwi in H; destruct H as [dl H]; discriminate|intros [dl H]; discriminate].
      * split; [intros H; apply Hri in H; discriminate|discriminate].
      * intros [H|[dl H]]; discriminate.
      * discriminate.
      * exact Hai.
    + destruct (HC' j) as [Hw Hr He Hd Ha]. constructor; cbn in *; rewrite ?upd_other in * by exact Hne; assumption.
  - (* Waiting *)
    assert (Hnr : ~ In i (running s)) by (intros H; apply Hri in H; discriminate).
    change (granted s') with (granted s).
    destruct (mem i (granted s)) eqn:Emem.
    + apply mem_In in Emem.
      assert (Hnq : ~ In i (queue s)) by (intros H; destruct HG as [_ _ _ _ Hd _]; exact (Hd i H Emem)).
      split.
      * apply release_G. destruct HG as [Hc Hndq Hndg Hndr Hd Hf]. constructor; cbn; try assumption.
        -- pose proof (length_remove_id i (granted s) Hndg Emem). lia.
        -- apply nodup_remove_id. exact Hndg.
        -- intros j Hj. rewrite in_remove_id. intros [Hjg _]. exact (Hd j Hj Hjg).
      * intros j. apply release_C. destruct (Nat.eq_dec j i) as [->|Hne].
        -- constructor; cbn; rewrite ?upd_same.
           ++ split; [rewrite in_remove_id; intros [H|[_ H]]; tauto|intros [dl' H]; discriminate].
           ++ split; [intros H; contradiction|discriminate].
           ++ intros [H|[dl' H]]; discriminate.
           ++ discriminate.
           ++ exact Hai.
        -- destruct (HC' j) as [Hw Hr He Hd Ha]. constructor; cbn in *; rewrite ?upd_other in * by exact Hne; try assumption.
           rewrite <- Hw. rewrite in_remove_id. tauto.
    + apply mem_false in Emem. split.
      * destruct HG' as [Hc Hndq Hndg Hndr Hd Hf]. constructor; cbn in *; try assumption.
        -- apply nodup_remove_id. exact Hndq.
        -- intros j. rewrite in_remove_id. intros [Hj _]. apply Hd. exact Hj.
        -- intros Hpos. rewrite (Hf Hpos). reflexivity.
      * intros j. destruct (Nat.eq_dec j i) as [->|Hne].
        -- constructor; cbn; rewrite ?upd_same.
           ++ split; [rewrite in_remove_id; intros [[_ H]|H]; tauto|intros [dl' H]; discriminate].
           ++ split; [intros H; contradiction|discriminate].
           ++ intros [H|[dl' H]]; discriminate.
           ++ discriminate.
           ++ exact Hai.
        -- destruct (HC' j) as [Hw Hr He Hd Ha]. constructor; cbn in *; rewrite ?upd_other in * by exact Hne; try assumption.
           rewrite <- Hw. rewrite in_remove_id. tauto.
  - (* Running *)
    assert (Hin : In i (running s)) by (apply Hri; reflexivity).
    assert (Hnw : ~ (In i (queue s) \/ In i (granted s))).
    { intros H. apply Hwi in H. destruct H as [dl H]. discriminate. }
    split.
    + apply release_G. destruct HG as [Hc Hndq Hndg Hndr Hd Hf]. constructor; cbn; try assumption.
      * pose proof (length_remove_id i (running s) Hndr Hin). lia.
      * apply nodup_remove_id. exact Hndr.
    + intros j. apply release_C. destruct (Nat.eq_dec j i) as [->|Hne].
      * constructor; cbn; rewrite ?upd_same.
        -- split; [intros H; tauto|intros [dl' H]; discriminate].
        -- split; [rewrite in_remove_id; intros [_ H]; congruence|discriminate].
        -- intros [H|[dl' H]]; discriminate.
        -- discriminate.
        -- exact Hai.
      * destruct (HC' j) as [Hw Hr He Hd Ha]. constructor; cbn in *; rewrite ?upd_other in * by exact Hne; try assumption.
        rewrite <- Hr. rewrite in_remove_id. tauto.
  - split; assumption.
  - split; assumption.
Qed.

Lemma advance_inv c s d : Inv c s -> Inv c (advance s d).
Proof.
  intros [HG HC]. split.
  - destruct HG; constructor; assumption.
  - intros j. destruct (HC j) as [Hw Hr He Hd Ha]. constructor; cbn; try assumption.
    intros a H. specialize (Ha a H). lia.
Qed.

Lemma complete_inv c s i o : Inv c s -> Inv c (complete s i o).
Proof.
  intros [HG HC]. unfold complete. destruct (gate s i); [split; assumption|]. split.
  - destruct HG; constructor; assumption.
  - intros j. destruct (HC j); constructor; assumption.
Qed.

Lemma step_inv c s e : Inv c s -> Inv c (step_st c s e).
Proof.
  intros H. unfold step_st, step. destruct e; cbn [fst].
  - apply poll_inv. exact H.
  - apply drop_inv. exact H.
  - apply advance_inv. exact H.
  - apply complete_inv. exact H.
Qed.

Lemma reach_Inv c evs : Forall (Inv c) (states (step_st c) (init c) evs).
Proof. apply reach_inv; [apply inv_init|intros s e; apply step_inv]. Qed.

(* ---------- consequences ---------- *)
Definition inflight (s : st) : nat := length (running s).

(* C01: the callers inside the inner service are exactly the Running ones, each once,
   and there are at most cap of them *)
Lemma inflight_le_cap c evs :
  Forall (fun s => (inflight s <= cap c)%nat /\ NoDup (running s) /\
                   (forall i, In i (running s) <-> cs s i = Running))
         (states (step_st c) (init c) evs).
Proof.
  eapply Forall_impl; [|apply reach_Inv]. intros s [HG HC]. unfold inflight.
  destruct HG as [Hc _ _ Hr _ _]. repeat split; try lia; try assumption; apply (HC i).
Qed.

Lemma conservation c evs :
  Forall (fun s => (free s + length (granted s) + inflight s = cap c)%nat)
         (states (step_st c) (init c) evs).
Proof.
  eapply Forall_impl; [|apply reach_Inv]. intros s [[Hc _ _ _ _ _] _]. unfold inflight. lia.
Qed.

Definition idle (s : st) : Prop :=
  forall i, cs s i <> Running /\ ~ is_waiting (cs s i).

Lemma no_leak c evs :
  Forall (fun s => idle s -> free s = cap c) (states (step_st c) (init c) evs).
Proof.
  eapply Forall_impl; [|apply reach_Inv]. intros s [[Hc _ _ _ _ _] HC] Hidle.
  assert (Hr : running s = []).
  { destruct (running s) as [|x t] eqn:E; [reflexivity|]. exfalso.
    destruct (HC x) as [_ Hr _ _ _]. apply (proj1 (Hidle x)). apply Hr. rewrite E. left. reflexivity. }
  assert (Hg : granted s = []).
  { destruct (granted s) as [|x t] eqn:E; [reflexivity|]. exfalso.
    destruct (HC x) as [Hw _ _ _ _]. apply (proj2 (Hidle x)). apply Hw. right. rewrite E. left. reflexivity. }
  rewrite Hr, Hg in Hc. cbn in Hc. lia.
Qed.

(* a fresh caller arriving while fewer than cap are in flight and nobody is queued
   (neither waiting nor holding an undelivered grant) enters in its first poll *)
Lemma immediate c s i :
  Inv c s -> (inflight s < cap c)%nat -> queue s = [] -> granted s = [] -> cs s i = Created ->
  started (snd (poll c s i)) = true /\ entered (fst (poll c s i)) i = true.
Proof.
  intros [[Hc _ _ _ _ _] _] Hlt Hq Hg Hcr. unfold inflight in Hlt. rewrite Hg in Hc. cbn in Hc.
  unfold poll. cbn. rewrite Hcr.
  destruct (free s) as [|f] eqn:Ef; [lia|].
  unfold start, poll_running. cbn. destruct (gate s i); cbn.
  - rewrite release_entered. cbn. split; [reflexivity|apply upd_same].
  - split; [reflexivity|apply upd_same].
Qed.

(* the only bulkhead error is Timeout, never before arrival + max_wait, and the
   rejected caller has not entered the inner service *)
Lemma reject_only_by_timeout c s i :
  Inv c s ->
  let s' := fst (poll c s i) in let o := snd (poll c s i) in
  r o <> 4 /\
  (r o = 3 ->
     exists w a, max_wait c = Some w /\ arrival s' i = Some a /\ a + w <= now s /\
                 started o = false /\ entered s' i = false /\ cs s' i = Done /\
                 ~ In i (running s')).
Proof.
  intros [HG HC]. cbn zeta. destruct (HC i) as [Hwi Hri Hei Hdi Hai].
  unfold poll. cbn. destruct (cs s i) as [|dl| | |] eqn:Ecs.
  - destruct (free s) as [|f].
    + destruct (max_wait c) as [w|] eqn:Emw.
      * destruct (ceil_ms (now s + w) <=? now s) eqn:Ew; cbn.
        -- split; [discriminate|]. intros _. exists w, (now s). rewrite upd_same.
           apply Z.leb_le in Ew. pose proof (ceil_ms_ge (now s + w)) as Hce.
           repeat split; try reflexivity; try lia.
           ++ apply Hei. left. reflexivity.
           ++ apply upd_same.
           ++ intros H. apply Hri in H. discriminate.
        -- split; discriminate.
      * cbn. split; discriminate.
    + unfold start, poll_running. cbn. destruct (gate s i) as [[]|]; cbn; split; discriminate.
  - destruct (mem i (granted s)) eqn:Emem.
    + unfold start, poll_running. cbn. destruct (gate s i) as [[]|]; cbn; split; discriminate.
    + destruct dl as [d|]; [|cbn; split; discriminate].
      destruct (d <=? now s) eqn:Ed; cbn; [|split; discriminate].
      split; [discriminate|]. intros _.
      destruct (Hdi d eq_refl) as [a [w [Ha [Hw Hd]]]]. exists w, a.
      apply Z.leb_le in Ed. pose proof (ceil_ms_ge (a + w)) as Hce.
      repeat split; try assumption; try lia.
      * apply Hei. right. eexists. reflexivity.
      * apply upd_same.
      * intros H. apply Hri in H. discriminate.
  - unfold poll_running. cbn. destruct (gate s i) as [[]|]; cbn; split; discriminate.
  - cbn. split; discriminate.
  - cbn. split; discriminate.
Qed.

(* every poll of a waiter that has not been handed a permit, at or after its deadline, rejects *)
Lemma deadline_rejects c s i d :
  cs s i = Waiting (Some d) -> ~ In i (granted s) -> d <= now s ->
  r (snd (poll c s i)) = 3.
Proof.
  intros Hcs Hg Hd. unfold poll. cbn. rewrite Hcs. apply mem_false in Hg. rewrite Hg.
  apply Z.leb_le in Hd. rewrite Hd. reflexivity.
Qed.

(* ... and the waiter is woken by its timer exactly when the clock reaches the deadline *)
Lemma timer_wakes s i d dd :
  cs s i = Waiting (Some d) -> now s < d -> d <= now s + dd ->
  woken (advance s dd) i = true.
Proof.
  intros Hcs H1 H2. unfold advance. cbn. unfold timer_fires. rewrite Hcs.
  apply Bool.orb_true_iff. right. apply andb_true_intro. split.
  - apply Z.ltb_lt. exact H1.
  - apply Z.leb_le. lia.
Qed.

(* the deadline of a waiter is its arrival plus max_wait, rounded up to the timer's
   millisecond tick: never early, less than 1 ms late, exact on whole-millisecond values *)
Lemma deadline_is_arrival_plus_wait c evs :
  Forall (fun s => forall i d, cs s i = Waiting (Some d) ->
                     exists a w, arrival s i = Some a /\ max_wait c = Some w /\
                                 d = ceil_ms (a + w) /\ a + w <= d < a + w + MS /\
                                 (forall k, a + w = k * MS -> d = a + w))
         (states (step_st c) (init c) evs).
Proof.
  eapply Forall_impl; [|apply reach_Inv]. intros s [_ HC] i d H.
  destruct (HC i) as [_ _ _ Hd _]. destruct (Hd d H) as [a [w [Ha [Hw Hdd]]]].
  exists a, w. repeat split; try assumption.
  - subst d. apply ceil_ms_ge.
  - subst d. apply ceil_ms_lt.
  - intros k Hk. subst d. rewrite Hk. apply ceil_ms_whole.
Qed.

(* a request never reaches the inner service after its caller was rejected or dropped:
   [entered] can only change for a caller that is Created or Waiting *)
Lemma entered_stable c s e i :
  (cs s i = Done \/ cs s i = Dropped) ->
  entered (step_st c s e) i = entered s i /\
  (cs (step_st c s e) i = cs s i).
Proof.
  intros Hfin. unfold step_st, step. destruct e as [j|j|d|j o]; cbn [fst].
  - unfold poll. cbn. destruct (Nat.eq_dec j i) as [->|Hne].
    + destruct Hfin as [H|H]; rewrite H; cbn; split; congruence.
    + assert (Hu : forall A (f : nat -> A) v, upd f j v i = f i) by (intros; apply upd_other; congruence).
      destruct (cs s j) as [|dl| | |].
      * destruct (free s).
        -- destruct (max_wait c) as [w|]; [case_tick|]; cbn; rewrite ?Hu; split; reflexivity.
        -- unfold start, poll_running. cbn. destruct (gate s j); cbn;
             rewrite ?release_entered, ?release_cs; cbn; rewrite ?Hu; split; reflexivity.
      * destruct (mem j (granted s)).
        -- unfold start, poll_running. cbn. destruct (gate s j); cbn;
             rewrite ?release_entered, ?release_cs; cbn; rewrite ?Hu; split; reflexivity.
        -- destruct dl as [d|]; [destruct (d <=? now s)|]; cbn; rewrite ?Hu; split; reflexivity.
      * unfold poll_running. cbn. destruct (gate s j); cbn;
          rewrite ?release_entered, ?release_cs; cbn; rewrite ?Hu; split; reflexivity.
      * cbn. split; reflexivity.
      * cbn. split; reflexivity.
  - unfold drop. cbn. destruct (Nat.eq_dec j i) as [->|Hne].
    + destruct Hfin as [H|H]; rewrite H; cbn; split; congruence.
    + assert (Hu : forall A (f : nat -> A) v, upd f j v i = f i) by (intros; apply upd_other; congruence).
      destruct (cs s j) as [|dl| | |]; cbn; rewrite ?Hu; try (split; reflexivity).
      * destruct (mem j (granted s)); rewrite ?release_entered, ?release_cs; cbn; rewrite ?Hu; split; reflexivity.
      * rewrite ?release_entered, ?release_cs. cbn. rewrite ?Hu. split; reflexivity.
  - cbn. split; reflexivity.
  - unfold complete. destruct (gate s j); cbn; split; reflexivity.
Qed.

(* a caller dropped before it was admitted (before its first poll or while waiting)
   has not entered the inner service *)
Lemma cancelled_waiting_never_entered c s i :
  Inv c s -> (cs s i = Created \/ is_waiting (cs s i)) ->
  entered (drop s i) i = false /\ cs (drop s i) i = Dropped.
Proof.
  intros [HG HC] Hst. destruct (HC i) as [_ _ Hei _ _]. specialize (Hei Hst).
  unfold drop. cbn. destruct Hst as [H|[dl H]]; rewrite H.
  - cbn. split; [exact Hei|apply upd_same].
  - destruct (mem i (granted s)); rewrite ?release_entered, ?release_cs; cbn;
      (split; [exact Hei|apply upd_same]).
Qed.

(* non-vacuity: a concrete reachable state with a queued waiter past its deadline *)
Example ex_reject :
  let c := {| cap := 1%nat; max_wait := Some 10000000 |} in    (* 10 ms *)
  let s := fold_left (step_st c) [Poll 0%nat; Poll 1%nat; Advance 10000000] (init c) in
  cs s 1%nat = Waiting (Some 10000000) /\ ~ In 1%nat (granted s) /\ r (snd (poll c s 1%nat)) = 3 /\ inflight s = 1%nat.
Proof. vm_compute. repeat split; try reflexivity. intros []. Qed.

(* ---------- two more invariants ---------- *)
Definition Wk (s : st) : Prop := forall j, In j (granted s) -> woken s j = true.
Definition En (s : st) : Prop := forall j, cs s j = Running -> entered s j = true.

Lemma release_Wk s : Wk s -> Wk (release s).
Proof.
  intros H. unfold release. destruct (queue s) as [|h q]; intros j; cbn.
  - apply H.
  - rewrite in_app_iff. intros [Hj|[->|[]]].
    + destruct (Nat.eq_dec j h) as [->|Hne]; [apply upd_same|rewrite upd_other by exact Hne; apply H; exact Hj].
    + apply upd_same.
Qed.

Lemma poll_running_Wk s i b z : Wk s -> Wk (fst (poll_running s i b z)).
Proof.
  intros H. unfold poll_running. destruct (gate s i); cbn [fst]; [|exact H].
  apply release_Wk. exact H.
Qed.

Lemma start_Wk s i : Wk s -> Wk (fst (start s i)).
Proof. intros H. unfold start. apply poll_running_Wk. exact H. Qed.

Lemma not_granted_unless_waiting c s i :
  Inv c s -> ~ is_waiting (cs s i) -> ~ In i (granted s).
Proof. intros [_ HC] Hn Hi. apply Hn. apply (HC i). right. exact Hi. Qed.

Lemma Wk_clear s i s2 : Wk s -> ~ In i (granted s) ->
  granted s2 = granted s -> woken s2 = upd (woken s) i false -> Wk s2.
Proof.
  intros H Hi Hg Hw j Hj. rewrite Hg in Hj. rewrite Hw.
  rewrite upd_other; [apply H; exact Hj|]. intros ->. contradiction.
Qed.

Lemma poll_Wk c s i : Inv c s -> Wk s -> Wk (fst (poll c s i)).
Proof.
  intros HI HW. unfold poll.
  set (s' := mkSt (now s) (free s) (queue s) (granted s) (running s) (cs s) (gate s)
                  (upd (woken s) i false) (entered s) _).
  change (cs s' i) with (cs s i).
  destruct (cs s i) as [|dl| | |] eqn:Ecs.
  - assert (HW' : Wk s').
    { apply (Wk_clear s i); [exact HW| |reflexivity|reflexivity]. apply (not_granted_unless_waiting c); [exact HI|].
      rewrite Ecs. intros [dl H]; discriminate. }
    change (free s') with (free s). destruct (free s) as [|f].
    + destruct (max_wait c) as [w|]; [case_tick|]; cbn [fst]; exact HW'.
    + apply start_Wk. exact HW'.
  - change (granted s') with (granted s). destruct (mem i (granted s)) eqn:Emem.
    + apply start_Wk. intros j. cbn. rewrite in_remove_id. intros [Hj Hne].
      rewrite upd_other by exact Hne. apply HW. exact Hj.
    + apply mem_false in Emem. assert (HW' : Wk s') by (apply (Wk_clear s i); [exact HW|exact Emem|reflexivity|reflexivity]).
      destruct dl as [d|]; [destruct (d <=? now s')|]; cbn [fst]; exact HW'.
  - apply poll_running_Wk. apply (Wk_clear s i); [exact HW| |reflexivity|reflexivity].
    apply (not_granted_unless_waiting c); [exact HI|]. rewrite Ecs. intros [dl H]; discriminate.
  - cbn [fst]. apply (Wk_clear s i); [exact HW| |reflexivity|reflexivity].
    apply (not_granted_unless_waiting c); [exact HI|]. rewrite Ecs. intros [dl H]; discriminate.
  - cbn [fst]. apply (Wk_clear s i); [exact HW| |reflexivity|reflexivity].
    apply (not_granted_unless_waiting c); [exact HI|]. rewrite Ecs. intros [dl H]; discriminate.
Qed.

Lemma drop_Wk c s i : Inv c s -> Wk s -> Wk (drop s i).
Proof.
  intros HI HW. unfold drop.
  set (s' := mkSt (now s) (free s) (queue s) (granted s) (running s) (cs s) (gate s)
                  (upd (woken s) i false) (entered s) (arrival s)).
  change (cs s' i) with (cs s i).
  assert (Hng : ~ is_waiting (cs s i) -> Wk s').
  { intros Hn. apply (Wk_clear s i); [exact HW| |reflexivity|reflexivity]. apply (not_granted_unless_waiting c); assumption. }
  destruct (cs s i) as [|dl| | |] eqn:Ecs.
  - apply Hng. intros [dl H]; discriminate.
  - change (granted s') with (granted s). destruct (mem i (granted s)) eqn:Emem.
    + apply release_Wk. intros j. cbn. rewrite in_remove_id. intros [Hj Hne].
      rewrite upd_other by exact Hne. apply HW. exact Hj.
    + apply mem_false in Emem. apply (Wk_clear s i); [exact HW|exact Emem|reflexivity|reflexivity].
  - apply release_Wk. apply Hng. intros [dl H]; discriminate.
  - apply Hng. intros [dl H]; discriminate.
  - apply Hng. intros [dl H]; discriminate.
Qed.

Lemma advance_Wk s d : Wk s -> Wk (advance s d).
Proof. intros H j Hj. cbn. rewrite (H j Hj). reflexivity. Qed.

Lemma complete_Wk s i o : Wk s -> Wk (complete s i o).
Proof.
  intros H. unfold complete. destruct (gate s i); [exact H|]. intros j Hj. cbn in *.
  destruct (cs s i); try (apply H; exact Hj).
  destruct (Nat.eq_dec j i) as [->|Hne]; [apply upd_same|rewrite upd_other by exact Hne; apply H; exact Hj].
Qed.

(* En *)
Lemma release_En s : En s -> En (release s).
Proof. intros H j. rewrite release_cs, release_entered. apply H. Qed.

Lemma poll_running_En s i b z : En s -> En (fst (poll_running s i b z)).
Proof.
  intros H. unfold poll_running. destruct (gate s i); cbn [fst]; [|exact H].
  apply release_En. intros j. cbn. destruct (Nat.eq_dec j i) as [->|Hne].
  - rewrite upd_same. discriminate.
  - rewrite upd_other by exact Hne. apply H.
Qed.

Lemma start_En s i : En s -> En (fst (start s i)).
Proof.
  intros H. unfold start. apply poll_running_En. intros j. cbn.
  destruct (Nat.eq_dec j i) as [->|Hne].
  - rewrite !upd_same. reflexivity.
  - rewrite !upd_other by exact Hne. apply H.
Qed.

Lemma En_upd s s2 i x :
  x <> Running -> cs s2 = upd (cs s) i x -> entered s2 = entered s -> En s -> En s2.
Proof.
  intros Hx Hc He H j. rewrite Hc, He. destruct (Nat.eq_dec j i) as [->|Hne].
  - rewrite upd_same. intros; contradiction.
  - rewrite upd_other by exact Hne. apply H.
Qed.

Lemma En_same s s2 : cs s2 = cs s -> entered s2 = entered s -> En s -> En s2.
Proof. intros Hc He H j. rewrite Hc, He. apply H. Qed.

Lemma poll_En c s i : En s -> En (fst (poll c s i)).
Proof.
  intros H. unfold poll.
  set (s' := mkSt (now s) (free s) (queue s) (granted s) (running s) (cs s) (gate s)
                  (upd (woken s) i false) (entered s) _).
  assert (H' : En s') by exact H.
  change (cs s' i) with (cs s i).
  destruct (cs s i) as [|dl| | |] eqn:Ecs.
  - change (free s') with (free s). destruct (free s) as [|f].
    + destruct (max_wait c) as [w|]; [case_tick|]; cbn [fst];
        (eapply En_upd; [| reflexivity | reflexivity | exact H']); discriminate.
    + apply start_En. exact H'.
  - change (granted s') with (granted s). destruct (mem i (granted s)).
    + apply start_En. exact H'.
    + destruct dl as [d|]; [destruct (d <=? now s')|]; cbn [fst]; try exact H'.
      eapply En_upd; [| reflexivity | reflexivity | exact H']; discriminate.
  - apply poll_running_En. exact H'.
  - exact H'.
  - exact H'.
Qed.

Lemma drop_En s i : En s -> En (drop s i).
Proof.
  intros H. unfold drop.
  set (s' := mkSt (now s) (free s) (queue s) (granted s) (running s) (cs s) (gate s)
                  (upd (woken s) i false) (entered s) (arrival s)).
  assert (H' : En s') by exact H.
  change (cs s' i) with (cs s i).
  destruct (cs s i) as [|dl| | |] eqn:Ecs; try exact H'.
  - eapply En_upd; [| reflexivity | reflexivity | exact H']; discriminate.
  - change (granted s') with (granted s). destruct (mem i (granted s)); [apply release_En|];
      (eapply En_upd; [| reflexivity | reflexivity | exact H']); discriminate.
  - apply release_En. eapply En_upd; [| reflexivity | reflexivity | exact H']; discriminate.
Qed.

Lemma advance_En s d : En s -> En (advance s d).
Proof. intros H. exact H. Qed.

Lemma complete_En s i o : En s -> En (complete s i o).
Proof. intros H. unfold complete. destruct (gate s i); exact H. Qed.

Definition Inv2 (c : cfg) (s : st) : Prop := Inv c s /\ Wk s /\ En s.

Lemma inv2_init c : Inv2 c (init c).
Proof.
  split; [apply inv_init|]. split.
  - intros j [].
  - intros j H. discriminate.
Qed.

Lemma step_inv2 c s e : Inv2 c s -> Inv2 c (step_st c s e).
Proof.
  intros [HI [HW HE]]. split; [apply step_inv; exact HI|].
  unfold step_st, step. destruct e; cbn [fst]; split.
  - apply (poll_Wk c); assumption.
  - apply poll_En; assumption.
  - apply (drop_Wk c); assumption.
  - apply drop_En; assumption.
  - apply advance_Wk; assumption.
  - apply advance_En; assumption.
  - apply complete_Wk; assumption.
  - apply complete_En; assumption.
Qed.

Lemma reach_Inv2 c evs : Forall (Inv2 c) (states (step_st c) (init c) evs).
Proof. apply reach_inv; [apply inv2_init|intros s e; apply step_inv2]. Qed.

(* ---------- observation histories ---------- *)
Fixpoint run_obs (c : cfg) (s : st) (evs : list ev) : list obs :=
  match evs with [] => [] | e :: t => snd (step c s e) :: run_obs c (step_st c s e) t end.

(* the poll returned the inner call's result: Ok, Err(Inner), or it panicked *)
Definition ended (o : obs) : bool := (r o =? 1) || (r o =? 2) || (r o =? 5).

(* the requests inside the inner service according to the observations alone: entered
   (an inner call was started for them) and not yet finished / failed / panicked / dropped *)
Definition inside_step (acc : list nat) (eo : ev * obs) : list nat :=
  match fst eo with
  | Poll i => let acc1 := if started (snd eo) then i :: acc else acc in
              if ended (snd eo) then remove_id i acc1 else acc1
  | Drop i => remove_id i acc
  | _ => acc
  end.

Definition history (c : cfg) (evs : list ev) : list (ev * obs) :=
  combine evs (run_obs c (init c) evs).

Definition inside (h : list (ev * obs)) : list nat := fold_left inside_step h [].

Lemma poll_running_inside s i b z :
  running (fst (poll_running s i b z)) =
    (if ended (snd (poll_running s i b z)) then remove_id i (running s) else running s) /\
  started (snd (poll_running s i b z)) = b.
Proof.
  unfold poll_running. destruct (gate s i) as [[]|]; cbn; rewrite ?release_running; cbn; split; reflexivity.
Qed.

Lemma step_inside c s e :
  Inv c s -> running (step_st c s e) = inside_step (running s) (e, snd (step c s e)).
Proof.
  intros [HG HC]. unfold step_st, step, inside_step. destruct e as [i|i|d|i o]; cbn [fst snd].
  - destruct (HC i) as [Hwi Hri _ _ _]. unfold poll. cbn.
    destruct (cs s i) as [|dl| | |] eqn:Ecs.
    + destruct (free s) as [|f].
      * destruct (max_wait c) as [w|]; [case_tick|]; reflexivity.
      * unfold start. match goal with |- context [poll_running ?s1 i true ?z] =>
          destruct (poll_running_inside s1 i true z) as [H1 H2]; rewrite H1, H2 end.
        reflexivity.
    + destruct (mem i (granted s)).
      * unfold start. match goal with |- context [poll_running ?s1 i true ?z] =>
          destruct (poll_running_inside s1 i true z) as [H1 H2]; rewrite H1, H2 end.
        reflexivity.
      * destruct dl as [d|]; [destruct (d <=? now s)|]; reflexivity.
    + match goal with |- context [poll_running ?s1 i false ?z] =>
        destruct (poll_running_inside s1 i false z) as [H1 H2]; rewrite H1, H2 end.
      reflexivity.
    + reflexivity.
    + reflexivity.
  - destruct (HC i) as [Hwi Hri _ _ _]. unfold drop. cbn.
    assert (Hn : cs s i <> Running -> running s = remove_id i (running s)).
    { intros H. symmetry. apply remove_id_notin. intros Hin. apply H. apply Hri. exact Hin. }
    destruct (cs s i) as [|dl| | |] eqn:Ecs.
    + cbn. apply Hn. discriminate.
    + destruct (mem i (granted s)); rewrite ?release_running; cbn; apply Hn; discriminate.
    + rewrite release_running. reflexivity.
    + cbn. apply Hn. discriminate.
    + cbn. apply Hn. discriminate.
  - reflexivity.
  - unfold complete. destruct (gate s i); reflexivity.
Qed.

Lemma running_is_history_from c evs : forall s, Inv c s ->
  running (fold_left (step_st c) evs s) =
  fold_left inside_step (combine evs (run_obs c s evs)) (running s).
Proof.
  induction evs as [|e t IH]; intros s HI; cbn [fold_left run_obs combine]; [reflexivity|].
  rewrite IH by (apply step_inv; exact HI). rewrite (step_inside c s e HI). reflexivity.
Qed.

(* C01, against the observation history: the requests that have entered the inner service and
   have not yet finished, failed, panicked or been dropped -- computed from the observations of
   the run alone -- are exactly the model's running list, after every history *)
Lemma running_is_history c evs :
  running (fold_left (step_st c) evs (init c)) = inside (history c evs).
Proof. apply (running_is_history_from c evs (init c)). apply inv_init. Qed.

Lemma history_count_le_cap c evs :
  (length (inside (history c evs)) <= cap c)%nat /\ NoDup (inside (history c evs)).
Proof.
  rewrite <- running_is_history.
  assert (HI : Inv c (fold_left (step_st c) evs (init c)))
    by (apply fold_left_inv; [apply inv_init|intros; apply step_inv; assumption]).
  destruct HI as [[Hc _ _ Hr _ _] _]. split; [lia|exact Hr].
Qed.

(* ---------- the bound inside a poll and on the trace ---------- *)
Lemma seen_le_cap c s i : Inv c s -> 0 <= seen (snd (poll c s i)) <= Z.of_nat (cap c).
Proof.
  intros [HG HC]. destruct HG as [Hc Hq Hg Hr Hd Hf]. destruct (HC i) as [Hwi Hri _ _ _].
  unfold poll. cbn. destruct (cs s i) as [|dl| | |] eqn:E.
  - destruct (free s) as [|f] eqn:Ef.
    + destruct (max_wait c) as [w|]; [case_tick|]; cbn; lia.
    + unfold start, poll_running. cbn. destruct (gate s i); cbn; lia.
  - destruct (mem i (granted s)) eqn:Em.
    + apply mem_In in Em. pose proof (length_remove_id i (granted s) Hg Em).
      unfold start, poll_running. cbn. destruct (gate s i); cbn; lia.
    + destruct dl as [d|]; [destruct (d <=? now s)|]; cbn; lia.
  - unfold poll_running. cbn. destruct (gate s i); cbn; lia.
  - cbn. lia.
  - cbn. lia.
Qed.

(* the in-flight count the inner service sees when a call is started counts that call:
   it is the number of running callers of the intermediate state inside the poll *)
Lemma seen_counts_the_new_call c s i :
  Inv c s -> started (snd (poll c s i)) = true ->
  seen (snd (poll c s i)) = Z.of_nat (S (length (running s))).
Proof.
  intros _. unfold poll. cbn. destruct (cs s i) as [|dl| | |].
  - destruct (free s) as [|f].
    + destruct (max_wait c) as [w|]; [case_tick|]; cbn; discriminate.
    + unfold start, poll_running. cbn. destruct (gate s i); cbn; reflexivity.
  - destruct (mem i (granted s)).
    + unfold start, poll_running. cbn. destruct (gate s i); cbn; reflexivity.
    + destruct dl as [d|]; [destruct (d <=? now s)|]; cbn; discriminate.
  - unfold poll_running. cbn. destruct (gate s i); cbn; discriminate.
  - cbn. discriminate.
  - cbn. discriminate.
Qed.

(* column k of a trace of 6-integer rows *)
Fixpoint col6 (k : nat) (t : list Z) : list Z :=
  match t with
  | a :: b :: c :: d :: e :: f :: rest => nth k [a; b; c; d; e; f] 0 :: col6 k rest
  | _ => []
  end.

Lemma run_evs_cols c total evs : forall s, Inv c s ->
  Forall (fun x => 0 <= x <= Z.of_nat (cap c)) (col6 4 (run_evs c total s evs)) /\
  Forall (fun x => 0 <= x <= Z.of_nat (cap c)) (col6 2 (run_evs c total s evs)).
Proof.
  induction evs as [|e t IH]; intros s HI; cbn [run_evs].
  - split; constructor.
  - destruct (step c s e) as [s' o] eqn:Es.
    assert (Hs' : s' = step_st c s e) by (unfold step_st; rewrite Es; reflexivity).
    assert (HI' : Inv c s') by (rewrite Hs'; apply step_inv; exact HI).
    destruct (IH s' HI') as [I1 I2]. cbn [app col6 nth]. split; constructor; try assumption.
    + destruct HI' as [[Hc _ _ _ _ _] _]. lia.
    + assert (Ho : o = snd (step c s e)) by (rewrite Es; reflexivity). subst o.
      destruct e; cbn; try lia. apply seen_le_cap. exact HI.
Qed.

(* the statement about run_script itself (what bin/check compares with the implementation):
   in every row of the trace of every script both the in-flight count after the event and the
   count the inner service saw when a call was started inside the poll are at most cap *)
Lemma trace_inflight_and_seen_le_cap sc :
  let capz := Z.of_nat (cap (cfg_of sc)) in
  Forall (fun x => 0 <= x <= capz) (col6 4 (run_script sc)) /\
  Forall (fun x => 0 <= x <= capz) (col6 2 (run_script sc)).
Proof. cbv zeta. unfold run_script. apply run_evs_cols. apply inv_init. Qed.

(* ---------- C07: more about rejections and grants ---------- *)
Lemma zero_wait_rejects c s i w :
  cs s i = Created -> free s = 0%nat -> max_wait c = Some w -> ceil_ms (now s + w) <= now s ->
  r (snd (poll c s i)) = 3 /\ started (snd (poll c s i)) = false /\ now (fst (poll c s i)) = now s.
Proof.
  intros H1 H2 H3 H4. unfold poll. cbn. rewrite H1, H2, H3. apply Z.leb_le in H4. rewrite H4.
  cbn. repeat split; reflexivity.
Qed.

(* reject_when_full / the presets (zero wait) at a whole-millisecond instant *)
Lemma zero_wait_rejects_on_tick c s i k :
  cs s i = Created -> free s = 0%nat -> max_wait c = Some 0 -> now s = k * MS ->
  r (snd (poll c s i)) = 3 /\ started (snd (poll c s i)) = false /\ now (fst (poll c s i)) = now s.
Proof.
  intros H1 H2 H3 H4. apply (zero_wait_rejects c s i 0 H1 H2 H3).
  rewrite Z.add_0_r, H4, ceil_ms_whole. lia.
Qed.

(* ... and off the tick (sub-millisecond instants) the zero wait lasts until the next tick:
   the caller is queued with the deadline ceil_ms now, less than 1 ms away *)
Lemma zero_wait_off_tick c s i w :
  cs s i = Created -> free s = 0%nat -> max_wait c = Some w -> now s < ceil_ms (now s + w) ->
  r (snd (poll c s i)) = 0 /\ started (snd (poll c s i)) = false /\
  cs (fst (poll c s i)) i = Waiting (Some (ceil_ms (now s + w))).
Proof.
  intros H1 H2 H3 H4. unfold poll. cbn. rewrite H1, H2, H3.
  assert (H : ceil_ms (now s + w) <=? now s = false) by (apply Z.leb_gt; exact H4). rewrite H.
  cbn. repeat split; try reflexivity. apply upd_same.
Qed.

Lemma granted_starts c s i dl :
  cs s i = Waiting dl -> In i (granted s) -> started (snd (poll c s i)) = true.
Proof.
  intros H1 H2. unfold poll. cbn. rewrite H1. apply mem_In in H2. rewrite H2.
  unfold start, poll_running. cbn. destruct (gate s i); reflexivity.
Qed.

Lemma rejected_at_deadline c s i d dd :
  cs s i = Waiting (Some d) -> ~ In i (granted s) -> now s < d -> now s + dd = d ->
  let s1 := advance s dd in now s1 = d /\ woken s1 i = true /\ r (snd (poll c s1 i)) = 3.
Proof.
  intros H1 H2 H3 H4. cbv zeta. split; [|split].
  - unfold advance. cbn. lia.
  - apply (timer_wakes s i d dd H1 H3). lia.
  - apply (deadline_rejects c (advance s dd) i d); [exact H1|exact H2|unfold advance; cbn; lia].
Qed.

(* a waiter that is not granted a permit is not rejected before its deadline *)
Lemma waits_until_deadline c s i d :
  cs s i = Waiting (Some d) -> ~ In i (granted s) -> now s < d ->
  r (snd (poll c s i)) = 0 /\ started (snd (poll c s i)) = false.
Proof.
  intros H1 H2 H3. unfold poll. cbn. rewrite H1. apply mem_false in H2. rewrite H2.
  assert (H : d <=? now s = false) by (apply Z.leb_gt; exact H3). rewrite H. split; reflexivity.
Qed.

Lemma granted_is_woken c evs :
  Forall (fun s => forall i, In i (granted s) -> woken s i = true /\ is_waiting (cs s i))
         (states (step_st c) (init c) evs).
Proof.
  eapply Forall_impl; [|apply reach_Inv2]. intros s [[_ HC] [HW _]] i Hi. split; [apply HW; exact Hi|].
  apply (HC i). right. exact Hi.
Qed.

(* who has entered the inner service: exactly the callers whose inner call was started --
   never a caller that is still Created or waiting; every running caller has *)
Lemma entered_iff_admitted c evs :
  Forall (fun s => forall j,
            (cs s j = Running -> entered s j = true /\ In j (running s)) /\
            (entered s j = true -> cs s j = Running \/ cs s j = Done \/ cs s j = Dropped) /\
            (In j (running s) -> cs s j = Running))
         (states (step_st c) (init c) evs).
Proof.
  eapply Forall_impl; [|apply reach_Inv2]. intros s [[_ HC] [_ HE]] j.
  destruct (HC j) as [_ Hr He _ _]. repeat split.
  - apply HE. assumption.
  - apply Hr. assumption.
  - intros H. destruct (cs s j) as [|dl| | |] eqn:E; try tauto.
    + rewrite He in H by (left; reflexivity). discriminate.
    + rewrite He in H by (right; eexists; reflexivity). discriminate.
  - apply Hr.
Qed.

(* ---------- C07 clause 1: full capacity again ---------- *)
Lemma length_remove_id_le i l : (length (remove_id i l) <= length l)%nat.
Proof.
  unfold remove_id. induction l as [|a t IH]; cbn; [lia|]. destruct (negb (Nat.eqb a i)); cbn; lia.
Qed.

Lemma burst_step c s i :
  Inv c s -> queue s = [] -> granted s = [] -> cs s i = Created -> (length (running s) < cap c)%nat ->
  let s' := fst (poll c s i) in
  started (snd (poll c s i)) = true /\ queue s' = [] /\ granted s' = [] /\
  (length (running s') <= S (length (running s)))%nat /\
  (forall j, j <> i -> cs s' j = cs s j).
Proof.
  intros [[Hc _ _ _ _ _] _] Hq Hg Hcr Hlt. rewrite Hg in Hc. cbn in Hc.
  unfold poll. cbn. rewrite Hcr. destruct (free s) as [|f] eqn:Ef; [lia|].
  unfold start, poll_running. cbn. destruct (gate s i); cbn.
  - unfold release. cbn. rewrite Hq. cbn. repeat split; try assumption.
    + rewrite remove_id_cons. rewrite Nat.eqb_refl. pose proof (length_remove_id_le i (running s)). lia.
    + intros j Hj. rewrite !upd_other by exact Hj. reflexivity.
  - repeat split; try assumption; try lia. intros j Hj. rewrite !upd_other by exact Hj. reflexivity.
Qed.

(* spare capacity is usable: fresh callers polled back to back while nobody waits all start,
   as long as they fit *)
Lemma burst c l : forall s,
  Inv c s -> queue s = [] -> granted s = [] -> NoDup l ->
  (forall i, In i l -> cs s i = Created) -> (length l + length (running s) <= cap c)%nat ->
  Forall (fun o => started o = true) (run_obs c s (map Poll l)).
Proof.
  induction l as [|i t IH]; intros s HI Hq Hg Hnd Hcr Hlen; cbn [map run_obs]; [constructor|].
  inversion Hnd as [|? ? Hni Hndt]; subst.
  assert (Hci : cs s i = Created) by (apply Hcr; left; reflexivity).
  cbn [length] in Hlen.
  assert (Hlt : (length (running s) < cap c)%nat) by lia.
  destruct (burst_step c s i HI Hq Hg Hci Hlt) as [H1 [H2 [H3 [H4 H5]]]].
  constructor; [exact H1|]. unfold step_st. cbn [step fst]. apply IH; try assumption.
  - apply poll_inv. exact HI.
  - intros j Hj. rewrite H5; [apply Hcr; right; exact Hj|]. intros ->. contradiction.
  - lia.
Qed.

Lemma idle_lists c s : Inv c s -> idle s -> queue s = [] /\ granted s = [] /\ running s = [].
Proof.
  intros [HG HC] Hidle. repeat split.
  - destruct (queue s) as [|x t] eqn:Eq; [reflexivity|]. exfalso.
    destruct (HC x) as [Hw _ _ _ _]. apply (proj2 (Hidle x)). apply Hw. left. rewrite Eq. left. reflexivity.
  - destruct (granted s) as [|x t] eqn:Eg; [reflexivity|]. exfalso.
    destruct (HC x) as [Hw _ _ _ _]. apply (proj2 (Hidle x)). apply Hw. right. rewrite Eg. left. reflexivity.
  - destruct (running s) as [|x t] eqn:Er; [reflexivity|]. exfalso.
    destruct (HC x) as [_ Hrx _ _ _]. apply (proj1 (Hidle x)). apply Hrx. rewrite Er. left. reflexivity.
Qed.

(* with cap >= 1 "nothing in flight and nobody granted" already implies nobody is queued *)
Lemma full_capacity_again c evs l :
  let s := fold_left (step_st c) evs (init c) in
  idle s -> NoDup l -> length l = cap c -> (forall i, In i l -> cs s i = Created) ->
  Forall (fun o => started o = true) (run_obs c s (map Poll l)).
Proof.
  intros s Hidle Hnd Hlen Hcr.
  assert (HI : Inv c s) by (apply fold_left_inv; [apply inv_init|intros; apply step_inv; assumption]).
  destruct (idle_lists c s HI Hidle) as [Hq [Hg Hr]].
  apply (burst c l s HI Hq Hg Hnd Hcr). rewrite Hr. cbn. lia.
Qed.

(* mid-history form: k callers still run, the remaining cap - k slots admit fresh callers *)
Lemma spare_capacity_admits c evs l :
  let s := fold_left (step_st c) evs (init c) in
  queue s = [] -> granted s = [] -> NoDup l -> (forall i, In i l -> cs s i = Created) ->
  (length l + inflight s <= cap c)%nat ->
  Forall (fun o => started o = true) (run_obs c s (map Poll l)).
Proof.
  intros s Hq Hg Hnd Hcr Hlen.
  assert (HI : Inv c s) by (apply fold_left_inv; [apply inv_init|intros; apply step_inv; assumption]).
  apply (burst c l s HI Hq Hg Hnd Hcr). exact Hlen.
Qed.

(* ---------- the capacity probe that run_script appends ---------- *)
Definition ev_id (e : ev) : option nat :=
  match e with Poll i | Drop i | Complete i _ => Some i | Advance _ => None end.

Lemma step_cs_other c s e j : ev_id e <> Some j -> cs (step_st c s e) j = cs s j.
Proof.
  intros Hid. unfold step_st, step. destruct e as [i|i|d|i o]; cbn [fst]; cbn in Hid.
  - assert (Hne : j <> i) by congruence.
    assert (Hu : forall A (f : nat -> A) v, upd f i v j = f j) by (intros; apply upd_other; exact Hne).
    unfold poll. cbn. destruct (cs s i) as [|dl| | |].
    + destruct (free s).
      * destruct (max_wait c) as [w|]; [case_tick|]; cbn; rewrite ?Hu; reflexivity.
      * unfold start, poll_running. cbn. destruct (gate s i); cbn; rewrite ?release_cs; cbn; rewrite ?Hu; reflexivity.
    + destruct (mem i (granted s)).
      * unfold start, poll_running. cbn. destruct (gate s i); cbn; rewrite ?release_cs; cbn; rewrite ?Hu; reflexivity.
      * destruct dl as [d|]; [destruct (d <=? now s)|]; cbn; rewrite ?Hu; reflexivity.
    + unfold poll_running. cbn. destruct (gate s i); cbn; rewrite ?release_cs; cbn; rewrite ?Hu; reflexivity.
    + reflexivity.
    + reflexivity.
  - assert (Hne : j <> i) by congruence.
    assert (Hu : forall A (f : nat -> A) v, upd f i v j = f j) by (intros; apply upd_other; exact Hne).
    unfold drop. cbn. destruct (cs s i) as [|dl| | |]; cbn; rewrite ?Hu; try reflexivity.
    + destruct (mem i (granted s)); rewrite ?release_cs; cbn; rewrite ?Hu; reflexivity.
    + rewrite ?release_cs. cbn. rewrite ?Hu. reflexivity.
  - reflexivity.
  - unfold complete. destruct (gate s i); reflexivity.
Qed.

Definition final (x : cst) : Prop := x = Done \/ x = Dropped.

Lemma drop_final s i : final (cs (drop s i) i).
Proof.
  unfold drop, final. cbn. destruct (cs s i) as [|dl| | |] eqn:E; cbn.
  - right. apply upd_same.
  - destruct (mem i (granted s)); rewrite ?release_cs; cbn; right; apply upd_same.
  - rewrite release_cs. cbn. right. apply upd_same.
  - left. exact E.
  - right. exact E.
Qed.

Lemma after_drops c l : forall s,
  (forall i, In i l -> final (cs (fold_left (step_st c) (map Drop l) s) i)) /\
  (forall j, ~ In j l -> cs (fold_left (step_st c) (map Drop l) s) j = cs s j).
Proof.
  induction l as [|a t IH]; intros s; cbn [map fold_left].
  - split; [intros i []|reflexivity].
  - destruct (IH (step_st c s (Drop a))) as [I1 I2]. split.
    + intros i Hi. destruct (in_dec Nat.eq_dec i t) as [Hit|Hnt]; [apply I1; exact Hit|].
      destruct Hi as [->|Hi]; [|contradiction]. rewrite I2 by exact Hnt.
      unfold step_st. cbn [step fst]. apply drop_final.
    + intros j Hj. rewrite I2 by (intros H; apply Hj; right; exact H).
      apply step_cs_other. cbn. intros H. apply Hj. left. congruence.
Qed.

Definition id_lt (n : nat) (e : ev) : Prop :=
  match ev_id e with Some i => (i < n)%nat | None => True end.

Lemma evs_of_ids n l : Forall (id_lt n) (evs_of n l).
Proof.
  induction l as [|[[op a] b] t IH]; cbn [evs_of]; [constructor|].
  destruct (ev_of n (op, a, b)) as [e|] eqn:E; [|exact IH]. constructor; [|exact IH].
  unfold ev_of in E. destruct (op =? 3); [inversion E; exact I|].
  destruct (op =? 6); [inversion E; exact I|].
  destruct ((0 <=? a) && (a <? Z.of_nat n)) eqn:Hr; cbn [negb] in E; [|discriminate].
  apply andb_true_iff in Hr. destruct Hr as [H0 H1]. apply Z.leb_le in H0. apply Z.ltb_lt in H1.
  assert (Hlt : (Z.to_nat a < n)%nat) by lia.
  destruct (op =? 1); [inversion E; exact Hlt|].
  destruct (op =? 2); [inversion E; exact Hlt|].
  destruct (op =? 4); [inversion E; exact Hlt|].
  destruct (op =? 5); [inversion E; exact I|discriminate].
Qed.

Lemma created_untouched c n evs : forall s, Forall (id_lt n) evs ->
  forall j, (n <= j)%nat -> cs (fold_left (step_st c) evs s) j = cs s j.
Proof.
  induction evs as [|e t IH]; intros s H j Hj; cbn [fold_left]; [reflexivity|].
  inversion H as [|? ? He Ht]; subst. rewrite IH by assumption.
  apply step_cs_other. unfold id_lt in He. destruct (ev_id e) as [i|]; [|discriminate].
  intros Hi. inversion Hi. lia.
Qed.

Lemma run_evs_app c total a : forall b s,
  run_evs c total s (a ++ b) = run_evs c total s a ++ run_evs c total (fold_left (step_st c) a s) b.
Proof.
  induction a as [|e t IH]; intros b s; cbn [app run_evs fold_left]; [reflexivity|].
  unfold step_st at 2. destruct (step c s e) as [s' o]. cbn [fst]. rewrite IH. reflexivity.
Qed.

Lemma run_evs_length c total a : forall s, length (run_evs c total s a) = (6 * length a)%nat.
Proof.
  induction a as [|e t IH]; intros s; cbn [run_evs length]; [reflexivity|].
  destruct (step c s e) as [s' o]. cbn [app length]. rewrite IH. lia.
Qed.

Lemma col6_started c total evs : forall s,
  col6 1 (run_evs c total s evs) = map (fun o => b2z (started o)) (run_obs c s evs).
Proof.
  induction evs as [|e t IH]; intros s; cbn [run_evs run_obs map]; [reflexivity|].
  unfold step_st. destruct (step c s e) as [s' o]. cbn [app col6 nth fst snd]. rewrite IH. reflexivity.
Qed.

Lemma run_obs_app c a : forall b s,
  run_obs c s (a ++ b) = run_obs c s a ++ run_obs c (fold_left (step_st c) a s) b.
Proof.
  induction a as [|e t IH]; intros b s; cbn [app run_obs fold_left]; [reflexivity|].
  rewrite IH. reflexivity.
Qed.

Lemma run_obs_length c a : forall s, length (run_obs c s a) = length a.
Proof. induction a as [|e t IH]; intros s; cbn [run_obs length]; [reflexivity|]. rewrite IH. reflexivity. Qed.

Lemma skipn_app_exact {A} (l1 l2 : list A) n : length l1 = n -> skipn n (l1 ++ l2) = l2.
Proof.
  intros <-. rewrite skipn_app, skipn_all, Nat.sub_diag. reflexivity.
Qed.

Lemma firstn_app_exact {A} (l1 l2 : list A) n : length l1 = n -> firstn n (l1 ++ l2) = l1.
Proof.
  intros <-. rewrite firstn_app, firstn_all, Nat.sub_diag. cbn. apply app_nil_r.
Qed.

Lemma all_started_ones (l : list obs) :
  Forall (fun o => started o = true) l -> map (fun o => b2z (started o)) l = repeat 1 (length l).
Proof.
  induction 1 as [|o t Ho Ht IH]; cbn; [reflexivity|]. rewrite Ho, IH. reflexivity.
Qed.

(* the state in which run_script starts its probe: after ANY scripted history and the drop of
   every scripted caller nothing waits or runs, and the probe callers are fresh *)
Lemma probe_state c n evs :
  Forall (id_lt n) evs ->
  let s := fold_left (step_st c) (evs ++ map Drop (seq 0 n)) (init c) in
  Inv c s /\ idle s /\ forall j, (n <= j)%nat -> cs s j = Created.
Proof.
  intros Hids s.
  assert (HI : Inv c s) by (apply fold_left_inv; [apply inv_init|intros; apply step_inv; assumption]).
  subst s. rewrite fold_left_app in *.
  set (s1 := fold_left (step_st c) evs (init c)) in *.
  destruct (after_drops c (seq 0 n) s1) as [D1 D2].
  assert (Hfresh : forall j, (n <= j)%nat -> cs (fold_left (step_st c) (map Drop (seq 0 n)) s1) j = Created).
  { intros j Hj. rewrite D2 by (rewrite in_seq; lia). unfold s1.
    rewrite (created_untouched c n evs (init c) Hids j Hj). reflexivity. }
  split; [exact HI|]. split; [|exact Hfresh].
  intros i. destruct (le_lt_dec n i) as [Hge|Hlt].
  - rewrite (Hfresh i Hge). split; [discriminate|intros [dl H]; discriminate].
  - assert (Hf : final (cs (fold_left (step_st c) (map Drop (seq 0 n)) s1) i))
      by (apply D1; rewrite in_seq; lia).
    destruct Hf as [Hf|Hf]; rewrite Hf; split; try discriminate; intros [dl H]; discriminate.
Qed.

(* C07 clause 1 on the trace bin/check compares: for EVERY script, the rows of the first cap
   probe callers (after the scripted history, with every scripted caller dropped) all report a
   started inner call *)
Lemma probe_admits_cap sc :
  let c := cfg_of sc in
  let k := (length (script_evs sc) + callers_of sc)%nat in
  let m := Nat.min (cap c) (probe_len sc) in
  firstn m (col6 1 (skipn (6 * k) (run_script sc))) = repeat 1 m.
Proof.
  cbv zeta. unfold run_script, probe_evs.
  set (c := cfg_of sc). set (n := callers_of sc). set (evs := script_evs sc).
  set (total := Nat.min (n + _) _). set (pl := probe_len sc). set (m := Nat.min (cap c) pl).
  rewrite app_assoc, run_evs_app.
  rewrite skipn_app_exact
    by (rewrite run_evs_length, app_length, map_length, seq_length; reflexivity).
  rewrite col6_started.
  replace (seq n pl) with (seq n m ++ seq (n + m) (pl - m))
    by (rewrite <- seq_app; f_equal; unfold m; lia).
  rewrite map_app, run_obs_app, map_app.
  destruct (probe_state c n evs (evs_of_ids n _)) as [HI [Hidle Hfresh]].
  set (s := fold_left (step_st c) (evs ++ map Drop (seq 0 n)) (init c)) in *.
  destruct (idle_lists c s HI Hidle) as [Hq [Hg Hr]].
  assert (HB : Forall (fun o => started o = true) (run_obs c s (map Poll (seq n m)))).
  { apply burst; try assumption.
    - apply seq_NoDup.
    - intros i Hi. apply in_seq in Hi. apply Hfresh. lia.
    - rewrite seq_length, Hr. cbn. unfold m. lia. }
  rewrite firstn_app_exact by (rewrite map_length, run_obs_length, map_length, seq_length; reflexivity).
  rewrite (all_started_ones _ HB), run_obs_length, map_length, seq_length. reflexivity.
Qed.

(* for an ordinary capacity the probe has cap + 1 callers, so m = cap; for a sentinel capacity
   (clamped to MAX_PERMITS by the code, BIG_CAP here) every one of the PROBE_BIG probe callers starts *)
Lemma probe_min_ordinary sc :
  zn sc 0 < CAP_SENTINEL -> Nat.min (cap (cfg_of sc)) (probe_len sc) = cap (cfg_of sc).
Proof.
  intros H. unfold probe_len. assert (E : CAP_SENTINEL <=? zn sc 0 = false) by (apply Z.leb_gt; exact H).
  rewrite E. lia.
Qed.

Lemma probe_min_sentinel sc :
  CAP_SENTINEL <= zn sc 0 -> Nat.min (cap (cfg_of sc)) (probe_len sc) = PROBE_BIG.
Proof.
  intros H. unfold probe_len, cfg_of. cbn [cap].
  assert (E : CAP_SENTINEL <=? zn sc 0 = true) by (apply Z.leb_le; exact H).
  rewrite E. reflexivity.
Qed.

(* ---------- non-vacuity ---------- *)
(* cap 2: two callers inside (inflight = cap), a third queued; a running caller is dropped, the
   waiter is handed the permit (granted, woken, not yet polled) -- every hypothesis of
   granted_starts / granted_is_woken / conservation with a non-empty granted list is reachable *)
Example ex_full_then_grant :
  let c := {| cap := 2%nat; max_wait := Some 10000000 |} in
  let s := fold_left (step_st c) [Poll 0; Poll 1; Poll 2]%nat (init c) in
  let s' := step_st c s (Drop 0%nat) in
  inflight s = 2%nat /\ queue s = [2%nat] /\ cs s 2%nat = Waiting (Some 10000000) /\
  granted s' = [2%nat] /\ woken s' 2%nat = true /\ inflight s' = 1%nat /\
  started (snd (poll c s' 2%nat)) = true /\ seen (snd (poll c s' 2%nat)) = 2 /\
  inside (history c [Poll 0; Poll 1; Poll 2; Drop 0; Poll 2]%nat) = [2; 1]%nat.
Proof. vm_compute. repeat split; reflexivity. Qed.

(* idle after a history with an ok, an inner error, a panic, a wait timeout and cancellations
   of a waiting and of a running caller: the hypotheses of full_capacity_again are met *)
Example ex_idle_after_history :
  let c := {| cap := 2%nat; max_wait := Some 5000000 |} in
  let evs := [Poll 0; Poll 1; Poll 2; Poll 3; Drop 3; Advance 5000000; Poll 2; Complete 0 OOk; Poll 0;
              Poll 4; Complete 4 OErr; Poll 4; Poll 5; Complete 5 OPanic; Poll 5; Drop 1]%nat in
  let s := fold_left (step_st c) evs (init c) in
  idle s /\ free s = 2%nat /\ cs s 6%nat = Created /\ cs s 7%nat = Created /\
  map r (run_obs c (init c) evs) = [0; 0; 0; 0; -1; -1; 3; -1; 1; 0; -1; 2; 0; -1; 5; -1].
Proof.
  cbv zeta. split; [|vm_compute; repeat split; reflexivity].
  intros i. do 6 (destruct i as [|i]; [vm_compute; split; [discriminate|intros [dl H]; discriminate]|]).
  vm_compute; split; [discriminate|intros [dl H]; discriminate].
Qed.

(* zero wait (reject_when_full): hypotheses of zero_wait_rejects are reachable *)
Example ex_zero_wait :
  let c := {| cap := 1%nat; max_wait := Some 0 |} in
  let s := fold_left (step_st c) [Poll 0%nat] (init c) in
  cs s 1%nat = Created /\ free s = 0%nat /\ r (snd (poll c s 1%nat)) = 3.
Proof. vm_compute. repeat split; reflexivity. Qed.

(* a queued waiter strictly before its deadline: hypotheses of rejected_at_deadline /
   waits_until_deadline *)
Example ex_before_deadline :
  let c := {| cap := 1%nat; max_wait := Some 10000000 |} in
  let s := fold_left (step_st c) [Poll 0%nat; Advance 3000000; Poll 1%nat; Advance 4000000] (init c) in
  cs s 1%nat = Waiting (Some 13000000) /\ ~ In 1%nat (granted s) /\ now s = 7000000 /\
  r (snd (poll c s 1%nat)) = 0 /\ r (snd (poll c (advance s 6000000) 1%nat)) = 3.
Proof. vm_compute. repeat split; try reflexivity. intros []; discriminate. Qed.

(* sub-millisecond wait: 300 us asked at instant 0 -> the timer deadline is the 1 ms tick; still
   pending at 900 us, Timeout at 1 ms (never early, less than 1 ms late); and a zero wait asked
   off the tick (at 300 us) is not an immediate rejection either *)
Example ex_submilli :
  let c := {| cap := 1%nat; max_wait := Some 300000 |} in
  let s := fold_left (step_st c) [Poll 0%nat; Poll 1%nat; Advance 900000] (init c) in
  cs s 1%nat = Waiting (Some 1000000) /\ r (snd (poll c s 1%nat)) = 0 /\
  r (snd (poll c (advance s 100000) 1%nat)) = 3 /\
  let c0 := {| cap := 1%nat; max_wait := Some 0 |} in
  let s0 := fold_left (step_st c0) [Poll 0%nat; Advance 300000] (init c0) in
  r (snd (poll c0 s0 1%nat)) = 0 /\ cs (fst (poll c0 s0 1%nat)) 1%nat = Waiting (Some 1000000).
Proof. vm_compute. repeat split; reflexivity. Qed.

(* spare capacity mid-history: one caller runs, cap - 1 fresh callers are admitted *)
Example ex_spare :
  let c := {| cap := 3%nat; max_wait := None |} in
  let s := fold_left (step_st c) [Poll 0%nat] (init c) in
  queue s = [] /\ granted s = [] /\ inflight s = 1%nat /\
  map started (run_obs c s (map Poll [1; 2]%nat)) = [true; true].
Proof. vm_compute. repeat split; reflexivity. Qed.

(* a sentinel capacity (max_concurrent_calls(usize::MAX), clamped by Bulkhead::new): nobody is ever
   refused -- three callers and all eight probe callers start *)
Example ex_sentinel_cap :
  col6 1 (run_script [1000000000000000; 0; 3;  1; 0; 0;  1; 1; 0;  1; 2; 0]) =
    [1; 1; 1;  0; 0; 0;  1; 1; 1; 1; 1; 1; 1; 1].
Proof. vm_compute. reflexivity. Qed.

(* a whole script through run_script: cap 1, max_wait 10 ms, 2 callers; the second caller queues,
   is rejected at its deadline; then the probe: the scripted callers are dropped, the first
   probe caller is admitted, the second is not *)
Example ex_trace :
  run_script [1; 10; 2;  1; 0; 0;  1; 1; 0;  3; 10; 0;  1; 1; 0] =
    [0; 1; 1; 0; 1; 1;   0; 0; 0; 0; 1; 0;   -1; 0; 0; 2; 1; 0;   3; 0; 0; 0; 1; 0;
     -1; 0; 0; 0; 0; 0;  -1; 0; 0; 0; 0; 0;
     0; 1; 1; 0; 1; 3;   0; 0; 0; 0; 1; 0].
Proof. vm_compute. reflexivity. Qed.

