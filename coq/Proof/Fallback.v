From TR Require Import Lib.Base Model.Fallback.

Section P.
  Context {Req Res Err : Type}.
  Implicit Types (st : strategy Req Res Err) (pred : option (Err -> bool))
           (inner backup : Req -> Res + Err) (req : Req).

  Definition handles pred (e : Err) : bool :=
    match pred with Some p => p e | None => true end.

  Lemma ok_passthrough st pred inner backup req r :
    inner req = inl r ->
    call st pred inner backup req =
      {| inner_calls := [req]; backup_calls := []; out := inl r |}.
  Proof. intros H. unfold call. rewrite H. reflexivity. Qed.

  Lemma predicate_gate st pred inner backup req e :
    inner req = inr e -> handles pred e = false ->
    call st pred inner backup req =
      {| inner_calls := [req]; backup_calls := []; out := inr (Inner e) |}.
  Proof.
    intros H Hp. unfold call. rewrite H. fold (handles pred e). rewrite Hp.
    reflexivity.
  Qed.

  (* what each strategy specifies for request [req] and error [e] *)
  Definition spec_out st backup req (e : Err) : Res + ferr Err :=
    match st with
    | SValue v => inl v
    | SValueFn f => inl (f tt)
    | SFromError f => inl (f e)
    | SFromRequestError f => inl (f req e)
    | SService => match backup req with inl r => inl r | inr be => inr (FallbackFailed be) end
    | SException f => inr (Inner (f e))
    end.

  Definition spec_backup st req : list Req :=
    match st with SService => [req] | _ => [] end.

  Lemma strategy_exact st pred inner backup req e :
    inner req = inr e -> handles pred e = true ->
    call st pred inner backup req =
      {| inner_calls := [req]; backup_calls := spec_backup st req;
         out := spec_out st backup req e |}.
  Proof.
    intros H Hp. unfold call. rewrite H. fold (handles pred e). rewrite Hp.
    cbn [negb]. destruct st; cbn [spec_out spec_backup]; try reflexivity.
    destruct (backup req); reflexivity.
  Qed.

  Lemma inner_called_exactly_once st pred inner backup req :
    inner_calls (call st pred inner backup req) = [req].
  Proof.
    unfold call. destruct (inner req) as [r|e]; [reflexivity|].
    destruct (negb _); [reflexivity|].
    destruct st; try reflexivity. destruct (backup req); reflexivity.
  Qed.

  Lemma backup_called_iff st pred inner backup req :
    backup_calls (call st pred inner backup req) <> [] <->
    (st = SService /\ exists e, inner req = inr e /\ handles pred e = true).
  Proof.
    unfold call. destruct (inner req) as [r|e] eqn:Hi.
    - cbn. split; [congruence|]. intros [_ [e [He _]]]. discriminate.
    - fold (handles pred e). destruct (handles pred e) eqn:Hp; cbn [negb].
      + destruct st; cbn; try (split; [congruence|intros [Hs _]; discriminate]).
        destruct (backup req); cbn; (split; [intros _; split; [reflexivity|eauto]|congruence]).
      + cbn. split; [congruence|]. intros [_ [e' [He Hp']]].
        inversion He; subst. congruence.
  Qed.

  Lemma success_never_replaced st pred inner backup req r :
    inner req = inl r ->
    out (call st pred inner backup req) = inl r /\
    backup_calls (call st pred inner backup req) = [].
  Proof. intros H. rewrite (ok_passthrough _ _ _ _ _ _ H). split; reflexivity. Qed.
End P.

(* non-vacuity: a concrete configuration on which each branch is exercised *)
Example ex_service_fails :
  run_script [4; 1; 9; 5; 1; 8; 1; 77] = [1; 5; 1; 5; 2; 77].
Proof. vm_compute. reflexivity. Qed.
Example ex_pred_refuses :
  run_script [0; 1; 9; 5; 1; 7; 0; 0] = [1; 5; 0; -1; 1; 7].
Proof. vm_compute. reflexivity. Qed.
