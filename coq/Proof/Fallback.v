From TR Require Import Lib.Base Model.Fallback.

Section P.
  Context {Req Res Err : Type}.
  Implicit Types (st : strategy Req Res Err) (pred : option (Err -> bool))
           (inner backup : Req -> Res + Err) (req : Req).

  Definition handles pred (e : Err) : bool :=
    match pred with Some p => p e | None => true end.

  Lemma ok_passthrough st pred inner backup req r :
    inner req = inl r ->
    call st pred inner backup req =
      {| inner_calls := [req]; backup_calls := []; fn_log := [EInner req]; out := inl r |}.
  Proof. intros H. unfold call. rewrite H. reflexivity. Qed.

  Lemma predicate_gate st pred inner backup req e :
    inner req = inr e -> handles pred e = false ->
    call st pred inner backup req =
      {| inner_calls := [req]; backup_calls := []; fn_log := EInner req :: pred_events pred e;
         out := inr (Inner e) |}.
  Proof.
    intros H Hp. unfold call. rewrite H. fold (handles pred e). rewrite Hp.
    reflexivity.
  Qed.

  (* what each strategy specifies for request [req] and error [e] *)
  Definition spec_out st backup req (e : Err) : Res + ferr Err :=
    match st with
    | SValue v => inl v
    | SValueFn f => inl (f tt)
    | SFromError f => inl (f e)
    | SFromRequestError f => inl (f req e)
    | SService => match backup req with inl r => inl r | inr be => inr (FallbackFailed be) end
    | SException f => inr (Inner (f e))
    end.

  Definition spec_backup st req : list Req :=
    match st with SService => [req] | _ => [] end.

  (* what is invoked, in order: the inner service, the predicate (if any), then the one closure
     (or the backup service) of the configured strategy *)
  Definition spec_log st pred req (e : Err) : list (event Req Err) :=
    EInner req :: pred_events pred e ++
    match st with
    | SValue _ => []
    | SValueFn _ => [EValueFn]
    | SFromError _ => [EFromError e]
    | SFromRequestError _ => [EFromReqErr req e]
    | SService => [EBackup req]
    | SException _ => [EException e]
    end.

  Lemma strategy_exact st pred inner backup req e :
    inner req = inr e -> handles pred e = true ->
    call st pred inner backup req =
      {| inner_calls := [req]; backup_calls := spec_backup st req; fn_log := spec_log st pred req e;
         out := spec_out st backup req e |}.
  Proof.
    intros H Hp. unfold call. rewrite H. fold (handles pred e). rewrite Hp.
    cbn [negb]. unfold spec_log, spec_out, spec_backup. destruct st; cbn [app]; rewrite ?app_nil_r; try reflexivity.
    destruct (backup req); reflexivity.
  Qed.

  (* the specification, strategy by strategy, readable without [spec_out] *)
  Lemma strategy_equations pred inner backup req e :
    inner req = inr e -> handles pred e = true ->
    (forall v, out (call (SValue v) pred inner backup req) = inl v) /\
    (forall f, out (call (SValueFn f) pred inner backup req) = inl (f tt)) /\
    (forall f, out (call (SFromError f) pred inner backup req) = inl (f e)) /\
    (forall f, out (call (SFromRequestError f) pred inner backup req) = inl (f req e)) /\
    (forall r, backup req = inl r -> out (call SService pred inner backup req) = inl r) /\
    (forall be, backup req = inr be ->
                out (call SService pred inner backup req) = inr (FallbackFailed be)) /\
    (forall f, out (call (SException f) pred inner backup req) = inr (Inner (f e))).
  Proof.
    intros H Hp.
    repeat split; intros; rewrite (strategy_exact _ _ _ _ _ _ H Hp); cbn [out spec_out];
      try reflexivity; rewrite H0; reflexivity.
  Qed.

  Lemma inner_called_exactly_once st pred inner backup req :
    inner_calls (call st pred inner backup req) = [req].
  Proof.
    unfold call. destruct (inner req) as [r|e]; [reflexivity|].
    destruct (negb _); [reflexivity|].
    destruct st; try reflexivity. destruct (backup req); reflexivity.
  Qed.

  Lemma backup_called_iff st pred inner backup req :
    backup_calls (call st pred inner backup req) <> [] <->
    (st = SService /\ exists e, inner req = inr e /\ handles pred e = true).
  Proof.
    unfold call. destruct (inner req) as [r|e] eqn:Hi.
    - cbn. split; [congruence|]. intros [_ [e [He _]]]. discriminate.
    - fold (handles pred e). destruct (handles pred e) eqn:Hp; cbn [negb].
      + destruct st; cbn; try (split; [congruence|intros [Hs _]; discriminate]).
        destruct (backup req); cbn; (split; [intros _; split; [reflexivity|eauto]|congruence]).
      + cbn. split; [congruence|]. intros [_ [e' [He Hp']]].
        inversion He; subst. congruence.
  Qed.

  Lemma success_never_replaced st pred inner backup req r :
    inner req = inl r ->
    out (call st pred inner backup req) = inl r /\
    backup_calls (call st pred inner backup req) = [].
  Proof. intros H. rewrite (ok_passthrough _ _ _ _ _ _ H). split; reflexivity. Qed.

  (* a success invokes nothing but the inner service: no predicate, no strategy closure, no backup *)
  Lemma success_invokes_nothing st pred inner backup req r :
    inner req = inl r -> fn_log (call st pred inner backup req) = [EInner req].
  Proof. intros H. rewrite (ok_passthrough _ _ _ _ _ _ H). reflexivity. Qed.

  (* whatever happens, the first thing invoked is the inner service with the original request;
     nothing of the fallback runs before it *)
  Lemma inner_invoked_first st pred inner backup req :
    exists rest, fn_log (call st pred inner backup req) = EInner req :: rest.
  Proof.
    unfold call. destruct (inner req) as [r|e]; [eexists; reflexivity|].
    destruct (negb _); [eexists; reflexivity|].
    destruct st; try (eexists; reflexivity). destruct (backup req); eexists; reflexivity.
  Qed.

  (* on an error the predicate (if there is one) is evaluated exactly once, on that error, right
     after the inner call; what follows contains no predicate evaluation and no inner call *)
  Lemma predicate_evaluated_once st pred inner backup req e :
    inner req = inr e ->
    exists rest, fn_log (call st pred inner backup req) = EInner req :: pred_events pred e ++ rest /\
                 (forall x, ~ In (EPred x) rest) /\ (forall x, ~ In (EInner x) rest) /\
                 (handles pred e = false -> rest = []).
  Proof.
    intros H. destruct (handles pred e) eqn:Hp.
    - rewrite (strategy_exact _ _ _ _ _ _ H Hp). cbn [fn_log spec_log].
      eexists. split; [reflexivity|].
      destruct st; cbn; repeat split; intros; try discriminate; intuition discriminate.
    - rewrite (predicate_gate _ _ _ _ _ _ H Hp). cbn [fn_log]. exists [].
      rewrite app_nil_r. repeat split; intros; try reflexivity; intros [].
  Qed.

  (* ================= the step machine ================= *)
  Definition of_sum (x : Res + Err) : outcome Res Err :=
    match x with inl r => OOk r | inr e => OErr e end.

  Lemma nth_error_upd_same {A} k (f : A -> A) (l : list A) c :
    nth_error l k = Some c -> nth_error (upd k f l) k = Some (f c).
  Proof.
    revert k. induction l as [|x t IH]; intros [|k]; cbn; try discriminate.
    - intros H. injection H as ->. reflexivity.
    - apply IH.
  Qed.

  Lemma nth_error_upd_other {A} k k' (f : A -> A) (l : list A) :
    k <> k' -> nth_error (upd k f l) k' = nth_error l k'.
  Proof.
    revert k k'. induction l as [|x t IH]; intros [|k] [|k'] H; cbn; try reflexivity; try congruence.
    apply IH. congruence.
  Qed.

  Lemma Forall_upd {A} (P : A -> Prop) k (f : A -> A) (l : list A) :
    Forall P l -> (forall c, nth_error l k = Some c -> P c -> P (f c)) -> Forall P (upd k f l).
  Proof.
    revert k. induction l as [|x t IH]; intros [|k] H Hf; cbn; inversion H; subst; constructor; auto.
  Qed.

  Section Machine.
    Context (st : strategy Req Res Err) (pred : option (Err -> bool)).

    (* per call: what has been invoked so far and what was delivered, phase by phase *)
    Definition cinv (c : callst Req Res Err) : Prop :=
      let req := c_req c in
      match c_phase c with
      | PCreated => c_log c = [] /\ c_inner c = None /\ c_backup c = None
      | PWaitInner => c_log c = [EInner req] /\ c_inner c = None /\ c_backup c = None
      | PInnerReady o => c_log c = [EInner req] /\ c_inner c = Some o /\ c_backup c = None
      | PWaitBackup =>
          exists e, c_inner c = Some (OErr e) /\ handles pred e = true /\ st = SService /\
                    c_backup c = None /\ c_log c = EInner req :: pred_events pred e ++ [EBackup req]
      | PBackupReady o =>
          exists e, c_inner c = Some (OErr e) /\ handles pred e = true /\ st = SService /\
                    c_backup c = Some o /\ c_log c = EInner req :: pred_events pred e ++ [EBackup req]
      | PDone r =>
          (exists x, c_inner c = Some (of_sum x)) /\
          forall inner backup,
            c_inner c = Some (of_sum (inner req)) ->
            (forall o, c_backup c = Some o -> o = of_sum (backup req)) ->
            r = out (call st pred inner backup req) /\ c_log c = fn_log (call st pred inner backup req)
      | PPanicked | PDropped => True
      end.

    Lemma of_sum_ok x r : OOk r = of_sum x -> x = inl r.
    Proof. destruct x; cbn; congruence. Qed.
    Lemma of_sum_err x e : OErr e = of_sum x -> x = inr e.
    Proof. destruct x; cbn; congruence. Qed.

    Lemma poll_preserves c :
      cinv c -> cinv (set_phase (fst (poll_call st pred c)) (snd (poll_call st pred c)) c).
    Proof.
      unfold cinv, poll_call, set_phase. destruct c as [req ph ci cb lg]. cbn [c_req c_phase c_inner c_backup c_log].
      destruct ph as [| |o| |o|r| |]; cbn [fst snd c_req c_phase c_inner c_backup c_log].
      - intros (-> & -> & ->). repeat split.
      - intros (-> & -> & ->). repeat split.
      - intros (-> & -> & ->). destruct o as [r|e|]; cbn [fst snd c_req c_phase c_inner c_backup c_log]; [| |exact I].
        + split; [exists (inl r); reflexivity|]. intros inner backup Hi _.
          injection Hi as Hi. apply of_sum_ok in Hi. rewrite (ok_passthrough _ _ _ _ _ _ Hi). split; reflexivity.
        + fold (handles pred e). destruct (handles pred e) eqn:Hp; cbn [negb].
          * destruct st eqn:Est; cbn [fst snd c_req c_phase c_inner c_backup c_log];
              try (split; [exists (inr e); reflexivity|]; intros inner backup Hi _;
                   injection Hi as Hi; apply of_sum_err in Hi;
                   rewrite (strategy_exact _ _ _ _ _ _ Hi Hp); unfold spec_out, spec_log; cbn [out fn_log app];
                   rewrite ?app_nil_r; split; reflexivity).
            exists e. repeat split. exact Hp.
          * cbn [fst snd c_req c_phase c_inner c_backup c_log].
            split; [exists (inr e); reflexivity|]. intros inner backup Hi _.
            injection Hi as Hi. apply of_sum_err in Hi.
            rewrite (predicate_gate _ _ _ _ _ _ Hi Hp). split; reflexivity.
      - intros H. rewrite app_nil_r. exact H.
      - intros (e & Hi & Hp & Hs & Hb & Hl). subst ci cb lg.
        destruct o as [r|be|]; cbn [fst snd c_req c_phase c_inner c_backup c_log]; [| |exact I]; rewrite app_nil_r;
          (split; [exists (inr e); reflexivity|]); intros inner backup Hi Hb;
          injection Hi as Hi; apply of_sum_err in Hi; specialize (Hb _ eq_refl).
        + apply of_sum_ok in Hb. rewrite (strategy_exact _ _ _ _ _ _ Hi Hp).
          unfold spec_out, spec_log. rewrite Hs. cbn [out fn_log]. rewrite Hb. split; reflexivity.
        + apply of_sum_err in Hb. rewrite (strategy_exact _ _ _ _ _ _ Hi Hp).
          unfold spec_out, spec_log. rewrite Hs. cbn [out fn_log]. rewrite Hb. split; reflexivity.
      - intros H. rewrite app_nil_r. exact H.
      - intros _. exact I.
      - intros _. exact I.
    Qed.

    Lemma step_preserves s o :
      Forall cinv (m_calls s) -> Forall cinv (m_calls (step st pred s o)).
    Proof.
      intros H. destruct o as [req|k|k o|k o|k|e|]; cbn [step].
      - cbn. apply Forall_app. split; [exact H|]. constructor; [|constructor].
        unfold cinv. cbn. repeat split.
      - destruct (nth_error (m_calls s) k) as [c|] eqn:E; [|exact H].
        destruct (alive c); [|exact H].
        destruct (poll_call st pred c) as [p es] eqn:Ep. cbn.
        apply Forall_upd; [exact H|]. intros c' Hc' Hinv. rewrite E in Hc'. injection Hc' as <-.
        pose proof (poll_preserves c Hinv) as Hp. rewrite Ep in Hp. exact Hp.
      - destruct (nth_error (m_calls s) k) as [c|] eqn:E; [|exact H].
        destruct (c_phase c) eqn:Ph; try exact H. cbn.
        apply Forall_upd; [exact H|]. intros c' Hc' Hinv. rewrite E in Hc'. injection Hc' as <-.
        unfold cinv in *. rewrite Ph in Hinv. cbn. destruct Hinv as (A & B & C). repeat split; assumption.
      - destruct (nth_error (m_calls s) k) as [c|] eqn:E; [|exact H].
        destruct (c_phase c) eqn:Ph; try exact H. cbn.
        apply Forall_upd; [exact H|]. intros c' Hc' Hinv. rewrite E in Hc'. injection Hc' as <-.
        unfold cinv in *. rewrite Ph in Hinv. cbn. destruct Hinv as (e & A & B & C & D & F).
        exists e. repeat split; assumption.
      - destruct (nth_error (m_calls s) k) as [c|] eqn:E; [|exact H].
        destruct (alive c); [|exact H]. cbn.
        apply Forall_upd; [exact H|]. intros c' _ _. unfold cinv, set_phase. cbn. exact I.
      - exact H.
      - exact H.
    Qed.

    Lemma machine_invariant ops : Forall cinv (m_calls (run_ops st pred ops)).
    Proof.
      unfold run_ops. apply fold_left_inv; [constructor|]. intros s o. apply step_preserves.
    Qed.

    (* REFINEMENT: a call of the machine that has completed returned exactly what the pure
       function [call] specifies for that call's own request and the outcomes delivered to that
       call, and invoked exactly what [call] logs, in that order — whatever the other calls
       through the same service value and its clones did in between *)
    Lemma machine_refines_call ops k c r :
      nth_error (m_calls (run_ops st pred ops)) k = Some c -> c_phase c = PDone r ->
      (exists x, c_inner c = Some (of_sum x)) /\
      forall inner backup,
        c_inner c = Some (of_sum (inner (c_req c))) ->
        (forall o, c_backup c = Some o -> o = of_sum (backup (c_req c))) ->
        r = out (call st pred inner backup (c_req c)) /\
        c_log c = fn_log (call st pred inner backup (c_req c)).
    Proof.
      intros Hn Hp. pose proof (machine_invariant ops) as Hinv.
      rewrite Forall_forall in Hinv. specialize (Hinv c (nth_error_In _ _ Hn)).
      unfold cinv in Hinv. rewrite Hp in Hinv. exact Hinv.
    Qed.

    (* whatever the phase (also for futures that were dropped or that panicked): anything beyond the
       inner call is only ever invoked after an inner ERROR was delivered to that very call; in
       particular a success invokes neither the predicate nor a strategy closure, and nothing of
       the fallback is evaluated ahead of (or while waiting for) the inner call *)
    Definition linv (c : callst Req Res Err) : Prop :=
      c_log c = [] \/ c_log c = [EInner (c_req c)] \/
      exists e rest, c_inner c = Some (OErr e) /\ c_log c = EInner (c_req c) :: rest.

    Lemma Forall_upd2 {A} (P Q : A -> Prop) k (f : A -> A) (l : list A) :
      Forall P l -> Forall Q l -> (forall c, nth_error l k = Some c -> P c -> Q c -> Q (f c)) ->
      Forall Q (upd k f l).
    Proof.
      revert k. induction l as [|x t IH]; intros [|k] HP HQ Hf; cbn; inversion HP; inversion HQ; subst;
        constructor; auto.
      all: try (apply Hf; [reflexivity|assumption|assumption]).
    Qed.

    Lemma poll_preserves_linv c :
      cinv c -> linv c -> linv (set_phase (fst (poll_call st pred c)) (snd (poll_call st pred c)) c).
    Proof.
      unfold cinv, linv, poll_call, set_phase. destruct c as [req ph ci cb lg].
      cbn [c_req c_phase c_inner c_backup c_log].
      destruct ph as [| |o| |o|r| |]; cbn [fst snd]; intros Hc Hl; rewrite ?app_nil_r; try exact Hl.
      - destruct Hc as (-> & _). right. left. reflexivity.
      - destruct Hc as (-> & -> & _). destruct o as [r|e|]; cbn [fst snd]; rewrite ?app_nil_r;
          [right; left; reflexivity| |right; left; reflexivity].
        right. right. exists e. eexists. split; [reflexivity|]. cbn [app]. reflexivity.
      - destruct o; cbn [fst snd]; rewrite ?app_nil_r; exact Hl.
    Qed.

    Lemma step_preserves_linv s o :
      Forall cinv (m_calls s) -> Forall linv (m_calls s) -> Forall linv (m_calls (step st pred s o)).
    Proof.
      intros Hc H. destruct o as [req|k|k o|k o|k|e|]; cbn [step].
      - cbn. apply Forall_app. split; [exact H|]. constructor; [|constructor]. left. reflexivity.
      - destruct (nth_error (m_calls s) k) as [c|] eqn:E; [|exact H].
        destruct (alive c); [|exact H].
        destruct (poll_call st pred c) as [p es] eqn:Ep. cbn.
        apply (Forall_upd2 cinv); [exact Hc|exact H|]. intros c' Hc' Hinv Hl. rewrite E in Hc'. injection Hc' as <-.
        pose proof (poll_preserves_linv c Hinv Hl) as Hp. rewrite Ep in Hp. exact Hp.
      - destruct (nth_error (m_calls s) k) as [c|] eqn:E; [|exact H].
        destruct (c_phase c) eqn:Ph; try exact H. cbn.
        apply (Forall_upd2 cinv); [exact Hc|exact H|]. intros c' Hc' Hinv _. rewrite E in Hc'. injection Hc' as <-.
        unfold cinv in Hinv. rewrite Ph in Hinv. destruct Hinv as (A & _). unfold linv. cbn. right. left. exact A.
      - destruct (nth_error (m_calls s) k) as [c|] eqn:E; [|exact H].
        destruct (c_phase c) eqn:Ph; try exact H. cbn.
        apply (Forall_upd2 cinv); [exact Hc|exact H|]. intros c' _ _ Hl. unfold linv in *. cbn. exact Hl.
      - destruct (nth_error (m_calls s) k) as [c|] eqn:E; [|exact H].
        destruct (alive c); [|exact H]. cbn.
        apply (Forall_upd2 cinv); [exact Hc|exact H|]. intros c' _ _ Hl. unfold linv, set_phase in *. cbn.
        rewrite app_nil_r. exact Hl.
      - exact H.
      - exact H.
    Qed.

    Lemma machine_fallback_only_after_inner_error ops k c :
      nth_error (m_calls (run_ops st pred ops)) k = Some c ->
      c_log c = [] \/ c_log c = [EInner (c_req c)] \/
      exists e rest, c_inner c = Some (OErr e) /\ c_log c = EInner (c_req c) :: rest.
    Proof.
      intros Hn.
      assert (H : Forall cinv (m_calls (run_ops st pred ops)) /\ Forall linv (m_calls (run_ops st pred ops))).
      { unfold run_ops. apply (fold_left_inv (step st pred)
          (fun s => Forall cinv (m_calls s) /\ Forall linv (m_calls s))).
        - split; constructor.
        - intros s o [A B]. split; [apply step_preserves; exact A|apply step_preserves_linv; assumption]. }
      destruct H as [_ H]. rewrite Forall_forall in H. exact (H c (nth_error_In _ _ Hn)).
    Qed.

    (* the delivered inner outcome is set once, when the inner service answers, never changed *)
    Lemma machine_success_invokes_nothing ops k c r :
      nth_error (m_calls (run_ops st pred ops)) k = Some c -> c_inner c = Some (OOk r) ->
      c_log c = [] \/ c_log c = [EInner (c_req c)].
    Proof.
      intros Hn Hi. destruct (machine_fallback_only_after_inner_error ops k c Hn) as [H|[H|(e & rest & He & _)]];
        [left; exact H|right; exact H|congruence].
    Qed.

    (* a failed poll_ready is reported as Inner(e); it involves no call, no predicate, no strategy *)
    Lemma readiness_error_not_handled s e :
      m_calls (step st pred s (OpReadyFail e)) = m_calls s /\
      m_events (step st pred s (OpReadyFail e)) = m_events s /\
      m_ready (step st pred s (OpReadyFail e)) = m_ready s ++ [Inner e].
    Proof. repeat split. Qed.

    (* ---- the global event log of the trace projects to the per-call logs ---- *)
    Definition proj (k : nat) (evs : list (nat * event Req Err)) : list (event Req Err) :=
      map snd (filter (fun ke => Nat.eqb (fst ke) k) evs).

    Lemma proj_app k a b : proj k (a ++ b) = proj k a ++ proj k b.
    Proof. unfold proj. rewrite filter_app, map_app. reflexivity. Qed.

    Lemma proj_tag k k' es : proj k (map (fun e => (k', e)) es) = if Nat.eqb k' k then es else [].
    Proof.
      unfold proj. induction es as [|e es IH]; cbn [map filter fst]; [destruct (Nat.eqb k' k); reflexivity|].
      destruct (Nat.eqb k' k) eqn:E; cbn [map snd]; rewrite IH; reflexivity.
    Qed.

    Definition ginv (s : mstate Req Res Err) : Prop :=
      forall k, proj k (m_events s) = match nth_error (m_calls s) k with Some c => c_log c | None => [] end.

    Lemma ginv_upd s k0 (f : callst Req Res Err -> callst Req Res Err) es c0 :
      ginv s -> nth_error (m_calls s) k0 = Some c0 -> c_log (f c0) = c_log c0 ++ es ->
      ginv (with_calls (upd k0 f (m_calls s)) (map (fun e => (k0, e)) es) s).
    Proof.
      intros G E Hl k. cbn [with_calls m_events m_calls]. rewrite proj_app, proj_tag, G.
      destruct (Nat.eqb_spec k0 k) as [<-|Hne].
      - rewrite (nth_error_upd_same _ _ _ _ E), E. symmetry. exact Hl.
      - rewrite (nth_error_upd_other _ _ _ _ Hne). rewrite app_nil_r. reflexivity.
    Qed.

    Lemma flag_ginv b s : ginv s -> ginv (flag b s).
    Proof. intros G. exact G. Qed.

    Lemma step_ginv s o : ginv s -> ginv (step st pred s o).
    Proof.
      intros G. destruct o as [req|k|k o|k o|k|e|]; cbn [step]; try (apply flag_ginv).
      - intros k. cbn [with_calls m_events m_calls]. rewrite app_nil_r, G.
        destruct (Nat.lt_ge_cases k (length (m_calls s))) as [L|L].
        + rewrite nth_error_app1 by exact L. reflexivity.
        + rewrite nth_error_app2 by exact L.
          replace (nth_error (m_calls s) k) with (@None (callst Req Res Err)) by (symmetry; apply nth_error_None; exact L).
          destruct (k - length (m_calls s))%nat as [|[|n]]; reflexivity.
      - destruct (nth_error (m_calls s) k) as [c|] eqn:E; [|apply flag_ginv; exact G].
        destruct (alive c); [|apply flag_ginv; exact G].
        destruct (poll_call st pred c) as [p es]. apply flag_ginv.
        apply (ginv_upd s k _ es c G E). reflexivity.
      - destruct (nth_error (m_calls s) k) as [c|] eqn:E; [|apply flag_ginv; exact G].
        destruct (c_phase c); try (apply flag_ginv; exact G). apply flag_ginv.
        apply (ginv_upd s k _ [] c G E). cbn. rewrite app_nil_r. reflexivity.
      - destruct (nth_error (m_calls s) k) as [c|] eqn:E; [|apply flag_ginv; exact G].
        destruct (c_phase c); try (apply flag_ginv; exact G). apply flag_ginv.
        apply (ginv_upd s k _ [] c G E). cbn. rewrite app_nil_r. reflexivity.
      - destruct (nth_error (m_calls s) k) as [c|] eqn:E; [|apply flag_ginv; exact G].
        destruct (alive c); [|apply flag_ginv; exact G]. apply flag_ginv.
        apply (ginv_upd s k _ [] c G E). reflexivity.
      - exact G.
      - exact G.
    Qed.

    Lemma events_project ops k :
      proj k (m_events (run_ops st pred ops)) =
      match nth_error (m_calls (run_ops st pred ops)) k with Some c => c_log c | None => [] end.
    Proof.
      revert k. change (ginv (run_ops st pred ops)). unfold run_ops. apply fold_left_inv.
      - intros k. destruct k; reflexivity.
      - intros s o. apply step_ginv.
    Qed.

    (* an operation aimed at call k leaves every other call as it was *)
    Definition target (o : op Req Res Err) : option nat :=
      match o with
      | OpPoll k | OpInnerDone k _ | OpBackupDone k _ | OpDrop k => Some k
      | _ => None
      end.

    Lemma calls_independent s o k c :
      nth_error (m_calls s) k = Some c -> target o <> Some k ->
      nth_error (m_calls (step st pred s o)) k = Some c.
    Proof.
      intros Hn Ht. destruct o as [req|k0|k0 o|k0 o|k0|e|]; cbn [step target] in *.
      - cbn. rewrite nth_error_app1; [exact Hn|]. apply nth_error_Some. congruence.
      - destruct (nth_error (m_calls s) k0) as [c0|]; [|exact Hn]. destruct (alive c0); [|exact Hn].
        destruct (poll_call st pred c0). cbn. rewrite nth_error_upd_other; [exact Hn|congruence].
      - destruct (nth_error (m_calls s) k0) as [c0|]; [|exact Hn]. destruct (c_phase c0); try exact Hn.
        cbn. rewrite nth_error_upd_other; [exact Hn|congruence].
      - destruct (nth_error (m_calls s) k0) as [c0|]; [|exact Hn]. destruct (c_phase c0); try exact Hn.
        cbn. rewrite nth_error_upd_other; [exact Hn|congruence].
      - destruct (nth_error (m_calls s) k0) as [c0|]; [|exact Hn]. destruct (alive c0); [|exact Hn].
        cbn. rewrite nth_error_upd_other; [exact Hn|congruence].
      - exact Hn.
      - exact Hn.
    Qed.
  End Machine.
End P.

(* non-vacuity: concrete scripts through run_script *)
Example ex_service_fails :
  run_script [4; 1; 9; 5; 1; 8; 1; 77] =
  [1; 2; 77; 0; 6; 1; 1; 1; 1; 1; 1; 3; 0; 0; 5; 0; 0; 1; 8; 0; 0; 5; 5; 0].
Proof. vm_compute. reflexivity. Qed.
Example ex_pred_refuses :
  run_script [0; 1; 9; 5; 1; 7; 0; 0] = [1; 1; 7; 0; 6; 1; 1; 1; 1; 0; 0; 2; 0; 0; 5; 0; 0; 1; 7; 0].
Proof. vm_compute. reflexivity. Qed.
(* two overlapping calls through one service (from_request_error), answered in reverse order: each
   call gets its own request; a third call succeeds and invokes nothing *)
Example ex_overlapping :
  run_script [3; 0; 9; 0; 0; 0; 0; 0;  1; 0; 5;  1; 1; 6;  2; 0; 0;  2; 1; 0;  3; 1; 41;  3; 0; 29;  2; 1; 0;  2; 0; 0;
              1; 2; 8;  2; 2; 0;  3; 2; 400;  2; 2; 0] =
  [3; 0; 2192; 0; 2232; 0; 100;  0;  12; 1; 1; 1; 1; 1; 1; 1; 1; 1; 1; 1; 1;
   5; 0; 0; 5; 0;  1; 0; 6; 0;  1; 4; 6; 10;  0; 4; 5; 7;  2; 0; 8; 0].
Proof. vm_compute. reflexivity. Qed.
(* a completed call in a reachable state (hypotheses of machine_refines_call are satisfiable) *)
Example ex_done :
  exists c r, nth_error (m_calls (run_ops (strategy_of [2]) (pred_of 1) (ops_of [2; 1; 9; 5; 1; 8; 0; 0]))) 0 = Some c /\
              c_phase c = PDone r /\ c_inner c = Some (OErr 8).
Proof. eexists. eexists. vm_compute. repeat split. Qed.
