(* Invariants and refinement of the cache model; lemmas used by Props/C10.v. *)
From TR Require Import Lib.Base Model.Cache.
From Coq Require Import Sorted.

Arguments upd : simpl never.

(* ---------- lookup / remove / replace / place ---------- *)
Definition keys (s : store) : list Z := map e_key s.

Lemma has_true k e : has k e = true <-> e_key e = k.
Proof. unfold has. apply Z.eqb_eq. Qed.

Lemma has_false k e : has k e = false <-> e_key e <> k.
Proof. unfold has. apply Z.eqb_neq. Qed.

Lemma lookup_some k s e : lookup k s = Some e -> In e s /\ e_key e = k.
Proof.
  unfold lookup. intros H. apply find_some in H. destruct H as [H1 H2].
  split; [exact H1|apply has_true; exact H2].
Qed.

Lemma lookup_none_iff k s : lookup k s = None <-> ~ In k (keys s).
Proof.
  unfold lookup, keys. induction s as [|a t IH]; cbn.
  - split; [intros _ []|reflexivity].
  - destruct (has k a) eqn:Ha.
    + split; [discriminate|]. intros H. exfalso. apply H. left. apply has_true. exact Ha.
    + rewrite IH. apply has_false in Ha. split.
      * intros H [H1|H1]; [exact (Ha H1)|exact (H H1)].
      * intros H H1. apply H. right. exact H1.
Qed.

Lemma lookup_in_keys k s e : lookup k s = Some e -> In k (keys s).
Proof.
  intros H. apply lookup_some in H. destruct H as [H1 H2]. subst k.
  unfold keys. apply in_map. exact H1.
Qed.

Lemma lookup_cons k a t : lookup k (a :: t) = if has k a then Some a else lookup k t.
Proof. reflexivity. Qed.

Lemma lookup_remove k' k s : lookup k' (remove k s) = if k' =? k then None else lookup k' s.
Proof.
  induction s as [|a t IH]; cbn [remove filter].
  - destruct (k' =? k); reflexivity.
  - destruct (has k a) eqn:Ha; cbn [negb].
    + fold (remove k t). rewrite IH. rewrite lookup_cons.
      destruct (Z.eqb_spec k' k) as [->|Hne]; [reflexivity|].
      apply has_true in Ha. assert (has k' a = false) as ->; [|reflexivity].
      apply has_false. congruence.
    + fold (remove k t). rewrite !lookup_cons, IH.
      destruct (has k' a) eqn:Ha'; [|reflexivity].
      apply has_true in Ha'. apply has_false in Ha.
      destruct (Z.eqb_spec k' k) as [->|Hne]; [congruence|reflexivity].
Qed.

Lemma lookup_app k s1 s2 :
  lookup k (s1 ++ s2) = match lookup k s1 with Some e => Some e | None => lookup k s2 end.
Proof.
  induction s1 as [|a t IH]; cbn [app]; [reflexivity|].
  rewrite !lookup_cons. destruct (has k a); [reflexivity|exact IH].
Qed.

Lemma lookup_single k e : lookup k [e] = if e_key e =? k then Some e else None.
Proof. reflexivity. Qed.

Lemma lookup_replace k' k e' s : e_key e' = k ->
  lookup k' (replace k e' s) =
  if k' =? k then match lookup k s with Some _ => Some e' | None => None end else lookup k' s.
Proof.
  intros Hk. induction s as [|a t IH]; cbn [replace map].
  - destruct (k' =? k); reflexivity.
  - fold (replace k e' t). rewrite !lookup_cons, IH.
    destruct (has k a) eqn:Ha.
    + destruct (Z.eqb_spec k' k) as [->|Hne].
      * assert (has k e' = true) as -> by (apply has_true; exact Hk). reflexivity.
      * assert (has k' e' = false) as -> by (apply has_false; congruence).
        assert (has k' a = false) as ->; [|reflexivity].
        apply has_true in Ha. apply has_false. congruence.
    + destruct (Z.eqb_spec k' k) as [->|Hne].
      * rewrite Ha. reflexivity.
      * reflexivity.
Qed.

Lemma lookup_place p k' k e' e s : e_key e' = k -> lookup k s = Some e ->
  lookup k' (place p k e' s) = if k' =? k then Some e' else lookup k' s.
Proof.
  intros Hk Hl. destruct p; cbn [place].
  - rewrite lookup_app, lookup_remove, lookup_single, Hk.
    destruct (Z.eqb_spec k' k) as [->|Hne].
    + rewrite Z.eqb_refl. reflexivity.
    + destruct (lookup k' s); [reflexivity|].
      destruct (Z.eqb_spec k k'); [congruence|reflexivity].
  - rewrite lookup_replace by exact Hk. rewrite Hl. reflexivity.
  - rewrite lookup_replace by exact Hk. rewrite Hl. reflexivity.
Qed.

Lemma in_remove x k s : In x (remove k s) <-> In x s /\ e_key x <> k.
Proof.
  unfold remove. rewrite filter_In. split; intros [H1 H2]; split; try exact H1.
  - apply has_false. apply Bool.negb_true_iff. exact H2.
  - apply Bool.negb_true_iff. apply has_false. exact H2.
Qed.

Lemma keys_remove x k s : In x (keys (remove k s)) <-> In x (keys s) /\ x <> k.
Proof.
  unfold keys. rewrite !in_map_iff. split.
  - intros [e [He Hin]]. apply in_remove in Hin. destruct Hin as [H1 H2]. subst x.
    split; [exists e; split; [reflexivity|exact H1]|exact H2].
  - intros [[e [He Hin]] Hne]. exists e. split; [exact He|]. apply in_remove.
    split; [exact Hin|congruence].
Qed.

Lemma nodup_remove k s : NoDup (keys s) -> NoDup (keys (remove k s)).
Proof.
  induction s as [|a t IH]; intros H; cbn [remove filter]; [constructor|].
  cbn [keys map] in H. inversion H as [|? ? Ha Ht]; subst. fold (remove k t).
  destruct (negb (has k a)).
  - cbn [keys map]. constructor; [|apply IH; exact Ht].
    intros Hin. apply keys_remove in Hin. destruct Hin as [Hin _]. exact (Ha Hin).
  - apply IH. exact Ht.
Qed.

Lemma length_remove_le k s : (length (remove k s) <= length s)%nat.
Proof.
  unfold remove. induction s as [|a t IH]; cbn [filter length]; [lia|].
  destruct (negb (has k a)); cbn [length]; lia.
Qed.

Lemma remove_notin k s : ~ In k (keys s) -> remove k s = s.
Proof.
  induction s as [|a t IH]; intros H; [reflexivity|]. cbn [remove filter]. fold (remove k t).
  assert (has k a = false) as ->.
  { apply has_false. intros E. apply H. left. exact E. }
  cbn [negb]. f_equal. apply IH. intros Hin. apply H. right. exact Hin.
Qed.

Lemma length_remove_in k s : NoDup (keys s) -> In k (keys s) ->
  S (length (remove k s)) = length s.
Proof.
  induction s as [|a t IH]; intros Hnd Hin; [destruct Hin|].
  cbn [keys map] in Hnd, Hin. inversion Hnd as [|? ? Ha Ht]; subst.
  cbn [remove filter]. fold (remove k t). destruct (has k a) eqn:E; cbn [negb length].
  - apply has_true in E. subst k. rewrite remove_notin by exact Ha. reflexivity.
  - f_equal. apply IH; [exact Ht|]. destruct Hin as [Hin|Hin]; [|exact Hin].
    apply has_false in E. congruence.
Qed.

Lemma keys_replace k e' s : e_key e' = k -> keys (replace k e' s) = keys s.
Proof.
  intros Hk. unfold keys, replace. rewrite map_map. apply map_ext_in.
  intros a _. destruct (has k a) eqn:E; [|reflexivity].
  apply has_true in E. congruence.
Qed.

Lemma length_replace k e' s : length (replace k e' s) = length s.
Proof. unfold replace. apply map_length. Qed.

Lemma in_replace x k e' s : In x (replace k e' s) -> x = e' \/ (In x s /\ e_key x <> k).
Proof.
  unfold replace. rewrite in_map_iff. intros [a [Ha Hin]].
  destruct (has k a) eqn:E.
  - left. symmetry. exact Ha.
  - right. subst x. split; [exact Hin|apply has_false; exact E].
Qed.

Lemma keys_app s e : keys (s ++ [e]) = keys s ++ [e_key e].
Proof. unfold keys. rewrite map_app. reflexivity. Qed.

Lemma nodup_snoc (l : list Z) x : NoDup l -> ~ In x l -> NoDup (l ++ [x]).
Proof.
  induction l as [|y t IH]; intros H Hx; cbn.
  - constructor; [intros []|constructor].
  - inversion H as [|? ? Hy Ht]; subst. constructor.
    + rewrite in_app_iff. intros [Hin|[->|[]]]; [exact (Hy Hin)|].
      apply Hx. left. reflexivity.
    + apply IH; [exact Ht|]. intros Hin. apply Hx. right. exact Hin.
Qed.

Lemma nodup_key_eq s x y : NoDup (keys s) -> In x s -> In y s -> e_key x = e_key y -> x = y.
Proof.
  induction s as [|a t IH]; intros Hnd Hx Hy Hk; [destruct Hx|].
  cbn [keys map] in Hnd. inversion Hnd as [|? ? Ha Ht]; subst.
  destruct Hx as [->|Hx]; destruct Hy as [->|Hy].
  - reflexivity.
  - exfalso. apply Ha. rewrite Hk. apply in_map. exact Hy.
  - exfalso. apply Ha. rewrite <- Hk. apply in_map. exact Hx.
  - apply IH; assumption.
Qed.

Lemma in_lookup s x : NoDup (keys s) -> In x s -> lookup (e_key x) s = Some x.
Proof.
  intros Hnd Hx. destruct (lookup (e_key x) s) as [y|] eqn:E.
  - apply lookup_some in E. destruct E as [Hy Hk]. f_equal.
    apply (nodup_key_eq s); assumption.
  - exfalso. apply lookup_none_iff in E. apply E. apply in_map. exact Hx.
Qed.

(* ---------- sortedness ---------- *)
Definition sorted (f : entry -> Z) (s : store) : Prop :=
  StronglySorted (fun a b => f a < f b) s.

Lemma sorted_remove f k s : sorted f s -> sorted f (remove k s).
Proof.
  unfold sorted. induction s as [|a t IH]; intros H; cbn [remove filter]; [constructor|].
  apply StronglySorted_inv in H. destruct H as [Ht Ha]. fold (remove k t).
  destruct (negb (has k a)).
  - constructor; [apply IH; exact Ht|].
    rewrite Forall_forall in *. intros x Hx. apply in_remove in Hx. apply Ha. apply Hx.
  - apply IH. exact Ht.
Qed.

Lemma sorted_snoc f s e : sorted f s -> (forall x, In x s -> f x < f e) -> sorted f (s ++ [e]).
Proof.
  unfold sorted. induction s as [|a t IH]; intros H Hall; cbn [app].
  - constructor; constructor.
  - apply StronglySorted_inv in H. destruct H as [Ht Ha]. constructor.
    + apply IH; [exact Ht|]. intros x Hx. apply Hall. right. exact Hx.
    + rewrite Forall_forall in *. intros x Hx. apply in_app_iff in Hx.
      destruct Hx as [Hx|[<-|[]]]; [apply Ha; exact Hx|]. apply Hall. left. reflexivity.
Qed.

Lemma sorted_map f g s : (forall x, In x s -> f (g x) = f x) -> sorted f s -> sorted f (map g s).
Proof.
  unfold sorted. induction s as [|a t IH]; intros Hg H; cbn [map]; [constructor|].
  apply StronglySorted_inv in H. destruct H as [Ht Ha]. constructor.
  - apply IH; [|exact Ht]. intros x Hx. apply Hg. right. exact Hx.
  - rewrite Forall_forall in *. intros y Hy. apply in_map_iff in Hy.
    destruct Hy as [x [<- Hx]]. rewrite (Hg a) by (left; reflexivity).
    rewrite (Hg x) by (right; exact Hx). apply Ha. exact Hx.
Qed.

Lemma sorted_head f a t : sorted f (a :: t) -> forall x, In x t -> f a < f x.
Proof.
  unfold sorted. intros H. apply StronglySorted_inv in H. destruct H as [_ Ha].
  rewrite Forall_forall in Ha. exact Ha.
Qed.

(* ---------- what the container operations do to the key -> entry map ---------- *)
Definition bumped (k : Z) (e : entry) (tk : Z) : entry :=
  mkE k (e_val e) (e_time e) (e_freq e + 1) tk (e_ins e).

Definition stored_entry (old : option entry) (k v now tk : Z) : entry :=
  match old with
  | Some e => mkE k v now (e_freq e + 1) tk (e_ins e)
  | None => mkE k v now 1 tk tk
  end.

Lemma get_spec c now tk s k s1 g : store_get c now tk s k = (s1, g) ->
  match g with
  | Absent => lookup k s = None /\ s1 = s
  | Hit v => exists e, lookup k s = Some e /\ v = e_val e /\ expired (ttl c) now e = false /\
       forall k', lookup k' s1 = if k' =? k then Some (bumped k e tk) else lookup k' s
  | Expired => exists e, lookup k s = Some e /\ expired (ttl c) now e = true /\
       forall k', lookup k' s1 = if k' =? k then None else lookup k' s
  end.
Proof.
  unfold store_get. destruct (lookup k s) as [e|] eqn:El.
  - destruct (expired (ttl c) now e) eqn:Ex; intros H; inversion H; subst; clear H.
    + exists e. split; [reflexivity|]. split; [exact Ex|]. intros k'.
      rewrite lookup_remove. destruct (Z.eqb_spec k' k) as [->|Hne]; [reflexivity|].
      rewrite (lookup_place _ _ _ _ e) by (try reflexivity; exact El).
      destruct (Z.eqb_spec k' k); [congruence|reflexivity].
    + exists e. split; [reflexivity|]. split; [reflexivity|]. split; [exact Ex|]. intros k'.
      rewrite (lookup_place _ _ _ _ e) by (try reflexivity; exact El). reflexivity.
  - intros H; inversion H; subst. split; reflexivity.
Qed.

Lemma insert_spec c orc now tk s k v s1 vic b : insert c orc now tk s k v = (s1, vic, b) ->
  (forall x, vic = Some x -> lookup k s = None /\ full c s = true) /\
  forall k', lookup k' s1 =
    if k' =? k then Some (stored_entry (lookup k s) k v now tk)
    else match vic with Some x => if k' =? x then None else lookup k' s | None => lookup k' s end.
Proof.
  unfold insert. destruct (lookup k s) as [e|] eqn:El.
  - intros H; inversion H; subst; clear H. split; [intros x Hx; discriminate|]. intros k'.
    rewrite (lookup_place _ _ _ _ e) by (try reflexivity; exact El). reflexivity.
  - assert (Hnew : forall s0 k', lookup k s0 = None ->
              lookup k' (s0 ++ [mkE k v now 1 tk tk]) = if k' =? k then Some (mkE k v now 1 tk tk) else lookup k' s0).
    { intros s0 k' H0. rewrite lookup_app, lookup_single. cbn [e_key].
      destruct (Z.eqb_spec k' k) as [->|Hne].
      - rewrite H0, Z.eqb_refl. reflexivity.
      - destruct (lookup k' s0); [reflexivity|]. destruct (Z.eqb_spec k k'); [congruence|reflexivity]. }
    destruct (full c s) eqn:Ef.
    + destruct (victim_key (pol c) orc s) as [[x|] b0] eqn:Ev; intros H; inversion H; subst; clear H.
      * split; [intros y Hy; split; reflexivity|]. intros k'.
        rewrite Hnew by (rewrite lookup_remove, El; destruct (k =? x); reflexivity).
        rewrite lookup_remove. reflexivity.
      * split; [intros y Hy; discriminate|]. intros k'. rewrite Hnew by exact El. reflexivity.
    + intros H; inversion H; subst; clear H. split; [intros y Hy; discriminate|]. intros k'.
      rewrite Hnew by exact El. reflexivity.
Qed.

(* ---------- victims ---------- *)
Lemma is_min_spec s e : is_min s e = true <-> forall x, In x s -> e_freq e <= e_freq x.
Proof.
  unfold is_min. rewrite forallb_forall. split; intros H x Hx.
  - apply Z.leb_le. apply H. exact Hx.
  - apply Z.leb_le. apply H. exact Hx.
Qed.

Lemma exists_min (s : store) : s <> [] -> exists e, In e s /\ forall x, In x s -> e_freq e <= e_freq x.
Proof.
  induction s as [|a t IH]; intros Hne; [congruence|].
  destruct t as [|b t'].
  - exists a. split; [left; reflexivity|]. intros x [<-|[]]. lia.
  - destruct IH as [m [Hm Hmin]]; [discriminate|].
    destruct (Z.le_gt_cases (e_freq a) (e_freq m)) as [Hle|Hgt].
    + exists a. split; [left; reflexivity|]. intros x [<-|Hx]; [lia|].
      specialize (Hmin x Hx). lia.
    + exists m. split; [right; exact Hm|]. intros x [<-|Hx]; [lia|]. apply Hmin. exact Hx.
Qed.

Lemma find_min_some s : s <> [] -> exists e, find (is_min s) s = Some e.
Proof.
  intros Hne. destruct (find (is_min s) s) as [e|] eqn:E; [exists e; reflexivity|].
  exfalso. destruct (exists_min s Hne) as [m [Hm Hmin]].
  apply (find_none _ _ E) in Hm as Hf. apply is_min_spec in Hmin. congruence.
Qed.

(* the victim is an entry of the store; for LFU it has minimal frequency whatever the oracle says *)
Lemma victim_spec p orc s x b : NoDup (keys s) -> victim_key p orc s = (Some x, b) ->
  exists ve, lookup x s = Some ve /\ In ve s /\
    match p with
    | Lfu => forall y, In y s -> e_freq ve <= e_freq y
    | _ => exists t, s = ve :: t
    end.
Proof.
  intros Hnd.
  assert (Hhd : forall a t, s = a :: t -> lookup (e_key a) s = Some a).
  { intros a t ->. rewrite lookup_cons.
    assert (has (e_key a) a = true) as -> by (apply has_true; reflexivity). reflexivity. }
  destruct p; cbn [victim_key].
  - destruct s as [|a t]; cbn [hd_error option_map]; intros H; inversion H; subst.
    exists a. split; [apply (Hhd a t); reflexivity|]. split; [left; reflexivity|exists t; reflexivity].
  - unfold lfu_victim.
    destruct (find (fun e => has orc e && is_min s e) s) as [e|] eqn:E.
    + intros H; inversion H; subst. apply find_some in E. destruct E as [Hin Hb].
      apply andb_prop in Hb. destruct Hb as [Hh Hm]. apply has_true in Hh. subst x.
      exists e. split; [apply in_lookup; assumption|]. split; [exact Hin|].
      apply is_min_spec. exact Hm.
    + destruct (find (is_min s) s) as [e|] eqn:E2; cbn [option_map]; intros H; inversion H; subst.
      apply find_some in E2. destruct E2 as [Hin Hm].
      exists e. split; [apply in_lookup; assumption|]. split; [exact Hin|].
      apply is_min_spec. exact Hm.
  - destruct s as [|a t]; cbn [hd_error option_map]; intros H; inversion H; subst.
    exists a. split; [apply (Hhd a t); reflexivity|]. split; [left; reflexivity|exists t; reflexivity].
Qed.

(* a full store always yields a victim *)
Lemma victim_exists p orc s : s <> [] -> exists x b, victim_key p orc s = (Some x, b).
Proof.
  intros Hne. destruct p; cbn [victim_key].
  - destruct s as [|a t]; [congruence|]. cbn. eexists; eexists; reflexivity.
  - unfold lfu_victim. destruct (find (fun e => has orc e && is_min s e) s).
    + eexists; eexists; reflexivity.
    + destruct (find_min_some s Hne) as [e ->]. cbn. eexists; eexists; reflexivity.
  - destruct s as [|a t]; [congruence|]. cbn. eexists; eexists; reflexivity.
Qed.

(* ---------- invariant of one store ---------- *)
Record SI (c : cfg) (nw tk : Z) (s : store) : Prop := {
  si_nd : NoDup (keys s);
  si_len : (length s <= cap_of c)%nat;
  si_tk : forall e, In e s -> e_used e < tk /\ e_ins e < tk /\ e_time e <= nw;
  si_lru : pol c = Lru -> sorted e_used s;     (* least recently used first *)
  si_fifo : pol c = Fifo -> sorted e_ins s     (* first in first *)
}.

Lemma cap_pos c : (1 <= cap_of c)%nat.
Proof.
  unfold cap_of. destruct (pol c); try lia.
  destruct (Nat.eqb_spec (max_size c) 0); lia.
Qed.

Lemma cap_wf c : (1 <= max_size c)%nat -> cap_of c = max_size c.
Proof.
  intros H. unfold cap_of. destruct (pol c); try lia.
  destruct (Nat.eqb_spec (max_size c) 0); lia.
Qed.

Lemma SI_nil c nw tk : SI c nw tk [].
Proof.
  constructor; cbn.
  - constructor.
  - lia.
  - intros e [].
  - intros _. constructor.
  - intros _. constructor.
Qed.

Lemma SI_mono c nw tk nw' tk' s : SI c nw tk s -> nw <= nw' -> tk <= tk' -> SI c nw' tk' s.
Proof.
  intros [H1 H2 H3 H4 H5] Hn Ht. constructor; try assumption.
  intros e He. specialize (H3 e He). lia.
Qed.

Lemma SI_remove c nw tk k s : SI c nw tk s -> SI c nw tk (remove k s).
Proof.
  intros [H1 H2 H3 H4 H5]. constructor.
  - apply nodup_remove. exact H1.
  - pose proof (length_remove_le k s). lia.
  - intros e He. apply in_remove in He. apply H3. apply He.
  - intros Hp. apply sorted_remove. apply H4. exact Hp.
  - intros Hp. apply sorted_remove. apply H5. exact Hp.
Qed.

Lemma SI_place c nw tk k e e' s : SI c nw tk s -> lookup k s = Some e ->
  e_key e' = k -> e_used e' = tk -> e_ins e' = e_ins e -> e_time e' <= nw ->
  SI c nw (tk + 1) (place (pol c) k e' s).
Proof.
  intros [H1 H2 H3 H4 H5] Hl Hk Hu Hi Ht.
  pose proof (lookup_some _ _ _ Hl) as [Hin Hke].
  assert (He' : e_used e' < tk + 1 /\ e_ins e' < tk + 1 /\ e_time e' <= nw).
  { specialize (H3 e Hin). lia. }
  destruct (pol c) eqn:Hp; cbn [place]; constructor; try (intros Hq; congruence).
  - (* Lru: NoDup *)
    rewrite keys_app. apply nodup_snoc; [apply nodup_remove; exact H1|].
    rewrite Hk. intros Hc. apply keys_remove in Hc. destruct Hc as [_ Hc]. congruence.
  - rewrite app_length. cbn [length].
    pose proof (length_remove_in k s H1 (lookup_in_keys _ _ _ Hl)). lia.
  - intros x Hx. apply in_app_iff in Hx. destruct Hx as [Hx|[<-|[]]]; [|exact He'].
    apply in_remove in Hx. destruct Hx as [Hx _]. specialize (H3 x Hx). lia.
  - intros _. apply sorted_snoc; [apply sorted_remove; apply H4; reflexivity|].
    intros x Hx. apply in_remove in Hx. destruct Hx as [Hx _]. specialize (H3 x Hx). lia.
  - (* Lfu *)
    rewrite keys_replace by exact Hk. exact H1.
  - rewrite length_replace. exact H2.
  - intros x Hx. apply in_replace in Hx. destruct Hx as [->|[Hx _]]; [exact He'|].
    specialize (H3 x Hx). lia.
  - (* Fifo *)
    rewrite keys_replace by exact Hk. exact H1.
  - rewrite length_replace. exact H2.
  - intros x Hx. apply in_replace in Hx. destruct Hx as [->|[Hx _]]; [exact He'|].
    specialize (H3 x Hx). lia.
  - intros _. unfold replace. apply sorted_map; [|apply H5; reflexivity].
    intros x Hx. destruct (has k x) eqn:E; [|reflexivity].
    apply has_true in E. rewrite Hi. f_equal. apply (nodup_key_eq s); try assumption. congruence.
Qed.

Lemma SI_snoc c nw tk s k v t f : SI c nw tk s -> lookup k s = None ->
  (length s < cap_of c)%nat -> t <= nw ->
  SI c nw (tk + 1) (s ++ [mkE k v t f tk tk]).
Proof.
  intros [H1 H2 H3 H4 H5] Hl Hlen Ht. constructor.
  - rewrite keys_app. apply nodup_snoc; [exact H1|]. cbn [e_key]. apply lookup_none_iff. exact Hl.
  - rewrite app_length. cbn [length]. lia.
  - intros x Hx. apply in_app_iff in Hx. destruct Hx as [Hx|[<-|[]]].
    + specialize (H3 x Hx). lia.
    + cbn. lia.
  - intros Hp. apply sorted_snoc; [apply H4; exact Hp|].
    intros x Hx. specialize (H3 x Hx). cbn. lia.
  - intros Hp. apply sorted_snoc; [apply H5; exact Hp|].
    intros x Hx. specialize (H3 x Hx). cbn. lia.
Qed.

Lemma SI_get c nw tk s k : SI c nw tk s -> SI c nw (tk + 1) (fst (store_get c nw tk s k)).
Proof.
  intros H. unfold store_get. destruct (lookup k s) as [e|] eqn:El; cbn [fst].
  - assert (Hp : SI c nw (tk + 1) (place (pol c) k (mkE k (e_val e) (e_time e) (e_freq e + 1) tk (e_ins e)) s)).
    { apply (SI_place c nw tk k e); try reflexivity; try assumption.
      cbn. apply lookup_some in El. destruct El as [Hin _]. apply (si_tk _ _ _ _ H) in Hin. lia. }
    destruct (expired (ttl c) nw e); cbn [fst]; [apply SI_remove|]; exact Hp.
  - apply (SI_mono c nw tk); [exact H|lia|lia].
Qed.

Lemma not_full_lt c s : (length s <= cap_of c)%nat -> full c s = false -> (length s < cap_of c)%nat.
Proof.
  unfold full. intros Hle. destruct (pol c).
  - intros H. apply Nat.eqb_neq in H. lia.
  - intros H. apply Nat.leb_gt in H. exact H.
  - intros H. apply Nat.leb_gt in H. exact H.
Qed.

Lemma full_len c s : (length s <= cap_of c)%nat -> full c s = true -> length s = cap_of c.
Proof.
  unfold full. intros Hle. destruct (pol c).
  - intros H. apply Nat.eqb_eq in H. exact H.
  - intros H. apply Nat.leb_le in H. lia.
  - intros H. apply Nat.leb_le in H. lia.
Qed.

Lemma SI_insert c orc nw tk s k v :
  SI c nw tk s -> SI c nw (tk + 1) (fst (fst (insert c orc nw tk s k v))).
Proof.
  intros H. unfold insert. destruct (lookup k s) as [e|] eqn:El; cbn [fst].
  - apply (SI_place c nw tk k e); try reflexivity; try assumption; try (cbn; lia).
  - destruct (full c s) eqn:Ef.
    + pose proof (full_len c s (si_len _ _ _ _ H) Ef) as Hlen.
      assert (Hne : s <> []).
      { intros ->. cbn in Hlen. pose proof (cap_pos c). lia. }
      destruct (victim_exists (pol c) orc s Hne) as [x [b Hv]]. rewrite Hv. cbn [fst].
      destruct (victim_spec _ _ _ _ _ (si_nd _ _ _ _ H) Hv) as [ve [Hlv _]].
      apply SI_snoc; [apply SI_remove; exact H| | |lia].
      * rewrite lookup_remove, El. destruct (k =? x); reflexivity.
      * pose proof (length_remove_in x s (si_nd _ _ _ _ H) (lookup_in_keys _ _ _ Hlv)). lia.
    + cbn [fst]. apply SI_snoc; [exact H|exact El| |lia].
      apply not_full_lt; [apply (si_len _ _ _ _ H)|exact Ef].
Qed.

(* ---------- the whole state ---------- *)
Lemma upd_same {A} (f : nat -> A) i v : upd f i v i = v.
Proof. unfold upd. rewrite Nat.eqb_refl. reflexivity. Qed.

Lemma upd_other {A} (f : nat -> A) i v j : j <> i -> upd f i v j = f j.
Proof. intros H. unfold upd. apply Nat.eqb_neq in H. rewrite H. reflexivity. Qed.

(* case analysis of one step: 24 leaves; names Ecs (caller state), Eg (lookup result /
   gate), Ei (insert result) *)
Ltac step_cases c s e :=
  unfold step_st, step; unfold step0;
  destruct e as [i svc k|i orc|i|d|i oc|];
  [ destruct (cs s i) as [|v0|sid0 k0| |] eqn:Ecs;
    [ destruct (store_get c (now s) (tick s) (stores s (sid_of c svc)) k) as [s1 g] eqn:Eg;
      destruct g as [v| |] | | | | ]
  | destruct (cs s i) as [|v0|sid0 k0| |] eqn:Ecs;
    [ | | destruct (gate s i) as [[v| |]|] eqn:Eg;
          [ destruct (insert c orc (now s) (tick s) (stores s sid0) k0 v) as [[s1 vic] b] eqn:Ei
          | | | ] | | ]
  | destruct (cs s i) as [|v0|sid0 k0| |] eqn:Ecs
  |
  | destruct (gate s i) as [oc0|] eqn:Eg
  | ];
  cbn [fst snd now tick stores cs gate o_r o_val o_started o_evt o_hit o_exp o_stored o_victim
       o_bad set_cs no_obs poll_obs].

Definition Inv (c : cfg) (s : st) : Prop := forall sid, SI c (now s) (tick s) (stores s sid).

Lemma Inv_init c : Inv c (init c).
Proof. intros sid. apply SI_nil. Qed.

Lemma Inv_step c s e : Inv c s -> Inv c (step_st c s e).
Proof.
  intros H sid'. unfold Inv in H.
  step_cases c s e;
    try (apply (SI_mono c (now s) (tick s)); [apply H|lia|lia]).
  - destruct (Nat.eq_dec sid' (sid_of c svc)) as [->|Hne].
    + rewrite upd_same. replace s1 with (fst (store_get c (now s) (tick s) (stores s (sid_of c svc)) k))
        by (rewrite Eg; reflexivity). apply SI_get. apply H.
    + rewrite upd_other by exact Hne. apply (SI_mono c (now s) (tick s)); [apply H|lia|lia].
  - destruct (Nat.eq_dec sid' (sid_of c svc)) as [->|Hne].
    + rewrite upd_same. replace s1 with (fst (store_get c (now s) (tick s) (stores s (sid_of c svc)) k))
        by (rewrite Eg; reflexivity). apply SI_get. apply H.
    + rewrite upd_other by exact Hne. apply (SI_mono c (now s) (tick s)); [apply H|lia|lia].
  - destruct (Nat.eq_dec sid' (sid_of c svc)) as [->|Hne].
    + rewrite upd_same. replace s1 with (fst (store_get c (now s) (tick s) (stores s (sid_of c svc)) k))
        by (rewrite Eg; reflexivity). apply SI_get. apply H.
    + rewrite upd_other by exact Hne. apply (SI_mono c (now s) (tick s)); [apply H|lia|lia].
  - destruct (Nat.eq_dec sid' sid0) as [->|Hne].
    + rewrite upd_same. replace s1 with (fst (fst (insert c orc (now s) (tick s) (stores s sid0) k0 v)))
        by (rewrite Ei; reflexivity). apply SI_insert. apply H.
    + rewrite upd_other by exact Hne. apply (SI_mono c (now s) (tick s)); [apply H|lia|lia].
Qed.

Lemma reach_Inv c evs : Forall (Inv c) (states (step_st c) (init c) evs).
Proof. apply reach_inv; [apply Inv_init|intros s e; apply Inv_step]. Qed.

Lemma final_Inv c evs : Inv c (final c (init c) evs).
Proof. unfold final. apply fold_left_inv; [apply Inv_init|intros s e; apply Inv_step]. Qed.

Lemma size_le_max c evs : (1 <= max_size c)%nat ->
  Forall (fun s => forall sid, (length (stores s sid) <= max_size c)%nat)
         (states (step_st c) (init c) evs).
Proof.
  intros Hwf. eapply Forall_impl; [|apply reach_Inv].
  intros s H sid. rewrite <- (cap_wf c Hwf). apply (si_len _ _ _ _ (H sid)).
Qed.

Lemma keys_nodup c evs :
  Forall (fun s => forall sid, NoDup (map e_key (stores s sid))) (states (step_st c) (init c) evs).
Proof.
  eapply Forall_impl; [|apply reach_Inv]. intros s H sid. apply (si_nd _ _ _ _ (H sid)).
Qed.

(* ---------- the reference cache: a map computed from the observations alone ---------- *)
(* store id -> key -> (value, stored-at instant, frequency, index of last use, index of insertion).
   An observation says what happened (hit / expired entry removed / value stored / victim
   evicted); the map is "what a cache must contain" after it.  Nothing here looks at the
   model's lists. *)
Definition amap := nat -> Z -> option entry.

Definition aset (A : amap) (sid : nat) (k : Z) (x : option entry) : amap :=
  fun sid' k' => if Nat.eqb sid' sid && (k' =? k) then x else A sid' k'.

Definition spec_step (na : Z * amap) (o : obs) : Z * amap :=
  let n := fst na in
  let A := snd na in
  let A1 := match o_victim o with Some (sid, x) => aset A sid x None | None => A end in
  let A2 := match o_exp o with Some (sid, k) => aset A1 sid k None | None => A1 end in
  let A3 := match o_hit o with
            | Some (sid, k, _) =>
              match A2 sid k with
              | Some a => aset A2 sid k (Some (bumped k a n))
              | None => A2
              end
            | None => A2
            end in
  let A4 := match o_stored o with
            | Some (sid, k, v, t) => aset A3 sid k (Some (stored_entry (A3 sid k) k v t n))
            | None => A3
            end in
  (n + 1, A4).

Definition spec0 : Z * amap := (0, fun _ _ => None).
Definition spec (tr : list obs) : Z * amap := fold_left spec_step tr spec0.

Lemma aset_same A sid k x : aset A sid k x sid k = x.
Proof. unfold aset. rewrite Nat.eqb_refl, Z.eqb_refl. reflexivity. Qed.

Lemma aset_other A sid k x sid' k' : (sid' <> sid \/ k' <> k) -> aset A sid k x sid' k' = A sid' k'.
Proof.
  intros H. unfold aset. destruct (Nat.eqb_spec sid' sid); [|reflexivity].
  destruct (Z.eqb_spec k' k); [|reflexivity]. exfalso. destruct H; congruence.
Qed.

(* the model's stores, read as maps, are the reference cache of the observations so far *)
Definition Ref (s : st) (na : Z * amap) : Prop :=
  tick s = fst na /\ forall sid k, lookup k (stores s sid) = snd na sid k.

Lemma Ref_init c : Ref (init c) spec0.
Proof. split; reflexivity. Qed.

Lemma Ref_step c s e na : Ref s na -> Ref (step_st c s e) (spec_step na (snd (step c s e))).
Proof.
  intros [Ht HA]. destruct na as [n A]. cbn [fst snd] in Ht, HA.
  step_cases c s e; unfold spec_step; cbn [fst snd o_hit o_exp o_stored o_victim];
    try (split; [cbn; lia|exact HA]).
  - (* hit *)
    apply get_spec in Eg. destruct Eg as [e0 [Hl [Hv [_ Hs1]]]].
    rewrite <- HA, Hl. split; [cbn; lia|]. intros sid' k'. cbn [snd stores]. unfold aset.
    destruct (Nat.eqb_spec sid' (sid_of c svc)) as [->|Hne]; cbn [andb].
    + rewrite upd_same, Hs1, Ht. destruct (k' =? k); [reflexivity|apply HA].
    + rewrite upd_other by exact Hne. apply HA.
  - (* expired *)
    apply get_spec in Eg. destruct Eg as [e0 [Hl [_ Hs1]]].
    split; [cbn; lia|]. intros sid' k'. cbn [snd stores]. unfold aset.
    destruct (Nat.eqb_spec sid' (sid_of c svc)) as [->|Hne]; cbn [andb].
    + rewrite upd_same, Hs1. destruct (k' =? k); [reflexivity|apply HA].
    + rewrite upd_other by exact Hne. apply HA.
  - (* absent *)
    apply get_spec in Eg. destruct Eg as [_ ->].
    split; [cbn; lia|]. intros sid' k'. cbn [snd stores].
    destruct (Nat.eq_dec sid' (sid_of c svc)) as [->|Hne].
    + rewrite upd_same. apply HA.
    + rewrite upd_other by exact Hne. apply HA.
  - (* value stored *)
    apply insert_spec in Ei. destruct Ei as [Hvic Hs1].
    split; [cbn; lia|]. intros sid' k'. cbn [snd stores].
    destruct vic as [x|].
    + unfold aset at 1. destruct (Nat.eqb_spec sid' sid0) as [->|Hne]; cbn [andb].
      * rewrite upd_same, Hs1, Ht. destruct (Z.eqb_spec k' k0) as [->|Hk].
        -- f_equal. f_equal. unfold aset. rewrite Nat.eqb_refl. cbn [andb].
           destruct (k0 =? x) eqn:E; [|apply HA].
           (* the victim is another key: k0 is absent *)
           apply Z.eqb_eq in E. subst x. destruct (Hvic k0 eq_refl) as [-> _]. reflexivity.
        -- unfold aset. rewrite Nat.eqb_refl. cbn [andb]. destruct (k' =? x); [reflexivity|apply HA].
      * rewrite upd_other by exact Hne. unfold aset.
        destruct (Nat.eqb_spec sid' sid0); [congruence|]. cbn [andb]. apply HA.
    + unfold aset. destruct (Nat.eqb_spec sid' sid0) as [->|Hne]; cbn [andb].
      * rewrite upd_same, Hs1, Ht. destruct (Z.eqb_spec k' k0) as [->|Hk].
        -- rewrite HA. reflexivity.
        -- apply HA.
      * rewrite upd_other by exact Hne. apply HA.
Qed.

(* ---------- traces ---------- *)
Lemma final_app c s e1 e2 : final c s (e1 ++ e2) = final c (final c s e1) e2.
Proof. unfold final. apply fold_left_app. Qed.

Lemma trace_app c s e1 e2 : trace c s (e1 ++ e2) = trace c s e1 ++ trace c (final c s e1) e2.
Proof.
  revert s. induction e1 as [|e t IH]; intros s; cbn [app trace]; [reflexivity|].
  rewrite IH. reflexivity.
Qed.

Lemma Ref_run c evs s na : Ref s na -> Ref (final c s evs) (fold_left spec_step (trace c s evs) na).
Proof.
  revert s na. induction evs as [|e t IH]; intros s na H; cbn [trace fold_left]; [exact H|].
  apply IH. apply Ref_step. exact H.
Qed.

Lemma refines_map c evs sid k :
  lookup k (stores (final c (init c) evs) sid) = snd (spec (trace c (init c) evs)) sid k.
Proof. apply (Ref_run c evs (init c) spec0 (Ref_init c)). Qed.

Lemma spec_tick c evs : fst (spec (trace c (init c) evs)) = tick (final c (init c) evs).
Proof. symmetry. apply (Ref_run c evs (init c) spec0 (Ref_init c)). Qed.

(* ---------- "latest stored" ---------- *)
Definition lmap := nat -> Z -> option (Z * Z).

Definition upd_latest (m : lmap) (o : obs) : lmap :=
  match o_stored o with
  | Some (sid, k, v, t) =>
    fun sid' k' => if Nat.eqb sid' sid && (k' =? k) then Some (v, t) else m sid' k'
  | None => m
  end.

Definition latest_of (tr : list obs) : lmap := fold_left upd_latest tr (fun _ _ => None).

Definition stores_to (sid : nat) (k : Z) (o : obs) : Prop :=
  exists v t, o_stored o = Some (sid, k, v, t).

Lemma upd_latest_other m o sid k : ~ stores_to sid k o -> upd_latest m o sid k = m sid k.
Proof.
  intros H. unfold upd_latest. destruct (o_stored o) as [[[[sid0 k0] v] t]|] eqn:E; [|reflexivity].
  destruct (Nat.eqb_spec sid sid0) as [->|]; [|reflexivity].
  destruct (Z.eqb_spec k k0) as [->|]; [|reflexivity].
  exfalso. apply H. exists v, t. exact E.
Qed.

Lemma upd_latest_same m o sid k v t : o_stored o = Some (sid, k, v, t) -> upd_latest m o sid k = Some (v, t).
Proof. intros H. unfold upd_latest. rewrite H, Nat.eqb_refl, Z.eqb_refl. reflexivity. Qed.

Lemma latest_snoc tr o : latest_of (tr ++ [o]) = upd_latest (latest_of tr) o.
Proof. unfold latest_of. rewrite fold_left_app. reflexivity. Qed.

(* latest_of is the last Stored observation for that store and key *)
Lemma latest_is_last_stored tr sid k v t :
  latest_of tr sid k = Some (v, t) <->
  exists tr1 o tr2, tr = tr1 ++ o :: tr2 /\ o_stored o = Some (sid, k, v, t) /\
                    forall o', In o' tr2 -> ~ stores_to sid k o'.
Proof.
  revert v t. induction tr as [|o tr IH] using rev_ind; intros v t.
  - split; [discriminate|]. intros [tr1 [o [tr2 [H _]]]]. destruct tr1; discriminate.
  - rewrite latest_snoc.
    destruct (o_stored o) as [[[[sid0 k0] v0] t0]|] eqn:E.
    + destruct (Nat.eq_dec sid sid0) as [<-|Hs]; [destruct (Z.eq_dec k k0) as [<-|Hk]|].
      * rewrite (upd_latest_same _ _ _ _ _ _ E). split.
        -- intros H; inversion H; subst. exists tr, o, []. split; [reflexivity|].
           split; [exact E|intros o' []].
        -- intros [tr1 [o1 [tr2 [Heq [Hst Hno]]]]].
           destruct tr2 as [|o2 tr2] using rev_ind.
           ++ apply app_inj_tail in Heq. destruct Heq as [_ <-]. congruence.
           ++ clear IHtr2. rewrite app_comm_cons, app_assoc in Heq.
              apply app_inj_tail in Heq. destruct Heq as [_ <-].
              exfalso. apply (Hno o); [apply in_app_iff; right; left; reflexivity|].
              exists v0, t0. exact E.
      * assert (Hn : ~ stores_to sid k o).
        { intros [v1 [t1 H1]]. congruence. }
        rewrite upd_latest_other by exact Hn. rewrite IH. split.
        -- intros [tr1 [o1 [tr2 [-> [Hst Hno]]]]]. exists tr1, o1, (tr2 ++ [o]).
           split; [rewrite <- app_assoc; reflexivity|]. split; [exact Hst|].
           intros o' Ho'. apply in_app_iff in Ho'. destruct Ho' as [Ho'|[<-|[]]]; [apply Hno; exact Ho'|exact Hn].
        -- intros [tr1 [o1 [tr2 [Heq [Hst Hno]]]]].
           destruct tr2 as [|o2 tr2] using rev_ind.
           ++ apply app_inj_tail in Heq. destruct Heq as [_ <-]. congruence.
           ++ clear IHtr2. rewrite app_comm_cons, app_assoc in Heq.
              apply app_inj_tail in Heq. destruct Heq as [-> <-].
              exists tr1, o1, tr2. split; [reflexivity|]. split; [exact Hst|].
              intros o' Ho'. apply Hno. apply in_app_iff. left. exact Ho'.
      * assert (Hn : ~ stores_to sid k o).
        { intros [v1 [t1 H1]]. congruence. }
        rewrite upd_latest_other by exact Hn. rewrite IH. split.
        -- intros [tr1 [o1 [tr2 [-> [Hst Hno]]]]]. exists tr1, o1, (tr2 ++ [o]).
           split; [rewrite <- app_assoc; reflexivity|]. split; [exact Hst|].
           intros o' Ho'. apply in_app_iff in Ho'. destruct Ho' as [Ho'|[<-|[]]]; [apply Hno; exact Ho'|exact Hn].
        -- intros [tr1 [o1 [tr2 [Heq [Hst Hno]]]]].
           destruct tr2 as [|o2 tr2] using rev_ind.
           ++ apply app_inj_tail in Heq. destruct Heq as [_ <-]. congruence.
           ++ clear IHtr2. rewrite app_comm_cons, app_assoc in Heq.
              apply app_inj_tail in Heq. destruct Heq as [-> <-].
              exists tr1, o1, tr2. split; [reflexivity|]. split; [exact Hst|].
              intros o' Ho'. apply Hno. apply in_app_iff. left. exact Ho'.
    + assert (Hn : ~ stores_to sid k o).
      { intros [v1 [t1 H1]]. congruence. }
      rewrite upd_latest_other by exact Hn. rewrite IH. split.
      * intros [tr1 [o1 [tr2 [-> [Hst Hno]]]]]. exists tr1, o1, (tr2 ++ [o]).
        split; [rewrite <- app_assoc; reflexivity|]. split; [exact Hst|].
        intros o' Ho'. apply in_app_iff in Ho'. destruct Ho' as [Ho'|[<-|[]]]; [apply Hno; exact Ho'|exact Hn].
      * intros [tr1 [o1 [tr2 [Heq [Hst Hno]]]]].
        destruct tr2 as [|o2 tr2] using rev_ind.
        -- apply app_inj_tail in Heq. destruct Heq as [_ <-]. congruence.
        -- clear IHtr2. rewrite app_comm_cons, app_assoc in Heq.
           apply app_inj_tail in Heq. destruct Heq as [-> <-].
           exists tr1, o1, tr2. split; [reflexivity|]. split; [exact Hst|].
           intros o' Ho'. apply Hno. apply in_app_iff. left. exact Ho'.
Qed.

(* every entry of the reference cache carries the latest stored value and its instant *)
Definition sub (A : amap) (m : lmap) : Prop :=
  forall sid k a, A sid k = Some a -> m sid k = Some (e_val a, e_time a).

Lemma sub_none A m sid k : sub A m -> sub (aset A sid k None) m.
Proof.
  intros H sid' k' a. unfold aset.
  destruct (Nat.eqb sid' sid && (k' =? k)); [discriminate|apply H].
Qed.

Lemma sub_step na m o : sub (snd na) m -> sub (snd (spec_step na o)) (upd_latest m o).
Proof.
  intros H. unfold spec_step. cbn [snd].
  set (A1 := match o_victim o with Some (sid, x) => aset (snd na) sid x None | None => snd na end).
  assert (H1 : sub A1 m).
  { unfold A1. destruct (o_victim o) as [[sid x]|]; [apply sub_none|]; exact H. }
  set (A2 := match o_exp o with Some (sid, k) => aset A1 sid k None | None => A1 end).
  assert (H2 : sub A2 m).
  { unfold A2. destruct (o_exp o) as [[sid x]|]; [apply sub_none|]; exact H1. }
  set (A3 := match o_hit o with
             | Some (sid, k, _) => match A2 sid k with
                                   | Some a => aset A2 sid k (Some (bumped k a (fst na)))
                                   | None => A2 end
             | None => A2 end).
  assert (H3 : sub A3 m).
  { unfold A3. destruct (o_hit o) as [[[sid k] v]|]; [|exact H2].
    destruct (A2 sid k) as [a|] eqn:Ea; [|exact H2].
    intros sid' k' a'. unfold aset.
    destruct (Nat.eqb_spec sid' sid) as [->|]; cbn [andb]; [|apply H2].
    destruct (Z.eqb_spec k' k) as [->|]; [|apply H2].
    intros E; inversion E; subst. cbn [bumped e_val e_time]. apply H2. exact Ea. }
  unfold upd_latest. destruct (o_stored o) as [[[[sid k] v] t]|]; [|exact H3].
  intros sid' k' a'. unfold aset.
  destruct (Nat.eqb sid' sid && (k' =? k)); [|apply H3].
  intros E; inversion E; subst. destruct (A3 sid k); reflexivity.
Qed.

Lemma sub_run tr na m : sub (snd na) m ->
  sub (snd (fold_left spec_step tr na)) (fold_left upd_latest tr m).
Proof.
  revert na m. induction tr as [|o t IH]; intros na m H; cbn [fold_left]; [exact H|].
  apply IH. apply sub_step. exact H.
Qed.

Lemma spec_latest tr sid k a :
  snd (spec tr) sid k = Some a -> latest_of tr sid k = Some (e_val a, e_time a).
Proof. apply (sub_run tr spec0). intros sid' k' a'. discriminate. Qed.

(* ---------- C10_hit_latest ---------- *)
Lemma hit_latest c evs e sd ky vl :
  o_hit (snd (step c (final c (init c) evs) e)) = Some (sd, ky, vl) ->
  exists a, snd (spec (trace c (init c) evs)) sd ky = Some a /\ e_val a = vl /\
    latest_of (trace c (init c) evs) sd ky = Some (vl, e_time a) /\
    e_time a <= now (final c (init c) evs) /\
    forall d, ttl c = Some d -> now (final c (init c) evs) - e_time a <= d.
Proof.
  pose proof (final_Inv c evs) as HI. pose proof (refines_map c evs) as HR.
  set (s := final c (init c) evs) in *.
  step_cases c s e; try discriminate.
  intros H; inversion H; subst; clear H.
  apply get_spec in Eg. destruct Eg as [e0 [Hl [-> [Hx _]]]].
  exists e0. rewrite <- HR. split; [exact Hl|]. split; [reflexivity|].
  split.
  - rewrite HR in Hl. apply spec_latest in Hl. exact Hl.
  - apply lookup_some in Hl as [Hin _]. split.
    + apply (si_tk _ _ _ _ (HI (sid_of c svc))) in Hin. lia.
    + intros d Hd. unfold expired in Hx. rewrite Hd in Hx. apply Z.ltb_ge in Hx. exact Hx.
Qed.

(* ---------- inner calls ---------- *)
Definition started_for (i : nat) (o : obs) : bool :=
  match o_started o with Some j => Nat.eqb j i | None => false end.

Definition count_started (i : nat) (tr : list obs) : nat := length (filter (started_for i) tr).

Lemma hit_no_inner_call c s e :
  o_hit (snd (step c s e)) <> None -> o_started (snd (step c s e)) = None.
Proof. step_cases c s e; try reflexivity; intros H; exfalso; apply H; reflexivity. Qed.

Lemma started_only_miss c s e j : o_started (snd (step c s e)) = Some j ->
  exists svc k, e = Call j svc k /\ cs s j = Fresh /\ o_hit (snd (step c s e)) = None.
Proof.
  step_cases c s e; try discriminate; intros H; inversion H; subst;
    exists svc, k; repeat split; assumption.
Qed.

Lemma notfresh_stable c s e ci : cs s ci <> Fresh -> cs (step_st c s e) ci <> Fresh.
Proof.
  intros H. step_cases c s e; try exact H;
    (destruct (Nat.eq_dec ci i) as [->|Hne];
     [try (rewrite upd_same; discriminate); try (exfalso; apply H; exact Ecs)
     |rewrite upd_other by exact Hne; exact H]).
Qed.

Lemma fresh_stays c s e ci : (forall svc k, e <> Call ci svc k) -> cs s ci = Fresh ->
  cs (step_st c s e) ci = Fresh.
Proof.
  intros Hc H. step_cases c s e; try exact H;
    (destruct (Nat.eq_dec ci i) as [->|Hne];
     [try congruence; exfalso; apply (Hc svc k); reflexivity
     |rewrite upd_other by exact Hne; exact H]).
Qed.

Lemma count_cons ci o tr :
  count_started ci (o :: tr) = ((if started_for ci o then 1 else 0) + count_started ci tr)%nat.
Proof. unfold count_started. cbn [filter]. destruct (started_for ci o); reflexivity. Qed.

Lemma count_app ci t1 t2 :
  count_started ci (t1 ++ t2) = (count_started ci t1 + count_started ci t2)%nat.
Proof. unfold count_started. rewrite filter_app, app_length. reflexivity. Qed.

Lemma started_for_notfresh c s e ci : cs s ci <> Fresh -> started_for ci (snd (step c s e)) = false.
Proof.
  intros H. unfold started_for. destruct (o_started (snd (step c s e))) as [j|] eqn:E; [|reflexivity].
  apply started_only_miss in E. destruct E as [svc [k [_ [Hf _]]]].
  destruct (Nat.eqb_spec j ci) as [->|]; [congruence|reflexivity].
Qed.

Lemma count_notfresh c ci evs : forall s, cs s ci <> Fresh -> count_started ci (trace c s evs) = 0%nat.
Proof.
  induction evs as [|e t IH]; intros s H; cbn [trace]; [reflexivity|].
  rewrite count_cons, (started_for_notfresh c s e ci H), IH; [reflexivity|].
  apply notfresh_stable. exact H.
Qed.

Lemma count_nocall c ci evs : forall s, (forall svc k, ~ In (Call ci svc k) evs) -> cs s ci = Fresh ->
  count_started ci (trace c s evs) = 0%nat /\ cs (final c s evs) ci = Fresh.
Proof.
  induction evs as [|e t IH]; intros s Hn H; cbn [trace]; [split; [reflexivity|exact H]|].
  assert (He : forall svc k, e <> Call ci svc k).
  { intros svc k ->. apply (Hn svc k). left. reflexivity. }
  rewrite count_cons.
  assert (started_for ci (snd (step c s e)) = false) as ->.
  { unfold started_for. destruct (o_started (snd (step c s e))) as [j|] eqn:E; [|reflexivity].
    apply started_only_miss in E. destruct E as [svc [k [-> _]]].
    destruct (Nat.eqb_spec j ci) as [->|]; [|reflexivity]. exfalso. apply (He svc k). reflexivity. }
  apply IH.
  - intros svc k Hin. apply (Hn svc k). right. exact Hin.
  - apply fresh_stays; assumption.
Qed.

Lemma call_outcome c s ci svc k : cs s ci = Fresh ->
  cs (step_st c s (Call ci svc k)) ci <> Fresh /\
  started_for ci (snd (step c s (Call ci svc k))) =
    match o_hit (snd (step c s (Call ci svc k))) with Some _ => false | None => true end.
Proof.
  intros H. unfold started_for, step_st, step, step0. rewrite H.
  destruct (store_get c (now s) (tick s) (stores s (sid_of c svc)) k) as [s1 [v| |]];
    cbn [fst snd cs o_started o_hit]; rewrite upd_same, ?Nat.eqb_refl; split; try reflexivity; discriminate.
Qed.

(* the inner service is called for caller ci exactly once if its lookup missed, never if it hit *)
Lemma miss_calls_once c evs1 ci svc k evs2 :
  (forall svc' k', ~ In (Call ci svc' k') evs1) ->
  count_started ci (trace c (init c) (evs1 ++ Call ci svc k :: evs2)) =
  match o_hit (snd (step c (final c (init c) evs1) (Call ci svc k))) with
  | Some _ => 0%nat
  | None => 1%nat
  end.
Proof.
  intros Hn. rewrite trace_app, count_app. cbn [trace]. rewrite count_cons.
  destruct (count_nocall c ci evs1 (init c) Hn eq_refl) as [-> Hf].
  destruct (call_outcome c (final c (init c) evs1) ci svc k Hf) as [Hnf ->].
  rewrite (count_notfresh c ci evs2 _ Hnf).
  destruct (o_hit (snd (step c (final c (init c) evs1) (Call ci svc k)))); reflexivity.
Qed.

Lemma no_call_no_inner c evs ci :
  (forall svc k, ~ In (Call ci svc k) evs) -> count_started ci (trace c (init c) evs) = 0%nat.
Proof. intros H. apply (count_nocall c ci evs (init c) H eq_refl). Qed.

(* a caller whose inner call is in flight was passed to the inner service exactly once *)
Definition calls_ok (x : cst) (n : nat) : Prop :=
  match x with
  | Fresh | HitReady _ => n = 0%nat
  | Running _ _ => n = 1%nat
  | _ => (n <= 1)%nat
  end.

Lemma calls_ok_step c s e ci n : calls_ok (cs s ci) n ->
  calls_ok (cs (step_st c s e) ci) (n + if started_for ci (snd (step c s e)) then 1 else 0)%nat.
Proof.
  intros H. unfold started_for. step_cases c s e;
  try (destruct (Nat.eq_dec ci i) as [->|Hne];
       [rewrite ?upd_same, ?Nat.eqb_refl; rewrite ?Ecs in H; rewrite ?Ecs
       |rewrite ?upd_other by exact Hne;
        try (destruct (Nat.eqb_spec i ci) as [Heq|_]; [exfalso; apply Hne; symmetry; exact Heq|])]);
  cbn [calls_ok] in *; try lia;
  try (match goal with |- calls_ok (cs s ?j) _ => destruct (cs s j); cbn [calls_ok] in *; lia end).
Qed.

Lemma calls_ok_run c ci evs : forall s tr0, calls_ok (cs s ci) (count_started ci tr0) ->
  calls_ok (cs (final c s evs) ci) (count_started ci (tr0 ++ trace c s evs)).
Proof.
  induction evs as [|e t IH]; intros s tr0 H; cbn [trace final fold_left].
  - rewrite app_nil_r. exact H.
  - replace (tr0 ++ snd (step c s e) :: trace c (step_st c s e) t)
      with ((tr0 ++ [snd (step c s e)]) ++ trace c (step_st c s e) t)
      by (rewrite <- app_assoc; reflexivity).
    apply IH. rewrite count_app, count_cons. cbn [count_started filter length].
    rewrite Nat.add_0_r. apply calls_ok_step. exact H.
Qed.

Lemma running_called_once c evs ci sd ky :
  cs (final c (init c) evs) ci = Running sd ky -> count_started ci (trace c (init c) evs) = 1%nat.
Proof.
  intros H. pose proof (calls_ok_run c ci evs (init c) [] eq_refl) as Hc.
  rewrite H in Hc. exact Hc.
Qed.

Lemma inner_calls_le_one c evs ci : (count_started ci (trace c (init c) evs) <= 1)%nat.
Proof.
  pose proof (calls_ok_run c ci evs (init c) [] eq_refl) as Hc. cbn [app] in Hc.
  destruct (cs (final c (init c) evs) ci); cbn [calls_ok] in Hc; lia.
Qed.

(* ---------- errors are not cached ---------- *)
Lemma errors_not_cached c s ci orc sd ky :
  cs s ci = Running sd ky -> (gate s ci = Some OErr \/ gate s ci = Some OPanic) ->
  (o_r (snd (step c s (Poll ci orc))) = 2 \/ o_r (snd (step c s (Poll ci orc))) = 5) /\
  o_stored (snd (step c s (Poll ci orc))) = None /\
  forall sid, stores (step_st c s (Poll ci orc)) sid = stores s sid.
Proof.
  intros Hc Hg. unfold step_st, step, step0. rewrite Hc.
  destruct Hg as [-> | ->]; cbn; (split; [auto|split; [reflexivity|intros sid; reflexivity]]).
Qed.

(* a value is stored only by the poll that completes a miss with Ok, under the key of that
   miss, with the inner response and the current instant *)
Lemma stored_only_ok c s e sd ky vl t :
  o_stored (snd (step c s e)) = Some (sd, ky, vl, t) ->
  exists ci orc, e = Poll ci orc /\ cs s ci = Running sd ky /\ gate s ci = Some (OOk vl) /\
                 t = now s /\ o_r (snd (step c s e)) = 1 /\ o_val (snd (step c s e)) = vl.
Proof.
  step_cases c s e; try discriminate. intros H; inversion H; subst.
  exists i, orc. repeat split; try reflexivity; assumption.
Qed.

(* without a Stored observation no store gains a value or changes one *)
Lemma values_only_from_ok c s e : o_stored (snd (step c s e)) = None ->
  forall sid ky a', lookup ky (stores (step_st c s e) sid) = Some a' ->
  exists a, lookup ky (stores s sid) = Some a /\ e_val a = e_val a' /\ e_time a = e_time a'.
Proof.
  step_cases c s e; try discriminate; intros _ sid ky a' Hl;
    try (exists a'; split; [exact Hl|split; reflexivity]).
  - apply get_spec in Eg. destruct Eg as [e0 [Hl0 [_ [_ Hs1]]]].
    destruct (Nat.eq_dec sid (sid_of c svc)) as [->|Hne].
    + rewrite upd_same, Hs1 in Hl. destruct (Z.eqb_spec ky k) as [->|].
      * inversion Hl; subst. exists e0. split; [exact Hl0|split; reflexivity].
      * exists a'. split; [exact Hl|split; reflexivity].
    + rewrite upd_other in Hl by exact Hne. exists a'. split; [exact Hl|split; reflexivity].
  - apply get_spec in Eg. destruct Eg as [e0 [Hl0 [_ Hs1]]].
    destruct (Nat.eq_dec sid (sid_of c svc)) as [->|Hne].
    + rewrite upd_same, Hs1 in Hl. destruct (Z.eqb_spec ky k) as [->|]; [discriminate|].
      exists a'. split; [exact Hl|split; reflexivity].
    + rewrite upd_other in Hl by exact Hne. exists a'. split; [exact Hl|split; reflexivity].
  - apply get_spec in Eg. destruct Eg as [_ ->].
    destruct (Nat.eq_dec sid (sid_of c svc)) as [->|Hne].
    + rewrite upd_same in Hl. exists a'. split; [exact Hl|split; reflexivity].
    + rewrite upd_other in Hl by exact Hne. exists a'. split; [exact Hl|split; reflexivity].
Qed.

(* ---------- hit or miss ---------- *)
(* the lookup of a new call hits exactly when the store (of that service) holds an entry for
   the key that is not older than the TTL — whether or not misses for the same key are in
   flight; otherwise the inner service is called *)
Lemma hit_iff c s ci svc ky : cs s ci = Fresh ->
  match lookup ky (stores s (sid_of c svc)) with
  | Some a =>
    if expired (ttl c) (now s) a
    then o_hit (snd (step c s (Call ci svc ky))) = None /\
         o_started (snd (step c s (Call ci svc ky))) = Some ci /\
         o_exp (snd (step c s (Call ci svc ky))) = Some (sid_of c svc, ky) /\
         cs (step_st c s (Call ci svc ky)) ci = Running (sid_of c svc) ky
    else o_hit (snd (step c s (Call ci svc ky))) = Some (sid_of c svc, ky, e_val a) /\
         o_started (snd (step c s (Call ci svc ky))) = None /\
         cs (step_st c s (Call ci svc ky)) ci = HitReady (e_val a)
  | None => o_hit (snd (step c s (Call ci svc ky))) = None /\
            o_started (snd (step c s (Call ci svc ky))) = Some ci /\
            cs (step_st c s (Call ci svc ky)) ci = Running (sid_of c svc) ky
  end.
Proof.
  intros H. unfold step_st, step, step0, store_get. rewrite H.
  destruct (lookup ky (stores s (sid_of c svc))) as [a|]; [destruct (expired (ttl c) (now s) a)|];
    cbn [fst snd cs o_hit o_started o_exp]; rewrite upd_same; repeat split; reflexivity.
Qed.

(* a hit future resolves to the value found by the lookup, a miss future to the inner response *)
Lemma poll_hit c s ci orc vl : cs s ci = HitReady vl ->
  o_r (snd (step c s (Poll ci orc))) = 1 /\ o_val (snd (step c s (Poll ci orc))) = vl /\
  o_started (snd (step c s (Poll ci orc))) = None /\
  forall sid, stores (step_st c s (Poll ci orc)) sid = stores s sid.
Proof.
  intros H. unfold step_st, step, step0. rewrite H. cbn. repeat split; reflexivity.
Qed.

(* ---------- victims ---------- *)
Lemma insert_victim c orc nw tk s ky vl s1 x b :
  insert c orc nw tk s ky vl = (s1, Some x, b) ->
  lookup ky s = None /\ full c s = true /\ victim_key (pol c) orc s = (Some x, b) /\
  s1 = remove x s ++ [mkE ky vl nw 1 tk tk].
Proof.
  unfold insert. destruct (lookup ky s) as [e|]; [discriminate|].
  destruct (full c s); [|discriminate].
  destruct (victim_key (pol c) orc s) as [[y|] b0]; [|discriminate].
  intros H; inversion H; subst. repeat split; reflexivity.
Qed.

Definition victim_ok (p : policy) (s : store) (ve : entry) : Prop :=
  match p with
  | Lru => forall y, In y s -> y <> ve -> e_used ve < e_used y
  | Lfu => forall y, In y s -> e_freq ve <= e_freq y
  | Fifo => forall y, In y s -> y <> ve -> e_ins ve < e_ins y
  end.

Lemma victim_step c s e sd x : Inv c s -> o_victim (snd (step c s e)) = Some (sd, x) ->
  exists ve ky vl,
    lookup x (stores s sd) = Some ve /\ In ve (stores s sd) /\
    o_stored (snd (step c s e)) = Some (sd, ky, vl, now s) /\
    lookup ky (stores s sd) = None /\
    length (stores s sd) = cap_of c /\
    lookup x (stores (step_st c s e) sd) = None /\
    victim_ok (pol c) (stores s sd) ve.
Proof.
  intros HI. step_cases c s e; try discriminate.
  destruct vic as [y|]; [|discriminate]. intros H; inversion H; subst; clear H.
  apply insert_victim in Ei. destruct Ei as [Hk [Hf [Hv ->]]].
  pose proof (HI sd) as HS.
  destruct (victim_spec _ _ _ _ _ (si_nd _ _ _ _ HS) Hv) as [ve [Hlv [Hin Hp]]].
  exists ve, k0, v. split; [exact Hlv|]. split; [exact Hin|]. split; [reflexivity|].
  split; [exact Hk|]. split; [apply full_len; [apply (si_len _ _ _ _ HS)|exact Hf]|].
  split.
  - rewrite upd_same, lookup_app, lookup_remove, Z.eqb_refl, lookup_single. cbn [e_key].
    destruct (Z.eqb_spec k0 x) as [->|]; [|reflexivity]. rewrite Hk in Hlv. discriminate.
  - unfold victim_ok. destruct (pol c) eqn:Epol.
    + destruct Hp as [t Hs]. intros y Hy Hne. rewrite Hs in Hy. destruct Hy as [<-|Hy]; [congruence|].
      pose proof (si_lru _ _ _ _ HS Epol) as Hsort. rewrite Hs in Hsort.
      apply (sorted_head _ _ _ Hsort). exact Hy.
    + exact Hp.
    + destruct Hp as [t Hs]. intros y Hy Hne. rewrite Hs in Hy. destruct Hy as [<-|Hy]; [congruence|].
      pose proof (si_fifo _ _ _ _ HS Epol) as Hsort. rewrite Hs in Hsort.
      apply (sorted_head _ _ _ Hsort). exact Hy.
Qed.

(* the same, read off the reference cache of the observations (no list order, no model state) *)
Lemma victim_ref c evs e sd x :
  o_victim (snd (step c (final c (init c) evs) e)) = Some (sd, x) ->
  exists ve, snd (spec (trace c (init c) evs)) sd x = Some ve /\
    match pol c with
    | Lru => forall k' a', snd (spec (trace c (init c) evs)) sd k' = Some a' -> k' <> x ->
                           e_used ve < e_used a'
    | Lfu => forall k' a', snd (spec (trace c (init c) evs)) sd k' = Some a' ->
                           e_freq ve <= e_freq a'
    | Fifo => forall k' a', snd (spec (trace c (init c) evs)) sd k' = Some a' -> k' <> x ->
                            e_ins ve < e_ins a'
    end /\
    length (stores (final c (init c) evs) sd) = cap_of c /\
    (exists ky vl t, o_stored (snd (step c (final c (init c) evs) e)) = Some (sd, ky, vl, t) /\
                     snd (spec (trace c (init c) evs)) sd ky = None) /\
    lookup x (stores (step_st c (final c (init c) evs) e) sd) = None.
Proof.
  intros H. pose proof (final_Inv c evs) as HI. pose proof (refines_map c evs) as HR.
  destruct (victim_step c _ e sd x HI H) as [ve [ky [vl [Hlv [Hin [Hst [Hk [Hlen [Hgone Hok]]]]]]]]].
  exists ve. rewrite <- !HR. split; [exact Hlv|]. split.
  - assert (Hne : forall k' a', lookup k' (stores (final c (init c) evs) sd) = Some a' -> k' <> x ->
                  In a' (stores (final c (init c) evs) sd) /\ a' <> ve).
    { intros k' a' Hl Hne. apply lookup_some in Hl. destruct Hl as [Hi Hk'].
      split; [exact Hi|]. intros ->. apply lookup_some in Hlv. destruct Hlv as [_ Hx]. congruence. }
    unfold victim_ok in Hok. destruct (pol c).
    + intros k' a' Hl Hx. rewrite <- HR in Hl. destruct (Hne k' a' Hl Hx). apply Hok; assumption.
    + intros k' a' Hl. rewrite <- HR in Hl. apply Hok. apply lookup_some in Hl. apply Hl.
    + intros k' a' Hl Hx. rewrite <- HR in Hl. destruct (Hne k' a' Hl Hx). apply Hok; assumption.
  - split; [exact Hlen|]. split; [|exact Hgone].
    exists ky, vl, (now (final c (init c) evs)). split; [exact Hst|]. rewrite <- HR. exact Hk.
Qed.

Lemma victim_lru c evs e sd x : pol c = Lru -> (1 <= max_size c)%nat ->
  o_victim (snd (step c (final c (init c) evs) e)) = Some (sd, x) ->
  exists ve, snd (spec (trace c (init c) evs)) sd x = Some ve /\
    (forall k' a', snd (spec (trace c (init c) evs)) sd k' = Some a' -> k' <> x ->
                   e_used ve < e_used a') /\
    length (stores (final c (init c) evs) sd) = max_size c /\
    (exists ky vl t, o_stored (snd (step c (final c (init c) evs) e)) = Some (sd, ky, vl, t) /\
                     snd (spec (trace c (init c) evs)) sd ky = None) /\
    lookup x (stores (step_st c (final c (init c) evs) e) sd) = None.
Proof.
  intros Hp Hwf H. destruct (victim_ref c evs e sd x H) as [ve [H1 [H2 [H3 H4]]]].
  rewrite Hp in H2. rewrite (cap_wf c Hwf) in H3. exists ve. repeat split; try assumption; apply H4.
Qed.

Lemma victim_lfu c evs e sd x : pol c = Lfu -> (1 <= max_size c)%nat ->
  o_victim (snd (step c (final c (init c) evs) e)) = Some (sd, x) ->
  exists ve, snd (spec (trace c (init c) evs)) sd x = Some ve /\
    (forall k' a', snd (spec (trace c (init c) evs)) sd k' = Some a' -> e_freq ve <= e_freq a') /\
    length (stores (final c (init c) evs) sd) = max_size c /\
    (exists ky vl t, o_stored (snd (step c (final c (init c) evs) e)) = Some (sd, ky, vl, t) /\
                     snd (spec (trace c (init c) evs)) sd ky = None) /\
    lookup x (stores (step_st c (final c (init c) evs) e) sd) = None.
Proof.
  intros Hp Hwf H. destruct (victim_ref c evs e sd x H) as [ve [H1 [H2 [H3 H4]]]].
  rewrite Hp in H2. rewrite (cap_wf c Hwf) in H3. exists ve. repeat split; try assumption; apply H4.
Qed.

Lemma victim_fifo c evs e sd x : pol c = Fifo -> (1 <= max_size c)%nat ->
  o_victim (snd (step c (final c (init c) evs) e)) = Some (sd, x) ->
  exists ve, snd (spec (trace c (init c) evs)) sd x = Some ve /\
    (forall k' a', snd (spec (trace c (init c) evs)) sd k' = Some a' -> k' <> x ->
                   e_ins ve < e_ins a') /\
    length (stores (final c (init c) evs) sd) = max_size c /\
    (exists ky vl t, o_stored (snd (step c (final c (init c) evs) e)) = Some (sd, ky, vl, t) /\
                     snd (spec (trace c (init c) evs)) sd ky = None) /\
    lookup x (stores (step_st c (final c (init c) evs) e) sd) = None.
Proof.
  intros Hp Hwf H. destruct (victim_ref c evs e sd x H) as [ve [H1 [H2 [H3 H4]]]].
  rewrite Hp in H2. rewrite (cap_wf c Hwf) in H3. exists ve. repeat split; try assumption; apply H4.
Qed.

(* nothing leaves a store except the victim of an insert and an entry found expired by a lookup *)
Lemma no_spurious_loss c s e sd ky a : lookup ky (stores s sd) = Some a ->
  lookup ky (stores (step_st c s e) sd) = None ->
  o_victim (snd (step c s e)) = Some (sd, ky) \/ o_exp (snd (step c s e)) = Some (sd, ky).
Proof.
  step_cases c s e; intros Hl Hn; try congruence.
  - apply get_spec in Eg. destruct Eg as [e0 [_ [_ [_ Hs1]]]].
    destruct (Nat.eq_dec sd (sid_of c svc)) as [->|Hne].
    + rewrite upd_same, Hs1 in Hn. destruct (ky =? k); congruence.
    + rewrite upd_other in Hn by exact Hne. congruence.
  - apply get_spec in Eg. destruct Eg as [e0 [_ [_ Hs1]]].
    destruct (Nat.eq_dec sd (sid_of c svc)) as [->|Hne].
    + rewrite upd_same, Hs1 in Hn. destruct (Z.eqb_spec ky k) as [->|]; [|congruence].
      right. reflexivity.
    + rewrite upd_other in Hn by exact Hne. congruence.
  - apply get_spec in Eg. destruct Eg as [_ ->].
    destruct (Nat.eq_dec sd (sid_of c svc)) as [->|Hne].
    + rewrite upd_same in Hn. congruence.
    + rewrite upd_other in Hn by exact Hne. congruence.
  - apply insert_spec in Ei. destruct Ei as [_ Hs1].
    destruct (Nat.eq_dec sd sid0) as [->|Hne].
    + rewrite upd_same, Hs1 in Hn. destruct (ky =? k0); [discriminate|].
      destruct vic as [x|]; [|congruence].
      destruct (Z.eqb_spec ky x) as [->|]; [|congruence]. left. reflexivity.
    + rewrite upd_other in Hn by exact Hne. congruence.
Qed.

(* ---------- concurrent misses on one key ---------- *)
Lemma poll_ok c s ci orc sd ky vl : cs s ci = Running sd ky -> gate s ci = Some (OOk vl) ->
  o_r (snd (step c s (Poll ci orc))) = 1 /\ o_val (snd (step c s (Poll ci orc))) = vl /\
  o_stored (snd (step c s (Poll ci orc))) = Some (sd, ky, vl, now s) /\
  (exists a, lookup ky (stores (step_st c s (Poll ci orc)) sd) = Some a /\ e_val a = vl /\ e_time a = now s) /\
  now (step_st c s (Poll ci orc)) = now s /\
  gate (step_st c s (Poll ci orc)) = gate s /\
  forall cj, cj <> ci -> cs (step_st c s (Poll ci orc)) cj = cs s cj.
Proof.
  intros Hc Hg. unfold step_st, step, step0. rewrite Hc, Hg.
  destruct (insert c orc (now s) (tick s) (stores s sd) ky vl) as [[s1 vic] b] eqn:Ei.
  cbn [fst snd o_r o_val o_stored now gate cs stores].
  split; [reflexivity|]. split; [reflexivity|]. split; [reflexivity|]. split.
  - apply insert_spec in Ei. destruct Ei as [_ Hs1]. rewrite upd_same, Hs1, Z.eqb_refl.
    eexists. split; [reflexivity|]. destruct (lookup ky (stores s sd)); split; reflexivity.
  - split; [reflexivity|]. split; [reflexivity|]. intros cj Hne. apply upd_other. exact Hne.
Qed.

Lemma concurrent_misses c s ci cj sd ky vi vj o1 o2 : ci <> cj ->
  cs s ci = Running sd ky -> cs s cj = Running sd ky ->
  gate s ci = Some (OOk vi) -> gate s cj = Some (OOk vj) ->
  o_r (snd (step c s (Poll ci o1))) = 1 /\ o_val (snd (step c s (Poll ci o1))) = vi /\
  o_stored (snd (step c s (Poll ci o1))) = Some (sd, ky, vi, now s) /\
  o_r (snd (step c (step_st c s (Poll ci o1)) (Poll cj o2))) = 1 /\
  o_val (snd (step c (step_st c s (Poll ci o1)) (Poll cj o2))) = vj /\
  o_stored (snd (step c (step_st c s (Poll ci o1)) (Poll cj o2))) = Some (sd, ky, vj, now s) /\
  exists a, lookup ky (stores (step_st c (step_st c s (Poll ci o1)) (Poll cj o2)) sd) = Some a /\
            e_val a = vj /\ e_time a = now s.
Proof.
  intros Hne Hi Hj Hgi Hgj.
  destruct (poll_ok c s ci o1 sd ky vi Hi Hgi) as [H1 [H2 [H3 [_ [Hnow [Hgate Hcs]]]]]].
  split; [exact H1|]. split; [exact H2|]. split; [exact H3|].
  assert (Hj' : cs (step_st c s (Poll ci o1)) cj = Running sd ky).
  { rewrite Hcs by (intros E; apply Hne; symmetry; exact E). exact Hj. }
  assert (Hgj' : gate (step_st c s (Poll ci o1)) cj = Some (OOk vj)).
  { rewrite Hgate. exact Hgj. }
  destruct (poll_ok c _ cj o2 sd ky vj Hj' Hgj') as [K1 [K2 [K3 [K4 _]]]].
  rewrite Hnow in K3, K4. split; [exact K1|]. split; [exact K2|]. split; [exact K3|exact K4].
Qed.

Definition ex_cfg (p : policy) (m : nat) (t : option Z) (sh : bool) : cfg :=
  {| pol := p; max_size := m; ttl := t; shared := sh |}.

(* ---------- general overlapping misses: the entry is the one stored last ---------- *)
Lemma last_stored_wins c evs sid k v t :
  latest_of (trace c (init c) evs) sid k = Some (v, t) ->
  forall a, lookup k (stores (final c (init c) evs) sid) = Some a -> e_val a = v /\ e_time a = t.
Proof.
  intros H a Ha. rewrite refines_map in Ha. apply spec_latest in Ha. rewrite Ha in H.
  inversion H; subst. split; reflexivity.
Qed.

(* ---------- the ghosts are functions of the history ---------- *)
Definition at_key (sid : nat) (k : Z) (sid' : nat) (k' : Z) : bool := Nat.eqb sid' sid && (k' =? k).

Definition hits_on (sid : nat) (k : Z) (o : obs) : bool :=
  match o_hit o with Some (s', k', _) => at_key sid k s' k' | None => false end.
Definition stores_on (sid : nat) (k : Z) (o : obs) : bool :=
  match o_stored o with Some (s', k', _, _) => at_key sid k s' k' | None => false end.
Definition leaves (sid : nat) (k : Z) (o : obs) : bool :=
  match o_victim o with Some (s', k') => at_key sid k s' k' | None => false end ||
  match o_exp o with Some (s', k') => at_key sid k s' k' | None => false end.
(* a use of the entry: a lookup that found it, or a response stored under its key *)
Definition uses (sid : nat) (k : Z) (o : obs) : bool := hits_on sid k o || stores_on sid k o.

Lemma at_key_true sid k sid' k' : at_key sid k sid' k' = true <-> sid' = sid /\ k' = k.
Proof.
  unfold at_key. rewrite Bool.andb_true_iff, Nat.eqb_eq, Z.eqb_eq. reflexivity.
Qed.

Lemma aset_at A sid0 k0 x sid k :
  aset A sid0 k0 x sid k = if at_key sid0 k0 sid k then x else A sid k.
Proof. reflexivity. Qed.

Lemma at_key_sym sid k sid' k' : at_key sid k sid' k' = at_key sid' k' sid k.
Proof.
  unfold at_key. rewrite (Nat.eqb_sym sid' sid), (Z.eqb_sym k' k). reflexivity.
Qed.

(* one step of the reference cache, seen from one (store, key) *)
Lemma spec_step_at na o sid k :
  snd (spec_step na o) sid k =
  let A2 := if leaves sid k o then None else snd na sid k in
  let A3 := if hits_on sid k o then option_map (fun a => bumped k a (fst na)) A2 else A2 in
  if stores_on sid k o
  then match o_stored o with
       | Some (_, _, v, t) => Some (stored_entry A3 k v t (fst na))
       | None => None
       end
  else A3.
Proof.
  unfold spec_step, leaves, hits_on, stores_on. cbn [snd fst].
  set (A := snd na). set (n := fst na).
  set (A1 := match o_victim o with Some (s', x) => aset A s' x None | None => A end).
  assert (H1 : forall s1 k1, A1 s1 k1 =
            if match o_victim o with Some (s', k') => at_key s1 k1 s' k' | None => false end
            then None else A s1 k1).
  { intros s1 k1. unfold A1. destruct (o_victim o) as [[s' x]|]; [|reflexivity].
    rewrite aset_at, at_key_sym. reflexivity. }
  set (A2 := match o_exp o with Some (s', x) => aset A1 s' x None | None => A1 end).
  assert (H2 : forall s1 k1, A2 s1 k1 =
            if match o_victim o with Some (s', k') => at_key s1 k1 s' k' | None => false end ||
               match o_exp o with Some (s', k') => at_key s1 k1 s' k' | None => false end
            then None else A s1 k1).
  { intros s1 k1. unfold A2. destruct (o_exp o) as [[s' x]|].
    - rewrite aset_at, at_key_sym, H1.
      destruct (at_key s1 k1 s' x); [rewrite Bool.orb_true_r; reflexivity|].
      rewrite Bool.orb_false_r. reflexivity.
    - rewrite H1, Bool.orb_false_r. reflexivity. }
  set (A3 := match o_hit o with
             | Some (s', k', _) => match A2 s' k' with
                                   | Some a => aset A2 s' k' (Some (bumped k' a n))
                                   | None => A2 end
             | None => A2 end).
  assert (H3 : A3 sid k =
            if match o_hit o with Some (s', k', _) => at_key sid k s' k' | None => false end
            then option_map (fun a => bumped k a n) (A2 sid k) else A2 sid k).
  { unfold A3. destruct (o_hit o) as [[[s' k'] v']|]; [|reflexivity].
    destruct (at_key sid k s' k') eqn:E.
    - apply at_key_true in E. destruct E as [-> ->].
      destruct (A2 sid k) as [a|] eqn:Ea; cbn [option_map].
      + rewrite aset_same. reflexivity.
      + exact Ea.
    - destruct (A2 s' k') as [a|]; [|reflexivity].
      rewrite aset_at, at_key_sym, E. reflexivity. }
  destruct (o_stored o) as [[[[s' k'] v] t]|].
  - rewrite aset_at, at_key_sym.
    destruct (at_key sid k s' k') eqn:E.
    + apply at_key_true in E. destruct E as [-> ->]. rewrite H3, H2. reflexivity.
    + rewrite H3, H2. reflexivity.
  - rewrite H3, H2. reflexivity.
Qed.

(* a hit stores nothing (true of every observation the model makes) *)
Definition wf_obs (o : obs) : Prop := o_hit o <> None -> o_stored o = None.

Lemma step_wf c s e : wf_obs (snd (step c s e)).
Proof. unfold wf_obs. step_cases c s e; intros H; try reflexivity; exfalso; apply H; reflexivity. Qed.

Lemma trace_wf c evs : forall s, Forall wf_obs (trace c s evs).
Proof.
  induction evs as [|e t IH]; intros s; cbn [trace]; constructor; [apply step_wf|apply IH].
Qed.

Lemma spec_snoc tr o : spec (tr ++ [o]) = spec_step (spec tr) o.
Proof. unfold spec. rewrite fold_left_app. reflexivity. Qed.

Definition ghost_ok (tr : list obs) (sid : nat) (k : Z) (a : entry) : Prop :=
  exists ni nu : nat,
    e_ins a = Z.of_nat ni /\ e_used a = Z.of_nat nu /\ (ni <= nu)%nat /\ (nu < length tr)%nat /\
    (exists o, nth_error tr ni = Some o /\ stores_on sid k o = true /\
               (snd (spec (firstn ni tr)) sid k = None \/ leaves sid k o = true)) /\
    (forall o, In o (skipn (S ni) tr) -> leaves sid k o = false) /\
    e_freq a = 1 + Z.of_nat (length (filter (uses sid k) (skipn (S ni) tr))) /\
    (exists o, nth_error tr nu = Some o /\ uses sid k o = true) /\
    (forall o, In o (skipn (S nu) tr) -> uses sid k o = false).

Lemma skipn_snoc {A} (n : nat) (l : list A) x : (n <= length l)%nat -> skipn n (l ++ [x]) = skipn n l ++ [x].
Proof.
  intros H. rewrite skipn_app. replace (n - length l)%nat with 0%nat by lia. reflexivity.
Qed.

Lemma firstn_snoc {A} (n : nat) (l : list A) x : (n <= length l)%nat -> firstn n (l ++ [x]) = firstn n l.
Proof.
  intros H. rewrite firstn_app. replace (n - length l)%nat with 0%nat by lia.
  cbn [firstn]. apply app_nil_r.
Qed.

Lemma nth_error_snoc_lt {A} (n : nat) (l : list A) x : (n < length l)%nat -> nth_error (l ++ [x]) n = nth_error l n.
Proof. intros H. apply nth_error_app1. exact H. Qed.

Lemma nth_error_snoc_eq {A} (l : list A) x : nth_error (l ++ [x]) (length l) = Some x.
Proof. rewrite nth_error_app2 by lia. rewrite Nat.sub_diag. reflexivity. Qed.

Lemma skipn_all_snoc {A} (l : list A) x : skipn (S (length l)) (l ++ [x]) = [].
Proof. apply skipn_all2. rewrite app_length. cbn. lia. Qed.

(* the entry as it is after an observation that neither removes nor touches it *)
Lemma ghost_keep tr o sid k a :
  ghost_ok tr sid k a -> leaves sid k o = false -> uses sid k o = false -> ghost_ok (tr ++ [o]) sid k a.
Proof.
  intros (ni & nu & Hi & Hu & Hle & Hlt & (oi & Hoi & Hsi & Hbef) & Hlv & Hf & (ou & Hou & Huu) & Hlast) HL HU.
  exists ni, nu. rewrite app_length. cbn [length].
  split; [exact Hi|]. split; [exact Hu|]. split; [exact Hle|]. split; [lia|].
  split.
  { exists oi. rewrite nth_error_snoc_lt by lia. split; [exact Hoi|]. split; [exact Hsi|].
    rewrite firstn_snoc by lia. exact Hbef. }
  split.
  { intros o' Ho'. rewrite skipn_snoc in Ho' by lia. apply in_app_iff in Ho'.
    destruct Ho' as [Ho'|[<-|[]]]; [apply Hlv; exact Ho'|exact HL]. }
  split.
  { rewrite skipn_snoc by lia. rewrite filter_app. cbn [filter]. rewrite HU, app_nil_r. exact Hf. }
  split.
  { exists ou. rewrite nth_error_snoc_lt by lia. split; assumption. }
  intros o' Ho'. rewrite skipn_snoc in Ho' by lia. apply in_app_iff in Ho'.
  destruct Ho' as [Ho'|[<-|[]]]; [apply Hlast; exact Ho'|exact HU].
Qed.

(* ... after an observation that uses it (hit or update): frequency + 1, last use = this observation *)
Lemma ghost_use tr o sid k a a' :
  ghost_ok tr sid k a -> leaves sid k o = false -> uses sid k o = true ->
  e_ins a' = e_ins a -> e_used a' = Z.of_nat (length tr) -> e_freq a' = e_freq a + 1 ->
  ghost_ok (tr ++ [o]) sid k a'.
Proof.
  intros (ni & nu & Hi & Hu & Hle & Hlt & (oi & Hoi & Hsi & Hbef) & Hlv & Hf & _ & _) HL HU Ei Eu Ef.
  exists ni, (length tr). rewrite app_length. cbn [length].
  split; [congruence|]. split; [exact Eu|]. split; [lia|]. split; [lia|].
  split.
  { exists oi. rewrite nth_error_snoc_lt by lia. split; [exact Hoi|]. split; [exact Hsi|].
    rewrite firstn_snoc by lia. exact Hbef. }
  split.
  { intros o' Ho'. rewrite skipn_snoc in Ho' by lia. apply in_app_iff in Ho'.
    destruct Ho' as [Ho'|[<-|[]]]; [apply Hlv; exact Ho'|exact HL]. }
  split.
  { rewrite skipn_snoc by lia. rewrite filter_app. cbn [filter]. rewrite HU, app_length. cbn [length].
    rewrite Ef, Hf. lia. }
  split.
  { exists o. rewrite nth_error_snoc_eq. split; [reflexivity|exact HU]. }
  rewrite skipn_all_snoc. intros o' [].
Qed.

(* ... after the observation that makes the key present *)
Lemma ghost_new tr o sid k a' :
  stores_on sid k o = true ->
  (snd (spec tr) sid k = None \/ leaves sid k o = true) ->
  e_ins a' = Z.of_nat (length tr) -> e_used a' = Z.of_nat (length tr) -> e_freq a' = 1 ->
  ghost_ok (tr ++ [o]) sid k a'.
Proof.
  intros HS Hbef Ei Eu Ef. exists (length tr), (length tr). rewrite app_length. cbn [length].
  split; [exact Ei|]. split; [exact Eu|]. split; [lia|]. split; [lia|].
  split.
  { exists o. rewrite nth_error_snoc_eq. split; [reflexivity|]. split; [exact HS|].
    rewrite firstn_app, Nat.sub_diag, firstn_all. cbn [firstn]. rewrite app_nil_r. exact Hbef. }
  rewrite skipn_all_snoc. cbn [filter length].
  split; [intros o' []|]. split; [rewrite Ef; reflexivity|].
  split; [|intros o' []].
  exists o. rewrite nth_error_snoc_eq. split; [reflexivity|].
  unfold uses. rewrite HS. apply Bool.orb_true_r.
Qed.

Lemma ghosts tr : Forall wf_obs tr ->
  fst (spec tr) = Z.of_nat (length tr) /\
  forall sid k a, snd (spec tr) sid k = Some a -> ghost_ok tr sid k a.
Proof.
  induction tr as [|o tr IH] using rev_ind; intros Hwf.
  - split; [reflexivity|]. intros sid k a H. discriminate.
  - apply Forall_app in Hwf. destruct Hwf as [Hwf Ho]. inversion Ho as [|? ? Hwo _]; subst.
    destruct (IH Hwf) as [Hn HG]. clear IH. rewrite spec_snoc. split.
    { unfold spec_step. cbn [fst]. rewrite Hn, app_length. cbn [length]. lia. }
    intros sid k a. rewrite spec_step_at. cbn zeta. rewrite Hn.
    destruct (stores_on sid k o) eqn:ES.
    + (* a response is stored under this key *)
      assert (EH : hits_on sid k o = false).
      { unfold hits_on. destruct (o_hit o) as [[[s' k'] v']|] eqn:E; [|reflexivity].
        unfold stores_on in ES. rewrite Hwo in ES by congruence. discriminate. }
      rewrite EH. destruct (o_stored o) as [[[[s' k'] v] t]|]; [|discriminate].
      intros H; inversion H; subst; clear H.
      destruct (leaves sid k o) eqn:EL.
      * cbn [stored_entry]. apply ghost_new; try reflexivity; [exact ES|right; exact EL].
      * destruct (snd (spec tr) sid k) as [a0|] eqn:Ea; cbn [stored_entry].
        -- apply (ghost_use tr o sid k a0); try reflexivity; [apply HG; exact Ea|exact EL|].
           unfold uses. rewrite ES. apply Bool.orb_true_r.
        -- apply ghost_new; try reflexivity; [exact ES|left; exact Ea].
    + destruct (leaves sid k o) eqn:EL.
      * destruct (hits_on sid k o); discriminate.
      * destruct (hits_on sid k o) eqn:EH.
        -- destruct (snd (spec tr) sid k) as [a0|] eqn:Ea; cbn [option_map]; [|discriminate].
           intros H; inversion H; subst; clear H.
           apply (ghost_use tr o sid k a0); try reflexivity; [apply HG; exact Ea|exact EL|].
           unfold uses. rewrite EH. reflexivity.
        -- intros H. apply ghost_keep; [apply HG; exact H|exact EL|].
           unfold uses. rewrite EH, ES. reflexivity.
Qed.

Lemma ghosts_of_history c evs sid k a :
  snd (spec (trace c (init c) evs)) sid k = Some a -> ghost_ok (trace c (init c) evs) sid k a.
Proof. intros H. apply (ghosts _ (trace_wf c evs (init c))). exact H. Qed.

(* the three readings the victim theorems use *)
Lemma freq_counts_uses c evs sid k a :
  snd (spec (trace c (init c) evs)) sid k = Some a ->
  e_freq a = 1 + Z.of_nat (length (filter (uses sid k)
                 (skipn (S (Z.to_nat (e_ins a))) (trace c (init c) evs)))).
Proof.
  intros H. destruct (ghosts_of_history c evs sid k a H) as (ni & nu & Hi & _ & _ & _ & _ & _ & Hf & _).
  rewrite Hi, Nat2Z.id. exact Hf.
Qed.

Lemma trace_length c evs : forall s, length (trace c s evs) = length evs.
Proof.
  induction evs as [|e t IH]; intros s; cbn [trace length]; [reflexivity|]. rewrite IH. reflexivity.
Qed.

Lemma ins_is_insertion c evs sid k a :
  snd (spec (trace c (init c) evs)) sid k = Some a ->
  0 <= e_ins a < Z.of_nat (length evs) /\
  (exists o, nth_error (trace c (init c) evs) (Z.to_nat (e_ins a)) = Some o /\ stores_on sid k o = true /\
     (snd (spec (firstn (Z.to_nat (e_ins a)) (trace c (init c) evs))) sid k = None \/ leaves sid k o = true)) /\
  forall o, In o (skipn (S (Z.to_nat (e_ins a))) (trace c (init c) evs)) -> leaves sid k o = false.
Proof.
  intros H. destruct (ghosts_of_history c evs sid k a H) as (ni & nu & Hi & _ & Hle & Hlt & Hins & Hlv & _).
  rewrite Hi, Nat2Z.id.
  rewrite trace_length in Hlt. split; [lia|]. split; [exact Hins|exact Hlv].
Qed.

Lemma used_is_last_use c evs sid k a :
  snd (spec (trace c (init c) evs)) sid k = Some a ->
  e_ins a <= e_used a /\
  (exists o, nth_error (trace c (init c) evs) (Z.to_nat (e_used a)) = Some o /\ uses sid k o = true) /\
  forall o, In o (skipn (S (Z.to_nat (e_used a))) (trace c (init c) evs)) -> uses sid k o = false.
Proof.
  intros H. destruct (ghosts_of_history c evs sid k a H) as (ni & nu & Hi & Hu & Hle & _ & _ & _ & _ & Huse & Hlast).
  rewrite Hu, Nat2Z.id. split; [lia|]. split; [exact Huse|exact Hlast].
Qed.

(* ---------- what run_script prints is a rendering of `trace` and `final` ---------- *)
(* an event changes the state of no caller but its own *)
Lemma cs_frame c s e j : ev_caller e <> Some j -> cs (step_st c s e) j = cs s j.
Proof.
  intros H. step_cases c s e; try reflexivity;
    (rewrite upd_other; [reflexivity|intros ->; apply H; reflexivity]).
Qed.

Definition running_at (s : st) (i : nat) : bool := is_running (cs s i).

Lemma count_frame (f g : nat -> bool) (l : list nat) :
  (forall j, In j l -> f j = g j) -> length (filter f l) = length (filter g l).
Proof.
  induction l as [|a t IH]; intros H; cbn [filter]; [reflexivity|].
  rewrite (H a) by (left; reflexivity). destruct (g a); cbn [length]; rewrite IH; try reflexivity;
    intros j Hj; apply H; right; exact Hj.
Qed.

Lemma count_one (f g : nat -> bool) (i : nat) (l : list nat) : NoDup l -> In i l ->
  (forall j, In j l -> j <> i -> f j = g j) ->
  Z.of_nat (length (filter f l)) = Z.of_nat (length (filter g l)) + b2z (f i) - b2z (g i).
Proof.
  induction l as [|a t IH]; intros Hnd Hin H; [destruct Hin|].
  inversion Hnd as [|? ? Ha Ht]; subst. cbn [filter].
  destruct Hin as [->|Hin].
  - assert (E : length (filter f t) = length (filter g t)).
    { apply count_frame. intros j Hj. apply H; [right; exact Hj|]. intros ->. exact (Ha Hj). }
    destruct (f i), (g i); cbn [length b2z]; lia.
  - assert (Hai : a <> i) by (intros ->; exact (Ha Hin)).
    assert (Ea : f a = g a) by (apply H; [left; reflexivity|exact Hai]).
    specialize (IH Ht Hin (fun j Hj Hne => H j (or_intror Hj) Hne)).
    rewrite Ea. destruct (g a); cbn [length]; lia.
Qed.

Lemma inflight_step c n s e :
  inflight (step_st c s e) n = inflight s n + infl_delta n s (step_st c s e) e.
Proof.
  unfold inflight, infl_delta.
  destruct (ev_caller e) as [i|] eqn:Ec.
  - destruct (Nat.ltb_spec i n) as [Hlt|Hge].
    + rewrite (count_one (fun j => is_running (cs (step_st c s e) j)) (fun j => is_running (cs s j)) i).
      * lia.
      * apply seq_NoDup.
      * apply in_seq. lia.
      * intros j _ Hne. rewrite cs_frame; [reflexivity|]. rewrite Ec. congruence.
    + rewrite (count_frame (fun j => is_running (cs (step_st c s e) j)) (fun j => is_running (cs s j))); [lia|].
      intros j Hj. apply in_seq in Hj. rewrite cs_frame; [reflexivity|]. rewrite Ec. intros E; inversion E; lia.
  - rewrite (count_frame (fun j => is_running (cs (step_st c s e) j)) (fun j => is_running (cs s j))); [lia|].
    intros j _. rewrite cs_frame; [reflexivity|]. rewrite Ec. discriminate.
Qed.

(* record j of the trace printed for a history: observation j and the state after event j *)
Definition record (c : cfg) (n : nat) (s : st) (evs : list ev) (j : nat) : list Z :=
  let s' := final c s (firstn (S j) evs) in
  render (inflight s' n) (nth j (trace c s evs) no_obs) s'.

Lemma run_evs_records c n evs : forall s,
  run_evs c n s (inflight s n) evs = concat (map (record c n s evs) (seq 0 (length evs))).
Proof.
  induction evs as [|e t IH]; intros s; [reflexivity|].
  cbn [run_evs length]. destruct (step c s e) as [s' o] eqn:Es.
  assert (Hs' : s' = step_st c s e) by (unfold step_st; rewrite Es; reflexivity).
  assert (Ho : o = snd (step c s e)) by (rewrite Es; reflexivity).
  cbn [seq]. rewrite <- seq_shift. cbn [map concat]. rewrite map_map.
  replace (inflight s n + infl_delta n s s' e) with (inflight s' n)
    by (rewrite Hs'; apply inflight_step).
  rewrite IH. f_equal.
  - unfold record. cbn [firstn final fold_left trace nth]. rewrite <- Hs', <- Ho. reflexivity.
  - f_equal. apply map_ext. intros j. unfold record.
    cbn [firstn trace nth]. unfold final. cbn [fold_left]. rewrite <- Hs'. reflexivity.
Qed.

Lemma inflight_init c n : inflight (init c) n = 0.
Proof.
  unfold inflight. cbn [init cs]. induction (seq 0 n) as [|a t IH]; [reflexivity|exact IH].
Qed.

Lemma run_script_records sc :
  let c := cfg_of sc in
  let n := Z.to_nat (zn sc 4) in
  let m := Z.to_nat (zn sc 5) in
  let evs := evs_of (unit_of sc) n (chunk3 (firstn (3 * m) (skipn 6 sc))) (skipn (3 * m) (skipn 6 sc)) in
  run_script sc = concat (map (record c n (init c) evs) (seq 0 (length evs))).
Proof.
  cbv zeta. unfold run_script. rewrite <- (inflight_init (cfg_of sc) (Z.to_nat (zn sc 4))) at 1.
  apply run_evs_records.
Qed.

(* ---------- the age of a value when it is DELIVERED is not bounded by the TTL ---------- *)
(* (C10_hit_latest bounds the age at the lookup; the future of a hit keeps the value it found) *)
Lemma delivery_age_unbounded D : 0 <= D ->
  let c := ex_cfg Lru 1 (Some 0) false in
  let evs := [Call 0 0 5; Complete 0 (OOk 7); Poll 0 (-1); Call 1 0 5; Advance D] in
  o_stored (snd (step c (final c (init c) (firstn 2 evs)) (Poll 0 (-1)))) = Some (0%nat, 5, 7, 0) /\
  now (final c (init c) evs) = D /\
  o_r (snd (step c (final c (init c) evs) (Poll 1 (-1)))) = 1 /\
  o_val (snd (step c (final c (init c) evs) (Poll 1 (-1)))) = 7.
Proof.
  intros HD. cbv zeta. split; [vm_compute; reflexivity|].
  split; [|split].
  - cbn. rewrite Z.max_r by exact HD. reflexivity.
  - cbn. reflexivity.
  - cbn. reflexivity.
Qed.

(* ---------- non-vacuity: the hypotheses of the theorems are met by reachable states ---------- *)

(* a stored value is served at exactly the TTL and found expired one millisecond later *)
Example ex_hit_at_ttl :
  let c := ex_cfg Lru 2 (Some 20) false in
  let evs := [Call 0 0 3; Complete 0 (OOk 7); Poll 0 (-1); Advance 20] in
  o_hit (snd (step c (final c (init c) evs) (Call 1 0 3))) = Some (0%nat, 3, 7) /\
  o_exp (snd (step c (final c (init c) (evs ++ [Advance 1])) (Call 1 0 3))) = Some (0%nat, 3) /\
  o_started (snd (step c (final c (init c) (evs ++ [Advance 1])) (Call 1 0 3))) = Some 1%nat.
Proof. vm_compute. repeat split. Qed.

(* two stored keys, key 0 used again, then a third key arrives: the three policies disagree *)
Definition ex_fill : list ev :=
  [Call 0 0 0; Complete 0 (OOk 101); Poll 0 (-1); Call 1 0 1; Complete 1 (OOk 102); Poll 1 (-1);
   Call 2 0 0; Poll 2 (-1); Call 3 0 2; Complete 3 (OOk 103)].

Example ex_victim_lru :
  let c := ex_cfg Lru 2 None false in
  o_victim (snd (step c (final c (init c) ex_fill) (Poll 3 (-1)))) = Some (0%nat, 1).
Proof. vm_compute. reflexivity. Qed.

Example ex_victim_fifo :
  let c := ex_cfg Fifo 2 None false in
  o_victim (snd (step c (final c (init c) ex_fill) (Poll 3 (-1)))) = Some (0%nat, 0).
Proof. vm_compute. reflexivity. Qed.

(* LFU: key 0 has frequency 2, key 1 frequency 1 — key 1 goes whatever the oracle says;
   an oracle naming key 0 is flagged *)
Example ex_victim_lfu :
  let c := ex_cfg Lfu 2 None false in
  o_victim (snd (step c (final c (init c) ex_fill) (Poll 3 1))) = Some (0%nat, 1) /\
  o_bad (snd (step c (final c (init c) ex_fill) (Poll 3 1))) = false /\
  o_victim (snd (step c (final c (init c) ex_fill) (Poll 3 0))) = Some (0%nat, 1) /\
  o_bad (snd (step c (final c (init c) ex_fill) (Poll 3 0))) = true.
Proof. vm_compute. repeat split. Qed.

(* LFU tie: both keys have frequency 1; either may go, the oracle decides *)
Definition ex_tie : list ev :=
  [Call 0 0 0; Complete 0 (OOk 1); Poll 0 (-1); Call 1 0 1; Complete 1 (OOk 2); Poll 1 (-1);
   Call 2 0 2; Complete 2 (OOk 3)].

Example ex_lfu_tie :
  let c := ex_cfg Lfu 2 None false in
  o_victim (snd (step c (final c (init c) ex_tie) (Poll 2 0))) = Some (0%nat, 0) /\
  o_victim (snd (step c (final c (init c) ex_tie) (Poll 2 1))) = Some (0%nat, 1) /\
  o_bad (snd (step c (final c (init c) ex_tie) (Poll 2 1))) = false.
Proof. vm_compute. repeat split. Qed.

(* two misses on one key in flight at once (shared store, two services): both reached the
   inner service, the later completion is what the next lookup returns *)
Example ex_concurrent :
  let c := ex_cfg Fifo 2 None true in
  let evs := [Call 0 0 1; Call 1 1 1; Complete 1 (OOk 11); Complete 0 (OOk 12)] in
  let s := final c (init c) evs in
  cs s 0%nat = Running 0 1 /\ cs s 1%nat = Running 0 1 /\
  gate s 0%nat = Some (OOk 12) /\ gate s 1%nat = Some (OOk 11) /\
  count_started 0 (trace c (init c) evs) = 1%nat /\ count_started 1 (trace c (init c) evs) = 1%nat /\
  o_hit (snd (step c (final c (init c) (evs ++ [Poll 1 (-1); Poll 0 (-1)])) (Call 2 0 1)))
    = Some (0%nat, 1, 12).
Proof. vm_compute. repeat split. Qed.

(* three misses on one key in flight at once, completed and polled at different instants:
   the store holds what was stored last (value and instant), whatever came before *)
Example ex_overlapping_three :
  let c := ex_cfg Lru 2 (Some 50) true in
  let evs := [Call 0 0 1; Call 1 1 1; Call 2 0 1; Complete 2 (OOk 30); Poll 2 (-1); Advance 3;
              Complete 0 (OOk 10); Poll 0 (-1); Advance 4; Complete 1 (OOk 20); Poll 1 (-1)] in
  latest_of (trace c (init c) evs) 0%nat 1 = Some (20, 7) /\
  option_map (fun a => (e_val a, e_time a)) (lookup 1 (stores (final c (init c) evs) 0%nat)) = Some (20, 7).
Proof. vm_compute. split; reflexivity. Qed.

(* the ghosts of a reachable entry: key 0 of ex_fill was inserted by observation 2, used last by
   observation 6 (a hit) and has frequency 2 = 1 + one use after the insertion *)
Example ex_ghosts :
  let c := ex_cfg Lfu 2 None false in
  option_map (fun a => (e_ins a, e_used a, e_freq a)) (snd (spec (trace c (init c) ex_fill)) 0%nat 0) = Some (2, 6, 2) /\
  length (filter (uses 0 0) (skipn 3 (trace c (init c) ex_fill))) = 1%nat.
Proof. vm_compute. split; reflexivity. Qed.

(* errors and panics: reachable, and nothing is served afterwards *)
Example ex_error :
  let c := ex_cfg Lfu 1 None false in
  let evs := [Call 0 0 2; Complete 0 OErr] in
  let s := final c (init c) evs in
  cs s 0%nat = Running 0 2 /\ gate s 0%nat = Some OErr /\
  o_started (snd (step c (final c (init c) (evs ++ [Poll 0 (-1)])) (Call 1 0 2))) = Some 1%nat.
Proof. vm_compute. repeat split. Qed.

(* private stores: service 1 does not see what service 0 stored; a shared layer does *)
Example ex_private_shared :
  let evs := [Call 0 0 4; Complete 0 (OOk 9); Poll 0 (-1)] in
  o_hit (snd (step (ex_cfg Lru 2 None false) (final (ex_cfg Lru 2 None false) (init (ex_cfg Lru 2 None false)) evs) (Call 1 1 4))) = None /\
  o_hit (snd (step (ex_cfg Lru 2 None true) (final (ex_cfg Lru 2 None true) (init (ex_cfg Lru 2 None true)) evs) (Call 1 1 4))) = Some (0%nat, 4, 9).
Proof. vm_compute. repeat split. Qed.

(* the script interface reproduces traces recorded from the implementation
   (harness/src/bin/c10.rs on corpus scripts 1, 4, 9, 15 and 23 of gen/c10.py; 4 = LFU tie, oracle appended;
    9 = ttl 1500 us: served at 1500 us, expired at 1501 us and at 1900 us; 15 = nanosecond clock, ttl 1500 ns:
    served at 1500 ns, expired at 1501 ns and at 1999 ns; 23 = keys 119, 120, 200, 239 in two stores) *)
Example ex_recorded_ttl :
  run_script
    [0; 2; 20; 0; 4; 9; 0; 0; 3; 4; 0; 7; 1; 0; 0; 3; 20; 0; 0; 1; 3; 1; 1; 0; 3; 1; 0; 0; 2;
     3; 1; 2; 0; -1; -1; -1; -1; -1; -1; -1; 3; -1]
  = [-1; 0; 1; 1; 2; 0; 0; 0; 0; 0; 0; 0; 0; -1; 0; 0; 1; 0; 0; 0; 0; 0; 0; 0; 0; 0; 1; 7; 0;
     0; 0; 8; 0; 0; 0; 8; 0; 0; 0; -1; 0; 0; 0; 0; 8; 0; 0; 0; 8; 0; 0; 0; -1; 0; 0; 0; 1; 8;
     0; 0; 0; 8; 0; 0; 0; 1; 7; 0; 0; 0; 8; 0; 0; 0; 8; 0; 0; 0; -1; 0; 0; 0; 0; 8; 0; 0; 0; 8;
     0; 0; 0; -1; 0; 1; 1; 2; 0; 0; 0; 0; 0; 0; 0; 0; 0; 0; 0; 1; 0; 0; 0; 0; 0; 0; 0; 0; 0].
Proof. vm_compute. reflexivity. Qed.

Example ex_recorded_lfu_tie :
  run_script
    [1; 2; -1; 0; 5; 13; 0; 0; 0; 4; 0; 1; 1; 0; 0; 0; 1; 1; 4; 1; 2; 1; 1; 0; 0; 2; 2; 4; 2;
     3; 1; 2; 0; 0; 3; 0; 1; 3; 0; 0; 4; 1; 1; 4; 0; -1; -1; -1; -1; -1; -1; -1; -1; 1; -1; -1;
     -1; -1]
  = [-1; 0; 1; 1; 2; 0; 0; 0; 0; 0; 0; 0; 0; -1; 0; 0; 1; 0; 0; 0; 0; 0; 0; 0; 0; 0; 1; 1; 0;
     0; 0; 1; 0; 0; 0; 1; 0; 0; 0; -1; 0; 1; 1; 2; 1; 0; 0; 0; 1; 0; 0; 0; -1; 0; 0; 1; 0; 1;
     0; 0; 0; 1; 0; 0; 0; 1; 2; 0; 0; 0; 3; 0; 0; 0; 3; 0; 0; 0; -1; 0; 1; 1; 2; 3; 0; 0; 0; 3;
     0; 0; 0; -1; 0; 0; 1; 0; 3; 0; 0; 0; 3; 0; 0; 0; 1; 3; 0; 0; 4; 5; 0; 0; 0; 5; 0; 0; 0;
     -1; 0; 0; 0; 1; 5; 0; 0; 0; 5; 0; 0; 0; 1; 1; 0; 0; 0; 5; 0; 0; 0; 5; 0; 0; 0; -1; 0; 1;
     1; 2; 5; 0; 0; 0; 5; 0; 0; 0; 0; 0; 0; 1; 0; 5; 0; 0; 0; 5; 0; 0; 0].
Proof. vm_compute. reflexivity. Qed.

Example ex_recorded_submilli_ttl :
  run_script
    [0; 2; 1500; 4; 4; 13; 5; 0; 3; 4; 0; 7; 1; 0; 0; 6; 1500; 0; 5; 1; 3; 1; 1; 0; 6; 1; 0; 5;
     2; 3; 4; 2; 8; 1; 2; 0; 6; 1900; 0; 5; 3; 3; 1; 3; 0; -1; -1; -1; -1; -1; -1; -1; 3; -1;
     -1; -1; 3; -1]
  = [-1; 0; 1; 1; 2; 0; 0; 0; 0; 0; 0; 0; 0; -1; 0; 0; 1; 0; 0; 0; 0; 0; 0; 0; 0; 0; 1; 7; 0;
     0; 0; 8; 0; 0; 0; 8; 0; 0; 0; -1; 0; 0; 0; 0; 8; 0; 0; 0; 8; 0; 0; 0; -1; 0; 0; 0; 1; 8;
     0; 0; 0; 8; 0; 0; 0; 1; 7; 0; 0; 0; 8; 0; 0; 0; 8; 0; 0; 0; -1; 0; 0; 0; 0; 8; 0; 0; 0; 8;
     0; 0; 0; -1; 0; 1; 1; 2; 0; 0; 0; 0; 0; 0; 0; 0; -1; 0; 0; 1; 0; 0; 0; 0; 0; 0; 0; 0; 0;
     1; 8; 0; 0; 0; 8; 0; 0; 0; 8; 0; 0; 0; -1; 0; 0; 0; 0; 8; 0; 0; 0; 8; 0; 0; 0; -1; 0; 1;
     1; 2; 0; 0; 0; 0; 0; 0; 0; 0; 0; 0; 0; 1; 0; 0; 0; 0; 0; 0; 0; 0; 0].
Proof. vm_compute. reflexivity. Qed.

Example ex_recorded_nano_ttl :
  run_script
    [0; 2; 1500; 12; 4; 13; 5; 0; 3; 4; 0; 7; 1; 0; 0; 6; 1500; 0; 5; 1; 3; 1; 1; 0; 6; 1; 0;
     5; 2; 3; 4; 2; 8; 1; 2; 0; 6; 1999; 0; 5; 3; 3; 1; 3; 0; -1; -1; -1; -1; -1; -1; -1; 3;
     -1; -1; -1; 3; -1]
  = [-1; 0; 1; 1; 2; 0; 0; 0; 0; 0; 0; 0; 0; -1; 0; 0; 1; 0; 0; 0; 0; 0; 0; 0; 0; 0; 1; 7; 0;
     0; 0; 8; 0; 0; 0; 8; 0; 0; 0; -1; 0; 0; 0; 0; 8; 0; 0; 0; 8; 0; 0; 0; -1; 0; 0; 0; 1; 8;
     0; 0; 0; 8; 0; 0; 0; 1; 7; 0; 0; 0; 8; 0; 0; 0; 8; 0; 0; 0; -1; 0; 0; 0; 0; 8; 0; 0; 0; 8;
     0; 0; 0; -1; 0; 1; 1; 2; 0; 0; 0; 0; 0; 0; 0; 0; -1; 0; 0; 1; 0; 0; 0; 0; 0; 0; 0; 0; 0;
     1; 8; 0; 0; 0; 8; 0; 0; 0; 8; 0; 0; 0; -1; 0; 0; 0; 0; 8; 0; 0; 0; 8; 0; 0; 0; -1; 0; 1;
     1; 2; 0; 0; 0; 0; 0; 0; 0; 0; 0; 0; 0; 1; 0; 0; 0; 0; 0; 0; 0; 0; 0].
Proof. vm_compute. reflexivity. Qed.

Example ex_recorded_wide_keys :
  run_script
    [2; 2; -1; 0; 5; 14; 7; 0; 239; 4; 0; 1; 1; 0; 0; 7; 1; 888; 4; 1; 2; 1; 1; 0; 7; 2; 119;
     4; 2; 3; 1; 2; 0; 7; 3; 200; 4; 3; 4; 1; 3; 0; 7; 4; 239; 1; 4; 0; -1; -1; -1; -1; -1; -1;
     -1; -1; -1; -1; -1; 239; -1; -1]
  = [-1; 0; 1; 1; 2; 0; 0; 0; 0; 0; 0; 0; 0; -1; 0; 0; 1; 0; 0; 0; 0; 0; 0; 0; 0; 0; 1; 1; 0;
     0; 0; 0; 664613997892457936451903530140172288; 0; 0; 0;
     664613997892457936451903530140172288; 0; 0; -1; 0; 1; 1; 2; 0;
     664613997892457936451903530140172288; 0; 0; 0; 664613997892457936451903530140172288; 0; 0;
     -1; 0; 0; 1; 0; 0; 664613997892457936451903530140172288; 0; 0; 0;
     664613997892457936451903530140172288; 0; 0; 1; 2; 0; 0; 0; 0;
     664613997892457936451903530140172288; 0; 1; 0; 664613997892457936451903530140172288; 0; 1;
     -1; 0; 1; 1; 2; 0; 664613997892457936451903530140172288; 0; 1; 0;
     664613997892457936451903530140172288; 0; 1; -1; 0; 0; 1; 0; 0;
     664613997892457936451903530140172288; 0; 1; 0; 664613997892457936451903530140172288; 0; 1;
     1; 3; 0; 0; 0; 664613997892457936451903530140172288; 664613997892457936451903530140172288;
     0; 1; 664613997892457936451903530140172288; 664613997892457936451903530140172288; 0; 1;
     -1; 0; 1; 1; 2; 664613997892457936451903530140172288;
     664613997892457936451903530140172288; 0; 1; 664613997892457936451903530140172288;
     664613997892457936451903530140172288; 0; 1; -1; 0; 0; 1; 0;
     664613997892457936451903530140172288; 664613997892457936451903530140172288; 0; 1;
     664613997892457936451903530140172288; 664613997892457936451903530140172288; 0; 1; 1; 4; 0;
     0; 4; 664613997892457936451903530140172288; 1208925819614629174706176; 0; 1;
     664613997892457936451903530140172288; 1208925819614629174706176; 0; 1; -1; 0; 1; 1; 2;
     664613997892457936451903530140172288; 1208925819614629174706176; 0; 1;
     664613997892457936451903530140172288; 1208925819614629174706176; 0; 1; 0; 0; 0; 1; 0;
     664613997892457936451903530140172288; 1208925819614629174706176; 0; 1;
     664613997892457936451903530140172288; 1208925819614629174706176; 0; 1].
Proof. vm_compute. reflexivity. Qed.

(* corpus script 22: FIFO, max_size = usize::MAX/2, shared store: the layer builds (fix b8ecd4c), nothing is evicted *)
Example ex_recorded_usize_max :
  run_script
    [2; 9223372036854775807; -1; 1; 11; 28; 7; 0; 124; 4; 0; 301; 1; 0; 0; 7; 1; 20; 4; 1; 302;
     1; 1; 0; 7; 2; 20; 4; 2; 303; 1; 2; 0; 7; 3; 333; 4; 3; 0; 1; 3; 0; 7; 4; 833; 4; 4; 305;
     1; 4; 0; 7; 5; 788; 4; 5; 306; 1; 5; 0; 7; 6; 124; 1; 6; 0; 7; 7; 65; 1; 7; 0; 7; 8; 20;
     1; 8; 0; 7; 9; 77; 1; 9; 0; 7; 10; 86; 1; 10; 0; -1; -1; -1; -1; -1; -1; -1; -1; -1; -1;
     -1; -1; -1; -1; -1; -1; -1; -1; -1; -1; -1; -1; -1; -1; -1; -1; -1; -1]
  = [-1; 0; 1; 1; 2; 0; 0; 0; 0; 0; 0; 0; 0; -1; 0; 0; 1; 0; 0; 0; 0; 0; 0; 0; 0; 0; 1; 301; 0;
     0; 0; 0; 16; 0; 0; 0; 16; 0; 0; -1; 0; 1; 1; 2; 0; 16; 0; 0; 0; 16; 0; 0; -1; 0; 0; 1; 0;
     0; 16; 0; 0; 0; 16; 0; 0; 1; 302; 0; 0; 0; 1048576; 16; 0; 0; 1048576; 16; 0; 0; -1; 0; 0;
     0; 1; 1048576; 16; 0; 0; 1048576; 16; 0; 0; -1; 0; 0; 0; 0; 1048576; 16; 0; 0; 1048576;
     16; 0; 0; 1; 302; 0; 0; 0; 1048576; 16; 0; 0; 1048576; 16; 0; 0; -1; 0; 1; 1; 2; 1048576;
     16; 0; 0; 1048576; 16; 0; 0; -1; 0; 0; 1; 0; 1048576; 16; 0; 0; 1048576; 16; 0; 0; 2; 0;
     0; 0; 0; 1048576; 16; 0; 0; 1048576; 16; 0; 0; -1; 0; 1; 1; 2; 1048576; 16; 0; 0; 1048576;
     16; 0; 0; -1; 0; 0; 1; 0; 1048576; 16; 0; 0; 1048576; 16; 0; 0; 1; 305; 0; 0; 0;
     36893488147420151808; 16; 0; 0; 36893488147420151808; 16; 0; 0; -1; 0; 0; 0; 1;
     36893488147420151808; 16; 0; 0; 36893488147420151808; 16; 0; 0; -1; 0; 0; 0; 0;
     36893488147420151808; 16; 0; 0; 36893488147420151808; 16; 0; 0; 1; 302; 0; 0; 0;
     36893488147420151808; 16; 0; 0; 36893488147420151808; 16; 0; 0; -1; 0; 0; 0; 1;
     36893488147420151808; 16; 0; 0; 36893488147420151808; 16; 0; 0; 1; 301; 0; 0; 0;
     36893488147420151808; 16; 0; 0; 36893488147420151808; 16; 0; 0; -1; 0; 0; 0; 1;
     36893488147420151808; 16; 0; 0; 36893488147420151808; 16; 0; 0; 1; 305; 0; 0; 0;
     36893488147420151808; 16; 0; 0; 36893488147420151808; 16; 0; 0; -1; 0; 0; 0; 1;
     36893488147420151808; 16; 0; 0; 36893488147420151808; 16; 0; 0; 1; 302; 0; 0; 0;
     36893488147420151808; 16; 0; 0; 36893488147420151808; 16; 0; 0; -1; 0; 1; 1; 2;
     36893488147420151808; 16; 0; 0; 36893488147420151808; 16; 0; 0; 0; 0; 0; 1; 0;
     36893488147420151808; 16; 0; 0; 36893488147420151808; 16; 0; 0; -1; 0; 1; 2; 2;
     36893488147420151808; 16; 0; 0; 36893488147420151808; 16; 0; 0; 0; 0; 0; 2; 0;
     36893488147420151808; 16; 0; 0; 36893488147420151808; 16; 0; 0].
Proof. vm_compute. reflexivity. Qed.
