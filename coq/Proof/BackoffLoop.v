(* Proofs for the last clause of C14: the retry and reconnect loops, as they count attempts
   (retry: checked usize, reconnect: saturating u32 widened to usize), never panic against a
   dead backend, for every number of failures. *)
From Flocq Require Import Core IEEE754.BinarySingleNaN IEEE754.Binary IEEE754.Bits.
From Coq Require Import Lia ZArith NArith List.
From TR Require Import Lib.Base Model.Backoff Proof.Backoff.
Import ListNotations.
Local Open Scope Z_scope.

(* totality for EVERY attempt number (Proof/Backoff.v: no bound at all on the N) *)
Lemma backoff_total_any b a draw : wf_backoff b = true -> exists d, next_backoff b a draw = Some d.
Proof. intros W. destruct (total_backoff b a draw W) as (d & _ & H). exists d. exact H. Qed.
Definition policy_total_any := total_policy.

(* ---------- retry: `attempt + 1` never overflows because attempt < max_attempts <= usize::MAX *)
Lemma retry_loop_gen b mx draws : wf_backoff b = true -> (mx <= USIZE_MAX)%N ->
  forall fuel i, ((N.of_nat i < mx)%N \/ i = 0%nat) ->
  exists ds, loop_delays (retry_stepf b mx draws) fuel i (N.of_nat i) = (ds, false) /\
    N.of_nat (length ds) = N.min (N.of_nat fuel) (N.pred mx - N.of_nat i)%N /\
    (forall j d, nth_error ds j = Some d ->
       next_backoff b (N.of_nat (i + j)) (draws (i + j)%nat) = Some d).
Proof.
  intros W Hmx. induction fuel as [|k IH]; intros i Hi; cbn [loop_delays].
  - exists []. split; [reflexivity|]. split; [cbn; lia|]. intros [|j] d; discriminate.
  - unfold retry_stepf at 1. unfold retry_step, usize_succ.
    assert (Hlt : (N.of_nat i <? USIZE_MAX)%N = true).
    { apply N.ltb_lt. destruct Hi as [Hi| ->]; [lia|]. unfold USIZE_MAX. cbn. lia. }
    rewrite Hlt.
    destruct (mx <=? N.of_nat i + 1)%N eqn:E.
    + apply N.leb_le in E. exists []. split; [reflexivity|]. split; [cbn; lia|].
      intros [|j] d; discriminate.
    + apply N.leb_gt in E.
      destruct (backoff_total_any b (N.of_nat i) (draws i) W) as [d Hd]. rewrite Hd.
      replace (N.of_nat i + 1)%N with (N.of_nat (S i)) by lia.
      destruct (IH (S i) ltac:(left; lia)) as (l & El & Hlen & Hn). rewrite El.
      exists (d :: l). split; [reflexivity|]. split.
      * cbn [length]. rewrite !Nat2N.inj_succ in *. lia.
      * intros [|j] d' Hj.
        -- cbn in Hj. replace (i + 0)%nat with i by lia. congruence.
        -- cbn in Hj. replace (i + S j)%nat with (S i + j)%nat by lia. apply Hn, Hj.
Qed.

Theorem retry_loop_total b mx draws fuel : wf_backoff b = true -> (mx <= USIZE_MAX)%N ->
  exists ds, loop_delays (retry_stepf b mx draws) fuel 0 0%N = (ds, false) /\
    N.of_nat (length ds) = N.min (N.of_nat fuel) (N.pred mx) /\
    (forall j d, nth_error ds j = Some d -> next_backoff b (N.of_nat j) (draws j) = Some d).
Proof.
  intros W Hmx.
  destruct (retry_loop_gen b mx draws W Hmx fuel 0%nat ltac:(right; reflexivity)) as (ds & E & L & H).
  exists ds. split; [exact E|]. split; [rewrite N.sub_0_r in L; exact L|].
  intros j d Hj. specialize (H j d Hj). rewrite !Nat.add_0_l in H. exact H.
Qed.

(* ---------- reconnect: the counter saturates *)
Definition sat32 (i : nat) : N := N.min (N.of_nat i) U32_MAX.

Lemma sat32_0 : sat32 0 = 0%N.
Proof. reflexivity. Qed.
Lemma sat32_eq i : sat32 i = N.min (N.of_nat i) U32_MAX.
Proof. reflexivity. Qed.
Lemma sat32_succ i : u32_sat_succ (sat32 i) = sat32 (S i).
Proof.
  unfold u32_sat_succ, u32_checked_succ, sat32, U32_MAX. rewrite Nat2N.inj_succ.
  destruct (N.ltb_spec (N.min (N.of_nat i) 4294967295) 4294967295); lia.
Qed.

(* "a count that overflows the counter exceeds every configured maximum": after i failures the
   (i+1)-th is refused exactly when i >= min(max, u32::MAX) *)
Lemma exceeded_spec m i :
  match u32_checked_succ (sat32 i) with Some n => (m <? n)%N | None => true end
  = (N.min m U32_MAX <=? N.of_nat i)%N.
Proof.
  unfold u32_checked_succ, sat32, U32_MAX.
  destruct (N.ltb_spec (N.min (N.of_nat i) 4294967295) 4294967295) as [H|H].
  - destruct (N.ltb_spec m (N.min (N.of_nat i) 4294967295 + 1));
      destruct (N.leb_spec (N.min m 4294967295) (N.of_nat i)); try reflexivity; lia.
  - destruct (N.leb_spec (N.min m 4294967295) (N.of_nat i)); try reflexivity; lia.
Qed.

Lemma reconnect_loop_gen p mx draws : wf_policy p = true ->
  forall fuel i,
  exists ds, loop_delays (reconnect_stepf p mx draws) fuel i (sat32 i) = (ds, false) /\
    (forall j d, nth_error ds j = Some d ->
       delay_for_attempt p (sat32 (S (i + j))) (draws (i + j)%nat) = Some (Some d)) /\
    (p <> PNone -> mx = None -> length ds = fuel) /\
    (p <> PNone -> forall m, mx = Some m ->
       N.of_nat (length ds) = N.min (N.of_nat fuel) (N.min m U32_MAX - N.of_nat i)%N).
Proof.
  intros W. induction fuel as [|k IH]; intros i; cbn [loop_delays].
  - exists []. split; [reflexivity|]. split; [intros [|j] d; discriminate|].
    split; [reflexivity|]. intros _ m _. cbn. lia.
  - unfold reconnect_stepf at 1. unfold reconnect_step. rewrite sat32_succ.
    destruct (match mx with
              | Some m => match u32_checked_succ (sat32 i) with Some n => (m <? n)%N | None => true end
              | None => false end) eqn:E.
    + exists []. split; [reflexivity|]. split; [intros [|j] d; discriminate|].
      split; [intros _ ->; discriminate|].
      intros _ m Hm. rewrite Hm in E. rewrite exceeded_spec in E. apply N.leb_le in E. cbn [length]. lia.
    + destruct (policy_total_any p (sat32 (S i)) (draws i) W) as (r & Hr & Hnone). rewrite Hr.
      destruct r as [d|].
      * destruct (IH (S i)) as (l & El & Hn & Hlen & Hlen'). rewrite El.
        exists (d :: l). split; [reflexivity|]. split; [|split].
        -- intros [|j] d' Hj.
           ++ cbn in Hj. replace (i + 0)%nat with i by lia. congruence.
           ++ cbn in Hj. replace (i + S j)%nat with (S i + j)%nat by lia. apply Hn, Hj.
        -- intros Hp Hm. cbn [length]. f_equal. apply Hlen; assumption.
        -- intros Hp m Hm. specialize (Hlen' Hp m Hm). rewrite Hm in E.
           rewrite exceeded_spec in E. apply N.leb_gt in E.
           cbn [length]. rewrite !Nat2N.inj_succ in *. lia.
      * exists []. split; [reflexivity|]. split; [intros [|j] d; discriminate|].
        split; [intros Hp _|intros Hp m Hm]; exfalso; apply Hp; apply Hnone; reflexivity.
Qed.

Theorem reconnect_loop_total p mx draws fuel : wf_policy p = true ->
  exists ds, loop_delays (reconnect_stepf p mx draws) fuel 0 0%N = (ds, false) /\
    (forall j d, nth_error ds j = Some d ->
       delay_for_attempt p (N.min (N.of_nat (S j)) U32_MAX) (draws j) = Some (Some d)) /\
    (p <> PNone -> mx = None -> length ds = fuel) /\
    (p <> PNone -> forall m, mx = Some m ->
       N.of_nat (length ds) = N.min (N.of_nat fuel) (N.min m U32_MAX)).
Proof.
  intros W. destruct (reconnect_loop_gen p mx draws W fuel 0%nat) as (ds & E & H & L & L').
  rewrite sat32_0 in E.
  exists ds. split; [exact E|]. split; [|split; [exact L|]].
  - intros j d Hj. specialize (H j d Hj). rewrite !Nat.add_0_l, sat32_eq in H. exact H.
  - intros Hp m Hm. rewrite (L' Hp m Hm). rewrite N.sub_0_r. reflexivity.
Qed.

(* the delays slept by the default kind of policy are non-decreasing along the loop and capped *)
Lemma sat32_mono j k : (j <= k)%nat -> (sat32 j <= sat32 k)%N.
Proof. unfold sat32. lia. Qed.

Theorem reconnect_loop_exponential c mx fuel draws j k dj dk :
  wf_cfg c = true -> (j <= k)%nat ->
  nth_error (fst (loop_delays (reconnect_stepf (PExponential c) mx draws) fuel 0 0%N)) j = Some dj ->
  nth_error (fst (loop_delays (reconnect_stepf (PExponential c) mx draws) fuel 0 0%N)) k = Some dk ->
  0 <= dj <= dk /\ dk <= cap_of (max_interval c) <= DUR_MAX.
Proof.
  intros W Hjk Hj Hk.
  destruct (reconnect_loop_total (PExponential c) mx draws fuel W) as (ds & E & H & _ & _).
  rewrite E in Hj, Hk. cbn [fst] in Hj, Hk.
  pose proof (H j dj Hj) as Aj. pose proof (H k dk Hk) as Ak.
  rewrite <- sat32_eq in Aj, Ak. rewrite delay_exp in Aj, Ak.
  assert (Ej : dj = base_of c (sat32 (S j))) by congruence.
  assert (Ek : dk = base_of c (sat32 (S k))) by congruence.
  subst dj dk.
  pose proof (base_mono c _ _ W (sat32_mono (S j) (S k) ltac:(lia))).
  destruct (base_range c (sat32 (S j)) W). destruct (base_range c (sat32 (S k)) W). lia.
Qed.

Theorem retry_loop_exponential c mx fuel draws j k dj dk :
  wf_cfg c = true -> (mx <= USIZE_MAX)%N -> (j <= k)%nat ->
  nth_error (fst (loop_delays (retry_stepf (Exponential c) mx draws) fuel 0 0%N)) j = Some dj ->
  nth_error (fst (loop_delays (retry_stepf (Exponential c) mx draws) fuel 0 0%N)) k = Some dk ->
  0 <= dj <= dk /\ dk <= cap_of (max_interval c) <= DUR_MAX.
Proof.
  intros W Hmx Hjk Hj Hk.
  destruct (retry_loop_total (Exponential c) mx draws fuel W Hmx) as (ds & E & _ & H).
  rewrite E in Hj, Hk. cbn [fst] in Hj, Hk.
  pose proof (H j dj Hj) as Aj. pose proof (H k dk Hk) as Ak.
  unfold next_backoff in Aj, Ak. rewrite next_interval_exp in Aj, Ak.
  assert (Ej : dj = base_of c (N.of_nat j)) by congruence.
  assert (Ek : dk = base_of c (N.of_nat k)) by congruence.
  subst dj dk.
  pose proof (base_mono c (N.of_nat j) (N.of_nat k) W ltac:(lia)).
  destruct (base_range c (N.of_nat j) W). destruct (base_range c (N.of_nat k) W). lia.
Qed.

(* after 2^32 - 1 failures the reconnect counter stays at u32::MAX: every later step asks the
   policy for the same attempt number *)
Lemma sat32_saturated i : (U32_MAX <= N.of_nat i)%N -> sat32 i = U32_MAX.
Proof. unfold sat32. lia. Qed.

(* ---------- what /repo 4ccf9b3 repaired: with max_attempts(u32::MAX) the step after u32::MAX
   counted failures (the 2^32-th failed call) gives up; with the merely saturating counter of
   0c0148b (`attempt > max` on the stored value) it slept again, for ever. Unlimited attempts
   keep going in both. Not reachable by any executed script (2^32 failed calls): theorem-only. *)
Definition reconnect_step_saturating (p : reconnect_policy) (max_attempts : option N) (attempt : N)
  (draw : f64) : loop_step :=
  let a1 := N.min (attempt + 1) U32_MAX in
  if match max_attempts with Some m => (m <? a1)%N | None => false end then LStop
  else match delay_for_attempt p a1 draw with
       | None => LPanic | Some None => LStop | Some (Some d) => LSleep d a1 end.

Example max_attempts_u32_max_is_a_bound :
  reconnect_step default_policy (Some U32_MAX) U32_MAX fzero = LStop /\
  reconnect_step_saturating default_policy (Some U32_MAX) U32_MAX fzero = LSleep (5 * NANOS) U32_MAX /\
  reconnect_step default_policy (Some U32_MAX) (U32_MAX - 1) fzero = LSleep (5 * NANOS) U32_MAX /\
  reconnect_step default_policy None U32_MAX fzero = LSleep (5 * NANOS) U32_MAX.
Proof. vm_compute. repeat split; reflexivity. Qed.

(* ---------- what /repo 0c0148b repaired: the same step with `*this.attempt += 1` under overflow
   checks panics once the counter has reached u32::MAX (2^32 - 1 earlier failures), with
   unlimited attempts; and the step of the model (saturating) does not *)
Definition reconnect_step_checked (p : reconnect_policy) (max_attempts : option N) (attempt : N)
  (draw : f64) : loop_step :=
  if (attempt <? U32_MAX)%N then
    let a1 := (attempt + 1)%N in
    if match max_attempts with Some m => (m <? a1)%N | None => false end then LStop
    else match delay_for_attempt p a1 draw with
         | None => LPanic | Some None => LStop | Some (Some d) => LSleep d a1 end
  else LPanic.

Example counter_overflow_before_fix :
  reconnect_step_checked default_policy None U32_MAX fzero = LPanic /\
  reconnect_step default_policy None U32_MAX fzero = LSleep (5 * NANOS) U32_MAX /\
  reconnect_step default_policy None (U32_MAX - 1) fzero = LSleep (5 * NANOS) U32_MAX.
Proof. vm_compute. repeat split; reflexivity. Qed.

(* non-vacuity / the steps the loops actually take *)
Example retry_loop_example :
  loop_delays (retry_stepf (exponential_backoff (100 * MS) ftwo (Some (5 * NANOS))) 8 no_jitter) 100 0 0%N
  = ([100 * MS; 200 * MS; 400 * MS; 800 * MS; 1600 * MS; 3200 * MS; 5 * NANOS], false).
Proof. vm_compute. reflexivity. Qed.
Example retry_counter_at_the_end_of_usize :
  retry_step (exponential_backoff (100 * MS) ftwo None) USIZE_MAX (USIZE_MAX - 2) fzero
    = LSleep DUR_MAX (USIZE_MAX - 1) /\
  retry_step (exponential_backoff (100 * MS) ftwo None) USIZE_MAX (USIZE_MAX - 1) fzero = LStop.
Proof. vm_compute. split; reflexivity. Qed.
Example reconnect_loop_example :
  loop_delays (reconnect_stepf default_policy None no_jitter) 8 0 0%N
  = ([200 * MS; 400 * MS; 800 * MS; 1600 * MS; 3200 * MS; 5 * NANOS; 5 * NANOS; 5 * NANOS], false) /\
  loop_delays (reconnect_stepf default_policy (Some 2%N) no_jitter) 8 0 0%N = ([200 * MS; 400 * MS], false) /\
  loop_delays (reconnect_stepf PNone None no_jitter) 8 0 0%N = ([], false).
Proof. vm_compute. repeat split; reflexivity. Qed.
