(* Proofs about Model/Chaos.v (C19). *)
From TR Require Import Lib.Base Model.Chaos.

Ltac dsplit :=
  unfold decide;
  repeat (match goal with
  | |- context [next ?s] => let x := fresh "x" in let r := fresh "r" in let E := fresh "En" in
        destruct (next s) as [x r] eqn:E
  | |- context [if ?b then _ else _] => let E := fresh "E" in destruct b eqn:E
  end; cbn [fst snd d_kinds d_bits d_err d_delay d_range app andb]).

Local Opaque f64_one f64_inf.

(* ---- comparisons ---- *)
Lemma flt_not_fge a b : flt a b = true -> fge a b = false.
Proof.
  destruct a as [x|], b as [y|]; cbn; try discriminate.
  intros H. apply Z.ltb_lt in H. apply Z.leb_gt. exact H.
Qed.

Lemma fgt_irrefl a : fgt a a = false.
Proof. destruct a as [x|]; cbn; [apply Z.ltb_irrefl|reflexivity]. Qed.

(* ---- decoding facts (non-vacuity of the rate hypotheses) ---- *)
Example f64_zero : f64_val 0 = Some 0.
Proof. reflexivity. Qed.
Example f64_neg_zero : f64_val (2 ^ 63) = Some 0.
Proof. vm_compute. reflexivity. Qed.
Example f64_one_bits : f64_val 4607182418800017408 = Some f64_one.
Proof. vm_compute. reflexivity. Qed.
Example f64_half_bits : f64_val 4602678819172646912 = Some (2 ^ 1073).
Proof. vm_compute. reflexivity. Qed.
Example f64_nan_bits : f64_val 9221120237041090560 = None.
Proof. vm_compute. reflexivity. Qed.
(* the largest roll rand can return, (2^53-1)/2^53, is below 1.0 *)
Example f64_max_roll : exists v, f64_val 4607182418800017407 = Some v /\ 0 <= v < f64_one.
Proof. eexists. split; [vm_compute; reflexivity|]. vm_compute. split; [discriminate|reflexivity]. Qed.
Example cfg_rate_one : erate (mk_config 1 4607182418800017408 0 0 0) = Some f64_one.
Proof. vm_compute. reflexivity. Qed.
Example cfg_rate_gt_one_clamped : erate (mk_config 1 4611686018427387904 0 0 0) = Some f64_one.
Proof. vm_compute. reflexivity. Qed.
Example cfg_rate_zero : erate (mk_config 1 0 0 0 0) = Some 0 /\ lrate (mk_config 1 0 0 0 0) = Some 0.
Proof. vm_compute. split; reflexivity. Qed.
Example cfg_no_injector inj eb lb a b : inj = 0 -> erate (mk_config inj eb lb a b) = Some 0.
Proof. intros ->. reflexivity. Qed.
(* error rate 1 configured, then the error function replaced (route 8): still rate 1 *)
Example cfg_rate_one_fn_replaced :
  erate (mk_config (1 + 2 * 8) 4607182418800017408 0 0 0) = Some f64_one /\
  custom (mk_config (1 + 2 * 8) 4607182418800017408 0 0 0) = true.
Proof. vm_compute. split; reflexivity. Qed.

(* every clamped rate is NaN or lies in [0,1] *)
Lemma clamp01_range a v : clamp01 a = Some v -> 0 <= v <= f64_one.
Proof.
  assert (H1 : 0 < f64_one) by (vm_compute; reflexivity).
  destruct a as [x|]; cbn; [|discriminate]. intros H. injection H as <-.
  destruct (x <? 0) eqn:E1; [lia|]. apply Z.ltb_ge in E1.
  destruct (f64_one <? x) eqn:E2; [lia|]. apply Z.ltb_ge in E2. lia.
Qed.

(* ---- the builder ---- *)
Lemma clamp01_idem a : clamp01 (clamp01 a) = clamp01 a.
Proof.
  assert (H1 : 0 < f64_one) by (vm_compute; reflexivity).
  destruct a as [x|]; cbn; [|reflexivity]. f_equal.
  destruct (x <? 0) eqn:E1.
  - cbn. destruct (f64_one <? 0) eqn:E; [apply Z.ltb_lt in E; lia|reflexivity].
  - apply Z.ltb_ge in E1. destruct (f64_one <? x) eqn:E2.
    + destruct (f64_one <? 0) eqn:E3; [apply Z.ltb_lt in E3; lia|]. rewrite Z.ltb_irrefl. reflexivity.
    + rewrite E2. destruct (x <? 0) eqn:E3; [apply Z.ltb_lt in E3; lia|reflexivity].
Qed.

Lemma clamp01_zero : clamp01 (Some 0) = Some 0.
Proof.
  cbn. destruct (f64_one <? 0) eqn:E; [|reflexivity].
  apply Z.ltb_lt in E. assert (0 < f64_one) by (vm_compute; reflexivity). lia.
Qed.

(* the last error_rate() of a call sequence *)
Fixpoint last_rate (ops : list bop) (acc : option (option Z)) : option (option Z) :=
  match ops with
  | [] => acc
  | BRate r :: t => last_rate t (Some r)
  | BFn :: t => last_rate t acc
  end.
Definition rate_of (acc : option (option Z)) : option Z :=
  match acc with Some r => clamp01 r | None => Some 0 end.
Definition is_fn (o : bop) : bool := match o with BFn => true | BRate _ => false end.

Lemma rate_of_idem acc : clamp01 (rate_of acc) = rate_of acc.
Proof. destruct acc as [r|]; cbn [rate_of]; [apply clamp01_idem|apply clamp01_zero]. Qed.

Lemma fold_rate ops b acc :
  brate b = rate_of acc ->
  brate (fold_left bstep ops b) = rate_of (last_rate ops acc) /\
  bcustom (fold_left bstep ops b) = bcustom b || existsb is_fn ops.
Proof.
  revert b acc. induction ops as [|o ops IH]; intros b acc Hb; cbn [fold_left last_rate existsb].
  - split; [exact Hb|rewrite orb_false_r; reflexivity].
  - destruct o as [r|].
    + destruct (IH (bstep b (BRate r)) (Some r)) as [A B]; [destruct b; reflexivity|].
      split; [exact A|]. rewrite B. destruct b; reflexivity.
    + destruct (IH (bstep b BFn) acc) as [A B].
      { destruct b as [|r0|r0]; cbn [bstep brate] in *.
        - rewrite <- Hb. apply clamp01_zero.
        - rewrite Hb. apply rate_of_idem.
        - rewrite Hb. apply rate_of_idem. }
      split; [exact A|]. rewrite B. destruct b; cbn; rewrite ?orb_true_r; reflexivity.
Qed.

(* whatever the order of the calls: the LAST error_rate() wins (clamped to [0,1]) and error_fn() never
   changes the rate, however often the error function is replaced; the injector is CustomErrorFn as
   soon as error_fn() was called once *)
Lemma builder_last_rate_wins ops :
  brate (build ops) = rate_of (last_rate ops None) /\ bcustom (build ops) = existsb is_fn ops.
Proof. unfold build. exact (fold_rate ops BNone None eq_refl). Qed.

Lemma route_ops_last route r :
  0 <= route < 16 -> last_rate (route_ops route r) None = Some r /\ existsb is_fn (route_ops route r) = true.
Proof.
  intros H.
  assert (E : route = 0 \/ route = 1 \/ route = 2 \/ route = 3 \/ route = 4 \/ route = 5 \/ route = 6 \/
              route = 7 \/ route = 8 \/ route = 9 \/ route = 10 \/ route = 11 \/ route = 12 \/ route = 13 \/
              route = 14 \/ route = 15) by lia.
  repeat (destruct E as [->|E]; [split; reflexivity|]). subst. split; reflexivity.
Qed.

(* every builder route of the harness (error_fn before or after error_rate, through
   ChaosConfigBuilderWithRate, the error function replaced once or twice, rates overwritten) yields
   CustomErrorFn with exactly the script's error rate, clamped *)
Lemma routes_configure_rate flags eb lb minv maxv :
  flags mod 2 = 1 ->
  custom (mk_config flags eb lb minv maxv) = true /\
  erate (mk_config flags eb lb minv maxv) = clamp01 (f64_val eb).
Proof.
  intros H. unfold mk_config. rewrite H. cbn [Z.eqb custom erate].
  assert (R : 0 <= (flags / 2) mod 16 < 16) by (apply Z.mod_pos_bound; lia).
  destruct (builder_last_rate_wins (route_ops ((flags / 2) mod 16) (f64_val eb))) as [A B].
  destruct (route_ops_last _ (f64_val eb) R) as [C D].
  rewrite A, B, C, D. split; reflexivity.
Qed.

Lemma no_injector_config flags eb lb minv maxv :
  flags mod 2 = 0 ->
  custom (mk_config flags eb lb minv maxv) = false /\ erate (mk_config flags eb lb minv maxv) = Some 0.
Proof. intros H. unfold mk_config. rewrite H. split; reflexivity. Qed.

(* ---- the decision block ---- *)
Lemma err_excludes_latency c st :
  d_err (fst (decide c st)) = true ->
  d_delay (fst (decide c st)) = None /\ d_range (fst (decide c st)) = None /\
  (forall k, In k (d_kinds (fst (decide c st))) -> k = 0).
Proof.
  dsplit; intros H;
    repeat match goal with
    | H : _ && _ = true |- _ => apply andb_prop in H; destruct H
    end;
    try match goal with
    | H1 : flt ?a ?b = true, H2 : fge ?a ?b = true |- _ =>
        rewrite (flt_not_fge _ _ H1) in H2; discriminate
    end;
    (split; [reflexivity|split; [reflexivity|]]); intros k Hk; cbn in Hk;
    repeat destruct Hk as [Hk|Hk]; try (symmetry; exact Hk); try contradiction.
Qed.

Lemma no_injector_no_error c st : custom c = false -> d_err (fst (decide c st)) = false.
Proof. intros Hc. dsplit; rewrite Hc; reflexivity. Qed.

(* which log entries a request produces, in which order *)
Definition kinds_ok (c : config) (d : decision) : Prop :=
  (* shape: [0]? ++ [1]? ++ [2]?, and a delay entry only after a latency roll *)
  d_kinds d = (if fgt (erate c) (Some 0) then [0] else []) ++
              (if existsb (Z.eqb 1) (d_kinds d) then [1] else []) ++
              (match d_delay d with Some _ => [2] | None => [] end) /\
  (* error roll iff error rate > 0 *)
  (In 0 (d_kinds d) <-> fgt (erate c) (Some 0) = true) /\
  (* no latency roll when latency rate is not > 0, nor after an injected error *)
  (In 1 (d_kinds d) -> fgt (lrate c) (Some 0) = true /\ d_err d = false) /\
  (* latency rate > 0 and no error roll: the latency roll is always drawn *)
  (fgt (lrate c) (Some 0) = true -> fgt (erate c) (Some 0) = false -> erate c <> None ->
   In 1 (d_kinds d)) /\
  (* delay entry iff latency injected; a latency needs a latency roll *)
  (In 2 (d_kinds d) <-> d_delay d <> None) /\
  (d_delay d <> None -> In 1 (d_kinds d)) /\
  (* the RNG range draw happens iff latency is injected and max_ms > min_ms *)
  (forall z, d_range d = Some z <-> (d_delay d = Some z /\ min_ms c < max_ms c)) /\
  (min_ms c >= max_ms c -> forall x, d_delay d = Some x -> x = min_ms c) /\
  length (d_bits d) = length (d_kinds d).

Lemma fge_not_flt a b : fge a b = true -> flt a b = false.
Proof.
  destruct a as [x|], b as [y|]; cbn; try discriminate; try reflexivity.
  intros H. apply Z.leb_le in H. apply Z.ltb_ge. exact H.
Qed.

Lemma draw_discipline c st : kinds_ok c (fst (decide c st)).
Proof.
  assert (H1 : 0 < f64_one) by (vm_compute; reflexivity).
  unfold kinds_ok.
  dsplit;
    repeat match goal with
    | H : _ && _ = true |- _ => apply andb_prop in H; destruct H
    | H : (_ <? _) = true |- _ => apply Z.ltb_lt in H
    | H : (_ <? _) = false |- _ => apply Z.ltb_ge in H
    | H : fge ?a ?b = true |- _ => rewrite (fge_not_flt _ _ H) in *; clear H
    end;
    rewrite ?andb_false_r in *.
  all: cbn [existsb Z.eqb orb] in *; try discriminate.
  all: repeat split; cbn [app length]; try reflexivity; try assumption.
  all: try (intros; cbn [In] in *; intuition (try discriminate; try congruence; try lia); fail).
  all: try (intros HH; injection HH as <-; split; [reflexivity|lia]).
  all: try (intros ? x' HH; injection HH as <-; try reflexivity; lia).
  (* latency rate > 0, error rate not > 0 and not NaN: fge 1.0 rate holds *)
  all: intros HL _ HN; exfalso;
    match goal with H : fgt (lrate _) (Some 0) && _ = false |- _ => rewrite HL in H; cbn [andb] in H end;
    match goal with |- context [erate ?c] => idtac | _ => idtac end;
    destruct (erate _) as [v|]; [|apply HN; reflexivity];
    cbn [fgt flt fge] in *;
    repeat match goal with
    | H : (_ <? _) = false |- _ => apply Z.ltb_ge in H
    | H : (_ <=? _) = false |- _ => apply Z.leb_gt in H
    end; lia.
Qed.

Lemma decide_prefix c st :
  (length (d_kinds (fst (decide c st))) <= length st)%nat ->
  st = d_bits (fst (decide c st)) ++ snd (decide c st).
Proof.
  unfold decide, next.
  destruct (fgt (erate c) (Some 0)); destruct st as [|a [|b [|e t]]];
    cbn [fst snd andb];
    repeat (match goal with
    | |- context [if ?b then _ else _] => destruct b
    end; cbn [fst snd d_kinds d_bits app length]); intros H; try reflexivity; cbn in H; lia.
Qed.

Lemma latency_bounds c st d :
  d_delay (fst (decide c st)) = Some d ->
  (forall z, d_range (fst (decide c st)) = Some z -> min_ms c <= z <= max_ms c) ->
  Z.min (min_ms c) (max_ms c) <= d <= Z.max (min_ms c) (max_ms c).
Proof.
  dsplit; intros H Hr; try discriminate; injection H as <-;
    repeat match goal with
    | H : (_ <? _) = true |- _ => apply Z.ltb_lt in H
    | H : (_ <? _) = false |- _ => apply Z.ltb_ge in H
    end.
  all: try (specialize (Hr _ eq_refl)); lia.
Qed.

(* ---- one request ---- *)
Lemma handle_dec c te i t q st :
  o_dec (fst (handle c te i t q st)) = fst (decide c st) /\
  snd (handle c te i t q st) = snd (decide c st).
Proof.
  unfold handle. destruct (decide c st) as [d rest]. cbn [fst snd].
  destruct (d_err d); [split; reflexivity|].
  destruct (_ <=? _); [destruct (_ <=? _)|]; split; reflexivity.
Qed.

Lemma handle_issue c te i t q st : o_t_issue (fst (handle c te i t q st)) = t.
Proof.
  unfold handle. destruct (decide c st) as [d rest].
  destruct (d_err d); [reflexivity|]. destruct (_ <=? _); [destruct (_ <=? _)|]; reflexivity.
Qed.

Lemma q_lat_nonneg q : 0 <= q_lat q.
Proof. unfold q_lat. apply Z.le_max_l. Qed.

Lemma handle_error_skips_inner c te i t q st :
  let o := fst (handle c te i t q st) in
  d_err (o_dec o) = true ->
  o_inner o = false /\ o_t_inner o = -1 /\ o_res_kind o = 1 /\ o_res_val o = err_fn i /\
  o_t_done o = t /\ o_ev_err o = 1 /\ o_ev_lat o = 0 /\ o_ev_pass o = 0.
Proof.
  unfold handle. destruct (decide c st) as [d rest]. cbn zeta.
  destruct (d_err d) eqn:E; cbn [fst o_dec].
  - intros _. repeat split.
  - destruct (_ <=? _); [destruct (_ <=? _)|]; cbn [fst o_dec]; intros HH; rewrite E in HH; discriminate.
Qed.

(* what a request that is not failed does: the inner service is called exactly at
   t + injected latency (if the run lasts that long) and its result comes back unchanged
   when the inner service answers, q_lat q later *)
Lemma handle_pass c te i t q st :
  let o := fst (handle c te i t q st) in
  d_err (o_dec o) = false ->
  let lat := match d_delay (o_dec o) with Some x => x | None => 0 end in
  o_ev_err o = 0 /\
  (t + lat <= te -> o_inner o = true /\ o_t_inner o = t + lat) /\
  (t + lat + q_lat q <= te ->
   o_t_done o = t + lat + q_lat q /\ o_res_kind o = q_kind q /\ o_res_val o = q_iv q) /\
  (te < t + lat + q_lat q -> o_res_kind o = -1) /\
  (te < t + lat -> o_inner o = false).
Proof.
  pose proof (q_lat_nonneg q) as Hq.
  unfold handle. destruct (decide c st) as [d rest]. cbn zeta.
  destruct (d_err d) eqn:E; cbn [fst o_dec]; [intros HH; rewrite E in HH; discriminate|].
  destruct (_ <=? _) eqn:L; [destruct (_ + _ + _ <=? _) eqn:L2|];
    cbn [fst o_dec o_ev_err o_inner o_t_inner o_t_done o_res_kind o_res_val];
    intros _; (split; [reflexivity|]).
  - apply Z.leb_le in L, L2. repeat split; intros; try reflexivity; lia.
  - apply Z.leb_le in L. apply Z.leb_gt in L2. repeat split; intros; try reflexivity; lia.
  - apply Z.leb_gt in L. repeat split; intros; try reflexivity; lia.
Qed.

(* ---- runs ---- *)
Lemma run_decisions c te i t qs st :
  map o_dec (fst (run c te i t qs st)) = fst (decisions c (length qs) st) /\
  snd (run c te i t qs st) = snd (decisions c (length qs) st).
Proof.
  revert i t st. induction qs as [|q qs IH]; intros i t st; cbn [run decisions length].
  - split; reflexivity.
  - pose proof (handle_dec c te i (t + Z.max 0 (q_gap q)) q st) as [Hd Hs].
    destruct (handle c te i (t + Z.max 0 (q_gap q)) q st) as [o st'].
    destruct (decide c st) as [d st2]. cbn [fst snd] in Hd, Hs. subst st' d.
    specialize (IH (i + 1) (t + Z.max 0 (q_gap q)) st2).
    destruct (run c te (i + 1) (t + Z.max 0 (q_gap q)) qs st2) as [os st3].
    destruct (decisions c (length qs) st2) as [ds st4]. cbn [fst snd map] in *.
    destruct IH as [-> ->]. split; reflexivity.
Qed.

(* C19_deterministic: the decisions (draws logged, error, latency) and the draws consumed
   depend on the configuration, the draw stream and the NUMBER of requests only — not on
   issue times, payloads, inner outcomes or the length of the run. *)
Lemma deterministic c te te' i i' t t' qs qs' st :
  length qs = length qs' ->
  map o_dec (fst (run c te i t qs st)) = map o_dec (fst (run c te' i' t' qs' st)) /\
  snd (run c te i t qs st) = snd (run c te' i' t' qs' st) /\
  map o_dec (fst (run c te i t qs st)) = fst (decisions c (length qs) st).
Proof.
  intros H.
  pose proof (run_decisions c te i t qs st) as [A B].
  pose proof (run_decisions c te' i' t' qs' st) as [A' B'].
  rewrite A, B, A', B', H. repeat split.
Qed.


(* two instances in lock-step: a run over qs1 ++ qs2 is the run over qs1 followed by the
   run over qs2 on what is left of the stream *)
Lemma run_app c te i t qs1 qs2 st :
  run c te i t (qs1 ++ qs2) st =
  let (os1, st1) := run c te i t qs1 st in
  let (os2, st2) := run c te (i + Z.of_nat (length qs1)) (t + total_gap qs1) qs2 st1 in
  (os1 ++ os2, st2).
Proof.
  revert i t st. induction qs1 as [|q qs1 IH]; intros i t st; cbn [app run length total_gap fold_right].
  - replace (i + Z.of_nat 0) with i by lia. replace (t + 0) with t by lia.
    destruct (run c te i t qs2 st); reflexivity.
  - destruct (handle c te i (t + Z.max 0 (q_gap q)) q st) as [o st'].
    rewrite IH. fold (total_gap qs1).
    destruct (run c te (i + 1) (t + Z.max 0 (q_gap q)) qs1 st') as [os1 st1].
    replace (i + 1 + Z.of_nat (length qs1)) with (i + Z.of_nat (S (length qs1))) by lia.
    replace (t + Z.max 0 (q_gap q) + total_gap qs1) with (t + (Z.max 0 (q_gap q) + total_gap qs1)) by lia.
    destruct (run c te _ _ qs2 st1) as [os2 st2]. reflexivity.
Qed.

(* every outcome of a run is the outcome of [handle] on some suffix state *)
Lemma run_In c te i t qs st o :
  In o (fst (run c te i t qs st)) ->
  exists i' t' q st', In q qs /\ o = fst (handle c te i' t' q st').
Proof.
  revert i t st. induction qs as [|q qs IH]; intros i t st; cbn [run].
  - intros [].
  - destruct (handle c te i (t + Z.max 0 (q_gap q)) q st) as [o1 st'] eqn:Eh.
    destruct (run c te (i + 1) (t + Z.max 0 (q_gap q)) qs st') as [os st''] eqn:Er.
    cbn [fst]. intros [<-|Hin].
    + exists i, (t + Z.max 0 (q_gap q)), q, st. split; [left; reflexivity|].
      rewrite Eh. reflexivity.
    + specialize (IH (i + 1) (t + Z.max 0 (q_gap q)) st'). rewrite Er in IH.
      destruct (IH Hin) as (i' & t' & q' & s' & Hq & ->).
      exists i', t', q', s'. split; [right; exact Hq|reflexivity].
Qed.

Lemma error_skips_inner c te i t qs st o :
  In o (fst (run c te i t qs st)) ->
  d_err (o_dec o) = true ->
  o_inner o = false /\ o_t_inner o = -1 /\ o_res_kind o = 1 /\ o_t_done o = o_t_issue o /\
  d_delay (o_dec o) = None /\ o_ev_err o = 1 /\ o_ev_lat o = 0 /\ o_ev_pass o = 0.
Proof.
  intros Hin He. destruct (run_In _ _ _ _ _ _ _ Hin) as (i' & t' & q & st' & _ & ->).
  pose proof (handle_error_skips_inner c te i' t' q st' He) as (A & B & C & _ & D & E & F & G).
  pose proof (handle_dec c te i' t' q st') as [Hd _].
  rewrite Hd in He. apply err_excludes_latency in He. destruct He as [He _].
  rewrite handle_issue. rewrite Hd. repeat split; assumption.
Qed.

(* ---- transparency at rate 0 ---- *)
Lemma decide_zero c st :
  erate c = Some 0 -> lrate c = Some 0 ->
  decide c st = ({| d_kinds := []; d_bits := []; d_err := false; d_delay := None; d_range := None |}, st).
Proof.
  intros He Hl. unfold decide. rewrite He, Hl.
  cbn [fgt flt]. rewrite Z.ltb_irrefl. cbn [andb].
  replace (custom c && flt (Some f64_one) (Some 0)) with false; [reflexivity|].
  cbn [flt]. replace (f64_one <? 0) with false by (vm_compute; reflexivity).
  rewrite andb_false_r. reflexivity.
Qed.

Definition transparent (te : Z) (q : request) (o : outcome) : Prop :=
  d_kinds (o_dec o) = [] /\ d_bits (o_dec o) = [] /\ d_err (o_dec o) = false /\
  d_delay (o_dec o) = None /\
  o_ev_err o = 0 /\ o_ev_lat o = 0 /\ o_ev_pass o = 1 /\
  (o_t_issue o <= te -> o_inner o = true /\ o_t_inner o = o_t_issue o) /\
  (o_t_issue o + q_lat q <= te ->
   o_t_done o = o_t_issue o + q_lat q /\ o_res_kind o = q_kind q /\ o_res_val o = q_iv q).

Lemma handle_transparent c te i t q st :
  erate c = Some 0 -> lrate c = Some 0 ->
  transparent te q (fst (handle c te i t q st)) /\ snd (handle c te i t q st) = st.
Proof.
  intros He Hl. pose proof (q_lat_nonneg q) as Hq.
  unfold handle. rewrite (decide_zero c st He Hl). cbn [d_err d_delay].
  replace (t + 0) with t by lia.
  destruct (t <=? te) eqn:L; [destruct (t + q_lat q <=? te) eqn:L2|]; cbn [fst snd];
    (split; [|reflexivity]); unfold transparent; cbn.
  - apply Z.leb_le in L, L2. repeat split.
  - apply Z.leb_le in L. apply Z.leb_gt in L2. repeat split; intros; lia.
  - apply Z.leb_gt in L. repeat split; intros; lia.
Qed.

Lemma transparent_at_zero c te i t qs st :
  erate c = Some 0 -> lrate c = Some 0 ->
  Forall2 (transparent te) qs (fst (run c te i t qs st)) /\ snd (run c te i t qs st) = st.
Proof.
  intros He Hl. revert i t. induction qs as [|q qs IH]; intros i t; cbn [run].
  - split; [constructor|reflexivity].
  - pose proof (handle_transparent c te i (t + Z.max 0 (q_gap q)) q st He Hl) as [Ht Hs].
    destruct (handle c te i (t + Z.max 0 (q_gap q)) q st) as [o st']. cbn [fst snd] in Ht, Hs. subst st'.
    specialize (IH (i + 1) (t + Z.max 0 (q_gap q))).
    destruct (run c te (i + 1) (t + Z.max 0 (q_gap q)) qs st) as [os st'].
    cbn [fst snd] in *. destruct IH as [IH ->]. split; [|reflexivity]. constructor; assumption.
Qed.

(* ---- error rate 1 ---- *)
Definition unit_roll (b : Z) : Prop := exists v, f64_val b = Some v /\ 0 <= v < f64_one.

Lemma decide_one c st :
  custom c = true -> erate c = Some f64_one -> Forall unit_roll st ->
  d_err (fst (decide c st)) = true /\ d_kinds (fst (decide c st)) = [0] /\
  Forall unit_roll (snd (decide c st)).
Proof.
  intros Hc He Hs. unfold decide. rewrite He, Hc.
  replace (fgt (Some f64_one) (Some 0)) with true by (vm_compute; reflexivity).
  assert (Hx : unit_roll (fst (next st)) /\ Forall unit_roll (snd (next st))).
  { destruct st as [|x r]; cbn.
    - split; [|constructor]. exists 0. split; [reflexivity|]. vm_compute. split; [discriminate|reflexivity].
    - inversion Hs; subst. split; assumption. }
  destruct (next st) as [x r]. cbn [fst snd] in Hx. destruct Hx as [(v & Hv & Hr) Hrest].
  rewrite Hv. cbn [flt fge andb].
  assert (Hlt : (v <? f64_one) = true) by (apply Z.ltb_lt; lia).
  assert (Hge : (f64_one <=? v) = false) by (apply Z.leb_gt; lia).
  rewrite Hlt, Hge, andb_false_r. cbn [fst snd d_err d_kinds]. repeat split. exact Hrest.
Qed.

Lemma always_fails_at_one c te i t qs st :
  custom c = true -> erate c = Some f64_one -> Forall unit_roll st ->
  Forall (fun o => d_err (o_dec o) = true /\ o_inner o = false /\ o_res_kind o = 1 /\
                   d_kinds (o_dec o) = [0]) (fst (run c te i t qs st)).
Proof.
  intros Hc He. revert i t st. induction qs as [|q qs IH]; intros i t st Hs; cbn [run].
  - constructor.
  - pose proof (decide_one c st Hc He Hs) as (D1 & D2 & D3).
    pose proof (handle_dec c te i (t + Z.max 0 (q_gap q)) q st) as [Hd Hr].
    pose proof (handle_error_skips_inner c te i (t + Z.max 0 (q_gap q)) q st) as Hskip.
    destruct (handle c te i (t + Z.max 0 (q_gap q)) q st) as [o st'].
    cbn [fst snd] in *. rewrite Hd in Hskip. specialize (Hskip D1).
    subst st'. specialize (IH (i + 1) (t + Z.max 0 (q_gap q)) _ D3).
    destruct (run c te (i + 1) (t + Z.max 0 (q_gap q)) qs (snd (decide c st))) as [os st''].
    cbn [fst] in *. constructor; [|exact IH].
    rewrite Hd. destruct Hskip as (A & _ & B & _). repeat split; assumption.
Qed.

(* ---- latency bounds at run level ---- *)
Lemma handle_latency_bounds c te i t q st d :
  let o := fst (handle c te i t q st) in
  d_delay (o_dec o) = Some d ->
  (forall z, d_range (o_dec o) = Some z -> min_ms c <= z <= max_ms c) ->
  Z.min (min_ms c) (max_ms c) <= d <= Z.max (min_ms c) (max_ms c) /\
  d_err (o_dec o) = false /\
  (o_inner o = true -> o_t_inner o = o_t_issue o + d) /\
  (o_t_issue o + d <= te -> o_inner o = true).
Proof.
  cbn zeta. intros Hd Hr.
  pose proof (handle_dec c te i t q st) as [Hdec _].
  rewrite Hdec in Hd, Hr. split; [exact (latency_bounds c st d Hd Hr)|].
  assert (He : d_err (o_dec (fst (handle c te i t q st))) = false).
  { rewrite Hdec. destruct (d_err (fst (decide c st))) eqn:E; [|reflexivity].
    apply err_excludes_latency in E. destruct E as [E _]. congruence. }
  split; [exact He|].
  pose proof (handle_pass c te i t q st He) as (_ & P1 & _ & _ & P2).
  rewrite Hdec, Hd in P1, P2. rewrite handle_issue.
  split.
  - intros Hi. destruct (Z_le_gt_dec (t + d) te) as [L|L].
    + apply P1 in L. tauto.
    + assert (L' : te < t + d) by lia. apply P2 in L'. congruence.
  - intros L. apply P1 in L. tauto.
Qed.

Lemma run_latency_bounds c te i t qs st o d :
  In o (fst (run c te i t qs st)) ->
  d_delay (o_dec o) = Some d ->
  (forall z, d_range (o_dec o) = Some z -> min_ms c <= z <= max_ms c) ->
  Z.min (min_ms c) (max_ms c) <= d <= Z.max (min_ms c) (max_ms c) /\
  d_err (o_dec o) = false /\
  (o_inner o = true -> o_t_inner o = o_t_issue o + d) /\
  (o_t_issue o + d <= te -> o_inner o = true).
Proof.
  intros Hin. destruct (run_In _ _ _ _ _ _ _ Hin) as (i' & t' & q & st' & _ & ->).
  apply handle_latency_bounds.
Qed.

Lemma run_draw_discipline c te i t qs st o :
  In o (fst (run c te i t qs st)) -> kinds_ok c (o_dec o).
Proof.
  intros Hin. destruct (run_In _ _ _ _ _ _ _ Hin) as (i' & t' & q & st' & _ & ->).
  pose proof (handle_dec c te i' t' q st') as [-> _]. apply draw_discipline.
Qed.

(* ---- non-vacuity ---- *)
Definition ex_cfg := mk_config 1 4602678819172646912 4602678819172646912 2000 9999.
Definition ex_stream := [4602918027047224548; 4603063653651445162; 4603907987511953958;
                         4600983695946374540; 2; 4601146817909326816; 4604817348301103375].
Example ex_decisions :
  map (fun d => (d_kinds d, d_err d, d_delay d)) (fst (decisions ex_cfg 3 ex_stream)) =
  [([0; 1], false, None); ([0; 1; 2], false, Some 2); ([0], true, None)].
Proof. vm_compute. reflexivity. Qed.
Example ex_range_hyp_satisfiable :
  forall d, In d (fst (decisions ex_cfg 3 ex_stream)) ->
            forall z, d_range d = Some z -> min_ms ex_cfg <= z <= max_ms ex_cfg.
Proof.
  intros d Hd z Hz. vm_compute in Hd.
  repeat destruct Hd as [<-|Hd]; try contradiction; cbn in Hz; try discriminate.
  injection Hz as <-. vm_compute. split; discriminate.
Qed.
Example ex_unit_rolls : Forall unit_roll [4584395605734499296; 4599203594603405206; 4607182418800017407].
Proof.
  repeat constructor; (eexists; split; [vm_compute; reflexivity|]; vm_compute; split; [discriminate|reflexivity]).
Qed.

Lemma config_truncation flags eb lb minv maxv :
  min_ms (mk_config flags eb lb minv maxv) = dur_ms minv /\
  max_ms (mk_config flags eb lb minv maxv) = dur_ms maxv /\
  (forall v, erate (mk_config flags eb lb minv maxv) = Some v -> 0 <= v <= f64_one) /\
  (forall v, lrate (mk_config flags eb lb minv maxv) = Some v -> 0 <= v <= f64_one).
Proof.
  assert (H1 : 0 < f64_one) by (vm_compute; reflexivity).
  split; [reflexivity|]. split; [reflexivity|]. split; intros v Hv.
  - cbn [erate mk_config] in Hv. rewrite (proj1 (builder_last_rate_wins _)) in Hv.
    destruct (last_rate _ None) as [r|]; cbn [rate_of] in Hv.
    + eapply clamp01_range; eassumption.
    + injection Hv as <-. lia.
  - cbn [lrate mk_config] in Hv. eapply clamp01_range; eassumption.
Qed.

(* the script's bound encoding: microseconds below 2^64, nanoseconds above; the service's
   `u64::try_from(as_millis()).unwrap_or(u64::MAX)` is the exact truncation to whole ms as long
   as that is below 2^64, and u64::MAX ms beyond *)
Lemma dur_floor_nonneg v : 0 <= dur_floor_ms v.
Proof.
  unfold dur_floor_ms. destruct (Z.ltb_spec v (2 ^ 64)).
  - apply Z.div_pos; lia.
  - apply Z.div_pos; lia.
Qed.

Lemma dur_ms_micros v : 0 <= v < 2 ^ 64 -> dur_ms v = v / 1000.
Proof.
  intros H. unfold dur_ms, dur_floor_ms, u64_max.
  replace (v <? 2 ^ 64) with true by (symmetry; apply Z.ltb_lt; lia).
  replace (Z.max 0 v) with v by lia.
  apply Z.min_l. assert (v / 1000 < 2 ^ 64) by (apply Z.div_lt_upper_bound; lia). lia.
Qed.

Lemma dur_ms_nowrap v : dur_floor_ms v < 2 ^ 64 -> dur_ms v = dur_floor_ms v.
Proof. intros H. unfold dur_ms, u64_max. apply Z.min_l. lia. Qed.

Lemma dur_ms_saturates v : 2 ^ 64 - 1 <= dur_floor_ms v -> dur_ms v = 2 ^ 64 - 1.
Proof. intros H. unfold dur_ms, u64_max. apply Z.min_r. exact H. Qed.

Lemma dur_ms_range v : 0 <= dur_ms v <= 2 ^ 64 - 1.
Proof. pose proof (dur_floor_nonneg v). unfold dur_ms, u64_max. lia. Qed.

Lemma dur_ms_sat_range v :
  (2 ^ 64 - 1 <= dur_floor_ms v -> dur_ms v = 2 ^ 64 - 1) /\ 0 <= dur_ms v <= 2 ^ 64 - 1.
Proof. split; [apply dur_ms_saturates|apply dur_ms_range]. Qed.

(* ---- runs as lists of first polls ---- *)
Lemma run_polls_decisions c te ps st :
  map (fun po => o_dec (snd po)) (fst (run_polls c te ps st)) = fst (decisions c (length ps) st) /\
  snd (run_polls c te ps st) = snd (decisions c (length ps) st) /\
  map fst (fst (run_polls c te ps st)) = ps.
Proof.
  revert st. induction ps as [|p ps IH]; intros st; cbn [run_polls decisions length].
  - repeat split.
  - pose proof (handle_dec c te (p_idx p) (p_poll p) (p_req p) st) as [Hd Hs].
    destruct (handle c te (p_idx p) (p_poll p) (p_req p) st) as [o st'].
    destruct (decide c st) as [d st2]. cbn [fst snd] in Hd, Hs. subst st' d.
    specialize (IH st2).
    destruct (run_polls c te ps st2) as [os st3].
    destruct (decisions c (length ps) st2) as [ds st4]. cbn [fst snd map] in *.
    destruct IH as (-> & -> & ->). repeat split.
Qed.

(* the decisions and the draws consumed depend on the configuration, the draw stream and the
   NUMBER of first polls only *)
Lemma deterministic_polls c te te' ps ps' st :
  length ps = length ps' ->
  map (fun po => o_dec (snd po)) (fst (run_polls c te ps st)) =
  map (fun po => o_dec (snd po)) (fst (run_polls c te' ps' st)) /\
  snd (run_polls c te ps st) = snd (run_polls c te' ps' st) /\
  map (fun po => o_dec (snd po)) (fst (run_polls c te ps st)) = fst (decisions c (length ps) st).
Proof.
  intros H.
  pose proof (run_polls_decisions c te ps st) as (A & B & _).
  pose proof (run_polls_decisions c te' ps' st) as (A' & B' & _).
  rewrite A, B, A', B', H. repeat split.
Qed.

(* the k-th first poll receives the k-th decision of the stream *)
Lemma map_pair_combine {A B C D} (f : A -> C) (g : B -> D) (l : list (A * B)) :
  map (fun ab => (f (fst ab), g (snd ab))) l = combine (map f (map fst l)) (map (fun ab => g (snd ab)) l).
Proof. induction l as [|ab l IH]; cbn [map combine]; [reflexivity|]. rewrite IH. reflexivity. Qed.

Lemma decisions_follow_first_polls c te ps st :
  map (fun po => (p_idx (fst po), o_dec (snd po))) (fst (run_polls c te ps st)) =
  combine (map p_idx ps) (fst (decisions c (length ps) st)).
Proof.
  pose proof (run_polls_decisions c te ps st) as (A & _ & C).
  rewrite map_pair_combine, A, C. reflexivity.
Qed.

(* two instances fed the stream of the same seed make equal decisions, first poll by first poll,
   whatever [gen] (StdRng::seed_from_u64 followed by the draws) is *)
Lemma seeded_lockstep (gen : Z -> list Z) c seed te te' ps ps' :
  length ps = length ps' ->
  map (fun po => o_dec (snd po)) (fst (run_polls c te ps (gen seed))) =
  map (fun po => o_dec (snd po)) (fst (run_polls c te' ps' (gen seed))).
Proof. intros H. apply (deterministic_polls c te te' ps ps' (gen seed) H). Qed.

Lemma run_polls_app c te ps1 ps2 st :
  run_polls c te (ps1 ++ ps2) st =
  let (os1, st1) := run_polls c te ps1 st in
  let (os2, st2) := run_polls c te ps2 st1 in
  (os1 ++ os2, st2).
Proof.
  revert st. induction ps1 as [|p ps1 IH]; intros st; cbn [app run_polls].
  - destruct (run_polls c te ps2 st); reflexivity.
  - destruct (handle c te (p_idx p) (p_poll p) (p_req p) st) as [o st'].
    rewrite IH. destruct (run_polls c te ps1 st') as [os1 st1].
    destruct (run_polls c te ps2 st1) as [os2 st2]. reflexivity.
Qed.

Lemma run_polls_In c te ps st p o :
  In (p, o) (fst (run_polls c te ps st)) ->
  exists st', In p ps /\ o = fst (handle c te (p_idx p) (p_poll p) (p_req p) st').
Proof.
  revert st. induction ps as [|p0 ps IH]; intros st; cbn [run_polls].
  - intros [].
  - destruct (handle c te (p_idx p0) (p_poll p0) (p_req p0) st) as [o1 st'] eqn:Eh.
    destruct (run_polls c te ps st') as [os st''] eqn:Er.
    cbn [fst]. intros [Heq|Hin].
    + injection Heq as <- <-. exists st. split; [left; reflexivity|]. rewrite Eh. reflexivity.
    + specialize (IH st'). rewrite Er in IH. destruct (IH Hin) as (s' & Hq & ->).
      exists s'. split; [right; exact Hq|reflexivity].
Qed.

Lemma error_skips_inner_polls c te ps st p o :
  In (p, o) (fst (run_polls c te ps st)) ->
  d_err (o_dec o) = true ->
  o_inner o = false /\ o_t_inner o = -1 /\ o_res_kind o = 1 /\ o_res_val o = err_fn (p_idx p) /\
  o_t_done o = o_t_issue o /\ o_t_issue o = p_poll p /\
  d_delay (o_dec o) = None /\ o_ev_err o = 1 /\ o_ev_lat o = 0 /\ o_ev_pass o = 0.
Proof.
  intros Hin He. destruct (run_polls_In _ _ _ _ _ _ Hin) as (st' & _ & ->).
  pose proof (handle_error_skips_inner c te (p_idx p) (p_poll p) (p_req p) st' He)
    as (A & B & C & V & D & E & F & G).
  pose proof (handle_dec c te (p_idx p) (p_poll p) (p_req p) st') as [Hd _].
  rewrite Hd in He. apply err_excludes_latency in He. destruct He as [He _].
  rewrite handle_issue. rewrite Hd. repeat split; assumption.
Qed.

Lemma transparent_at_zero_polls c te ps st :
  erate c = Some 0 -> lrate c = Some 0 ->
  Forall (fun po => transparent te (p_req (fst po)) (snd po) /\ o_t_issue (snd po) = p_poll (fst po))
         (fst (run_polls c te ps st)) /\
  snd (run_polls c te ps st) = st.
Proof.
  intros He Hl. induction ps as [|p ps IH]; cbn [run_polls].
  - split; [constructor|reflexivity].
  - pose proof (handle_transparent c te (p_idx p) (p_poll p) (p_req p) st He Hl) as [Ht Hs].
    pose proof (handle_issue c te (p_idx p) (p_poll p) (p_req p) st) as Hi.
    destruct (handle c te (p_idx p) (p_poll p) (p_req p) st) as [o st']. cbn [fst snd] in Ht, Hs, Hi. subst st'.
    destruct (run_polls c te ps st) as [os st'].
    cbn [fst snd] in *. destruct IH as [IH ->]. split; [|reflexivity].
    constructor; [cbn [fst snd]; split; assumption|exact IH].
Qed.

Lemma always_fails_at_one_polls c te ps st :
  custom c = true -> erate c = Some f64_one -> Forall unit_roll st ->
  Forall (fun po => d_err (o_dec (snd po)) = true /\ o_inner (snd po) = false /\
                    o_res_kind (snd po) = 1 /\ o_res_val (snd po) = err_fn (p_idx (fst po)) /\
                    d_kinds (o_dec (snd po)) = [0]) (fst (run_polls c te ps st)).
Proof.
  intros Hc He. revert st. induction ps as [|p ps IH]; intros st Hs; cbn [run_polls].
  - constructor.
  - pose proof (decide_one c st Hc He Hs) as (D1 & D2 & D3).
    pose proof (handle_dec c te (p_idx p) (p_poll p) (p_req p) st) as [Hd Hr].
    pose proof (handle_error_skips_inner c te (p_idx p) (p_poll p) (p_req p) st) as Hskip.
    destruct (handle c te (p_idx p) (p_poll p) (p_req p) st) as [o st'].
    cbn [fst snd] in *. rewrite Hd in Hskip. specialize (Hskip D1).
    subst st'. specialize (IH _ D3).
    destruct (run_polls c te ps (snd (decide c st))) as [os st''].
    cbn [fst] in *. constructor; [|exact IH]. cbn [fst snd].
    rewrite Hd. destruct Hskip as (A & _ & B & V & _). repeat split; assumption.
Qed.

Lemma latency_bounds_polls c te ps st p o d :
  In (p, o) (fst (run_polls c te ps st)) ->
  d_delay (o_dec o) = Some d ->
  (forall z, d_range (o_dec o) = Some z -> min_ms c <= z <= max_ms c) ->
  Z.min (min_ms c) (max_ms c) <= d <= Z.max (min_ms c) (max_ms c) /\
  d_err (o_dec o) = false /\
  o_t_issue o = p_poll p /\
  (o_inner o = true -> o_t_inner o = p_poll p + d) /\
  (p_poll p + d <= te -> o_inner o = true).
Proof.
  intros Hin Hd Hr. destruct (run_polls_In _ _ _ _ _ _ Hin) as (st' & _ & ->).
  pose proof (handle_latency_bounds c te (p_idx p) (p_poll p) (p_req p) st' d Hd Hr) as (A & B & C & D).
  rewrite handle_issue in C, D. rewrite handle_issue. destruct A as [A1 A2]. repeat split; assumption.
Qed.

(* the property's clause with the TRUE bounds of the configured Durations, for ALL bounds.
   fmin, fmax: the bounds truncated to whole ms (Duration::as_millis); the service saturates them
   at u64::MAX ms, the largest delay Duration::from_millis can express. The injected delay lies
   between the saturated bounds (either order); hence it never exceeds the larger true bound, it
   is at least the smaller true bound unless that is beyond u64::MAX ms, and with
   min_latency >= u64::MAX ms the delay is exactly u64::MAX ms. *)
Lemma latency_bounds_true flags eb lb minv maxv te ps st p o d :
  let c := mk_config flags eb lb minv maxv in
  let fmin := dur_floor_ms minv in
  let fmax := dur_floor_ms maxv in
  let smin := Z.min fmin (2 ^ 64 - 1) in
  let smax := Z.min fmax (2 ^ 64 - 1) in
  In (p, o) (fst (run_polls c te ps st)) ->
  d_delay (o_dec o) = Some d ->
  (forall z, d_range (o_dec o) = Some z -> smin <= z <= smax) ->
  Z.min smin smax <= d <= Z.max smin smax /\
  d <= Z.max fmin fmax /\
  Z.min (Z.min fmin fmax) (2 ^ 64 - 1) <= d /\
  (fmin < 2 ^ 64 -> fmax < 2 ^ 64 -> Z.min fmin fmax <= d <= Z.max fmin fmax) /\
  (2 ^ 64 - 1 <= fmin -> d = 2 ^ 64 - 1).
Proof.
  intros c fmin fmax smin smax Hin Hd Hr.
  assert (Emin : min_ms c = smin) by reflexivity.
  assert (Emax : max_ms c = smax) by reflexivity.
  pose proof (latency_bounds_polls c te ps st p o d Hin Hd) as HB.
  rewrite Emin, Emax in HB. specialize (HB Hr). destruct HB as (HB & _).
  pose proof (draw_discipline c) as _.
  assert (Hsat : 2 ^ 64 - 1 <= fmin -> d = 2 ^ 64 - 1).
  { intros Hge.
    destruct (run_polls_In _ _ _ _ _ _ Hin) as (st' & _ & ->).
    pose proof (handle_dec c te (p_idx p) (p_poll p) (p_req p) st') as [Hdec _].
    rewrite Hdec in Hd.
    pose proof (draw_discipline c st') as K. unfold kinds_ok in K.
    destruct K as (_ & _ & _ & _ & _ & _ & _ & K & _).
    rewrite Emin, Emax in K. rewrite (K ltac:(subst smin smax; lia) d Hd). subst smin. lia. }
  subst smin smax. repeat split; try lia; try exact Hsat.
Qed.

(* the reproducer of the defect fixed by 37727a1: min = 2^64 + 5 ms, max = 2^64 + 10 ms, latency
   rate 1. Both bounds saturate, no range draw is made, the layer sleeps u64::MAX ms (before the
   fix it slept 5..10 ms) *)
Definition wrap_min := 2 ^ 64 + (2 ^ 64 + 5) * 1000000.
Definition wrap_max := 2 ^ 64 + (2 ^ 64 + 10) * 1000000.
Example ex_saturated_bounds :
  let c := mk_config 0 0 4607182418800017408 wrap_min wrap_max in
  let p := {| p_idx := 0; p_call := 0; p_poll := 0; p_req := {| q_gap := 0; q_ik := 0; q_iv := 100 |} |} in
  min_ms c = 2 ^ 64 - 1 /\ max_ms c = 2 ^ 64 - 1 /\ 2 ^ 64 - 1 <= dur_floor_ms wrap_min /\
  map (fun po => (d_kinds (o_dec (snd po)), d_delay (o_dec (snd po)), o_inner (snd po), o_res_kind (snd po)))
      (fst (run_polls c 12 [p] [4584395605734499296; 18446744073709551615])) =
  [([1; 2], Some (2 ^ 64 - 1), false, -1)].
Proof. vm_compute. repeat split; discriminate. Qed.

Lemma draw_discipline_polls c te ps st p o :
  In (p, o) (fst (run_polls c te ps st)) -> kinds_ok c (o_dec o).
Proof.
  intros Hin. destruct (run_polls_In _ _ _ _ _ _ Hin) as (st' & _ & ->).
  pose proof (handle_dec c te (p_idx p) (p_poll p) (p_req p) st') as [-> _]. apply draw_discipline.
Qed.

(* ---- the schedule: call() instants, first polls ---- *)
Definition imm (i t : Z) (qs : list request) : list pev :=
  map (fun p => at_poll (p_call p) p) (calls i t qs).

(* [run] is [run_polls] on the schedule that polls every request as soon as it is created *)
Lemma run_refines_polls c te i t qs st :
  fst (run c te i t qs st) = map snd (fst (run_polls c te (imm i t qs) st)) /\
  snd (run c te i t qs st) = snd (run_polls c te (imm i t qs) st).
Proof.
  revert i t st. induction qs as [|q qs IH]; intros i t st; cbn [run imm calls map run_polls].
  - split; reflexivity.
  - cbn [at_poll p_idx p_call p_poll p_req].
    destruct (handle c te i (t + Z.max 0 (q_gap q)) q st) as [o st'].
    specialize (IH (i + 1) (t + Z.max 0 (q_gap q)) st'). unfold imm in IH.
    destruct (run c te (i + 1) (t + Z.max 0 (q_gap q)) qs st') as [os st''].
    destruct (run_polls c te _ st') as [os' st3]. cbn [fst snd map] in *.
    destruct IH as [-> ->]. split; reflexivity.
Qed.

Lemma q_mode_range q : 0 <= q_mode q < 4.
Proof. unfold q_mode. apply Z.mod_pos_bound. lia. Qed.

(* with every request polled at once the harness's discipline is the immediate schedule *)
Lemma polls_immediate cs tl :
  Forall (fun p => q_mode (p_req p) = 0) cs ->
  polls cs [] tl = map (fun p => at_poll (p_call p) p) cs.
Proof.
  intros H. revert tl. induction H as [|p cs Hp _ IH]; intros tl; cbn [polls map]; [reflexivity|].
  rewrite Hp. cbn [Z.eqb map app]. rewrite IH. reflexivity.
Qed.

Definition polled (p : pev) : bool := q_mode (p_req p) <? 2.

(* a future that is dropped unpolled consumes nothing: the number of first polls, hence of
   decisions taken from the stream, is the number of requests that are ever polled *)
Lemma polls_length cs defer tl :
  length (polls cs defer tl) = (length defer + length (filter polled cs))%nat.
Proof.
  revert defer tl. induction cs as [|p cs IH]; intros defer tl; cbn [polls filter].
  - rewrite map_length. cbn. lia.
  - pose proof (q_mode_range (p_req p)) as Hm. unfold polled at 1.
    destruct (Z.eqb_spec (q_mode (p_req p)) 0) as [E0|E0];
      [|destruct (Z.eqb_spec (q_mode (p_req p)) 1) as [E1|E1]];
      destruct (Z.ltb_spec (q_mode (p_req p)) 2) as [E2|E2]; try lia;
      cbn [length]; rewrite ?app_length, ?map_length, IH; cbn [length]; lia.
Qed.

Lemma unpolled_consume_nothing c te cs st :
  map (fun po => o_dec (snd po)) (fst (run_polls c te (polls cs [] 0) st)) =
    fst (decisions c (length (filter polled cs)) st) /\
  snd (run_polls c te (polls cs [] 0) st) = snd (decisions c (length (filter polled cs)) st).
Proof.
  pose proof (run_polls_decisions c te (polls cs [] 0) st) as (A & B & _).
  rewrite polls_length in A, B. cbn [length plus] in A, B. split; assumption.
Qed.

(* every first poll of the schedule is a request of the script, polled at or after its creation *)
Lemma calls_mono i t qs p : 0 <= t -> In p (calls i t qs) -> t <= p_call p.
Proof.
  revert i t. induction qs as [|q qs IH]; intros i t Ht; cbn [calls]; [intros []|].
  intros [<-|Hin]; cbn [p_call]; [lia|].
  apply IH in Hin; lia.
Qed.

(* what run_script executes *)
Lemma script_runs_polls s :
  run_script s =
  let c := mk_config (zn s 0) (zn s 1) (zn s 2) (zn s 3) (zn s 4) in
  let n := Z.to_nat (zn s 7) in
  let qs := requests_of s n in
  let t_end := fold_left (fun a q => a + Z.max 0 (q_gap q)) qs 0 + Z.max 0 (zn s 6) in
  let cs := calls 0 0 qs in
  let os := fst (run_polls c t_end (polls cs [] 0) (skipn (8 + 3 * n) s)) in
  [7] ++ flat_map (enc_call os) cs ++
  [Z.of_nat (length (flat_map (fun po => d_bits (o_dec (snd po))) os))] ++
  flat_map (fun po => d_bits (o_dec (snd po))) os ++
  [Z.of_nat (length cs)] ++ flat_map (fun p => firstn 8 (enc_call os p)) cs.
Proof.
  unfold run_script. cbn zeta.
  destruct (run_polls _ _ _ _) as [os rest]. reflexivity.
Qed.

(* a script whose first polls are out of call order: requests 0 and 3 are deferred, 2 is dropped *)
Example ex_poll_order :
  map p_idx (polls (calls 0 0 [ {| q_gap := 0; q_ik := 2; q_iv := 0 |}; {| q_gap := 1; q_ik := 1; q_iv := 0 |};
                                {| q_gap := 0; q_ik := 4; q_iv := 0 |}; {| q_gap := 2; q_ik := 18; q_iv := 0 |};
                                {| q_gap := 1; q_ik := 3; q_iv := 0 |} ]) [] 0) = [1; 0; 4; 3].
Proof. vm_compute. reflexivity. Qed.
Example ex_nowrap : dur_floor_ms 2000 < 2 ^ 64 /\ dur_floor_ms (2 ^ 64 + 4294967297000000) < 2 ^ 64.
Proof. vm_compute. split; reflexivity. Qed.
