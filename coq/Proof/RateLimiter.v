(* Rate limiter: window invariants (C02) and caller-level facts (C15). *)
From TR Require Import Lib.Base Model.RateLimiter.

Arguments Z.mul : simpl never.
Arguments Z.add : simpl never.
Arguments Z.sub : simpl never.
Arguments upd : simpl never.

Definition wfc (c : cfg) : Prop := 1 <= limit c /\ 0 < period c /\ 0 <= timeout c.

Lemma log_wait_nonneg c t x : 0 <= log_wait c t x.
Proof. unfold log_wait, dur_max. case_eq (instant_max <? origin c + x + period c); intros _; lia. Qed.

(* a wait of zero from the log means the oldest entry has expired by now *)
Lemma log_wait_zero c t x : log_wait c t x = 0 -> x + period c <= t.
Proof. unfold log_wait, dur_max. case_eq (instant_max <? origin c + x + period c); intros _; lia. Qed.
Arguments log_wait : simpl never.

Lemma counter_room_pos c l e :
  0 < period c ->
  counter_has_room c l e = (prevc l * (period c - e) + curc l * period c <? limit c * period c).
Proof. intros H. unfold counter_has_room. assert (period c =? 0 = false) as -> by (apply Z.eqb_neq; lia). reflexivity. Qed.

(* ------------------------------------------------------------------------- *)
(* windows: newest first; consecutive starts at least a period apart *)
Fixpoint spaced (P : Z) (w : list (Z * list Z)) : Prop :=
  match w with
  | (s1, _) :: (((s2, _) :: _) as rest) => s2 + P <= s1 /\ spaced P rest
  | _ => True
  end.

Definition window_ok (c : cfg) (w : Z * list Z) : Prop :=
  Z.of_nat (length (snd w)) <= limit c /\
  Forall (fun a => fst w <= a < fst w + period c) (snd w).

(* every reachable limiter state of the fixed window / sliding counter *)
Definition windows_ok (c : cfg) (l : lim) : Prop :=
  spaced (period c) (wins l) /\ Forall (window_ok c) (wins l).

(* ---------- fixed window ---------- *)
Record FInv (c : cfg) (t : Z) (l : lim) : Prop := {
  f_head : exists a rest, wins l = (period_start l, a) :: rest /\
                          Z.of_nat (length a) + permits l = limit c;
  f_perm : 0 <= permits l;
  f_start : period_start l <= t;
  f_win : windows_ok c l
}.

Lemma spaced_cons P s a rest :
  spaced P rest -> (forall s2 a2 r2, rest = (s2, a2) :: r2 -> s2 + P <= s) ->
  spaced P ((s, a) :: rest).
Proof.
  intros H Hh. destruct rest as [|[s2 a2] r2]; cbn; [exact I|].
  split; [eapply Hh; reflexivity|exact H].
Qed.

Lemma spaced_bump P t w : spaced P w -> spaced P (bump_head t w).
Proof.
  destruct w as [|[s a] rest]; cbn; [trivial|]. destruct rest as [|[s2 a2] r2]; cbn; trivial.
Qed.

Lemma fixed_try_inv c t l :
  wfc c -> wt c = Fixed -> FInv c t l -> forall t', t <= t' ->
  FInv c t' (fst (fixed_try c t' l)).
Proof.
  intros (Hl & HP & HT) _ [Hh Hp Hs [Hsp Hw]] t' Hle.
  destruct Hh as (a & rest & Hwins & Hcnt).
  unfold fixed_try.
  set (l1 := if period c <=? t' - period_start l then _ else l).
  assert (H1 : FInv c t' l1 /\ t' - period_start l1 < period c).
  { subst l1. destruct (period c <=? t' - period_start l) eqn:E.
    - apply Z.leb_le in E. split; [|cbn; lia]. constructor; cbn.
      + exists [], (wins l). split; [reflexivity|cbn; lia].
      + lia.
      + lia.
      + split.
        * apply spaced_cons; [exact Hsp|]. intros s2 a2 r2 Heq. rewrite Hwins in Heq.
          inversion Heq; subst. lia.
        * constructor; [|exact Hw]. split; cbn; [lia|constructor].
    - apply Z.leb_gt in E. split; [|exact E]. constructor; try assumption; try lia.
      + exists a, rest. split; assumption.
      + split; assumption. }
  destruct H1 as [[Hh1 Hp1 Hs1 [Hsp1 Hw1]] Hlt].
  destruct Hh1 as (a1 & rest1 & Hwins1 & Hcnt1).
  destruct (0 <? permits l1) eqn:Ep.
  - apply Z.ltb_lt in Ep. cbn [fst]. constructor; cbn.
    + rewrite Hwins1. cbn. exists (t' :: a1), rest1. split; [reflexivity|].
      simpl length. rewrite Nat2Z.inj_succ. lia.
    + lia.
    + exact Hs1.
    + split.
      * apply spaced_bump. exact Hsp1.
      * rewrite Hwins1 in *. cbn. inversion Hw1 as [|? ? [Hc1 Hf1] Hrest]; subst.
        constructor; [|exact Hrest]. cbn in *. split.
        -- cbn [fst snd]. simpl length. rewrite Nat2Z.inj_succ. lia.
        -- cbn [fst snd]. constructor; [lia|exact Hf1].
  - destruct (timeout c <? _); cbn [fst]; constructor; try assumption; try lia;
      try (exists a1, rest1; split; assumption); split; assumption.
Qed.

(* ---------- sliding counter ---------- *)
Record CInv (c : cfg) (t : Z) (l : lim) : Prop := {
  c_head : exists a rest, wins l = (bucket_start l, a) :: rest /\ Z.of_nat (length a) = curc l;
  c_prev : 0 <= prevc l;
  c_start : bucket_start l <= t;
  c_win : windows_ok c l
}.

Lemma counter_try_inv c t l :
  wfc c -> wt c = SlidingCounter -> CInv c t l -> forall t', t <= t' ->
  CInv c t' (fst (counter_try c t' l)).
Proof.
  intros (Hl & HP & HT) _ [Hh Hp Hs [Hsp Hw]] t' Hle.
  destruct Hh as (a & rest & Hwins & Hcnt).
  unfold counter_try. rewrite counter_room_pos by exact HP.
  set (l1 := rotate c t' l).
  assert (H1 : CInv c t' l1 /\ 0 <= t' - bucket_start l1 < period c).
  { subst l1. unfold rotate. destruct (period c <=? t' - bucket_start l) eqn:E.
    - apply Z.leb_le in E.
      assert (Hsp' : spaced (period c) ((t', []) :: wins l)).
      { apply spaced_cons; [exact Hsp|]. intros s2 a2 r2 Heq. rewrite Hwins in Heq.
        inversion Heq; subst. lia. }
      assert (Hw' : Forall (window_ok c) ((t', []) :: wins l)).
      { constructor; [|exact Hw]. split; cbn; [lia|constructor]. }
      destruct (2 * period c <=? t' - bucket_start l); (split; [|cbn; lia]); constructor; cbn;
        try lia; try (exists [], (wins l); split; reflexivity); try (split; assumption).
    - apply Z.leb_gt in E. split; [|lia]. constructor; try assumption; try lia.
      + exists a, rest. split; assumption.
      + split; assumption. }
  destruct H1 as [[Hh1 Hp1 Hs1 [Hsp1 Hw1]] He].
  destruct Hh1 as (a1 & rest1 & Hwins1 & Hcnt1).
  set (e := Z.min (Z.max 0 (t' - bucket_start l1)) (period c)).
  assert (Hee : 0 <= e <= period c) by (subst e; lia).
  destruct (prevc l1 * (period c - e) + curc l1 * period c <? limit c * period c) eqn:Ea.
  - apply Z.ltb_lt in Ea. cbn [fst].
    assert (Hcur : curc l1 < limit c) by nia.
    constructor; cbn.
    + rewrite Hwins1. cbn. exists (t' :: a1), rest1. split; [reflexivity|].
      simpl length. rewrite Nat2Z.inj_succ. lia.
    + exact Hp1.
    + exact Hs1.
    + split.
      * apply spaced_bump. exact Hsp1.
      * rewrite Hwins1 in *. cbn. inversion Hw1 as [|? ? [Hc1 Hf1] Hrest]; subst.
        constructor; [|exact Hrest]. cbn in *. split.
        -- cbn [fst snd]. simpl length. rewrite Nat2Z.inj_succ. lia.
        -- cbn [fst snd]. constructor; [lia|exact Hf1].
  - destruct (wait_gt _ _); cbn [fst]; constructor; try assumption; try lia;
      try (exists a1, rest1; split; assumption); split; assumption.
Qed.

(* ---------- sliding log ---------- *)
(* adms (newest first) = the log reversed, followed by admissions that have left the log and
   are at least a period old *)
Record LInv (c : cfg) (t : Z) (l : lim) : Prop := {
  l_split : exists older, adms l = rev (rlog l) ++ older /\ Forall (fun x => x + period c <= t) older;
  l_len : Z.of_nat (length (rlog l)) <= limit c;
  l_le : Forall (fun x => x <= t) (adms l)
}.

(* any limit+1 consecutive admissions span at least a period *)
Definition log_spacing (c : cfg) (a : list Z) : Prop :=
  forall i x y, nth_error a i = Some x -> nth_error a (i + Z.to_nat (limit c)) = Some y ->
                y + period c <= x.

Lemma prune_split c t lg :
  exists dropped, lg = dropped ++ prune c t lg /\ Forall (fun x => x + period c <= t) dropped.
Proof.
  induction lg as [|ts rest IH]; cbn.
  - exists []. split; [reflexivity|constructor].
  - destruct (period c <=? t - ts) eqn:E.
    + apply Z.leb_le in E. destruct IH as (d & Hd & Hf). exists (ts :: d). split.
      * cbn. f_equal. exact Hd.
      * constructor; [lia|exact Hf].
    + exists []. split; [reflexivity|constructor].
Qed.

Lemma prune_length c t lg : (length (prune c t lg) <= length lg)%nat.
Proof.
  induction lg as [|ts rest IH]; cbn; [lia|]. destruct (period c <=? t - ts); cbn; lia.
Qed.

Lemma Forall_mono_le (P : Z) t t' l :
  t <= t' -> Forall (fun x => x + P <= t) l -> Forall (fun x => x + P <= t') l.
Proof. intros H. apply Forall_impl. intros; lia. Qed.

Lemma log_try_inv c t l :
  wfc c -> LInv c t l -> log_spacing c (adms l) -> forall t', t <= t' ->
  LInv c t' (fst (log_try c t' l)) /\ log_spacing c (adms (fst (log_try c t' l))).
Proof.
  intros (Hl & HP & HT) [Hs Hlen Hle] Hsp t' Hlt.
  destruct Hs as (older & Hadm & Hold).
  destruct (prune_split c t' (rlog l)) as (dropped & Hd & Hdf).
  assert (Hadm' : adms l = rev (prune c t' (rlog l)) ++ (rev dropped ++ older)).
  { rewrite Hadm. rewrite Hd at 1. rewrite rev_app_distr, app_assoc. reflexivity. }
  assert (Hold' : Forall (fun x => x + period c <= t') (rev dropped ++ older)).
  { apply Forall_app. split.
    - apply Forall_rev. exact Hdf.
    - eapply Forall_mono_le; [exact Hlt|exact Hold]. }
  assert (Hle' : Forall (fun x => x <= t') (adms l)) by (eapply Forall_impl; [|exact Hle]; intros; cbn in *; lia).
  unfold log_try. set (lg := prune c t' (rlog l)) in *.
  destruct (Z.of_nat (length lg) <? limit c) eqn:E.
  - apply Z.ltb_lt in E. cbn [fst]. split.
    + constructor; cbn.
      * exists (rev dropped ++ older). split; [|exact Hold'].
        rewrite rev_app_distr. cbn. rewrite Hadm'. reflexivity.
      * rewrite app_length. cbn. lia.
      * constructor; [lia|exact Hle'].
    + (* spacing for the new admission *)
      cbn. intros i x y Hx Hy. destruct i as [|i].
      * cbn in Hx. inversion Hx; subst x. cbn in Hy.
        destruct (Z.to_nat (limit c)) as [|k] eqn:Ek; [lia|]. cbn in Hy.
        rewrite Hadm' in Hy.
        assert (Hk : (length (rev lg) <= k)%nat) by (rewrite rev_length; lia).
        rewrite nth_error_app2 in Hy by exact Hk.
        apply nth_error_In in Hy. rewrite Forall_forall in Hold'. apply Hold'. exact Hy.
      * cbn in Hx, Hy. eapply Hsp; eassumption.
  - assert (Hlen' : Z.of_nat (length lg) <= limit c).
    { pose proof (prune_length c t' (rlog l)). subst lg. lia. }
    assert (Hinv : LInv c t' (mkLim (permits l) (period_start l) lg (prevc l) (curc l)
                                     (bucket_start l) (wins l) (adms l))).
    { constructor; cbn; [exists (rev dropped ++ older); split; assumption|exact Hlen'|exact Hle']. }
    destruct lg as [|oldest rest] eqn:Elg; cbn [fst]; [split; [exact Hinv|exact Hsp]|].
    destruct (timeout c <? _); [|destruct (_ =? 0)]; cbn [fst]; (split; [exact Hinv|exact Hsp]).
Qed.

(* ------------------------------------------------------------------------- *)
(* the limiter inside the service model: it only changes through try_acquire at the
   current instant, and the clock never goes back *)
Definition LimInv (c : cfg) (t : Z) (l : lim) : Prop :=
  match wt c with
  | Fixed => FInv c t l
  | SlidingCounter => CInv c t l
  | SlidingLog => LInv c t l /\ log_spacing c (adms l)
  end.

Lemma LimInv_init c : wfc c -> LimInv c 0 (new_lim c).
Proof.
  intros (Hl & HP & HT). unfold LimInv. destruct (wt c).
  - constructor; cbn; try lia.
    + exists [], []. split; [reflexivity|cbn; lia].
    + split; [exact I|]. constructor; [|constructor]. split; cbn; [lia|constructor].
  - split.
    + constructor; cbn; try lia.
      * exists []. split; [reflexivity|constructor].
      * constructor.
    + intros i x y Hx. destruct i; discriminate.
  - constructor; cbn; try lia.
    + exists [], []. split; reflexivity.
    + split; [exact I|]. constructor; [|constructor]. split; cbn; [lia|constructor].
Qed.

Lemma LimInv_try c t l t' :
  wfc c -> LimInv c t l -> t <= t' -> LimInv c t' (fst (try_acquire c t' l)).
Proof.
  intros Hwf H Hle. unfold LimInv, try_acquire in *. destruct (wt c) eqn:Ew.
  - apply (fixed_try_inv c t l Hwf Ew H t' Hle).
  - destruct H as [H1 H2]. apply (log_try_inv c t l Hwf H1 H2 t' Hle).
  - apply (counter_try_inv c t l Hwf Ew H t' Hle).
Qed.

Lemma LimInv_time c t l t' : wfc c -> LimInv c t l -> t <= t' -> LimInv c t' l.
Proof.
  intros (Hl & HP & HT) H Hle. unfold LimInv in *. destruct (wt c).
  - destruct H as [Hh Hp Hs Hw]. constructor; try assumption. lia.
  - destruct H as [[Hs Hlen Hl'] Hsp]. split; [|exact Hsp]. constructor; try assumption.
    + destruct Hs as (older & Ha & Ho). exists older. split; [exact Ha|].
      eapply Forall_mono_le; eassumption.
    + eapply Forall_impl; [|exact Hl']. intros; cbn in *; lia.
  - destruct H as [Hh Hp Hs Hw]. constructor; try assumption. lia.
Qed.

(* ---------- service-level invariant ---------- *)
Record Inv (c : cfg) (s : st) : Prop := {
  i_lim : LimInv c (now s) (lm s);
  i_now : 0 <= now s;
  (* a sleeping caller's deadline never exceeds its arrival + timeout: it is decided in time *)
  i_sleep : forall i start u, cs s i = Sleeping start u ->
              0 < snd u /\ (timeout c < dur_max -> fst u <= (start + timeout c) * snd u) /\ start <= now s /\
              arrival s i = Some start;
  (* a request reaches the inner service at most once, and only when admitted *)
  i_ent : forall i, 0 <= entered s i <= 1;
  i_ent0 : forall i, (cs s i = Created \/ exists st u, cs s i = Sleeping st u) -> entered s i = 0
}.

Lemma upd_same {A} (f : nat -> A) i v : upd f i v i = v.
Proof. unfold upd. rewrite Nat.eqb_refl. reflexivity. Qed.
Lemma upd_other {A} (f : nat -> A) i v j : j <> i -> upd f i v j = f j.
Proof. intros H. unfold upd. apply Nat.eqb_neq in H. rewrite H. reflexivity. Qed.

Lemma inv_init c : wfc c -> Inv c (init c).
Proof.
  intros Hwf. constructor; cbn; try lia; try discriminate; try reflexivity.
  - apply LimInv_init. exact Hwf.
Qed.

Ltac case_if := match goal with |- context [if ?b then _ else _] => destruct b eqn:? end.
Ltac case_gate := match goal with |- context [match ?g with Some _ => _ | None => _ end] => destruct g end.

(* the waits handed out by try_acquire have a positive denominator *)
Lemma try_acquire_wait_den c t l w :
  wfc c -> LimInv c t l -> snd (try_acquire c t l) = AOk (Some w) -> 0 < snd w.
Proof.
  intros (Hl & HP & HT) Hinv. unfold try_acquire. destruct (wt c) eqn:Ew.
  - unfold fixed_try. match goal with |- context [if 0 <? permits ?x then _ else _] => set (l1 := x) end. destruct (0 <? permits l1); cbn; [discriminate|].
    case_if; cbn; [discriminate|]. intros H. inversion H. cbn. lia.
  - unfold log_try. set (lg := prune c t (rlog l)). case_if; cbn; [discriminate|].
    destruct lg; cbn; [discriminate|]. case_if; cbn; [discriminate|].
    case_if; cbn; [discriminate|]. intros H. inversion H. cbn. lia.
  - unfold counter_try. rewrite counter_room_pos by exact HP. set (l1 := rotate c t l).
    assert (Hp : 0 <= prevc l1).
    { unfold LimInv in Hinv. rewrite Ew in Hinv. destruct Hinv as [Hh Hp _ _].
      destruct Hh as (a & rest & _ & Hcnt).
      subst l1. unfold rotate. repeat case_if; cbn; lia. }
    case_if; cbn; [discriminate|].
    case_if; cbn; [discriminate|]. intros H. inversion H. subst w. clear H.
    unfold counter_wait, one_ns. destruct (prevc l1 =? 0) eqn:E0.
    + case_if; cbn; lia.
    + apply Z.eqb_neq in E0. repeat case_if; cbn; lia.
Qed.

(* ... and a positive numerator: every sleep ends strictly after the instant it starts *)
Lemma try_acquire_wait_pos c t l w :
  wfc c -> LimInv c t l -> snd (try_acquire c t l) = AOk (Some w) -> 0 < fst w.
Proof.
  intros (Hl & HP & HT) Hinv. unfold try_acquire. destruct (wt c) eqn:Ew.
  - unfold fixed_try.
    match goal with |- context [if 0 <? permits ?x then _ else _] => set (l1 := x) end.
    assert (Hlt : t - period_start l1 < period c).
    { subst l1. case_if; cbn; [lia|]. apply Z.leb_gt. assumption. }
    destruct (0 <? permits l1); cbn; [discriminate|].
    case_if; cbn; [discriminate|]. intros H. inversion H. cbn. lia.
  - unfold log_try. set (lg := prune c t (rlog l)). case_if; cbn; [discriminate|].
    destruct lg; cbn; [discriminate|]. case_if; cbn; [discriminate|].
    case_if; cbn; [discriminate|]. intros H. inversion H. cbn.
    match goal with E : (_ =? 0) = false |- _ => apply Z.eqb_neq in E end.
    match goal with |- context [log_wait ?c0 ?t0 ?x0] => pose proof (log_wait_nonneg c0 t0 x0) end. lia.
  - unfold counter_try. rewrite counter_room_pos by exact HP. set (l1 := rotate c t l).
    case_if; cbn; [discriminate|].
    case_if; cbn; [discriminate|]. intros H. inversion H. subst w. clear H.
    unfold counter_wait, one_ns.
    repeat case_if; cbn; try lia;
      repeat match goal with
             | E : (_ <=? _) = false |- _ => apply Z.leb_gt in E
             | E : (_ <? _) = true |- _ => apply Z.ltb_lt in E
             end; lia.
Qed.

Lemma wait_gt_false w t : 0 < snd w -> wait_gt w t = false -> fst w <= t * snd w.
Proof. unfold wait_gt. intros _ H. apply Z.ltb_ge in H. exact H. Qed.

(* ---------- steps preserve the invariant ---------- *)
Lemma poll_running_inv c s i b :
  Inv c s -> cs s i = Running -> Inv c (fst (poll_running s i b)).
Proof.
  intros [Hl Hn Hs He He0] Hr. unfold poll_running. destruct (gate s i); cbn [fst]; [|constructor; assumption].
  constructor; cbn; try assumption.
  - intros j start u. destruct (Nat.eq_dec j i) as [->|Hne].
    + rewrite upd_same. discriminate.
    + rewrite upd_other by exact Hne. apply Hs.
  - intros j. destruct (Nat.eq_dec j i) as [->|Hne].
    + rewrite upd_same. intros [H|(st & u & H)]; discriminate.
    + rewrite upd_other by exact Hne. apply He0.
Qed.

Lemma acquire_round_inv c s i start :
  wfc c -> Inv c s -> (cs s i = Created \/ exists u, cs s i = Sleeping start u) ->
  start <= now s -> arrival s i = Some start ->
  Inv c (fst (acquire_round c s i start)).
Proof.
  intros Hwf [Hl Hn Hs He He0] Hst Hle Harr. unfold acquire_round.
  pose proof (LimInv_try c (now s) (lm s) (now s) Hwf Hl (Z.le_refl _)) as Hl'.
  pose proof (try_acquire_wait_den c (now s) (lm s)) as Hden.
  destruct (try_acquire c (now s) (lm s)) as [l' a] eqn:Eacq. cbn [fst snd] in *.
  assert (Hent0 : entered s i = 0).
  { apply He0. destruct Hst as [H|[u H]]; [left; exact H|right; eauto]. }
  assert (Hothers : forall (x : cst), (forall st u, x <> Sleeping st u) -> x <> Created ->
            (forall j st u, upd (cs s) i x j = Sleeping st u ->
               0 < snd u /\ (timeout c < dur_max -> fst u <= (st + timeout c) * snd u) /\ st <= now s /\ arrival s j = Some st) /\
            (forall j, (upd (cs s) i x j = Created \/ exists st u, upd (cs s) i x j = Sleeping st u) ->
               (if Nat.eqb j i then True else entered s j = 0))).
  { intros x Hx1 Hx2. split.
    - intros j st u. destruct (Nat.eq_dec j i) as [->|Hne].
      + rewrite upd_same. intros H. exfalso. eapply Hx1. exact H.
      + rewrite upd_other by exact Hne. apply Hs.
    - intros j. destruct (Nat.eq_dec j i) as [->|Hne].
      + rewrite Nat.eqb_refl. trivial.
      + rewrite upd_other by exact Hne. apply Nat.eqb_neq in Hne. rewrite Hne. apply He0. }
  destruct a as [[w|]|].
  - (* come back later *)
    specialize (Hden w Hwf Hl eq_refl).
    destruct (wait_gt (Z.min (fst w + (now s - start) * snd w) (dur_max * snd w), snd w) (timeout c)) eqn:Eg; cbn [fst].
    + destruct (Hothers Done) as [H1 H2]; [discriminate|discriminate|].
      constructor; cbn; try assumption; try exact H1.
      intros j Hj. specialize (H2 j Hj). destruct (Nat.eq_dec j i) as [Heq|Hne].
      { subst j. rewrite upd_same in Hj. destruct Hj as [H|(st & u & H)]; discriminate. }
      apply Nat.eqb_neq in Hne. rewrite Hne in H2. exact H2.
    + apply wait_gt_false in Eg; [|exact Hden]. cbn [fst snd] in Eg.
      constructor; cbn; try assumption.
      * intros j st u. destruct (Nat.eq_dec j i) as [->|Hne].
        -- rewrite upd_same. intros H. inversion H; subst. cbn [fst snd].
           repeat split; try assumption. intros Hfin. nia.
        -- rewrite upd_other by exact Hne. apply Hs.
      * intros j. destruct (Nat.eq_dec j i) as [->|Hne].
        -- intros _. exact Hent0.
        -- rewrite upd_other by exact Hne. apply He0.
  - (* admitted *)
    apply poll_running_inv; [|cbn; apply upd_same].
    destruct (Hothers Running) as [H1 H2]; [discriminate|discriminate|].
    constructor; cbn; try assumption; try exact H1.
    + intros j. destruct (Nat.eq_dec j i) as [->|Hne].
      * rewrite upd_same. lia.
      * rewrite upd_other by exact Hne. apply He.
    + intros j Hj. specialize (H2 j Hj). destruct (Nat.eq_dec j i) as [Heq|Hne].
      * subst j. rewrite upd_same in Hj. destruct Hj as [H|(st & u & H)]; discriminate.
      * rewrite upd_other by exact Hne. apply Nat.eqb_neq in Hne. rewrite Hne in H2. exact H2.
  - (* rejected *)
    cbn [fst]. destruct (Hothers Done) as [H1 H2]; [discriminate|discriminate|].
    constructor; cbn; try assumption; try exact H1.
    intros j Hj. specialize (H2 j Hj). destruct (Nat.eq_dec j i) as [Heq|Hne].
    { subst j. rewrite upd_same in Hj. destruct Hj as [H|(st & u & H)]; discriminate. }
    apply Nat.eqb_neq in Hne. rewrite Hne in H2. exact H2.
Qed.

Lemma poll_inv c s i : wfc c -> Inv c s -> Inv c (fst (poll c s i)).
Proof.
  intros Hwf Hinv0. unfold poll.
  set (s1 := mkSt _ _ _ _ _ _ _ _).
  destruct Hinv0 as [Hl Hn Hs He He0].
  destruct (cs s i) as [|start u| | |] eqn:Ecs.
  - (* Created: first poll, arrival recorded *)
    assert (Hinv : Inv c s1).
    { subst s1. rewrite ?Ecs. constructor; cbn; try assumption.
      intros j st u Hj. destruct (Hs j st u Hj) as (A & B & C & D). repeat split; try assumption.
      destruct (Nat.eq_dec j i) as [->|Hne]; [congruence|]. rewrite upd_other by exact Hne. exact D. }
    change (cs s1 i) with (cs s i). rewrite ?Ecs. change (now s1) with (now s).
    apply acquire_round_inv; try assumption; try (left; exact Ecs); try (cbn; lia);
      try (subst s1; cbn; rewrite ?Ecs; apply upd_same).
  - assert (Hinv : Inv c s1) by (subst s1; rewrite ?Ecs; constructor; cbn; assumption).
    change (cs s1 i) with (cs s i). rewrite ?Ecs. change (now s1) with (now s).
    destruct (Hs i start u Ecs) as (A & B & C & D).
    destruct (due u (now s)); [|exact Hinv].
    apply acquire_round_inv; try assumption; try (right; exists u; exact Ecs);
      try (subst s1; cbn; rewrite ?Ecs; exact D).
  - assert (Hinv : Inv c s1) by (subst s1; rewrite ?Ecs; constructor; cbn; assumption).
    change (cs s1 i) with (cs s i). rewrite ?Ecs.
    apply poll_running_inv; [exact Hinv|exact Ecs].
  - change (cs s1 i) with (cs s i). rewrite ?Ecs. cbn [fst]. subst s1. rewrite ?Ecs. constructor; cbn; assumption.
  - change (cs s1 i) with (cs s i). rewrite ?Ecs. cbn [fst]. subst s1. rewrite ?Ecs. constructor; cbn; assumption.
Qed.

Lemma drop_inv c s i : Inv c s -> Inv c (drop s i).
Proof.
  intros [Hl Hn Hs He He0]. unfold drop.
  assert (Hd : Inv c (mkSt (now s) (lm s) (upd (cs s) i Dropped) (gate s) (upd (woken s) i false)
                           (inflight s) (entered s) (arrival s))).
  { constructor; cbn; try assumption.
    - intros j st u. destruct (Nat.eq_dec j i) as [->|Hne].
      + rewrite upd_same. discriminate.
      + rewrite upd_other by exact Hne. apply Hs.
    - intros j. destruct (Nat.eq_dec j i) as [->|Hne].
      + rewrite upd_same. intros [H|(st & u & H)]; discriminate.
      + rewrite upd_other by exact Hne. apply He0. }
  destruct (cs s i); try exact Hd; try (constructor; assumption).
  destruct Hd as [A B C D E]. constructor; assumption.
Qed.

Lemma step_inv c s e : wfc c -> Inv c s -> Inv c (step_st c s e).
Proof.
  intros Hwf Hinv. unfold step_st, step. destruct e as [i|i|d|i o]; cbn [fst].
  - apply poll_inv; assumption.
  - apply drop_inv; assumption.
  - destruct Hinv as [Hl Hn Hs He He0]. constructor; cbn; try assumption; try lia.
    + eapply LimInv_time; [exact Hwf|exact Hl|lia].
    + intros j st u Hj. destruct (Hs j st u Hj) as (A & B & C & D). repeat split; try assumption. lia.
  - unfold complete. destruct (gate s i); [exact Hinv|].
    destruct Hinv as [Hl Hn Hs He He0]. constructor; assumption.
Qed.

Lemma reach_Inv c evs : wfc c -> Forall (Inv c) (states (step_st c) (init c) evs).
Proof. intros Hwf. apply reach_inv; [apply inv_init; exact Hwf|intros s e; apply step_inv; exact Hwf]. Qed.

(* ------------------------------------------------------------------------- *)
(* C02 *)
Lemma fixed_windows c evs :
  wfc c -> wt c = Fixed ->
  Forall (fun s => windows_ok c (lm s)) (states (step_st c) (init c) evs).
Proof.
  intros Hwf Hw. eapply Forall_impl; [|apply reach_Inv; exact Hwf].
  intros s [Hl _ _ _ _]. unfold LimInv in Hl. rewrite Hw in Hl. apply Hl.
Qed.

Lemma counter_windows c evs :
  wfc c -> wt c = SlidingCounter ->
  Forall (fun s => windows_ok c (lm s)) (states (step_st c) (init c) evs).
Proof.
  intros Hwf Hw. eapply Forall_impl; [|apply reach_Inv; exact Hwf].
  intros s [Hl _ _ _ _]. unfold LimInv in Hl. rewrite Hw in Hl. apply Hl.
Qed.

Lemma log_spacing_reach c evs :
  wfc c -> wt c = SlidingLog ->
  Forall (fun s => log_spacing c (adms (lm s))) (states (step_st c) (init c) evs).
Proof.
  intros Hwf Hw. eapply Forall_impl; [|apply reach_Inv; exact Hwf].
  intros s [Hl _ _ _ _]. unfold LimInv in Hl. rewrite Hw in Hl. apply Hl.
Qed.

(* Ok(ZERO) means exactly "a permit was consumed": the admission is recorded in the ghost
   history iff try_acquire answers Ok(ZERO) (this is the equivalence the upstream acquire()
   got wrong) *)
Lemma prune_head c t l x r : prune c t l = x :: r -> t - x < period c.
Proof.
  induction l as [|y rest IH]; cbn; [discriminate|].
  destruct (period c <=? t - y) eqn:E; [exact IH|].
  intros H. inversion H; subst. apply Z.leb_gt. exact E.
Qed.

Lemma ok_zero_iff_consumed c t l :
  wfc c ->
  (snd (try_acquire c t l) = AOk None -> adms (fst (try_acquire c t l)) = t :: adms l) /\
  (snd (try_acquire c t l) <> AOk None -> adms (fst (try_acquire c t l)) = adms l).
Proof.
  intros (Hl & HP & HT). unfold try_acquire. destruct (wt c).
  - unfold fixed_try. repeat case_if; cbn; split; intros H; try reflexivity; try discriminate; try congruence.
  - unfold log_try. case_if; cbn; [split; intros H; [reflexivity|congruence]|].
    destruct (prune c t (rlog l)) as [|x r] eqn:Ep.
    + cbn in *. match goal with E : (_ <? limit c) = false |- _ => apply Z.ltb_ge in E end. lia.
    + pose proof (prune_head c t _ _ _ Ep) as Hh.
      repeat case_if; cbn; split; intros H; try reflexivity; try discriminate; try congruence.
      match goal with E : (_ =? 0) = true |- _ => apply Z.eqb_eq in E; apply log_wait_zero in E end. lia.
  - unfold counter_try. rewrite counter_room_pos by exact HP. set (l1 := rotate c t l).
    assert (Ha : adms l1 = adms l) by (subst l1; unfold rotate; repeat case_if; reflexivity).
    repeat case_if; cbn; split; intros H; try reflexivity; try discriminate; try congruence;
      rewrite ?Ha; reflexivity.
Qed.

(* an inner call starts in a poll exactly when that poll's try_acquire consumed a permit:
   the limiter's admission history grows by the current instant *)
Lemma start_is_admission c s i :
  wfc c -> started (snd (poll c s i)) = true ->
  adms (lm (fst (poll c s i))) = now s :: adms (lm s).
Proof.
  intros Hwf. unfold poll.
  set (s1 := mkSt _ _ _ _ _ _ _ _).
  assert (Hround : forall start, started (snd (acquire_round c s1 i start)) = true ->
            adms (lm (fst (acquire_round c s1 i start))) = now s :: adms (lm s)).
  { intros start. unfold acquire_round. change (now s1) with (now s). change (lm s1) with (lm s).
    destruct (ok_zero_iff_consumed c (now s) (lm s) Hwf) as [Hyes _].
    destruct (try_acquire c (now s) (lm s)) as [l' a]. cbn [fst snd] in Hyes.
    destruct a as [[w|]|].
    - case_if; cbn; discriminate.
    - intros _. unfold poll_running. cbn. case_gate; cbn; apply Hyes; reflexivity.
    - cbn. discriminate. }
  change (cs s1 i) with (cs s i). destruct (cs s i) as [|start u| | |].
  - apply Hround.
  - change (now s1) with (now s). case_if; [apply Hround|cbn; discriminate].
  - unfold poll_running. case_gate; cbn; discriminate.
  - cbn. discriminate.
  - cbn. discriminate.
Qed.

(* ------------------------------------------------------------------------- *)
(* C15 *)
(* decided within the timeout: a waiting caller's sleep never extends beyond arrival + timeout,
   every sleep ends strictly later than it starts (so there are finitely many rounds), and the
   poll at the end of a sleep decides or sleeps again under the same bound *)
Lemma sleeping_within_timeout c evs :
  wfc c ->
  Forall (fun s => forall i start u, cs s i = Sleeping start u ->
            0 < snd u /\ (timeout c < dur_max -> fst u <= (start + timeout c) * snd u) /\ arrival s i = Some start)
         (states (step_st c) (init c) evs).
Proof.
  intros Hwf. eapply Forall_impl; [|apply reach_Inv; exact Hwf].
  intros s [_ _ Hs _ _] i start u H. destruct (Hs i start u H) as (A & B & C & D). repeat split; assumption.
Qed.

Lemma sleep_makes_progress c s i start :
  wfc c -> Inv c s ->
  forall st' u, cs (fst (acquire_round c s i start)) i = Sleeping st' u -> now s * snd u < fst u.
Proof.
  intros Hwf [Hl _ _ _ _] st' u. unfold acquire_round.
  pose proof (try_acquire_wait_pos c (now s) (lm s)) as Hpos.
  pose proof (try_acquire_wait_den c (now s) (lm s)) as Hden.
  destruct (try_acquire c (now s) (lm s)) as [l' a]. cbn [snd] in *.
  destruct a as [[w|]|].
  - specialize (Hpos w Hwf Hl eq_refl). specialize (Hden w Hwf Hl eq_refl).
    case_if; cbn; rewrite upd_same; [discriminate|]. intros H. inversion H; subst. cbn. lia.
  - unfold poll_running. cbn. case_gate; cbn; rewrite upd_same; discriminate.
  - cbn. rewrite upd_same. discriminate.
Qed.

(* a rejected call never reaches the inner service; an admitted call reaches it exactly once *)
Lemma rejected_never_enters c s i :
  wfc c -> Inv c s -> r (snd (poll c s i)) = 3 ->
  started (snd (poll c s i)) = false /\ entered (fst (poll c s i)) i = 0 /\
  cs (fst (poll c s i)) i = Done /\ inflight (fst (poll c s i)) = inflight s.
Proof.
  intros Hwf [Hl Hn Hs He He0]. unfold poll.
  set (s1 := mkSt _ _ _ _ _ _ _ _).
  assert (Hround : forall start, entered s i = 0 -> r (snd (acquire_round c s1 i start)) = 3 ->
            started (snd (acquire_round c s1 i start)) = false /\
            entered (fst (acquire_round c s1 i start)) i = 0 /\
            cs (fst (acquire_round c s1 i start)) i = Done /\
            inflight (fst (acquire_round c s1 i start)) = inflight s).
  { intros start H0. unfold acquire_round.
    destruct (try_acquire c (now s1) (lm s1)) as [l' a]. destruct a as [[w|]|].
    - case_if; cbn; [|discriminate]. intros _. rewrite upd_same. repeat split. exact H0.
    - unfold poll_running. cbn. case_gate; cbn; [|discriminate].
      match goal with |- context [match ?o with OOk => _ | OErr => _ | OPanic => _ end] => destruct o end; discriminate.
    - cbn. intros _. rewrite upd_same. repeat split. exact H0. }
  change (cs s1 i) with (cs s i). destruct (cs s i) as [|start u| | |] eqn:Ecs.
  - apply Hround. apply He0. left. exact Ecs.
  - case_if; [apply Hround; apply He0; right; eauto|cbn; discriminate].
  - unfold poll_running. case_gate; cbn; [|discriminate].
    match goal with |- context [match ?o with OOk => _ | OErr => _ | OPanic => _ end] => destruct o end; discriminate.
  - cbn. discriminate.
  - cbn. discriminate.
Qed.

Lemma entered_at_most_once c evs :
  wfc c ->
  Forall (fun s => forall i, 0 <= entered s i <= 1) (states (step_st c) (init c) evs).
Proof.
  intros Hwf. eapply Forall_impl; [|apply reach_Inv; exact Hwf]. intros s [_ _ _ He _]. exact He.
Qed.

(* a caller cancelled while waiting (or before its first poll) consumes nothing *)
Lemma drop_consumes_nothing s i : lm (drop s i) = lm s.
Proof. unfold drop. destruct (cs s i); reflexivity. Qed.

(* admitted at once when the current window has spare capacity *)
Lemma fixed_spare c t l :
  wfc c -> (0 < permits l \/ period c <= t - period_start l) ->
  snd (fixed_try c t l) = AOk None.
Proof.
  intros (Hl & HP & HT) H. unfold fixed_try. destruct (period c <=? t - period_start l) eqn:E; cbn.
  - assert (0 <? limit c = true) as -> by (apply Z.ltb_lt; lia). reflexivity.
  - apply Z.leb_gt in E. destruct H as [H|H]; [|lia].
    assert (0 <? permits l = true) as -> by (apply Z.ltb_lt; lia). reflexivity.
Qed.

Lemma log_spare c t l :
  Z.of_nat (length (prune c t (rlog l))) < limit c -> snd (log_try c t l) = AOk None.
Proof.
  intros H. unfold log_try. apply Z.ltb_lt in H. rewrite H. reflexivity.
Qed.

Lemma admitted_at_once c s i :
  cs s i = Created -> snd (try_acquire c (now s) (lm s)) = AOk None ->
  started (snd (poll c s i)) = true /\ entered (fst (poll c s i)) i = entered s i + 1.
Proof.
  intros Hc Ha. unfold poll. cbn. rewrite Hc. unfold acquire_round. cbn.
  destruct (try_acquire c (now s) (lm s)) as [l' a]. cbn in Ha. subst a.
  unfold poll_running. cbn. case_gate; cbn; rewrite ?upd_same; split; reflexivity.
Qed.

(* after two idle periods the next limit calls are admitted without waiting (all window types) *)
Fixpoint tries (c : cfg) (n : nat) (t : Z) (l : lim) : list acq :=
  match n with
  | O => []
  | S k => let '(l', a) := try_acquire c t l in a :: tries c k t l'
  end.

Lemma fresh_fixed c t' :
  wfc c -> wt c = Fixed -> forall n l, period_start l = t' -> Z.of_nat n <= permits l ->
  Forall (eq (AOk None)) (tries c n t' l).
Proof.
  intros (Hl & HP & HT) Hw n. induction n as [|k IH]; intros l Hs Hn; cbn [tries]; [constructor|].
  unfold try_acquire at 1. rewrite Hw. unfold fixed_try. rewrite Hs.
  assert (period c <=? t' - t' = false) as -> by (apply Z.leb_gt; lia).
  assert (0 <? permits l = true) as -> by (apply Z.ltb_lt; lia).
  constructor; [reflexivity|]. apply IH; cbn; [exact Hs|lia].
Qed.

Lemma idle_fixed c t' n l :
  wfc c -> wt c = Fixed -> period c <= t' - period_start l -> Z.of_nat n <= limit c ->
  Forall (eq (AOk None)) (tries c n t' l).
Proof.
  intros Hwf Hw Hidle Hn. destruct Hwf as (Hl & HP & HT).
  destruct n as [|k]; cbn [tries]; [constructor|].
  unfold try_acquire at 1. rewrite Hw. unfold fixed_try.
  assert (period c <=? t' - period_start l = true) as -> by (apply Z.leb_le; lia). cbn.
  assert (0 <? limit c = true) as -> by (apply Z.ltb_lt; lia).
  constructor; [reflexivity|]. apply fresh_fixed; [repeat split; assumption|exact Hw|reflexivity|cbn; lia].
Qed.

Lemma prune_all c t l : Forall (fun x => x + period c <= t) l -> prune c t l = [].
Proof.
  induction l as [|x r IH]; intros H; cbn; [reflexivity|].
  inversion H; subst. assert (period c <=? t - x = true) as -> by (apply Z.leb_le; lia).
  apply IH. assumption.
Qed.

Lemma prune_none c t l : 0 < period c -> Forall (eq t) l -> prune c t l = l.
Proof.
  intros HP H. destruct l as [|x r]; cbn; [reflexivity|]. inversion H; subst.
  assert (period c <=? x - x = false) as -> by (apply Z.leb_gt; lia). reflexivity.
Qed.

Lemma fresh_log c t' :
  wfc c -> wt c = SlidingLog -> forall n l, Forall (eq t') (rlog l) ->
  Z.of_nat (length (rlog l)) + Z.of_nat n <= limit c ->
  Forall (eq (AOk None)) (tries c n t' l).
Proof.
  intros (Hl & HP & HT) Hw n. induction n as [|k IH]; intros l Hs Hn; cbn [tries]; [constructor|].
  unfold try_acquire at 1. rewrite Hw. unfold log_try. rewrite (prune_none c t' _ HP Hs).
  assert (Z.of_nat (length (rlog l)) <? limit c = true) as -> by (apply Z.ltb_lt; lia).
  constructor; [reflexivity|]. apply IH; cbn.
  - apply Forall_app. split; [exact Hs|constructor; [reflexivity|constructor]].
  - rewrite app_length. cbn. lia.
Qed.

Lemma idle_log c t' n l :
  wfc c -> wt c = SlidingLog -> Forall (fun x => x + period c <= t') (rlog l) ->
  Z.of_nat n <= limit c -> Forall (eq (AOk None)) (tries c n t' l).
Proof.
  intros Hwf Hw Hidle Hn. destruct Hwf as (Hl & HP & HT).
  destruct n as [|k]; cbn [tries]; [constructor|].
  unfold try_acquire at 1. rewrite Hw. unfold log_try. rewrite (prune_all c t' _ Hidle). cbn.
  assert (0 <? limit c = true) as -> by (apply Z.ltb_lt; lia).
  constructor; [reflexivity|]. apply fresh_log; [repeat split; assumption|exact Hw|cbn|cbn; lia].
  constructor; [reflexivity|constructor].
Qed.

Lemma fresh_counter c t' :
  wfc c -> wt c = SlidingCounter -> forall n l, bucket_start l = t' -> prevc l = 0 -> 0 <= curc l ->
  curc l + Z.of_nat n <= limit c ->
  Forall (eq (AOk None)) (tries c n t' l).
Proof.
  intros (Hl & HP & HT) Hw n. induction n as [|k IH]; intros l Hs Hp Hc Hn; cbn [tries]; [constructor|].
  unfold try_acquire at 1. rewrite Hw. unfold counter_try, rotate. rewrite counter_room_pos by exact HP. rewrite Hs.
  assert (period c <=? t' - t' = false) as -> by (apply Z.leb_gt; lia). rewrite Hs, Hp.
  match goal with |- context [if ?b then _ else _] => assert (b = true) as -> by (apply Z.ltb_lt; nia) end.
  constructor; [reflexivity|]. apply IH; cbn; try assumption; lia.
Qed.

Lemma idle_counter c t' n l :
  wfc c -> wt c = SlidingCounter -> 2 * period c <= t' - bucket_start l ->
  Z.of_nat n <= limit c -> Forall (eq (AOk None)) (tries c n t' l).
Proof.
  intros Hwf Hw Hidle Hn. destruct Hwf as (Hl & HP & HT).
  destruct n as [|k]; cbn [tries]; [constructor|].
  unfold try_acquire at 1. rewrite Hw. unfold counter_try, rotate. rewrite counter_room_pos by exact HP.
  assert (period c <=? t' - bucket_start l = true) as -> by (apply Z.leb_le; lia).
  assert (2 * period c <=? t' - bucket_start l = true) as -> by (apply Z.leb_le; lia). cbn.
  match goal with |- context [if ?b then _ else _] => assert (b = true) as -> by (apply Z.ltb_lt; nia) end.
  constructor; [reflexivity|]. apply fresh_counter; [repeat split; assumption|exact Hw|reflexivity|reflexivity|cbn; lia|cbn; lia].
Qed.

(* the idle hypothesis in terms of reachable states: if the limiter state was reached at instant
   t0 (nothing has touched it since), then at any t' >= t0 + 2 * period the next limit calls are
   all admitted at once *)
Lemma idle_two_periods c t0 l t' n :
  wfc c -> LimInv c t0 l -> t0 + 2 * period c <= t' -> Z.of_nat n <= limit c ->
  Forall (eq (AOk None)) (tries c n t' l).
Proof.
  intros Hwf Hinv Hidle Hn. pose proof Hwf as (Hl & HP & HT). unfold LimInv in Hinv.
  destruct (wt c) eqn:Hw.
  - destruct Hinv as [_ _ Hs _]. apply idle_fixed; try assumption. lia.
  - destruct Hinv as [[Hsplit _ Hle] _]. apply idle_log; try assumption.
    destruct Hsplit as (older & Ha & _).
    assert (Hsub : Forall (fun x => x <= t0) (rlog l)).
    { rewrite Forall_forall in *. intros x Hx. apply Hle. rewrite Ha. apply in_or_app. left.
      apply in_rev in Hx. exact Hx. }
    eapply Forall_impl; [|exact Hsub]. intros x Hx. cbn in *. lia.
  - destruct Hinv as [_ _ Hs _]. apply idle_counter; try assumption. lia.
Qed.

(* non-vacuity *)
Example ex_burst_fixed :
  let c := mkCfg Fixed 2 100 250 0 in
  let evs := [Poll 0%nat; Poll 1%nat; Poll 2%nat; Poll 3%nat; Advance 100; Poll 2%nat; Poll 3%nat] in
  let s := fold_left (step_st c) evs (init c) in
  adms (lm s) = [100; 100; 0; 0] /\ wins (lm s) = [(100, [100; 100]); (0, [0; 0])].
Proof. vm_compute. split; reflexivity. Qed.

(* ========================================================================= *)
(* improvement round: poll decomposition, ghost link, partition over adms, deadline, waker, later window,
   capacity, spread idle arrivals *)
(* ------------------------------------------------------------------------- *)
(* what one poll does, in terms of the limiter's answer *)
Lemma poll_frame c s i j :
  j <> i -> cs (fst (poll c s i)) j = cs s j /\ woken (fst (poll c s i)) j = woken s j.
Proof.
  intros Hne. unfold poll. set (s1 := mkSt _ _ _ _ _ _ _ _).
  assert (H1 : cs s1 j = cs s j /\ woken s1 j = woken s j).
  { subst s1. cbn. rewrite upd_other by exact Hne. split; reflexivity. }
  assert (Hr : forall b, cs (fst (poll_running s1 i b)) j = cs s j /\ woken (fst (poll_running s1 i b)) j = woken s j).
  { intros b. unfold poll_running. case_gate; cbn [fst cs woken]; [|exact H1].
    rewrite upd_other by exact Hne. exact H1. }
  assert (Ha : forall start, cs (fst (acquire_round c s1 i start)) j = cs s j /\
                             woken (fst (acquire_round c s1 i start)) j = woken s j).
  { intros start. unfold acquire_round. destruct (try_acquire c (now s1) (lm s1)) as [l' a].
    destruct a as [[w|]|].
    - case_if; cbn [fst cs woken]; rewrite upd_other by exact Hne; exact H1.
    - unfold poll_running. cbn [gate]. case_gate; cbn [fst cs woken]; rewrite ?upd_other by exact Hne; exact H1.
    - cbn [fst cs woken]. rewrite upd_other by exact Hne. exact H1. }
  change (cs s1 i) with (cs s i). destruct (cs s i).
  - apply Ha.
  - case_if; [apply Ha|exact H1].
  - apply Hr.
  - exact H1.
  - exact H1.
Qed.

Lemma poll_now c s i : now (fst (poll c s i)) = now s.
Proof.
  unfold poll. set (s1 := mkSt _ _ _ _ _ _ _ _).
  assert (Hr : forall b, now (fst (poll_running s1 i b)) = now s).
  { intros b. unfold poll_running. case_gate; reflexivity. }
  assert (Ha : forall start, now (fst (acquire_round c s1 i start)) = now s).
  { intros start. unfold acquire_round. destruct (try_acquire c (now s1) (lm s1)) as [l' a].
    destruct a as [[w|]|]; [case_if; reflexivity| |reflexivity].
    unfold poll_running. cbn [gate]. case_gate; reflexivity. }
  change (cs s1 i) with (cs s i). destruct (cs s i); try reflexivity; try apply Ha; try apply Hr.
  case_if; [apply Ha|reflexivity].
Qed.

(* the caller is asked to try: it is new, or its sleep is over *)
Definition tries_now (s : st) (i : nat) (start : Z) : Prop :=
  (cs s i = Created /\ start = now s) \/ (exists u, cs s i = Sleeping start u /\ due u (now s) = true).

Definition round_result (c : cfg) (s : st) (i : nat) (start : Z) (s' : st) (o : obs) : Prop :=
  lm s' = fst (try_acquire c (now s) (lm s)) /\
  match snd (try_acquire c (now s) (lm s)) with
  | AOk None => started o = true /\ (cs s' i = Running \/ cs s' i = Done) /\ entered s' i = entered s i + 1 /\ r o <> 3
  | AOk (Some w) =>
      started o = false /\ entered s' i = entered s i /\
      ((cs s' i = Done /\ r o = 3) \/ (cs s' i = Sleeping start (fst w + now s * snd w, snd w) /\ r o = 0))
  | AErr => started o = false /\ cs s' i = Done /\ entered s' i = entered s i /\ r o = 3
  end.

Lemma poll_cases c s i :
  (exists start, tries_now s i start /\ round_result c s i start (fst (poll c s i)) (snd (poll c s i))) \/
  ((forall start, ~ tries_now s i start) /\ lm (fst (poll c s i)) = lm s /\ started (snd (poll c s i)) = false /\
   entered (fst (poll c s i)) = entered s /\ r (snd (poll c s i)) <> 3 /\
   (cs (fst (poll c s i)) i = cs s i \/ (cs s i = Running /\ cs (fst (poll c s i)) i = Done))).
Proof.
  unfold poll. set (s1 := mkSt _ _ _ _ _ _ _ _).
  assert (Ha : forall start, round_result c s i start (fst (acquire_round c s1 i start)) (snd (acquire_round c s1 i start))).
  { intros start. unfold round_result, acquire_round. change (now s1) with (now s). change (lm s1) with (lm s).
    destruct (try_acquire c (now s) (lm s)) as [l' a]. cbn [fst snd]. destruct a as [[w|]|].
    - case_if; cbn [fst snd lm cs entered started r]; rewrite upd_same; (split; [reflexivity|]);
        (split; [reflexivity|]); (split; [reflexivity|]); [left|right]; split; reflexivity.
    - unfold poll_running. cbn [gate]. case_gate; cbn [fst snd lm cs entered started r]; rewrite ?upd_same;
        (split; [reflexivity|]); (split; [reflexivity|]).
      + split; [right; reflexivity|]. split; [reflexivity|]. destruct o; discriminate.
      + split; [left; reflexivity|]. split; [reflexivity|discriminate].
    - cbn [fst snd lm cs entered started r]. rewrite upd_same. repeat split; reflexivity. }
  change (cs s1 i) with (cs s i). destruct (cs s i) as [|start u| | |] eqn:Ecs.
  - left. exists (now s). split; [left; split; [exact Ecs|reflexivity]|]. change (now s1) with (now s). apply Ha.
  - change (now s1) with (now s). destruct (due u (now s)) eqn:Ed.
    + left. exists start. split; [right; exists u; split; [exact Ecs|exact Ed]|apply Ha].
    + right. cbn [fst snd]. split; [|repeat split; try reflexivity; try discriminate; left; subst s1; cbn; exact Ecs].
      intros st0 [[H _]|(u0 & H & Hd)]; [congruence|]. rewrite Ecs in H. inversion H; subst. congruence.
  - right. split; [intros st0 [[H _]|(u0 & H & _)]; congruence|].
    unfold poll_running. case_gate; cbn [fst snd lm cs entered started r].
    + rewrite upd_same. repeat split; try reflexivity; [destruct o; discriminate|right; split; reflexivity].
    + repeat split; try reflexivity; [discriminate|left; subst s1; cbn; exact Ecs].
  - right. split; [intros st0 [[H _]|(u0 & H & _)]; congruence|].
    cbn [fst snd]. repeat split; try reflexivity; [discriminate|left; subst s1; cbn; exact Ecs].
  - right. split; [intros st0 [[H _]|(u0 & H & _)]; congruence|].
    cbn [fst snd]. repeat split; try reflexivity; [discriminate|left; subst s1; cbn; exact Ecs].
Qed.

(* the limiter only changes through try_acquire at the current instant *)
Lemma step_lm c s e :
  lm (step_st c s e) = lm s \/ lm (step_st c s e) = fst (try_acquire c (now s) (lm s)).
Proof.
  unfold step_st, step. destruct e as [i|i|d|i o]; cbn [fst].
  - destruct (poll_cases c s i) as [(start & _ & H & _)|(_ & H & _)]; [right|left]; exact H.
  - left. apply drop_consumes_nothing.
  - left. reflexivity.
  - left. unfold complete. destruct (gate s i); reflexivity.
Qed.

Lemma reach_lim (Q : lim -> Prop) c evs :
  Q (new_lim c) -> (forall t l, Q l -> Q (fst (try_acquire c t l))) ->
  Forall (fun s => Q (lm s)) (states (step_st c) (init c) evs).
Proof.
  intros H0 Hs. apply (reach_inv (step_st c) (fun s => Q (lm s))); [exact H0|].
  intros s e H. destruct (step_lm c s e) as [-> | ->]; [exact H|apply Hs; exact H].
Qed.

(* ------------------------------------------------------------------------- *)
(* C02: the ghost windows hold exactly the admissions (fixed window, sliding counter), the oldest
   window starts when the limiter was created *)
Definition linked (l : lim) : Prop :=
  (exists rest a, wins l = rest ++ [(0, a)]) /\ adms l = concat (map snd (wins l)).

Lemma based_bump t w : (exists rest a, w = rest ++ [(0, a)]) -> exists rest a, bump_head t w = rest ++ [(0, a)].
Proof.
  intros (rest & a & ->). destruct rest as [|[s x] r]; cbn.
  - exists [], (t :: a). reflexivity.
  - exists ((s, t :: x) :: r), a. reflexivity.
Qed.

Lemma linked_bump t (w : list (Z * list Z)) (a : list Z) :
  (exists rest a0, w = rest ++ [(0, a0)]) -> a = concat (map snd w) ->
  (exists rest a0, bump_head t w = rest ++ [(0, a0)]) /\ t :: a = concat (map snd (bump_head t w)).
Proof.
  intros Hb ->. split; [apply based_bump; exact Hb|].
  destruct Hb as (rest & a0 & ->). destruct rest as [|[s x] r]; reflexivity.
Qed.

Lemma linked_cons t l : linked l ->
  (exists rest a, (t, @nil Z) :: wins l = rest ++ [(0, a)]) /\ adms l = concat (map snd ((t, []) :: wins l)).
Proof.
  intros [(rest & a & Hw) Ha]. split; [|cbn; exact Ha]. exists ((t, []) :: rest), a. rewrite Hw. reflexivity.
Qed.

Lemma linked_fixed c t l : linked l -> linked (fst (fixed_try c t l)).
Proof.
  intros Hl. unfold fixed_try.
  set (l1 := if period c <=? t - period_start l then _ else l).
  assert (H1 : linked l1).
  { subst l1. destruct (period c <=? t - period_start l); [|exact Hl]. apply (linked_cons t l Hl). }
  destruct H1 as [Hn1 Ha1].
  destruct (0 <? permits l1).
  - cbn [fst]. unfold linked. cbn [wins adms]. apply (linked_bump t); assumption.
  - destruct (timeout c <? _); cbn [fst]; split; assumption.
Qed.

Lemma linked_counter c t l : linked l -> linked (fst (counter_try c t l)).
Proof.
  intros Hl. unfold counter_try.
  set (l1 := rotate c t l).
  assert (H1 : linked l1).
  { subst l1. unfold rotate. destruct (period c <=? t - bucket_start l); [|exact Hl].
    destruct (2 * period c <=? t - bucket_start l); apply (linked_cons t l Hl). }
  destruct H1 as [Hn1 Ha1].
  match goal with |- context [if ?b then _ else _] => destruct b end.
  - cbn [fst]. unfold linked. cbn [wins adms]. apply (linked_bump t); assumption.
  - destruct (wait_gt _ _); cbn [fst]; split; assumption.
Qed.

Lemma every_admission_in_a_window c evs :
  wt c <> SlidingLog ->
  Forall (fun s => linked (lm s)) (states (step_st c) (init c) evs).
Proof.
  intros Hw. apply (reach_lim linked).
  - split; [exists [], []; reflexivity|reflexivity].
  - intros t l H. unfold try_acquire. destruct (wt c); [apply linked_fixed; exact H|congruence|apply linked_counter; exact H].
Qed.

(* ---- the partition, stated over the admission history ---- *)
(* number of admissions in [lo, hi), hi = None meaning "no upper end" *)
Definition in_win (lo : Z) (hi : option Z) (x : Z) : bool :=
  (lo <=? x) && match hi with Some h => x <? h | None => true end.
Definition count_in (lo : Z) (hi : option Z) (a : list Z) : Z := Z.of_nat (length (filter (in_win lo hi) a)).

(* cuts, newest first, the newest window ending at hi: consecutive cuts are at least a period apart and
   every window [cut, next cut) holds at most limit of the admissions a *)
Fixpoint cuts_ok (c : cfg) (hi : option Z) (cuts : list Z) (a : list Z) : Prop :=
  match cuts with
  | [] => True
  | s :: rest => match hi with Some h => s + period c <= h | None => True end /\
                 count_in s hi a <= limit c /\ cuts_ok c (Some s) rest a
  end.

Lemma count_in_app lo hi x y : count_in lo hi (x ++ y) = count_in lo hi x + count_in lo hi y.
Proof. unfold count_in. rewrite filter_app, app_length, Nat2Z.inj_add. reflexivity. Qed.

Lemma count_in_zero lo hi x : Forall (fun v => in_win lo hi v = false) x -> count_in lo hi x = 0.
Proof.
  unfold count_in. induction x as [|v r IH]; intros H; [reflexivity|]. inversion H; subst. cbn.
  rewrite H2. apply IH. assumption.
Qed.

Lemma count_in_le lo hi x : count_in lo hi x <= Z.of_nat (length x).
Proof.
  unfold count_in. induction x as [|v r IH]; cbn [filter length]; [lia|].
  destruct (in_win lo hi v); cbn [length]; lia.
Qed.

Lemma spaced_below P s a rest :
  0 <= P -> spaced P ((s, a) :: rest) -> Forall (fun w => fst w + P <= s) rest.
Proof.
  intros HP. revert s a. induction rest as [|[s2 a2] r IH]; intros s a H; [constructor|].
  cbn in H. destruct H as [H1 H2]. constructor; [cbn; lia|].
  eapply Forall_impl; [|apply (IH s2 a2 H2)]. intros w Hw. cbn in *. lia.
Qed.

Lemma spaced_tail P x rest : spaced P (x :: rest) -> spaced P rest.
Proof. destruct x as [s a]. destruct rest as [|[s2 a2] r]; cbn; [trivial|]. intros [_ H]. exact H. Qed.

Lemma older_below c s rest :
  Forall (fun w => fst w + period c <= s) rest -> Forall (window_ok c) rest ->
  Forall (fun x => x < s) (concat (map snd rest)).
Proof.
  induction rest as [|[s2 a2] r IH]; intros H1 H2; cbn; [constructor|].
  inversion H1; subst. inversion H2; subst. apply Forall_app. split; [|apply IH; assumption].
  destruct H5 as [_ Hf]. cbn in *. eapply Forall_impl; [|exact Hf]. intros x Hx. cbn in *. lia.
Qed.

Lemma cuts_ok_gen c : 0 < period c ->
  forall w newer hi,
    spaced (period c) w -> Forall (window_ok c) w ->
    match hi with
    | Some h => Forall (fun x => h <= x) newer /\ match w with (s, _) :: _ => s + period c <= h | [] => True end
    | None => newer = []
    end ->
    cuts_ok c hi (map fst w) (newer ++ concat (map snd w)).
Proof.
  intros HP w. induction w as [|[s ak] rest IH]; intros newer hi Hsp Hw Hhi; [exact I|].
  inversion Hw as [|? ? [Hlen Hin] Hwr]; subst. cbn [map fst snd concat cuts_ok].
  pose proof (spaced_below _ _ _ _ (Z.lt_le_incl _ _ HP) Hsp) as Hbelow.
  pose proof (older_below c s rest Hbelow Hwr) as Hold.
  split; [destruct hi as [h|]; [apply Hhi|exact I]|]. split.
  - rewrite !count_in_app.
    assert (count_in s hi newer = 0) as ->.
    { destruct hi as [h|]; [|rewrite Hhi; reflexivity]. destruct Hhi as [Hn _]. apply count_in_zero.
      eapply Forall_impl; [|exact Hn]. intros x Hx. unfold in_win. cbn in Hx.
      assert (x <? h = false) as -> by (apply Z.ltb_ge; lia). apply andb_false_r. }
    assert (count_in s hi (concat (map snd rest)) = 0) as ->.
    { apply count_in_zero. eapply Forall_impl; [|exact Hold]. intros x Hx. unfold in_win. cbn in Hx.
      assert (s <=? x = false) as -> by (apply Z.leb_gt; lia). reflexivity. }
    pose proof (count_in_le s hi ak). cbn in Hlen. lia.
  - rewrite app_assoc. apply IH; [eapply spaced_tail; exact Hsp|exact Hwr|]. split.
    + apply Forall_app. split.
      * destruct hi as [h|]; [|rewrite Hhi; constructor]. destruct Hhi as [Hn Hs].
        eapply Forall_impl; [|exact Hn]. intros x Hx. cbn in *. lia.
      * cbn in Hin. eapply Forall_impl; [|exact Hin]. intros x Hx. cbn in *. lia.
    + destruct rest as [|[s2 a2] r]; [exact I|]. inversion Hbelow; subst. cbn in *. lia.
Qed.

(* C02, as the property states it: in every reachable state the instants at which the limiter opened its
   windows (newest first, the oldest being the limiter's creation at 0) cut time from 0 on into consecutive
   windows, none shorter than the period, each holding at most limit of ALL admissions so far; every
   admission is at or after 0, hence inside exactly one window *)
Definition cuttable (c : cfg) (l : lim) : Prop :=
  let cuts := map fst (wins l) in
  last cuts 1 = 0 /\ Forall (fun x => 0 <= x) (adms l) /\ cuts_ok c None cuts (adms l).

Lemma last_map_app (rest : list (Z * list Z)) a : last (map fst (rest ++ [(0, a)])) 1 = 0.
Proof. rewrite map_app. cbn. apply last_last. Qed.

Lemma starts_nonneg P w a0 rest :
  0 <= P -> w = rest ++ [(0, a0)] -> spaced P w -> Forall (fun x => 0 <= fst x) w.
Proof.
  intros HP. revert w. induction rest as [|[s a] r IH]; intros w -> Hsp; cbn.
  - constructor; [cbn; lia|constructor].
  - assert (Hr : Forall (fun x => 0 <= fst x) (r ++ [(0, a0)])) by (apply IH; [reflexivity|eapply spaced_tail; exact Hsp]).
    constructor; [|exact Hr]. cbn.
    cbn in Hsp. destruct (r ++ [(0, a0)]) as [|[s2 a2] r2] eqn:E; [destruct r; discriminate|].
    destruct Hsp as [H1 _]. inversion Hr; subst. cbn in *. lia.
Qed.

Lemma cuttable_of c l : wfc c -> linked l -> windows_ok c l -> cuttable c l.
Proof.
  intros (Hl & HP & HT) [(rest & a0 & Hw) Ha] [Hsp Hok]. unfold cuttable. cbn zeta. split; [|split].
  - rewrite Hw. apply last_map_app.
  - rewrite Ha. pose proof (starts_nonneg _ _ _ _ (Z.lt_le_incl _ _ HP) Hw Hsp) as Hnn.
    clear Hw Ha Hsp. induction (wins l) as [|[s a] r IH]; cbn; [constructor|].
    inversion Hnn; subst. inversion Hok as [|? ? [_ Hin] Hr]; subst. apply Forall_app. split; [|apply IH; assumption].
    cbn in *. eapply Forall_impl; [|exact Hin]. intros x Hx. cbn in *. lia.
  - rewrite Ha. apply (cuts_ok_gen c HP (wins l) [] None Hsp Hok eq_refl).
Qed.

Lemma windows_reach c evs :
  wfc c -> wt c <> SlidingLog ->
  Forall (fun s => windows_ok c (lm s)) (states (step_st c) (init c) evs).
Proof.
  intros Hwf Hw. destruct (wt c) eqn:E; [apply fixed_windows; assumption|congruence|apply counter_windows; assumption].
Qed.

Lemma cuttable_reach c evs :
  wfc c -> wt c <> SlidingLog ->
  Forall (fun s => cuttable c (lm s)) (states (step_st c) (init c) evs).
Proof.
  intros Hwf Hw. pose proof (every_admission_in_a_window c evs Hw) as H1.
  pose proof (windows_reach c evs Hwf Hw) as H2.
  rewrite Forall_forall in *. intros s Hs. apply cuttable_of; [exact Hwf|apply H1; exact Hs|apply H2; exact Hs].
Qed.

(* ------------------------------------------------------------------------- *)
(* C15 clause a: decided by arrival + timeout *)
(* a sleeping caller polled at/after arrival + timeout is decided in that poll *)
Lemma decided_by_deadline c s i start u :
  wfc c -> timeout c < dur_max -> Inv c s -> cs s i = Sleeping start u -> start + timeout c <= now s ->
  forall st' u', cs (fst (poll c s i)) i <> Sleeping st' u'.
Proof.
  intros Hwf Hfin Hinv Hcs Hlate st' u'.
  pose proof Hinv as [Hl Hn Hs He He0].
  destruct (Hs i start u Hcs) as (Hden & Hb & Hle & Harr). specialize (Hb Hfin).
  unfold poll. set (s1 := mkSt _ _ _ _ _ _ _ _).
  change (cs s1 i) with (cs s i). rewrite Hcs. change (now s1) with (now s).
  assert (Hdue : due u (now s) = true).
  { unfold due. apply Z.leb_le. nia. }
  rewrite Hdue. unfold acquire_round. change (now s1) with (now s). change (lm s1) with (lm s).
  pose proof (try_acquire_wait_pos c (now s) (lm s)) as Hpos.
  pose proof (try_acquire_wait_den c (now s) (lm s)) as Hd.
  destruct (try_acquire c (now s) (lm s)) as [l' a]. cbn [snd] in *.
  destruct a as [[w|]|].
  - specialize (Hpos w Hwf Hl eq_refl). specialize (Hd w Hwf Hl eq_refl).
    assert (Hg : wait_gt (Z.min (fst w + (now s - start) * snd w) (dur_max * snd w), snd w) (timeout c) = true).
    { unfold wait_gt. cbn [fst snd]. apply Z.ltb_lt. apply Z.min_glb_lt; nia. }
    rewrite Hg. cbn. unfold upd. rewrite Nat.eqb_refl. discriminate.
  - unfold poll_running. cbn. destruct (gate s i); cbn; unfold upd; rewrite Nat.eqb_refl; discriminate.
  - cbn. unfold upd. rewrite Nat.eqb_refl. discriminate.
Qed.

(* ... and the caller is told: whenever a sleeping caller's deadline has passed, its waker has fired
   (the timer fires at the first whole millisecond at/after the deadline), in every reachable state *)
Lemma due_mono u t t' : 0 < snd u -> t <= t' -> due u t = true -> due u t' = true.
Proof. unfold due. intros Hd Hle H. apply Z.leb_le in H. apply Z.leb_le. nia. Qed.

Definition woken_inv (s : st) : Prop :=
  forall i start u, cs s i = Sleeping start u -> due u (now s) = true -> woken s i = true.

Lemma woken_step c s e : wfc c -> Inv c s -> woken_inv s -> woken_inv (step_st c s e).
Proof.
  intros Hwf Hinv Hw. unfold step_st, step. destruct e as [i|i|d|i o]; cbn [fst].
  - intros j start u Hcs Hdue. rewrite poll_now in Hdue. destruct (Nat.eq_dec j i) as [->|Hne].
    + exfalso. destruct (poll_cases c s i) as [(st0 & Ht & Hlm & Hres)|(Hno & _ & _ & _ & _ & Hc)].
      * (* a round was played: a new sleep ends strictly later than now *)
        destruct Hinv as [Hl _ _ _ _].
        pose proof (try_acquire_wait_pos c (now s) (lm s)) as Hpos.
        destruct (snd (try_acquire c (now s) (lm s))) as [[w|]|].
        -- specialize (Hpos w Hwf Hl eq_refl).
           destruct Hres as (_ & _ & [[H _]|[H _]]); rewrite H in Hcs; [discriminate|].
           inversion Hcs; subst. unfold due in Hdue. cbn [fst snd] in Hdue. apply Z.leb_le in Hdue. lia.
        -- destruct Hres as (_ & [H|H] & _); rewrite H in Hcs; discriminate.
        -- destruct Hres as (_ & H & _); rewrite H in Hcs; discriminate.
      * destruct Hc as [Hc|[Hc1 Hc2]]; [|congruence]. rewrite Hc in Hcs.
        apply (Hno start). right. exists u. split; assumption.
    + destruct (poll_frame c s i j Hne) as [H1 H2]. rewrite H1 in Hcs. rewrite H2. eapply Hw; eassumption.
  - intros j start u Hcs Hdue. unfold drop in *. destruct (Nat.eq_dec j i) as [->|Hne].
    + destruct (cs s i) eqn:Ei; cbn [cs] in Hcs; rewrite ?upd_same in Hcs; try discriminate; congruence.
    + destruct (cs s i) eqn:Ei; cbn [cs woken now] in *; rewrite ?upd_other in * by exact Hne; eapply Hw; eassumption.
  - intros j start u Hcs Hdue. cbn [cs woken now advance] in *. unfold advance in *. cbn [cs woken now] in *.
    destruct (woken s j) eqn:Ewk; [reflexivity|]. cbn [orb]. unfold timer_fires. rewrite Hcs.
    rewrite Hdue. rewrite andb_true_r. destruct (due u (now s)) eqn:Ed; [|reflexivity].
    rewrite (Hw j start u Hcs Ed) in Ewk. discriminate.
  - intros j start u Hcs Hdue. unfold complete in *. destruct (gate s i); [eapply Hw; eassumption|].
    cbn [cs woken now] in *. destruct (cs s i) eqn:Ei; try (eapply Hw; eassumption).
    destruct (Nat.eq_dec j i) as [->|Hne]; [rewrite upd_same; reflexivity|].
    rewrite upd_other by exact Hne. eapply Hw; eassumption.
Qed.

Lemma woken_when_due c evs :
  wfc c -> Forall woken_inv (states (step_st c) (init c) evs).
Proof.
  intros Hwf.
  assert (H : Forall (fun s => Inv c s /\ woken_inv s) (states (step_st c) (init c) evs)).
  { apply reach_inv.
    - split; [apply inv_init; exact Hwf|]. intros i start u H. cbn in H. discriminate.
    - intros s e [H1 H2]. split; [apply step_inv; assumption|apply woken_step; assumption]. }
  eapply Forall_impl; [|exact H]. intros s [_ H2]. exact H2.
Qed.

(* ------------------------------------------------------------------------- *)
(* C15 clause c, fixed window: a caller admitted after waiting takes a permit of a window that
   started after it arrived *)
Lemma fixed_try_facts c t l :
  wfc c -> wt c = Fixed -> FInv c t l ->
  let l' := fst (fixed_try c t l) in
  period_start l <= period_start l' /\
  (period_start l' <> period_start l -> period_start l' = t /\ period_start l + period c <= t) /\
  (period_start l' = period_start l -> permits l = 0 -> permits l' = 0 /\ snd (fixed_try c t l) <> AOk None) /\
  (forall w, snd (fixed_try c t l) = AOk (Some w) ->
             permits l' = 0 /\ period_start l' <= t < period_start l' + period c).
Proof.
  intros (Hl & HP & HT) Hw [Hh Hp Hs _]. unfold fixed_try.
  destruct (period c <=? t - period_start l) eqn:E.
  - apply Z.leb_le in E. cbn [permits period_start].
    assert (0 <? limit c = true) as -> by (apply Z.ltb_lt; lia). cbn [fst snd permits period_start].
    repeat split; intros; try lia; try discriminate.
  - apply Z.leb_gt in E. destruct (0 <? permits l) eqn:Ep.
    + apply Z.ltb_lt in Ep. cbn [fst snd permits period_start]. repeat split; intros; try lia; try discriminate.
    + apply Z.ltb_ge in Ep. destruct (timeout c <? _); cbn [fst snd]; repeat split; intros; try lia; try discriminate; try congruence.
Qed.

Definition later_inv (c : cfg) (s : st) : Prop :=
  forall i start u, cs s i = Sleeping start u ->
    (permits (lm s) = 0 /\ period_start (lm s) <= start < period_start (lm s) + period c) \/
    start < period_start (lm s).

(* effect of one try_acquire at [now s] on everybody's later_inv clause *)
Lemma later_try c s start :
  wfc c -> wt c = Fixed -> Inv c s ->
  let l' := fst (try_acquire c (now s) (lm s)) in
  ((permits (lm s) = 0 /\ period_start (lm s) <= start < period_start (lm s) + period c) \/
   start < period_start (lm s)) ->
  ((permits l' = 0 /\ period_start l' <= start < period_start l' + period c) \/ start < period_start l') /\
  (snd (try_acquire c (now s) (lm s)) = AOk None -> start < period_start l').
Proof.
  intros Hwf Hw [Hl _ _ _ _] l' H. unfold LimInv in Hl. rewrite Hw in Hl.
  pose proof (fixed_try_facts c (now s) (lm s) Hwf Hw Hl) as (F1 & F2 & F3 & F4).
  subst l'. unfold try_acquire. rewrite Hw.
  destruct (Z.eq_dec (period_start (fst (fixed_try c (now s) (lm s)))) (period_start (lm s))) as [Heq|Hne].
  - destruct H as [[Hp Hr]|Hlt].
    + destruct (F3 Heq Hp) as [Hp' Hno]. split; [left; rewrite Heq; split; assumption|]. intros Hk. congruence.
    + split; [right; lia|intros _; lia].
  - destruct (F2 Hne) as [Hn Hge]. destruct H as [[Hp Hr]|Hlt]; (split; [right; lia|intros _; lia]).
Qed.

Lemma later_step c s e : wfc c -> wt c = Fixed -> Inv c s -> later_inv c s -> later_inv c (step_st c s e).
Proof.
  intros Hwf Hw Hinv HL. unfold step_st, step. destruct e as [i|i|d|i o]; cbn [fst].
  - intros j start u Hcs.
    destruct (poll_cases c s i) as [(st0 & Ht & Hlm & Hres)|(Hno & Hlm & _ & _ & _ & Hc)].
    + rewrite Hlm. destruct (Nat.eq_dec j i) as [->|Hne].
      * (* the polled caller sleeps (again): it was refused at now *)
        pose proof Hinv as [Hl _ Hsl _ _]. unfold LimInv in Hl. rewrite Hw in Hl.
        pose proof (fixed_try_facts c (now s) (lm s) Hwf Hw Hl) as (F1 & F2 & F3 & F4).
        unfold try_acquire in *. rewrite Hw in *.
        destruct (snd (fixed_try c (now s) (lm s))) as [[w|]|] eqn:Ea.
        -- destruct (F4 w eq_refl) as [G1 G2].
           destruct Hres as (_ & _ & [[H _]|[H _]]); rewrite H in Hcs; [discriminate|]. inversion Hcs; subst st0 u. clear Hcs.
           destruct Ht as [[Hc ->]|(u0 & Hc & Hd)].
           ++ left. split; [exact G1|lia].
           ++ destruct (Hsl i start u0 Hc) as (_ & _ & Hle & _).
              destruct (later_try c s start Hwf Hw Hinv (HL i start u0 Hc)) as [Hk _].
              unfold try_acquire in Hk. rewrite Hw in Hk. exact Hk.
        -- destruct Hres as (_ & [H|H] & _); rewrite H in Hcs; discriminate.
        -- destruct Hres as (_ & H & _); rewrite H in Hcs; discriminate.
      * destruct (poll_frame c s i j Hne) as [H1 _]. rewrite H1 in Hcs.
        apply (later_try c s start Hwf Hw Hinv (HL j start u Hcs)).
    + rewrite Hlm. destruct (Nat.eq_dec j i) as [->|Hne].
      * destruct Hc as [Hc|[Hc1 Hc2]]; [rewrite Hc in Hcs; eapply HL; exact Hcs|congruence].
      * destruct (poll_frame c s i j Hne) as [H1 _]. rewrite H1 in Hcs. eapply HL; exact Hcs.
  - intros j start u Hcs. rewrite drop_consumes_nothing. unfold drop in Hcs.
    destruct (Nat.eq_dec j i) as [->|Hne].
    + destruct (cs s i) eqn:Ei; cbn [cs] in Hcs; rewrite ?upd_same in Hcs; try discriminate; congruence.
    + destruct (cs s i) eqn:Ei; cbn [cs] in Hcs; rewrite ?upd_other in Hcs by exact Hne; eapply HL; exact Hcs.
  - intros j start u Hcs. cbn in *. eapply HL; exact Hcs.
  - intros j start u Hcs. unfold complete in *. destruct (gate s i); [eapply HL; exact Hcs|]. cbn in *. eapply HL; exact Hcs.
Qed.

Lemma fixed_later_window c evs :
  wfc c -> wt c = Fixed ->
  Forall (fun s => forall i start u, cs s i = Sleeping start u ->
            started (snd (poll c s i)) = true -> start < period_start (lm (fst (poll c s i))))
         (states (step_st c) (init c) evs).
Proof.
  intros Hwf Hw.
  assert (H : Forall (fun s => Inv c s /\ later_inv c s) (states (step_st c) (init c) evs)).
  { apply reach_inv.
    - split; [apply inv_init; exact Hwf|]. intros i start u H. cbn in H. discriminate.
    - intros s e [H1 H2]. split; [apply step_inv; assumption|apply later_step; assumption]. }
  eapply Forall_impl; [|exact H]. intros s [Hinv HL] i start u Hcs Hst.
  destruct (poll_cases c s i) as [(st0 & Ht & Hlm & Hres)|(_ & _ & Hno & _)]; [|congruence].
  rewrite Hlm. destruct Ht as [[Hc _]|(u0 & Hc & _)]; [congruence|]. rewrite Hcs in Hc. inversion Hc; subst st0 u0.
  destruct (later_try c s start Hwf Hw Hinv (HL i start u Hcs)) as [_ Hk]. apply Hk.
  destruct (snd (try_acquire c (now s) (lm s))) as [[w|]|]; [|reflexivity|]; destruct Hres as [Hs _]; congruence.
Qed.

(* ... and the same sentence read on the sliding counter's buckets is FALSE (of the model and, same script,
   of the code): limit 1, period 16 ms, timeout 100 ms; caller 0 admitted at 0; caller 2 arrives at 16, when
   the bucket (16, ..) starts with the previous bucket's admission still weighing 1.0, waits, and is admitted
   at 18 in that same bucket *)
Definition ex_counter_cfg := mkCfg SlidingCounter 1 16 100 0.
Definition ex_counter_evs := [Poll 0%nat; Advance 16; Poll 1%nat; Drop 1%nat; Poll 2%nat; Advance 2].

Lemma counter_later_window_refuted :
  exists (c : cfg) (evs : list ev) (i : nat) (start : Z) (u : wait),
    wfc c /\ wt c = SlidingCounter /\
    let s := fold_left (step_st c) evs (init c) in
    cs s i = Sleeping start u /\ started (snd (poll c s i)) = true /\
    bucket_start (lm (fst (poll c s i))) <= start /\
    wins (lm (fst (poll c s i))) = [(16, [18]); (0, [0])].
Proof.
  exists ex_counter_cfg, ex_counter_evs, 2%nat, 16, (176, 10).
  split; [unfold wfc; cbn; lia|]. split; [reflexivity|]. vm_compute. repeat split; try reflexivity; intro; discriminate.
Qed.

(* ------------------------------------------------------------------------- *)
(* C15 clause b for the sliding counter: spare capacity by the counter's own weighted estimate *)
Lemma counter_spare c t l :
  0 < period c ->
  let l1 := rotate c t l in
  let e := Z.min (Z.max 0 (t - bucket_start l1)) (period c) in
  prevc l1 * (period c - e) + curc l1 * period c < limit c * period c ->
  snd (counter_try c t l) = AOk None.
Proof. intros HP l1 e H. unfold counter_try. rewrite counter_room_pos by exact HP. fold l1. fold e. apply Z.ltb_lt in H. rewrite H. reflexivity. Qed.

(* capacity that cannot be lost by the passage of time: m more calls are admitted at once, whenever they come *)
Definition cap (c : cfg) (l : lim) (m : Z) : Prop :=
  match wt c with
  | Fixed => m <= permits l
  | SlidingLog => Z.of_nat (length (rlog l)) + m <= limit c
  | SlidingCounter => 0 <= prevc l /\ 0 <= curc l /\ prevc l + curc l + m <= limit c
  end.

Lemma cap_step c l m t :
  wfc c -> 0 <= m -> m + 1 <= limit c -> cap c l (m + 1) ->
  snd (try_acquire c t l) = AOk None /\ cap c (fst (try_acquire c t l)) m.
Proof.
  intros (Hl & HP & HT) Hm Hml. unfold cap, try_acquire. destruct (wt c).
  - intros H. unfold fixed_try. destruct (period c <=? t - period_start l); cbn [permits].
    + assert (0 <? limit c = true) as -> by (apply Z.ltb_lt; lia). cbn. split; [reflexivity|lia].
    + assert (0 <? permits l = true) as -> by (apply Z.ltb_lt; lia). cbn. split; [reflexivity|lia].
  - intros H. unfold log_try. pose proof (prune_length c t (rlog l)) as Hpl.
    assert (Z.of_nat (length (prune c t (rlog l))) <? limit c = true) as -> by (apply Z.ltb_lt; lia).
    cbn. split; [reflexivity|]. rewrite app_length. cbn. lia.
  - intros (H1 & H2 & H3). unfold counter_try. rewrite counter_room_pos by exact HP. set (l1 := rotate c t l).
    assert (Hr : 0 <= prevc l1 /\ 0 <= curc l1 /\ prevc l1 + curc l1 <= prevc l + curc l).
    { subst l1. unfold rotate. repeat case_if; cbn; lia. }
    set (e := Z.min (Z.max 0 (t - bucket_start l1)) (period c)).
    assert (He : 0 <= e <= period c) by (subst e; lia).
    assert (prevc l1 * (period c - e) + curc l1 * period c <? limit c * period c = true) as ->.
    { apply Z.ltb_lt. nia. }
    cbn. split; [reflexivity|lia].
Qed.

(* two idle periods give full capacity, for all three window types *)
Lemma idle_cap c t0 l t m :
  wfc c -> LimInv c t0 l -> t0 + 2 * period c <= t -> 0 <= m -> m + 1 <= limit c ->
  snd (try_acquire c t l) = AOk None /\ cap c (fst (try_acquire c t l)) m.
Proof.
  intros Hwf Hinv Hidle Hm Hml. pose proof Hwf as (Hl & HP & HT). unfold LimInv in Hinv.
  unfold cap, try_acquire. destruct (wt c) eqn:Hw.
  - destruct Hinv as [_ _ Hs _]. unfold fixed_try.
    assert (period c <=? t - period_start l = true) as -> by (apply Z.leb_le; lia). cbn [permits].
    assert (0 <? limit c = true) as -> by (apply Z.ltb_lt; lia). cbn. split; [reflexivity|lia].
  - destruct Hinv as [[Hsplit _ Hle] _]. unfold log_try.
    assert (Hp : prune c t (rlog l) = []).
    { apply prune_all. destruct Hsplit as (older & Ha & _).
      rewrite Forall_forall in *. intros x Hx. assert (x <= t0); [|lia]. apply Hle. rewrite Ha. apply in_or_app. left.
      apply in_rev in Hx. exact Hx. }
    rewrite Hp. cbn [length]. assert (Z.of_nat 0 <? limit c = true) as -> by (apply Z.ltb_lt; lia).
    cbn. split; [reflexivity|lia].
  - destruct Hinv as [_ _ Hs _]. unfold counter_try, rotate. rewrite counter_room_pos by exact HP.
    assert (period c <=? t - bucket_start l = true) as -> by (apply Z.leb_le; lia).
    assert (2 * period c <=? t - bucket_start l = true) as -> by (apply Z.leb_le; lia). cbn.
    match goal with |- context [if ?b then _ else _] => assert (b = true) as -> by (apply Z.ltb_lt; nia) end.
    cbn. split; [reflexivity|lia].
Qed.

(* calls at arbitrary instants *)
Fixpoint tries_at (c : cfg) (ts : list Z) (l : lim) : list acq :=
  match ts with [] => [] | t :: r => let '(l', a) := try_acquire c t l in a :: tries_at c r l' end.

Lemma cap_tries_at c ts : wfc c -> forall l,
  Z.of_nat (length ts) <= limit c -> cap c l (Z.of_nat (length ts)) -> Forall (eq (AOk None)) (tries_at c ts l).
Proof.
  intros Hwf. induction ts as [|t r IH]; intros l Hn Hc; cbn [tries_at]; [constructor|].
  cbn [length] in *. rewrite Nat2Z.inj_succ in *. replace (Z.succ (Z.of_nat (length r))) with (Z.of_nat (length r) + 1) in * by lia.
  destruct (cap_step c l (Z.of_nat (length r)) t Hwf ltac:(lia) Hn Hc) as [Ha Hc'].
  destruct (try_acquire c t l) as [l' a]. cbn [fst snd] in *. subst a. constructor; [reflexivity|].
  apply IH; [lia|exact Hc'].
Qed.

(* after two idle periods the next limit calls are admitted without waiting, however they are spread in time *)
Lemma idle_two_periods_spread c t0 l t1 rest :
  wfc c -> LimInv c t0 l -> t0 + 2 * period c <= t1 -> Z.of_nat (S (length rest)) <= limit c ->
  Forall (eq (AOk None)) (tries_at c (t1 :: rest) l).
Proof.
  intros Hwf Hinv Hidle Hn. cbn [tries_at]. rewrite Nat2Z.inj_succ in Hn.
  destruct (idle_cap c t0 l t1 (Z.of_nat (length rest)) Hwf Hinv Hidle ltac:(lia) ltac:(lia)) as [Ha Hc].
  destruct (try_acquire c t1 l) as [l' a]. cbn [fst snd] in *. subst a. constructor; [reflexivity|].
  apply cap_tries_at; [exact Hwf|lia|exact Hc].
Qed.

(* the same at the level run_script executes: from ANY reachable state, after a clock advance of two periods
   with nothing else happening, fresh callers polled at arbitrary later instants (gap g before each), up to
   limit of them, each start their inner call in their first poll *)
Fixpoint fresh_polls (c : cfg) (s : st) (gis : list (Z * nat)) : list bool :=
  match gis with
  | [] => []
  | (g, i) :: r =>
    let s1 := step_st c s (Advance g) in
    started (snd (step c s1 (Poll i))) :: fresh_polls c (step_st c s1 (Poll i)) r
  end.

Lemma fresh_polls_cap c : wfc c -> forall gis s,
  NoDup (map snd gis) -> Forall (fun gi => cs s (snd gi) = Created) gis ->
  Z.of_nat (length gis) <= limit c -> cap c (lm s) (Z.of_nat (length gis)) ->
  Forall (eq true) (fresh_polls c s gis).
Proof.
  intros Hwf. induction gis as [|[g i] r IH]; intros s Hnd Hcr Hn Hc; cbn [fresh_polls]; [constructor|].
  cbn [length map snd] in *. rewrite Nat2Z.inj_succ in *.
  replace (Z.succ (Z.of_nat (length r))) with (Z.of_nat (length r) + 1) in * by lia.
  inversion Hnd as [|? ? Hni Hnd']; subst. inversion Hcr as [|? ? Hci Hcr']; subst. cbn [snd] in Hci.
  set (s1 := step_st c s (Advance g)).
  assert (Hl1 : lm s1 = lm s) by reflexivity.
  assert (Hc1 : forall j, cs s1 j = cs s j) by reflexivity.
  destruct (cap_step c (lm s1) (Z.of_nat (length r)) (now s1) Hwf ltac:(lia) Hn ltac:(rewrite Hl1; exact Hc)) as [Ha Hc'].
  change (step c s1 (Poll i)) with (poll c s1 i). change (step_st c s1 (Poll i)) with (fst (poll c s1 i)).
  destruct (poll_cases c s1 i) as [(st0 & Ht & Hlm & Hres)|(Hno & _)].
  - rewrite Ha in Hres. destruct Hres as (Hst & _). constructor; [symmetry; exact Hst|].
    apply IH; [exact Hnd'| |lia|rewrite Hlm; exact Hc'].
    rewrite Forall_forall in *. intros gi Hgi.
    assert (Hne : snd gi <> i).
    { intros Heq. apply Hni. rewrite <- Heq. apply in_map. exact Hgi. }
    destruct (poll_frame c s1 i (snd gi) Hne) as [H1 _]. rewrite H1, Hc1. apply Hcr'. exact Hgi.
  - exfalso. apply (Hno (now s1)). left. split; [rewrite Hc1; exact Hci|reflexivity].
Qed.

Lemma idle_then_fresh_callers c evs d g i rest :
  wfc c -> 2 * period c <= d + g -> 0 <= d -> 0 <= g ->
  let s := fold_left (step_st c) evs (init c) in
  NoDup (i :: map snd rest) -> cs s i = Created -> Forall (fun gi => cs s (snd gi) = Created) rest ->
  Z.of_nat (S (length rest)) <= limit c ->
  Forall (eq true) (fresh_polls c (step_st c s (Advance d)) ((g, i) :: rest)).
Proof.
  intros Hwf Hd Hd0 Hg0 s Hnd Hci Hcr Hn. cbn [fresh_polls]. rewrite Nat2Z.inj_succ in Hn.
  assert (Hinv : Inv c s).
  { pose proof (reach_Inv c evs Hwf) as H. rewrite Forall_forall in H. apply H. apply states_last. }
  set (s1 := step_st c (step_st c s (Advance d)) (Advance g)).
  assert (Hl1 : lm s1 = lm s) by reflexivity.
  assert (Hc1 : forall j, cs s1 j = cs s j) by reflexivity.
  assert (Hn1 : now s1 = now s + Z.max 0 d + Z.max 0 g) by reflexivity.
  destruct Hinv as [Hlim _ _ _ _].
  destruct (idle_cap c (now s) (lm s1) (now s1) (Z.of_nat (length rest)) Hwf ltac:(rewrite Hl1; exact Hlim) ltac:(lia) ltac:(lia) ltac:(lia)) as [Ha Hc'].
  inversion Hnd as [|? ? Hni Hnd']; subst.
  change (step c s1 (Poll i)) with (poll c s1 i). change (step_st c s1 (Poll i)) with (fst (poll c s1 i)).
  destruct (poll_cases c s1 i) as [(st0 & Ht & Hlm & Hres)|(Hno & _)].
  - rewrite Ha in Hres. destruct Hres as (Hst & _). constructor; [symmetry; exact Hst|].
    apply fresh_polls_cap; [exact Hwf|exact Hnd'| |lia|rewrite Hlm; exact Hc'].
    rewrite Forall_forall in *. intros gi Hgi.
    assert (Hne : snd gi <> i).
    { intros Heq. apply Hni. rewrite <- Heq. apply in_map. exact Hgi. }
    destruct (poll_frame c s1 i (snd gi) Hne) as [H1 _]. rewrite H1, Hc1. apply Hcr. exact Hgi.
  - exfalso. apply (Hno (now s1)). left. split; [rewrite Hc1; exact Hci|reflexivity].
Qed.

(* ------------------------------------------------------------------------- *)
(* admitted <-> reaches the inner service, once *)
Lemma consumed_permit_starts c s i :
  wfc c -> adms (lm (fst (poll c s i))) <> adms (lm s) ->
  started (snd (poll c s i)) = true /\ entered (fst (poll c s i)) i = entered s i + 1.
Proof.
  intros Hwf Hne. destruct (poll_cases c s i) as [(st0 & _ & Hlm & Hres)|(_ & Hlm & _)]; [|rewrite Hlm in Hne; congruence].
  rewrite Hlm in Hne. destruct (ok_zero_iff_consumed c (now s) (lm s) Hwf) as [_ Hno].
  destruct (snd (try_acquire c (now s) (lm s))) as [[w|]|].
  - exfalso. apply Hne. apply Hno. discriminate.
  - destruct Hres as (H1 & _ & H2 & _). split; assumption.
  - exfalso. apply Hne. apply Hno. discriminate.
Qed.

(* a decided call stays decided: polling it again does nothing at all *)
Lemma decided_stays c s i :
  cs s i = Done -> r (snd (poll c s i)) = 9 /\ started (snd (poll c s i)) = false /\
  lm (fst (poll c s i)) = lm s /\ entered (fst (poll c s i)) = entered s /\ cs (fst (poll c s i)) i = Done.
Proof. intros H. unfold poll. cbn [cs]. rewrite H. cbn. rewrite H. repeat split; reflexivity. Qed.

(* a rejection changes no count of admissions: the ghost history is untouched *)
Lemma rejected_admits_nothing c s i :
  wfc c -> r (snd (poll c s i)) = 3 -> adms (lm (fst (poll c s i))) = adms (lm s).
Proof.
  intros Hwf Hr. destruct (poll_cases c s i) as [(st0 & _ & Hlm & Hres)|(_ & Hlm & _)]; [|rewrite Hlm; reflexivity].
  rewrite Hlm. destruct (ok_zero_iff_consumed c (now s) (lm s) Hwf) as [_ Hno].
  destruct (snd (try_acquire c (now s) (lm s))) as [[w|]|]; [apply Hno; discriminate| |apply Hno; discriminate].
  destruct Hres as (_ & _ & _ & H). congruence.
Qed.

(* ------------------------------------------------------------------------- *)
(* non-vacuity *)
Example ex_counter_windows :
  let c := mkCfg SlidingCounter 1 16 100 0 in
  let s := fold_left (step_st c) (ex_counter_evs ++ [Poll 2%nat]) (init c) in
  adms (lm s) = [18; 0] /\ wins (lm s) = [(16, [18]); (0, [0])] /\ cuttable c (lm s).
Proof.
  cbn zeta. split; [vm_compute; reflexivity|]. split; [vm_compute; reflexivity|].
  unfold cuttable. cbn zeta. split; [vm_compute; reflexivity|]. split.
  - vm_compute. repeat (constructor; [intro; discriminate|]). constructor.
  - vm_compute. repeat split; intro; discriminate.
Qed.

Example ex_rejected :
  let c := mkCfg Fixed 1 10 5 0 in
  let s := fold_left (step_st c) [Poll 0%nat; Advance 2] (init c) in
  r (snd (poll c s 1%nat)) = 3 /\ entered (fst (poll c s 1%nat)) 1%nat = 0.
Proof. vm_compute. split; reflexivity. Qed.

Example ex_sleeper_woken_and_decided :
  let c := mkCfg Fixed 1 10 20 0 in
  let s := fold_left (step_st c) [Poll 0%nat; Advance 2; Poll 1%nat; Advance 8] (init c) in
  cs s 1%nat = Sleeping 2 (10, 1) /\ woken s 1%nat = true /\ started (snd (poll c s 1%nat)) = true /\
  period_start (lm (fst (poll c s 1%nat))) = 10.
Proof. vm_compute. repeat split; reflexivity. Qed.

Example ex_idle_spread :
  let c := mkCfg SlidingCounter 3 20 0 0 in
  let s := fold_left (step_st c) [Poll 0%nat; Poll 1%nat; Poll 2%nat; Poll 3%nat] (init c) in
  r (snd (poll c s 4%nat)) = 3 /\
  fresh_polls c (step_st c s (Advance 40)) [(0, 4%nat); (15, 5%nat); (15, 6%nat)] = [true; true; true].
Proof. vm_compute. split; reflexivity. Qed.

Example ex_drop_while_sleeping :
  let c := mkCfg Fixed 1 30 100 0 in
  let s := fold_left (step_st c) [Poll 0%nat; Poll 1%nat] (init c) in
  (exists u, cs s 1%nat = Sleeping 0 u) /\ lm (drop s 1%nat) = lm s /\
  started (snd (poll c (advance (drop s 1%nat) 30) 2%nat)) = true.
Proof. vm_compute. split; [eexists; reflexivity|split; reflexivity]. Qed.

(* whoever asks (a new caller, or a waiter whose sleep is over) while the limiter answers Ok(ZERO) starts
   its inner call in that very poll *)
Lemma admitted_when_asked c s i start :
  tries_now s i start -> snd (try_acquire c (now s) (lm s)) = AOk None ->
  started (snd (poll c s i)) = true /\ entered (fst (poll c s i)) i = entered s i + 1 /\
  (cs (fst (poll c s i)) i = Running \/ cs (fst (poll c s i)) i = Done).
Proof.
  intros Ht Ha. destruct (poll_cases c s i) as [(st0 & _ & _ & Hres)|(Hno & _)]; [|exfalso; eapply Hno; exact Ht].
  rewrite Ha in Hres. destruct Hres as (H1 & H2 & H3 & _). repeat split; assumption.
Qed.

(* fixed window, on the admission history: if the newest window holds fewer than limit admissions, or its
   period is over, whoever asks now is admitted *)
Lemma fixed_spare_history c evs :
  wfc c -> wt c = Fixed ->
  Forall (fun s => forall st0 a rest, wins (lm s) = (st0, a) :: rest ->
            (Z.of_nat (length a) < limit c \/ st0 + period c <= now s) ->
            snd (try_acquire c (now s) (lm s)) = AOk None)
         (states (step_st c) (init c) evs).
Proof.
  intros Hwf Hw. eapply Forall_impl; [|apply reach_Inv; exact Hwf].
  intros s [Hl _ _ _ _] st0 a rest Hwins Hsp. unfold LimInv in Hl. rewrite Hw in Hl.
  destruct Hl as [(a' & rest' & Hh & Hcnt) Hp _ _]. rewrite Hwins in Hh. inversion Hh; subst.
  unfold try_acquire. rewrite Hw. apply fixed_spare; [exact Hwf|]. destruct Hsp; [left|right]; lia.
Qed.

(* sliding reading of "a later window" (all window types): a caller that had to wait is admitted at an instant
   strictly after its arrival, i.e. by the window (the interval of one period) that ends at a later instant than
   the one that was full when it arrived: every sleep's deadline lies strictly after the caller's arrival *)
Definition sleep_after_arrival (s : st) : Prop :=
  forall i start u, cs s i = Sleeping start u -> 0 < snd u /\ start * snd u < fst u.

Lemma sleep_after_arrival_step c s e :
  wfc c -> Inv c s -> sleep_after_arrival s -> sleep_after_arrival (step_st c s e).
Proof.
  intros Hwf Hinv HS. unfold step_st, step. destruct e as [i|i|d|i o]; cbn [fst].
  - intros j start u Hcs. destruct (Nat.eq_dec j i) as [->|Hne].
    + destruct (poll_cases c s i) as [(st0 & Ht & Hlm & Hres)|(Hno & _ & _ & _ & _ & Hc)].
      * pose proof Hinv as [Hl _ Hsl _ _].
        pose proof (try_acquire_wait_pos c (now s) (lm s)) as Hpos.
        pose proof (try_acquire_wait_den c (now s) (lm s)) as Hden.
        destruct (snd (try_acquire c (now s) (lm s))) as [[w|]|].
        -- specialize (Hpos w Hwf Hl eq_refl). specialize (Hden w Hwf Hl eq_refl).
           destruct Hres as (_ & _ & [[H _]|[H _]]); rewrite H in Hcs; [discriminate|].
           inversion Hcs; subst st0 u. cbn [fst snd].
           assert (start <= now s).
           { destruct Ht as [[_ ->]|(u0 & Hc & _)]; [lia|]. destruct (Hsl i start u0 Hc) as (_ & _ & Hle & _). exact Hle. }
           split; [exact Hden|nia].
        -- destruct Hres as (_ & [H|H] & _); rewrite H in Hcs; discriminate.
        -- destruct Hres as (_ & H & _); rewrite H in Hcs; discriminate.
      * destruct Hc as [Hc|[Hc1 Hc2]]; [rewrite Hc in Hcs; eapply HS; exact Hcs|congruence].
    + destruct (poll_frame c s i j Hne) as [H1 _]. rewrite H1 in Hcs. eapply HS; exact Hcs.
  - intros j start u Hcs. unfold drop in Hcs. destruct (Nat.eq_dec j i) as [->|Hne].
    + destruct (cs s i) eqn:Ei; cbn [cs] in Hcs; rewrite ?upd_same in Hcs; try discriminate; congruence.
    + destruct (cs s i) eqn:Ei; cbn [cs] in Hcs; rewrite ?upd_other in Hcs by exact Hne; eapply HS; exact Hcs.
  - intros j start u Hcs. cbn in *. eapply HS; exact Hcs.
  - intros j start u Hcs. unfold complete in *. destruct (gate s i); [eapply HS; exact Hcs|]. cbn in *. eapply HS; exact Hcs.
Qed.

Lemma waiter_admitted_later_instant c evs :
  wfc c ->
  Forall (fun s => forall i start u, cs s i = Sleeping start u ->
            started (snd (poll c s i)) = true -> start < now s)
         (states (step_st c) (init c) evs).
Proof.
  intros Hwf.
  assert (H : Forall (fun s => Inv c s /\ sleep_after_arrival s) (states (step_st c) (init c) evs)).
  { apply reach_inv.
    - split; [apply inv_init; exact Hwf|]. intros i start u H. cbn in H. discriminate.
    - intros s e [H1 H2]. split; [apply step_inv; assumption|apply sleep_after_arrival_step; assumption]. }
  eapply Forall_impl; [|exact H]. intros s [Hinv HS] i start u Hcs Hst.
  destruct (HS i start u Hcs) as [Hd Hlt].
  destruct (poll_cases c s i) as [(st0 & Ht & _)|(_ & _ & Hno & _)]; [|congruence].
  destruct Ht as [[Hc _]|(u0 & Hc & Hdue)]; [congruence|]. rewrite Hcs in Hc. inversion Hc; subst st0 u0.
  unfold due in Hdue. apply Z.leb_le in Hdue. nia.
Qed.

(* ------------------------------------------------------------------------- *)
(* second improvement round *)

(* sliding log, window end not representable as an Instant (refresh_period = Duration::MAX or beyond
   about 2^63 s): a full log never admits; the call is rejected, or - only with a timeout of
   Duration::MAX - waits for ever (fix 3a55d77; the wait used to be ZERO = "permit consumed") *)
Lemma log_unrepresentable_expiry c t l x rest :
  prune c t (rlog l) = x :: rest -> limit c <= Z.of_nat (length (x :: rest)) ->
  instant_max < origin c + x + period c ->
  snd (log_try c t l) = (if timeout c <? dur_max then AErr else AOk (Some (dur_max, 1))) /\
  adms (fst (log_try c t l)) = adms l.
Proof.
  intros Hp Hfull Hov. unfold log_try. rewrite Hp.
  assert (Z.of_nat (length (x :: rest)) <? limit c = false) as -> by (apply Z.ltb_ge; exact Hfull).
  assert (Hw : log_wait c t x = dur_max).
  { unfold log_wait. assert (instant_max <? origin c + x + period c = true) as -> by (apply Z.ltb_lt; exact Hov). reflexivity. }
  rewrite Hw. destruct (timeout c <? dur_max); cbn; [split; reflexivity|].
  assert (dur_max =? 0 = false) as -> by reflexivity. split; reflexivity.
Qed.

(* a call is rejected only when the limiter, asked at that instant, has no permit for it: no spurious rejection
   of a caller that finds spare capacity *)
Lemma rejected_only_without_capacity c s i :
  r (snd (poll c s i)) = 3 ->
  snd (try_acquire c (now s) (lm s)) <> AOk None /\ exists start, tries_now s i start.
Proof.
  intros Hr. destruct (poll_cases c s i) as [(st0 & Ht & _ & Hres)|(_ & _ & _ & _ & Hn & _)]; [|congruence].
  split; [|exists st0; exact Ht].
  destruct (snd (try_acquire c (now s) (lm s))) as [[w|]|]; try discriminate.
  destruct Hres as (_ & _ & _ & H). congruence.
Qed.

(* sliding log, "a permit of a later window" with content: whenever anybody is admitted at t, the admission
   limit places back lies at least a period before t - the window (t - P, t] held fewer than limit admissions;
   a waiter found it full on arrival, so it was admitted by a window that ends later *)
Lemma log_admitted_in_free_window c evs :
  wfc c -> wt c = SlidingLog ->
  Forall (fun s => forall i y, started (snd (poll c s i)) = true ->
            nth_error (adms (lm s)) (Z.to_nat (limit c) - 1) = Some y -> y + period c <= now s)
         (states (step_st c) (init c) evs).
Proof.
  intros Hwf Hw.
  assert (H : Forall (fun s => Inv c s) (states (step_st c) (init c) evs)) by (apply reach_Inv; exact Hwf).
  eapply Forall_impl; [|exact H]. intros s Hinv i y Hst Hy.
  pose proof (poll_inv c s i Hwf Hinv) as [Hl _ _ _ _]. unfold LimInv in Hl. rewrite Hw in Hl. destruct Hl as [_ Hsp].
  rewrite (start_is_admission c s i Hwf Hst) in Hsp.
  destruct Hwf as (Hlim & _ & _).
  apply (Hsp 0%nat (now s) y); [reflexivity|].
  replace (0 + Z.to_nat (limit c))%nat with (S (Z.to_nat (limit c) - 1)) by lia. exact Hy.
Qed.

Example ex_log_duration_max :
  let c := mkCfg SlidingLog 1 dur_max 0 harness_origin in
  let s := fold_left (step_st c) [Poll 0%nat; Advance 5] (init c) in
  r (snd (poll c s 1%nat)) = 3 /\ adms (lm (fst (poll c s 1%nat))) = [0] /\
  (let c' := mkCfg SlidingLog 1 dur_max dur_max harness_origin in
   let s' := fold_left (step_st c') [Poll 0%nat; Advance 5] (init c') in
   cs (fst (poll c' s' 1%nat)) 1%nat = Sleeping 5 (dur_max + 5, 1)).
Proof. vm_compute. repeat split; reflexivity. Qed.

(* script level: refresh_period 0 (outside wfc): every call is admitted by all three window types;
   refresh_period Duration::MAX, limit 1, timeout 0: one call admitted, the rest rejected, all three types *)
Example ex_zero_and_max_periods :
  run_script [2; 1; 0; 0; 3; 1; 0; 0; 1; 1; 0; 1; 2; 0] = [0; 1; 1; 0; 0; 1; 2; 0; 0; 1; 3; 0] /\
  run_script [0; 1; 0; 0; 2; 1; 0; 0; 1; 1; 0] = [0; 1; 1; 0; 0; 1; 2; 0] /\
  run_script [1; 1; 0; 0; 2; 1; 0; 0; 1; 1; 0] = [0; 1; 1; 0; 0; 1; 2; 0] /\
  run_script [0; 1; 10 ^ 15; 0; 2; 1; 0; 0; 6; 50; 0; 1; 1; 0] = [0; 1; 1; 0; -1; 0; 1; 0; 3; 0; 1; 0] /\
  run_script [1; 1; 10 ^ 15; 0; 2; 1; 0; 0; 6; 50; 0; 1; 1; 0] = [0; 1; 1; 0; -1; 0; 1; 0; 3; 0; 1; 0] /\
  run_script [2; 1; 10 ^ 15; 0; 2; 1; 0; 0; 6; 50; 0; 1; 1; 0] = [0; 1; 1; 0; -1; 0; 1; 0; 3; 0; 1; 0].
Proof. vm_compute. repeat split; reflexivity. Qed.

(* fix a8700d2 (start.elapsed().saturating_add(wait) > timeout): with timeout_duration = Duration::MAX a caller that
   gets no permit is never rejected by the elapsed-time test, whatever wait the limiter names (Duration::MAX
   included) and however much time has already passed since its arrival - [start] is arbitrary, i.e. also for
   an in-poll elapsed time that the driver's virtual clock cannot produce; it sleeps. (The sum used to overflow
   and panic under a real clock.) *)
Lemma max_timeout_never_rejects c s i start w :
  snd (try_acquire c (now s) (lm s)) = AOk (Some w) -> 0 < snd w -> dur_max <= timeout c ->
  cs (fst (acquire_round c s i start)) i = Sleeping start (fst w + now s * snd w, snd w) /\
  r (snd (acquire_round c s i start)) = 0.
Proof.
  intros Ha Hden Hmax. unfold acquire_round. destruct (try_acquire c (now s) (lm s)) as [l' a]. cbn [snd] in Ha. subst a.
  assert (wait_gt (Z.min (fst w + (now s - start) * snd w) (dur_max * snd w), snd w) (timeout c) = false) as ->.
  { unfold wait_gt. cbn [fst snd]. apply Z.ltb_ge. nia. }
  cbn. rewrite upd_same. split; reflexivity.
Qed.
