(* Rate limiter: window invariants (C02) and caller-level facts (C15). *)
From TR Require Import Lib.Base Model.RateLimiter.

Arguments Z.mul : simpl never.
Arguments Z.add : simpl never.
Arguments Z.sub : simpl never.
Arguments upd : simpl never.

Definition wfc (c : cfg) : Prop := 1 <= limit c /\ 0 < period c /\ 0 <= timeout c.

(* ------------------------------------------------------------------------- *)
(* windows: newest first; consecutive starts at least a period apart *)
Fixpoint spaced (P : Z) (w : list (Z * list Z)) : Prop :=
  match w with
  | (s1, _) :: (((s2, _) :: _) as rest) => s2 + P <= s1 /\ spaced P rest
  | _ => True
  end.

Definition window_ok (c : cfg) (w : Z * list Z) : Prop :=
  Z.of_nat (length (snd w)) <= limit c /\
  Forall (fun a => fst w <= a < fst w + period c) (snd w).

(* every reachable limiter state of the fixed window / sliding counter *)
Definition windows_ok (c : cfg) (l : lim) : Prop :=
  spaced (period c) (wins l) /\ Forall (window_ok c) (wins l).

(* ---------- fixed window ---------- *)
Record FInv (c : cfg) (t : Z) (l : lim) : Prop := {
  f_head : exists a rest, wins l = (period_start l, a) :: rest /\
                          Z.of_nat (length a) + permits l = limit c;
  f_perm : 0 <= permits l;
  f_start : period_start l <= t;
  f_win : windows_ok c l
}.

Lemma spaced_cons P s a rest :
  spaced P rest -> (forall s2 a2 r2, rest = (s2, a2) :: r2 -> s2 + P <= s) ->
  spaced P ((s, a) :: rest).
Proof.
  intros H Hh. destruct rest as [|[s2 a2] r2]; cbn; [exact I|].
  split; [eapply Hh; reflexivity|exact H].
Qed.

Lemma spaced_bump P t w : spaced P w -> spaced P (bump_head t w).
Proof.
  destruct w as [|[s a] rest]; cbn; [trivial|]. destruct rest as [|[s2 a2] r2]; cbn; trivial.
Qed.

Lemma fixed_try_inv c t l :
  wfc c -> wt c = Fixed -> FInv c t l -> forall t', t <= t' ->
  FInv c t' (fst (fixed_try c t' l)).
Proof.
  intros (Hl & HP & HT) _ [Hh Hp Hs [Hsp Hw]] t' Hle.
  destruct Hh as (a & rest & Hwins & Hcnt).
  unfold fixed_try.
  set (l1 := if period c <=? t' - period_start l then _ else l).
  assert (H1 : FInv c t' l1 /\ t' - period_start l1 < period c).
  { subst l1. destruct (period c <=? t' - period_start l) eqn:E.
    - apply Z.leb_le in E. split; [|cbn; lia]. constructor; cbn.
      + exists [], (wins l). split; [reflexivity|cbn; lia].
      + lia.
      + lia.
      + split.
        * apply spaced_cons; [exact Hsp|]. intros s2 a2 r2 Heq. rewrite Hwins in Heq.
          inversion Heq; subst. lia.
        * constructor; [|exact Hw]. split; cbn; [lia|constructor].
    - apply Z.leb_gt in E. split; [|exact E]. constructor; try assumption; try lia.
      + exists a, rest. split; assumption.
      + split; assumption. }
  destruct H1 as [[Hh1 Hp1 Hs1 [Hsp1 Hw1]] Hlt].
  destruct Hh1 as (a1 & rest1 & Hwins1 & Hcnt1).
  destruct (0 <? permits l1) eqn:Ep.
  - apply Z.ltb_lt in Ep. cbn [fst]. constructor; cbn.
    + rewrite Hwins1. cbn. exists (t' :: a1), rest1. split; [reflexivity|].
      simpl length. rewrite Nat2Z.inj_succ. lia.
    + lia.
    + exact Hs1.
    + split.
      * apply spaced_bump. exact Hsp1.
      * rewrite Hwins1 in *. cbn. inversion Hw1 as [|? ? [Hc1 Hf1] Hrest]; subst.
        constructor; [|exact Hrest]. cbn in *. split.
        -- cbn [fst snd]. simpl length. rewrite Nat2Z.inj_succ. lia.
        -- cbn [fst snd]. constructor; [lia|exact Hf1].
  - destruct (timeout c <? _); cbn [fst]; constructor; try assumption; try lia;
      try (exists a1, rest1; split; assumption); split; assumption.
Qed.

(* ---------- sliding counter ---------- *)
Record CInv (c : cfg) (t : Z) (l : lim) : Prop := {
  c_head : exists a rest, wins l = (bucket_start l, a) :: rest /\ Z.of_nat (length a) = curc l;
  c_prev : 0 <= prevc l;
  c_start : bucket_start l <= t;
  c_win : windows_ok c l
}.

Lemma counter_try_inv c t l :
  wfc c -> wt c = SlidingCounter -> CInv c t l -> forall t', t <= t' ->
  CInv c t' (fst (counter_try c t' l)).
Proof.
  intros (Hl & HP & HT) _ [Hh Hp Hs [Hsp Hw]] t' Hle.
  destruct Hh as (a & rest & Hwins & Hcnt).
  unfold counter_try.
  set (l1 := rotate c t' l).
  assert (H1 : CInv c t' l1 /\ 0 <= t' - bucket_start l1 < period c).
  { subst l1. unfold rotate. destruct (period c <=? t' - bucket_start l) eqn:E.
    - apply Z.leb_le in E.
      assert (Hsp' : spaced (period c) ((t', []) :: wins l)).
      { apply spaced_cons; [exact Hsp|]. intros s2 a2 r2 Heq. rewrite Hwins in Heq.
        inversion Heq; subst. lia. }
      assert (Hw' : Forall (window_ok c) ((t', []) :: wins l)).
      { constructor; [|exact Hw]. split; cbn; [lia|constructor]. }
      destruct (2 * period c <=? t' - bucket_start l); (split; [|cbn; lia]); constructor; cbn;
        try lia; try (exists [], (wins l); split; reflexivity); try (split; assumption).
    - apply Z.leb_gt in E. split; [|lia]. constructor; try assumption; try lia.
      + exists a, rest. split; assumption.
      + split; assumption. }
  destruct H1 as [[Hh1 Hp1 Hs1 [Hsp1 Hw1]] He].
  destruct Hh1 as (a1 & rest1 & Hwins1 & Hcnt1).
  set (e := Z.min (Z.max 0 (t' - bucket_start l1)) (period c)).
  assert (Hee : 0 <= e <= period c) by (subst e; lia).
  destruct (prevc l1 * (period c - e) + curc l1 * period c <? limit c * period c) eqn:Ea.
  - apply Z.ltb_lt in Ea. cbn [fst].
    assert (Hcur : curc l1 < limit c) by nia.
    constructor; cbn.
    + rewrite Hwins1. cbn. exists (t' :: a1), rest1. split; [reflexivity|].
      simpl length. rewrite Nat2Z.inj_succ. lia.
    + exact Hp1.
    + exact Hs1.
    + split.
      * apply spaced_bump. exact Hsp1.
      * rewrite Hwins1 in *. cbn. inversion Hw1 as [|? ? [Hc1 Hf1] Hrest]; subst.
        constructor; [|exact Hrest]. cbn in *. split.
        -- cbn [fst snd]. simpl length. rewrite Nat2Z.inj_succ. lia.
        -- cbn [fst snd]. constructor; [lia|exact Hf1].
  - destruct (wait_gt _ _); cbn [fst]; constructor; try assumption; try lia;
      try (exists a1, rest1; split; assumption); split; assumption.
Qed.

(* ---------- sliding log ---------- *)
(* adms (newest first) = the log reversed, followed by admissions that have left the log and
   are at least a period old *)
Record LInv (c : cfg) (t : Z) (l : lim) : Prop := {
  l_split : exists older, adms l = rev (rlog l) ++ older /\ Forall (fun x => x + period c <= t) older;
  l_len : Z.of_nat (length (rlog l)) <= limit c;
  l_le : Forall (fun x => x <= t) (adms l)
}.

(* any limit+1 consecutive admissions span at least a period *)
Definition log_spacing (c : cfg) (a : list Z) : Prop :=
  forall i x y, nth_error a i = Some x -> nth_error a (i + Z.to_nat (limit c)) = Some y ->
                y + period c <= x.

Lemma prune_split c t lg :
  exists dropped, lg = dropped ++ prune c t lg /\ Forall (fun x => x + period c <= t) dropped.
Proof.
  induction lg as [|ts rest IH]; cbn.
  - exists []. split; [reflexivity|constructor].
  - destruct (period c <=? t - ts) eqn:E.
    + apply Z.leb_le in E. destruct IH as (d & Hd & Hf). exists (ts :: d). split.
      * cbn. f_equal. exact Hd.
      * constructor; [lia|exact Hf].
    + exists []. split; [reflexivity|constructor].
Qed.

Lemma prune_length c t lg : (length (prune c t lg) <= length lg)%nat.
Proof.
  induction lg as [|ts rest IH]; cbn; [lia|]. destruct (period c <=? t - ts); cbn; lia.
Qed.

Lemma Forall_mono_le (P : Z) t t' l :
  t <= t' -> Forall (fun x => x + P <= t) l -> Forall (fun x => x + P <= t') l.
Proof. intros H. apply Forall_impl. intros; lia. Qed.

Lemma log_try_inv c t l :
  wfc c -> LInv c t l -> log_spacing c (adms l) -> forall t', t <= t' ->
  LInv c t' (fst (log_try c t' l)) /\ log_spacing c (adms (fst (log_try c t' l))).
Proof.
  intros (Hl & HP & HT) [Hs Hlen Hle] Hsp t' Hlt.
  destruct Hs as (older & Hadm & Hold).
  destruct (prune_split c t' (rlog l)) as (dropped & Hd & Hdf).
  assert (Hadm' : adms l = rev (prune c t' (rlog l)) ++ (rev dropped ++ older)).
  { rewrite Hadm. rewrite Hd at 1. rewrite rev_app_distr, app_assoc. reflexivity. }
  assert (Hold' : Forall (fun x => x + period c <= t') (rev dropped ++ older)).
  { apply Forall_app. split.
    - apply Forall_rev. exact Hdf.
    - eapply Forall_mono_le; [exact Hlt|exact Hold]. }
  assert (Hle' : Forall (fun x => x <= t') (adms l)) by (eapply Forall_impl; [|exact Hle]; intros; cbn in *; lia).
  unfold log_try. set (lg := prune c t' (rlog l)) in *.
  destruct (Z.of_nat (length lg) <? limit c) eqn:E.
  - apply Z.ltb_lt in E. cbn [fst]. split.
    + constructor; cbn.
      * exists (rev dropped ++ older). split; [|exact Hold'].
        rewrite rev_app_distr. cbn. rewrite Hadm'. reflexivity.
      * rewrite app_length. cbn. lia.
      * constructor; [lia|exact Hle'].
    + (* spacing for the new admission *)
      cbn. intros i x y Hx Hy. destruct i as [|i].
      * cbn in Hx. inversion Hx; subst x. cbn in Hy.
        destruct (Z.to_nat (limit c)) as [|k] eqn:Ek; [lia|]. cbn in Hy.
        rewrite Hadm' in Hy.
        assert (Hk : (length (rev lg) <= k)%nat) by (rewrite rev_length; lia).
        rewrite nth_error_app2 in Hy by exact Hk.
        apply nth_error_In in Hy. rewrite Forall_forall in Hold'. apply Hold'. exact Hy.
      * cbn in Hx, Hy. eapply Hsp; eassumption.
  - assert (Hlen' : Z.of_nat (length lg) <= limit c).
    { pose proof (prune_length c t' (rlog l)). subst lg. lia. }
    assert (Hinv : LInv c t' (mkLim (permits l) (period_start l) lg (prevc l) (curc l)
                                     (bucket_start l) (wins l) (adms l))).
    { constructor; cbn; [exists (rev dropped ++ older); split; assumption|exact Hlen'|exact Hle']. }
    destruct lg as [|oldest rest] eqn:Elg; cbn [fst]; [split; [exact Hinv|exact Hsp]|].
    destruct (timeout c <? _); [|destruct (_ =? 0)]; cbn [fst]; (split; [exact Hinv|exact Hsp]).
Qed.

(* ------------------------------------------------------------------------- *)
(* the limiter inside the service model: it only changes through try_acquire at the
   current instant, and the clock never goes back *)
Definition LimInv (c : cfg) (t : Z) (l : lim) : Prop :=
  match wt c with
  | Fixed => FInv c t l
  | SlidingCounter => CInv c t l
  | SlidingLog => LInv c t l /\ log_spacing c (adms l)
  end.

Lemma LimInv_init c : wfc c -> LimInv c 0 (new_lim c).
Proof.
  intros (Hl & HP & HT). unfold LimInv. destruct (wt c).
  - constructor; cbn; try lia.
    + exists [], []. split; [reflexivity|cbn; lia].
    + split; [exact I|]. constructor; [|constructor]. split; cbn; [lia|constructor].
  - split.
    + constructor; cbn; try lia.
      * exists []. split; [reflexivity|constructor].
      * constructor.
    + intros i x y Hx. destruct i; discriminate.
  - constructor; cbn; try lia.
    + exists [], []. split; reflexivity.
    + split; [exact I|]. constructor; [|constructor]. split; cbn; [lia|constructor].
Qed.

Lemma LimInv_try c t l t' :
  wfc c -> LimInv c t l -> t <= t' -> LimInv c t' (fst (try_acquire c t' l)).
Proof.
  intros Hwf H Hle. unfold LimInv, try_acquire in *. destruct (wt c) eqn:Ew.
  - apply (fixed_try_inv c t l Hwf Ew H t' Hle).
  - destruct H as [H1 H2]. apply (log_try_inv c t l Hwf H1 H2 t' Hle).
  - apply (counter_try_inv c t l Hwf Ew H t' Hle).
Qed.

Lemma LimInv_time c t l t' : wfc c -> LimInv c t l -> t <= t' -> LimInv c t' l.
Proof.
  intros (Hl & HP & HT) H Hle. unfold LimInv in *. destruct (wt c).
  - destruct H as [Hh Hp Hs Hw]. constructor; try assumption. lia.
  - destruct H as [[Hs Hlen Hl'] Hsp]. split; [|exact Hsp]. constructor; try assumption.
    + destruct Hs as (older & Ha & Ho). exists older. split; [exact Ha|].
      eapply Forall_mono_le; eassumption.
    + eapply Forall_impl; [|exact Hl']. intros; cbn in *; lia.
  - destruct H as [Hh Hp Hs Hw]. constructor; try assumption. lia.
Qed.

(* ---------- service-level invariant ---------- *)
Record Inv (c : cfg) (s : st) : Prop := {
  i_lim : LimInv c (now s) (lm s);
  i_now : 0 <= now s;
  (* a sleeping caller's deadline never exceeds its arrival + timeout: it is decided in time *)
  i_sleep : forall i start u, cs s i = Sleeping start u ->
              0 < snd u /\ fst u <= (start + timeout c) * snd u /\ start <= now s /\
              arrival s i = Some start;
  (* a request reaches the inner service at most once, and only when admitted *)
  i_ent : forall i, 0 <= entered s i <= 1;
  i_ent0 : forall i, (cs s i = Created \/ exists st u, cs s i = Sleeping st u) -> entered s i = 0
}.

Lemma upd_same {A} (f : nat -> A) i v : upd f i v i = v.
Proof. unfold upd. rewrite Nat.eqb_refl. reflexivity. Qed.
Lemma upd_other {A} (f : nat -> A) i v j : j <> i -> upd f i v j = f j.
Proof. intros H. unfold upd. apply Nat.eqb_neq in H. rewrite H. reflexivity. Qed.

Lemma inv_init c : wfc c -> Inv c (init c).
Proof.
  intros Hwf. constructor; cbn; try lia; try discriminate; try reflexivity.
  - apply LimInv_init. exact Hwf.
Qed.

Ltac case_if := match goal with |- context [if ?b then _ else _] => destruct b eqn:? end.
Ltac case_gate := match goal with |- context [match ?g with Some _ => _ | None => _ end] => destruct g end.

(* the waits handed out by try_acquire have a positive denominator *)
Lemma try_acquire_wait_den c t l w :
  wfc c -> LimInv c t l -> snd (try_acquire c t l) = AOk (Some w) -> 0 < snd w.
Proof.
  intros (Hl & HP & HT) Hinv. unfold try_acquire. destruct (wt c) eqn:Ew.
  - unfold fixed_try. match goal with |- context [if 0 <? permits ?x then _ else _] => set (l1 := x) end. destruct (0 <? permits l1); cbn; [discriminate|].
    case_if; cbn; [discriminate|]. intros H. inversion H. cbn. lia.
  - unfold log_try. set (lg := prune c t (rlog l)). case_if; cbn; [discriminate|].
    destruct lg; cbn; [discriminate|]. case_if; cbn; [discriminate|].
    case_if; cbn; [discriminate|]. intros H. inversion H. cbn. lia.
  - unfold counter_try. set (l1 := rotate c t l).
    assert (Hp : 0 <= prevc l1).
    { unfold LimInv in Hinv. rewrite Ew in Hinv. destruct Hinv as [Hh Hp _ _].
      destruct Hh as (a & rest & _ & Hcnt).
      subst l1. unfold rotate. repeat case_if; cbn; lia. }
    case_if; cbn; [discriminate|].
    case_if; cbn; [discriminate|]. intros H. inversion H. subst w. clear H.
    unfold counter_wait, one_ns. destruct (prevc l1 =? 0) eqn:E0.
    + case_if; cbn; lia.
    + apply Z.eqb_neq in E0. repeat case_if; cbn; lia.
Qed.

(* ... and a positive numerator: every sleep ends strictly after the instant it starts *)
Lemma try_acquire_wait_pos c t l w :
  wfc c -> LimInv c t l -> snd (try_acquire c t l) = AOk (Some w) -> 0 < fst w.
Proof.
  intros (Hl & HP & HT) Hinv. unfold try_acquire. destruct (wt c) eqn:Ew.
  - unfold fixed_try.
    match goal with |- context [if 0 <? permits ?x then _ else _] => set (l1 := x) end.
    assert (Hlt : t - period_start l1 < period c).
    { subst l1. case_if; cbn; [lia|]. apply Z.leb_gt. assumption. }
    destruct (0 <? permits l1); cbn; [discriminate|].
    case_if; cbn; [discriminate|]. intros H. inversion H. cbn. lia.
  - unfold log_try. set (lg := prune c t (rlog l)). case_if; cbn; [discriminate|].
    destruct lg; cbn; [discriminate|]. case_if; cbn; [discriminate|].
    case_if; cbn; [discriminate|]. intros H. inversion H. cbn.
    match goal with E : (_ =? 0) = false |- _ => apply Z.eqb_neq in E end. lia.
  - unfold counter_try. set (l1 := rotate c t l).
    case_if; cbn; [discriminate|].
    case_if; cbn; [discriminate|]. intros H. inversion H. subst w. clear H.
    unfold counter_wait, one_ns.
    repeat case_if; cbn; try lia;
      repeat match goal with
             | E : (_ <=? _) = false |- _ => apply Z.leb_gt in E
             | E : (_ <? _) = true |- _ => apply Z.ltb_lt in E
             end; lia.
Qed.

Lemma wait_gt_false w t : 0 < snd w -> wait_gt w t = false -> fst w <= t * snd w.
Proof. unfold wait_gt. intros _ H. apply Z.ltb_ge in H. exact H. Qed.

(* ---------- steps preserve the invariant ---------- *)
Lemma poll_running_inv c s i b :
  Inv c s -> cs s i = Running -> Inv c (fst (poll_running s i b)).
Proof.
  intros [Hl Hn Hs He He0] Hr. unfold poll_running. destruct (gate s i); cbn [fst]; [|constructor; assumption].
  constructor; cbn; try assumption.
  - intros j start u. destruct (Nat.eq_dec j i) as [->|Hne].
    + rewrite upd_same. discriminate.
    + rewrite upd_other by exact Hne. apply Hs.
  - intros j. destruct (Nat.eq_dec j i) as [->|Hne].
    + rewrite upd_same. intros [H|(st & u & H)]; discriminate.
    + rewrite upd_other by exact Hne. apply He0.
Qed.

Lemma acquire_round_inv c s i start :
  wfc c -> Inv c s -> (cs s i = Created \/ exists u, cs s i = Sleeping start u) ->
  start <= now s -> arrival s i = Some start ->
  Inv c (fst (acquire_round c s i start)).
Proof.
  intros Hwf [Hl Hn Hs He He0] Hst Hle Harr. unfold acquire_round.
  pose proof (LimInv_try c (now s) (lm s) (now s) Hwf Hl (Z.le_refl _)) as Hl'.
  pose proof (try_acquire_wait_den c (now s) (lm s)) as Hden.
  destruct (try_acquire c (now s) (lm s)) as [l' a] eqn:Eacq. cbn [fst snd] in *.
  assert (Hent0 : entered s i = 0).
  { apply He0. destruct Hst as [H|[u H]]; [left; exact H|right; eauto]. }
  assert (Hothers : forall (x : cst), (forall st u, x <> Sleeping st u) -> x <> Created ->
            (forall j st u, upd (cs s) i x j = Sleeping st u ->
               0 < snd u /\ fst u <= (st + timeout c) * snd u /\ st <= now s /\ arrival s j = Some st) /\
            (forall j, (upd (cs s) i x j = Created \/ exists st u, upd (cs s) i x j = Sleeping st u) ->
               (if Nat.eqb j i then True else entered s j = 0))).
  { intros x Hx1 Hx2. split.
    - intros j st u. destruct (Nat.eq_dec j i) as [->|Hne].
      + rewrite upd_same. intros H. exfalso. eapply Hx1. exact H.
      + rewrite upd_other by exact Hne. apply Hs.
    - intros j. destruct (Nat.eq_dec j i) as [->|Hne].
      + rewrite Nat.eqb_refl. trivial.
      + rewrite upd_other by exact Hne. apply Nat.eqb_neq in Hne. rewrite Hne. apply He0. }
  destruct a as [[w|]|].
  - (* come back later *)
    specialize (Hden w Hwf Hl eq_refl).
    destruct (wait_gt (fst w + (now s - start) * snd w, snd w) (timeout c)) eqn:Eg; cbn [fst].
    + destruct (Hothers Done) as [H1 H2]; [discriminate|discriminate|].
      constructor; cbn; try assumption; try exact H1.
      intros j Hj. specialize (H2 j Hj). destruct (Nat.eq_dec j i) as [Heq|Hne].
      { subst j. rewrite upd_same in Hj. destruct Hj as [H|(st & u & H)]; discriminate. }
      apply Nat.eqb_neq in Hne. rewrite Hne in H2. exact H2.
    + apply wait_gt_false in Eg; [|exact Hden]. cbn [fst snd] in Eg.
      constructor; cbn; try assumption.
      * intros j st u. destruct (Nat.eq_dec j i) as [->|Hne].
        -- rewrite upd_same. intros H. inversion H; subst. cbn [fst snd].
           repeat split; try assumption. nia.
        -- rewrite upd_other by exact Hne. apply Hs.
      * intros j. destruct (Nat.eq_dec j i) as [->|Hne].
        -- intros _. exact Hent0.
        -- rewrite upd_other by exact Hne. apply He0.
  - (* admitted *)
    apply poll_running_inv; [|cbn; apply upd_same].
    destruct (Hothers Running) as [H1 H2]; [discriminate|discriminate|].
    constructor; cbn; try assumption; try exact H1.
    + intros j. destruct (Nat.eq_dec j i) as [->|Hne].
      * rewrite upd_same. lia.
      * rewrite upd_other by exact Hne. apply He.
    + intros j Hj. specialize (H2 j Hj). destruct (Nat.eq_dec j i) as [Heq|Hne].
      * subst j. rewrite upd_same in Hj. destruct Hj as [H|(st & u & H)]; discriminate.
      * rewrite upd_other by exact Hne. apply Nat.eqb_neq in Hne. rewrite Hne in H2. exact H2.
  - (* rejected *)
    cbn [fst]. destruct (Hothers Done) as [H1 H2]; [discriminate|discriminate|].
    constructor; cbn; try assumption; try exact H1.
    intros j Hj. specialize (H2 j Hj). destruct (Nat.eq_dec j i) as [Heq|Hne].
    { subst j. rewrite upd_same in Hj. destruct Hj as [H|(st & u & H)]; discriminate. }
    apply Nat.eqb_neq in Hne. rewrite Hne in H2. exact H2.
Qed.

Lemma poll_inv c s i : wfc c -> Inv c s -> Inv c (fst (poll c s i)).
Proof.
  intros Hwf Hinv0. unfold poll.
  set (s1 := mkSt _ _ _ _ _ _ _ _).
  destruct Hinv0 as [Hl Hn Hs He He0].
  destruct (cs s i) as [|start u| | |] eqn:Ecs.
  - (* Created: first poll, arrival recorded *)
    assert (Hinv : Inv c s1).
    { subst s1. rewrite ?Ecs. constructor; cbn; try assumption.
      intros j st u Hj. destruct (Hs j st u Hj) as (A & B & C & D). repeat split; try assumption.
      destruct (Nat.eq_dec j i) as [->|Hne]; [congruence|]. rewrite upd_other by exact Hne. exact D. }
    change (cs s1 i) with (cs s i). rewrite ?Ecs. change (now s1) with (now s).
    apply acquire_round_inv; try assumption; try (left; exact Ecs); try (cbn; lia);
      try (subst s1; cbn; rewrite ?Ecs; apply upd_same).
  - assert (Hinv : Inv c s1) by (subst s1; rewrite ?Ecs; constructor; cbn; assumption).
    change (cs s1 i) with (cs s i). rewrite ?Ecs. change (now s1) with (now s).
    destruct (Hs i start u Ecs) as (A & B & C & D).
    destruct (due u (now s)); [|exact Hinv].
    apply acquire_round_inv; try assumption; try (right; exists u; exact Ecs);
      try (subst s1; cbn; rewrite ?Ecs; exact D).
  - assert (Hinv : Inv c s1) by (subst s1; rewrite ?Ecs; constructor; cbn; assumption).
    change (cs s1 i) with (cs s i). rewrite ?Ecs.
    apply poll_running_inv; [exact Hinv|exact Ecs].
  - change (cs s1 i) with (cs s i). rewrite ?Ecs. cbn [fst]. subst s1. rewrite ?Ecs. constructor; cbn; assumption.
  - change (cs s1 i) with (cs s i). rewrite ?Ecs. cbn [fst]. subst s1. rewrite ?Ecs. constructor; cbn; assumption.
Qed.

Lemma drop_inv c s i : Inv c s -> Inv c (drop s i).
Proof.
  intros [Hl Hn Hs He He0]. unfold drop.
  assert (Hd : Inv c (mkSt (now s) (lm s) (upd (cs s) i Dropped) (gate s) (upd (woken s) i false)
                           (inflight s) (entered s) (arrival s))).
  { constructor; cbn; try assumption.
    - intros j st u. destruct (Nat.eq_dec j i) as [->|Hne].
      + rewrite upd_same. discriminate.
      + rewrite upd_other by exact Hne. apply Hs.
    - intros j. destruct (Nat.eq_dec j i) as [->|Hne].
      + rewrite upd_same. intros [H|(st & u & H)]; discriminate.
      + rewrite upd_other by exact Hne. apply He0. }
  destruct (cs s i); try exact Hd; try (constructor; assumption).
  destruct Hd as [A B C D E]. constructor; assumption.
Qed.

Lemma step_inv c s e : wfc c -> Inv c s -> Inv c (step_st c s e).
Proof.
  intros Hwf Hinv. unfold step_st, step. destruct e as [i|i|d|i o]; cbn [fst].
  - apply poll_inv; assumption.
  - apply drop_inv; assumption.
  - destruct Hinv as [Hl Hn Hs He He0]. constructor; cbn; try assumption; try lia.
    + eapply LimInv_time; [exact Hwf|exact Hl|lia].
    + intros j st u Hj. destruct (Hs j st u Hj) as (A & B & C & D). repeat split; try assumption. lia.
  - unfold complete. destruct (gate s i); [exact Hinv|].
    destruct Hinv as [Hl Hn Hs He He0]. constructor; assumption.
Qed.

Lemma reach_Inv c evs : wfc c -> Forall (Inv c) (states (step_st c) (init c) evs).
Proof. intros Hwf. apply reach_inv; [apply inv_init; exact Hwf|intros s e; apply step_inv; exact Hwf]. Qed.

(* ------------------------------------------------------------------------- *)
(* C02 *)
Lemma fixed_windows c evs :
  wfc c -> wt c = Fixed ->
  Forall (fun s => windows_ok c (lm s)) (states (step_st c) (init c) evs).
Proof.
  intros Hwf Hw. eapply Forall_impl; [|apply reach_Inv; exact Hwf].
  intros s [Hl _ _ _ _]. unfold LimInv in Hl. rewrite Hw in Hl. apply Hl.
Qed.

Lemma counter_windows c evs :
  wfc c -> wt c = SlidingCounter ->
  Forall (fun s => windows_ok c (lm s)) (states (step_st c) (init c) evs).
Proof.
  intros Hwf Hw. eapply Forall_impl; [|apply reach_Inv; exact Hwf].
  intros s [Hl _ _ _ _]. unfold LimInv in Hl. rewrite Hw in Hl. apply Hl.
Qed.

Lemma log_spacing_reach c evs :
  wfc c -> wt c = SlidingLog ->
  Forall (fun s => log_spacing c (adms (lm s))) (states (step_st c) (init c) evs).
Proof.
  intros Hwf Hw. eapply Forall_impl; [|apply reach_Inv; exact Hwf].
  intros s [Hl _ _ _ _]. unfold LimInv in Hl. rewrite Hw in Hl. apply Hl.
Qed.

(* Ok(ZERO) means exactly "a permit was consumed": the admission is recorded in the ghost
   history iff try_acquire answers Ok(ZERO) (this is the equivalence the upstream acquire()
   got wrong) *)
Lemma prune_head c t l x r : prune c t l = x :: r -> t - x < period c.
Proof.
  induction l as [|y rest IH]; cbn; [discriminate|].
  destruct (period c <=? t - y) eqn:E; [exact IH|].
  intros H. inversion H; subst. apply Z.leb_gt. exact E.
Qed.

Lemma ok_zero_iff_consumed c t l :
  wfc c ->
  (snd (try_acquire c t l) = AOk None -> adms (fst (try_acquire c t l)) = t :: adms l) /\
  (snd (try_acquire c t l) <> AOk None -> adms (fst (try_acquire c t l)) = adms l).
Proof.
  intros (Hl & HP & HT). unfold try_acquire. destruct (wt c).
  - unfold fixed_try. repeat case_if; cbn; split; intros H; try reflexivity; try discriminate; try congruence.
  - unfold log_try. case_if; cbn; [split; intros H; [reflexivity|congruence]|].
    destruct (prune c t (rlog l)) as [|x r] eqn:Ep.
    + cbn in *. match goal with E : (_ <? limit c) = false |- _ => apply Z.ltb_ge in E end. lia.
    + pose proof (prune_head c t _ _ _ Ep) as Hh.
      repeat case_if; cbn; split; intros H; try reflexivity; try discriminate; try congruence.
      match goal with E : (_ =? 0) = true |- _ => apply Z.eqb_eq in E end. lia.
  - unfold counter_try. set (l1 := rotate c t l).
    assert (Ha : adms l1 = adms l) by (subst l1; unfold rotate; repeat case_if; reflexivity).
    repeat case_if; cbn; split; intros H; try reflexivity; try discriminate; try congruence;
      rewrite ?Ha; reflexivity.
Qed.

(* an inner call starts in a poll exactly when that poll's try_acquire consumed a permit:
   the limiter's admission history grows by the current instant *)
Lemma start_is_admission c s i :
  wfc c -> started (snd (poll c s i)) = true ->
  adms (lm (fst (poll c s i))) = now s :: adms (lm s).
Proof.
  intros Hwf. unfold poll.
  set (s1 := mkSt _ _ _ _ _ _ _ _).
  assert (Hround : forall start, started (snd (acquire_round c s1 i start)) = true ->
            adms (lm (fst (acquire_round c s1 i start))) = now s :: adms (lm s)).
  { intros start. unfold acquire_round. change (now s1) with (now s). change (lm s1) with (lm s).
    destruct (ok_zero_iff_consumed c (now s) (lm s) Hwf) as [Hyes _].
    destruct (try_acquire c (now s) (lm s)) as [l' a]. cbn [fst snd] in Hyes.
    destruct a as [[w|]|].
    - case_if; cbn; discriminate.
    - intros _. unfold poll_running. cbn. case_gate; cbn; apply Hyes; reflexivity.
    - cbn. discriminate. }
  change (cs s1 i) with (cs s i). destruct (cs s i) as [|start u| | |].
  - apply Hround.
  - change (now s1) with (now s). case_if; [apply Hround|cbn; discriminate].
  - unfold poll_running. case_gate; cbn; discriminate.
  - cbn. discriminate.
  - cbn. discriminate.
Qed.

(* ------------------------------------------------------------------------- *)
(* C15 *)
(* decided within the timeout: a waiting caller's sleep never extends beyond arrival + timeout,
   every sleep ends strictly later than it starts (so there are finitely many rounds), and the
   poll at the end of a sleep decides or sleeps again under the same bound *)
Lemma sleeping_within_timeout c evs :
  wfc c ->
  Forall (fun s => forall i start u, cs s i = Sleeping start u ->
            0 < snd u /\ fst u <= (start + timeout c) * snd u /\ arrival s i = Some start)
         (states (step_st c) (init c) evs).
Proof.
  intros Hwf. eapply Forall_impl; [|apply reach_Inv; exact Hwf].
  intros s [_ _ Hs _ _] i start u H. destruct (Hs i start u H) as (A & B & C & D). repeat split; assumption.
Qed.

Lemma sleep_makes_progress c s i start :
  wfc c -> Inv c s ->
  forall st' u, cs (fst (acquire_round c s i start)) i = Sleeping st' u -> now s * snd u < fst u.
Proof.
  intros Hwf [Hl _ _ _ _] st' u. unfold acquire_round.
  pose proof (try_acquire_wait_pos c (now s) (lm s)) as Hpos.
  pose proof (try_acquire_wait_den c (now s) (lm s)) as Hden.
  destruct (try_acquire c (now s) (lm s)) as [l' a]. cbn [snd] in *.
  destruct a as [[w|]|].
  - specialize (Hpos w Hwf Hl eq_refl). specialize (Hden w Hwf Hl eq_refl).
    case_if; cbn; rewrite upd_same; [discriminate|]. intros H. inversion H; subst. cbn. lia.
  - unfold poll_running. cbn. case_gate; cbn; rewrite upd_same; discriminate.
  - cbn. rewrite upd_same. discriminate.
Qed.

(* a rejected call never reaches the inner service; an admitted call reaches it exactly once *)
Lemma rejected_never_enters c s i :
  wfc c -> Inv c s -> r (snd (poll c s i)) = 3 ->
  started (snd (poll c s i)) = false /\ entered (fst (poll c s i)) i = 0 /\
  cs (fst (poll c s i)) i = Done /\ inflight (fst (poll c s i)) = inflight s.
Proof.
  intros Hwf [Hl Hn Hs He He0]. unfold poll.
  set (s1 := mkSt _ _ _ _ _ _ _ _).
  assert (Hround : forall start, entered s i = 0 -> r (snd (acquire_round c s1 i start)) = 3 ->
            started (snd (acquire_round c s1 i start)) = false /\
            entered (fst (acquire_round c s1 i start)) i = 0 /\
            cs (fst (acquire_round c s1 i start)) i = Done /\
            inflight (fst (acquire_round c s1 i start)) = inflight s).
  { intros start H0. unfold acquire_round.
    destruct (try_acquire c (now s1) (lm s1)) as [l' a]. destruct a as [[w|]|].
    - case_if; cbn; [|discriminate]. intros _. rewrite upd_same. repeat split. exact H0.
    - unfold poll_running. cbn. case_gate; cbn; [|discriminate].
      match goal with |- context [match ?o with OOk => _ | OErr => _ | OPanic => _ end] => destruct o end; discriminate.
    - cbn. intros _. rewrite upd_same. repeat split. exact H0. }
  change (cs s1 i) with (cs s i). destruct (cs s i) as [|start u| | |] eqn:Ecs.
  - apply Hround. apply He0. left. exact Ecs.
  - case_if; [apply Hround; apply He0; right; eauto|cbn; discriminate].
  - unfold poll_running. case_gate; cbn; [|discriminate].
    match goal with |- context [match ?o with OOk => _ | OErr => _ | OPanic => _ end] => destruct o end; discriminate.
  - cbn. discriminate.
  - cbn. discriminate.
Qed.

Lemma entered_at_most_once c evs :
  wfc c ->
  Forall (fun s => forall i, 0 <= entered s i <= 1) (states (step_st c) (init c) evs).
Proof.
  intros Hwf. eapply Forall_impl; [|apply reach_Inv; exact Hwf]. intros s [_ _ _ He _]. exact He.
Qed.

(* a caller cancelled while waiting (or before its first poll) consumes nothing *)
Lemma drop_consumes_nothing s i : lm (drop s i) = lm s.
Proof. unfold drop. destruct (cs s i); reflexivity. Qed.

(* admitted at once when the current window has spare capacity *)
Lemma fixed_spare c t l :
  wfc c -> (0 < permits l \/ period c <= t - period_start l) ->
  snd (fixed_try c t l) = AOk None.
Proof.
  intros (Hl & HP & HT) H. unfold fixed_try. destruct (period c <=? t - period_start l) eqn:E; cbn.
  - assert (0 <? limit c = true) as -> by (apply Z.ltb_lt; lia). reflexivity.
  - apply Z.leb_gt in E. destruct H as [H|H]; [|lia].
    assert (0 <? permits l = true) as -> by (apply Z.ltb_lt; lia). reflexivity.
Qed.

Lemma log_spare c t l :
  Z.of_nat (length (prune c t (rlog l))) < limit c -> snd (log_try c t l) = AOk None.
Proof.
  intros H. unfold log_try. apply Z.ltb_lt in H. rewrite H. reflexivity.
Qed.

Lemma admitted_at_once c s i :
  cs s i = Created -> snd (try_acquire c (now s) (lm s)) = AOk None ->
  started (snd (poll c s i)) = true /\ entered (fst (poll c s i)) i = entered s i + 1.
Proof.
  intros Hc Ha. unfold poll. cbn. rewrite Hc. unfold acquire_round. cbn.
  destruct (try_acquire c (now s) (lm s)) as [l' a]. cbn in Ha. subst a.
  unfold poll_running. cbn. case_gate; cbn; rewrite ?upd_same; split; reflexivity.
Qed.

(* after two idle periods the next limit calls are admitted without waiting (all window types) *)
Fixpoint tries (c : cfg) (n : nat) (t : Z) (l : lim) : list acq :=
  match n with
  | O => []
  | S k => let '(l', a) := try_acquire c t l in a :: tries c k t l'
  end.

Lemma fresh_fixed c t' :
  wfc c -> wt c = Fixed -> forall n l, period_start l = t' -> Z.of_nat n <= permits l ->
  Forall (eq (AOk None)) (tries c n t' l).
Proof.
  intros (Hl & HP & HT) Hw n. induction n as [|k IH]; intros l Hs Hn; cbn [tries]; [constructor|].
  unfold try_acquire at 1. rewrite Hw. unfold fixed_try. rewrite Hs.
  assert (period c <=? t' - t' = false) as -> by (apply Z.leb_gt; lia).
  assert (0 <? permits l = true) as -> by (apply Z.ltb_lt; lia).
  constructor; [reflexivity|]. apply IH; cbn; [exact Hs|lia].
Qed.

Lemma idle_fixed c t' n l :
  wfc c -> wt c = Fixed -> period c <= t' - period_start l -> Z.of_nat n <= limit c ->
  Forall (eq (AOk None)) (tries c n t' l).
Proof.
  intros Hwf Hw Hidle Hn. destruct Hwf as (Hl & HP & HT).
  destruct n as [|k]; cbn [tries]; [constructor|].
  unfold try_acquire at 1. rewrite Hw. unfold fixed_try.
  assert (period c <=? t' - period_start l = true) as -> by (apply Z.leb_le; lia). cbn.
  assert (0 <? limit c = true) as -> by (apply Z.ltb_lt; lia).
  constructor; [reflexivity|]. apply fresh_fixed; [repeat split; assumption|exact Hw|reflexivity|cbn; lia].
Qed.

Lemma prune_all c t l : Forall (fun x => x + period c <= t) l -> prune c t l = [].
Proof.
  induction l as [|x r IH]; intros H; cbn; [reflexivity|].
  inversion H; subst. assert (period c <=? t - x = true) as -> by (apply Z.leb_le; lia).
  apply IH. assumption.
Qed.

Lemma prune_none c t l : 0 < period c -> Forall (eq t) l -> prune c t l = l.
Proof.
  intros HP H. destruct l as [|x r]; cbn; [reflexivity|]. inversion H; subst.
  assert (period c <=? x - x = false) as -> by (apply Z.leb_gt; lia). reflexivity.
Qed.

Lemma fresh_log c t' :
  wfc c -> wt c = SlidingLog -> forall n l, Forall (eq t') (rlog l) ->
  Z.of_nat (length (rlog l)) + Z.of_nat n <= limit c ->
  Forall (eq (AOk None)) (tries c n t' l).
Proof.
  intros (Hl & HP & HT) Hw n. induction n as [|k IH]; intros l Hs Hn; cbn [tries]; [constructor|].
  unfold try_acquire at 1. rewrite Hw. unfold log_try. rewrite (prune_none c t' _ HP Hs).
  assert (Z.of_nat (length (rlog l)) <? limit c = true) as -> by (apply Z.ltb_lt; lia).
  constructor; [reflexivity|]. apply IH; cbn.
  - apply Forall_app. split; [exact Hs|constructor; [reflexivity|constructor]].
  - rewrite app_length. cbn. lia.
Qed.

Lemma idle_log c t' n l :
  wfc c -> wt c = SlidingLog -> Forall (fun x => x + period c <= t') (rlog l) ->
  Z.of_nat n <= limit c -> Forall (eq (AOk None)) (tries c n t' l).
Proof.
  intros Hwf Hw Hidle Hn. destruct Hwf as (Hl & HP & HT).
  destruct n as [|k]; cbn [tries]; [constructor|].
  unfold try_acquire at 1. rewrite Hw. unfold log_try. rewrite (prune_all c t' _ Hidle). cbn.
  assert (0 <? limit c = true) as -> by (apply Z.ltb_lt; lia).
  constructor; [reflexivity|]. apply fresh_log; [repeat split; assumption|exact Hw|cbn|cbn; lia].
  constructor; [reflexivity|constructor].
Qed.

Lemma fresh_counter c t' :
  wfc c -> wt c = SlidingCounter -> forall n l, bucket_start l = t' -> prevc l = 0 -> 0 <= curc l ->
  curc l + Z.of_nat n <= limit c ->
  Forall (eq (AOk None)) (tries c n t' l).
Proof.
  intros (Hl & HP & HT) Hw n. induction n as [|k IH]; intros l Hs Hp Hc Hn; cbn [tries]; [constructor|].
  unfold try_acquire at 1. rewrite Hw. unfold counter_try, rotate. rewrite Hs.
  assert (period c <=? t' - t' = false) as -> by (apply Z.leb_gt; lia). rewrite Hs, Hp.
  match goal with |- context [if ?b then _ else _] => assert (b = true) as -> by (apply Z.ltb_lt; nia) end.
  constructor; [reflexivity|]. apply IH; cbn; try assumption; lia.
Qed.

Lemma idle_counter c t' n l :
  wfc c -> wt c = SlidingCounter -> 2 * period c <= t' - bucket_start l ->
  Z.of_nat n <= limit c -> Forall (eq (AOk None)) (tries c n t' l).
Proof.
  intros Hwf Hw Hidle Hn. destruct Hwf as (Hl & HP & HT).
  destruct n as [|k]; cbn [tries]; [constructor|].
  unfold try_acquire at 1. rewrite Hw. unfold counter_try, rotate.
  assert (period c <=? t' - bucket_start l = true) as -> by (apply Z.leb_le; lia).
  assert (2 * period c <=? t' - bucket_start l = true) as -> by (apply Z.leb_le; lia). cbn.
  match goal with |- context [if ?b then _ else _] => assert (b = true) as -> by (apply Z.ltb_lt; nia) end.
  constructor; [reflexivity|]. apply fresh_counter; [repeat split; assumption|exact Hw|reflexivity|reflexivity|cbn; lia|cbn; lia].
Qed.

(* the idle hypothesis in terms of reachable states: if the limiter state was reached at instant
   t0 (nothing has touched it since), then at any t' >= t0 + 2 * period the next limit calls are
   all admitted at once *)
Lemma idle_two_periods c t0 l t' n :
  wfc c -> LimInv c t0 l -> t0 + 2 * period c <= t' -> Z.of_nat n <= limit c ->
  Forall (eq (AOk None)) (tries c n t' l).
Proof.
  intros Hwf Hinv Hidle Hn. pose proof Hwf as (Hl & HP & HT). unfold LimInv in Hinv.
  destruct (wt c) eqn:Hw.
  - destruct Hinv as [_ _ Hs _]. apply idle_fixed; try assumption. lia.
  - destruct Hinv as [[Hsplit _ Hle] _]. apply idle_log; try assumption.
    destruct Hsplit as (older & Ha & _).
    assert (Hsub : Forall (fun x => x <= t0) (rlog l)).
    { rewrite Forall_forall in *. intros x Hx. apply Hle. rewrite Ha. apply in_or_app. left.
      apply in_rev in Hx. exact Hx. }
    eapply Forall_impl; [|exact Hsub]. intros x Hx. cbn in *. lia.
  - destruct Hinv as [_ _ Hs _]. apply idle_counter; try assumption. lia.
Qed.

(* non-vacuity *)
Example ex_burst_fixed :
  let c := mkCfg Fixed 2 100 250 in
  let evs := [Poll 0%nat; Poll 1%nat; Poll 2%nat; Poll 3%nat; Advance 100; Poll 2%nat; Poll 3%nat] in
  let s := fold_left (step_st c) evs (init c) in
  adms (lm s) = [100; 100; 0; 0] /\ wins (lm s) = [(100, [100; 100]); (0, [0; 0])].
Proof. vm_compute. split; reflexivity. Qed.
