From TR Require Import Lib.Base Model.Budget Proof.Budget.
From Coq Require Import Permutation Sorted.
(* Linearizability of the token balance of the AIMD budget (Model/Budget.v, ab_prog).

   Unlike the token bucket, an operation of the AIMD budget does not always take effect at
   its completing step:
     granted withdrawal   the successful compare-exchange on the tokens (AwCas), completing step
     refused withdrawal   the load that sees fewer than [b_w] tokens (AwLoad); the operation then
                          lowers the ceiling (AwFLoad/AwFCas) and returns 0 later
     deposit              the successful compare-exchange on the tokens (AdCas); the operation
                          then raises the ceiling (AdSLoad/AdSCas) and returns 2 later
     balance()            its load (AbLoadTok), completing step
   so the linearization order is the order of these instants, not the order of completion.

   Proof: the machine is run together with a ghost list of linearized operations (newest
   first); an entry is pushed at the linearization instant and, when the operation has not
   returned yet, carries a placeholder response instant that is filled in by the completing
   step. An invariant relates ghost list, memory, log and program points; at a quiescent state
   the ghost list (oldest first) is the linearization. *)

(* ------------------------------------------------------------------------- *)
(* lists *)
Lemma sorted_rev_nth {A : Type} (R : A -> A -> Prop) (l : list A) :
  StronglySorted R l ->
  forall i j a b, nth_error (rev l) i = Some a -> nth_error (rev l) j = Some b ->
                  (j < i)%nat -> R a b.
Proof.
  induction 1 as [|x l Hs IH Hf]; intros i j a b Ea Eb Hij.
  - destruct i; discriminate.
  - cbn [rev] in *.
    assert (Hi : (i < length (rev l ++ [x]))%nat) by (apply nth_error_Some; rewrite Ea; discriminate).
    rewrite app_length in Hi; cbn in Hi.
    rewrite nth_error_app1 in Eb by lia.
    destruct (Nat.eq_dec i (length (rev l))) as [->|Hne].
    + rewrite nth_error_app2, Nat.sub_diag in Ea by lia. cbn in Ea. inversion Ea; subst.
      rewrite Forall_forall in Hf. apply Hf. apply in_rev. eapply nth_error_In; eauto.
    + rewrite nth_error_app1 in Ea by lia. eauto.
Qed.

Lemma filter_all {A : Type} (f : A -> bool) (l : list A) :
  (forall x, In x l -> f x = true) -> filter f l = l.
Proof.
  induction l as [|x t IH]; intros H; cbn; [reflexivity|].
  rewrite (H x (or_introl eq_refl)), IH; [reflexivity|]. intros y Hy; apply H; right; exact Hy.
Qed.

Lemma ab_seq_run_snoc (b : bcfg) a l m c r m' :
  ab_seq_run b a l m -> ab_seq_step b m c r m' -> ab_seq_run b a (l ++ [(c, r)]) m'.
Proof.
  induction 1 as [bal|bal c0 r0 bal' t bal'' Hs Hr IH]; intros Hx; cbn.
  - econstructor; [exact Hx|constructor].
  - econstructor; [exact Hs|apply IH; exact Hx].
Qed.

(* ------------------------------------------------------------------------- *)
(* ghost entries: a record, its linearization instant, and whether the operation has returned
   (when not, [r_res] is the placeholder 0) *)
Record gent := { g_rec : orec ab_call; g_lt : Z; g_done : bool }.

Definition mkrec (tid : nat) (call : ab_call) (ret first res : Z) : orec ab_call :=
  {| r_tid := tid; r_call := call; r_ret := ret; r_first := first; r_res := res |}.

Definition set_res (r : orec ab_call) (z : Z) : orec ab_call :=
  mkrec (r_tid r) (r_call r) (r_ret r) (r_first r) z.

Definition fin (clock : Z) (x : gent) : gent :=
  {| g_rec := set_res (g_rec x) clock; g_lt := g_lt x; g_done := true |}.

(* the entry of an operation of thread [tid] that has linearized but not returned *)
Definition is_pend (tid : nat) (x : gent) : bool :=
  negb (g_done x) && Nat.eqb (r_tid (g_rec x)) tid.

Fixpoint finish (tid : nat) (clock : Z) (g : list gent) : list gent :=
  match g with
  | [] => []
  | x :: t => if is_pend tid x then fin clock x :: t else x :: finish tid clock t
  end.

Definition cr (x : gent) : ab_call * Z := (r_call (g_rec x), r_ret (g_rec x)).

Section Finish.
  Context (tid : nat) (clock : Z).

  Lemma finish_cr g : map cr (finish tid clock g) = map cr g.
  Proof.
    induction g as [|x t IH]; cbn; [reflexivity|].
    destruct (is_pend tid x); cbn; [reflexivity|rewrite IH; reflexivity].
  Qed.

  Lemma finish_lt g : map g_lt (finish tid clock g) = map g_lt g.
  Proof.
    induction g as [|x t IH]; cbn; [reflexivity|].
    destruct (is_pend tid x); cbn; [reflexivity|rewrite IH; reflexivity].
  Qed.

  Lemma finish_Forall (Q Q' : gent -> Prop) g :
    (forall x, Q x -> Q' x) -> (forall x, Q x -> Q' (fin clock x)) ->
    Forall Q g -> Forall Q' (finish tid clock g).
  Proof.
    intros H1 H2. induction 1 as [|x t Hx Ht IH]; cbn; [constructor|].
    destruct (is_pend tid x); constructor; auto.
    eapply Forall_impl; [exact H1|exact Ht].
  Qed.

  Lemma finish_pend_other k g :
    k <> tid -> filter (is_pend k) (finish tid clock g) = filter (is_pend k) g.
  Proof.
    intros Hk. induction g as [|x t IH]; cbn; [reflexivity|].
    destruct (is_pend tid x) eqn:E; cbn [filter].
    - unfold is_pend in *. cbn [fin g_done negb andb].
      apply andb_prop in E. destruct E as [_ E]. apply Nat.eqb_eq in E.
      replace (Nat.eqb (r_tid (g_rec x)) k) with false
        by (symmetry; apply Nat.eqb_neq; congruence).
      rewrite andb_false_r. reflexivity.
    - rewrite IH. reflexivity.
  Qed.

  Lemma finish_pend_same g r :
    map g_rec (filter (is_pend tid) g) = [r] -> filter (is_pend tid) (finish tid clock g) = [].
  Proof.
    induction g as [|x t IH]; cbn [filter finish map]; [discriminate|].
    destruct (is_pend tid x) eqn:E; cbn [filter map].
    - intros H. inversion H as [[Hr Ht]]. apply map_eq_nil in Ht.
      unfold is_pend at 1. cbn [fin g_done negb andb]. exact Ht.
    - rewrite E. exact IH.
  Qed.

  Lemma finish_perm g r :
    map g_rec (filter (is_pend tid) g) = [r] ->
    Permutation (map g_rec (filter g_done (finish tid clock g)))
                (set_res r clock :: map g_rec (filter g_done g)).
  Proof.
    induction g as [|x t IH]; cbn [filter finish map]; [discriminate|].
    destruct (is_pend tid x) eqn:E; cbn [filter map].
    - intros H. inversion H as [[Hr Ht]].
      unfold is_pend in E. apply andb_prop in E. destruct E as [E _].
      destruct (g_done x); [discriminate|]. cbn [fin g_done g_rec map]. apply Permutation_refl.
    - intros H. destruct (g_done x); cbn [map].
      + eapply perm_trans; [apply perm_skip, IH, H|apply perm_swap].
      + apply IH, H.
  Qed.
End Finish.

(* ------------------------------------------------------------------------- *)
Section AimdLin.
  Context (b : bcfg) (dec : Z -> Z).
  Context (Hmm : a_min (b_ctl b) <= a_max (b_ctl b))
          (Hu : a_max (b_ctl b) <= U64MAX) (Hinc : 0 <= a_inc (b_ctl b)).
  Notation P := (ab_prog b dec).
  Notation state := (state ab_pc ab_call).
  Notation thread := (thread ab_pc ab_call).
  Notation cur := (cur ab_pc ab_call).

  (* ---- program-point facts: [ab_L] with the ceiling read by a deposit within
     [min_budget, max_budget] (the sequential deposit needs the lower bound too) ---- *)
  Definition lin_G (m : mem) (log : list (orec ab_call)) (W : Z) : Prop :=
    a_min (b_ctl b) <= m LLim <= a_max (b_ctl b).

  Definition lin_L (call : ab_call) (pc : ab_pc) : Prop :=
    match pc with
    | AwLoad => call = AbWithdraw
    | AwCas c => call = AbWithdraw /\ b_w b <= c
    | AwFLoad | AwFCas _ => call = AbWithdraw
    | AdLim => call = AbDeposit
    | AdLoad ceil | AdCas ceil _ =>
        call = AbDeposit /\ a_min (b_ctl b) <= ceil <= a_max (b_ctl b)
    | AdSLoad | AdSCas _ => call = AbDeposit
    | AbLoadTok => call = AbBalance
    | AbLoadLim => call = AbMax
    end.

  Lemma lin_step_ok :
    forall m log W call pc sp tid first clock,
      lin_G m log W -> lin_L call pc ->
      match p_next P pc (o_val (exec m (p_op P pc) sp)) (o_ok (exec m (p_op P pc) sp)) with
      | inl pc' => lin_G (o_mem (exec m (p_op P pc) sp)) log (W - 0 + 0) /\ lin_L call pc'
      | inr ret => lin_G (o_mem (exec m (p_op P pc) sp))
                         ({| r_tid := tid; r_call := call; r_ret := ret;
                             r_first := first; r_res := clock |} :: log) (W - 0)
      end.
  Proof.
    intros m log W call pc sp tid first clock HG HL. unfold lin_G in *.
    destruct pc as [|c| |p| |ceil|ceil p| |p| |]; unfold lin_L in HL;
      cbn [ab_prog p_next p_op ab_op ab_next exec o_val o_ok o_mem] in *.
    - destruct (Z.ltb_spec (m LTok) (b_w b)); cbn [lin_L]; repeat split; auto; lia.
    - destruct ((m LTok =? c) && negb sp); cbn [o_val o_ok o_mem lin_L];
        rewrite ?mset_other by discriminate; tauto.
    - cbn [lin_L]. tauto.
    - pose proof (ctl_fail_bounds (b_ctl b) dec Hmm p).
      destruct ((m LLim =? p) && negb sp); cbn [o_val o_ok o_mem lin_L];
        rewrite ?mset_same; tauto.
    - cbn [lin_L]. tauto.
    - cbn [lin_L]. tauto.
    - destruct ((m LTok =? p) && negb sp); cbn [o_val o_ok o_mem lin_L];
        rewrite ?mset_other by discriminate; tauto.
    - cbn [lin_L]. tauto.
    - destruct ((m LLim =? p) && negb sp) eqn:E; cbn [o_val o_ok o_mem lin_L];
        rewrite ?mset_same; [|tauto].
      apply andb_prop in E. destruct E as [E _]. apply Z.eqb_eq in E.
      apply (ctl_succ_bounds (b_ctl b) Hmm p Hinc Hu). lia.
    - exact HG.
    - exact HG.
  Qed.

  Definition lin_inv := inv (PC := ab_pc) lin_G lin_L (fun _ => 0).

  Lemma lin_start_ok k : lin_L k (p_start P k).
  Proof. destruct k; cbn; auto. Qed.

  Lemma lin_inv_step s e : lin_inv s -> lin_inv (step P s e).
  Proof. apply inv_step; [exact lin_start_ok|reflexivity|exact lin_step_ok]. Qed.

  (* ---- the ghost step ---- *)
  (* the return value owed by an operation that has linearized but not returned *)
  Definition post_ret (pc : ab_pc) : option Z :=
    match pc with
    | AwFLoad | AwFCas _ => Some 0
    | AdSLoad | AdSCas _ => Some 2
    | _ => None
    end.

  Inductive gact := GNone | GPush (ret : Z) (done : bool) | GFin.

  Definition gact_of (pc : ab_pc) (v : Z) (ok : bool) : gact :=
    match pc with
    | AwLoad => if v <? b_w b then GPush 0 false else GNone
    | AwCas _ => if ok then GPush 1 true else GNone
    | AdCas _ _ => if ok then GPush 2 false else GNone
    | AbLoadTok => GPush v true
    | AwFCas _ | AdSCas _ => if ok then GFin else GNone
    | _ => GNone
    end.

  Definition gapply (tid : nat) (clock : Z) (call : ab_call) (first : Z) (a : gact)
             (g : list gent) : list gent :=
    match a with
    | GNone => g
    | GPush ret d =>
        {| g_rec := mkrec tid call ret first (if d then clock else 0);
           g_lt := clock; g_done := d |} :: g
    | GFin => finish tid clock g
    end.

  Definition gstep (s : state) (e : nat * bool) (g : list gent) : list gent :=
    match nth_error (st_thr s) (fst e) with
    | None => g
    | Some t =>
        match begin_op P (st_clock s) t with
        | None => g
        | Some (c, _) =>
            let r := exec (st_mem s) (p_op P (c_pc c)) (snd e) in
            gapply (fst e) (st_clock s) (c_call c) (c_first c)
                   (gact_of (c_pc c) (o_val r) (o_ok r)) g
        end
    end.

  (* what one atomic step and its ghost action must satisfy *)
  Definition act_ok (m m' : mem) (call : ab_call) (pc : ab_pc) (nxt : ab_pc + Z) (a : gact)
    : Prop :=
    match a with
    | GNone =>
        m' LTok = m LTok /\
        match nxt with
        | inl pc' => post_ret pc' = post_ret pc
        | inr _ => call = AbMax /\ post_ret pc = None
        end
    | GPush ret d =>
        post_ret pc = None /\ ab_seq_step b (m LTok) call ret (m' LTok) /\
        if d then nxt = inr ret else exists pc', nxt = inl pc' /\ post_ret pc' = Some ret
    | GFin =>
        m' LTok = m LTok /\ call <> AbMax /\ exists ret, nxt = inr ret /\ post_ret pc = Some ret
    end.

  Lemma act_ok_step m call pc sp :
    lin_L call pc ->
    act_ok m (o_mem (exec m (ab_op b dec pc) sp)) call pc
           (ab_next b pc (o_val (exec m (ab_op b dec pc) sp)) (o_ok (exec m (ab_op b dec pc) sp)))
           (gact_of pc (o_val (exec m (ab_op b dec pc) sp)) (o_ok (exec m (ab_op b dec pc) sp))).
  Proof.
    intros HL.
    destruct pc as [|c| |p| |ceil|ceil p| |p| |]; unfold lin_L in HL;
      cbn [ab_op ab_next exec o_val o_ok o_mem gact_of] in *.
    - subst call. destruct (Z.ltb_spec (m LTok) (b_w b)) as [Hlt|Hge]; cbn [act_ok post_ret].
      + split; [reflexivity|split; [constructor; exact Hlt|]]. exists AwFLoad; auto.
      + auto.
    - destruct HL as [-> Hc].
      destruct ((m LTok =? c) && negb sp) eqn:E; cbn [o_val o_ok o_mem act_ok post_ret]; [|auto].
      apply andb_prop in E. destruct E as [E _]. apply Z.eqb_eq in E.
      rewrite mset_same. subst c. split; [reflexivity|split; [constructor; exact Hc|reflexivity]].
    - cbn [act_ok post_ret]. auto.
    - subst call.
      destruct ((m LLim =? p) && negb sp); cbn [o_val o_ok o_mem act_ok post_ret]; [|auto].
      rewrite mset_other by discriminate. split; [reflexivity|split; [discriminate|]].
      exists 0; auto.
    - cbn [act_ok post_ret]. auto.
    - cbn [act_ok post_ret]. auto.
    - destruct HL as [-> Hc].
      destruct ((m LTok =? p) && negb sp) eqn:E; cbn [o_val o_ok o_mem act_ok post_ret]; [|auto].
      apply andb_prop in E. destruct E as [E _]. apply Z.eqb_eq in E.
      rewrite mset_same. subst p. split; [reflexivity|split; [constructor; exact Hc|]].
      exists AdSLoad; auto.
    - cbn [act_ok post_ret]. auto.
    - subst call.
      destruct ((m LLim =? p) && negb sp); cbn [o_val o_ok o_mem act_ok post_ret]; [|auto].
      rewrite mset_other by discriminate. split; [reflexivity|split; [discriminate|]].
      exists 2; auto.
    - subst call. cbn [act_ok post_ret]. split; [reflexivity|split; [constructor|reflexivity]].
    - subst call. cbn [act_ok post_ret]. auto.
  Qed.

  (* ---- the invariant relating state and ghost list ---- *)
  Definition gent_ok (clock : Z) (x : gent) : Prop :=
    r_first (g_rec x) <= g_lt x < clock /\ (g_done x = true -> g_lt x <= r_res (g_rec x)).

  Definition pend_c (tid : nat) (c : cur) : list (orec ab_call) :=
    match post_ret (c_pc c) with
    | Some ret => [mkrec tid (c_call c) ret (c_first c) 0]
    | None => []
    end.

  Definition pend_of (tid : nat) (ot : option thread) : list (orec ab_call) :=
    match ot with
    | Some t => match th_cur t with Some c => pend_c tid c | None => [] end
    | None => []
    end.

  Record ginv (s : state) (g : list gent) : Prop := {
    (* the linearized operations, oldest first, are a sequential run to the current balance *)
    gi_seq : ab_seq_run b (a_max (b_ctl b)) (rev (map cr g)) (st_mem s LTok);
    (* linearization instants strictly decrease along the list *)
    gi_sorted : StronglySorted (fun x y => y < x) (map g_lt g);
    (* each instant lies within the operation's interval *)
    gi_ok : Forall (gent_ok (st_clock s)) g;
    (* the returned entries are the token operations of the log *)
    gi_perm : Permutation (map g_rec (filter g_done g)) (filter tok_op (st_log s));
    (* the entries not returned are exactly the threads past their linearization point *)
    gi_pend : forall k, map g_rec (filter (is_pend k) g) = pend_of k (nth_error (st_thr s) k)
  }.

  Lemma gent_ok_weaken clock x : gent_ok clock x -> gent_ok (clock + 1) x.
  Proof. unfold gent_ok. intros [H1 H2]. split; [lia|exact H2]. Qed.

  Lemma gent_ok_fin clock x : gent_ok clock x -> gent_ok (clock + 1) (fin clock x).
  Proof. unfold gent_ok. intros [H1 H2]. cbn. split; [lia|intros _; lia]. Qed.

  Lemma gent_ok_lt clock g : Forall (gent_ok clock) g -> Forall (fun y => y < clock) (map g_lt g).
  Proof. induction 1 as [|x t [Hx _] Ht IH]; cbn; constructor; [lia|exact IH]. Qed.

  Lemma ginv_tick s g : ginv s g -> ginv (tick s) g.
  Proof.
    intros [H1 H2 H3 H4 H5]. constructor; cbn; auto.
    eapply Forall_impl; [apply gent_ok_weaken|exact H3].
  Qed.

  Lemma pend_begin (s : state) g n t c rest :
    ginv s g -> nth_error (st_thr s) n = Some t -> begin_op P (st_clock s) t = Some (c, rest) ->
    map g_rec (filter (is_pend n) g) = pend_c n c.
  Proof.
    intros Hg Et Eb. rewrite (gi_pend _ _ Hg n), Et. cbn [pend_of].
    destruct (begin_op_cases _ _ _ _ _ Eb) as [[Ec _]|[Ec [k [_ Hc]]]]; rewrite Ec; [reflexivity|].
    subst c. destruct k; reflexivity.
  Qed.

  Lemma pend_upd (thr : list thread) g g' tid t t' :
    (forall k, map g_rec (filter (is_pend k) g) = pend_of k (nth_error thr k)) ->
    nth_error thr tid = Some t ->
    (forall k, k <> tid -> filter (is_pend k) g' = filter (is_pend k) g) ->
    map g_rec (filter (is_pend tid) g') = pend_of tid (Some t') ->
    forall k, map g_rec (filter (is_pend k) g') = pend_of k (nth_error (set_nth tid t' thr) k).
  Proof.
    intros H Et Ho Hs k. destruct (Nat.eq_dec tid k) as [<-|Hne].
    - rewrite (nth_error_set_nth_same _ _ _ _ Et). exact Hs.
    - rewrite nth_error_set_nth_other by exact Hne. rewrite Ho by auto. apply H.
  Qed.

  Lemma push_pend_other tid k call ret first res lt d g :
    k <> tid ->
    filter (is_pend k) ({| g_rec := mkrec tid call ret first res; g_lt := lt; g_done := d |} :: g)
    = filter (is_pend k) g.
  Proof.
    intros Hk. cbn [filter]. unfold is_pend at 1. cbn [g_rec g_done mkrec r_tid].
    replace (Nat.eqb tid k) with false by (symmetry; apply Nat.eqb_neq; congruence).
    rewrite andb_false_r. reflexivity.
  Qed.

  Definition nstate (s : state) (e : nat * bool) (t : thread) (c : cur) (rest : list ab_call)
             (m' : mem) (nxt : ab_pc + Z) : state :=
    match nxt with
    | inl pc' => cont_state s e t c rest m' pc'
    | inr ret => done_state s e t c rest m' ret
    end.

  Lemma ginv_upd s e g t c rest m' nxt a :
    ginv s g ->
    nth_error (st_thr s) (fst e) = Some t ->
    begin_op P (st_clock s) t = Some (c, rest) ->
    c_first c <= st_clock s ->
    act_ok (st_mem s) m' (c_call c) (c_pc c) nxt a ->
    ginv (nstate s e t c rest m' nxt)
         (gapply (fst e) (st_clock s) (c_call c) (c_first c) a g).
  Proof.
    intros Hg Et Eb Hf Ha.
    pose proof (pend_begin _ _ _ _ _ _ Hg Et Eb) as Hp. unfold pend_c in Hp.
    destruct Hg as [Hseq Hsort Hok Hperm Hpend].
    assert (Hok' : Forall (gent_ok (st_clock s + 1)) g)
      by (eapply Forall_impl; [apply gent_ok_weaken|exact Hok]).
    destruct a as [|ret d|]; cbn [act_ok gapply] in *.
    - (* no ghost action *)
      destruct Ha as [Hm Hn].
      destruct nxt as [pc'|r]; cbn [nstate]; constructor;
        cbn [cont_state done_state st_mem st_thr st_log st_clock]; auto.
      + rewrite Hm; exact Hseq.
      + eapply pend_upd; eauto. cbn [pend_of th_cur]. unfold pend_c. cbn [c_pc c_call c_first].
        rewrite Hn. exact Hp.
      + rewrite Hm; exact Hseq.
      + destruct Hn as [Hc _]. cbn [filter]. unfold tok_op at 1. cbn [r_call]. rewrite Hc.
        exact Hperm.
      + destruct Hn as [_ Hn]. rewrite Hn in Hp.
        eapply pend_upd; eauto.
    - (* an operation linearizes *)
      destruct Ha as (Hn & Hstep & Hd). rewrite Hn in Hp.
      assert (Hcall : tok_op (mkrec (fst e) (c_call c) ret (c_first c) (st_clock s)) = true).
      { unfold tok_op; cbn. inversion Hstep; reflexivity. }
      assert (Hseq' : ab_seq_run b (a_max (b_ctl b))
                                 (rev (map cr ({| g_rec := mkrec (fst e) (c_call c) ret (c_first c)
                                                                  (if d then st_clock s else 0);
                                                  g_lt := st_clock s; g_done := d |} :: g)))
                                 (m' LTok)).
      { cbn [map rev]. eapply ab_seq_run_snoc; [exact Hseq|]. cbn. exact Hstep. }
      assert (Hsort' : StronglySorted (fun x y => y < x) (map g_lt
                         ({| g_rec := mkrec (fst e) (c_call c) ret (c_first c)
                                            (if d then st_clock s else 0);
                             g_lt := st_clock s; g_done := d |} :: g))).
      { cbn [map g_lt]. constructor; [exact Hsort|]. apply gent_ok_lt. exact Hok. }
      destruct d.
      + subst nxt. cbn [nstate]. constructor;
          cbn [cont_state done_state st_mem st_thr st_log st_clock]; auto.
        * constructor; [|exact Hok']. unfold gent_ok; cbn. split; [lia|intros _; lia].
        * unfold mkrec in Hcall. cbn [filter g_done map g_rec]. rewrite Hcall.
          apply perm_skip. exact Hperm.
        * eapply pend_upd; eauto.
      + destruct Hd as [pc' [-> Hpc']]. cbn [nstate]. constructor;
          cbn [cont_state done_state st_mem st_thr st_log st_clock]; auto.
        * constructor; [|exact Hok']. unfold gent_ok; cbn. split; [lia|discriminate].
        * eapply pend_upd; eauto.
          -- intros k Hk. apply push_pend_other; exact Hk.
          -- cbn [filter]. unfold is_pend at 1. cbn [g_done g_rec mkrec r_tid negb andb].
             rewrite Nat.eqb_refl. cbn [map g_rec pend_of th_cur]. rewrite Hp.
             unfold pend_c. cbn [c_pc c_call c_first]. rewrite Hpc'. reflexivity.
    - (* an operation that linearized earlier returns *)
      destruct Ha as (Hm & Hcall & ret & -> & Hn). rewrite Hn in Hp.
      cbn [nstate]. constructor; cbn [cont_state done_state st_mem st_thr st_log st_clock].
      + rewrite finish_cr, Hm. exact Hseq.
      + rewrite finish_lt. exact Hsort.
      + eapply finish_Forall; [apply gent_ok_weaken|apply gent_ok_fin|exact Hok].
      + cbn [filter]. unfold tok_op at 1. cbn [r_call].
        replace (match c_call c with AbMax => false | _ => true end) with true
          by (destruct (c_call c); auto; contradiction).
        eapply perm_trans; [apply finish_perm; exact Hp|]. cbn. apply perm_skip. exact Hperm.
      + eapply pend_upd; eauto.
        * intros k Hk. apply finish_pend_other; exact Hk.
        * cbn [pend_of th_cur]. rewrite (finish_pend_same _ _ _ _ Hp). reflexivity.
  Qed.

  Lemma ginv_step s e g :
    lin_inv s -> tinv s -> ginv s g -> ginv (step P s e) (gstep s e g).
  Proof.
    intros Hi (_ & _ & Ht) Hg. unfold step, step1, gstep.
    destruct (nth_error (st_thr s) (fst e)) as [t|] eqn:Et; [|apply ginv_tick; exact Hg].
    destruct (begin_op P (st_clock s) t) as [[c rest]|] eqn:Eb; [|apply ginv_tick; exact Hg].
    destruct (inv_begin P lin_G lin_L (fun _ => 0) lin_start_ok (fun _ => eq_refl)
                        _ _ _ _ _ Hi Et Eb) as [HL _].
    assert (Hf : c_first c <= st_clock s).
    { pose proof (Forall_nth_error _ _ _ _ Ht Et) as H.
      destruct (begin_op_cases _ _ _ _ _ Eb) as [[Ec _]|[Ec [k [_ Hc]]]]; [auto|subst c; cbn; lia]. }
    pose proof (act_ok_step (st_mem s) (c_call c) (c_pc c) (snd e) HL) as Ha.
    pose proof (ginv_upd s e g t c rest _ _ _ Hg Et Eb Hf Ha) as H.
    cbn [ab_prog p_op p_next].
    destruct (ab_next b (c_pc c) _ _) as [pc'|ret]; cbn [fst]; exact H.
  Qed.

  (* ---- the machine paired with its ghost ---- *)
  Definition pstep (sg : state * list gent) (e : nat * bool) : state * list gent :=
    (step P (fst sg) e, gstep (fst sg) e (snd sg)).

  Lemma states_fst sg sched : map fst (states pstep sg sched) = states (step P) (fst sg) sched.
  Proof.
    revert sg; induction sched as [|e t IH]; intros sg; cbn [states map]; [reflexivity|].
    rewrite IH. reflexivity.
  Qed.

  Definition pinv (sg : state * list gent) : Prop :=
    lin_inv (fst sg) /\ tinv (fst sg) /\ ginv (fst sg) (snd sg).

  Lemma pinv_step sg e : pinv sg -> pinv (pstep sg e).
  Proof.
    intros (Hi & Ht & Hg). split; [|split]; cbn [pstep fst snd].
    - apply lin_inv_step; exact Hi.
    - apply tinv_step; exact Ht.
    - apply ginv_step; assumption.
  Qed.

  Lemma pinv_init progs : pinv (init_state (ab_mem b) progs, []).
  Proof.
    split; [|split]; cbn [fst snd].
    - apply inv_init. unfold lin_G; cbn. apply clampz_bounds; exact Hmm.
    - apply tinv_init.
    - constructor; cbn; try constructor.
      intros k. rewrite nth_error_map. destruct (nth_error progs k); reflexivity.
  Qed.

  Lemma pinv_reach progs sched :
    Forall pinv (states pstep (init_state (ab_mem b) progs, []) sched).
  Proof. apply reach_inv; [apply pinv_init|intros sg e; apply pinv_step]. Qed.

  (* ---- at a quiescent state the ghost list, oldest first, is the linearization ---- *)
  Lemma ginv_quiescent s g :
    ginv s g -> quiescent s ->
    exists lin : list (orec ab_call),
      Permutation lin (filter tok_op (st_log s))
      /\ (forall i j x y, nth_error lin i = Some x -> nth_error lin j = Some y ->
                          r_res x < r_first y -> (i < j)%nat)
      /\ ab_seq_run b (a_max (b_ctl b)) (map (fun r => (r_call r, r_ret r)) lin) (st_mem s LTok).
  Proof.
    intros [Hseq Hsort Hok Hperm Hpend] Hq.
    assert (Hdone : forall x, In x g -> g_done x = true).
    { intros x Hx. destruct (g_done x) eqn:Ed; [reflexivity|exfalso].
      assert (Hin : In x (filter (is_pend (r_tid (g_rec x))) g)).
      { apply filter_In. split; [exact Hx|]. unfold is_pend. rewrite Ed, Nat.eqb_refl. reflexivity. }
      specialize (Hpend (r_tid (g_rec x))).
      assert (Hnil : pend_of (r_tid (g_rec x)) (nth_error (st_thr s) (r_tid (g_rec x))) = []).
      { destruct (nth_error (st_thr s) (r_tid (g_rec x))) as [t|] eqn:Et; [|reflexivity].
        cbn. rewrite (Hq t (nth_error_In _ _ Et)). reflexivity. }
      rewrite Hnil in Hpend. apply map_eq_nil in Hpend. rewrite Hpend in Hin. exact Hin. }
    rewrite (filter_all _ _ Hdone) in Hperm.
    exists (rev (map g_rec g)). split; [|split].
    - eapply perm_trans; [apply Permutation_sym, Permutation_rev|exact Hperm].
    - intros i j a c Ea Ec Hac. rewrite <- map_rev, nth_error_map in Ea, Ec.
      destruct (nth_error (rev g) i) as [x|] eqn:Ex; [|discriminate].
      destruct (nth_error (rev g) j) as [y|] eqn:Ey; [|discriminate].
      cbn in Ea, Ec. inversion Ea; inversion Ec; subst a c; clear Ea Ec.
      rewrite Forall_forall in Hok.
      assert (Hx : In x g) by (apply in_rev; eapply nth_error_In; exact Ex).
      assert (Hy : In y g) by (apply in_rev; eapply nth_error_In; exact Ey).
      destruct (Hok x Hx) as [Hx1 Hx2]. destruct (Hok y Hy) as [Hy1 _].
      specialize (Hx2 (Hdone x Hx)).
      destruct (Nat.lt_ge_cases i j) as [|Hge]; [assumption|exfalso].
      destruct (Nat.eq_dec i j) as [->|Hne].
      + rewrite Ex in Ey. inversion Ey; subst y. lia.
      + apply (map_nth_error g_lt) in Ex. apply (map_nth_error g_lt) in Ey.
        rewrite map_rev in Ex, Ey.
        pose proof (sorted_rev_nth _ _ Hsort i j _ _ Ex Ey) as H. cbn beta in H. lia.
    - rewrite <- map_rev, map_map, map_rev. exact Hseq.
  Qed.
End AimdLin.

(* ------------------------------------------------------------------------- *)
(* non-vacuity: tokens 4, ceiling 4. Thread 0 withdraws four times (granted), then its fifth
   try_withdraw loads 0 tokens (refused: linearized here, instant 8); thread 1 then runs a
   whole deposit (linearized at its compare-exchange on the tokens, instant 11; returns at 13);
   thread 0 finally lowers the ceiling and returns 0 (instant 15). The deposit COMPLETES before
   the refused withdrawal but is LINEARIZED after it (in completion order the withdrawal would
   have found the deposited token). *)
Definition ex_b : bcfg := ab_cfg 1 4 1 1.
Definition ex_progs : list (list ab_call) :=
  [[AbWithdraw; AbWithdraw; AbWithdraw; AbWithdraw; AbWithdraw]; [AbDeposit]].
Definition ex_sched : list (nat * bool) :=
  map (fun t => (t, false)) [0; 0; 0; 0; 0; 0; 0; 0; 0; 1; 1; 1; 1; 1; 0; 0]%nat.
Definition ex_final : state ab_pc ab_call * list gent :=
  fold_left (pstep ex_b (dec_q 1 2)) ex_sched (init_state (ab_mem ex_b) ex_progs, []).

(* (thread, call, return value, first step, response) *)
Definition show (r : orec ab_call) : Z * ab_call * Z * Z * Z :=
  (Z.of_nat (r_tid r), r_call r, r_ret r, r_first r, r_res r).

(* the final state is quiescent; its log (newest first) and memory *)
Example ex_final_state :
  (map (@th_cur _ _) (st_thr (fst ex_final)), map (@th_calls _ _) (st_thr (fst ex_final)),
   map show (st_log (fst ex_final)), st_mem (fst ex_final) LTok, st_mem (fst ex_final) LLim)
  = ([None; None], [[]; []],
     [(0, AbWithdraw, 0, 8, 15); (1, AbDeposit, 2, 9, 13); (0, AbWithdraw, 1, 6, 7);
      (0, AbWithdraw, 1, 4, 5); (0, AbWithdraw, 1, 2, 3); (0, AbWithdraw, 1, 0, 1)],
     1, 2).
Proof. vm_compute. reflexivity. Qed.

(* the ghost list (oldest first) with the linearization instants: the refused withdrawal
   (instant 8) precedes the deposit (instant 11) *)
Example ex_final_ghost :
  map (fun x => (show (g_rec x), g_lt x, g_done x)) (rev (snd ex_final))
  = [((0, AbWithdraw, 1, 0, 1), 1, true); ((0, AbWithdraw, 1, 2, 3), 3, true);
     ((0, AbWithdraw, 1, 4, 5), 5, true); ((0, AbWithdraw, 1, 6, 7), 7, true);
     ((0, AbWithdraw, 0, 8, 15), 8, true); ((1, AbDeposit, 2, 9, 13), 11, true)].
Proof. vm_compute. reflexivity. Qed.

(* it is a sequential run from 4 tokens to the final balance ... *)
Example ex_lin_run :
  ab_seq_run ex_b 4 (map cr (rev (snd ex_final))) (st_mem (fst ex_final) LTok).
Proof.
  vm_compute.
  do 4 (eapply SRcons; [apply SW1; vm_compute; discriminate|]).
  eapply SRcons; [apply SW0; reflexivity|].
  eapply SRcons; [apply (SD ex_b 0 4); vm_compute; split; discriminate|].
  apply SRnil.
Qed.

(* ... whereas the completion order (the reversed log) is not one, whatever ceiling the
   deposit is capped at: the fifth withdrawal would be granted *)
Example ex_completion_order_not_sequential :
  ~ ab_seq_run ex_b 4 (map (fun r => (r_call r, r_ret r)) (rev (st_log (fst ex_final))))
               (st_mem (fst ex_final) LTok).
Proof.
  vm_compute. intros H.
  repeat match goal with
         | H : ab_seq_run _ _ (_ :: _) _ |- _ => inversion H; subst; clear H
         | H : ab_seq_step _ _ _ _ _ |- _ => inversion H; subst; clear H
         end.
  unfold ab_dep, sat_add, U64MAX, ex_b in *. cbn in *. lia.
Qed.

(* ------------------------------------------------------------------------- *)
(* At every quiescent reachable state the completed token operations can be ordered so that
   the order respects real time and is a sequential history of the token balance (with the
   same return values, ending in the current balance). *)
Lemma ab_linearizable :
  forall (min_b max_b amount w : Z) (dec : Z -> Z) (progs : list (list ab_call))
         (sched : list (nat * bool)),
    0 <= min_b <= max_b -> max_b <= U64MAX -> 0 <= amount -> 0 <= w ->
    Forall (fun s =>
              quiescent s ->
              exists lin : list (orec ab_call),
                Permutation lin (filter tok_op (st_log s))
                /\ (forall i j a b, nth_error lin i = Some a -> nth_error lin j = Some b ->
                                    r_res a < r_first b -> (i < j)%nat)
                /\ ab_seq_run (ab_cfg min_b max_b amount w) max_b
                              (map (fun r => (r_call r, r_ret r)) lin) (st_mem s LTok))
           (states (step (ab_prog (ab_cfg min_b max_b amount w) dec))
                   (init_state (ab_mem (ab_cfg min_b max_b amount w)) progs) sched).
Proof.
  intros min_b max_b amount w dec progs sched H1 H2 H3 H4.
  set (b := ab_cfg min_b max_b amount w).
  assert (Hmm : a_min (b_ctl b) <= a_max (b_ctl b)) by (cbn; lia).
  assert (Hu : a_max (b_ctl b) <= U64MAX) by (cbn; lia).
  assert (Hinc : 0 <= a_inc (b_ctl b)) by (cbn; lia).
  pose proof (pinv_reach b dec Hmm Hu Hinc progs sched) as H.
  rewrite Forall_forall in H. apply Forall_forall. intros s Hs.
  pose proof (states_fst b dec (init_state (ab_mem b) progs, []) sched) as E.
  cbn [fst] in E. rewrite <- E in Hs. apply in_map_iff in Hs.
  destruct Hs as [[s' g] [<- Hin]]. destruct (H _ Hin) as (_ & _ & Hg). cbn [fst snd] in *.
  intros Hq. exact (ginv_quiescent b s' g Hg Hq).
Qed.

