(* Proofs for C14 (backoff delays are total, monotone and capped) over Model/Backoff.v.
   (A) AbstractPowi: square-and-multiply is monotone in the exponent over any carrier with a
       transitive order, a monotone product and a unit below the base (G_mono_exp, Gn_mono):
       induction on the binary exponent with the invariant accumulator <= current square, plus
       the carry lemma G_succ for exponents whose binary expansions differ by a carry.
   (B) integer lemmas on round-half-even (rhe): bounds, exact quotients, scaling, monotone.
   (C) Flocq layer. FR x r: x is finite with real value r (mul/add/sub/div/of_Z without overflow).
       NN / V: non-negative extended floats (+0, positive finite, +inf) and their value
       (V +inf = 2^1024); fmul_NN_finite: V(x*y) = min(round(Vx*Vy), 2^1024); class P (>= 1 or
       +inf) with the order ple instantiates (A): powi_mono.
       K: the value as an integer multiple of 2^-1074, tfs_NN: try_from_secs_f64 in terms of K.
   (D) as_secs_f64 is finite, non-negative, below 2^65 (as_secs_core); exponential_interval =
       Rz cap (S * powi m e): Rz_mono, Rz_range, exponential_interval_mono/_range.
   (E) executable well-formedness predicates (wf_dur, wf_mult, wf_factor, wf_cfg, wf_backoff,
       wf_policy), jitter (jitter_ok: random_range cannot panic; dur_sat_mono), the statements
       exported to Props/C14.v, the constructors, Examples (non-vacuity, upstream reproducers).
   (F) relative error of the binary64 product against the real product (RE, G_RE,
       real_error_partial). *)
From Flocq Require Import Core Relative IEEE754.BinarySingleNaN IEEE754.Binary IEEE754.Bits.
From Coq Require Import Reals Lra Lia ZArith PArith NArith.
From TR Require Import Lib.Base Model.Backoff.

(* ---------- (A) ---------- *)
Section AbstractPowi.
  Context {T : Type} (le : T -> T -> Prop) (op : T -> T -> T) (one : T).
  Context (le_trans : forall x y z, le x y -> le y z -> le x z).
  Context (le_refl_r : forall x y, le x y -> le y y).
  Context (op_mono : forall x x' y y', le x x' -> le y y' -> le (op x y) (op x' y')).
  Context (one_l : forall x, le one x -> le x (op one x)).
  Context (one_r : forall x, le one x -> le x (op x one)).

  Fixpoint G (r a : T) (p : positive) : T :=
    match p with
    | xH => op r a
    | xO q => G r (op a a) q
    | xI q => G (op r a) (op a a) q
    end.

  Let ge1 x := le one x.
  Let rf x (H : ge1 x) : le x x := le_refl_r _ _ H.

  Lemma op_ge_r x y : ge1 x -> ge1 y -> le y (op x y).
  Proof.
    intros Hx Hy. apply le_trans with (op one y).
    - apply one_l, Hy.
    - apply op_mono; [exact Hx | apply rf, Hy].
  Qed.
  Lemma op_ge_l x y : ge1 x -> ge1 y -> le x (op x y).
  Proof.
    intros Hx Hy. apply le_trans with (op x one).
    - apply one_r, Hx.
    - apply op_mono; [apply rf, Hx | exact Hy].
  Qed.
  Lemma op_ge1 x y : ge1 x -> ge1 y -> ge1 (op x y).
  Proof. intros Hx Hy. eapply le_trans; [exact Hy | apply op_ge_r; assumption]. Qed.

  Lemma G_ge_base p : forall r a, ge1 r -> ge1 a -> le a (G r a p).
  Proof.
    induction p as [q IH|q IH|]; intros r a Hr Ha; cbn [G].
    - eapply le_trans; [apply (op_ge_r a a Ha Ha)|].
      apply IH; apply op_ge1; assumption.
    - eapply le_trans; [apply (op_ge_r a a Ha Ha)|].
      apply IH; [assumption | apply op_ge1; assumption].
    - apply op_ge_r; assumption.
  Qed.

  Lemma G_ge_acc p : forall r a, ge1 r -> ge1 a -> le r (G r a p).
  Proof.
    induction p as [q IH|q IH|]; intros r a Hr Ha; cbn [G].
    - eapply le_trans; [apply (op_ge_l r a Hr Ha)|].
      apply IH; apply op_ge1; assumption.
    - apply IH; [assumption | apply op_ge1; assumption].
    - apply op_ge_l; assumption.
  Qed.

  Lemma G_mono_acc p : forall r r' a, le r r' -> ge1 a -> le (G r a p) (G r' a p).
  Proof.
    induction p as [q IH|q IH|]; intros r r' a Hr Ha; cbn [G].
    - apply IH; [apply op_mono; [exact Hr | apply rf, Ha] | apply op_ge1; assumption].
    - apply IH; [exact Hr | apply op_ge1; assumption].
    - apply op_mono; [exact Hr | apply rf, Ha].
  Qed.

  (* carry: s <= a -> G s a p <= G 1 a (p+1) *)
  Lemma G_succ p : forall s a, ge1 s -> ge1 a -> le s a -> le (G s a p) (G one a (Pos.succ p)).
  Proof.
    induction p as [q IH|q IH|]; intros s a Hs Ha Hsa; cbn [G Pos.succ].
    - apply IH.
      + apply op_ge1; assumption.
      + apply op_ge1; assumption.
      + apply op_mono; [exact Hsa | apply rf, Ha].
    - apply G_mono_acc.
      + eapply le_trans; [exact Hsa | apply one_l, Ha].
      + apply op_ge1; assumption.
    - apply le_trans with (op a a).
      + apply op_mono; [exact Hsa | apply rf, Ha].
      + apply one_l. apply op_ge1; assumption.
  Qed.

  Theorem G_mono_exp : forall b a r r' base,
    ge1 one -> ge1 base -> ge1 r -> le r r' -> le r' base -> (a <= b)%positive ->
    le (G r base a) (G r' base b).
  Proof.
    induction b as [q IH|q IH|]; intros a r r' base H1 Hb Hr Hrr Hrb Hab;
      assert (Hr' : ge1 r') by (eapply le_trans; eassumption);
      assert (Hsq : ge1 (op base base)) by (apply op_ge1; assumption);
      assert (Hbsq : le base (op base base)) by (apply op_ge_r; assumption);
      destruct a as [p|p|]; cbn [G].
    - (* xI p <= xI q *)
      apply IH; try assumption; try lia.
      + apply op_ge1; assumption.
      + apply op_mono; [exact Hrr | apply rf, Hb].
      + apply op_mono; [exact Hrb | apply rf, Hb].
    - (* xO p <= xI q *)
      apply IH; try assumption; try lia.
      + eapply le_trans; [exact Hrr | apply op_ge_l; assumption].
      + apply op_mono; [exact Hrb | apply rf, Hb].
    - (* xH <= xI q *)
      apply le_trans with (op base base).
      + apply op_mono; [eapply le_trans; eassumption | apply rf, Hb].
      + apply G_ge_base; [apply op_ge1; assumption | assumption].
    - (* xI p <= xO q : p < q *)
      apply le_trans with (G one (op base base) (Pos.succ p)).
      + apply G_succ; [apply op_ge1; assumption | assumption |].
        apply op_mono; [eapply le_trans; eassumption | apply rf, Hb].
      + apply IH; try assumption; try lia.
        * eapply le_trans; eassumption.
    - (* xO p <= xO q *)
      apply IH; try assumption; try lia.
      + eapply le_trans; eassumption.
    - (* xH <= xO q *)
      apply le_trans with (op base base).
      + apply op_mono; [eapply le_trans; eassumption | apply rf, Hb].
      + apply G_ge_base; assumption.
    - lia.
    - lia.
    - apply op_mono; [exact Hrr | apply rf, Hb].
  Qed.

  Definition Gn (a : T) (n : N) : T := match n with N0 => one | Npos p => G one a p end.

  Theorem Gn_mono : forall a n m, ge1 one -> ge1 a -> (n <= m)%N -> le (Gn a n) (Gn a m).
  Proof.
    intros a n m H1 Ha Hnm. destruct n as [|p], m as [|q]; cbn [Gn].
    - exact H1.
    - apply G_ge_acc; assumption.
    - lia.
    - apply G_mono_exp; try assumption; try lia.
  Qed.
End AbstractPowi.

(* ---------- (B) ---------- *)
Local Open Scope Z_scope.
Lemma rhe_bounds n d : 0 < d -> n / d <= rhe n d <= n / d + 1.
Proof.
  intros Hd. unfold rhe. destruct (2 * (n mod d) ?= d); [destruct (Z.even (n / d))|..]; lia.
Qed.

Lemma rhe_exact q d : 0 < d -> rhe (q * d) d = q.
Proof.
  intros Hd. unfold rhe. rewrite Z.div_mul by lia. rewrite Z.mod_mul by lia.
  destruct (2 * 0 ?= d) eqn:E; try reflexivity.
  - apply Z.compare_eq in E. lia.
  - apply Z.compare_gt_iff in E. lia.
Qed.

Lemma rhe_scale n d c : 0 < d -> 0 < c -> rhe (n * c) (d * c) = rhe n d.
Proof.
  intros Hd Hc. unfold rhe.
  rewrite Z.div_mul_cancel_r by lia.
  rewrite Z.mul_mod_distr_r by lia.
  replace (2 * (n mod d * c)) with (2 * (n mod d) * c) by ring.
  rewrite <- Zmult_compare_compat_r by lia. reflexivity.
Qed.

Lemma rhe_mono n1 n2 d : 0 < d -> n1 <= n2 -> rhe n1 d <= rhe n2 d.
Proof.
  intros Hd Hn.
  pose proof (Z.div_le_mono n1 n2 d Hd Hn) as Hq.
  destruct (Z.eq_dec (n1 / d) (n2 / d)) as [E|E].
  - (* same quotient: remainders ordered *)
    assert (Hr : n1 mod d <= n2 mod d).
    { pose proof (Z.div_mod n1 d ltac:(lia)). pose proof (Z.div_mod n2 d ltac:(lia)). rewrite E in *. nia. }
    unfold rhe. rewrite E.
    destruct (Z.compare_spec (2 * (n1 mod d)) d); destruct (Z.compare_spec (2 * (n2 mod d)) d);
      destruct (Z.even (n2 / d)); lia.
  - pose proof (rhe_bounds n1 d Hd). pose proof (rhe_bounds n2 d Hd). lia.
Qed.

Lemma rhe_nonneg n d : 0 < d -> 0 <= n -> 0 <= rhe n d.
Proof.
  intros Hd Hn. pose proof (rhe_bounds n d Hd). pose proof (Z.div_pos n d Hn Hd). lia.
Qed.

(* ---------- (C) ---------- *)
Local Open Scope R_scope.

Local Instance prec53 : Prec_gt_0 53 := eq_refl.
Local Instance prec_lt_emax : Prec_lt_emax 53 1024 := eq_refl.
Notation fexp64 := (SpecFloat.fexp 53 1024).
Local Instance fexp64_valid : Valid_exp fexp64 := FLT_exp_valid (3 - 1024 - 53) 53.
Local Instance fexp64_mono : Monotone_exp fexp64 := FLT_exp_monotone (3 - 1024 - 53) 53.
Notation rnd := (round radix2 fexp64 ZnearestE).
Notation B2R64 := (Binary.B2R 53 1024).
Notation finite64 := (Binary.is_finite 53 1024).
Notation sign64 := (Binary.Bsign 53 1024).
Notation OMEGA := (bpow radix2 1024).

Lemma rnd_le x y : x <= y -> rnd x <= rnd y.
Proof. apply round_le; auto with typeclass_instances. Qed.
Lemma rnd_bpow e : (-1074 <= e)%Z -> rnd (bpow radix2 e) = bpow radix2 e.
Proof.
  intros H. apply round_generic; auto with typeclass_instances.
  apply generic_format_bpow. unfold SpecFloat.fexp, SpecFloat.emin. lia.
Qed.
Lemma rnd_0 : rnd 0 = 0.
Proof. apply round_0; auto with typeclass_instances. Qed.
Lemma rnd_ge_0 x : 0 <= x -> 0 <= rnd x.
Proof. intros H. rewrite <- rnd_0. apply rnd_le, H. Qed.
Lemma rnd_B2R (x : f64) : rnd (B2R64 x) = B2R64 x.
Proof. apply round_generic; auto with typeclass_instances. apply generic_format_B2R. Qed.
Lemma rnd_small x e : (-1074 <= e)%Z -> (e < 1024)%Z -> Rabs x <= bpow radix2 e -> Rabs (rnd x) < OMEGA.
Proof.
  intros He1 He2 Hx.
  apply Rle_lt_trans with (bpow radix2 e); [|apply bpow_lt; lia].
  apply abs_round_le_generic; auto with typeclass_instances.
  apply generic_format_bpow. unfold SpecFloat.fexp, SpecFloat.emin. lia.
Qed.

Lemma fmul_eq x y : fmul x y = Bmult 53 1024 prec53 prec_lt_emax binop_nan_pl64 mode_NE x y.
Proof. reflexivity. Qed.
Lemma fadd_eq x y : fadd x y = Bplus 53 1024 prec53 prec_lt_emax binop_nan_pl64 mode_NE x y.
Proof. reflexivity. Qed.
Lemma fsub_eq x y : fsub x y = Bminus 53 1024 prec53 prec_lt_emax binop_nan_pl64 mode_NE x y.
Proof. reflexivity. Qed.
Lemma fdiv_eq x y : fdiv x y = Bdiv 53 1024 prec53 prec_lt_emax binop_nan_pl64 mode_NE x y.
Proof. reflexivity. Qed.
Lemma of_Z_eq z : of_Z z = binary_normalize 53 1024 prec53 prec_lt_emax mode_NE z 0 false.
Proof. reflexivity. Qed.

(* finite with real value r *)
Definition FR (x : f64) (r : R) : Prop := finite64 x = true /\ B2R64 x = r.

Lemma FR_mul x y a b : FR x a -> FR y b -> Rabs (a * b) <= bpow radix2 1023 ->
  FR (fmul x y) (rnd (a * b)).
Proof.
  intros [Fx Hx] [Fy Hy] Hb. rewrite fmul_eq.
  generalize (Bmult_correct 53 1024 prec53 prec_lt_emax binop_nan_pl64 mode_NE x y).
  rewrite Hx, Hy. cbn [round_mode].
  rewrite Rlt_bool_true by (apply rnd_small with 1023%Z; [lia|lia|exact Hb]).
  intros (H1 & H2 & _). split; [|exact H1].
  rewrite H2, Fx, Fy. reflexivity.
Qed.

Lemma FR_add x y a b : FR x a -> FR y b -> Rabs (a + b) <= bpow radix2 1023 ->
  FR (fadd x y) (rnd (a + b)).
Proof.
  intros [Fx Hx] [Fy Hy] Hb. rewrite fadd_eq.
  generalize (Bplus_correct 53 1024 prec53 prec_lt_emax binop_nan_pl64 mode_NE x y Fx Fy).
  rewrite Hx, Hy. cbn [round_mode].
  rewrite Rlt_bool_true by (apply rnd_small with 1023%Z; [lia|lia|exact Hb]).
  intros (H1 & H2 & _). split; assumption.
Qed.

Lemma FR_sub x y a b : FR x a -> FR y b -> Rabs (a - b) <= bpow radix2 1023 ->
  FR (fsub x y) (rnd (a - b)).
Proof.
  intros [Fx Hx] [Fy Hy] Hb. rewrite fsub_eq.
  generalize (Bminus_correct 53 1024 prec53 prec_lt_emax binop_nan_pl64 mode_NE x y Fx Fy).
  rewrite Hx, Hy. cbn [round_mode].
  rewrite Rlt_bool_true by (apply rnd_small with 1023%Z; [lia|lia|exact Hb]).
  intros (H1 & H2 & _). split; assumption.
Qed.

Lemma FR_div x y a b : FR x a -> FR y b -> b <> 0 -> Rabs (a / b) <= bpow radix2 1023 ->
  FR (fdiv x y) (rnd (a / b)).
Proof.
  intros [Fx Hx] [Fy Hy] Hb0 Hb. rewrite fdiv_eq.
  assert (Hy0 : B2R64 y <> 0) by (rewrite Hy; exact Hb0).
  generalize (Bdiv_correct 53 1024 prec53 prec_lt_emax binop_nan_pl64 mode_NE x y Hy0).
  rewrite Hx, Hy. cbn [round_mode].
  rewrite Rlt_bool_true by (apply rnd_small with 1023%Z; [lia|lia|exact Hb]).
  intros (H1 & H2 & _). split; [rewrite H2; exact Fx | exact H1].
Qed.

Lemma FR_of_Z z : (Z.abs z <= 2 ^ 1023)%Z -> FR (of_Z z) (rnd (IZR z)).
Proof.
  intros Hz. rewrite of_Z_eq.
  generalize (binary_normalize_correct 53 1024 prec53 prec_lt_emax mode_NE z 0 false).
  assert (E : F2R (Float radix2 z 0) = IZR z) by (unfold F2R; simpl; lra).
  rewrite E. cbn [round_mode].
  rewrite Rlt_bool_true.
  - intros (H1 & H2 & _). split; assumption.
  - apply rnd_small with 1023%Z; [lia|lia|].
    rewrite <- abs_IZR. change (bpow radix2 1023) with (IZR (2 ^ 1023)). apply IZR_le, Hz.
Qed.

(* ---------- non-negative extended floats ---------- *)
Definition pinf : f64 := B754_infinity 53 1024 false.
Definition NN (x : f64) : Prop :=
  match x with
  | B754_zero _ _ false => True
  | B754_finite _ _ false _ _ _ => True
  | B754_infinity _ _ false => True
  | _ => False
  end.
Definition V (x : f64) : R :=
  match x with B754_infinity _ _ _ => OMEGA | _ => B2R64 x end.

Lemma NN_sign x : NN x -> sign64 x = false.
Proof. destruct x as [[]|[]|[]|[]]; simpl; tauto. Qed.
Lemma NN_of_finite x : finite64 x = true -> sign64 x = false -> NN x.
Proof. destruct x as [[]|[]|[]|[]]; simpl; try discriminate; tauto. Qed.
Lemma V_finite x : finite64 x = true -> V x = B2R64 x.
Proof. destruct x; simpl; try discriminate; reflexivity. Qed.
Lemma B2R_lt_omega x : Rabs (B2R64 x) < OMEGA.
Proof. apply abs_B2R_lt_emax. Qed.
Lemma NN_V_ge0 x : NN x -> 0 <= V x.
Proof.
  destruct x as [[]|[]|[]|[] m e H]; simpl; try tauto; intros _; try lra.
  apply Rlt_le, F2R_gt_0. reflexivity.
Qed.
Lemma NN_V_le_omega x : NN x -> V x <= OMEGA.
Proof.
  intros H. destruct (finite64 x) eqn:F.
  - rewrite V_finite by exact F. generalize (B2R_lt_omega x). intros H1.
    apply Rabs_lt_inv in H1. lra.
  - destruct x; simpl in *; try discriminate; try tauto. lra.
Qed.
Lemma NN_finite_or_inf x : NN x -> finite64 x = true \/ x = pinf.
Proof. destruct x as [[]|[]|[]|[]]; simpl; try tauto. Qed.

Lemma fmul_NN_finite x y : NN x -> NN y -> finite64 x = true -> finite64 y = true ->
  NN (fmul x y) /\ V (fmul x y) = Rmin (rnd (V x * V y)) OMEGA.
Proof.
  intros Nx Ny Fx Fy. rewrite (V_finite x Fx), (V_finite y Fy).
  assert (H0 : 0 <= rnd (B2R64 x * B2R64 y)).
  { apply rnd_ge_0. apply Rmult_le_pos; rewrite <- V_finite by assumption; apply NN_V_ge0; assumption. }
  rewrite fmul_eq.
  generalize (Bmult_correct 53 1024 prec53 prec_lt_emax binop_nan_pl64 mode_NE x y).
  cbn [round_mode]. rewrite (Rabs_pos_eq _ H0).
  rewrite (NN_sign x Nx), (NN_sign y Ny). cbn [xorb].
  destruct (Rlt_bool_spec (rnd (B2R64 x * B2R64 y)) OMEGA) as [Hlt|Hge].
  - intros (H1 & H2 & H3). rewrite Fx, Fy in H2. cbn [andb] in H2.
    assert (Hn : Binary.is_nan 53 1024 (Bmult 53 1024 prec53 prec_lt_emax binop_nan_pl64 mode_NE x y) = false).
    { destruct (Bmult 53 1024 prec53 prec_lt_emax binop_nan_pl64 mode_NE x y); simpl in *; try discriminate; reflexivity. }
    split.
    + apply NN_of_finite; [exact H2 | exact (H3 Hn)].
    + rewrite V_finite by exact H2. rewrite H1. rewrite Rmin_left; lra.
  - intros H. cbn in H.
    destruct (Bmult 53 1024 prec53 prec_lt_emax binop_nan_pl64 mode_NE x y) as [s|s|s pl Hpl|s m e Hb];
      simpl in H; try discriminate.
    injection H as ->. split; [exact I|]. unfold V. rewrite Rmin_right; lra.
Qed.

Lemma fmul_inf_l y : NN y -> 0 < V y -> fmul pinf y = pinf.
Proof.
  destruct y as [[]|[]|[]|[] m e H]; simpl; try tauto; intros _ Hy; try lra; reflexivity.
Qed.
Lemma fmul_inf_r x : NN x -> 0 < V x -> fmul x pinf = pinf.
Proof.
  destruct x as [[]|[]|[]|[] m e H]; simpl; try tauto; intros _ Hy; try lra; reflexivity.
Qed.

(* ---------- the class P: >= 1 or +inf ---------- *)
Definition P (x : f64) : Prop := NN x /\ 1 <= V x.
Definition ple (x y : f64) : Prop := P x /\ P y /\ V x <= V y.

Lemma rnd_1 : rnd 1 = 1.
Proof. change 1 with (bpow radix2 0). apply rnd_bpow. lia. Qed.
Lemma rnd_omega : rnd OMEGA = OMEGA.
Proof. apply rnd_bpow. lia. Qed.
Lemma rnd_V x : NN x -> rnd (V x) = V x.
Proof.
  intros H. destruct (NN_finite_or_inf x H) as [F| ->].
  - rewrite V_finite by exact F. apply rnd_B2R.
  - apply rnd_omega.
Qed.

Lemma fmul_P x y : P x -> P y ->
  P (fmul x y) /\ V (fmul x y) = Rmin (rnd (V x * V y)) OMEGA.
Proof.
  intros [Nx Hx] [Ny Hy].
  assert (Hxy : 1 <= V x * V y) by nra.
  assert (Hr : 1 <= rnd (V x * V y)) by (rewrite <- rnd_1; apply rnd_le, Hxy).
  assert (HO : 1 <= OMEGA) by (change 1 with (bpow radix2 0); apply bpow_le; lia).
  destruct (NN_finite_or_inf x Nx) as [Fx| ->]; destruct (NN_finite_or_inf y Ny) as [Fy| ->].
  - destruct (fmul_NN_finite x y Nx Ny Fx Fy) as [N E]. split; [split; [exact N|]|exact E].
    rewrite E. apply Rmin_glb; assumption.
  - rewrite fmul_inf_r by (try assumption; lra).
    split; [split; [exact I | exact HO]|].
    rewrite Rmin_right; [reflexivity|]. rewrite <- rnd_omega at 1. apply rnd_le.
    change (V pinf) with OMEGA. nra.
  - rewrite fmul_inf_l by (try assumption; lra).
    split; [split; [exact I | exact HO]|].
    rewrite Rmin_right; [reflexivity|]. rewrite <- rnd_omega at 1. apply rnd_le.
    change (V pinf) with OMEGA. nra.
  - split; [split; [exact I | exact HO]|].
    change (fmul pinf pinf) with pinf. 
    rewrite Rmin_right; [reflexivity|]. rewrite <- rnd_omega at 1. apply rnd_le.
    change (V pinf) with OMEGA. nra.
Qed.

Lemma ple_trans x y z : ple x y -> ple y z -> ple x z.
Proof. intros (A & B & C) (D & E & F). split; [exact A|split; [exact E|lra]]. Qed.
Lemma ple_refl_r x y : ple x y -> ple y y.
Proof. intros (A & B & C). split; [exact B|split; [exact B|lra]]. Qed.
Lemma ple_mul_mono x x' y y' : ple x x' -> ple y y' -> ple (fmul x y) (fmul x' y').
Proof.
  intros (Px & Px' & Hx) (Py & Py' & Hy).
  destruct (fmul_P x y Px Py) as [P1 E1]. destruct (fmul_P x' y' Px' Py') as [P2 E2].
  split; [exact P1|split; [exact P2|]]. rewrite E1, E2.
  apply Rle_min_compat_r. apply rnd_le.
  destruct Px as [_ ?], Py as [_ ?]. apply Rmult_le_compat; lra.
Qed.

Lemma FR_fone : FR fone 1.
Proof. unfold fone. rewrite <- rnd_1. apply (FR_of_Z 1). simpl. lia. Qed.
Lemma NN_fone : NN fone.
Proof. vm_compute. exact I. Qed.
Lemma V_fone : V fone = 1.
Proof. destruct FR_fone as [F E]. rewrite V_finite by exact F. exact E. Qed.
Lemma P_fone : P fone.
Proof. split; [exact NN_fone | rewrite V_fone; lra]. Qed.

Lemma ple_one_l x : ple fone x -> ple x (fmul fone x).
Proof.
  intros (P1 & Px & H). destruct (fmul_P fone x P1 Px) as [Pm E].
  split; [exact Px|split; [exact Pm|]]. rewrite E, V_fone, Rmult_1_l.
  rewrite rnd_V by apply Px. rewrite Rmin_left; [lra|]. apply NN_V_le_omega, Px.
Qed.
Lemma ple_one_r x : ple fone x -> ple x (fmul x fone).
Proof.
  intros (P1 & Px & H). destruct (fmul_P x fone Px P1) as [Pm E].
  split; [exact Px|split; [exact Pm|]]. rewrite E, V_fone, Rmult_1_r.
  rewrite rnd_V by apply Px. rewrite Rmin_left; [lra|]. apply NN_V_le_omega, Px.
Qed.

(* ---------- powi ---------- *)
Lemma powi_pos_G p : forall r a, powi_pos r a p = G fmul r a p.
Proof. induction p as [q IH|q IH|]; intros r a; cbn [powi_pos G]; try rewrite IH; reflexivity. Qed.
Lemma powi_Gn a n : powi a n = Gn fmul fone a n.
Proof. destruct n; cbn [powi Gn]; [reflexivity | apply powi_pos_G]. Qed.

Lemma ple_fone_fone : ple fone fone.
Proof. split; [exact P_fone|split; [exact P_fone|lra]]. Qed.

Theorem powi_mono m a b : P m -> (a <= b)%N -> ple (powi m a) (powi m b).
Proof.
  intros Pm Hab. rewrite !powi_Gn.
  apply (Gn_mono ple fmul fone ple_trans ple_refl_r ple_mul_mono ple_one_l ple_one_r).
  - exact ple_fone_fone.
  - split; [exact P_fone|split; [exact Pm|]]. rewrite V_fone. apply Pm.
  - exact Hab.
Qed.

(* ---------- integer key: value in units of 2^-1074 ---------- *)
Local Open Scope Z_scope.
Definition K (x : f64) : Z :=
  match x with
  | B754_finite _ _ false m e _ => Zpos m * 2 ^ (e + 1074)
  | B754_infinity _ _ false => 2 ^ 2098
  | _ => 0
  end.

Lemma bounded_facts m e : SpecFloat.bounded 53 1024 m e = true -> -1074 <= e <= 971 /\ Zpos m < 2 ^ 53.
Proof.
  unfold SpecFloat.bounded, SpecFloat.canonical_mantissa. intros H.
  apply andb_prop in H. destruct H as [H1 H2].
  apply Zeq_bool_eq in H1. apply Zle_bool_imp_le in H2.
  unfold SpecFloat.fexp, SpecFloat.emin in H1.
  rewrite Digits.Zpos_digits2_pos in H1.
  split; [lia|].
  assert (Hd : Digits.Zdigits radix2 (Zpos m) <= 53) by lia.
  pose proof (Digits.Zdigits_correct radix2 (Zpos m)) as [_ Hu].
  rewrite Z.abs_eq in Hu by lia.
  eapply Z.lt_le_trans; [exact Hu|].
  change (Zpower radix2 (Digits.Zdigits radix2 (Z.pos m))) with (2 ^ Digits.Zdigits radix2 (Z.pos m)).
  apply Z.pow_le_mono_r; lia.
Qed.

Lemma K_nonneg x : 0 <= K x.
Proof.
  destruct x as [s|[]|s pl Hpl|[] m e H]; unfold K; try lia;
    try (apply Z.pow_nonneg; lia); try (apply Z.mul_nonneg_nonneg; [lia|apply Z.pow_nonneg; lia]).
Qed.

Lemma V_K x : NN x -> V x = (IZR (K x) * bpow radix2 (-1074))%R.
Proof.
  destruct x as [[]|[]|[]|[] m e H]; unfold NN; intros HN; try (exfalso; exact HN); clear HN.
  - simpl. lra.
  - unfold V, K. change (IZR (2 ^ 2098)) with (bpow radix2 2098). rewrite <- bpow_plus. reflexivity.
  - destruct (bounded_facts m e H) as [He _].
    unfold V, K, Binary.B2R, F2R. cbn [cond_Zopp Fnum Fexp].
    rewrite mult_IZR.
    replace (IZR (2 ^ (e + 1074))) with (bpow radix2 (e + 1074)).
    2:{ rewrite <- IZR_Zpower by lia. reflexivity. }
    rewrite Rmult_assoc, <- bpow_plus. f_equal. f_equal. lia.
Qed.

Lemma V_le_K x y : NN x -> NN y -> (V x <= V y)%R -> K x <= K y.
Proof.
  intros Nx Ny H. rewrite (V_K x Nx), (V_K y Ny) in H.
  apply le_IZR. apply Rmult_le_reg_r in H; [exact H | apply bpow_gt_0].
Qed.
Lemma K_le_V x y : NN x -> NN y -> K x <= K y -> (V x <= V y)%R.
Proof.
  intros Nx Ny H. rewrite (V_K x Nx), (V_K y Ny).
  apply Rmult_le_compat_r; [apply bpow_ge_0 | apply IZR_le, H].
Qed.

(* try_from_secs_f64 on non-negative values, in terms of the key *)
Lemma tfs_NN x : NN x ->
  try_from_secs_f64 x =
    if 2 ^ 1138 <=? K x then None else Some (rhe (K x * NANOS) (2 ^ 1074)).
Proof.
  assert (H1074 : 0 < 2 ^ 1074) by (apply Z.pow_pos_nonneg; lia).
  destruct x as [[]|[]|[]|[] m e H]; unfold NN; intros HN; try (exfalso; exact HN); clear HN.
  - (* +0 *)
    unfold try_from_secs_f64, K. 
    destruct (2 ^ 1138 <=? 0) eqn:E; [apply Z.leb_le in E; exfalso; revert E; apply Z.lt_nge, Z.pow_pos_nonneg; lia|].
    change (0 * NANOS) with (0 * 2 ^ 1074). rewrite (rhe_exact 0) by exact H1074. reflexivity.
  - (* +inf *)
    unfold try_from_secs_f64, K.
    destruct (2 ^ 1138 <=? 2 ^ 2098) eqn:E; [reflexivity|].
    apply Z.leb_gt in E. exfalso. revert E. apply Z.le_ngt. apply Z.pow_le_mono_r; lia.
  - destruct (bounded_facts m e H) as [He Hm].
    unfold try_from_secs_f64, K.
    destruct (0 <=? e) eqn:E0.
    + apply Z.leb_le in E0.
      replace (2 ^ (e + 1074)) with (2 ^ e * 2 ^ 1074) by (rewrite Z.pow_add_r; lia).
      assert (Eq : (2 ^ 64 <=? Z.pos m * 2 ^ e) = (2 ^ 1138 <=? Z.pos m * (2 ^ e * 2 ^ 1074))).
      { replace (2 ^ 1138) with (2 ^ 64 * 2 ^ 1074) by (rewrite <- Z.pow_add_r; [reflexivity|lia|lia]).
        rewrite Z.mul_assoc.
        destruct (2 ^ 64 <=? Z.pos m * 2 ^ e) eqn:A; symmetry.
        - apply Z.leb_le in A. apply Z.leb_le. apply Z.mul_le_mono_nonneg_r; lia.
        - apply Z.leb_gt in A. apply Z.leb_gt. apply Z.mul_lt_mono_pos_r; lia. }
      rewrite <- Eq. destruct (2 ^ 64 <=? Z.pos m * 2 ^ e); [reflexivity|].
      f_equal. replace (Z.pos m * (2 ^ e * 2 ^ 1074) * NANOS) with (Z.pos m * 2 ^ e * NANOS * 2 ^ 1074) by ring.
      rewrite rhe_exact by exact H1074. reflexivity.
    + apply Z.leb_gt in E0.
      assert (Hp : 0 < 2 ^ (e + 1074)) by (apply Z.pow_pos_nonneg; lia).
      assert (Hq : 0 < 2 ^ (- e)) by (apply Z.pow_pos_nonneg; lia).
      destruct (2 ^ 1138 <=? Z.pos m * 2 ^ (e + 1074)) eqn:A.
      * exfalso. apply Z.leb_le in A.
        assert (Z.pos m * 2 ^ (e + 1074) < 2 ^ 53 * 2 ^ 1074).
        { apply Z.mul_lt_mono_nonneg; try lia. apply Z.pow_lt_mono_r; lia. }
        rewrite <- Z.pow_add_r in H0 by lia.
        assert (2 ^ (53 + 1074) <= 2 ^ 1138) by (apply Z.pow_le_mono_r; lia). lia.
      * f_equal.
        replace (2 ^ 1074) with (2 ^ (- e) * 2 ^ (e + 1074)) by (rewrite <- Z.pow_add_r by lia; f_equal; lia).
        replace (Z.pos m * 2 ^ (e + 1074) * NANOS) with (Z.pos m * NANOS * 2 ^ (e + 1074)) by ring.
        rewrite rhe_scale by assumption. reflexivity.
Qed.

(* ---------- Duration::as_secs_f64 ---------- *)
Local Open Scope R_scope.
Lemma rnd_IZR_bounds z k : (0 <= z <= 2 ^ k)%Z -> (0 <= k <= 1023)%Z ->
  0 <= rnd (IZR z) <= bpow radix2 k.
Proof.
  intros Hz Hk. split.
  - apply rnd_ge_0. apply IZR_le. lia.
  - rewrite <- (rnd_bpow k) by lia. apply rnd_le.
    rewrite <- IZR_Zpower by lia. apply IZR_le. exact (proj2 Hz).
Qed.

Lemma DUR_MAX_div d : (0 <= d <= DUR_MAX)%Z -> (0 <= d / NANOS <= 2 ^ 64)%Z /\ (0 <= d mod NANOS <= 2 ^ 30)%Z.
Proof.
  intros Hd. unfold DUR_MAX, NANOS in *. split.
  - split; [apply Z.div_pos; lia|].
    apply Z.div_le_upper_bound; lia.
  - pose proof (Z.mod_pos_bound d 1000000000 ltac:(lia)). change (2 ^ 30)%Z with 1073741824%Z. lia.
Qed.

Lemma as_secs_core d : (0 <= d <= DUR_MAX)%Z ->
  exists s, FR (as_secs_f64 d) s /\ 0 <= s <= bpow radix2 65 /\
            ((1 <= d)%Z -> bpow radix2 (-30) <= s).
Proof.
  intros Hd. destruct (DUR_MAX_div d Hd) as [Hs Hn].
  unfold as_secs_f64.
  assert (Z1023 : forall k z, (0 <= z <= 2 ^ k)%Z -> (0 <= k <= 1023)%Z -> (Z.abs z <= 2 ^ 1023)%Z).
  { intros k z Hz Hk. rewrite Z.abs_eq by lia. apply Z.le_trans with (2 ^ k)%Z; [lia|]. apply Z.pow_le_mono_r; lia. }
  pose proof (FR_of_Z (d / NANOS) (Z1023 64%Z _ Hs ltac:(lia))) as FA.
  pose proof (FR_of_Z (d mod NANOS) (Z1023 30%Z _ Hn ltac:(lia))) as FB.
  assert (HN : (0 <= NANOS <= 2 ^ 30)%Z) by (unfold NANOS; change (2 ^ 30)%Z with 1073741824%Z; lia).
  pose proof (FR_of_Z NANOS (Z1023 30%Z _ HN ltac:(lia))) as FC.
  pose proof (rnd_IZR_bounds _ 64 Hs ltac:(lia)) as Ba.
  pose proof (rnd_IZR_bounds _ 30 Hn ltac:(lia)) as Bb.
  set (a := rnd (IZR (d / NANOS))) in *.
  set (b := rnd (IZR (d mod NANOS))) in *.
  set (c := rnd (IZR NANOS)) in *.
  assert (Hbc : b <= c).
  { apply rnd_le, IZR_le. pose proof (Z.mod_pos_bound d NANOS ltac:(unfold NANOS; lia)). lia. }
  assert (Hc : 1 <= c).
  { unfold c. rewrite <- rnd_1. apply rnd_le. apply (IZR_le 1). unfold NANOS. lia. }
  assert (Hq : 0 <= b / c <= 1).
  { split; [apply Rmult_le_pos; [lra|apply Rlt_le, Rinv_0_lt_compat; lra]|].
    apply Rmult_le_reg_r with c; [lra|]. unfold Rdiv. rewrite Rmult_assoc, Rinv_l by lra. lra. }
  assert (FQ : FR (fdiv (of_Z (d mod NANOS)) (of_Z NANOS)) (rnd (b / c))).
  { apply FR_div; try assumption; [lra|]. rewrite Rabs_pos_eq by lra.
    apply Rle_trans with 1; [lra|]. change 1 with (bpow radix2 0). apply bpow_le. lia. }
  assert (Bq : 0 <= rnd (b / c) <= 1).
  { split; [apply rnd_ge_0; lra|]. rewrite <- rnd_1. apply rnd_le; lra. }
  set (q := rnd (b / c)) in *.
  assert (B64 : bpow radix2 64 + 1 <= bpow radix2 65).
  { change (bpow radix2 65) with (bpow radix2 (64 + 1)). rewrite bpow_plus. 
    assert (1 <= bpow radix2 64) by (change 1 with (bpow radix2 0); apply bpow_le; lia).
    change (bpow radix2 1) with 2. lra. }
  exists (rnd (a + q)). split.
  - apply FR_add; try assumption. rewrite Rabs_pos_eq by lra.
    apply Rle_trans with (bpow radix2 65); [lra|]. apply bpow_le. lia.
  - split; [split; [apply rnd_ge_0; lra|]; rewrite <- (rnd_bpow 65) by lia; apply rnd_le; lra|].
    intros Hd1. rewrite <- (rnd_bpow (-30)) by lia. apply rnd_le.
    assert (Hm30 : bpow radix2 (-30) <= 1) by (change 1 with (bpow radix2 0); apply bpow_le; lia).
    destruct (Z_lt_le_dec (d / NANOS) 1) as [Hq0|Hq1].
    + (* whole seconds = 0: at least one nanosecond *)
      assert (Hr1 : (1 <= d mod NANOS)%Z).
      { pose proof (Z.div_mod d NANOS ltac:(unfold NANOS; lia)). 
        assert (d / NANOS = 0)%Z by lia. lia. }
      assert (Hb1 : 1 <= b) by (unfold b; rewrite <- rnd_1; apply rnd_le; apply (IZR_le 1); exact Hr1).
      assert (Hc30 : c <= bpow radix2 30) by (apply (rnd_IZR_bounds NANOS 30 HN); lia).
      assert (Hbc30 : bpow radix2 (-30) <= b / c).
      { change (-30)%Z with (- (30))%Z. rewrite bpow_opp.
        assert (0 < bpow radix2 30) by apply bpow_gt_0.
        apply Rle_trans with (1 / c).
        - unfold Rdiv. rewrite Rmult_1_l. apply Rinv_le_contravar; lra.
        - unfold Rdiv. apply Rmult_le_compat_r; [apply Rlt_le, Rinv_0_lt_compat; lra|lra]. }
      assert (bpow radix2 (-30) <= q).
      { unfold q. rewrite <- (rnd_bpow (-30)) by lia. apply rnd_le. exact Hbc30. }
      lra.
    + assert (1 <= a) by (unfold a; rewrite <- rnd_1; apply rnd_le; apply (IZR_le 1); lia). lra.
Qed.

Lemma as_secs_FR d : (0 <= d <= DUR_MAX)%Z ->
  exists s, FR (as_secs_f64 d) s /\ 0 <= s <= bpow radix2 65.
Proof.
  intros Hd. destruct (as_secs_core d Hd) as (s & F & B & _). exists s. split; assumption.
Qed.

(* ---------- exponential_interval ---------- *)
Local Open Scope Z_scope.
Definition cap_of (max : option Z) : Z := match max with Some c => c | None => DUR_MAX end.
(* what exponential_interval does with the f64 product *)
Definition Rz (cap : Z) (z : f64) : Z :=
  if negb (fgt z fzero) then 0
  else match try_from_secs_f64 z with Some d => Z.min d cap | None => cap end.

Lemma exponential_interval_Rz ini m a max :
  exponential_interval ini m a max =
    Rz (cap_of max) (fmul (as_secs_f64 ini) (powi m (N.min a I32_MAX))).
Proof. reflexivity. Qed.

Lemma fgt_NN z : NN z -> fgt z fzero = (0 <? K z).
Proof.
  destruct z as [[]|[]|[]|[] m e H]; unfold NN; intros HN; try (exfalso; exact HN); clear HN.
  - reflexivity.
  - unfold K. symmetry. apply Z.ltb_lt. apply Z.pow_pos_nonneg; lia.
  - destruct (bounded_facts m e H) as [He _]. unfold K.
    transitivity true; [reflexivity|]. symmetry. apply Z.ltb_lt.
    apply Z.mul_pos_pos; [lia|apply Z.pow_pos_nonneg; lia].
Qed.

Lemma Rz_NN cap z : NN z ->
  Rz cap z = if 0 <? K z then
               (if 2 ^ 1138 <=? K z then cap else Z.min (rhe (K z * NANOS) (2 ^ 1074)) cap)
             else 0.
Proof.
  intros N. unfold Rz. rewrite (fgt_NN z N), (tfs_NN z N).
  destruct (0 <? K z); cbn [negb]; [|reflexivity].
  destruct (2 ^ 1138 <=? K z); reflexivity.
Qed.

Lemma pow1074 : 0 < 2 ^ 1074.
Proof. apply Z.pow_pos_nonneg; lia. Qed.

Lemma Rz_range cap z : 0 <= cap -> NN z -> 0 <= Rz cap z <= cap.
Proof.
  intros Hc N. rewrite (Rz_NN cap z N).
  destruct (0 <? K z) eqn:E; [|lia]. apply Z.ltb_lt in E.
  destruct (2 ^ 1138 <=? K z); [lia|].
  pose proof (rhe_nonneg (K z * NANOS) (2 ^ 1074) pow1074 ltac:(unfold NANOS; lia)). lia.
Qed.

Lemma Rz_mono cap z z' : 0 <= cap -> NN z -> NN z' -> K z <= K z' -> Rz cap z <= Rz cap z'.
Proof.
  intros Hc N N' HK. pose proof (Rz_range cap z' Hc N') as R'.
  rewrite (Rz_NN cap z N). rewrite (Rz_NN cap z' N') in *.
  destruct (0 <? K z) eqn:E; [|lia]. apply Z.ltb_lt in E.
  destruct (0 <? K z') eqn:E'; [|apply Z.ltb_ge in E'; lia].
  destruct (2 ^ 1138 <=? K z) eqn:F.
  - apply Z.leb_le in F. destruct (2 ^ 1138 <=? K z') eqn:F'; [lia|apply Z.leb_gt in F'; lia].
  - destruct (2 ^ 1138 <=? K z') eqn:F'; [lia|].
    apply Z.min_le_compat_r. apply rhe_mono; [exact pow1074|]. unfold NANOS. lia.
Qed.

(* a zero first factor: the product is 0, -0 or NaN, and the zero branch is taken *)
Lemma FR_zero_cases S : FR S 0%R -> exists s, S = B754_zero 53 1024 s.
Proof.
  intros [F E]. destruct S as [s|s|s pl Hpl|s m e H]; try discriminate.
  - exists s. reflexivity.
  - exfalso. simpl in E. destruct s.
    + apply (Rlt_irrefl 0). rewrite <- E at 1. apply F2R_lt_0. reflexivity.
    + apply (Rlt_irrefl 0). rewrite <- E at 2. apply F2R_gt_0. reflexivity.
Qed.
Lemma Rz_zero cap S y : FR S 0%R -> Rz cap (fmul S y) = 0.
Proof.
  intros H. destruct (FR_zero_cases S H) as [s ->].
  unfold Rz. destruct y as [sy|sy|sy pl Hpl|sy m e Hb]; destruct s, sy; reflexivity.
Qed.

Lemma FR_pos_NN x r : FR x r -> (0 < r)%R -> NN x.
Proof.
  intros [F E] Hr. destruct x as [s|s|s pl Hpl|[] m e H]; try discriminate.
  - simpl in E. lra.
  - exfalso. simpl in E. apply (Rlt_irrefl 0). apply Rlt_trans with r; [exact Hr|].
    rewrite <- E. apply F2R_lt_0. reflexivity.
  - exact I.
Qed.

Lemma V_lt_omega_finite y : NN y -> (V y < OMEGA)%R -> finite64 y = true.
Proof.
  intros N H. destruct (NN_finite_or_inf y N) as [F| ->]; [exact F|].
  exfalso. unfold V, pinf in H. lra.
Qed.

Lemma fmul_S_mono S y y' : NN S -> finite64 S = true -> (0 < V S)%R -> ple y y' ->
  NN (fmul S y) /\ NN (fmul S y') /\ (V (fmul S y) <= V (fmul S y'))%R.
Proof.
  intros NS FS HS ([Ny Hy] & [Ny' Hy'] & Hyy).
  assert (Hone : forall t, NN t -> (1 <= V t)%R -> NN (fmul S t)).
  { intros t Nt Ht. destruct (NN_finite_or_inf t Nt) as [Ft| ->].
    - apply fmul_NN_finite; assumption.
    - rewrite fmul_inf_r by assumption. exact I. }
  split; [apply Hone; assumption|]. split; [apply Hone; assumption|].
  destruct (NN_finite_or_inf y' Ny') as [Fy'| ->].
  - assert (Fy : finite64 y = true).
    { apply V_lt_omega_finite; [exact Ny|]. eapply Rle_lt_trans; [exact Hyy|].
      rewrite V_finite by exact Fy'. generalize (B2R_lt_omega y'). intros A. apply Rabs_lt_inv in A. lra. }
    destruct (fmul_NN_finite S y NS Ny FS Fy) as [_ E1].
    destruct (fmul_NN_finite S y' NS Ny' FS Fy') as [_ E2].
    rewrite E1, E2. apply Rle_min_compat_r, rnd_le. apply Rmult_le_compat_l; lra.
  - rewrite (fmul_inf_r S NS HS). apply NN_V_le_omega. apply Hone; assumption.
Qed.

Lemma N_min_mono a b c : (a <= b)%N -> (N.min a c <= N.min b c)%N.
Proof. lia. Qed.

Theorem exponential_interval_mono ini m max a b :
  0 <= ini <= DUR_MAX -> P m -> 0 <= cap_of max -> (a <= b)%N ->
  exponential_interval ini m a max <= exponential_interval ini m b max.
Proof.
  intros Hi Pm Hc Hab. rewrite !exponential_interval_Rz.
  destruct (as_secs_FR ini Hi) as (s & FS & Hs0 & _).
  pose proof (powi_mono m _ _ Pm (N_min_mono a b I32_MAX Hab)) as Hp.
  destruct (Req_dec s 0) as [->|Hs].
  - rewrite !Rz_zero by exact FS. lia.
  - assert (Hpos : (0 < s)%R) by lra.
    pose proof (FR_pos_NN _ _ FS Hpos) as NS. destruct FS as [F E].
    assert (HV : (0 < V (as_secs_f64 ini))%R) by (rewrite V_finite by exact F; rewrite E; exact Hpos).
    destruct (fmul_S_mono _ _ _ NS F HV Hp) as (N1 & N2 & HVV).
    apply Rz_mono; try assumption. apply V_le_K; assumption.
Qed.

Theorem exponential_interval_range ini m max a :
  0 <= ini <= DUR_MAX -> P m -> 0 <= cap_of max ->
  0 <= exponential_interval ini m a max <= cap_of max.
Proof.
  intros Hi Pm Hc. rewrite exponential_interval_Rz.
  destruct (as_secs_FR ini Hi) as (s & FS & Hs0 & _).
  destruct (Req_dec s 0) as [->|Hs].
  - rewrite Rz_zero by exact FS. lia.
  - assert (Hpos : (0 < s)%R) by lra.
    pose proof (FR_pos_NN _ _ FS Hpos) as NS. destruct FS as [F E].
    assert (HV : (0 < V (as_secs_f64 ini))%R) by (rewrite V_finite by exact F; rewrite E; exact Hpos).
    pose proof (powi_mono m _ _ Pm (N.le_refl (N.min a I32_MAX))) as Hp.
    destruct (fmul_S_mono _ _ _ NS F HV Hp) as (N1 & _ & _).
    apply Rz_range; assumption.
Qed.

(* ---------- comparisons on finite values ---------- *)
Lemma FR_self x : finite64 x = true -> FR x (B2R64 x).
Proof. intros F. split; [exact F|reflexivity]. Qed.

Lemma fle_FR x y a b : FR x a -> FR y b -> fle x y = true <-> (a <= b)%R.
Proof.
  intros [Fx Ex] [Fy Ey]. unfold fle, b64_compare.
  rewrite (Bcompare_correct 53 1024 x y Fx Fy), Ex, Ey.
  destruct (Rcompare_spec a b); split; intros; try lra; try discriminate; reflexivity.
Qed.
Lemma flt_FR x y a b : FR x a -> FR y b -> flt x y = true <-> (a < b)%R.
Proof.
  intros [Fx Ex] [Fy Ey]. unfold flt, b64_compare.
  rewrite (Bcompare_correct 53 1024 x y Fx Fy), Ex, Ey.
  destruct (Rcompare_spec a b); split; intros; try lra; try discriminate; reflexivity.
Qed.

Lemma fle_finite_mid lo x hi :
  finite64 lo = true -> finite64 hi = true -> fle lo x = true -> fle x hi = true -> finite64 x = true.
Proof.
  intros Fl Fh H1 H2. destruct x as [s|s|s pl Hpl|s m e H]; try reflexivity; exfalso.
  - destruct s.
    + destruct lo as [sl|sl|sl pll Hl|sl ml el Hl]; try discriminate; destruct sl; discriminate.
    + destruct hi as [sl|sl|sl pll Hl|sl ml el Hl]; try discriminate; destruct sl; discriminate.
  - discriminate.
Qed.

(* ---------- well-formed configurations (executable) ---------- *)
Definition wf_dur (d : Z) : bool := (0 <=? d) && (d <=? DUR_MAX).
Definition wf_mult (m : f64) : bool := fis_finite m && fle fone m.
Definition wf_factor (f : f64) : bool := fle fzero f && fle f fone.
Definition wf_cfg (c : cfg) : bool :=
  wf_dur (initial c) && wf_mult (multiplier c) && wf_factor (factor c) &&
  match max_interval c with Some k => wf_dur k | None => true end.

Lemma wf_dur_spec d : wf_dur d = true -> 0 <= d <= DUR_MAX.
Proof. unfold wf_dur. intros H. apply andb_prop in H. destruct H as [A B]. apply Z.leb_le in A, B. lia. Qed.

Lemma wf_mult_P m : wf_mult m = true -> P m.
Proof.
  unfold wf_mult, fis_finite. intros H. apply andb_prop in H. destruct H as [F L].
  apply (fle_FR fone m 1%R (B2R64 m) FR_fone (FR_self m F)) in L.
  assert (N : NN m) by (apply (FR_pos_NN m (B2R64 m) (FR_self m F)); lra).
  split; [exact N|]. rewrite V_finite by exact F. exact L.
Qed.

Lemma FR_fzero : FR fzero 0%R.
Proof. split; reflexivity. Qed.

Lemma wf_factor_FR f : wf_factor f = true -> exists phi, FR f phi /\ (0 <= phi <= 1)%R.
Proof.
  unfold wf_factor. intros H. apply andb_prop in H. destruct H as [A B].
  assert (F : finite64 f = true).
  { apply (fle_finite_mid fzero f fone); try assumption; [reflexivity | apply FR_fone]. }
  exists (B2R64 f). split; [apply FR_self, F|].
  apply (fle_FR fzero f 0%R (B2R64 f) FR_fzero (FR_self f F)) in A.
  apply (fle_FR f fone (B2R64 f) 1%R (FR_self f F) FR_fone) in B. lra.
Qed.

Lemma wf_cfg_spec c : wf_cfg c = true ->
  0 <= initial c <= DUR_MAX /\ P (multiplier c) /\ wf_factor (factor c) = true /\
  0 <= cap_of (max_interval c) <= DUR_MAX.
Proof.
  unfold wf_cfg. intros H.
  apply andb_prop in H. destruct H as [H H4]. apply andb_prop in H. destruct H as [H H3].
  apply andb_prop in H. destruct H as [H1 H2].
  split; [apply wf_dur_spec, H1|]. split; [apply wf_mult_P, H2|]. split; [exact H3|].
  destruct (max_interval c) as [k|]; cbn [cap_of].
  - apply wf_dur_spec, H4.
  - unfold DUR_MAX, NANOS. lia.
Qed.

(* ---------- jitter ---------- *)
Local Open Scope R_scope.
Lemma bpow_le_1023 k x : (k <= 1023)%Z -> Rabs x <= bpow radix2 k -> Rabs x <= bpow radix2 1023.
Proof. intros Hk H. eapply Rle_trans; [exact H|]. apply bpow_le, Hk. Qed.

Lemma jitter_ok d f : (0 <= d <= DUR_MAX)%Z -> wf_factor f = true ->
  exists l h, FR (jitter_lo d f) l /\ FR (jitter_hi d f) h /\ 0 <= l <= h /\
              range_ok (jitter_lo d f) (jitter_hi d f) = true.
Proof.
  intros Hd Hf. destruct (as_secs_FR d Hd) as (s & FS & Hs0 & Hs1).
  destruct (wf_factor_FR f Hf) as (phi & Ff & Hphi).
  assert (Rs : rnd s = s) by (destruct FS as [_ <-]; apply rnd_B2R).
  assert (B66 : bpow radix2 65 + bpow radix2 65 = bpow radix2 66).
  { change (bpow radix2 66) with (bpow radix2 (65 + 1)). rewrite bpow_plus. change (bpow radix2 1) with 2. lra. }
  assert (Hsp : 0 <= s * phi <= s) by nra.
  assert (FD : FR (fmul (as_secs_f64 d) f) (rnd (s * phi))).
  { apply FR_mul; try assumption. apply bpow_le_1023 with 65%Z; [lia|]. rewrite Rabs_pos_eq; lra. }
  assert (Hdl : 0 <= rnd (s * phi) <= s).
  { split; [apply rnd_ge_0; lra|]. apply Rle_trans with (rnd s); [apply rnd_le; lra | rewrite Rs; lra]. }
  set (dl := rnd (s * phi)) in *.
  assert (FL : FR (jitter_lo d f) (rnd (s - dl))).
  { unfold jitter_lo. apply FR_sub; try assumption. apply bpow_le_1023 with 65%Z; [lia|]. rewrite Rabs_pos_eq; lra. }
  assert (FH : FR (jitter_hi d f) (rnd (s + dl))).
  { unfold jitter_hi. apply FR_add; try assumption. apply bpow_le_1023 with 66%Z; [lia|]. rewrite Rabs_pos_eq; lra. }
  assert (Hl : 0 <= rnd (s - dl) <= s).
  { split; [apply rnd_ge_0; lra|]. apply Rle_trans with (rnd s); [apply rnd_le; lra | rewrite Rs; lra]. }
  assert (Hh : s <= rnd (s + dl) <= bpow radix2 66).
  { split; [apply Rle_trans with (rnd s); [rewrite Rs; lra | apply rnd_le; lra]|]. rewrite <- (rnd_bpow 66) by lia. apply rnd_le; lra. }
  exists (rnd (s - dl)), (rnd (s + dl)). split; [exact FL|]. split; [exact FH|]. split; [lra|].
  unfold range_ok. apply andb_true_intro. split.
  - apply (fle_FR _ _ _ _ FL FH). lra.
  - assert (FD2 : FR (fsub (jitter_hi d f) (jitter_lo d f)) (rnd (rnd (s + dl) - rnd (s - dl)))).
    { apply FR_sub; try assumption. apply bpow_le_1023 with 66%Z; [lia|]. rewrite Rabs_pos_eq; lra. }
    apply FD2.
Qed.

(* ---------- dur_sat: Duration::try_from_secs_f64(x.max(0.0)).unwrap_or(Duration::MAX) ---------- *)
Local Open Scope Z_scope.
Lemma tfs_le_max x d : NN x -> try_from_secs_f64 x = Some d -> 0 <= d <= DUR_MAX.
Proof.
  destruct x as [[]|[]|[]|[] m e H]; unfold NN; intros HN; try (exfalso; exact HN); clear HN;
    unfold try_from_secs_f64.
  - intros [= <-]. unfold DUR_MAX, NANOS. lia.
  - discriminate.
  - destruct (bounded_facts m e H) as [He Hm].
    destruct (0 <=? e) eqn:E0.
    + apply Z.leb_le in E0. destruct (2 ^ 64 <=? Z.pos m * 2 ^ e) eqn:A; [discriminate|].
      apply Z.leb_gt in A. intros Hd.
      assert (Ed : d = Z.pos m * 2 ^ e * NANOS) by congruence. clear Hd. subst d.
      assert (Hx : 0 <= Z.pos m * 2 ^ e) by (apply Z.mul_nonneg_nonneg; [lia|apply Z.pow_nonneg; lia]).
      remember (Z.pos m * 2 ^ e) as x. clear Heqx.
      change (2 ^ 64) with 18446744073709551616 in A.
      unfold DUR_MAX, NANOS. change (2 ^ 64) with 18446744073709551616. lia.
    + apply Z.leb_gt in E0. intros Hd.
      assert (Ed : d = rhe (Z.pos m * NANOS) (2 ^ (- e))) by congruence. clear Hd. subst d.
      assert (Hq : 0 < 2 ^ (- e)) by (apply Z.pow_pos_nonneg; lia).
      pose proof (rhe_bounds (Z.pos m * NANOS) (2 ^ (- e)) Hq) as [B1 B2].
      assert (B3 : 0 <= Z.pos m * NANOS / 2 ^ (- e)) by (apply Z.div_pos; unfold NANOS; lia).
      assert (B4 : Z.pos m * NANOS / 2 ^ (- e) <= Z.pos m * NANOS).
      { apply Z.div_le_upper_bound; [exact Hq|].
        assert (0 <= Z.pos m * NANOS) by (unfold NANOS; lia). nia. }
      change (2 ^ 53) with 9007199254740992 in Hm.
      remember (rhe (Z.pos m * NANOS) (2 ^ (- e))) as r. remember (Z.pos m * NANOS / 2 ^ (- e)) as q.
      unfold DUR_MAX. change (2 ^ 64) with 18446744073709551616. unfold NANOS in *. lia.
Qed.

Lemma dur_sat_cases x a : FR x a ->
  ((a <= 0)%R /\ dur_sat x = 0) \/
  ((0 < a)%R /\ NN x /\
   dur_sat x = match try_from_secs_f64 x with Some d => d | None => DUR_MAX end).
Proof.
  intros Fx. destruct (Rlt_le_dec 0 a) as [Hpos|Hle].
  - right. split; [exact Hpos|]. pose proof (FR_pos_NN x a Fx Hpos) as N. split; [exact N|].
    unfold dur_sat, fmax.
    assert (E1 : fis_nan x = false) by (destruct Fx as [F _]; destruct x; try discriminate; reflexivity).
    rewrite E1. change (fis_nan fzero) with false. cbv iota.
    assert (E2 : flt x fzero = false).
    { destruct (flt x fzero) eqn:E; [|reflexivity]. apply (flt_FR x fzero a 0%R Fx FR_fzero) in E. lra. }
    rewrite E2. reflexivity.
  - left. split; [exact Hle|]. destruct (Req_dec a 0) as [->|Hne].
    + destruct (FR_zero_cases x Fx) as [s ->]. destruct s; reflexivity.
    + unfold dur_sat, fmax.
      assert (E1 : fis_nan x = false) by (destruct Fx as [F _]; destruct x; try discriminate; reflexivity).
      rewrite E1. change (fis_nan fzero) with false. cbv iota.
      assert (E2 : flt x fzero = true) by (apply (flt_FR x fzero a 0%R Fx FR_fzero); lra).
      rewrite E2. reflexivity.
Qed.

Lemma dur_sat_range x a : FR x a -> 0 <= dur_sat x <= DUR_MAX.
Proof.
  intros Fx. destruct (dur_sat_cases x a Fx) as [[_ ->]|(_ & N & ->)].
  - unfold DUR_MAX, NANOS. lia.
  - destruct (try_from_secs_f64 x) as [d|] eqn:E.
    + apply (tfs_le_max x d N E).
    + unfold DUR_MAX, NANOS. lia.
Qed.

Lemma dur_sat_mono x y a b : FR x a -> FR y b -> (a <= b)%R -> dur_sat x <= dur_sat y.
Proof.
  intros Fx Fy Hab. pose proof (dur_sat_range y b Fy) as Ry.
  destruct (dur_sat_cases x a Fx) as [[_ ->]|(Ha & Nx & Ex)]; [lia|].
  destruct (dur_sat_cases y b Fy) as [[Hb _]|(Hb & Ny & Ey)]; [lra|].
  assert (HK : K x <= K y).
  { apply V_le_K; try assumption. destruct Fx as [F1 E1], Fy as [F2 E2].
    rewrite !V_finite by assumption. lra. }
  rewrite Ex, Ey in *. clear Ex Ey.
  destruct (try_from_secs_f64 x) as [dx|] eqn:Tx.
  - pose proof (tfs_le_max x dx Nx Tx) as Rx.
    rewrite (tfs_NN x Nx) in Tx. rewrite (tfs_NN y Ny) in *.
    destruct (2 ^ 1138 <=? K x) eqn:A; [discriminate|]. injection Tx as <-.
    destruct (2 ^ 1138 <=? K y) eqn:B; [lia|].
    apply rhe_mono; [exact pow1074|]. unfold NANOS. lia.
  - rewrite (tfs_NN x Nx) in Tx. rewrite (tfs_NN y Ny).
    destruct (2 ^ 1138 <=? K x) eqn:A; [|discriminate]. apply Z.leb_le in A.
    destruct (2 ^ 1138 <=? K y) eqn:B; [lia|]. apply Z.leb_gt in B. lia.
Qed.

(* ---------- the statements of Props/C14.v ---------- *)
Definition base_of (c : cfg) (a : N) : Z :=
  exponential_interval (initial c) (multiplier c) a (max_interval c).
Definition wf_backoff (b : backoff) : bool :=
  match b with
  | Fixed d => wf_dur d
  | Exponential c => wf_cfg c
  | ExponentialRandom c => wf_cfg c
  | FnInterval _ => true
  end.
Definition wf_policy (p : reconnect_policy) : bool :=
  match p with
  | PNone => true
  | PFixed d => wf_dur d
  | PExponential c => wf_cfg c
  | PExponentialRandom c => wf_cfg c
  | PCustom _ => true
  end.
(* the draw is what random_range(lo..=hi) may return *)
Definition draw_in_range (c : cfg) (a : N) (draw : f64) : bool :=
  fle (jitter_lo (base_of c a) (factor c)) draw && fle draw (jitter_hi (base_of c a) (factor c)).

Lemma base_range c a : wf_cfg c = true ->
  0 <= base_of c a <= cap_of (max_interval c) /\ cap_of (max_interval c) <= DUR_MAX.
Proof.
  intros W. destruct (wf_cfg_spec c W) as (Hi & Pm & _ & Hc).
  split; [apply exponential_interval_range; try assumption; lia | lia].
Qed.

Lemma randomize_total c a draw : wf_cfg c = true ->
  randomize (factor c) (base_of c a) draw = Some (dur_sat draw).
Proof.
  intros W. destruct (wf_cfg_spec c W) as (_ & _ & Hf & _).
  destruct (base_range c a W) as [Hb Hc].
  destruct (jitter_ok (base_of c a) (factor c) ltac:(lia) Hf) as (l & h & _ & _ & _ & R).
  unfold randomize. rewrite R. reflexivity.
Qed.

Lemma next_interval_random c a draw :
  next_interval (ExponentialRandom c) a draw = randomize (factor c) (base_of c a) draw.
Proof. reflexivity. Qed.
Lemma next_interval_exp c a draw : next_interval (Exponential c) a draw = Some (base_of c a).
Proof. reflexivity. Qed.
Lemma delay_exp c a draw : delay_for_attempt (PExponential c) a draw = Some (Some (base_of c a)).
Proof. reflexivity. Qed.
Lemma delay_random c a draw : delay_for_attempt (PExponentialRandom c) a draw =
  option_map Some (randomize (factor c) (base_of c a) draw).
Proof. reflexivity. Qed.
Lemma base_mono c a b : wf_cfg c = true -> (a <= b)%N -> base_of c a <= base_of c b.
Proof.
  intros W Hab. destruct (wf_cfg_spec c W) as (Hi & Pm & _ & Hc).
  apply exponential_interval_mono; try assumption. lia.
Qed.

Theorem total_backoff b a draw : wf_backoff b = true ->
  exists d, next_interval b a draw = Some d /\ next_backoff b a draw = Some d.
Proof.
  intros W. destruct b as [d|c|c|f]; cbn [next_backoff next_interval].
  - exists d. split; reflexivity.
  - eexists. split; reflexivity.
  - exists (dur_sat draw). cbn [wf_backoff] in W.
    fold (base_of c a). split; apply randomize_total; exact W.
  - eexists. split; reflexivity.
Qed.

Theorem total_policy p a draw : wf_policy p = true ->
  exists r, delay_for_attempt p a draw = Some r /\ (r = None <-> p = PNone).
Proof.
  intros W. destruct p as [|d|c|c|f]; cbn [delay_for_attempt next_interval option_map].
  - exists None. split; [reflexivity|tauto].
  - exists (Some d). split; [reflexivity|]. split; discriminate.
  - eexists. split; [reflexivity|]. split; discriminate.
  - cbn [wf_policy] in W. fold (base_of c a).
    rewrite (randomize_total c a draw W). cbn [option_map].
    eexists. split; [reflexivity|]. split; discriminate.
  - eexists. split; [reflexivity|]. split; discriminate.
Qed.

Theorem capped c a draw : wf_cfg c = true ->
  exists d, next_interval (Exponential c) a draw = Some d /\ 0 <= d <= DUR_MAX /\
            (forall k, max_interval c = Some k -> d <= k).
Proof.
  intros W. exists (base_of c a). split; [apply next_interval_exp|].
  destruct (base_range c a W) as [Hb Hc]. split; [lia|].
  intros k Hk. rewrite Hk in Hb. cbn [cap_of] in Hb. lia.
Qed.

Lemma draw_in_range_eq c a draw : draw_in_range c a draw =
  fle (jitter_lo (base_of c a) (factor c)) draw && fle draw (jitter_hi (base_of c a) (factor c)).
Proof. reflexivity. Qed.

Lemma draw_FR c a draw : wf_cfg c = true -> draw_in_range c a draw = true ->
  exists l h x, FR (jitter_lo (base_of c a) (factor c)) l /\ FR (jitter_hi (base_of c a) (factor c)) h /\
                FR draw x /\ (l <= x <= h)%R.
Proof.
  intros W D. destruct (wf_cfg_spec c W) as (_ & _ & Hf & _).
  destruct (base_range c a W) as [Hb Hc].
  assert (Hd : 0 <= base_of c a <= DUR_MAX) by lia.
  destruct (jitter_ok (base_of c a) (factor c) Hd Hf) as (l & h & FL & FH & Hlh & R).
  rewrite draw_in_range_eq in D. apply andb_prop in D. destruct D as [D1 D2].
  assert (Fd : finite64 draw = true).
  { destruct FL as [F1 _], FH as [F2 _]. exact (fle_finite_mid _ draw _ F1 F2 D1 D2). }
  pose proof (FR_self draw Fd) as FD.
  apply (fle_FR _ _ _ _ FL FD) in D1. apply (fle_FR _ _ _ _ FD FH) in D2.
  exists l, h, (B2R64 draw). split; [exact FL|]. split; [exact FH|]. split; [exact FD|]. split; assumption.
Qed.

Theorem jitter_within_factor c a draw : wf_cfg c = true ->
  draw_in_range c a draw = true ->
  exists r, next_interval (ExponentialRandom c) a draw = Some r /\
            dur_sat (jitter_lo (base_of c a) (factor c)) <= r /\
            r <= dur_sat (jitter_hi (base_of c a) (factor c)) /\
            0 <= r <= DUR_MAX.
Proof.
  intros W D. destruct (draw_FR c a draw W D) as (l & h & x & FL & FH & FD & D1 & D2).
  exists (dur_sat draw). split; [rewrite next_interval_random; apply randomize_total; exact W|].
  split; [apply (dur_sat_mono _ _ _ _ FL FD D1)|].
  split; [apply (dur_sat_mono _ _ _ _ FD FH D2)|].
  apply (dur_sat_range draw _ FD).
Qed.

Theorem capped_jittered c a draw : wf_cfg c = true ->
  draw_in_range c a draw = true ->
  exists r, next_interval (ExponentialRandom c) a draw = Some r /\
            (forall k, max_interval c = Some k -> 0 <= base_of c a <= k) /\
            0 <= r <= dur_sat (jitter_hi (base_of c a) (factor c)) /\
            dur_sat (jitter_hi (base_of c a) (factor c)) <= DUR_MAX.
Proof.
  intros W D. destruct (jitter_within_factor c a draw W D) as (r & E & _ & Hr & Hr0).
  exists r. split; [exact E|]. split.
  - intros k Hk. destruct (base_range c a W) as [Hb _]. rewrite Hk in Hb. exact Hb.
  - split; [lia|].
    destruct (wf_cfg_spec c W) as (_ & _ & Hf & _). destruct (base_range c a W) as [Hb Hc].
    destruct (jitter_ok (base_of c a) (factor c) ltac:(lia) Hf) as (l & h & _ & FH & _ & _).
    apply (dur_sat_range _ _ FH).
Qed.

Theorem monotone c a b draw : wf_cfg c = true -> (a <= b)%N ->
  exists da db, next_interval (Exponential c) a draw = Some da /\
                next_interval (Exponential c) b draw = Some db /\ da <= db.
Proof.
  intros W Hab. exists (base_of c a), (base_of c b).
  split; [apply next_interval_exp|]. split; [apply next_interval_exp|].
  apply base_mono; assumption.
Qed.

Theorem exact_below_cap ini m a max :
  let secs := fmul (as_secs_f64 ini) (powi m (N.min a I32_MAX)) in
  (fgt secs fzero = false -> exponential_interval ini m a max = 0) /\
  (fgt secs fzero = true ->
     forall d, try_from_secs_f64 secs = Some d -> d <= cap_of max ->
     exponential_interval ini m a max = d) /\
  (fgt secs fzero = true ->
     (try_from_secs_f64 secs = None \/ exists d, try_from_secs_f64 secs = Some d /\ cap_of max <= d) ->
     exponential_interval ini m a max = cap_of max).
Proof.
  intros secs. rewrite exponential_interval_Rz. fold secs. unfold Rz.
  split; [intros ->; reflexivity|]. split.
  - intros -> d -> Hd. cbn [negb]. lia.
  - intros -> [->|(d & -> & Hd)]; cbn [negb]; [reflexivity|lia].
Qed.

Theorem reconnect_policies p a b draw : wf_policy p = true -> (a <= b)%N ->
  match p with
  | PNone => delay_for_attempt p a draw = Some None
  | PFixed d => delay_for_attempt p a draw = Some (Some d) /\ delay_for_attempt p b draw = Some (Some d)
  | PExponential c =>
      exists da db, delay_for_attempt p a draw = Some (Some da) /\
                    delay_for_attempt p b draw = Some (Some db) /\
                    0 <= da <= db /\ db <= cap_of (max_interval c) <= DUR_MAX
  | PExponentialRandom c =>
      exists r, delay_for_attempt p a draw = Some (Some r) /\
                0 <= base_of c a <= base_of c b /\ base_of c b <= cap_of (max_interval c) <= DUR_MAX /\
                (draw_in_range c a draw = true ->
                   dur_sat (jitter_lo (base_of c a) (factor c)) <= r
                   <= dur_sat (jitter_hi (base_of c a) (factor c)))
  | PCustom f => delay_for_attempt p a draw = Some (Some (f a))
  end.
Proof.
  intros W Hab. destruct p as [|d|c|c|f]; cbn [wf_policy] in W.
  - reflexivity.
  - split; reflexivity.
  - exists (base_of c a), (base_of c b). split; [apply delay_exp|]. split; [apply delay_exp|].
    pose proof (base_mono c a b W Hab) as Hle.
    destruct (base_range c a W) as [Ra _]. destruct (base_range c b W) as [Rb Rc]. lia.
  - exists (dur_sat draw). split.
    { rewrite delay_random, (randomize_total c a draw W). reflexivity. }
    pose proof (base_mono c a b W Hab) as Hle.
    destruct (base_range c a W) as [Ra _]. destruct (base_range c b W) as [Rb Rc].
    split; [lia|]. split; [lia|].
    intros D. destruct (jitter_within_factor c a draw W D) as (r & E & H1 & H2 & _).
    rewrite next_interval_random, (randomize_total c a draw W) in E.
    assert (Er : r = dur_sat draw) by congruence. subst r. lia.
  - reflexivity.
Qed.

(* ---------- the public constructors produce well-formed configurations ---------- *)
Lemma compare_not_nan x y : fis_nan x = false -> fis_nan y = false ->
  exists c, b64_compare x y = Some c.
Proof.
  unfold fis_nan, b64_compare. intros Hx Hy.
  destruct x as [sx|sx|sx px Hpx|sx mx ex Hbx]; try discriminate;
    destruct y as [sy|sy|sy py Hpy|sy my ey Hby]; try discriminate;
    try (destruct sx, sy; eexists; reflexivity);
    try (destruct sx; eexists; reflexivity);
    try (destruct sy; eexists; reflexivity).
Qed.

Lemma wf_factor_fzero : wf_factor fzero = true.
Proof. vm_compute. reflexivity. Qed.
Lemma wf_factor_fone : wf_factor fone = true.
Proof. vm_compute. reflexivity. Qed.
Lemma wf_mult_ftwo : wf_mult ftwo = true.
Proof. vm_compute. reflexivity. Qed.

Lemma clamp01_wf f : fis_nan f = false -> wf_factor (clamp01 f) = true.
Proof.
  intros Hn. unfold clamp01.
  destruct (flt f fzero) eqn:A; [exact wf_factor_fzero|].
  destruct (fgt f fone) eqn:B; [exact wf_factor_fone|].
  assert (N0 : fis_nan fzero = false) by reflexivity.
  assert (N1 : fis_nan fone = false) by (vm_compute; reflexivity).
  destruct (compare_not_nan f fzero Hn N0) as [c0 E0].
  destruct (compare_not_nan f fone Hn N1) as [c1 E1].
  unfold wf_factor, fle. apply andb_true_intro. split.
  - unfold b64_compare in *. rewrite Bcompare_swap. unfold flt, b64_compare in A. rewrite E0 in *.
    destruct c0; try reflexivity; discriminate.
  - unfold fgt in B. rewrite E1 in *. destruct c1; try reflexivity; discriminate.
Qed.

Lemma exponential_backoff_wf ini m cap :
  wf_dur ini = true -> wf_mult m = true ->
  match cap with Some k => wf_dur k | None => true end = true ->
  wf_backoff (exponential_backoff ini m cap) = true.
Proof.
  intros A B C. unfold exponential_backoff, wf_backoff, wf_cfg.
  cbn [initial multiplier factor max_interval]. rewrite A, B, C, wf_factor_fzero. reflexivity.
Qed.
Lemma exponential_random_backoff_wf ini m f cap :
  wf_dur ini = true -> wf_mult m = true -> fis_nan f = false ->
  match cap with Some k => wf_dur k | None => true end = true ->
  wf_backoff (exponential_random_backoff ini m f cap) = true.
Proof.
  intros A B F C. unfold exponential_random_backoff, wf_backoff, wf_cfg.
  cbn [initial multiplier factor max_interval]. rewrite A, B, C, (clamp01_wf f F). reflexivity.
Qed.
Lemma policy_exponential_wf ini cap :
  wf_dur ini = true -> wf_dur cap = true -> wf_policy (policy_exponential ini cap) = true.
Proof.
  intros A B. unfold policy_exponential, wf_policy, wf_cfg.
  cbn [initial multiplier factor max_interval]. rewrite A, B, wf_mult_ftwo, wf_factor_fzero. reflexivity.
Qed.
Lemma policy_exponential_random_wf ini cap f :
  wf_dur ini = true -> wf_dur cap = true -> fis_nan f = false ->
  wf_policy (policy_exponential_random ini cap f) = true.
Proof.
  intros A B F. unfold policy_exponential_random, wf_policy, wf_cfg.
  cbn [initial multiplier factor max_interval]. rewrite A, B, wf_mult_ftwo, (clamp01_wf f F). reflexivity.
Qed.

Theorem constructors_wf :
  (forall ini m cap, wf_dur ini = true -> wf_mult m = true ->
     match cap with Some k => wf_dur k | None => true end = true ->
     wf_backoff (exponential_backoff ini m cap) = true) /\
  (forall ini m f cap, wf_dur ini = true -> wf_mult m = true -> fis_nan f = false ->
     match cap with Some k => wf_dur k | None => true end = true ->
     wf_backoff (exponential_random_backoff ini m f cap) = true) /\
  (forall ini cap, wf_dur ini = true -> wf_dur cap = true ->
     wf_policy (policy_exponential ini cap) = true) /\
  (forall ini cap f, wf_dur ini = true -> wf_dur cap = true -> fis_nan f = false ->
     wf_policy (policy_exponential_random ini cap f) = true).
Proof.
  split; [exact exponential_backoff_wf|]. split; [exact exponential_random_backoff_wf|].
  split; [exact policy_exponential_wf | exact policy_exponential_random_wf].
Qed.

(* ---------- non-vacuity: concrete configurations ---------- *)
Definition default_policy : reconnect_policy := policy_exponential (100 * MS) (5 * NANOS).
Example default_policy_wf : wf_policy default_policy = true.
Proof. vm_compute. reflexivity. Qed.
(* upstream (fa2667d) panicked at attempt 68, returned 50 ms for usize::MAX and 0 for 2^31 *)
Example default_policy_68 :
  map (fun a => delay_for_attempt default_policy a fzero)
      [0; 1; 5; 6; 67; 68; 316; 2147483648; 18446744073709551615]%N
  = map (fun d => Some (Some d))
      [100 * MS; 200 * MS; 3200 * MS; 5 * NANOS; 5 * NANOS; 5 * NANOS; 5 * NANOS; 5 * NANOS; 5 * NANOS].
Proof. vm_compute. reflexivity. Qed.
Example uncapped_saturates :
  next_interval (exponential_backoff (100 * MS) ftwo None) 68%N fzero = Some DUR_MAX /\
  next_interval (exponential_backoff (100 * MS) ftwo None) 18446744073709551615%N fzero = Some DUR_MAX.
Proof. vm_compute. split; reflexivity. Qed.
(* upstream: initial 0 with attempt 2000 computed 0 * inf = NaN and panicked *)
Example zero_initial : next_interval (exponential_backoff 0 ftwo None) 2000%N fzero = Some 0.
Proof. vm_compute. reflexivity. Qed.
Example strictly_increasing_below_cap :
  base_of (mkCfg (100 * MS) ftwo fzero (Some (5 * NANOS))) 3 < base_of (mkCfg (100 * MS) ftwo fzero (Some (5 * NANOS))) 4.
Proof. vm_compute. reflexivity. Qed.
(* multiplier 1 + 2^-52, the smallest above 1; 1.5; 10 *)
Example wf_mults :
  map wf_mult [b64_of_bits 4607182418800017409; b64_of_bits 4609434218613702656; of_Z 10; fone]
  = [true; true; true; true].
Proof. vm_compute. reflexivity. Qed.
Example not_wf_mults :   (* 0.5, NaN, +inf *)
  map wf_mult [b64_of_bits 4602678819172646912; b64_of_bits 9221120237041090560; b64_of_bits 9218868437227405312]
  = [false; false; false].
Proof. vm_compute. reflexivity. Qed.
(* jitter: 100 ms x 2^1 = 200 ms, factor 0.5: range [0.1 s, 0.3 s]; a draw of 0.25 s *)
Definition jitter_cfg : cfg := mkCfg (100 * MS) ftwo (b64_of_bits 4602678819172646912) (Some (5 * NANOS)).
Example jitter_example :
  wf_cfg jitter_cfg = true /\
  draw_in_range jitter_cfg 1 (b64_of_bits 4598175219545276416) = true /\
  next_interval (ExponentialRandom jitter_cfg) 1 (b64_of_bits 4598175219545276416) = Some (250 * MS) /\
  dur_sat (jitter_lo (base_of jitter_cfg 1) (factor jitter_cfg)) = 100 * MS /\
  dur_sat (jitter_hi (base_of jitter_cfg 1) (factor jitter_cfg)) = 300 * MS.
Proof. vm_compute. repeat split; reflexivity. Qed.
(* the panic branch of the model is reachable for an ill-formed configuration: a NaN factor
   passes f64::clamp and makes random_range panic ("cannot sample empty range") *)
Example nan_factor_panics :
  next_interval (exponential_random_backoff (100 * MS) ftwo (b64_of_bits 9221120237041090560) None) 1%N fzero = None.
Proof. vm_compute. reflexivity. Qed.

(* ---------- powi is monotone in the IEEE order (readable corollary of powi_mono) ---------- *)
Lemma ple_fle x y : ple x y -> fle x y = true.
Proof.
  intros ([Nx Hx] & [Ny Hy] & H).
  destruct (NN_finite_or_inf y Ny) as [Fy| ->].
  - assert (Fx : finite64 x = true).
    { apply V_lt_omega_finite; [exact Nx|]. eapply Rle_lt_trans; [exact H|].
      rewrite V_finite by exact Fy. generalize (B2R_lt_omega y). intros A. apply Rabs_lt_inv in A. lra. }
    apply (fle_FR x y _ _ (FR_self x Fx) (FR_self y Fy)).
    rewrite <- !V_finite by assumption. exact H.
  - destruct x as [[]|[]|[]|[] m e Hb]; unfold NN in Nx; try (exfalso; exact Nx); reflexivity.
Qed.

Theorem powi_monotone m a b : wf_mult m = true -> (a <= b)%N ->
  fle fone (powi m a) = true /\ fle (powi m a) (powi m b) = true.
Proof.
  intros W Hab. pose proof (wf_mult_P m W) as Pm. split.
  - apply ple_fle. replace fone with (powi m 0) by reflexivity. apply powi_mono; [exact Pm|lia].
  - apply ple_fle. apply powi_mono; assumption.
Qed.

(* ---------- relative error of the binary64 product against the real product ---------- *)
Local Open Scope R_scope.
Definition u53 : R := / 2 * bpow radix2 (-52).
Lemma u53_bounds : 0 < u53 < 1.
Proof.
  unfold u53.
  assert (0 < bpow radix2 (-52)) by apply bpow_gt_0.
  assert (bpow radix2 (-52) < bpow radix2 0) by (apply bpow_lt; lia).
  change (bpow radix2 0) with 1 in *. lra.
Qed.

Lemma rnd_rel t : bpow radix2 (-1022) <= t -> t * (1 - u53) <= rnd t <= t * (1 + u53).
Proof.
  intros Ht. assert (T0 : 0 < t) by (eapply Rlt_le_trans; [apply (bpow_gt_0 radix2 (-1022))|exact Ht]).
  pose proof (relative_error_N_FLT radix2 (3 - 1024 - 53) 53 eq_refl (fun x => negb (Z.even x)) t) as H.
  change (3 - 1024 - 53 + 53 - 1)%Z with (-1022)%Z in H.
  rewrite (Rabs_pos_eq t) in H by lra. specialize (H Ht).
  change (round radix2 (FLT_exp (3 - 1024 - 53) 53) (Znearest (fun x => negb (Z.even x))) t) with (rnd t) in H.
  apply Rabs_le_inv in H. change (bpow radix2 (- (53) + 1)) with (bpow radix2 (-52)) in H.
  unfold u53. set (b := bpow radix2 (-52)) in *. split; nra.
Qed.

(* x approximates the positive real t within k roundings *)
Definition RE (x : f64) (t : R) (k : nat) : Prop :=
  finite64 x = true /\ 0 < t /\ t * (1 - u53) ^ k <= B2R64 x <= t * (1 + u53) ^ k.

Lemma pow_1mu_pos k : 0 < (1 - u53) ^ k.
Proof. apply pow_lt. pose proof u53_bounds. lra. Qed.
Lemma pow_1pu_pos k : 0 < (1 + u53) ^ k.
Proof. apply pow_lt. pose proof u53_bounds. lra. Qed.

Lemma RE_weaken x t k k' : RE x t k -> (k <= k')%nat -> RE x t k'.
Proof.
  intros (F & T & L & U) Hk. split; [exact F|]. split; [exact T|].
  pose proof u53_bounds as Hu.
  replace k' with (k + (k' - k))%nat by lia. rewrite !pow_add.
  assert (A : (1 - u53) ^ (k' - k) <= 1).
  { apply Rle_trans with (1 ^ (k' - k)); [apply pow_incr; lra | rewrite pow1; lra]. }
  assert (B : 1 <= (1 + u53) ^ (k' - k)) by (apply pow_R1_Rle; lra).
  pose proof (pow_1mu_pos k). pose proof (pow_1pu_pos k). pose proof (pow_1mu_pos (k' - k)).
  split.
  - eapply Rle_trans; [|exact L]. apply Rmult_le_compat_l; [lra|]. nra.
  - eapply Rle_trans; [exact U|]. apply Rmult_le_compat_l; [lra|]. nra.
Qed.

Lemma RE_mul x y t t' k k' :
  NN x -> NN y -> RE x t k -> RE y t' k' -> finite64 (fmul x y) = true ->
  bpow radix2 (-1022) <= B2R64 x * B2R64 y ->
  RE (fmul x y) (t * t') (k + k' + 1).
Proof.
  intros Nx Ny (Fx & T & Lx & Ux) (Fy & T' & Ly & Uy) Fm Hn.
  destruct (fmul_NN_finite x y Nx Ny Fx Fy) as [Nm E].
  rewrite (V_finite _ Fm), (V_finite x Fx), (V_finite y Fy) in E.
  assert (Hlt : B2R64 (fmul x y) < OMEGA).
  { generalize (B2R_lt_omega (fmul x y)). intros A. apply Rabs_lt_inv in A. lra. }
  assert (E' : B2R64 (fmul x y) = rnd (B2R64 x * B2R64 y)).
  { unfold Rmin in E. destruct (Rle_dec (rnd (B2R64 x * B2R64 y)) OMEGA); lra. }
  destruct (rnd_rel _ Hn) as [R1 R2].
  pose proof u53_bounds as Hu.
  pose proof (pow_1mu_pos k). pose proof (pow_1pu_pos k). pose proof (pow_1mu_pos k'). pose proof (pow_1pu_pos k').
  split; [exact Fm|]. split; [nra|]. rewrite E'.
  rewrite !pow_add, !pow_1.
  assert (X0 : 0 < B2R64 x) by nra. assert (Y0 : 0 < B2R64 y) by nra.
  assert (PL : t * (1 - u53) ^ k * (t' * (1 - u53) ^ k') <= B2R64 x * B2R64 y).
  { apply Rmult_le_compat; nra. }
  assert (PU : B2R64 x * B2R64 y <= t * (1 + u53) ^ k * (t' * (1 + u53) ^ k')).
  { apply Rmult_le_compat; nra. }
  split.
  - eapply Rle_trans; [|exact R1].
    replace (t * t' * ((1 - u53) ^ k * (1 - u53) ^ k' * (1 - u53)))
      with (t * (1 - u53) ^ k * (t' * (1 - u53) ^ k') * (1 - u53)) by ring.
    apply Rmult_le_compat_r; lra.
  - eapply Rle_trans; [exact R2|].
    replace (t * t' * ((1 + u53) ^ k * (1 + u53) ^ k' * (1 + u53)))
      with (t * (1 + u53) ^ k * (t' * (1 + u53) ^ k') * (1 + u53)) by ring.
    apply Rmult_le_compat_r; lra.
Qed.

Lemma P_ple_fone x : P x -> ple fone x.
Proof. intros Px. split; [exact P_fone|split; [exact Px|]]. rewrite V_fone. apply Px. Qed.
Lemma ple_finite x y : ple x y -> finite64 y = true -> finite64 x = true.
Proof.
  intros ([Nx _] & [Ny _] & H) Fy. apply V_lt_omega_finite; [exact Nx|].
  eapply Rle_lt_trans; [exact H|]. rewrite V_finite by exact Fy.
  generalize (B2R_lt_omega y). intros A. apply Rabs_lt_inv in A. lra.
Qed.
Lemma P_B2R_ge1 x : P x -> finite64 x = true -> 1 <= B2R64 x.
Proof. intros [_ H] F. rewrite <- V_finite by exact F. exact H. Qed.

Lemma G_ge_base_ple p r a : P r -> P a -> ple a (G fmul r a p).
Proof.
  intros Pr Pa.
  apply (G_ge_base ple fmul fone ple_trans ple_refl_r ple_mul_mono ple_one_l); apply P_ple_fone; assumption.
Qed.
Lemma G_ge_acc_ple p r a : P r -> P a -> ple r (G fmul r a p).
Proof.
  intros Pr Pa.
  apply (G_ge_acc ple fmul fone ple_trans ple_refl_r ple_mul_mono ple_one_l ple_one_r); apply P_ple_fone; assumption.
Qed.

Section PowiError.
  Context (mu : R).

  Lemma RE_mul_P x y j e kx ky :
    P x -> P y -> RE x (mu ^ j) kx -> RE y (mu ^ e) ky -> finite64 (fmul x y) = true ->
    RE (fmul x y) (mu ^ (j + e)) (kx + ky + 1).
  Proof.
    intros Px Py Rx Ry F. rewrite pow_add.
    apply RE_mul; try assumption; try apply Px; try apply Py.
    pose proof (P_B2R_ge1 x Px (proj1 Rx)). pose proof (P_B2R_ge1 y Py (proj1 Ry)).
    apply Rle_trans with 1; [|nra].
    change 1 with (bpow radix2 0). apply bpow_le. lia.
  Qed.

  Lemma G_RE p : forall r a j e,
    P r -> P a -> (1 <= e)%nat -> finite64 (G fmul r a p) = true ->
    RE r (mu ^ j) j -> RE a (mu ^ e) (e - 1) ->
    RE (G fmul r a p) (mu ^ (j + e * Pos.to_nat p)) (j + e * Pos.to_nat p).
  Proof.
    induction p as [q IH|q IH|]; intros r a j e Pr Pa He F Rr Ra; cbn [G] in *.
    - (* xI q *)
      assert (Pra : P (fmul r a)) by (apply fmul_P; assumption).
      assert (Paa : P (fmul a a)) by (apply fmul_P; assumption).
      assert (Fra : finite64 (fmul r a) = true) by (eapply ple_finite; [apply (G_ge_acc_ple q); eassumption | exact F]).
      assert (Faa : finite64 (fmul a a) = true) by (eapply ple_finite; [apply (G_ge_base_ple q (fmul r a)); eassumption | exact F]).
      pose proof (RE_mul_P r a j e _ _ Pr Pa Rr Ra Fra) as R1.
      pose proof (RE_mul_P a a e e _ _ Pa Pa Ra Ra Faa) as R2.
      replace (j + (e - 1) + 1)%nat with (j + e)%nat in R1 by lia.
      apply (RE_weaken _ _ _ (e + e - 1)) in R2; [|lia].
      specialize (IH (fmul r a) (fmul a a) (j + e)%nat (e + e)%nat Pra Paa ltac:(lia) F R1 R2).
      rewrite Pos2Nat.inj_xI.
      replace (j + e * S (2 * Pos.to_nat q))%nat with (j + e + (e + e) * Pos.to_nat q)%nat by lia.
      exact IH.
    - (* xO q *)
      assert (Paa : P (fmul a a)) by (apply fmul_P; assumption).
      assert (Faa : finite64 (fmul a a) = true) by (eapply ple_finite; [apply (G_ge_base_ple q r); eassumption | exact F]).
      pose proof (RE_mul_P a a e e _ _ Pa Pa Ra Ra Faa) as R2.
      apply (RE_weaken _ _ _ (e + e - 1)) in R2; [|lia].
      specialize (IH r (fmul a a) j (e + e)%nat Pr Paa ltac:(lia) F Rr R2).
      rewrite Pos2Nat.inj_xO.
      replace (j + e * (2 * Pos.to_nat q))%nat with (j + (e + e) * Pos.to_nat q)%nat by lia.
      exact IH.
    - (* xH *)
      pose proof (RE_mul_P r a j e _ _ Pr Pa Rr Ra F) as R1.
      replace (j + (e - 1) + 1)%nat with (j + e)%nat in R1 by lia.
      change (Pos.to_nat 1) with 1%nat. rewrite Nat.mul_1_r. exact R1.
  Qed.
End PowiError.

Lemma RE_self x : finite64 x = true -> 0 < B2R64 x -> RE x (B2R64 x) 0.
Proof. intros F H. split; [exact F|]. split; [exact H|]. simpl. lra. Qed.

Lemma powi_RE m n : P m -> finite64 m = true -> finite64 (powi m n) = true ->
  RE (powi m n) (B2R64 m ^ N.to_nat n) (N.to_nat n).
Proof.
  intros Pm Fm F. pose proof (P_B2R_ge1 m Pm Fm) as Hmu.
  destruct n as [|p]; cbn [powi N.to_nat] in *.
  - destruct FR_fone as [F1 E1]. split; [exact F1|]. split; [simpl; lra|]. rewrite E1. simpl. lra.
  - rewrite powi_pos_G in *.
    assert (R1 : RE fone (B2R64 m ^ 0) 0).
    { destruct FR_fone as [F1 E1]. split; [exact F1|]. split; [simpl; lra|]. rewrite E1. simpl. lra. }
    assert (R2 : RE m (B2R64 m ^ 1) (1 - 1)).
    { rewrite pow_1. apply RE_self; [exact Fm|lra]. }
    pose proof (G_RE (B2R64 m) p fone m 0 1 P_fone Pm ltac:(lia) F R1 R2) as H.
    rewrite Nat.add_0_l, Nat.mul_1_l in H. exact H.
Qed.

(* the binary64 product formed by exponential_interval, and the bound proved about it:
   with s = the f64 value of as_secs_f64(initial), mu = the multiplier, e = min(attempt, i32::MAX)
   and u = 2^-53, the product lies within s * mu^e * (1 -/+ u)^(e+1). *)
Definition secs_of (c : cfg) (a : N) : f64 :=
  fmul (as_secs_f64 (initial c)) (powi (multiplier c) (N.min a I32_MAX)).
Definition real_error_bound (c : cfg) (a : N) : Prop :=
  let e := N.to_nat (N.min a I32_MAX) in
  let s := B2R64 (as_secs_f64 (initial c)) in
  let mu := B2R64 (multiplier c) in
  s * mu ^ e * (1 - u53) ^ (e + 1) <= B2R64 (secs_of c a) <= s * mu ^ e * (1 + u53) ^ (e + 1).

Theorem real_error_partial c a :
  wf_cfg c = true -> (1 <= initial c)%Z -> fis_finite (secs_of c a) = true ->
  real_error_bound c a.
Proof.
  intros W Hi F. destruct (wf_cfg_spec c W) as (Hini & Pm & _ & _).
  destruct (as_secs_core (initial c) Hini) as (s & [FS ES] & [Hs0 _] & Hlow).
  specialize (Hlow Hi).
  assert (Hpos : 0 < s) by (eapply Rlt_le_trans; [apply (bpow_gt_0 radix2 (-30))|exact Hlow]).
  pose proof (FR_pos_NN _ _ (conj FS ES) Hpos) as NS.
  assert (Fm : finite64 (multiplier c) = true).
  { unfold wf_cfg in W. apply andb_prop in W. destruct W as [W _]. apply andb_prop in W. destruct W as [W _].
    apply andb_prop in W. destruct W as [_ W]. unfold wf_mult in W. apply andb_prop in W. apply W. }
  set (n := N.min a I32_MAX) in *.
  pose proof (powi_mono (multiplier c) n n Pm (N.le_refl n)) as (Pp & _ & _).
  unfold secs_of in F. fold n in F. unfold fis_finite in F.
  (* the power is finite because the product is *)
  assert (Fp : finite64 (powi (multiplier c) n) = true).
  { destruct (NN_finite_or_inf _ (proj1 Pp)) as [Fp|Einf]; [exact Fp|].
    rewrite Einf in F. rewrite fmul_inf_r in F; [discriminate|exact NS|].
    rewrite V_finite by exact FS. rewrite ES. exact Hpos. }
  pose proof (powi_RE (multiplier c) n Pm Fm Fp) as Rp.
  assert (RS : RE (as_secs_f64 (initial c)) s 0).
  { rewrite <- ES. apply RE_self; [exact FS|rewrite ES; exact Hpos]. }
  pose proof (P_B2R_ge1 _ Pp Fp) as Hp1.
  assert (Hn : bpow radix2 (-1022) <= B2R64 (as_secs_f64 (initial c)) * B2R64 (powi (multiplier c) n)).
  { rewrite ES. apply Rle_trans with (bpow radix2 (-30)); [apply bpow_le; lia|]. nra. }
  pose proof (RE_mul _ _ _ _ _ _ NS (proj1 Pp) RS Rp F Hn) as (_ & _ & L & U).
  unfold real_error_bound, secs_of. fold n. cbv zeta. rewrite ES.
  replace (N.to_nat n + 1)%nat with (0 + N.to_nat n + 1)%nat by lia.
  split; assumption.
Qed.

Example real_error_hypotheses_satisfiable :
  wf_cfg jitter_cfg = true /\ (1 <= initial jitter_cfg)%Z /\
  fis_finite (secs_of jitter_cfg 3) = true /\ fis_finite (secs_of jitter_cfg 5000) = false.
Proof. vm_compute. repeat split; try reflexivity; discriminate. Qed.
