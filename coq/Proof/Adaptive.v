(* Proofs about Model/Adaptive.v: the limit stays within [min, max] for the AIMD controller
   and for Vegas under every interleaving of atomic steps (for every decrease, smoothing and
   queue-estimate function); the service's in_flight counter is exact. *)
From TR Require Import Lib.Base Model.Budget Proof.Budget Model.Adaptive.

(* ------------------------------------------------------------------------- *)
(* (a1) AimdController / Aimd *)
Section ControllerMachine.
  Context (c : acfg) (dec : Z -> Z) (thr : Z).
  Context (Hmm : a_min c <= a_max c) (Hu : a_max c <= U64MAX) (Hinc : 0 <= a_inc c).

  Definition in_bounds (v : Z) : Prop := a_min c <= v <= a_max c.

  (* the stored limit is in bounds, and so is every value a limit() call returned *)
  Definition ct_G (m : mem) (log : list (orec ct_call)) (W : Z) : Prop :=
    in_bounds (m LLim) /\ Forall (fun r => r_call r = CtLimit -> in_bounds (r_ret r)) log.

  Definition ct_L (call : ct_call) (pc : ct_pc) : Prop :=
    match pc with
    | ClLoad => True
    | CnLoad n | CnCas n _ => 0 <= n /\ call <> CtLimit
    | _ => call <> CtLimit
    end.

  Lemma ct_step_ok :
    forall m log W call pc sp tid first clock,
      ct_G m log W -> ct_L call pc ->
      match p_next (ct_prog c dec thr) pc (o_val (exec m (p_op (ct_prog c dec thr) pc) sp))
                   (o_ok (exec m (p_op (ct_prog c dec thr) pc) sp)) with
      | inl pc' => ct_G (o_mem (exec m (p_op (ct_prog c dec thr) pc) sp)) log (W - 0 + 0)
                   /\ ct_L call pc'
      | inr ret => ct_G (o_mem (exec m (p_op (ct_prog c dec thr) pc) sp))
                        ({| r_tid := tid; r_call := call; r_ret := ret;
                            r_first := first; r_res := clock |} :: log) (W - 0)
      end.
  Proof.
    intros m log W call pc sp tid first clock [Hb Hl] HL.
    assert (Hdone : forall m', in_bounds (m' LLim) -> call <> CtLimit ->
                               ct_G m' ({| r_tid := tid; r_call := call; r_ret := 2;
                                           r_first := first; r_res := clock |} :: log) (W - 0)).
    { intros m' Hm' Hc. split; [exact Hm'|]. constructor; [cbn; intros E; contradiction|exact Hl]. }
    destruct pc as [|p| |p|n|n p|]; unfold ct_L in HL;
      cbn [ct_prog p_next p_op ct_op ct_next exec o_val o_ok o_mem].
    - split; [split; assumption|exact HL].
    - destruct ((m LLim =? p) && negb sp) eqn:E; cbn [o_val o_ok o_mem].
      + apply andb_prop in E. destruct E as [E _]. apply Z.eqb_eq in E.
        apply Hdone; [|exact HL]. unfold in_bounds. rewrite mset_same.
        apply ctl_succ_bounds; try assumption. unfold in_bounds in Hb. lia.
      + split; [split; assumption|exact HL].
    - split; [split; assumption|exact HL].
    - destruct ((m LLim =? p) && negb sp) eqn:E; cbn [o_val o_ok o_mem].
      + apply Hdone; [|exact HL]. unfold in_bounds. rewrite mset_same.
        apply ctl_fail_bounds; assumption.
      + split; [split; assumption|exact HL].
    - split; [split; assumption|exact HL].
    - destruct ((m LLim =? p) && negb sp) eqn:E; cbn [o_val o_ok o_mem].
      + apply andb_prop in E. destruct E as [E _]. apply Z.eqb_eq in E.
        apply Hdone; [|apply HL]. unfold in_bounds. rewrite mset_same.
        apply ctl_succs_bounds; try assumption; [apply HL|]. unfold in_bounds in Hb. lia.
      + split; [split; assumption|exact HL].
    - split; [exact Hb|]. constructor; [cbn; intros _; exact Hb|exact Hl].
  Qed.

  Definition ct_inv := inv (PC := ct_pc) ct_G ct_L (fun _ => 0).

  Lemma ct_reach initial progs sched :
    Forall ct_inv (states (step (ct_prog c dec thr)) (init_state (ct_mem c initial) progs) sched).
  Proof.
    apply inv_reach.
    - intros k; destruct k; cbn; try discriminate; try exact I.
      + split; [lia|discriminate].
      + destruct (thr <? lat); discriminate.
    - reflexivity.
    - exact ct_step_ok.
    - split; [|constructor]. cbn. unfold ctl_init. apply clampz_bounds. exact Hmm.
  Qed.
End ControllerMachine.

Lemma ct_limit_in_bounds :
  forall (c : acfg) (dec : Z -> Z) (thr initial : Z) (progs : list (list ct_call))
         (sched : list (nat * bool)),
    a_min c <= a_max c -> a_max c <= U64MAX -> 0 <= a_inc c ->
    Forall (fun s => a_min c <= st_mem s LLim <= a_max c
                     /\ Forall (fun r => r_call r = CtLimit -> a_min c <= r_ret r <= a_max c)
                               (st_log s))
           (states (step (ct_prog c dec thr)) (init_state (ct_mem c initial) progs) sched).
Proof.
  intros c dec thr initial progs sched H1 H2 H3.
  eapply Forall_impl; [|apply ct_reach; assumption].
  intros s [[Hb Hl] _]. split; [exact Hb|exact Hl].
Qed.

(* ------------------------------------------------------------------------- *)
(* (a2) Vegas: load / store on the limit, so the invariant also covers the registers that
   hold a value about to be stored *)
Section VegasMachine.
  Context (c : vcfg) (smooth : Z -> Z -> Z) (qest : Z -> Z -> Z -> Z).
  Context (Hmin : 0 <= v_min c) (Hmm : v_min c <= v_max c).

  Definition vin_bounds (v : Z) : Prop := v_min c <= v <= v_max c.

  Definition vg_G (m : mem) (log : list (orec vg_call)) (W : Z) : Prop :=
    vin_bounds (m LLim) /\ Forall (fun r => r_call r = VgLimit -> vin_bounds (r_ret r)) log.

  Definition vg_L (call : vg_call) (pc : vg_pc) : Prop :=
    match pc with
    | VlLoad => True
    | VaStoreLim v | VfStore v => vin_bounds v /\ call <> VgLimit
    | _ => call <> VgLimit
    end.

  Lemma vg_new_bounds mn sm cur : vin_bounds cur -> vin_bounds (vg_new c qest mn sm cur).
  Proof.
    unfold vin_bounds, vg_new, sat_sub. intros H.
    destruct (_ <? v_alpha c); [lia|]. destruct (v_beta c <? _); lia.
  Qed.

  Lemma half_bounds v : vin_bounds v -> vin_bounds (Z.max (v / 2) (v_min c)).
  Proof.
    unfold vin_bounds. intros H.
    assert (v / 2 <= v) by (apply Z.div_le_upper_bound; lia). lia.
  Qed.

  Lemma vg_step_ok :
    forall m log W call pc sp tid first clock,
      vg_G m log W -> vg_L call pc ->
      match p_next (vg_prog c smooth qest) pc
                   (o_val (exec m (p_op (vg_prog c smooth qest) pc) sp))
                   (o_ok (exec m (p_op (vg_prog c smooth qest) pc) sp)) with
      | inl pc' => vg_G (o_mem (exec m (p_op (vg_prog c smooth qest) pc) sp)) log (W - 0 + 0)
                   /\ vg_L call pc'
      | inr ret => vg_G (o_mem (exec m (p_op (vg_prog c smooth qest) pc) sp))
                        ({| r_tid := tid; r_call := call; r_ret := ret;
                            r_first := first; r_res := clock |} :: log) (W - 0)
      end.
  Proof.
    intros m log W call pc sp tid first clock [Hb Hl] HL.
    assert (Hdone : forall m', vin_bounds (m' LLim) -> call <> VgLimit ->
                               vg_G m' ({| r_tid := tid; r_call := call; r_ret := 2;
                                           r_first := first; r_res := clock |} :: log) (W - 0)).
    { intros m' Hm' Hc. split; [exact Hm'|]. constructor; [cbn; intros E; contradiction|exact Hl]. }
    assert (Hsame : vg_G m log (W - 0 + 0)) by (split; assumption).
    destruct pc as [rtt|rtt cur|rtt|v| | | |mn|mn sm|v| |v|]; unfold vg_L in HL;
      cbn [vg_prog p_next p_op vg_op vg_next exec o_val o_ok o_mem].
    - destruct (rtt <? m LMin); split; assumption.
    - destruct ((m LMin =? cur) && negb sp); cbn [o_val o_ok o_mem].
      + split; [|exact HL]. split; [|exact Hl]. rewrite mset_other by discriminate. exact Hb.
      + destruct (rtt <? m LMin); split; assumption.
    - split; assumption.
    - split; [|exact HL]. split; [|exact Hl]. rewrite mset_other by discriminate. exact Hb.
    - split; [|exact HL]. split; [|exact Hl]. rewrite mset_other by discriminate. exact Hb.
    - destruct (m LCnt <? v_min_samples c); [apply Hdone|split]; assumption.
    - split; assumption.
    - destruct ((mn =? U64MAX) || (mn =? 0) || (m LSm =? 0)); [apply Hdone|split]; assumption.
    - split; [exact Hsame|]. split; [|exact HL]. apply vg_new_bounds. exact Hb.
    - destruct HL as [Hv Hc]. apply Hdone; [|exact Hc]. rewrite mset_same. exact Hv.
    - split; [exact Hsame|]. split; [|exact HL]. apply half_bounds. exact Hb.
    - destruct HL as [Hv Hc]. apply Hdone; [|exact Hc]. rewrite mset_same. exact Hv.
    - split; [exact Hb|]. constructor; [cbn; intros _; exact Hb|exact Hl].
  Qed.

  Definition vg_inv := inv (PC := vg_pc) vg_G vg_L (fun _ => 0).

  Lemma vg_reach initial progs sched :
    Forall vg_inv (states (step (vg_prog c smooth qest)) (init_state (vg_mem c initial) progs) sched).
  Proof.
    apply inv_reach.
    - intros k; destruct k; cbn; try discriminate; exact I.
    - reflexivity.
    - exact vg_step_ok.
    - split; [|constructor]. cbn. unfold vin_bounds, clampz.
      destruct (Z.ltb_spec initial (v_min c)); [lia|]. destruct (Z.ltb_spec (v_max c) initial); lia.
  Qed.
End VegasMachine.

Lemma vg_limit_in_bounds :
  forall (c : vcfg) (smooth : Z -> Z -> Z) (qest : Z -> Z -> Z -> Z) (initial : Z)
         (progs : list (list vg_call)) (sched : list (nat * bool)),
    0 <= v_min c -> v_min c <= v_max c ->
    Forall (fun s => v_min c <= st_mem s LLim <= v_max c
                     /\ Forall (fun r => r_call r = VgLimit -> v_min c <= r_ret r <= v_max c)
                               (st_log s))
           (states (step (vg_prog c smooth qest)) (init_state (vg_mem c initial) progs) sched).
Proof.
  intros c smooth qest initial progs sched H1 H2.
  eapply Forall_impl; [|apply vg_reach; assumption].
  intros s [[Hb Hl] _]. split; [exact Hb|exact Hl].
Qed.

Lemma limit_in_bounds :
  (forall (c : acfg) (dec : Z -> Z) (thr initial : Z) (progs : list (list ct_call))
          (sched : list (nat * bool)),
      a_min c <= a_max c -> a_max c <= U64MAX -> 0 <= a_inc c ->
      Forall (fun s => a_min c <= st_mem s LLim <= a_max c
                       /\ Forall (fun r => r_call r = CtLimit -> a_min c <= r_ret r <= a_max c)
                                 (st_log s))
             (states (step (ct_prog c dec thr)) (init_state (ct_mem c initial) progs) sched))
  /\
  (forall (c : vcfg) (smooth : Z -> Z -> Z) (qest : Z -> Z -> Z -> Z) (initial : Z)
          (progs : list (list vg_call)) (sched : list (nat * bool)),
      0 <= v_min c -> v_min c <= v_max c ->
      Forall (fun s => v_min c <= st_mem s LLim <= v_max c
                       /\ Forall (fun r => r_call r = VgLimit -> v_min c <= r_ret r <= v_max c)
                                 (st_log s))
             (states (step (vg_prog c smooth qest)) (init_state (vg_mem c initial) progs) sched)).
Proof. split; [exact ct_limit_in_bounds|exact vg_limit_in_bounds]. Qed.

(* non-vacuity: racing feedback on the controller, nothing is lost *)
Example controller_race :
  let c := {| a_min := 1; a_max := 10; a_inc := 1 |} in
  let s := fold_left (step (ct_prog c (dec_q 1 2) 0))
                     (map (fun t => (t, false)) [0; 1; 0; 1; 1]%nat)
                     (init_state (ct_mem c 5) [[CtSuccess]; [CtSuccess]]) in
  st_mem s LLim = 7.
Proof. vm_compute. reflexivity. Qed.

Example vegas_adjusts :
  let v := {| v_min := 1; v_max := 20; v_alpha := 3; v_beta := 6; v_min_samples := 2 |} in
  let s := fold_left (step (vg_prog v smooth_half qest_q))
                     (map (fun t => (t, false)) (repeat 0%nat 40))
                     (init_state (vg_mem v 10) [[VgSuccess 1024; VgSuccess 4096; VgFailure]]) in
  (st_mem s LLim, st_mem s LMin, st_mem s LSm, st_mem s LCnt) = (4, 1024, 2560, 2).
Proof. vm_compute. reflexivity. Qed.

(* ------------------------------------------------------------------------- *)
(* (b) the service *)
Section KeyLists.
  Context {V : Type}.

  Lemma lookup_none_notin a (l : list (nat * V)) : lookup a l = None <-> ~ In a (map fst l).
  Proof.
    induction l as [|[k v] t IH]; cbn; [tauto|].
    destruct (Nat.eqb_spec k a).
    - split; [discriminate|]. intros H; exfalso; apply H; left; assumption.
    - rewrite IH. tauto.
  Qed.

  Lemma remove_key_in a x (l : list (nat * V)) :
    In x (map fst (remove_key a l)) -> In x (map fst l) /\ x <> a.
  Proof.
    induction l as [|[k v] t IH]; cbn; [tauto|].
    destruct (Nat.eqb_spec k a); cbn.
    - intros H. destruct (IH H). tauto.
    - intros [H|H]; [subst; tauto|]. destruct (IH H). tauto.
  Qed.

  Lemma remove_key_nodup a (l : list (nat * V)) :
    NoDup (map fst l) -> NoDup (map fst (remove_key a l)).
  Proof.
    induction l as [|[k v] t IH]; cbn; intros H; [constructor|].
    inversion H as [|? ? Hn Ht]; subst.
    destruct (Nat.eqb_spec k a); cbn; [apply IH; exact Ht|].
    constructor; [|apply IH; exact Ht]. intros Hin. apply remove_key_in in Hin. tauto.
  Qed.

  Lemma remove_key_notin a (l : list (nat * V)) :
    ~ In a (map fst l) -> remove_key a l = l.
  Proof.
    induction l as [|[k v] t IH]; cbn; intros H; [reflexivity|].
    destruct (Nat.eqb_spec k a); [exfalso; apply H; left; assumption|].
    rewrite IH; [reflexivity|tauto].
  Qed.

  Lemma remove_key_length a v (l : list (nat * V)) :
    NoDup (map fst l) -> lookup a l = Some v -> S (length (remove_key a l)) = length l.
  Proof.
    induction l as [|[k w] t IH]; cbn; intros Hn Hl; [discriminate|].
    inversion Hn as [|? ? Hk Ht]; subst.
    destruct (Nat.eqb_spec k a).
    - subst k. rewrite remove_key_notin by exact Hk. reflexivity.
    - cbn. rewrite (IH Ht Hl). reflexivity.
  Qed.
End KeyLists.

Lemma memn_true_iff a l : memn a l = true <-> In a l.
Proof.
  induction l as [|k t IH]; cbn; [split; [discriminate|tauto]|].
  rewrite orb_true_iff, IH. destruct (Nat.eqb_spec k a) as [E|E]; split; intros [H|H]; auto;
    try discriminate; contradiction.
Qed.

Section Service.
  Context (c : acfg) (dec : Z -> Z) (thr : Z) (Hmm : a_min c <= a_max c)
          (Hu : a_max c <= U64MAX) (Hinc : 0 <= a_inc c).

  Definition sv_inv (s : svc) : Prop :=
    sv_inflight s = Z.of_nat (length (sv_live s))
    /\ NoDup (map fst (sv_live s))
    /\ (forall a, In a (map fst (sv_live s)) -> In a (sv_created s))
    /\ a_min c <= sv_limit s <= a_max c.

  Lemma sv_inv_remove (s : svc) a start lim :
    sv_inv s -> lookup a (sv_live s) = Some start -> a_min c <= lim <= a_max c ->
    sv_inv (sv_set s lim (sv_inflight s - 1) (remove_key a (sv_live s))).
  Proof.
    intros (Hc & Hn & Hi & Hb) Hlk Hlim. unfold sv_inv, sv_set; cbn.
    pose proof (remove_key_length _ _ _ Hn Hlk) as Hlen.
    split; [lia|]. split; [apply remove_key_nodup; exact Hn|].
    split; [|assumption]. intros x Hx. apply remove_key_in in Hx. apply Hi. tauto.
  Qed.

  Lemma sv_inv_step (s : svc) (e : sev) : sv_inv s -> sv_inv (sv_st c dec thr s e).
  Proof.
    intros H. pose proof H as (Hc & Hn & Hi & Hb).
    unfold sv_st. destruct e as [|a|a|a o|a|ms|mode|a| |]; cbn [sv_step].
    - destruct (sv_limit s <=? sv_inflight s); exact H.
    - destruct (memn a (sv_created s)) eqn:Em; [exact H|]. cbn.
      unfold sv_inv; cbn [sv_inflight sv_live sv_created sv_limit map fst length].
      split; [lia|]. split.
      + constructor; [|exact Hn]. intros Hin. apply Hi in Hin. apply memn_true_iff in Hin. congruence.
      + split; [|assumption]. intros x [<-|Hx]; [left; reflexivity|right; apply Hi; exact Hx].
    - destruct (lookup a (sv_live s)) as [start|] eqn:El; [|exact H].
      destruct (lookup a (sv_gate s)) as [o|]; [|exact H].
      destruct (o =? 0); [|destruct (o =? 1)]; cbn [fst].
      + eapply sv_inv_remove; eauto. destruct (thr <? sv_now s - start).
        * apply ctl_fail_bounds; exact Hmm.
        * apply ctl_succ_bounds; try assumption. lia.
      + eapply sv_inv_remove; eauto. apply ctl_fail_bounds; exact Hmm.
      + eapply sv_inv_remove; eauto.
    - destruct (lookup a (sv_gate s)); exact H.
    - destruct (lookup a (sv_live s)) as [start|] eqn:El; [|exact H]. cbn [fst].
      eapply sv_inv_remove; eauto.
    - exact H.
    - exact H.
    - destruct (memn a (sv_created s)) eqn:Em; [exact H|]. cbn.
      unfold sv_inv; cbn [sv_inflight sv_live sv_created sv_limit].
      split; [lia|]. split; [exact Hn|]. split; [|exact Hb].
      intros x Hx. right. apply Hi. exact Hx.
    - cbn [fst]. unfold sv_inv, sv_set; cbn.
      split; [exact Hc|]. split; [exact Hn|]. split; [exact Hi|]. apply ctl_fail_bounds; exact Hmm.
    - cbn [fst]. unfold sv_inv, sv_set; cbn.
      split; [exact Hc|]. split; [exact Hn|]. split; [exact Hi|]. destruct (thr <? 0).
      + apply ctl_fail_bounds; exact Hmm.
      + apply ctl_succ_bounds; try assumption. lia.
  Qed.

  Lemma sv_inv_init initial : sv_inv (sv_init c initial).
  Proof.
    unfold sv_inv, sv_init; cbn. split; [reflexivity|]. split; [constructor|].
    split; [tauto|]. unfold ctl_init. apply clampz_bounds. exact Hmm.
  Qed.

  Lemma sv_reach initial evs :
    Forall sv_inv (states (sv_st c dec thr) (sv_init c initial) evs).
  Proof. apply reach_inv; [apply sv_inv_init|intros s e; apply sv_inv_step]. Qed.
End Service.

(* in_flight = number of call futures created and not yet finished / failed / panicked /
   dropped, in every reachable state (a call() whose inner.call() panics creates no future
   and gives its slot back while unwinding) *)
Lemma inflight_exact :
  forall (c : acfg) (dec : Z -> Z) (thr initial : Z) (evs : list sev),
    a_min c <= a_max c -> a_max c <= U64MAX -> 0 <= a_inc c ->
    Forall (fun s => sv_inflight s = Z.of_nat (length (sv_live s))
                     /\ NoDup (map fst (sv_live s)))
           (states (sv_st c dec thr) (sv_init c initial) evs).
Proof.
  intros c dec thr initial evs H1 H2 H3.
  eapply Forall_impl; [|apply sv_reach; assumption].
  intros s (Hc & Hn & _). split; assumption.
Qed.

(* the same as a balance over the history of result codes: +1 for every call future
   created (20), -1 for every poll that returned Ok (31), Err (32) or panicked (35) and for
   every drop of a live future (50) *)
Lemma sv_step_delta c dec thr s e :
  sv_inflight (fst (sv_step c dec thr s e)) = sv_inflight s + code_delta (snd (sv_step c dec thr s e)).
Proof.
  destruct e as [|a|a|a o|a|ms|mode|a| |]; cbn [sv_step].
  - destruct (sv_limit s <=? sv_inflight s); cbn; [lia|].
    destruct (sv_inner s =? 0); [cbn; lia|]. destruct (sv_inner s =? 1); cbn; lia.
  - destruct (memn a (sv_created s)); cbn; lia.
  - destruct (lookup a (sv_live s)); [|cbn; lia]. destruct (lookup a (sv_gate s)) as [o|]; [|cbn; lia].
    destruct (o =? 0); [cbn; lia|]. destruct (o =? 1); cbn; lia.
  - destruct (lookup a (sv_gate s)); cbn; lia.
  - destruct (lookup a (sv_live s)); cbn; lia.
  - cbn; lia.
  - cbn; lia.
  - destruct (memn a (sv_created s)); cbn; lia.
  - cbn; lia.
  - cbn; lia.
Qed.

Lemma sv_run_state c dec thr s evs :
  fst (sv_run c dec thr s evs) = fold_left (sv_st c dec thr) evs s.
Proof.
  revert s; induction evs as [|e t IH]; intros s; cbn; [reflexivity|].
  unfold sv_st at 2. destruct (sv_step c dec thr s e) as [s' r].
  specialize (IH s'). destruct (sv_run c dec thr s' t) as [s'' rs]. cbn in *. exact IH.
Qed.

Lemma inflight_history :
  forall (c : acfg) (dec : Z -> Z) (thr : Z) (s : svc) (evs : list sev),
    sv_inflight (fst (sv_run c dec thr s evs))
    = sv_inflight s + sumz (map code_delta (snd (sv_run c dec thr s evs))).
Proof.
  intros c dec thr s evs; revert s; induction evs as [|e t IH]; intros s; cbn; [lia|].
  pose proof (sv_step_delta c dec thr s e) as Hd.
  destruct (sv_step c dec thr s e) as [s' r]. specialize (IH s').
  destruct (sv_run c dec thr s' t) as [s'' rs]. cbn in *. lia.
Qed.

Lemma inflight_history_init :
  forall (c : acfg) (dec : Z -> Z) (thr initial : Z) (evs : list sev),
    sv_inflight (fst (sv_run c dec thr (sv_init c initial) evs))
    = sumz (map code_delta (snd (sv_run c dec thr (sv_init c initial) evs))).
Proof. intros. rewrite inflight_history. cbn. lia. Qed.

Lemma zero_when_idle :
  forall (c : acfg) (dec : Z -> Z) (thr initial : Z) (evs : list sev),
    a_min c <= a_max c -> a_max c <= U64MAX -> 0 <= a_inc c ->
    Forall (fun s => sv_live s = [] -> sv_inflight s = 0)
           (states (sv_st c dec thr) (sv_init c initial) evs).
Proof.
  intros c dec thr initial evs H1 H2 H3.
  eapply Forall_impl; [|apply (inflight_exact c dec thr initial evs H1 H2 H3)].
  cbn. intros s [Hc _] Hlive. rewrite Hc, Hlive. reflexivity.
Qed.

(* poll_ready *)
Lemma ready_when_below :
  forall (c : acfg) (dec : Z -> Z) (thr : Z) (s : svc),
    sv_inflight s < sv_limit s -> sv_inner s = 0 ->
    sv_step c dec thr s EReady = (s, 11).
Proof.
  intros c dec thr s H Hi. cbn. destruct (Z.leb_spec (sv_limit s) (sv_inflight s)); [lia|].
  rewrite Hi. reflexivity.
Qed.

Lemma ready_when_below_live :
  forall (c : acfg) (dec : Z -> Z) (thr initial : Z) (evs : list sev),
    a_min c <= a_max c -> a_max c <= U64MAX -> 0 <= a_inc c ->
    Forall (fun s => Z.of_nat (length (sv_live s)) < sv_limit s -> sv_inner s = 0 ->
                     sv_step c dec thr s EReady = (s, 11))
           (states (sv_st c dec thr) (sv_init c initial) evs).
Proof.
  intros c dec thr initial evs H1 H2 H3.
  eapply Forall_impl; [|apply (inflight_exact c dec thr initial evs H1 H2 H3)].
  cbn beta. intros s [Hc _] Hlt Hi. apply ready_when_below; [lia|exact Hi].
Qed.

Lemma pending_when_at_limit :
  forall (c : acfg) (dec : Z -> Z) (thr : Z) (s : svc),
    sv_limit s <= sv_inflight s ->
    sv_step c dec thr s EReady = (s, 13).
Proof.
  intros c dec thr s H. cbn. destruct (Z.leb_spec (sv_limit s) (sv_inflight s)); [reflexivity|lia].
Qed.

Lemma service_limit_in_bounds :
  forall (c : acfg) (dec : Z -> Z) (thr initial : Z) (evs : list sev),
    a_min c <= a_max c -> a_max c <= U64MAX -> 0 <= a_inc c ->
    Forall (fun s => a_min c <= sv_limit s <= a_max c)
           (states (sv_st c dec thr) (sv_init c initial) evs).
Proof.
  intros c dec thr initial evs H1 H2 H3.
  eapply Forall_impl; [|apply sv_reach; assumption].
  intros s (_ & _ & _ & Hb). exact Hb.
Qed.

(* non-vacuity / regression shapes *)
Example cancelled_calls_give_slots_back :
  let c := {| a_min := 1; a_max := 2; a_inc := 1 |} in
  let r := sv_run c (dec_q 1 2) 100 (sv_init c 2)
                  [ECall 0; ECall 1; EReady; EPoll 0; EPoll 1; EDrop 0; EDrop 1; EReady] in
  (snd r, sv_inflight (fst r)) = ([20; 20; 13; 30; 30; 50; 50; 11], 0).
Proof. vm_compute. reflexivity. Qed.

(* feedback that reaches the shared algorithm from elsewhere moves the limit this service's
   poll_ready compares with: two calls in flight at limit 2, an external failure halves the
   limit (Pending although no own call started or completed), external successes raise it
   to 3 (Ready) *)
Example external_feedback_moves_readiness :
  let c := {| a_min := 1; a_max := 4; a_inc := 1 |} in
  let r := sv_run c (dec_q 1 2) 100 (sv_init c 3)
                  [ECall 0; ECall 1; EReady; EExtFail; EReady; EExtSucc; EReady; EExtSucc; EReady] in
  (snd r, sv_limit (fst r)) = ([20; 20; 11; 80; 13; 81; 13; 81; 11], 3).
Proof. vm_compute. reflexivity. Qed.

(* a panic inside inner.call() gives the slot back (before /repo commit 0debd80 the slot
   was lost for good) *)
Example sync_call_panic_gives_slot_back :
  let c := {| a_min := 1; a_max := 2; a_inc := 1 |} in
  let r := sv_run c (dec_q 1 2) 100 (sv_init c 2) [ECallPanic 0; ECallPanic 1; EReady] in
  (snd r, sv_inflight (fst r), sv_live (fst r)) = ([26; 26; 11], 0, []).
Proof. vm_compute. reflexivity. Qed.
