(* Proofs about Model/Adaptive.v: the limit stays within [min, max] for the AIMD controller
   and for Vegas under every interleaving of atomic steps (for every decrease, smoothing and
   queue-estimate function); the service's in_flight counter is exact. *)
From TR Require Import Lib.Base Model.Budget Proof.Budget Model.Adaptive.

(* ------------------------------------------------------------------------- *)
(* (a1) AimdController / Aimd *)
Section ControllerMachine.
  Context (c : acfg) (dec : Z -> Z) (thr init0 : Z).
  Context (Hmm : a_min c <= a_max c) (Hu : a_max c <= U64MAX) (Hinc : 0 <= a_inc c).

  Definition in_bounds (v : Z) : Prop := a_min c <= v <= a_max c.

  (* the stored limit is in bounds, and so is every value a limit() call returned *)
  Definition ct_G (m : mem) (log : list (orec ct_call)) (W : Z) : Prop :=
    in_bounds (m LLim) /\ Forall (fun r => r_call r = CtLimit -> in_bounds (r_ret r)) log.

  Definition ct_L (call : ct_call) (pc : ct_pc) : Prop :=
    match pc with
    | ClLoad => True
    | CnLoad n | CnCas n _ => 0 <= n /\ call <> CtLimit
    | _ => call <> CtLimit
    end.

  Lemma ct_step_ok :
    forall m log W call pc sp tid first clock,
      ct_G m log W -> ct_L call pc ->
      match p_next (ct_prog c dec thr init0) pc (o_val (exec m (p_op (ct_prog c dec thr init0) pc) sp))
                   (o_ok (exec m (p_op (ct_prog c dec thr init0) pc) sp)) with
      | inl pc' => ct_G (o_mem (exec m (p_op (ct_prog c dec thr init0) pc) sp)) log (W - 0 + 0)
                   /\ ct_L call pc'
      | inr ret => ct_G (o_mem (exec m (p_op (ct_prog c dec thr init0) pc) sp))
                        ({| r_tid := tid; r_call := call; r_ret := ret;
                            r_first := first; r_res := clock |} :: log) (W - 0)
      end.
  Proof.
    intros m log W call pc sp tid first clock [Hb Hl] HL.
    assert (Hdone : forall m', in_bounds (m' LLim) -> call <> CtLimit ->
                               ct_G m' ({| r_tid := tid; r_call := call; r_ret := 2;
                                           r_first := first; r_res := clock |} :: log) (W - 0)).
    { intros m' Hm' Hc. split; [exact Hm'|]. constructor; [cbn; intros E; contradiction|exact Hl]. }
    destruct pc as [|p| |p|n|n p| |]; unfold ct_L in HL;
      cbn [ct_prog p_next p_op ct_op ct_next exec o_val o_ok o_mem].
    - split; [split; assumption|exact HL].
    - destruct ((m LLim =? p) && negb sp) eqn:E; cbn [o_val o_ok o_mem].
      + apply andb_prop in E. destruct E as [E _]. apply Z.eqb_eq in E.
        apply Hdone; [|exact HL]. unfold in_bounds. rewrite mset_same.
        apply ctl_succ_bounds; try assumption. unfold in_bounds in Hb. lia.
      + split; [split; assumption|exact HL].
    - split; [split; assumption|exact HL].
    - destruct ((m LLim =? p) && negb sp) eqn:E; cbn [o_val o_ok o_mem].
      + apply Hdone; [|exact HL]. unfold in_bounds. rewrite mset_same.
        apply ctl_fail_bounds; assumption.
      + split; [split; assumption|exact HL].
    - split; [split; assumption|exact HL].
    - destruct ((m LLim =? p) && negb sp) eqn:E; cbn [o_val o_ok o_mem].
      + apply andb_prop in E. destruct E as [E _]. apply Z.eqb_eq in E.
        apply Hdone; [|apply HL]. unfold in_bounds. rewrite mset_same.
        apply ctl_succs_bounds; try assumption; [apply HL|]. unfold in_bounds in Hb. lia.
      + split; [split; assumption|exact HL].
    - split; [exact Hb|]. constructor; [cbn; intros _; exact Hb|exact Hl].
    - (* reset(): a plain store of the clamped initial limit *)
      apply Hdone; [|exact HL]. unfold in_bounds. rewrite mset_same. unfold ctl_init.
      apply clampz_bounds. exact Hmm.
  Qed.

  Definition ct_inv := inv (PC := ct_pc) ct_G ct_L (fun _ => 0).

  Lemma ct_reach initial progs sched :
    Forall ct_inv (states (step (ct_prog c dec thr init0)) (init_state (ct_mem c initial) progs) sched).
  Proof.
    apply inv_reach.
    - intros k; destruct k; cbn; try discriminate; try exact I.
      + split; [lia|discriminate].
      + destruct (thr <? lat); discriminate.
    - reflexivity.
    - exact ct_step_ok.
    - split; [|constructor]. cbn. unfold ctl_init. apply clampz_bounds. exact Hmm.
  Qed.
End ControllerMachine.

Lemma ct_limit_in_bounds :
  forall (c : acfg) (dec : Z -> Z) (thr init0 initial : Z) (progs : list (list ct_call))
         (sched : list (nat * bool)),
    a_min c <= a_max c -> a_max c <= U64MAX -> 0 <= a_inc c ->
    Forall (fun s => a_min c <= st_mem s LLim <= a_max c
                     /\ Forall (fun r => r_call r = CtLimit -> a_min c <= r_ret r <= a_max c)
                               (st_log s))
           (states (step (ct_prog c dec thr init0)) (init_state (ct_mem c initial) progs) sched).
Proof.
  intros c dec thr init0 initial progs sched H1 H2 H3.
  eapply Forall_impl; [|apply ct_reach; assumption].
  intros s [[Hb Hl] _]. split; [exact Hb|exact Hl].
Qed.

(* ------------------------------------------------------------------------- *)
(* (a2) Vegas: load / store on the limit, so the invariant also covers the registers that
   hold a value about to be stored *)
Section VegasMachine.
  Context (c : vcfg) (smooth : Z -> Z -> Z) (qest : Z -> Z -> Z -> Z).
  Context (Hmin : 0 <= v_min c) (Hmm : v_min c <= v_max c) (Hu : v_max c <= U64MAX).

  Definition vin_bounds (v : Z) : Prop := v_min c <= v <= v_max c.

  Definition vg_G (m : mem) (log : list (orec vg_call)) (W : Z) : Prop :=
    vin_bounds (m LLim) /\ Forall (fun r => r_call r = VgLimit -> vin_bounds (r_ret r)) log.

  Definition vg_L (call : vg_call) (pc : vg_pc) : Prop :=
    match pc with
    | VlLoad => True
    | VaStoreLim v | VfStore v => vin_bounds v /\ call <> VgLimit
    | _ => call <> VgLimit
    end.

  Lemma vg_new_bounds mn sm cur : vin_bounds cur -> vin_bounds (vg_new c qest mn sm cur).
  Proof.
    unfold vin_bounds, vg_new, sat_sub, sat_add. intros H.
    destruct (_ <? v_alpha c); [lia|]. destruct (v_beta c <? _); lia.
  Qed.

  Lemma half_bounds v : vin_bounds v -> vin_bounds (Z.max (v / 2) (v_min c)).
  Proof.
    unfold vin_bounds. intros H.
    assert (v / 2 <= v) by (apply Z.div_le_upper_bound; lia). lia.
  Qed.

  Lemma vg_step_ok :
    forall m log W call pc sp tid first clock,
      vg_G m log W -> vg_L call pc ->
      match p_next (vg_prog c smooth qest) pc
                   (o_val (exec m (p_op (vg_prog c smooth qest) pc) sp))
                   (o_ok (exec m (p_op (vg_prog c smooth qest) pc) sp)) with
      | inl pc' => vg_G (o_mem (exec m (p_op (vg_prog c smooth qest) pc) sp)) log (W - 0 + 0)
                   /\ vg_L call pc'
      | inr ret => vg_G (o_mem (exec m (p_op (vg_prog c smooth qest) pc) sp))
                        ({| r_tid := tid; r_call := call; r_ret := ret;
                            r_first := first; r_res := clock |} :: log) (W - 0)
      end.
  Proof.
    intros m log W call pc sp tid first clock [Hb Hl] HL.
    assert (Hdone : forall m', vin_bounds (m' LLim) -> call <> VgLimit ->
                               vg_G m' ({| r_tid := tid; r_call := call; r_ret := 2;
                                           r_first := first; r_res := clock |} :: log) (W - 0)).
    { intros m' Hm' Hc. split; [exact Hm'|]. constructor; [cbn; intros E; contradiction|exact Hl]. }
    assert (Hsame : vg_G m log (W - 0 + 0)) by (split; assumption).
    destruct pc as [rtt|rtt cur|rtt|v| | | |mn|mn sm|v| |v|]; unfold vg_L in HL;
      cbn [vg_prog p_next p_op vg_op vg_next exec o_val o_ok o_mem].
    - destruct (rtt <? m LMin); split; assumption.
    - destruct ((m LMin =? cur) && negb sp); cbn [o_val o_ok o_mem].
      + split; [|exact HL]. split; [|exact Hl]. rewrite mset_other by discriminate. exact Hb.
      + destruct (rtt <? m LMin); split; assumption.
    - split; assumption.
    - split; [|exact HL]. split; [|exact Hl]. rewrite mset_other by discriminate. exact Hb.
    - split; [|exact HL]. split; [|exact Hl]. rewrite mset_other by discriminate. exact Hb.
    - destruct (m LCnt <? v_min_samples c); [apply Hdone|split]; assumption.
    - split; assumption.
    - destruct ((mn =? U64MAX) || (mn =? 0) || (m LSm =? 0)); [apply Hdone|split]; assumption.
    - split; [exact Hsame|]. split; [|exact HL]. apply vg_new_bounds. exact Hb.
    - destruct HL as [Hv Hc]. apply Hdone; [|exact Hc]. rewrite mset_same. exact Hv.
    - split; [exact Hsame|]. split; [|exact HL]. apply half_bounds. exact Hb.
    - destruct HL as [Hv Hc]. apply Hdone; [|exact Hc]. rewrite mset_same. exact Hv.
    - split; [exact Hb|]. constructor; [cbn; intros _; exact Hb|exact Hl].
  Qed.

  Definition vg_inv := inv (PC := vg_pc) vg_G vg_L (fun _ => 0).

  Lemma vg_reach initial progs sched :
    Forall vg_inv (states (step (vg_prog c smooth qest)) (init_state (vg_mem c initial) progs) sched).
  Proof.
    apply inv_reach.
    - intros k; destruct k; cbn; try discriminate; exact I.
    - reflexivity.
    - exact vg_step_ok.
    - split; [|constructor]. cbn. unfold vin_bounds, clampz.
      destruct (Z.ltb_spec initial (v_min c)); [lia|]. destruct (Z.ltb_spec (v_max c) initial); lia.
  Qed.
End VegasMachine.

Lemma vg_limit_in_bounds :
  forall (c : vcfg) (smooth : Z -> Z -> Z) (qest : Z -> Z -> Z -> Z) (initial : Z)
         (progs : list (list vg_call)) (sched : list (nat * bool)),
    0 <= v_min c -> v_min c <= v_max c -> v_max c <= U64MAX ->
    Forall (fun s => v_min c <= st_mem s LLim <= v_max c
                     /\ Forall (fun r => r_call r = VgLimit -> v_min c <= r_ret r <= v_max c)
                               (st_log s))
           (states (step (vg_prog c smooth qest)) (init_state (vg_mem c initial) progs) sched).
Proof.
  intros c smooth qest initial progs sched H1 H2 H3.
  eapply Forall_impl; [|apply vg_reach; assumption].
  intros s [[Hb Hl] _]. split; [exact Hb|exact Hl].
Qed.

Lemma limit_in_bounds :
  (forall (c : acfg) (dec : Z -> Z) (thr init0 initial : Z) (progs : list (list ct_call))
          (sched : list (nat * bool)),
      a_min c <= a_max c -> a_max c <= U64MAX -> 0 <= a_inc c ->
      Forall (fun s => a_min c <= st_mem s LLim <= a_max c
                       /\ Forall (fun r => r_call r = CtLimit -> a_min c <= r_ret r <= a_max c)
                                 (st_log s))
             (states (step (ct_prog c dec thr init0)) (init_state (ct_mem c initial) progs) sched))
  /\
  (forall (c : vcfg) (smooth : Z -> Z -> Z) (qest : Z -> Z -> Z -> Z) (initial : Z)
          (progs : list (list vg_call)) (sched : list (nat * bool)),
      0 <= v_min c -> v_min c <= v_max c -> v_max c <= U64MAX ->
      Forall (fun s => v_min c <= st_mem s LLim <= v_max c
                       /\ Forall (fun r => r_call r = VgLimit -> v_min c <= r_ret r <= v_max c)
                                 (st_log s))
             (states (step (vg_prog c smooth qest)) (init_state (vg_mem c initial) progs) sched)).
Proof. split; [exact ct_limit_in_bounds|exact vg_limit_in_bounds]. Qed.

(* reset() with a configured initial limit outside [min, max] stores the CLAMPED value (an
   unclamped store would put 500 into a limiter bounded by 10) *)
Example reset_is_clamped :
  let c := {| a_min := 1; a_max := 10; a_inc := 1 |} in
  let s := fold_left (step (ct_prog c (dec_q 1 2) 0 500))
                     (map (fun t => (t, false)) [0; 0; 0; 0; 0]%nat)
                     (init_state (ct_mem c 500) [[CtFailure; CtReset; CtLimit]]) in
  (st_mem s LLim, map (@r_ret _) (st_log s)) = (10, [10; 2; 2]).
Proof. vm_compute. reflexivity. Qed.

(* non-vacuity: racing feedback on the controller, nothing is lost *)
Example controller_race :
  let c := {| a_min := 1; a_max := 10; a_inc := 1 |} in
  let s := fold_left (step (ct_prog c (dec_q 1 2) 0 5))
                     (map (fun t => (t, false)) [0; 1; 0; 1; 1]%nat)
                     (init_state (ct_mem c 5) [[CtSuccess]; [CtSuccess]]) in
  st_mem s LLim = 7.
Proof. vm_compute. reflexivity. Qed.

Example vegas_adjusts :
  let v := {| v_min := 1; v_max := 20; v_alpha := 3; v_beta := 6; v_min_samples := 2 |} in
  let s := fold_left (step (vg_prog v smooth_half qest_q))
                     (map (fun t => (t, false)) (repeat 0%nat 40))
                     (init_state (vg_mem v 10) [[VgSuccess 1024; VgSuccess 4096; VgFailure]]) in
  (st_mem s LLim, st_mem s LMin, st_mem s LSm, st_mem s LCnt) = (4, 1024, 2560, 2).
Proof. vm_compute. reflexivity. Qed.

(* the boundary the review found: initial = max = usize::MAX, ten equal RTTs (queue estimate
   0 < alpha): the limit saturates and stays at usize::MAX ... *)
Example vegas_saturates_at_usize_max :
  let v := {| v_min := 1; v_max := U64MAX; v_alpha := 3; v_beta := 6; v_min_samples := 2 |} in
  let s := fold_left (step (vg_prog v smooth_half qest_q))
                     (map (fun t => (t, false)) (repeat 0%nat 40))
                     (init_state (vg_mem v U64MAX) [[VgSuccess 1024; VgSuccess 1024]]) in
  (st_mem s LLim, st_mem s LCnt, vg_new v qest_q 1024 1024 U64MAX) = (U64MAX, 2, U64MAX).
Proof. vm_compute. reflexivity. Qed.

(* ... whereas the step as written before /repo 96e4b2b (wrapping usize addition) stores 0,
   below min_limit = 1: the bound was false of the code at this configuration *)
Example vegas_wrapped_at_usize_max :
  let v := {| v_min := 1; v_max := U64MAX; v_alpha := 3; v_beta := 6; v_min_samples := 2 |} in
  vg_new_wrap v qest_q 1024 1024 U64MAX = 0 /\ ~ (v_min v <= vg_new_wrap v qest_q 1024 1024 U64MAX).
Proof. vm_compute. split; [reflexivity|intros H; apply H; reflexivity]. Qed.

(* ------------------------------------------------------------------------- *)
(* (b) the service *)
Section KeyLists.
  Context {V : Type}.

  Lemma lookup_none_notin a (l : list (nat * V)) : lookup a l = None <-> ~ In a (map fst l).
  Proof.
    induction l as [|[k v] t IH]; cbn; [tauto|].
    destruct (Nat.eqb_spec k a).
    - split; [discriminate|]. intros H; exfalso; apply H; left; assumption.
    - rewrite IH. tauto.
  Qed.

  Lemma remove_key_in a x (l : list (nat * V)) :
    In x (map fst (remove_key a l)) -> In x (map fst l) /\ x <> a.
  Proof.
    induction l as [|[k v] t IH]; cbn; [tauto|].
    destruct (Nat.eqb_spec k a); cbn.
    - intros H. destruct (IH H). tauto.
    - intros [H|H]; [subst; tauto|]. destruct (IH H). tauto.
  Qed.

  Lemma remove_key_nodup a (l : list (nat * V)) :
    NoDup (map fst l) -> NoDup (map fst (remove_key a l)).
  Proof.
    induction l as [|[k v] t IH]; cbn; intros H; [constructor|].
    inversion H as [|? ? Hn Ht]; subst.
    destruct (Nat.eqb_spec k a); cbn; [apply IH; exact Ht|].
    constructor; [|apply IH; exact Ht]. intros Hin. apply remove_key_in in Hin. tauto.
  Qed.

  Lemma remove_key_notin a (l : list (nat * V)) :
    ~ In a (map fst l) -> remove_key a l = l.
  Proof.
    induction l as [|[k v] t IH]; cbn; intros H; [reflexivity|].
    destruct (Nat.eqb_spec k a); [exfalso; apply H; left; assumption|].
    rewrite IH; [reflexivity|tauto].
  Qed.

  Lemma remove_key_length a v (l : list (nat * V)) :
    NoDup (map fst l) -> lookup a l = Some v -> S (length (remove_key a l)) = length l.
  Proof.
    induction l as [|[k w] t IH]; cbn; intros Hn Hl; [discriminate|].
    inversion Hn as [|? ? Hk Ht]; subst.
    destruct (Nat.eqb_spec k a).
    - subst k. rewrite remove_key_notin by exact Hk. reflexivity.
    - cbn. rewrite (IH Ht Hl). reflexivity.
  Qed.
End KeyLists.

Lemma memn_true_iff a l : memn a l = true <-> In a l.
Proof.
  induction l as [|k t IH]; cbn; [split; [discriminate|tauto]|].
  rewrite orb_true_iff, IH. destruct (Nat.eqb_spec k a) as [E|E]; split; intros [H|H]; auto;
    try discriminate; contradiction.
Qed.

(* the part of the invariant that does not depend on the algorithm at all *)
Section ServiceCount.
  Context (A : alg).

  Definition sv_cinv (s : svc) : Prop :=
    sv_inflight s = Z.of_nat (length (sv_live s))
    /\ NoDup (map fst (sv_live s))
    /\ (forall a, In a (map fst (sv_live s)) -> In a (sv_created s)).

  Lemma sv_cinv_remove (s : svc) a start al :
    sv_cinv s -> lookup a (sv_live s) = Some start ->
    sv_cinv (sv_set s al (sv_inflight s - 1) (remove_key a (sv_live s))).
  Proof.
    intros (Hc & Hn & Hi) Hlk. unfold sv_cinv, sv_set; cbn.
    pose proof (remove_key_length _ _ _ Hn Hlk) as Hlen.
    split; [lia|]. split; [apply remove_key_nodup; exact Hn|].
    intros x Hx. apply remove_key_in in Hx. apply Hi. tauto.
  Qed.

  Lemma sv_cinv_step (s : svc) (e : sev) : sv_cinv s -> sv_cinv (sv_st A s e).
  Proof.
    intros H. pose proof H as (Hc & Hn & Hi).
    unfold sv_st. destruct e as [|a|a|a o|a|ms|mode|a| | |a|a|a]; cbn [sv_step].
    - destruct (sv_limit s <=? sv_inflight s); exact H.
    - destruct (memn a (sv_created s)) eqn:Em; [exact H|]. cbn.
      unfold sv_cinv; cbn [sv_inflight sv_live sv_created map fst length].
      split; [lia|]. split.
      + constructor; [|exact Hn]. intros Hin. apply Hi in Hin. apply memn_true_iff in Hin. congruence.
      + intros x [<-|Hx]; [left; reflexivity|right; apply Hi; exact Hx].
    - destruct (lookup a (sv_live s)) as [start|] eqn:El; [|exact H].
      destruct (lookup a (sv_gate s)) as [o|]; [|exact H].
      destruct (o =? 0); [|destruct (o =? 1)]; cbn [fst]; eapply sv_cinv_remove; eauto.
    - destruct (lookup a (sv_gate s)); exact H.
    - destruct (lookup a (sv_live s)) as [start|] eqn:El; [|exact H]. cbn [fst].
      eapply sv_cinv_remove; eauto.
    - exact H.
    - exact H.
    - destruct (memn a (sv_created s)) eqn:Em; [exact H|]. cbn.
      unfold sv_cinv; cbn [sv_inflight sv_live sv_created].
      split; [lia|]. split; [exact Hn|]. intros x Hx. right. apply Hi. exact Hx.
    - exact H.
    - exact H.
    - exact H.
    - destruct (lookup a (sv_park s)) as [r|]; [destruct (r =? 13)|]; exact H.
    - exact H.
  Qed.

  Lemma sv_cinv_init a0 : sv_cinv (sv_init a0).
  Proof. unfold sv_cinv, sv_init; cbn. split; [reflexivity|]. split; [constructor|tauto]. Qed.

  Lemma sv_creach a0 evs : Forall sv_cinv (states (sv_st A) (sv_init a0) evs).
  Proof. apply reach_inv; [apply sv_cinv_init|intros s e; apply sv_cinv_step]. Qed.
End ServiceCount.

(* the limit the service sees stays within any interval that the algorithm's two feedback
   functions preserve *)
Section ServiceLimit.
  Context (A : alg) (lo hi : Z)
          (Hok : forall lat a, lo <= as_lim a <= hi -> lo <= as_lim (al_ok A lat a) <= hi)
          (Herr : forall a, lo <= as_lim a <= hi -> lo <= as_lim (al_err A a) <= hi).

  Definition sv_linv (s : svc) : Prop := lo <= sv_limit s <= hi.

  Lemma sv_linv_step (s : svc) (e : sev) : sv_linv s -> sv_linv (sv_st A s e).
  Proof.
    unfold sv_linv, sv_limit, sv_st. intros H.
    destruct e as [|a|a|a o|a|ms|mode|a| | |a|a|a]; cbn [sv_step].
    - destruct (sv_limit s <=? sv_inflight s); exact H.
    - destruct (memn a (sv_created s)); exact H.
    - destruct (lookup a (sv_live s)) as [start|]; [|exact H].
      destruct (lookup a (sv_gate s)) as [o|]; [|exact H].
      destruct (o =? 0); [|destruct (o =? 1)]; cbn; auto.
    - destruct (lookup a (sv_gate s)); exact H.
    - destruct (lookup a (sv_live s)); exact H.
    - exact H.
    - exact H.
    - destruct (memn a (sv_created s)); exact H.
    - cbn. auto.
    - cbn. auto.
    - exact H.
    - destruct (lookup a (sv_park s)) as [r|]; [destruct (r =? 13)|]; exact H.
    - exact H.
  Qed.

  Lemma sv_lreach a0 evs :
    lo <= as_lim a0 <= hi -> Forall sv_linv (states (sv_st A) (sv_init a0) evs).
  Proof. intros H. apply reach_inv; [exact H|intros s e; apply sv_linv_step]. Qed.
End ServiceLimit.

(* the two algorithms preserve [min, max] *)
Lemma aimd_alg_ok (c : acfg) (dec : Z -> Z) (thr : Z) :
  a_min c <= a_max c -> a_max c <= U64MAX -> 0 <= a_inc c ->
  (forall lat a, a_min c <= as_lim a <= a_max c ->
                 a_min c <= as_lim (al_ok (aimd_alg c dec thr) lat a) <= a_max c)
  /\ (forall a, a_min c <= as_lim a <= a_max c ->
                a_min c <= as_lim (al_err (aimd_alg c dec thr) a) <= a_max c).
Proof.
  intros Hmm Hu Hinc. split.
  - intros lat a H. cbn. destruct (thr <? lat).
    + apply ctl_fail_bounds; exact Hmm.
    + apply ctl_succ_bounds; try assumption. lia.
  - intros a H. cbn. apply ctl_fail_bounds; exact Hmm.
Qed.

Lemma vegas_alg_ok (c : vcfg) (smooth : Z -> Z -> Z) (qest : Z -> Z -> Z -> Z) :
  0 <= v_min c -> v_min c <= v_max c -> v_max c <= U64MAX ->
  (forall lat a, v_min c <= as_lim a <= v_max c ->
                 v_min c <= as_lim (al_ok (vegas_alg c smooth qest) lat a) <= v_max c)
  /\ (forall a, v_min c <= as_lim a <= v_max c ->
                v_min c <= as_lim (al_err (vegas_alg c smooth qest) a) <= v_max c).
Proof.
  intros Hmin Hmm Hu. split.
  - intros lat a H. cbn [vegas_alg al_ok vs_succ as_lim].
    destruct (_ <? v_min_samples c); [exact H|].
    destruct (_ || _); [exact H|].
    apply (vg_new_bounds c qest Hmin Hmm Hu). exact H.
  - intros a H. cbn. apply (half_bounds c Hmin Hmm). exact H.
Qed.

(* in_flight = number of call futures created and not yet finished / failed / panicked /
   dropped, in every reachable state, whatever the algorithm does (a call() whose
   inner.call() panics creates no future and gives its slot back while unwinding) *)
Lemma inflight_exact :
  forall (A : alg) (a0 : ast) (evs : list sev),
    Forall (fun s => sv_inflight s = Z.of_nat (length (sv_live s))
                     /\ NoDup (map fst (sv_live s)))
           (states (sv_st A) (sv_init a0) evs).
Proof.
  intros A a0 evs.
  eapply Forall_impl; [|apply sv_creach].
  intros s (Hc & Hn & _). split; assumption.
Qed.

(* the same as a balance over the history of result codes: +1 for every call future
   created (20), -1 for every poll that returned Ok (31), Err (32) or panicked (35) and for
   every drop of a live future (50) *)
Lemma sv_step_delta A s e :
  sv_inflight (fst (sv_step A s e)) = sv_inflight s + code_delta (snd (sv_step A s e)).
Proof.
  destruct e as [|a|a|a o|a|ms|mode|a| | |a|a|a]; cbn [sv_step].
  - destruct (sv_limit s <=? sv_inflight s); cbn; [lia|].
    destruct (sv_inner s =? 0); [cbn; lia|]. destruct (sv_inner s =? 1); cbn; lia.
  - destruct (memn a (sv_created s)); cbn; lia.
  - destruct (lookup a (sv_live s)); [|cbn; lia]. destruct (lookup a (sv_gate s)) as [o|]; [|cbn; lia].
    destruct (o =? 0); [cbn; lia|]. destruct (o =? 1); cbn; lia.
  - destruct (lookup a (sv_gate s)); cbn; lia.
  - destruct (lookup a (sv_live s)); cbn; lia.
  - cbn; lia.
  - cbn; lia.
  - destruct (memn a (sv_created s)); cbn; lia.
  - cbn; lia.
  - cbn; lia.
  - cbn [fst snd sv_set_park sv_inflight]. unfold ready_code.
    destruct (sv_limit s <=? sv_inflight s); [cbn; lia|].
    destruct (sv_inner s =? 0); [cbn; lia|]. destruct (sv_inner s =? 1); cbn; lia.
  - destruct (lookup a (sv_park s)) as [r|]; [destruct (r =? 13)|]; cbn; lia.
  - cbn; lia.
Qed.

Lemma sv_run_state A s evs :
  fst (sv_run A s evs) = fold_left (sv_st A) evs s.
Proof.
  revert s; induction evs as [|e t IH]; intros s; cbn; [reflexivity|].
  unfold sv_st at 2. destruct (sv_step A s e) as [s' r].
  specialize (IH s'). destruct (sv_run A s' t) as [s'' rs]. cbn in *. exact IH.
Qed.

Lemma inflight_history :
  forall (A : alg) (s : svc) (evs : list sev),
    sv_inflight (fst (sv_run A s evs))
    = sv_inflight s + sumz (map code_delta (snd (sv_run A s evs))).
Proof.
  intros A s evs; revert s; induction evs as [|e t IH]; intros s; cbn; [lia|].
  pose proof (sv_step_delta A s e) as Hd.
  destruct (sv_step A s e) as [s' r]. specialize (IH s').
  destruct (sv_run A s' t) as [s'' rs]. cbn in *. lia.
Qed.

Lemma inflight_history_init :
  forall (A : alg) (a0 : ast) (evs : list sev),
    sv_inflight (fst (sv_run A (sv_init a0) evs))
    = sumz (map code_delta (snd (sv_run A (sv_init a0) evs))).
Proof. intros. rewrite inflight_history. cbn. lia. Qed.

Lemma zero_when_idle :
  forall (A : alg) (a0 : ast) (evs : list sev),
    Forall (fun s => sv_live s = [] -> sv_inflight s = 0)
           (states (sv_st A) (sv_init a0) evs).
Proof.
  intros A a0 evs.
  eapply Forall_impl; [|apply (inflight_exact A a0 evs)].
  cbn. intros s [Hc _] Hlive. rewrite Hc, Hlive. reflexivity.
Qed.

(* poll_ready *)
Lemma ready_when_below :
  forall (A : alg) (s : svc),
    sv_inflight s < sv_limit s -> sv_inner s = 0 ->
    sv_step A s EReady = (s, 11).
Proof.
  intros A s H Hi. cbn. destruct (Z.leb_spec (sv_limit s) (sv_inflight s)); [lia|].
  rewrite Hi. reflexivity.
Qed.

Lemma ready_when_below_live :
  forall (A : alg) (a0 : ast) (evs : list sev),
    Forall (fun s => Z.of_nat (length (sv_live s)) < sv_limit s -> sv_inner s = 0 ->
                     sv_step A s EReady = (s, 11))
           (states (sv_st A) (sv_init a0) evs).
Proof.
  intros A a0 evs.
  eapply Forall_impl; [|apply (inflight_exact A a0 evs)].
  cbn beta. intros s [Hc _] Hlt Hi. apply ready_when_below; [lia|exact Hi].
Qed.

Lemma pending_when_at_limit :
  forall (A : alg) (s : svc),
    sv_limit s <= sv_inflight s ->
    sv_step A s EReady = (s, 13).
Proof.
  intros A s H. cbn. destruct (Z.leb_spec (sv_limit s) (sv_inflight s)); [reflexivity|lia].
Qed.

(* ... and in every reachable state in terms of the live call futures: a readiness check made
   while limit (or more) calls are in flight does not admit the caller *)
Lemma pending_when_at_limit_live :
  forall (A : alg) (a0 : ast) (evs : list sev),
    Forall (fun s => sv_limit s <= Z.of_nat (length (sv_live s)) ->
                     sv_step A s EReady = (s, 13))
           (states (sv_st A) (sv_init a0) evs).
Proof.
  intros A a0 evs.
  eapply Forall_impl; [|apply (inflight_exact A a0 evs)].
  cbn beta. intros s [Hc _] Hle. apply pending_when_at_limit. lia.
Qed.

(* no lost wake-up: a parked caller (own clone, own waker) that was refused AT THE LIMIT had its
   waker woken by that very check, and it stays woken until the caller checks again or goes away,
   whatever happens in between; a check below the limit is answered with the inner service's
   readiness *)
Lemma parked_refusal_is_a_wake :
  forall (A : alg) (s : svc) (a : nat),
    let s' := fst (sv_step A s (EPark a)) in
    snd (sv_step A s (EPark a)) = ready_code s
    /\ (sv_limit s <= sv_inflight s -> snd (sv_step A s' (EWoken a)) = 91)
    /\ (sv_inflight s < sv_limit s -> sv_inner s = 0 -> snd (sv_step A s (EPark a)) = 11).
Proof.
  intros A s a. cbn [sv_step fst snd sv_set_park sv_park lookup]. rewrite Nat.eqb_refl.
  unfold ready_code. split; [reflexivity|]. split.
  - intros H. destruct (Z.leb_spec (sv_limit s) (sv_inflight s)); [reflexivity|lia].
  - intros H Hi. destruct (Z.leb_spec (sv_limit s) (sv_inflight s)); [lia|]. rewrite Hi. reflexivity.
Qed.

Lemma lookup_remove_key_other {V : Type} a b (l : list (nat * V)) :
  a <> b -> lookup a (remove_key b l) = lookup a l.
Proof.
  intros Hne. induction l as [|[k v] t IH]; cbn; [reflexivity|].
  destruct (Nat.eqb_spec k b).
  - subst k. destruct (Nat.eqb_spec b a); [congruence|exact IH].
  - cbn. destruct (Nat.eqb_spec k a); [reflexivity|exact IH].
Qed.

(* the wake survives every event that is not a new check or the departure of that caller *)
Lemma woken_is_stable :
  forall (A : alg) (s : svc) (e : sev) (a : nat),
    e <> EPark a -> e <> EUnpark a ->
    snd (sv_step A s (EWoken a)) = 91 ->
    snd (sv_step A (sv_st A s e) (EWoken a)) = 91.
Proof.
  intros A s e a H1 H2. unfold sv_st. cbn [sv_step snd].
  assert (Hsame : sv_park (fst (sv_step A s e)) = sv_park s \/
                  exists b, a <> b /\ (lookup a (sv_park (fst (sv_step A s e))) = lookup a (sv_park s))).
  { destruct e as [|b|b|b o|b|ms|mode|b| | |b|b|b]; cbn [sv_step].
    - left. destruct (sv_limit s <=? sv_inflight s); reflexivity.
    - left. destruct (memn b (sv_created s)); reflexivity.
    - left. destruct (lookup b (sv_live s)); [|reflexivity]. destruct (lookup b (sv_gate s)) as [o|]; [|reflexivity].
      destruct (o =? 0); [reflexivity|]. destruct (o =? 1); reflexivity.
    - left. destruct (lookup b (sv_gate s)); reflexivity.
    - left. destruct (lookup b (sv_live s)); reflexivity.
    - left. reflexivity.
    - left. reflexivity.
    - left. destruct (memn b (sv_created s)); reflexivity.
    - left. reflexivity.
    - left. reflexivity.
    - right. exists b. assert (a <> b) by (intros ->; apply H1; reflexivity). split; [assumption|].
      cbn [fst sv_set_park sv_park lookup]. destruct (Nat.eqb_spec b a); [congruence|].
      apply lookup_remove_key_other. assumption.
    - left. reflexivity.
    - right. exists b. assert (a <> b) by (intros ->; apply H2; reflexivity). split; [assumption|].
      cbn [fst sv_set_park sv_park]. apply lookup_remove_key_other. assumption. }
  destruct Hsame as [E|[b [_ E]]]; rewrite E; auto.
Qed.

(* the limit the service compares with stays in bounds, for both algorithms *)
Lemma service_limit_in_bounds :
  (forall (c : acfg) (dec : Z -> Z) (thr initial : Z) (evs : list sev),
      a_min c <= a_max c -> a_max c <= U64MAX -> 0 <= a_inc c ->
      Forall (fun s => a_min c <= sv_limit s <= a_max c)
             (states (sv_st (aimd_alg c dec thr)) (sv_init (aimd_init c initial)) evs))
  /\
  (forall (c : vcfg) (smooth : Z -> Z -> Z) (qest : Z -> Z -> Z -> Z) (initial : Z)
          (evs : list sev),
      0 <= v_min c -> v_min c <= v_max c -> v_max c <= U64MAX ->
      Forall (fun s => v_min c <= sv_limit s <= v_max c)
             (states (sv_st (vegas_alg c smooth qest)) (sv_init (vegas_init c initial)) evs)).
Proof.
  split.
  - intros c dec thr initial evs H1 H2 H3.
    destruct (aimd_alg_ok c dec thr H1 H2 H3) as [Hok Herr].
    apply (sv_lreach _ _ _ Hok Herr). cbn. unfold ctl_init. apply clampz_bounds. exact H1.
  - intros c smooth qest initial evs H1 H2 H3.
    destruct (vegas_alg_ok c smooth qest H1 H2 H3) as [Hok Herr].
    apply (sv_lreach _ _ _ Hok Herr). cbn. unfold clampz.
    destruct (Z.ltb_spec initial (v_min c)); [lia|]. destruct (Z.ltb_spec (v_max c) initial); lia.
Qed.

(* ---- what run_script prints for a service script ---- *)
(* every (code, in_flight, limit) triple of the event part comes from a reachable state, and
   in that state in_flight is the number of live call futures *)
Lemma sv_trace_triples A s evs :
  Forall (fun w => exists s', In s' (states (sv_st A) s evs)
                              /\ snd (fst w) = sv_inflight s' /\ snd w = sv_limit s')
         (chunk3 (snd (sv_trace A s evs))).
Proof.
  revert s; induction evs as [|e t IH]; intros s; cbn [sv_trace].
  - constructor.
  - pose proof (IH (sv_st A s e)) as H. unfold sv_st in H |- *.
    cbn [states]. destruct (sv_step A s e) as [s' r]. cbn [fst] in H.
    destruct (sv_trace A s' t) as [s'' tr]. cbn [snd chunk3] in *.
    constructor.
    + exists s'. cbn. split; [|split; reflexivity].
      right. destruct t; cbn; left; reflexivity.
    + eapply Forall_impl; [|exact H]. cbn beta. intros w (x & Hx & Hw). exists x. split; [right; exact Hx|exact Hw].
Qed.

Lemma trace_inflight_exact :
  forall (A : alg) (a0 : ast) (evs : list sev),
    Forall (fun w => exists s, In s (states (sv_st A) (sv_init a0) evs)
                               /\ snd (fst w) = Z.of_nat (length (sv_live s))
                               /\ snd w = sv_limit s)
           (chunk3 (snd (sv_trace A (sv_init a0) evs))).
Proof.
  intros A a0 evs.
  eapply Forall_impl; [|apply sv_trace_triples].
  cbn beta. intros w (s & Hs & H1 & H2). exists s. split; [exact Hs|]. split; [|exact H2].
  pose proof (inflight_exact A a0 evs) as Hf. rewrite Forall_forall in Hf.
  destruct (Hf s Hs) as [Hc _]. lia.
Qed.

(* the closing part of every service script: all futures still alive are dropped, the inner
   service made ready, a probe caller checks readiness. Whatever happened before, the
   counter is back to zero and the probe is admitted (unless the limit itself is 0) *)
Lemma drop_all A (l : list nat) s :
  (forall a, In a (map fst (sv_live s)) -> In a l) ->
  sv_live (fold_left (sv_st A) (map EDrop l) s) = [].
Proof.
  revert s; induction l as [|a l IH]; intros s H; cbn [map fold_left].
  - destruct (sv_live s) as [|[k v] t]; [reflexivity|]. exfalso. apply (H k). left; reflexivity.
  - apply IH. unfold sv_st; cbn [sv_step].
    destruct (lookup a (sv_live s)) as [st|] eqn:El; cbn [fst].
    + cbn. intros x Hx. apply remove_key_in in Hx. destruct Hx as [Hx Hne].
      destruct (H x Hx) as [E|E]; [congruence|exact E].
    + intros x Hx. destruct (H x Hx) as [E|E]; [|exact E].
      subst x. apply lookup_none_notin in El. contradiction.
Qed.

Lemma fold_sv_run A evs1 evs2 s :
  fold_left (sv_st A) (evs1 ++ evs2) s = fold_left (sv_st A) evs2 (fold_left (sv_st A) evs1 s).
Proof. apply fold_left_app. Qed.

Lemma sv_trace_state A s evs : fst (sv_trace A s evs) = fold_left (sv_st A) evs s.
Proof.
  revert s; induction evs as [|e t IH]; intros s; cbn; [reflexivity|].
  unfold sv_st at 2. destruct (sv_step A s e) as [s' r].
  specialize (IH s'). destruct (sv_trace A s' t) as [s'' rs]. cbn in *. exact IH.
Qed.

Lemma script_probe :
  forall (A : alg) (a0 : ast) (evs : list sev),
    exists tr lim,
      sv_script A a0 evs = tr ++ [if lim <=? 0 then 13 else 11; 0; lim]
      /\ tr = snd (sv_trace A (sv_init a0) evs).
Proof.
  intros A a0 evs. unfold sv_script.
  pose proof (sv_trace_state A (sv_init a0) evs) as Hst.
  destruct (sv_trace A (sv_init a0) evs) as [s1 tr]. cbn [fst snd] in *.
  set (closing := map (fun p => EDrop (fst p)) (sv_live s1) ++ [ESetInner 0]).
  set (s2 := fold_left (sv_st A) closing s1).
  assert (Hreach : sv_cinv s2).
  { unfold s2. rewrite Hst, <- fold_left_app. apply fold_left_inv; [apply sv_cinv_init|].
    intros s e. apply sv_cinv_step. }
  assert (Hlive : sv_live s2 = []).
  { unfold s2, closing. rewrite fold_left_app. cbn [fold_left sv_st sv_step fst sv_live].
    rewrite <- (map_map fst EDrop). apply drop_all. auto. }
  assert (Hinner : sv_inner s2 = 0).
  { unfold s2, closing. rewrite fold_left_app. reflexivity. }
  destruct Hreach as (Hc & _ & _). rewrite Hlive in Hc. cbn in Hc.
  exists tr, (sv_limit s2). split; [|reflexivity].
  cbn [sv_step]. rewrite Hinner. cbn [Z.eqb]. rewrite Hc.
  destruct (sv_limit s2 <=? 0); rewrite ?Hc; reflexivity.
Qed.

(* non-vacuity / regression shapes *)
Example cancelled_calls_give_slots_back :
  let c := {| a_min := 1; a_max := 2; a_inc := 1 |} in
  let r := sv_run (aimd_alg c (dec_q 1 2) 100) (sv_init (aimd_init c 2))
                  [ECall 0; ECall 1; EReady; EPoll 0; EPoll 1; EDrop 0; EDrop 1; EReady] in
  (snd r, sv_inflight (fst r)) = ([20; 20; 13; 30; 30; 50; 50; 11], 0).
Proof. vm_compute. reflexivity. Qed.

(* the same history on the service as it was on the pinned tree (no guard: a dropped call
   keeps its slot): in_flight stays 2 with nothing alive and readiness is refused for ever.
   [inflight_exact] is false of that machine: the theorem discriminates. *)
Example pinned_service_refuted :
  let c := {| a_min := 1; a_max := 2; a_inc := 1 |} in
  let A := aimd_alg c (dec_q 1 2) 100 in
  let s := fold_left (fun s e => fst (sv_step_pinned A s e))
                     [ECall 0; ECall 1; EDrop 0; EDrop 1] (sv_init (aimd_init c 2)) in
  (sv_inflight s, sv_live s, snd (sv_step_pinned A s EReady)) = (2, [], 13)
  /\ ~ (sv_inflight s = Z.of_nat (length (sv_live s))).
Proof. vm_compute. split; [reflexivity|discriminate]. Qed.

(* feedback that reaches the shared algorithm from elsewhere moves the limit this service's
   poll_ready compares with: two calls in flight at limit 2, an external failure halves the
   limit (Pending although no own call started or completed), external successes raise it
   to 3 (Ready) *)
Example external_feedback_moves_readiness :
  let c := {| a_min := 1; a_max := 4; a_inc := 1 |} in
  let r := sv_run (aimd_alg c (dec_q 1 2) 100) (sv_init (aimd_init c 3))
                  [ECall 0; ECall 1; EReady; EExtFail; EReady; EExtSucc; EReady; EExtSucc; EReady] in
  (snd r, sv_limit (fst r)) = ([20; 20; 11; 80; 13; 81; 13; 81; 11], 3).
Proof. vm_compute. reflexivity. Qed.

(* a panic inside inner.call() gives the slot back (before /repo commit 0debd80 the slot
   was lost for good) *)
Example sync_call_panic_gives_slot_back :
  let c := {| a_min := 1; a_max := 2; a_inc := 1 |} in
  let r := sv_run (aimd_alg c (dec_q 1 2) 100) (sv_init (aimd_init c 2)) [ECallPanic 0; ECallPanic 1; EReady] in
  (snd r, sv_inflight (fst r), sv_live (fst r)) = ([26; 26; 11], 0, []).
Proof. vm_compute. reflexivity. Qed.

(* the service over Vegas: ten calls of 2 ms warm the estimator up (limit 3 -> 4 at the tenth),
   two slow ones (64 ms) push the queue estimate over beta: the limit goes down to 3, then 2 *)
Example vegas_service_adjusts :
  let v := {| v_min := 1; v_max := 5; v_alpha := 3; v_beta := 6; v_min_samples := 10 |} in
  let one := fun (a : nat) (ms : Z) => [ECall a; EAdvance ms; EComplete a 0; EPoll a] in
  let evs := concat (map (fun a => one a 2) (seq 0 10)) ++ one 10%nat 64 ++ one 11%nat 64 in
  let r := sv_run (vegas_alg v smooth_half qest_q) (sv_init (vegas_init v 3)) evs in
  (sv_limit (fst r), sv_inflight (fst r), as_mn (sv_alg (fst r)), as_cnt (sv_alg (fst r)))
  = (2, 0, 2000000, 12).
Proof. vm_compute. reflexivity. Qed.

(* the sequential reading [vs_succ] / [vs_fail] of Vegas used by the service model agrees with
   the atomic-step program [vg_prog] run by one thread alone (checked by evaluation on a
   warm-up, increase, decrease and failure sequence; both are compared with the implementation
   by the correspondence run: kind 3 drives vg_prog's steps, kinds 6 / 8 the sequential reading) *)
Definition ast_of_mem (m : mem) : ast :=
  {| as_lim := m LLim; as_mn := m LMin; as_sm := m LSm; as_cnt := m LCnt |}.

Example vegas_alone_is_sequential_on_samples :
  let v := {| v_min := 1; v_max := 6; v_alpha := 3; v_beta := 6; v_min_samples := 10 |} in
  let rtts := [2; 2; 2; 2; 2; 2; 2; 2; 2; 2; 2; 64; 64; 1; 0; 64; 2; 2] in
  let calls := map (fun r => VgSuccess (r * NS_PER_MS)) rtts ++ [VgFailure; VgSuccess (3 * NS_PER_MS)] in
  let s := fold_left (step (vg_prog v smooth_half qest_q))
                     (map (fun t => (t, false)) (repeat 0%nat 250))
                     (init_state (vg_mem v 3) [calls]) in
  let seq := fold_left (fun a k => match k with
                                   | VgSuccess r => vs_succ v smooth_half qest_q r a
                                   | VgFailure => vs_fail v a
                                   | VgLimit => a
                                   end) calls (vegas_init v 3) in
  (ast_of_mem (st_mem s), map (@th_cur _ _) (st_thr s), length (st_log s))
  = (seq, [None], 20%nat).
Proof. vm_compute. reflexivity. Qed.

(* ------------------------------------------------------------------------- *)
(* (c) the service under threads: clones on worker threads, atomic steps interleaved *)
Section TvMachine.
  Context (c : acfg) (dec : Z -> Z).
  Context (Hmm : a_min c <= a_max c) (Hu : a_max c <= U64MAX) (Hinc : 0 <= a_inc c).

  Definition tv_G (m : mem) (log : list (orec tv_call)) (W : Z) : Prop :=
    m LInf = countz tv_is_call log - countz tv_is_finish log + W
    /\ a_min c <= m LLim <= a_max c.

  Definition tv_L (call : tv_call) (pc : tv_pc) : Prop :=
    match pc with
    | TrLim | TrInf _ => call = TvReady
    | TcAdd | TcLim | TcCur _ | TcStore _ => call = TvCall
    | TpAdd | TpSub => call = TvCallPanic
    | TfSub o => call = TvFinish o
    | _ => exists o, call = TvFinish o
    end.

  Lemma tv_call_cons tid call ret first clock (log : list (orec tv_call)) :
    countz tv_is_call ({| r_tid := tid; r_call := call; r_ret := ret; r_first := first;
                          r_res := clock |} :: log)
    = b2z (match call with TvCall => true | _ => false end) + countz tv_is_call log.
  Proof. reflexivity. Qed.

  Lemma tv_finish_cons tid call ret first clock (log : list (orec tv_call)) :
    countz tv_is_finish ({| r_tid := tid; r_call := call; r_ret := ret; r_first := first;
                            r_res := clock |} :: log)
    = b2z (match call with TvFinish _ => true | _ => false end) + countz tv_is_finish log.
  Proof. reflexivity. Qed.

  Ltac tv_cnt := rewrite tv_call_cons, tv_finish_cons; cbn [b2z].

  Lemma tv_step_ok :
    forall m log W call pc sp tid first clock,
      tv_G m log W -> tv_L call pc ->
      match p_next (tv_prog c dec) pc (o_val (exec m (p_op (tv_prog c dec) pc) sp))
                   (o_ok (exec m (p_op (tv_prog c dec) pc) sp)) with
      | inl pc' => tv_G (o_mem (exec m (p_op (tv_prog c dec) pc) sp)) log
                        (W - tv_weight pc + tv_weight pc') /\ tv_L call pc'
      | inr ret => tv_G (o_mem (exec m (p_op (tv_prog c dec) pc) sp))
                        ({| r_tid := tid; r_call := call; r_ret := ret;
                            r_first := first; r_res := clock |} :: log) (W - tv_weight pc)
      end.
  Proof.
    intros m log W call pc sp tid first clock [Hc Hb] HL.
    destruct pc as [|lim| | |a|a| | |o|r|r p|r|r p|r|r a|r a]; unfold tv_L in HL;
      cbn [tv_prog p_next p_op tv_op tv_next exec o_val o_ok o_mem tv_weight].
    - (* poll_ready: limit() *) split; [split; [lia|exact Hb]|exact HL].
    - (* poll_ready: in_flight.load() *) subst call. split; [tv_cnt; lia|exact Hb].
    - (* call: fetch_add *) split; [|exact HL]. split.
      + rewrite mset_same. lia.
      + rewrite mset_other by discriminate. exact Hb.
    - (* call: limit() *) split; [split; [lia|exact Hb]|exact HL].
    - (* call: current_limit.load() *) subst call. destruct (a =? m LCur); cbn [tv_weight].
      + split; [tv_cnt; lia|exact Hb].
      + split; [split; [lia|exact Hb]|reflexivity].
    - (* call: current_limit.store() *) subst call. split.
      + rewrite mset_other by discriminate. tv_cnt. lia.
      + rewrite mset_other by discriminate. exact Hb.
    - (* panicking call: fetch_add *) split; [|exact HL]. split.
      + rewrite mset_same. lia.
      + rewrite mset_other by discriminate. exact Hb.
    - (* panicking call: the guard's fetch_sub *) subst call. split.
      + rewrite mset_same. tv_cnt. lia.
      + rewrite mset_other by discriminate. exact Hb.
    - (* the guard's fetch_sub *) subst call.
      destruct (o =? 0); [|destruct (o =? 1); [|destruct (o =? 2)]]; cbn [tv_weight].
      + split; [|exists o; reflexivity]. split; [rewrite mset_same; lia|].
        rewrite mset_other by discriminate. exact Hb.
      + split; [|exists o; reflexivity]. split; [rewrite mset_same; lia|].
        rewrite mset_other by discriminate. exact Hb.
      + split; [rewrite mset_same; tv_cnt; lia|]. rewrite mset_other by discriminate. exact Hb.
      + split; [rewrite mset_same; tv_cnt; lia|]. rewrite mset_other by discriminate. exact Hb.
    - (* record_success: load *) split; [split; [lia|exact Hb]|exact HL].
    - (* record_success: cas *)
      destruct ((m LLim =? p) && negb sp) eqn:E; cbn [o_val o_ok o_mem tv_weight].
      + apply andb_prop in E. destruct E as [E _]. apply Z.eqb_eq in E.
        split; [|exact HL]. split; [rewrite mset_other by discriminate; lia|].
        rewrite mset_same. apply ctl_succ_bounds; try assumption. lia.
      + split; [split; [lia|exact Hb]|exact HL].
    - (* record_failure: load *) split; [split; [lia|exact Hb]|exact HL].
    - (* record_failure: cas *)
      destruct ((m LLim =? p) && negb sp) eqn:E; cbn [o_val o_ok o_mem tv_weight].
      + split; [|exact HL]. split; [rewrite mset_other by discriminate; lia|].
        rewrite mset_same. apply ctl_fail_bounds; assumption.
      + split; [split; [lia|exact Hb]|exact HL].
    - (* limit() *) split; [split; [lia|exact Hb]|exact HL].
    - (* current_limit.load() *) destruct HL as [o ->]. destruct (a =? m LCur); cbn [tv_weight].
      + split; [tv_cnt; lia|exact Hb].
      + split; [split; [lia|exact Hb]|exists o; reflexivity].
    - (* current_limit.store() *) destruct HL as [o ->]. split.
      + rewrite mset_other by discriminate. tv_cnt. lia.
      + rewrite mset_other by discriminate. exact Hb.
  Qed.

  Definition tv_inv := inv (PC := tv_pc) tv_G tv_L tv_weight.

  Lemma tv_reach initial progs sched :
    Forall tv_inv (states (step (tv_prog c dec)) (init_state (tv_mem c initial) progs) sched).
  Proof.
    apply inv_reach.
    - intros k; destruct k; cbn; auto.
    - intros k; destruct k; reflexivity.
    - exact tv_step_ok.
    - split; cbn; [reflexivity|]. unfold ctl_init. apply clampz_bounds. exact Hmm.
  Qed.
End TvMachine.

(* in_flight = futures created - futures finished, where a future counts as created from the
   fetch_add of its call() on (completed calls + calls past their fetch_add) and as finished
   from the guard's fetch_sub on; at quiescence these are the completed calls and finishes.
   For every number of clones/threads, every program, every interleaving. *)
Lemma tv_inflight_exact :
  forall (c : acfg) (dec : Z -> Z) (initial : Z) (progs : list (list tv_call))
         (sched : list (nat * bool)),
    a_min c <= a_max c -> a_max c <= U64MAX -> 0 <= a_inc c ->
    Forall (fun s => st_mem s LInf = tv_created s - tv_finished s + tv_in_progress s
                     /\ (quiescent s -> st_mem s LInf = tv_created s - tv_finished s)
                     /\ a_min c <= st_mem s LLim <= a_max c)
           (states (step (tv_prog c dec)) (init_state (tv_mem c initial) progs) sched).
Proof.
  intros c dec initial progs sched H1 H2 H3.
  eapply Forall_impl; [|apply tv_reach; assumption].
  intros s [[Hc Hb] _]. unfold tv_created, tv_finished, tv_in_progress.
  split; [exact Hc|]. split; [|exact Hb].
  intros Hq. rewrite (wsum_quiescent _ _ Hq) in Hc. lia.
Qed.

(* two clones, limit 1: worker 0 is admitted and calls; worker 1's readiness check, made while
   that call is in flight, is refused; after worker 0's call has finished it is admitted *)
Example clones_share_the_counter :
  let c := {| a_min := 1; a_max := 1; a_inc := 1 |} in
  let s := fold_left (step (tv_prog c (dec_q 1 2)))
                     (map (fun t => (t, false)) [0; 0; 0; 0; 0; 1; 1; 0; 0; 0; 0; 0; 0; 1; 1]%nat)
                     (init_state (tv_mem c 1) [[TvReady; TvCall; TvFinish 0]; [TvReady; TvReady]]) in
  (map (fun r => (r_tid r, r_ret r)) (rev (st_log s)), st_mem s LInf)
  = ([(0%nat, 11); (0%nat, 20); (1%nat, 13); (0%nat, 31); (1%nat, 11)], 0).
Proof. vm_compute. reflexivity. Qed.

(* a release that is a load followed by a store (instead of one fetch_sub) loses a decrement
   when two completions interleave: two slots taken, both released, the counter says 1 *)
Example nonatomic_release_refuted :
  let m0 : mem := fun l => match l with LInf => 2 | _ => 0 end in
  let s := fold_left (step tvn_prog) (map (fun t => (t, false)) [0; 1; 0; 1]%nat)
                     (init_state m0 [[tt]; [tt]]) in
  (st_mem s LInf, map (@th_cur _ _) (st_thr s)) = (1, [None; None]).
Proof. vm_compute. reflexivity. Qed.
