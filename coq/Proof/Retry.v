(* Proofs about Model/Retry.v: the run of one request as a function of its outcome
   stream ([retry_run]), invariants of the poll-granular step machine of several requests
   sharing one token bucket ([step], what run_script executes), progress of one poll under
   the cooperative budget, and the refinement between the two layers: what the step
   machine does for a request that has returned is exactly a run of [retry_run]. *)
From TR Require Import Lib.Base Lib.TokioTime Model.Retry.

Lemma app_eq_len {A} (l1 l1' l2 l2' : list A) :
  length l1 = length l1' -> l1 ++ l2 = l1' ++ l2' -> l1 = l1' /\ l2 = l2'.
Proof.
  revert l1'. induction l1 as [|x l1 IH]; intros [|y l1'] Hl H; try discriminate.
  - split; [reflexivity|exact H].
  - cbn in H. inversion H; subst. cbn in Hl. destruct (IH l1') as [-> ->]; [lia|assumption|].
    split; reflexivity.
Qed.

Section RetryProofs.
  Context {Res Err : Type}.
  Notation outcome := (outcome Res Err).
  Notation call := (call Res Err).
  Notation run := (run Res Err).
  Notation cfg := (cfg Err).

  (* ------------------------------------------------------------------ *)
  (* the loop body *)
  Lemma after_retry (c : cfg) hb max a (o : outcome) g bo d :
    after_outcome c hb max a o g = (bo, ARetry d) ->
    exists e, o = Fail e /\ should_retry c e = true /\ (S a < max)%nat /\
              d = backoff c a /\ bo = (if hb then [BWithdraw true] else []) /\ (hb = true -> g = true).
  Proof.
    unfold after_outcome. destruct o as [v|e]; [destruct hb; discriminate|].
    destruct (should_retry c e) eqn:Es; cbn [negb]; [|discriminate].
    destruct (max <=? a + 1)%nat eqn:Em; [discriminate|].
    apply Nat.leb_gt in Em.
    destruct hb; [destruct g|]; intros H; inversion H; subst;
      exists e; repeat split; try reflexivity; try lia; try discriminate; try exact Es.
  Qed.

  Definition tail_ops (hb : bool) (w : why) : list bop :=
    if hb then
      match w with
      | WOk => [BDeposit] | WDenied => [BWithdraw false] | WNotReady => [BWithdraw true] | _ => []
      end
    else [].

  Lemma after_return (c : cfg) hb max a (o : outcome) g bo x w :
    after_outcome c hb max a o g = (bo, AReturn x w) ->
    bo = tail_ops hb w /\
    match w with
    | WOk => exists v, o = Ok v /\ x = inl v
    | WRefused => exists e, o = Fail e /\ should_retry c e = false /\ x = inr e
    | WMax => exists e, o = Fail e /\ should_retry c e = true /\ (max <= S a)%nat /\ x = inr e
    | WDenied => exists e, o = Fail e /\ should_retry c e = true /\ (S a < max)%nat /\
                           hb = true /\ g = false /\ x = inr e
    | WNotReady | WFuel => False
    end.
  Proof.
    unfold after_outcome, tail_ops. destruct o as [v|e].
    - intros H. inversion H; subst. split; [destruct hb; reflexivity|]. exists v. split; reflexivity.
    - destruct (should_retry c e) eqn:Es; cbn [negb].
      + destruct (max <=? a + 1)%nat eqn:Em.
        * intros H; inversion H; subst. split; [destruct hb; reflexivity|].
          apply Nat.leb_le in Em. exists e. repeat split; try reflexivity; try assumption; lia.
        * apply Nat.leb_gt in Em. destruct hb; [destruct g|]; intros H; inversion H; subst.
          split; [reflexivity|]. exists e. repeat split; try reflexivity; try assumption; lia.
      + intros H; inversion H; subst. split; [destruct hb; reflexivity|].
        exists e. repeat split; try reflexivity; exact Es.
  Qed.

  (* the boolean stop condition at attempt a: what makes attempt a the last one *)
  Definition stop_at (c : cfg) (hb : bool) (max : nat) (inner : nat -> Z * outcome)
             (ready : nat -> Z * option Err) (grant : nat -> bool) (a : nat) : bool :=
    match snd (inner a) with
    | Ok _ => true
    | Fail e =>
      negb (should_retry c e) || (max <=? a + 1)%nat || (hb && negb (grant a)) ||
      (match snd (ready (S a)) with Some _ => true | None => false end)
    end.

  (* full description of the last attempt, by reason *)
  Definition last_is (c : cfg) (hb : bool) (max : nat) (inner : nat -> Z * outcome)
             (ready : nat -> Z * option Err) (grant : nat -> bool) (a : nat)
             (x : Res + Err) (w : why) : Prop :=
    match w with
    | WOk => exists v, snd (inner a) = Ok v /\ x = inl v
    | WRefused => exists e, snd (inner a) = Fail e /\ should_retry c e = false /\ x = inr e
    | WMax => exists e, snd (inner a) = Fail e /\ should_retry c e = true /\
                        (max <= S a)%nat /\ x = inr e
    | WDenied => exists e, snd (inner a) = Fail e /\ should_retry c e = true /\
                           (S a < max)%nat /\ hb = true /\ grant a = false /\ x = inr e
    | WNotReady => exists e e', snd (inner a) = Fail e /\ should_retry c e = true /\
                           (S a < max)%nat /\ (hb = true -> grant a = true) /\
                           snd (ready (S a)) = Some e' /\ x = inr e'
    | WFuel => False
    end.

  Fixpoint consistent (b : bucket) (l : list bop) : Prop :=
    match l with
    | [] => True
    | BDeposit :: t => consistent (tb_deposit b) t
    | BWithdraw g :: t => g = fst (tb_try_withdraw b) /\ consistent (snd (tb_try_withdraw b)) t
    end.

  Section Run.
    Context (c : cfg) (hb : bool) (max : nat) (inner : nat -> Z * outcome)
            (ready : nat -> Z * option Err) (grant : nat -> bool).
    Notation go := (go c hb max inner ready grant).
    Notation stopb := (stop_at c hb max inner ready grant).
    Notation last_spec := (last_is c hb max inner ready grant).

    Lemma go_last a t bo x w :
      after_outcome c hb max a (snd (inner a)) (grant a) = (bo, AReturn x w) ->
      let r := mkRun [mkCall a t (t + Z.max 0 (fst (inner a))) (snd (inner a))] x w bo in
      let n := length (calls r) in
      (1 <= n /\ n <= 1)%nat /\
      map (@c_idx Res Err) (calls r) = seq a n /\
      (forall cl, In cl (calls r) -> c_out cl = snd (inner (c_idx cl)) /\
                                     c_end cl = c_start cl + Z.max 0 (fst (inner (c_idx cl)))) /\
      (exists cl rest, calls r = cl :: rest /\ c_start cl = t) /\
      (forall l1 c1 c2 l2, calls r = l1 ++ c1 :: c2 :: l2 ->
         c_start c2 = ceil_ms (c_end c1 + Z.max 0 (backoff c (c_idx c1))) + Z.max 0 (fst (ready (c_idx c2)))) /\
      (forall k, (a <= k < a + n - 1)%nat -> stopb k = false) /\
      stopb (a + n - 1)%nat = true /\
      last_spec (a + n - 1)%nat (result r) (reason r) /\
      ops r = (if hb then repeat (BWithdraw true) (n - 1) else []) ++ tail_ops hb (reason r).
    Proof.
      intros Ea. apply after_return in Ea. destruct Ea as [Hbo Hw].
      cbn zeta. cbn [calls result reason ops length].
      replace (a + 1 - 1)%nat with a by lia.
      split; [lia|]. split; [reflexivity|].
      split; [intros cl [<-|[]]; split; reflexivity|].
      split; [eexists; eexists; split; reflexivity|].
      split; [intros l1 c1 c2 l2 H; destruct l1 as [|? [|? ?]]; discriminate|].
      split; [intros k Hk; lia|].
      split; [|split].
      - unfold stop_at. destruct w; try contradiction.
        + destruct Hw as [v [-> _]]. reflexivity.
        + destruct Hw as [e [-> [Hs _]]]. rewrite Hs. reflexivity.
        + destruct Hw as [e [-> [Hs [Hm _]]]]. rewrite Hs.
          replace (max <=? a + 1)%nat with true by (symmetry; apply Nat.leb_le; lia).
          reflexivity.
        + destruct Hw as [e [-> [Hs [Hm [-> [-> _]]]]]]. rewrite Hs. cbn.
          rewrite Bool.orb_true_r. reflexivity.
      - unfold last_is. destruct w; try contradiction; exact Hw.
      - rewrite Hbo. destruct hb; reflexivity.
    Qed.

    (* everything about [go] in one induction *)
    Lemma go_spec fuel : forall a t,
      (fuel + a + 1 = Nat.max (a + 1) max)%nat ->
      let r := go fuel a t in
      let n := length (calls r) in
      (1 <= n /\ n <= S fuel)%nat /\
      map (@c_idx Res Err) (calls r) = seq a n /\
      (forall cl, In cl (calls r) -> c_out cl = snd (inner (c_idx cl)) /\
                                     c_end cl = c_start cl + Z.max 0 (fst (inner (c_idx cl)))) /\
      (exists cl rest, calls r = cl :: rest /\ c_start cl = t) /\
      (forall l1 c1 c2 l2, calls r = l1 ++ c1 :: c2 :: l2 ->
         c_start c2 = ceil_ms (c_end c1 + Z.max 0 (backoff c (c_idx c1))) + Z.max 0 (fst (ready (c_idx c2)))) /\
      (forall k, (a <= k < a + n - 1)%nat -> stopb k = false) /\
      stopb (a + n - 1)%nat = true /\
      last_spec (a + n - 1)%nat (result r) (reason r) /\
      ops r = (if hb then repeat (BWithdraw true) (n - 1) else []) ++ tail_ops hb (reason r).
  Proof.
    induction fuel as [|f IH]; intros a t Hf; cbn zeta.
    - (* no fuel: a + 1 >= max, so the loop body cannot ask for a retry *)
      cbn [go]. destruct (after_outcome c hb max a (snd (inner a)) (grant a)) as [bo act] eqn:Ea.
      destruct act as [x w|d].
      + apply (go_last a t bo x w Ea).
      + apply after_retry in Ea. destruct Ea as [e [_ [_ [Hlt _]]]]. lia.
    - cbn [go]. destruct (after_outcome c hb max a (snd (inner a)) (grant a)) as [bo act] eqn:Ea.
      destruct act as [x w|d].
      + pose proof (go_last a t bo x w Ea) as H. cbn zeta in H.
        destruct H as [[H1 H1'] H]. split; [split; [exact H1|lia]|exact H].
      + pose proof Ea as Ea'. apply after_retry in Ea'.
        destruct Ea' as [e [Ho [Hs [Hlt [Hd [Hbo Hg]]]]]].
        destruct (snd (ready (S a))) as [e'|] eqn:Er.
        * (* readiness error *)
          cbn [calls result reason ops length].
          replace (a + 1 - 1)%nat with a by lia.
          split; [lia|]. split; [reflexivity|].
          split; [intros cl [<-|[]]; split; reflexivity|].
          split; [eexists; eexists; split; reflexivity|].
          split; [intros l1 c1 c2 l2 H; destruct l1 as [|? [|? ?]]; discriminate|].
          split; [intros k Hk; lia|].
          split; [|split].
          -- unfold stop_at. rewrite Ho, Er. apply Bool.orb_true_r.
          -- cbn. exists e, e'. repeat split; assumption.
          -- subst bo. unfold tail_ops. destruct hb; reflexivity.
        * specialize (IH (S a) (ceil_ms (t + Z.max 0 (fst (inner a)) + Z.max 0 d) + Z.max 0 (fst (ready (S a))))).
          assert (Hf' : (f + S a + 1 = Nat.max (S a + 1) max)%nat) by lia.
          specialize (IH Hf'). cbn zeta in IH.
          set (r := go f (S a) _) in *.
          destruct IH as [[Hn1 Hn2] [Hidx [Hout [Hfirst [Hsp [Hbefore [Hstop [Hlast Hops]]]]]]]].
          cbn [calls result reason ops length].
          set (n := length (calls r)) in *.
          assert (Hstop_a : stopb a = false).
          { unfold stop_at. rewrite Ho, Er, Hs. cbn [negb orb].
            replace (max <=? a + 1)%nat with false by (symmetry; apply Nat.leb_gt; lia).
            cbn [orb]. destruct hb; cbn [andb orb]; [rewrite (Hg eq_refl)|]; reflexivity. }
          split; [lia|].
          split; [cbn [map seq c_idx]; f_equal; exact Hidx|].
          split; [intros cl [<-|H]; [split; reflexivity|apply Hout; exact H]|].
          split; [eexists; eexists; split; reflexivity|].
          split.
          { intros l1 c1 c2 l2 H. destruct l1 as [|x0 l1].
            - cbn [app] in H. destruct Hfirst as [cl0 [rest [Hc Hst]]].
              rewrite Hc in H. inversion H; subst c1 c2 l2. cbn [c_end c_idx].
              rewrite Hst.
              assert (Hi : c_idx cl0 = S a).
              { rewrite Hc in Hidx. destruct n; [lia|]. cbn [map seq] in Hidx. congruence. }
              rewrite Hi, Hd. reflexivity.
            - cbn [app] in H. inversion H. eapply Hsp. eassumption. }
          split.
          { intros k Hk. destruct (Nat.eq_dec k a) as [->|Hne]; [exact Hstop_a|].
            apply Hbefore. lia. }
          replace (a + S n - 1)%nat with (S a + n - 1)%nat by lia.
          split; [exact Hstop|]. split; [exact Hlast|].
          rewrite Hops, Hbo. replace (S n - 1)%nat with (S (n - 1)) by lia.
          destruct hb; reflexivity.
  Qed.

    Notation R t0 := (retry_run c hb max inner ready grant t0).

    Lemma run_spec t0 :
      let r := R t0 in
      let n := length (calls r) in
      (1 <= n /\ n <= Nat.max 1 max)%nat /\
      map (@c_idx Res Err) (calls r) = seq 0 n /\
      (forall cl, In cl (calls r) -> c_out cl = snd (inner (c_idx cl)) /\
                                     c_end cl = c_start cl + Z.max 0 (fst (inner (c_idx cl)))) /\
      (exists cl rest, calls r = cl :: rest /\ c_start cl = t0) /\
      (forall l1 c1 c2 l2, calls r = l1 ++ c1 :: c2 :: l2 ->
         c_start c2 = ceil_ms (c_end c1 + Z.max 0 (backoff c (c_idx c1))) + Z.max 0 (fst (ready (c_idx c2)))) /\
      (forall k, (k < n - 1)%nat -> stopb k = false) /\
      stopb (n - 1)%nat = true /\
      last_spec (n - 1)%nat (result r) (reason r) /\
      ops r = (if hb then repeat (BWithdraw true) (n - 1) else []) ++ tail_ops hb (reason r).
    Proof.
      unfold retry_run.
      pose proof (go_spec (Nat.pred (Nat.max 1 max)) 0%nat t0) as H.
      assert (Hf : (Nat.pred (Nat.max 1 max) + 0 + 1 = Nat.max (0 + 1) max)%nat) by lia.
      specialize (H Hf). cbn zeta in *.
      destruct H as [[H1 H2] [H3 [H4 [H5 [H6 [H7 [H8 [H9 H10]]]]]]]].
      split; [lia|]. split; [exact H3|]. split; [exact H4|]. split; [exact H5|].
      split; [exact H6|]. split; [intros k Hk; apply H7; lia|].
      split; [exact H8|]. split; [exact H9|exact H10].
    Qed.

    Lemma stop_at_false k :
      stopb k = false ->
      exists e, snd (inner k) = Fail e /\ should_retry c e = true /\ (S k < max)%nat /\
                (hb = true -> grant k = true) /\ snd (ready (S k)) = None.
    Proof.
      unfold stop_at. destruct (snd (inner k)) as [v|e]; [discriminate|].
      intros H. apply Bool.orb_false_iff in H. destruct H as [H Hr].
      apply Bool.orb_false_iff in H. destruct H as [H Hg].
      apply Bool.orb_false_iff in H. destruct H as [Hs Hm].
      exists e. split; [reflexivity|].
      split; [destruct (should_retry c e); [reflexivity|discriminate]|].
      split; [apply Nat.leb_gt in Hm; lia|].
      split; [intros ->; destruct (grant k); [reflexivity|discriminate]|].
      destruct (snd (ready (S k))); [discriminate|reflexivity].
    Qed.

    (* C05_attempt_bounds *)
    Lemma attempt_bounds t0 :
      (1 <= length (calls (R t0)) <= Nat.max 1 max)%nat.
    Proof. pose proof (run_spec t0) as H. cbn zeta in H. tauto. Qed.

    (* C05_stops_at_first *)
    Lemma stops_at_first t0 :
      let r := R t0 in
      let n := length (calls r) in
      map (@c_idx Res Err) (calls r) = seq 0 n /\
      (forall cl, In cl (calls r) -> c_out cl = snd (inner (c_idx cl))) /\
      (forall k, (k < n - 1)%nat ->
         exists e, snd (inner k) = Fail e /\ should_retry c e = true /\ (S k < max)%nat /\
                   (hb = true -> grant k = true) /\ snd (ready (S k)) = None) /\
      last_spec (n - 1)%nat (result r) (reason r).
    Proof.
      pose proof (run_spec t0) as H. cbn zeta in *.
      destruct H as [_ [H3 [H4 [_ [_ [H7 [_ [H9 _]]]]]]]].
      split; [exact H3|]. split; [intros cl Hc; apply H4; exact Hc|].
      split; [intros k Hk; apply stop_at_false; apply H7; exact Hk|exact H9].
    Qed.

    Lemma last_call t0 :
      exists l cl, calls (R t0) = l ++ [cl] /\ c_idx cl = (length (calls (R t0)) - 1)%nat.
    Proof.
      pose proof (run_spec t0) as H. cbn zeta in H.
      destruct H as [[H1 _] [H3 _]].
      destruct (calls (R t0)) as [|x l] eqn:E using rev_ind; [cbn in H1; lia|].
      clear IHl. exists l, x. split; [reflexivity|].
      rewrite app_length in *. cbn [length] in *.
      rewrite map_app in H3. cbn [map] in H3.
      replace (length l + 1)%nat with (S (length l)) in H3 by lia.
      rewrite seq_S in H3. apply app_inj_tail in H3. destruct H3 as [_ H3].
      cbn in H3. lia.
    Qed.

    (* C05_returns_last *)
    Lemma returns_last t0 :
      let r := R t0 in
      reason r <> WFuel /\
      exists l cl, calls r = l ++ [cl] /\
        (reason r <> WNotReady -> result r = out_res (c_out cl)) /\
        (reason r = WNotReady ->
           exists e, snd (ready (S (c_idx cl))) = Some e /\ result r = inr e).
    Proof.
      cbn zeta. pose proof (run_spec t0) as H. cbn zeta in H.
      destruct H as [_ [_ [H4 [_ [_ [_ [_ [H9 _]]]]]]]].
      destruct (last_call t0) as [l [cl [Hc Hi]]].
      assert (Hin : In cl (calls (R t0))) by (rewrite Hc; apply in_or_app; right; left; reflexivity).
      destruct (H4 cl Hin) as [Ho _]. rewrite <- Hi in H9.
      split; [intros Hw; rewrite Hw in H9; exact H9|].
      exists l, cl. split; [exact Hc|]. unfold last_is in H9. rewrite <- Ho in H9.
      destruct (reason (R t0)); split; intros Hw; try congruence.
      - destruct H9 as [v [-> ->]]. reflexivity.
      - destruct H9 as [e [-> [_ ->]]]. reflexivity.
      - destruct H9 as [e [-> [_ [_ ->]]]]. reflexivity.
      - destruct H9 as [e [-> [_ [_ [_ [_ ->]]]]]]. reflexivity.
      - destruct H9 as [e [e' [_ [_ [_ [_ [Hr ->]]]]]]]. exists e'. split; [exact Hr|reflexivity].
      - contradiction.
    Qed.

    (* C05_backoff_before_retry *)
    Lemma backoff_before_retry t0 :
      let r := R t0 in
      (exists cl rest, calls r = cl :: rest /\ c_start cl = t0) /\
      (forall cl, In cl (calls r) -> c_end cl = c_start cl + Z.max 0 (fst (inner (c_idx cl)))) /\
      (forall l1 c1 c2 l2, calls r = l1 ++ c1 :: c2 :: l2 ->
         let dl := c_end c1 + Z.max 0 (backoff c (c_idx c1)) in
         c_idx c2 = S (c_idx c1) /\
         c_start c2 = ceil_ms dl + Z.max 0 (fst (ready (c_idx c2))) /\
         c_start c2 >= c_end c1 + backoff c (c_idx c1) /\
         (fst (ready (c_idx c2)) <= 0 -> c_start c2 < dl + MS) /\
         (fst (ready (c_idx c2)) <= 0 -> (exists k, dl = k * MS) -> c_start c2 = dl)).
    Proof.
      cbn zeta. pose proof (run_spec t0) as H. cbn zeta in H.
      destruct H as [_ [H3 [H4 [H5 [H6 _]]]]].
      split; [exact H5|]. split; [intros cl Hc; apply H4; exact Hc|].
      intros l1 c1 c2 l2 Hc. pose proof (H6 _ _ _ _ Hc) as Hs.
      split.
      - rewrite Hc in H3. rewrite map_app in H3. cbn [map] in H3.
        rewrite app_length in H3. cbn [length] in H3.
        replace (length l1 + S (S (length l2)))%nat with (length l1 + (2 + length l2))%nat in H3 by lia.
        rewrite seq_app in H3. apply app_eq_len in H3.
        + destruct H3 as [_ H3]. cbn [seq Nat.add] in H3. inversion H3. lia.
        + rewrite map_length, seq_length. reflexivity.
      - split; [exact Hs|].
        pose proof (ceil_ms_bounds (c_end c1 + Z.max 0 (backoff c (c_idx c1)))) as Hb.
        split; [lia|]. split; [lia|].
        intros Hr [k Hk]. rewrite Hs, Hk, ceil_ms_whole. lia.
    Qed.

    (* C05_budget *)
    Lemma budget_ops t0 :
      let r := R t0 in
      let n := length (calls r) in
      (hb = false -> ops r = []) /\
      (hb = true -> ops r = repeat (BWithdraw true) (n - 1) ++
                            match reason r with
                            | WOk => [BDeposit] | WDenied => [BWithdraw false]
                            | WNotReady => [BWithdraw true] | _ => []
                            end) /\
      (forall k, (k < n - 1)%nat -> hb = true -> grant k = true) /\
      (In BDeposit (ops r) <-> hb = true /\ exists v, result r = inl v).
    Proof.
      cbn zeta. pose proof (run_spec t0) as H. cbn zeta in H.
      destruct H as [_ [_ [_ [_ [_ [H7 [_ [H9 H10]]]]]]]].
      split; [intros ->; rewrite H10; reflexivity|].
      split; [intros ->; rewrite H10; reflexivity|].
      split.
      { intros k Hk Hb. destruct (stop_at_false k (H7 k Hk)) as [e [_ [_ [_ [Hg _]]]]].
        apply Hg. exact Hb. }
      rewrite H10. unfold tail_ops, last_is in *.
      assert (Hrep : forall m, ~ In BDeposit (repeat (BWithdraw true) m)).
      { intros m Hin. apply repeat_spec in Hin. discriminate. }
      set (w := reason (R t0)) in *. set (x := result (R t0)) in *. clearbody w x.
      destruct hb; cbn [app]; split.
      - intros Hin. split; [reflexivity|]. apply in_app_or in Hin.
        destruct Hin as [Hin|Hin]; [exfalso; eapply Hrep; exact Hin|].
        destruct w; cbn in Hin; try tauto;
          try (destruct Hin as [Hin|[]]; discriminate).
        destruct H9 as [v [_ ->]]. exists v. reflexivity.
      - intros [_ [v Hv]]. apply in_or_app. right.
        destruct w; try (left; reflexivity); exfalso; try rewrite Hv in H9.
        + destruct H9 as [e [_ [_ H]]]. discriminate.
        + destruct H9 as [e [_ [_ [_ H]]]]. discriminate.
        + destruct H9 as [e [_ [_ [_ [_ [_ H]]]]]]. discriminate.
        + destruct H9 as [e [e' [_ [_ [_ [_ [_ H]]]]]]]. discriminate.
        + exact H9.
      - intros [].
      - intros [H _]. discriminate.
    Qed.

    (* the recorded answers are the ones a token bucket owned by this request gives *)
    Lemma consistent_repeat tail m : forall b,
      Z.of_nat m * SCALE <= tokens b ->
      consistent (mkBucket (tokens b - Z.of_nat m * SCALE) (max_tokens b)) tail ->
      consistent b (repeat (BWithdraw true) m ++ tail).
    Proof.
      induction m as [|m IH]; intros b Hle Ht.
      - cbn [repeat app]. destruct b as [tk mx]. cbn [tokens max_tokens] in *.
        replace (tk - Z.of_nat 0 * SCALE) with tk in Ht by lia. exact Ht.
      - cbn [repeat app consistent]. unfold tb_try_withdraw.
        assert (Hs : tokens b <? SCALE = false) by (apply Z.ltb_ge; unfold SCALE in *; lia).
        rewrite Hs. cbn [fst snd]. split; [reflexivity|].
        apply IH; cbn [tokens max_tokens].
        + unfold SCALE in *. lia.
        + replace (tokens b - SCALE - Z.of_nat m * SCALE) with (tokens b - Z.of_nat (S m) * SCALE)
            by (unfold SCALE; lia).
          exact Ht.
    Qed.
  End Run.

  Lemma budget_sequential (c : cfg) max (inner : nat -> Z * outcome) ready (b : bucket) t0 :
    0 <= tokens b ->
    consistent b (ops (retry_run c true max inner ready (seq_grant b) t0)).
  Proof.
    intros Hb.
    pose proof (run_spec c true max inner ready (seq_grant b) t0) as H. cbn zeta in H.
    destruct H as [[Hn _] [_ [_ [_ [_ [H7 [_ [H9 H10]]]]]]]].
    rewrite H10. set (r := retry_run c true max inner ready (seq_grant b) t0) in *.
    set (n := length (calls r)) in *.
    assert (Hle : Z.of_nat (n - 1) * SCALE <= tokens b).
    { destruct (Nat.eq_dec (n - 1) 0) as [->|Hne]; [unfold SCALE; lia|].
      assert (Hk : (n - 2 < n - 1)%nat) by lia.
      destruct (stop_at_false _ _ _ _ _ _ _ (H7 _ Hk)) as [e [_ [_ [_ [Hg _]]]]].
      specialize (Hg eq_refl). unfold seq_grant in Hg. apply Z.leb_le in Hg.
      replace (S (n - 2)) with (n - 1)%nat in Hg by lia. exact Hg. }
    apply consistent_repeat; [exact Hle|].
    unfold tail_ops, last_is in *. destruct (reason r); cbn [consistent]; try exact I.
    - destruct H9 as [e [_ [_ [_ [_ [Hg _]]]]]]. unfold seq_grant in Hg. apply Z.leb_gt in Hg.
      unfold tb_try_withdraw. cbn [tokens].
      replace (tokens b - Z.of_nat (n - 1) * SCALE <? SCALE) with true; [split; [reflexivity|exact I]|].
      symmetry. apply Z.ltb_lt. replace (Z.of_nat (S (n - 1))) with (Z.of_nat (n - 1) + 1) in Hg by lia.
      unfold SCALE in *. lia.
    - destruct H9 as [e [e' [_ [_ [_ [Hg _]]]]]]. specialize (Hg eq_refl).
      unfold seq_grant in Hg. apply Z.leb_le in Hg.
      unfold tb_try_withdraw. cbn [tokens].
      replace (tokens b - Z.of_nat (n - 1) * SCALE <? SCALE) with false; [split; [reflexivity|exact I]|].
      symmetry. apply Z.ltb_ge. replace (Z.of_nat (S (n - 1))) with (Z.of_nat (n - 1) + 1) in Hg by lia.
      unfold SCALE in *. lia.
  Qed.

  (* ------------------------------------------------------------------ *)
  (* poll-granular model: several requests, one budget, any schedule *)
  Notation rin := (rin Res Err).
  Notation rst := (rst Res Err).
  Notation st := (st Res Err).

  Definition retryable (c : cfg) (inp : rin) (cl : call) : Prop :=
    exists e, c_out cl = Fail e /\ should_retry c e = true /\ (S (c_idx cl) < r_max inp)%nat.

  Definition not_rerr (x : rdy Err) : Prop := match x with RErr _ => False | _ => True end.

  (* the instant the backoff sleep after call [prev] is over: the timer rounds up to a
     whole millisecond *)
  Definition wake_at (c : cfg) (prev : call) : Z :=
    ceil_ms (c_end prev + Z.max 0 (backoff c (c_idx prev))).

  (* the log of finished inner calls (newest first): attempt numbers are consecutive,
     outcomes are the wrapped service's, every call but the newest failed with a
     retryable error below max_attempts, the next call started no earlier than
     that failure was observed plus the backoff for it, on a service instance whose
     readiness poll did not fail *)
  Fixpoint wf_log (c : cfg) (inp : rin) (l : list call) : Prop :=
    match l with
    | [] => True
    | cl :: rest =>
      c_idx cl = length rest /\ c_out cl = snd (r_inner inp (c_idx cl)) /\
      c_start cl <= c_end cl /\
      match rest with
      | [] => True
      | prev :: _ => retryable c inp prev /\ wake_at c prev <= c_start cl /\
                     not_rerr (r_ready inp (c_idx cl))
      end /\ wf_log c inp rest
    end.

  Definition done_spec (c : cfg) (inp : rin) (hb : bool) (r : rst) (x : Res + Err) (w : why) : Prop :=
    match w with
    | WNotReady =>
      exists prev rest e, log r = prev :: rest /\ S (c_idx prev) = attempt r /\
                          retryable c inp prev /\ r_ready inp (attempt r) = RErr e /\ x = inr e
    | WFuel => False
    | _ =>
      exists cl rest, log r = cl :: rest /\ c_idx cl = attempt r /\ x = out_res (c_out cl) /\
        match w with
        | WOk => exists v, c_out cl = Ok v
        | WRefused => exists e, c_out cl = Fail e /\ should_retry c e = false
        | WMax => exists e, c_out cl = Fail e /\ should_retry c e = true /\
                            (r_max inp <= S (attempt r))%nat
        | WDenied => exists e, c_out cl = Fail e /\ should_retry c e = true /\
                               (S (attempt r) < r_max inp)%nat /\ hb = true
        | _ => True
        end
    end.

  (* the budget operations a request has issued when it has been granted k retries *)
  Definition gr (hb : bool) (k : nat) : list bop := if hb then repeat (BWithdraw true) k else [].

  Lemma gr_S hb k : gr hb k ++ (if hb then [BWithdraw true] else []) = gr hb (S k).
  Proof.
    unfold gr. destruct hb; [|reflexivity].
    cbn [repeat]. rewrite repeat_cons. reflexivity.
  Qed.

  (* invariant of one call future; [ol] = the budget operations it has issued, oldest first *)
  Definition RI (c : cfg) (inp : rin) (hb : bool) (t : Z) (r : rst) (ol : list bop) : Prop :=
    wf_log c inp (log r) /\
    match ph r with
    | PInit => attempt r = 0%nat /\ log r = [] /\ res r = None /\ ol = []
    | PCalling _ =>
      attempt r = length (log r) /\ res r = None /\ cur_start r <= t /\
      ol = gr hb (attempt r) /\
      match log r with
      | [] => True
      | prev :: _ => retryable c inp prev /\ wake_at c prev <= cur_start r /\
                     not_rerr (r_ready inp (attempt r))
      end
    | PSleeping dl =>
      res r = None /\ ol = gr hb (S (attempt r)) /\
      exists prev rest, log r = prev :: rest /\ c_idx prev = attempt r /\ retryable c inp prev /\
                        dl = wake_at c prev
    | PReadying _ =>
      res r = None /\ ol = gr hb (attempt r) /\
      exists prev rest, log r = prev :: rest /\ S (c_idx prev) = attempt r /\ retryable c inp prev /\
                        wake_at c prev <= t
    | PDone =>
      exists x w, res r = Some (x, w) /\ done_spec c inp hb r x w /\
                  ol = gr hb (length (log r) - 1) ++ tail_ops hb w
    end.

  Definition is_grant (o : bop) : bool := match o with BWithdraw true => true | _ => false end.
  Definition is_deposit (o : bop) : bool := match o with BDeposit => true | _ => false end.
  Definition ngr (l : list bop) : nat := length (filter is_grant l).
  Definition ndep (l : list bop) : nat := length (filter is_deposit l).

  Lemma ngr_app l1 l2 : ngr (l1 ++ l2) = (ngr l1 + ngr l2)%nat.
  Proof. unfold ngr. rewrite filter_app, app_length. reflexivity. Qed.
  Lemma ndep_app l1 l2 : ndep (l1 ++ l2) = (ndep l1 + ndep l2)%nat.
  Proof. unfold ndep. rewrite filter_app, app_length. reflexivity. Qed.

  Lemma ngr_gr k : ngr (gr true k) = k.
  Proof. unfold ngr, gr. induction k as [|k IH]; cbn [repeat filter is_grant length]; [reflexivity|]. rewrite IH. reflexivity. Qed.

  Lemma consistent_app l1 : forall b l2,
    consistent b l1 -> consistent (fold_left apply_op l1 b) l2 -> consistent b (l1 ++ l2).
  Proof.
    induction l1 as [|o l1 IH]; intros b l2 H1 H2; [exact H2|].
    cbn [app]. destruct o as [|g]; cbn [consistent fold_left apply_op] in *.
    - apply IH; assumption.
    - destruct H1 as [Hg H1]. split; [exact Hg|]. apply IH; assumption.
  Qed.

  Lemma is_some_apply_ops (b : option bucket) l : is_some (apply_ops b l) = is_some b.
  Proof. destruct b; reflexivity. Qed.

  Lemma apply_ops_app (b : option bucket) l1 l2 :
    apply_ops (apply_ops b l1) l2 = apply_ops b (l1 ++ l2).
  Proof. destruct b; cbn; [rewrite fold_left_app|]; reflexivity. Qed.

  (* the recorded answers are the ones the token bucket gives, operation by operation *)
  Definition ops_ok (b : option bucket) (bo : list bop) : Prop :=
    match b with Some bk => consistent bk bo | None => bo = [] end.

  Lemma ops_ok_app b l1 l2 : ops_ok b l1 -> ops_ok (apply_ops b l1) l2 -> ops_ok b (l1 ++ l2).
  Proof.
    destruct b as [bk|]; cbn.
    - apply consistent_app.
    - intros -> ->. reflexivity.
  Qed.

  Lemma ops_ok_nil b : ops_ok b [].
  Proof. destruct b; cbn; [exact I|reflexivity]. Qed.

  Lemma apply_ops_nil (b : option bucket) : b = apply_ops b [].
  Proof. destruct b; reflexivity. Qed.

  Lemma wf_log_length c inp cl rest : wf_log c inp (cl :: rest) -> c_idx cl = length rest.
  Proof. intros [H _]. exact H. Qed.

  (* what one poll may return *)
  Definition poll_ok (r r' : rst) (hb : bool) (bo : list bop) (p : pres Res Err) (sw : bool) : Prop :=
    (p = Nothing -> ph r = PDone /\ r' = r) /\
    (forall x, p = Ready x -> ph r <> PDone /\ ph r' = PDone /\ exists w, res r' = Some (x, w)) /\
    (In BDeposit bo <-> hb = true /\ exists v, p = Ready (inl v)) /\
    (In (BWithdraw false) bo -> exists e, p = Ready (inr e)) /\
    (sw = true -> p = Pending).

  Lemma tail_ops_dep hb w : In BDeposit (tail_ops hb w) <-> hb = true /\ w = WOk.
  Proof.
    unfold tail_ops. destruct hb; [|split; [intros []|intros [H _]; discriminate]].
    destruct w; cbn; split; try tauto; try (intros [H|[]]; discriminate);
      try (intros [_ H]; discriminate).
  Qed.

  Lemma tail_ops_deny hb w : In (BWithdraw false) (tail_ops hb w) -> w = WDenied.
  Proof.
    unfold tail_ops. destruct hb; [|intros []].
    destruct w; cbn; try tauto; try (intros [H|[]]; discriminate).
  Qed.

  Lemma poll_ok_pre (r r1 r' : rst) hb pre bo p sw :
    ph r1 <> PDone -> ph r <> PDone -> ~ In BDeposit pre -> ~ In (BWithdraw false) pre ->
    poll_ok r1 r' hb bo p sw -> poll_ok r r' hb (pre ++ bo) p sw.
  Proof.
    intros H1 H0 Hp1 Hp2 [Ha [Hb [Hc [Hd He]]]]. unfold poll_ok.
    split; [intros Hn; destruct (Ha Hn) as [Hx _]; contradiction|].
    split; [intros x Hx; destruct (Hb x Hx) as [_ Hy]; split; [exact H0|exact Hy]|].
    split; [|split; [|exact He]].
    - rewrite <- Hc. rewrite in_app_iff. tauto.
    - intros Hin. apply Hd. apply in_app_or in Hin. tauto.
  Qed.

  Lemma poll_ok_pre0 (r r1 r' : rst) hb bo p sw :
    ph r1 <> PDone -> ph r <> PDone -> poll_ok r1 r' hb bo p sw -> poll_ok r r' hb bo p sw.
  Proof.
    intros H1 H0 H. apply (poll_ok_pre r r1 r' hb [] bo p sw H1 H0); [intros []|intros []|exact H].
  Qed.

  Lemma poll_ok_pending (r : rst) hb sw : poll_ok r r hb [] Pending sw.
  Proof.
    unfold poll_ok. split; [discriminate|]. split; [discriminate|].
    split; [split; [intros []|intros [_ [v Hv]]; discriminate]|].
    split; [intros []|reflexivity].
  Qed.

  (* a poll that has nothing to do *)
  Ltac stay HI :=
    rewrite app_nil_r; split; [exact HI|]; split; [apply apply_ops_nil|];
    split; [apply ops_ok_nil|apply poll_ok_pending].

  Lemma drive_RI (c : cfg) (inp : rin) fuel : forall coop t r b ol r' b' bo p sw,
    RI c inp (is_some b) t r ol ->
    drive c inp fuel coop t r b = (r', b', bo, p, sw) ->
    RI c inp (is_some b) t r' (ol ++ bo) /\ b' = apply_ops b bo /\ ops_ok b bo /\
    poll_ok r r' (is_some b) bo p sw.
  Proof.
    induction fuel as [|f IH]; intros coop t r b ol r' b' bo p sw HI Hd.
    - cbn in Hd. injection Hd as <- <- <- <- <-. stay HI.
    - cbn [drive] in Hd. pose proof HI as HI0. destruct HI as [Hwf Hph].
      destruct (ph r) as [|av|dl|rel|] eqn:Eph.
      + (* PInit: first poll, service.call(req) *)
        destruct Hph as [Ha [Hl [Hr Hol]]].
        eapply IH in Hd.
        * destruct Hd as [H1 [H2 [H3 H4]]]. split; [exact H1|]. split; [exact H2|].
          split; [exact H3|]. eapply poll_ok_pre0; [| |exact H4]; [cbn [ph start_call]; discriminate|rewrite Eph; discriminate].
        * unfold RI, start_call. cbn [log ph attempt res cur_start].
          split; [exact Hwf|]. rewrite Hl. cbn [length].
          split; [exact Ha|]. split; [exact Hr|]. split; [lia|].
          split; [rewrite Hol, Ha; unfold gr; destruct (is_some b); reflexivity|exact I].
      + (* PCalling *)
        destruct Hph as [Ha [Hr [Hcs [Hol Hprev]]]].
        destruct (fst (r_inner inp (attempt r)) && (coop =? 0)%nat) eqn:Eg.
        { injection Hd as <- <- <- <- <-. stay HI0. }
        destruct av; cbn [negb] in Hd.
        2:{ injection Hd as <- <- <- <- <-. stay HI0. }
        set (coop1 := if fst (r_inner inp (attempt r)) then Nat.pred coop else coop) in *.
        set (o := snd (r_inner inp (attempt r))) in *.
        set (cl := mkCall (attempt r) (cur_start r) t o) in *.
        set (g0 := match b with Some bk => fst (tb_try_withdraw bk) | None => true end) in *.
        assert (Hwf' : wf_log c inp (cl :: log r)).
        { cbn [wf_log]. subst cl. cbn [c_idx c_out c_start c_end].
          split; [exact Ha|]. split; [reflexivity|]. split; [exact Hcs|].
          split; [|exact Hwf]. destruct (log r); [exact I|exact Hprev]. }
        destruct (after_outcome c (is_some b) (r_max inp) (attempt r) o g0) as [bo0 act] eqn:Ea.
        destruct act as [x w|d].
        * (* the future returns *)
          injection Hd as <- <- <- <- <-.
          apply after_return in Ea. destruct Ea as [Hbo Hw].
          split.
          { unfold RI. cbn [log ph attempt res cur_start]. split; [exact Hwf'|].
            exists x, w. split; [reflexivity|].
            split.
            - unfold done_spec. cbn [log attempt].
              destruct w; try contradiction; exists cl, (log r);
                (split; [reflexivity|]); (split; [reflexivity|]); subst cl; cbn [c_out].
              + destruct Hw as [v [Ho ->]]. split; [rewrite Ho; reflexivity|]. exists v. exact Ho.
              + destruct Hw as [e [Ho [Hs ->]]]. split; [rewrite Ho; reflexivity|]. exists e. tauto.
              + destruct Hw as [e [Ho [Hs [Hm ->]]]]. split; [rewrite Ho; reflexivity|]. exists e. tauto.
              + destruct Hw as [e [Ho [Hs [Hm [Hb [_ ->]]]]]]. split; [rewrite Ho; reflexivity|].
                exists e. tauto.
            - cbn [length]. replace (S (length (log r)) - 1)%nat with (attempt r) by lia.
              rewrite Hol, Hbo. reflexivity. }
          split; [reflexivity|].
          split.
          { unfold ops_ok. destruct b as [bk|]; cbn [is_some] in *.
            - rewrite Hbo. unfold tail_ops. destruct w; cbn [consistent]; try exact I; try contradiction.
              destruct Hw as [e [_ [_ [_ [_ [Hg0 _]]]]]]. subst g0. split; [symmetry; exact Hg0|exact I].
            - rewrite Hbo. reflexivity. }
          unfold poll_ok. split; [discriminate|].
          split; [intros x0 Hx; injection Hx as <-; split; [rewrite Eph; discriminate|];
                  split; [reflexivity|exists w; reflexivity]|].
          rewrite Hbo. split; [|split; [|discriminate]].
          { rewrite tail_ops_dep. split.
            - intros [Hb ->]. split; [exact Hb|]. destruct Hw as [v [_ ->]]. exists v; reflexivity.
            - intros [Hb [v Hv]]. split; [exact Hb|]. injection Hv as ->.
              destruct w; try contradiction; try reflexivity; exfalso;
                decompose [ex and] Hw; discriminate. }
          { intros Hin. apply tail_ops_deny in Hin. subst w.
            destruct Hw as [e [_ [_ [_ [_ [_ ->]]]]]]. exists e. reflexivity. }
        * (* retry: sleep, then readiness, then the next call *)
          apply after_retry in Ea.
          destruct Ea as [e [Ho [Hs [Hlt [Hdl [Hbo Hg0]]]]]].
          destruct (drive c inp f coop1 t _ (apply_ops b bo0)) as [[[[r1 b1] bo1] p1] sw1] eqn:Ed.
          injection Hd as <- <- <- <- <-.
          eapply (IH _ _ _ _ (ol ++ bo0)) in Ed.
          2:{ rewrite is_some_apply_ops. unfold RI. cbn [log ph attempt res cur_start].
              split; [exact Hwf'|]. split; [exact Hr|].
              split; [rewrite Hol, Hbo; apply gr_S|].
              exists cl, (log r). subst cl. cbn [c_idx c_end c_out].
              split; [reflexivity|]. split; [reflexivity|].
              split; [exists e; repeat split; assumption|]. unfold wake_at. cbn [c_end c_idx].
              rewrite Hdl. reflexivity. }
          rewrite is_some_apply_ops in Ed. destruct Ed as [H1 [H2 [H3 H4]]].
          split; [rewrite app_assoc; exact H1|].
          split; [rewrite H2; apply apply_ops_app|].
          split.
          { apply ops_ok_app; [|exact H3]. unfold ops_ok. destruct b as [bk|]; cbn [is_some] in *.
            - rewrite Hbo. cbn [consistent]. subst g0. rewrite (Hg0 eq_refl). split; [reflexivity|exact I].
            - exact Hbo. }
          eapply poll_ok_pre; [| | | |exact H4].
          -- cbn [ph]. discriminate.
          -- rewrite Eph. discriminate.
          -- rewrite Hbo. destruct (is_some b); [intros [H|[]]; discriminate|intros []].
          -- rewrite Hbo. destruct (is_some b); [intros [H|[]]; discriminate|intros []].
      + (* PSleeping *)
        destruct Hph as [Hr [Hol [prev [rest [Hl [Hi [Hre Hdl]]]]]]].
        destruct coop as [|k].
        { injection Hd as <- <- <- <- <-. stay HI0. }
        destruct (dl <=? t) eqn:Et.
        * apply Z.leb_le in Et. eapply IH in Hd.
          -- destruct Hd as [H1 [H2 [H3 H4]]]. split; [exact H1|]. split; [exact H2|].
             split; [exact H3|]. eapply poll_ok_pre0; [| |exact H4]; [cbn [ph start_call]; discriminate|rewrite Eph; discriminate].
          -- unfold RI. cbn [log ph attempt res cur_start]. split; [exact Hwf|].
             split; [exact Hr|]. split; [exact Hol|]. exists prev, rest.
             split; [exact Hl|]. split; [rewrite Hi; reflexivity|]. split; [exact Hre|]. lia.
        * injection Hd as <- <- <- <- <-. stay HI0.
      + (* PReadying *)
        destruct Hph as [Hr [Hol [prev [rest [Hl [Hi [Hre Hsp]]]]]]].
        assert (Hstart : not_rerr (r_ready inp (attempt r)) ->
                         RI c inp (is_some b) t (start_call inp t r) ol).
        { intros Hnr. unfold RI, start_call. cbn [log ph attempt res cur_start]. split; [exact Hwf|].
          rewrite Hl in *. apply wf_log_length in Hwf. cbn [length].
          split; [lia|]. split; [exact Hr|]. split; [lia|]. split; [exact Hol|].
          split; [exact Hre|]. split; [exact Hsp|exact Hnr]. }
        destruct (r_ready inp (attempt r)) as [|e|] eqn:Erd.
        * eapply IH in Hd; [|apply Hstart; exact I].
          destruct Hd as [H1 [H2 [H3 H4]]]. split; [exact H1|]. split; [exact H2|].
          split; [exact H3|]. eapply poll_ok_pre0; [| |exact H4]; [cbn [ph start_call]; discriminate|rewrite Eph; discriminate].
        * injection Hd as <- <- <- <- <-. rewrite app_nil_r.
          split.
          { unfold RI. cbn [log ph attempt res cur_start]. split; [exact Hwf|].
            exists (inr e), WNotReady. split; [reflexivity|]. split.
            - unfold done_spec. cbn [log attempt]. exists prev, rest, e. repeat split; assumption.
            - rewrite Hl in *. apply wf_log_length in Hwf. cbn [length].
              replace (S (length rest) - 1)%nat with (length rest) by lia.
              unfold tail_ops. rewrite Hol. replace (attempt r) with (S (length rest)) by lia.
              rewrite <- gr_S. destruct (is_some b); reflexivity. }
          split; [apply apply_ops_nil|].
          split; [apply ops_ok_nil|].
          unfold poll_ok. split; [discriminate|].
          split; [intros x Hx; injection Hx as <-; split; [rewrite Eph; discriminate|];
                  split; [reflexivity|exists WNotReady; reflexivity]|].
          split; [split; [intros []|intros [_ [v Hv]]; discriminate]|].
          split; [intros []|discriminate].
        * destruct rel.
          -- eapply IH in Hd; [|apply Hstart; exact I].
             destruct Hd as [H1 [H2 [H3 H4]]]. split; [exact H1|]. split; [exact H2|].
             split; [exact H3|]. eapply poll_ok_pre0; [| |exact H4]; [cbn [ph start_call]; discriminate|rewrite Eph; discriminate].
          -- injection Hd as <- <- <- <- <-. stay HI0.
      + (* PDone *)
        injection Hd as <- <- <- <- <-. rewrite app_nil_r.
        split; [exact HI0|]. split; [apply apply_ops_nil|]. split; [apply ops_ok_nil|].
        unfold poll_ok. split; [intros _; split; [exact Eph|reflexivity]|]. split; [discriminate|].
        split; [split; [intros []|intros [_ [v Hv]]; discriminate]|].
        split; [intros []|discriminate].
  Qed.
  (* ---------- the shared bucket ---------- *)
  Lemma bucket_ops bo : forall bk,
    consistent bk bo -> 0 <= tokens bk -> 0 <= max_tokens bk ->
    let bk' := fold_left apply_op bo bk in
    max_tokens bk' = max_tokens bk /\ 0 <= tokens bk' /\
    tokens bk' + Z.of_nat (ngr bo) * SCALE <= tokens bk + Z.of_nat (ndep bo) * SCALE.
  Proof.
    induction bo as [|o bo IH]; intros bk Hc H0 Hm; cbn zeta.
    - cbn. lia.
    - cbn [fold_left]. destruct o as [|g]; cbn [consistent apply_op] in *.
      + assert (Hd : 0 <= tokens (tb_deposit bk) <= tokens bk + SCALE).
        { unfold tb_deposit, U64MAX, SCALE. cbn [tokens]. lia. }
        destruct (IH (tb_deposit bk) Hc) as [I1 [I2 I3]]; [lia|exact Hm|].
        cbn zeta in *. cbn [max_tokens tb_deposit] in I1.
        split; [exact I1|]. split; [exact I2|].
        unfold ngr, ndep in *. cbn [filter is_grant is_deposit length]. lia.
      + destruct Hc as [Hg Hc]. unfold tb_try_withdraw in *.
        destruct (tokens bk <? SCALE) eqn:El; cbn [fst snd] in *.
        * destruct (IH bk Hc H0 Hm) as [I1 [I2 I3]]. subst g.
          split; [exact I1|]. split; [exact I2|].
          unfold ngr, ndep in *. cbn [filter is_grant is_deposit length]. exact I3.
        * apply Z.ltb_ge in El.
          destruct (IH _ Hc) as [I1 [I2 I3]]; cbn [tokens max_tokens] in *; [lia|exact Hm|].
          subst g. split; [exact I1|]. split; [exact I2|].
          unfold ngr, ndep in *. cbn [filter is_grant is_deposit length]. lia.
  Qed.

  (* ghost log of budget operations *)
  Definition grants_of (i : nat) (ol : list (nat * bop)) : nat :=
    length (filter (fun x => Nat.eqb (fst x) i && is_grant (snd x)) ol).
  Definition all_grants (ol : list (nat * bop)) : nat := ngr (map snd ol).
  Definition all_deposits (ol : list (nat * bop)) : nat := ndep (map snd ol).

  Lemma len_filter_rev {A} (f : A -> bool) l : length (filter f (rev l)) = length (filter f l).
  Proof.
    induction l as [|x l IH]; [reflexivity|].
    cbn [rev filter]. rewrite filter_app, app_length, IH. cbn [filter].
    destruct (f x); cbn [length]; lia.
  Qed.

  Lemma grants_of_poll i j bo ol :
    grants_of j (rev (map (pair i) bo) ++ ol) =
    ((if Nat.eqb i j then ngr bo else 0) + grants_of j ol)%nat.
  Proof.
    unfold grants_of. rewrite filter_app, app_length. f_equal.
    rewrite len_filter_rev. unfold ngr.
    induction bo as [|o l IH]; cbn [map filter fst snd length].
    - destruct (Nat.eqb i j); reflexivity.
    - destruct (Nat.eqb i j) eqn:E; cbn [andb].
      + destruct (is_grant o); cbn [length]; rewrite IH; reflexivity.
      + exact IH.
  Qed.

  Lemma all_counts_poll i bo ol :
    all_grants (rev (map (pair i) bo) ++ ol) = (ngr bo + all_grants ol)%nat /\
    all_deposits (rev (map (pair i) bo) ++ ol) = (ndep bo + all_deposits ol)%nat.
  Proof.
    unfold all_grants, all_deposits. rewrite map_app, ngr_app, ndep_app.
    rewrite <- map_rev, map_map. cbn [snd]. rewrite map_id.
    unfold ngr, ndep. rewrite !len_filter_rev. split; reflexivity.
  Qed.

  Fixpoint sumn (f : nat -> nat) (n : nat) : nat :=
    match n with O => O | S m => (sumn f m + f m)%nat end.

  Lemma sumn_le f g n : (forall i, (i < n)%nat -> (f i <= g i)%nat) -> (sumn f n <= sumn g n)%nat.
  Proof.
    induction n as [|n IH]; intros H; cbn [sumn]; [lia|].
    specialize (H n (Nat.lt_succ_diag_r n)) as Hn.
    assert (sumn f n <= sumn g n)%nat by (apply IH; intros i Hi; apply H; lia). lia.
  Qed.

  Lemma sumn_indicator j n : sumn (fun i => if Nat.eqb j i then 1%nat else 0%nat) n = if (j <? n)%nat then 1%nat else 0%nat.
  Proof.
    induction n as [|n IH]; [reflexivity|]. cbn [sumn]. rewrite IH.
    destruct (Nat.ltb_spec j n), (Nat.eqb_spec j n), (Nat.ltb_spec j (S n)); lia.
  Qed.

  Lemma sumn_add f g n : sumn (fun i => (f i + g i)%nat) n = (sumn f n + sumn g n)%nat.
  Proof. induction n as [|n IH]; cbn [sumn]; lia. Qed.

  Lemma sumn_ext f g n : (forall i, f i = g i) -> sumn f n = sumn g n.
  Proof. intros H. induction n as [|n IH]; cbn [sumn]; [reflexivity|]. rewrite IH, H. reflexivity. Qed.

  (* every granted withdrawal belongs to one request *)
  Lemma sum_grants_le ol n : (sumn (fun i => grants_of i ol) n <= all_grants ol)%nat.
  Proof.
    induction ol as [|[j o] ol IH].
    - unfold grants_of, all_grants, ngr. cbn. induction n; cbn [sumn]; lia.
    - unfold all_grants, ngr in *. cbn [map snd filter].
      assert (E : forall i, grants_of i ((j, o) :: ol) =
                  ((if Nat.eqb j i then (if is_grant o then 1 else 0) else 0) + grants_of i ol)%nat).
      { intros i. unfold grants_of. cbn [filter fst snd].
        destruct (Nat.eqb j i); cbn [andb]; [destruct (is_grant o)|]; reflexivity. }
      rewrite (sumn_ext _ _ n E), sumn_add.
      destruct (is_grant o); cbn [length].
      + rewrite sumn_indicator. destruct (j <? n)%nat; lia.
      + rewrite (sumn_ext _ (fun _ => 0%nat)) by (intros i; destruct (Nat.eqb j i); reflexivity).
        assert (sumn (fun _ => 0%nat) n = 0%nat) by (clear; induction n; cbn [sumn]; lia). lia.
  Qed.

  (* ---------- global invariant ---------- *)
  Lemma upd_same {A} (f : nat -> A) i v : upd f i v i = v.
  Proof. unfold upd. rewrite Nat.eqb_refl. reflexivity. Qed.
  Lemma upd_other {A} (f : nat -> A) i v j : j <> i -> upd f i v j = f j.
  Proof. intros H. unfold upd. apply Nat.eqb_neq in H. rewrite H. reflexivity. Qed.

  Definition wf_bucket (b0 : option bucket) : Prop :=
    match b0 with Some k => 0 <= tokens k /\ 0 <= max_tokens k | None => True end.

  (* bucket accounting: what is left plus what was granted never exceeds the initial
     content plus one token per deposit *)
  Definition BI (b0 : option bucket) (s : st) : Prop :=
    match b0, bud s with
    | Some k0, Some k =>
      max_tokens k = max_tokens k0 /\ 0 <= tokens k /\
      tokens k + Z.of_nat (all_grants (oplog s)) * SCALE <=
      tokens k0 + Z.of_nat (all_deposits (oplog s)) * SCALE
    | None, None => True
    | _, _ => False
    end.


  (* the budget operations of request i, oldest first *)
  Definition ops_of (i : nat) (ol : list (nat * bop)) : list bop :=
    rev (map snd (filter (fun x => Nat.eqb (fst x) i) ol)).

  Lemma filter_pair_rev i j (bo : list bop) :
    filter (fun x : nat * bop => Nat.eqb (fst x) j) (rev (map (pair i) bo)) =
    if Nat.eqb i j then rev (map (pair i) bo) else [].
  Proof.
    induction bo as [|o bo IH]; cbn [map rev]; [destruct (Nat.eqb i j); reflexivity|].
    rewrite filter_app, IH. cbn [filter fst].
    destruct (Nat.eqb i j); [reflexivity|reflexivity].
  Qed.

  Lemma ops_of_poll i j bo ol :
    ops_of j (rev (map (pair i) bo) ++ ol) = ops_of j ol ++ (if Nat.eqb i j then bo else []).
  Proof.
    unfold ops_of. rewrite filter_app, map_app, rev_app_distr. f_equal.
    rewrite filter_pair_rev. destruct (Nat.eqb i j); [|reflexivity].
    rewrite <- map_rev, rev_involutive, map_map. cbn [snd]. apply map_id.
  Qed.

  Lemma ngr_ops_of i ol : ngr (ops_of i ol) = grants_of i ol.
  Proof.
    unfold ngr, ops_of, grants_of. rewrite len_filter_rev.
    induction ol as [|[j o] ol IH]; [reflexivity|].
    cbn [filter fst snd]. destruct (Nat.eqb j i); cbn [andb map filter snd].
    - destruct (is_grant o); cbn [length]; rewrite IH; reflexivity.
    - exact IH.
  Qed.


  (* ---------- global invariant ---------- *)
  Definition GI (c : cfg) (inps : nat -> rin) (b0 : option bucket) (s : st) : Prop :=
    (forall i, RI c (inps i) (is_some b0) (now s) (reqs s i) (ops_of i (oplog s))) /\ BI b0 s.

  Lemma BI_is_some b0 s : BI b0 s -> is_some (bud s) = is_some b0.
  Proof. unfold BI. destruct b0, (bud s); cbn; tauto. Qed.

  Lemma RI_mono c inp hb t t' r ol : t <= t' -> RI c inp hb t r ol -> RI c inp hb t' r ol.
  Proof.
    intros Ht [Hwf H]. split; [exact Hwf|]. destruct (ph r); try exact H.
    - destruct H as [H1 [H2 [H3 H4]]]. repeat split; try assumption; try tauto. lia.
    - destruct H as [H1 [H2 [prev [rest [H3 [H4 [H5 H6]]]]]]]. split; [exact H1|]. split; [exact H2|].
      exists prev, rest. repeat split; try assumption. lia.
  Qed.

  Lemma GI_init c inps b0 : wf_bucket b0 -> GI c inps b0 (init b0).
  Proof.
    intros Hb. split.
    - intros i. unfold RI. cbn. tauto.
    - unfold BI. cbn. destruct b0 as [k|]; [|exact I]. cbn in Hb.
      unfold all_grants, all_deposits, ngr, ndep. cbn. lia.
  Qed.

  Lemma GI_step c inps pf cp b0 s e : wf_bucket b0 -> GI c inps b0 s -> GI c inps b0 (step_st c inps pf cp s e).
  Proof.
    intros Hb0 [HR HB]. unfold step_st. destruct e as [i|d|i|i]; cbn [step].
    - (* Poll *)
      destruct (drive c (inps i) pf cp (now s) (reqs s i) (bud s))
        as [[[[r' b'] bo] p] sw] eqn:Ed.
      cbn [fst]. pose proof (BI_is_some _ _ HB) as Hsome.
      pose proof (HR i) as Hi. rewrite <- Hsome in Hi.
      destruct (drive_RI _ _ _ _ _ _ _ _ _ _ _ _ _ Hi Ed) as [H1 [H2 [H3 _]]].
      rewrite Hsome in H1. split.
      + intros j. cbn [now reqs oplog]. rewrite ops_of_poll.
        destruct (Nat.eq_dec j i) as [->|Hne].
        * rewrite upd_same, Nat.eqb_refl. exact H1.
        * rewrite upd_other by exact Hne.
          replace (Nat.eqb i j) with false by (symmetry; apply Nat.eqb_neq; congruence).
          rewrite app_nil_r. apply HR.
      + unfold BI in *. cbn [bud oplog]. destruct (all_counts_poll i bo (oplog s)) as [Eg Edp].
        rewrite Eg, Edp. subst b'. destruct b0 as [k0|], (bud s) as [k|]; cbn [apply_ops]; try tauto.
        destruct HB as [Hm [H0 Hle]]. cbn in Hb0. cbn [ops_ok] in H3.
        destruct (bucket_ops bo k H3 H0) as [I1 [I2 I3]]; [lia|]. cbn zeta in *.
        split; [congruence|]. split; [exact I2|]. lia.
    - (* Advance *)
      cbn [fst]. split.
      + intros i. cbn [now reqs oplog]. eapply RI_mono; [|apply HR]. lia.
      + exact HB.
    - (* Complete *)
      destruct (ph (reqs s i)) as [|[|]|dl|rel|] eqn:Eph; cbn [fst]; try (split; assumption).
      split; [|exact HB]. intros j. cbn [now reqs oplog].
      destruct (Nat.eq_dec j i) as [->|Hne]; [|rewrite upd_other by exact Hne; apply HR].
      rewrite upd_same. specialize (HR i). unfold RI in *. rewrite Eph in HR.
      cbn [ph log attempt res cur_start]. exact HR.
    - (* MakeReady *)
      destruct (ph (reqs s i)) as [|av|dl|[|]|] eqn:Eph; cbn [fst]; try (split; assumption).
      split; [|exact HB]. intros j. cbn [now reqs oplog].
      destruct (Nat.eq_dec j i) as [->|Hne]; [|rewrite upd_other by exact Hne; apply HR].
      rewrite upd_same. specialize (HR i). unfold RI in *. rewrite Eph in HR.
      cbn [ph log attempt res cur_start]. exact HR.
  Qed.

  Lemma GI_reach c inps pf cp b0 evs :
    wf_bucket b0 -> Forall (GI c inps b0) (states (step_st c inps pf cp) (init b0) evs).
  Proof.
    intros Hb. apply reach_inv; [apply GI_init; exact Hb|].
    intros s e H. apply GI_step; assumption.
  Qed.

  Lemma GI_fold c inps pf cp b0 evs :
    wf_bucket b0 -> GI c inps b0 (fold_left (step_st c inps pf cp) evs (init b0)).
  Proof.
    intros Hb. apply fold_left_inv; [apply GI_init; exact Hb|].
    intros s0 e H. apply GI_step; assumption.
  Qed.

  (* ---------- what the invariant says about inner calls ---------- *)
  Definition retries (r : rst) : nat := Nat.pred (length (started_calls r)).

  Lemma started_length (r : rst) :
    length (started_calls r) =
    (length (log r) + match ph r with PCalling _ => 1 | _ => 0 end)%nat.
  Proof.
    unfold started_calls, rev'. rewrite <- rev_alt, app_length, map_length, rev_length.
    destruct (ph r); reflexivity.
  Qed.

  Lemma wf_log_max c inp l : wf_log c inp l -> (length l <= Nat.max 1 (r_max inp))%nat.
  Proof.
    destruct l as [|cl [|prev rest]]; cbn [length]; try lia.
    intros [_ [_ [_ [[[e [_ [_ Hlt]]] _] Hwf]]]]. apply wf_log_length in Hwf. cbn [length]. lia.
  Qed.

  Lemma RI_calls c inp hb t r ol :
    RI c inp hb t r ol ->
    (length (started_calls r) <= Nat.max 1 (r_max inp))%nat /\ (hb = true -> (retries r <= ngr ol)%nat).
  Proof.
    intros [Hwf H]. unfold retries. rewrite started_length.
    pose proof (wf_log_max _ _ _ Hwf) as Hmax.
    assert (Hlog : forall prev rest, log r = prev :: rest -> retryable c inp prev ->
                   (S (length (log r)) <= r_max inp)%nat /\ length (log r) = S (c_idx prev)).
    { intros prev rest Hl [e [_ [_ Hlt]]]. rewrite Hl in *. apply wf_log_length in Hwf.
      cbn [length]. lia. }
    destruct (ph r) as [|av|dl|rel|].
    - destruct H as [_ [Hl [_ ->]]]. rewrite Hl. cbn. split; lia.
    - destruct H as [Ha [_ [_ [-> Hp]]]]. destruct (log r) as [|prev rest] eqn:El.
      + cbn [length] in *. split; [lia|]. intros ->. rewrite ngr_gr. lia.
      + destruct Hp as [Hre _]. destruct (Hlog prev rest eq_refl Hre) as [H1 H2].
        split; [lia|]. intros ->. rewrite ngr_gr. lia.
    - destruct H as [_ [-> [prev [rest [Hl [Hi [Hre _]]]]]]].
      destruct (Hlog prev rest Hl Hre) as [H1 H2]. split; [lia|]. intros ->. rewrite ngr_gr. lia.
    - destruct H as [_ [-> [prev [rest [Hl [Hi [Hre _]]]]]]].
      destruct (Hlog prev rest Hl Hre) as [H1 H2]. split; [lia|]. intros ->. rewrite ngr_gr. lia.
    - destruct H as [x [w [_ [_ ->]]]]. split; [lia|]. intros ->. rewrite ngr_app, ngr_gr. lia.
  Qed.

  (* C05_shared_budget *)
  Lemma shared_budget (c : cfg) (inps : nat -> rin) pf cp (k0 : bucket) evs n :
    0 <= tokens k0 -> 0 <= max_tokens k0 ->
    Forall (fun s => exists k, bud s = Some k /\ 0 <= tokens k /\
              Z.of_nat (sumn (fun i => retries (reqs s i)) n) * SCALE + tokens k <=
              tokens k0 + Z.of_nat (all_deposits (oplog s)) * SCALE)
           (states (step_st c inps pf cp) (init (Some k0)) evs).
  Proof.
    intros H0 Hm. eapply Forall_impl; [|apply (GI_reach c inps pf cp (Some k0) evs); cbn; split; assumption].
    intros s [HR HB]. unfold BI in HB. destruct (bud s) as [k|]; [|contradiction].
    destruct HB as [_ [Hk Hle]]. exists k. split; [reflexivity|]. split; [exact Hk|].
    assert (Hs : (sumn (fun i => retries (reqs s i)) n <= all_grants (oplog s))%nat).
    { etransitivity; [|apply (sum_grants_le (oplog s) n)]. apply sumn_le. intros i _.
      destruct (RI_calls _ _ _ _ _ _ (HR i)) as [_ H]. rewrite <- ngr_ops_of. apply H. reflexivity. }
    unfold SCALE in *. lia.
  Qed.

  (* any schedule, any interleaving: per-request clauses *)
  Definition sched_spec (c : cfg) (inp : rin) (hb : bool) (r : rst) (ol : list bop) : Prop :=
    (length (started_calls r) <= Nat.max 1 (r_max inp))%nat /\
    (hb = true -> (retries r <= ngr ol)%nat) /\
    wf_log c inp (log r) /\
    (forall av prev rest, ph r = PCalling av -> log r = prev :: rest ->
        retryable c inp prev /\ wake_at c prev <= cur_start r /\
        not_rerr (r_ready inp (attempt r))) /\
    (ph r = PDone <-> res r <> None) /\
    (forall x w, res r = Some (x, w) ->
       done_spec c inp hb r x w /\ ol = gr hb (length (log r) - 1) ++ tail_ops hb w).

  Lemma RI_sched c inp hb t r ol : RI c inp hb t r ol -> sched_spec c inp hb r ol.
  Proof.
    intros H. pose proof (RI_calls _ _ _ _ _ _ H) as [Hc Hg]. destruct H as [Hwf H].
    split; [exact Hc|]. split; [exact Hg|]. split; [exact Hwf|].
    destruct (ph r) as [|av|dl|rel|] eqn:Eph.
    - destruct H as [_ [_ [Hr _]]]. rewrite Hr.
      split; [discriminate|]. split; [split; [discriminate|congruence]|discriminate].
    - destruct H as [_ [Hr [_ [_ Hp]]]]. rewrite Hr.
      split; [intros av' prev rest _ Hl; rewrite Hl in Hp; exact Hp|].
      split; [split; [discriminate|congruence]|discriminate].
    - destruct H as [Hr _]. rewrite Hr.
      split; [discriminate|]. split; [split; [discriminate|congruence]|discriminate].
    - destruct H as [Hr _]. rewrite Hr.
      split; [discriminate|]. split; [split; [discriminate|congruence]|discriminate].
    - destruct H as [x [w [Hr Hd]]]. rewrite Hr.
      split; [discriminate|]. split; [split; [discriminate|reflexivity]|].
      intros x' w' E. injection E as <- <-. exact Hd.
  Qed.

  Lemma any_schedule (c : cfg) (inps : nat -> rin) pf cp b0 evs :
    wf_bucket b0 ->
    Forall (fun s => forall i, sched_spec c (inps i) (is_some b0) (reqs s i) (ops_of i (oplog s)))
           (states (step_st c inps pf cp) (init b0) evs).
  Proof.
    intros Hb. eapply Forall_impl; [|apply (GI_reach c inps pf cp b0 evs Hb)].
    intros s [HR _] i. eapply RI_sched. apply HR.
  Qed.

  (* a poll before the deadline of the backoff sleep does nothing; the first poll at or
     after it (service ready) issues the next inner call at that very instant *)
  Lemma poll_before_deadline (c : cfg) (inp : rin) f k t r b dl :
    ph r = PSleeping dl -> t < dl -> drive c inp (S f) (S k) t r b = (r, b, [], Pending, false).
  Proof.
    intros Hp Ht. cbn [drive]. rewrite Hp.
    replace (dl <=? t) with false by (symmetry; apply Z.leb_gt; exact Ht). reflexivity.
  Qed.

  Lemma poll_at_deadline (c : cfg) (inp : rin) f k t r b dl :
    ph r = PSleeping dl -> dl <= t -> r_ready inp (S (attempt r)) = ROk ->
    drive c inp (S (S f)) (S k) t r b =
    drive c inp f k t (mkRst (PCalling (negb (fst (r_inner inp (S (attempt r)))))) (S (attempt r)) t
                             (log r) (res r)) b.
  Proof.
    intros Hp Ht Hr. cbn [drive]. rewrite Hp.
    replace (dl <=? t) with true by (symmetry; apply Z.leb_le; exact Ht).
    cbn [ph attempt]. rewrite Hr. reflexivity.
  Qed.

  (* ---------- progress: a poll only returns Pending when the future really waits, or
     when the cooperative budget of the poll is used up (then it has woken itself) ---------- *)
  Definition waiting (inp : rin) (t : Z) (r : rst) : Prop :=
    match ph r with
    | PCalling false => True
    | PSleeping dl => t < dl
    | PReadying false => r_ready inp (attempt r) = RGated
    | _ => False
    end.

  Definition mu (coop : nat) (r : rst) : nat :=
    (4 * coop + match ph r with
                | PInit | PReadying _ => 3 | PCalling _ => 2 | PSleeping _ => 1 | PDone => 0
                end)%nat.

  Lemma drive_progress (c : cfg) (inp : rin) fuel : forall coop t r b r' b' bo,
    (mu coop r < fuel)%nat ->
    drive c inp fuel coop t r b = (r', b', bo, Pending, false) -> waiting inp t r'.
  Proof.
    induction fuel as [|f IH]; intros coop t r b r' b' bo Hmu Hd; [lia|].
    cbn [drive] in Hd. unfold mu in Hmu.
    destruct (ph r) as [|av|dl|rel|] eqn:Eph.
    - eapply IH; [|exact Hd]. unfold mu, start_call. cbn [ph]. lia.
    - destruct (fst (r_inner inp (attempt r)) && (coop =? 0)%nat); [discriminate|].
      destruct av; cbn [negb] in Hd.
      2:{ injection Hd as <- <- <-. unfold waiting. rewrite Eph. exact I. }
      destruct (after_outcome c (is_some b) (r_max inp) (attempt r)
                  (snd (r_inner inp (attempt r)))
                  match b with Some bk => fst (tb_try_withdraw bk) | None => true end)
        as [bo0 act] eqn:Ea.
      destruct act as [x w|d]; [discriminate|].
      destruct (drive c inp f _ t _ (apply_ops b bo0)) as [[[[r1 b1] bo1] p1] sw1] eqn:Ed.
      injection Hd as <- <- <- -> ->.
      eapply IH; [|exact Ed]. unfold mu. cbn [ph].
      destruct (fst (r_inner inp (attempt r))); lia.
    - destruct coop as [|k]; [discriminate|].
      destruct (dl <=? t) eqn:Et.
      + eapply IH; [|exact Hd]. unfold mu. cbn [ph]. lia.
      + injection Hd as <- <- <-. unfold waiting. rewrite Eph. apply Z.leb_gt. exact Et.
    - destruct (r_ready inp (attempt r)) as [|e|] eqn:Er.
      + eapply IH; [|exact Hd]. unfold mu, start_call. cbn [ph]. lia.
      + discriminate.
      + destruct rel.
        * eapply IH; [|exact Hd]. unfold mu, start_call. cbn [ph]. lia.
        * injection Hd as <- <- <-. unfold waiting. rewrite Eph. exact Er.
    - discriminate.
  Qed.

  Lemma mu_lt_fuel pf cp r : (4 * cp + 3 < pf)%nat -> (mu cp r < pf)%nat.
  Proof. unfold mu. destruct (ph r); lia. Qed.

  Lemma poll_fuel_enough : (4 * COOP + 3 < poll_fuel)%nat.
  Proof. unfold poll_fuel. lia. Qed.

  (* a poll that ends on an exhausted budget has used it: every unit went into a completed
     backoff sleep (one attempt each), except at most one for the result of a gated call *)
  Lemma drive_selfwake (c : cfg) (inp : rin) fuel : forall coop t r b r' b' bo p,
    drive c inp fuel coop t r b = (r', b', bo, p, true) ->
    (attempt r <= attempt r')%nat /\
    (coop <= attempt r' - attempt r +
             match ph r with
             | PCalling true => if fst (r_inner inp (attempt r)) then 1 else 0
             | _ => 0
             end)%nat /\
    match ph r' with
    | PSleeping _ => True
    | PCalling _ => fst (r_inner inp (attempt r')) = true
    | _ => False
    end.
  Proof.
    induction fuel as [|f IH]; intros coop t r b r' b' bo p Hd; [discriminate|].
    cbn [drive] in Hd. destruct (ph r) as [|av|dl|rel|] eqn:Eph.
    - apply IH in Hd. unfold start_call in Hd. cbn [ph attempt] in Hd.
      destruct Hd as [H1 [H2 H3]]. split; [exact H1|]. split; [|exact H3].
      destruct (fst (r_inner inp (attempt r))); cbn [negb] in H2; lia.
    - destruct (fst (r_inner inp (attempt r))) eqn:Eg; cbn [andb] in Hd.
      + destruct (coop =? 0)%nat eqn:E0.
        * injection Hd as <- _ _ _. apply Nat.eqb_eq in E0. rewrite Eph, Eg.
          split; [lia|]. split; [lia|reflexivity].
        * destruct av; cbn [negb] in Hd; [|discriminate].
          destruct (after_outcome c (is_some b) (r_max inp) (attempt r)
                      (snd (r_inner inp (attempt r)))
                      match b with Some bk => fst (tb_try_withdraw bk) | None => true end)
            as [bo0 act].
          destruct act as [x w|d]; [discriminate|].
          destruct (drive c inp f _ t _ (apply_ops b bo0)) as [[[[r1 b1] bo1] p1] sw1] eqn:Ed.
          injection Hd as <- _ _ _ ->. apply IH in Ed. cbn [ph attempt] in Ed.
          destruct Ed as [H1 [H2 H3]]. split; [exact H1|]. split; [lia|exact H3].
      + destruct av; cbn [negb] in Hd; [|discriminate].
        destruct (after_outcome c (is_some b) (r_max inp) (attempt r)
                    (snd (r_inner inp (attempt r)))
                    match b with Some bk => fst (tb_try_withdraw bk) | None => true end)
          as [bo0 act].
        destruct act as [x w|d]; [discriminate|].
        destruct (drive c inp f _ t _ (apply_ops b bo0)) as [[[[r1 b1] bo1] p1] sw1] eqn:Ed.
        injection Hd as <- _ _ _ ->. apply IH in Ed. cbn [ph attempt] in Ed.
        destruct Ed as [H1 [H2 H3]]. split; [exact H1|]. split; [lia|exact H3].
    - destruct coop as [|k].
      + injection Hd as <- _ _ _. rewrite Eph. split; [lia|]. split; [lia|exact I].
      + destruct (dl <=? t); [|discriminate].
        apply IH in Hd. cbn [ph attempt] in Hd. destruct Hd as [H1 [H2 H3]].
        split; [lia|]. split; [lia|exact H3].
    - destruct (r_ready inp (attempt r)) as [|e|].
      + apply IH in Hd. unfold start_call in Hd. cbn [ph attempt] in Hd.
        destruct Hd as [H1 [H2 H3]]. split; [exact H1|]. split; [|exact H3].
        destruct (fst (r_inner inp (attempt r))); cbn [negb] in H2; lia.
      + discriminate.
      + destruct rel; [|discriminate].
        apply IH in Hd. unfold start_call in Hd. cbn [ph attempt] in Hd.
        destruct Hd as [H1 [H2 H3]]. split; [exact H1|]. split; [|exact H3].
        destruct (fst (r_inner inp (attempt r))); cbn [negb] in H2; lia.
    - discriminate.
  Qed.

  (* what one Poll event does, in any reachable state *)
  Lemma poll_event (c : cfg) (inps : nat -> rin) pf cp b0 evs i :
    wf_bucket b0 -> (4 * cp + 3 < pf)%nat ->
    let s := fold_left (step_st c inps pf cp) evs (init b0) in
    let s' := fst (step c inps pf cp s (Poll i)) in
    let o := snd (step c inps pf cp s (Poll i)) in
    (o_res o = Pending -> o_self o = false -> waiting (inps i) (now s) (reqs s' i)) /\
    (o_self o = true ->
       o_res o = Pending /\ woken s' i = true /\
       (cp <= S (attempt (reqs s' i) - attempt (reqs s i)))%nat /\
       match ph (reqs s' i) with
       | PSleeping _ => True
       | PCalling _ => fst (r_inner (inps i) (attempt (reqs s' i))) = true
       | _ => False
       end) /\
    (o_res o = Nothing -> ph (reqs s i) = PDone /\ reqs s' i = reqs s i) /\
    (forall x, o_res o = Ready x ->
       ph (reqs s i) <> PDone /\ ph (reqs s' i) = PDone /\ exists w, res (reqs s' i) = Some (x, w)) /\
    (In BDeposit (o_ops o) <-> is_some b0 = true /\ exists v, o_res o = Ready (inl v)) /\
    (In (BWithdraw false) (o_ops o) -> exists e, o_res o = Ready (inr e)) /\
    (is_some b0 = false -> o_ops o = []).
  Proof.
    intros Hb Hpf. cbn zeta.
    set (s := fold_left (step_st c inps pf cp) evs (init b0)).
    pose proof (GI_fold c inps pf cp b0 evs Hb) as HG. fold s in HG.
    destruct HG as [HR HB]. cbn [step].
    destruct (drive c (inps i) pf cp (now s) (reqs s i) (bud s))
      as [[[[r' b'] bo] p] sw] eqn:Ed.
    cbn [fst snd o_res o_ops o_self reqs woken]. rewrite !upd_same.
    pose proof (BI_is_some _ _ HB) as Hsome. pose proof (HR i) as Hi. rewrite <- Hsome in Hi.
    destruct (drive_RI _ _ _ _ _ _ _ _ _ _ _ _ _ Hi Ed) as [_ [_ [H3 [P1 [P2 [P3 [P4 P5]]]]]]].
    rewrite Hsome in *.
    split.
    { intros -> ->. eapply drive_progress; [|exact Ed]. apply mu_lt_fuel. exact Hpf. }
    split.
    { intros ->. split; [apply P5; reflexivity|]. split; [reflexivity|].
      destruct (drive_selfwake _ _ _ _ _ _ _ _ _ _ _ Ed) as [S1 [S2 S3]].
      split; [|exact S3].
      destruct (ph (reqs s i)) as [|[|]| | |]; try lia.
      destruct (fst (r_inner (inps i) (attempt (reqs s i)))); lia. }
    split; [exact P1|]. split; [exact P2|]. split; [exact P3|]. split; [exact P4|].
    intros Hn. unfold ops_ok in H3. destruct (bud s); [cbn in Hsome; congruence|exact H3].
  Qed.

  (* the budget operations of a poll are the token bucket's own answers, in order, and leave
     the bucket in the corresponding state: a retry is denied only when the bucket refuses
     (less than one token), and each request has at most as many retries as it was granted *)
  Lemma poll_ops_consistent (c : cfg) (inps : nat -> rin) pf cp b0 evs i :
    wf_bucket b0 ->
    let s := fold_left (step_st c inps pf cp) evs (init b0) in
    let s' := fst (step c inps pf cp s (Poll i)) in
    let o := snd (step c inps pf cp s (Poll i)) in
    ops_ok (bud s) (o_ops o) /\ bud s' = apply_ops (bud s) (o_ops o) /\
    (forall j, is_some b0 = true -> (retries (reqs s' j) <= grants_of j (oplog s'))%nat).
  Proof.
    intros Hb. cbn zeta.
    set (s := fold_left (step_st c inps pf cp) evs (init b0)).
    pose proof (GI_fold c inps pf cp b0 evs Hb) as HG. fold s in HG.
    pose proof (GI_step c inps pf cp b0 s (Poll i) Hb HG) as [HR' _].
    destruct HG as [HR HB]. unfold step_st in HR'. cbn [step] in *.
    destruct (drive c (inps i) pf cp (now s) (reqs s i) (bud s))
      as [[[[r' b'] bo] p] sw] eqn:Ed.
    cbn [fst snd o_ops bud] in *.
    pose proof (BI_is_some _ _ HB) as Hsome. pose proof (HR i) as Hi. rewrite <- Hsome in Hi.
    destruct (drive_RI _ _ _ _ _ _ _ _ _ _ _ _ _ Hi Ed) as [_ [H2 [H3 _]]].
    split; [exact H3|]. split; [exact H2|].
    intros j Hh. destruct (RI_calls _ _ _ _ _ _ (HR' j)) as [_ H]. rewrite <- ngr_ops_of.
    apply H. exact Hh.
  Qed.


  (* ------------------------------------------------------------------ *)
  (* refinement: what the step machine does for one request IS a run of [retry_run].
     The streams are read off the request's log: outcomes and readiness errors are the
     wrapped service's, durations and extra waits are the observed ones, the budget's
     answers are the recorded ones. *)
  Fixpoint w_dur (l : list call) (k : nat) : Z :=
    match l with
    | [] => 0
    | cl :: rest => if Nat.eqb k (length rest) then c_end cl - c_start cl else w_dur rest k
    end.

  Fixpoint w_slack (c : cfg) (l : list call) (k : nat) : Z :=
    match l with
    | [] => 0
    | cl :: rest =>
      if Nat.eqb k (length rest) then
        match rest with prev :: _ => c_start cl - wake_at c prev | [] => 0 end
      else w_slack c rest k
    end.

  Fixpoint w_t0 (l : list call) : Z :=
    match l with
    | [] => 0
    | cl :: rest => match rest with [] => c_start cl | _ => w_t0 rest end
    end.

  Definition rdy_err (x : rdy Err) : option Err := match x with RErr e => Some e | _ => None end.

  Definition w_inner (inp : rin) (l : list call) (k : nat) : Z * outcome :=
    (w_dur l k, snd (r_inner inp k)).
  Definition w_ready (c : cfg) (inp : rin) (l : list call) (k : nat) : Z * option Err :=
    (w_slack c l k, rdy_err (r_ready inp k)).
  (* every withdrawal that was asked was granted, except the one that ended a WDenied run *)
  Definition w_grant (l : list call) (w : why) (k : nat) : bool :=
    negb (match w with WDenied => Nat.eqb (S k) (length l) | _ => false end).

  (* a log (newest first) is what [go] produces from t0 on the given streams *)
  Fixpoint replays (c : cfg) (inner : nat -> Z * outcome) (ready : nat -> Z * option Err)
           (t0 : Z) (l : list call) : Prop :=
    match l with
    | [] => True
    | cl :: rest =>
      c_idx cl = length rest /\ c_out cl = snd (inner (c_idx cl)) /\
      c_end cl = c_start cl + Z.max 0 (fst (inner (c_idx cl))) /\
      match rest with
      | [] => c_start cl = t0
      | prev :: _ => c_start cl = wake_at c prev + Z.max 0 (fst (ready (c_idx cl)))
      end /\ replays c inner ready t0 rest
    end.

  Lemma replays_of_wf c inp inner ready : forall l,
    wf_log c inp l ->
    (forall k, snd (inner k) = snd (r_inner inp k)) ->
    (forall k, (k < length l)%nat -> fst (inner k) = w_dur l k /\ fst (ready k) = w_slack c l k) ->
    replays c inner ready (w_t0 l) l.
  Proof.
    induction l as [|cl rest IH]; intros Hwf Hs Hk; [exact I|].
    cbn [wf_log] in Hwf. destruct Hwf as [Hi [Ho [Hse [Hp Hwf]]]].
    destruct (Hk (length rest)) as [Hd Hsl]; [cbn [length]; lia|].
    cbn [w_dur w_slack] in Hd, Hsl. rewrite Nat.eqb_refl in Hd, Hsl.
    cbn [replays]. split; [exact Hi|]. split; [rewrite Hs; exact Ho|].
    split; [rewrite Hi, Hd; lia|].
    assert (Hrest : replays c inner ready (w_t0 rest) rest).
    { apply IH; [exact Hwf|exact Hs|]. intros k Hlt. destruct (Hk k) as [H1 H2]; [cbn [length]; lia|].
      cbn [w_dur w_slack] in H1, H2.
      replace (Nat.eqb k (length rest)) with false in H1, H2 by (symmetry; apply Nat.eqb_neq; lia).
      split; assumption. }
    destruct rest as [|prev rest'].
    - split; [reflexivity|exact I].
    - destruct Hp as [_ [Hw _]]. split; [rewrite Hi, Hsl; lia|]. exact Hrest.
  Qed.

  Lemma run_eta (r : run) : mkRun (calls r) (result r) (reason r) (ops r) = r.
  Proof. destruct r; reflexivity. Qed.

  Section Replay.
    Context (c : cfg) (hb : bool) (max : nat) (inner : nat -> Z * outcome)
            (ready : nat -> Z * option Err) (grant : nat -> bool) (t0 : Z).
    Notation go := (go c hb max inner ready grant).
    Notation stopb := (stop_at c hb max inner ready grant).

    (* one step of [go] at an attempt that is retried *)
    Lemma go_retry_step f a t :
      stopb a = false ->
      go (S f) a t =
      let tf := t + Z.max 0 (fst (inner a)) in
      let r := go f (S a) (ceil_ms (tf + Z.max 0 (backoff c a)) + Z.max 0 (fst (ready (S a)))) in
      mkRun (mkCall a t tf (snd (inner a)) :: calls r) (result r) (reason r)
            ((if hb then [BWithdraw true] else []) ++ ops r).
    Proof.
      intros Hst. destruct (stop_at_false _ _ _ _ _ _ _ Hst) as [e [Ho [Hs [Hlt [Hg Hr]]]]].
      cbn [Retry.go]. unfold after_outcome. rewrite Ho, Hs. cbn [negb].
      replace (max <=? a + 1)%nat with false by (symmetry; apply Nat.leb_gt; lia).
      destruct hb.
      - rewrite (Hg eq_refl), Hr. reflexivity.
      - rewrite Hr. reflexivity.
    Qed.

    (* a replayed log all of whose calls but the newest were retried is a prefix of the run *)
    Lemma go_replay : forall rest cl f,
      replays c inner ready t0 (cl :: rest) ->
      (forall k, (k < length rest)%nat -> stopb k = false) ->
      go (f + length rest) 0 t0 =
      let r := go f (length rest) (c_start cl) in
      mkRun (rev rest ++ calls r) (result r) (reason r) (gr hb (length rest) ++ ops r).
    Proof.
      induction rest as [|prev rest' IH]; intros cl f Hrp Hst.
      - cbn [replays] in Hrp. destruct Hrp as [_ [_ [_ [Ht _]]]].
        cbn [length rev app]. rewrite Nat.add_0_r, Ht. cbn zeta.
        unfold gr. replace (if hb then repeat (BWithdraw true) 0 else []) with (@nil bop) by (destruct hb; reflexivity).
        cbn [app]. symmetry. apply run_eta.
      - cbn [replays] in Hrp. destruct Hrp as [Hi [Ho [He [Hs Hrp']]]].
        cbn [length]. replace (f + S (length rest'))%nat with (S f + length rest')%nat by lia.
        rewrite (IH prev (S f) Hrp') by (intros k Hk; apply Hst; cbn [length]; lia).
        cbn zeta.
        pose proof Hrp' as Hp. cbn [replays] in Hp. destruct Hp as [Hpi [Hpo [Hpe _]]].
        rewrite go_retry_step by (apply Hst; cbn [length]; lia). cbn zeta.
        cbn [calls result reason ops].
        assert (Hprev : mkCall (length rest') (c_start prev)
                          (c_start prev + Z.max 0 (fst (inner (length rest'))))
                          (snd (inner (length rest'))) = prev).
        { destruct prev as [pi ps pe po]. cbn [c_idx c_start c_end c_out] in *. subst pi.
          rewrite <- Hpe, <- Hpo. reflexivity. }
        rewrite Hprev.
        assert (Hnext : ceil_ms (c_start prev + Z.max 0 (fst (inner (length rest'))) +
                                 Z.max 0 (backoff c (length rest'))) +
                        Z.max 0 (fst (ready (S (length rest')))) = c_start cl).
        { rewrite Hs. unfold wake_at. rewrite Hpe, Hpi, Hi. cbn [length]. reflexivity. }
        rewrite Hnext. f_equal.
        + cbn [rev]. rewrite <- app_assoc. reflexivity.
        + rewrite app_assoc, gr_S. reflexivity.
    Qed.
  End Replay.

  Lemma wf_retried c inp : forall l k,
    wf_log c inp l -> (S k < length l)%nat ->
    exists e, snd (r_inner inp k) = Fail e /\ should_retry c e = true /\ (S k < r_max inp)%nat /\
              not_rerr (r_ready inp (S k)).
  Proof.
    induction l as [|cl rest IH]; intros k Hwf Hk; [cbn in Hk; lia|].
    cbn [wf_log] in Hwf. destruct Hwf as [Hi [_ [_ [Hp Hwf]]]]. cbn [length] in Hk.
    destruct (Nat.eq_dec (S k) (length rest)) as [E|NE]; [|apply IH; [exact Hwf|lia]].
    destruct rest as [|prev rest']; [cbn in E; lia|].
    destruct Hp as [[e [Ho [Hs Hlt]]] [_ Hnr]].
    cbn [wf_log] in Hwf. destruct Hwf as [Hpi [Hpo _]]. cbn [length] in E.
    assert (Hk' : c_idx prev = k) by lia.
    exists e. rewrite <- Hk', <- Hpo. split; [exact Ho|]. split; [exact Hs|]. split; [exact Hlt|].
    rewrite Hi in Hnr. cbn [length] in Hnr. rewrite Hpi. exact Hnr.
  Qed.

  Section Finish.
    Context (c : cfg) (hb : bool) (max : nat) (inner : nat -> Z * outcome)
            (ready : nat -> Z * option Err) (grant : nat -> bool) (t0 : Z).
    Notation go := (go c hb max inner ready grant).
    Notation stopb := (stop_at c hb max inner ready grant).

    Lemma go_return f a t bo (x : Res + Err) w :
      after_outcome c hb max a (snd (inner a)) (grant a) = (bo, AReturn x w) ->
      go f a t = mkRun [mkCall a t (t + Z.max 0 (fst (inner a))) (snd (inner a))] x w bo.
    Proof. intros H. destruct f; cbn [Retry.go]; rewrite H; reflexivity. Qed.

    Lemma go_not_ready f a t bo d e :
      after_outcome c hb max a (snd (inner a)) (grant a) = (bo, ARetry d) ->
      snd (ready (S a)) = Some e ->
      go (S f) a t =
      mkRun [mkCall a t (t + Z.max 0 (fst (inner a))) (snd (inner a))] (inr e) WNotReady bo.
    Proof. intros H Hr. cbn [Retry.go]. rewrite H, Hr. reflexivity. Qed.

    Lemma call_eta (cl : call) a t tf o :
      c_idx cl = a -> c_start cl = t -> c_end cl = tf -> c_out cl = o -> mkCall a t tf o = cl.
    Proof. destruct cl; cbn. intros <- <- <- <-. reflexivity. Qed.

    Lemma newest_eta cl rest :
      replays c inner ready t0 (cl :: rest) ->
      mkCall (length rest) (c_start cl) (c_start cl + Z.max 0 (fst (inner (length rest))))
             (snd (inner (length rest))) = cl.
    Proof.
      cbn [replays]. intros [Hi [Ho [He _]]]. rewrite Hi in *.
      apply call_eta; [exact Hi|reflexivity|exact He|exact Ho].
    Qed.

    Lemma refine_return cl rest F bo (x : Res + Err) w :
      replays c inner ready t0 (cl :: rest) ->
      (forall k, (k < length rest)%nat -> stopb k = false) ->
      (length rest <= F)%nat ->
      after_outcome c hb max (length rest) (snd (inner (length rest))) (grant (length rest))
        = (bo, AReturn x w) ->
      go F 0 t0 = mkRun (rev (cl :: rest)) x w (gr hb (length rest) ++ bo).
    Proof.
      intros Hrp Hst HF Ha.
      replace F with ((F - length rest) + length rest)%nat by lia.
      rewrite (go_replay c hb max inner ready grant t0 rest cl _ Hrp Hst). cbn zeta.
      rewrite (go_return _ _ _ _ _ _ Ha). cbn [calls result reason ops].
      rewrite (newest_eta _ _ Hrp). reflexivity.
    Qed.

    Lemma refine_not_ready cl rest F bo d e :
      replays c inner ready t0 (cl :: rest) ->
      (forall k, (k < length rest)%nat -> stopb k = false) ->
      (S (length rest) <= F)%nat ->
      after_outcome c hb max (length rest) (snd (inner (length rest))) (grant (length rest))
        = (bo, ARetry d) ->
      snd (ready (S (length rest))) = Some e ->
      go F 0 t0 = mkRun (rev (cl :: rest)) (inr e) WNotReady (gr hb (length rest) ++ bo).
    Proof.
      intros Hrp Hst HF Ha Hr.
      replace F with (S (F - S (length rest)) + length rest)%nat by lia.
      rewrite (go_replay c hb max inner ready grant t0 rest cl _ Hrp Hst). cbn zeta.
      rewrite (go_not_ready _ _ _ _ _ _ Ha Hr). cbn [calls result reason ops].
      rewrite (newest_eta _ _ Hrp). reflexivity.
    Qed.
  End Finish.

  (* what a returned future did is exactly a run of [retry_run] *)
  Lemma step_refines_run (c : cfg) (inps : nat -> rin) pf cp b0 evs i x w :
    wf_bucket b0 ->
    let s := fold_left (step_st c inps pf cp) evs (init b0) in
    res (reqs s i) = Some (x, w) ->
    let l := log (reqs s i) in
    let r := retry_run c (is_some b0) (r_max (inps i)) (w_inner (inps i) l) (w_ready c (inps i) l)
                       (w_grant l w) (w_t0 l) in
    calls r = rev l /\ result r = x /\ reason r = w /\ ops r = ops_of i (oplog s).
  Proof.
    intros Hb. cbn zeta. set (s := fold_left (step_st c inps pf cp) evs (init b0)). intros Hres.
    pose proof (GI_fold c inps pf cp b0 evs Hb) as [HR _]. fold s in HR. specialize (HR i).
    set (rq := reqs s i) in *. set (inp := inps i) in *. set (hb := is_some b0) in *.
    destruct HR as [Hwf Hph].
    assert (Hdone : exists x' w', res rq = Some (x', w') /\ done_spec c inp hb rq x' w' /\
                      ops_of i (oplog s) = gr hb (length (log rq) - 1) ++ tail_ops hb w').
    { destruct (ph rq); try exact Hph; exfalso.
      - destruct Hph as [_ [_ [Hr _]]]. congruence.
      - destruct Hph as [_ [Hr _]]. congruence.
      - destruct Hph as [Hr _]. congruence.
      - destruct Hph as [Hr _]. congruence. }
    destruct Hdone as [x' [w' [Hr' [Hd Hol]]]]. rewrite Hres in Hr'. injection Hr' as <- <-.
    set (l := log rq) in *.
    set (inner := w_inner inp l). set (ready := w_ready c inp l). set (grant := w_grant l w).
    assert (Hrp : replays c inner ready (w_t0 l) l).
    { apply (replays_of_wf c inp); [exact Hwf|reflexivity|]. intros k _. split; reflexivity. }
    set (t0 := w_t0 l) in *. clearbody t0.
    assert (Hstop : forall k, (S k < length l)%nat ->
                      stop_at c hb (r_max inp) inner ready grant k = false).
    { intros k Hk. destruct (wf_retried c inp l k Hwf Hk) as [e [Ho [Hs [Hlt Hnr]]]].
      unfold stop_at. subst inner ready grant. unfold w_inner, w_ready, w_grant. cbn [fst snd].
      rewrite Ho, Hs. cbn [negb orb].
      replace (r_max inp <=? k + 1)%nat with false by (symmetry; apply Nat.leb_gt; lia).
      assert (Hg : negb match w with WDenied => Nat.eqb (S k) (length l) | _ => false end = true).
      { destruct w; try reflexivity. replace (Nat.eqb (S k) (length l)) with false; [reflexivity|].
        symmetry. apply Nat.eqb_neq. lia. }
      rewrite Hg. cbn [negb]. rewrite Bool.andb_false_r. cbn [orb].
      destruct (r_ready inp (S k)); try reflexivity. contradiction. }
    unfold retry_run. set (F := Nat.pred (Nat.max 1 (r_max inp))).
    (* the calls before the newest one fit into the fuel *)
    assert (HF : forall cl rest, l = cl :: rest -> (length rest <= F)%nat).
    { intros cl rest Hl. destruct rest as [|p rest']; [cbn; lia|].
      destruct (wf_retried c inp l (length rest') Hwf) as [e [_ [_ [Hlt _]]]];
        [rewrite Hl; cbn [length]; lia|]. cbn [length]. subst F. lia. }
    assert (Hfin : forall cl rest bo, l = cl :: rest ->
              after_outcome c hb (r_max inp) (length rest) (snd (inner (length rest)))
                            (grant (length rest)) = (bo, AReturn x w) ->
              bo = tail_ops hb w ->
              let r := go c hb (r_max inp) inner ready grant F 0 t0 in
              calls r = rev l /\ result r = x /\ reason r = w /\ ops r = ops_of i (oplog s)).
    { intros cl rest bo Hl Ha Hbo. cbn zeta. rewrite Hl in Hrp.
      rewrite (refine_return c hb (r_max inp) inner ready grant t0 cl rest F bo x w Hrp);
        [|intros k Hk; apply Hstop; rewrite Hl; cbn [length]; lia|apply (HF cl rest Hl)|exact Ha].
      cbn [calls result reason ops]. rewrite Hl. repeat split; try reflexivity.
      rewrite Hol, Hl, Hbo. cbn [length]. replace (S (length rest) - 1)%nat with (length rest) by lia.
      reflexivity. }
    assert (Hinner : forall k, snd (inner k) = snd (r_inner inp k)) by reflexivity.
    destruct w; cbn [done_spec] in Hd; try contradiction.
    - (* WOk *)
      destruct Hd as [cl [rest [Hl [Hi [Hx [v Hv]]]]]]. fold l in Hl.
      pose proof Hwf as Hwf'. rewrite Hl in Hwf'. cbn [wf_log] in Hwf'. destruct Hwf' as [Hci [Hco _]].
      apply (Hfin cl rest (tail_ops hb WOk) Hl); [|reflexivity].
      rewrite Hinner, <- Hci, <- Hco, Hv. cbn [after_outcome]. rewrite Hx, Hv. destruct hb; reflexivity.
    - (* WRefused *)
      destruct Hd as [cl [rest [Hl [Hi [Hx [e [Hv Hs]]]]]]]. fold l in Hl.
      pose proof Hwf as Hwf'. rewrite Hl in Hwf'. cbn [wf_log] in Hwf'. destruct Hwf' as [Hci [Hco _]].
      apply (Hfin cl rest (tail_ops hb WRefused) Hl); [|reflexivity].
      rewrite Hinner, <- Hci, <- Hco, Hv. cbn [after_outcome]. rewrite Hs, Hx, Hv. cbn [negb].
      destruct hb; reflexivity.
    - (* WMax *)
      destruct Hd as [cl [rest [Hl [Hi [Hx [e [Hv [Hs Hm]]]]]]]]. fold l in Hl.
      pose proof Hwf as Hwf'. rewrite Hl in Hwf'. cbn [wf_log] in Hwf'. destruct Hwf' as [Hci [Hco _]].
      apply (Hfin cl rest (tail_ops hb WMax) Hl); [|reflexivity].
      rewrite Hinner, <- Hci, <- Hco, Hv. cbn [after_outcome]. rewrite Hs, Hx, Hv. cbn [negb].
      replace (r_max inp <=? c_idx cl + 1)%nat with true by (symmetry; apply Nat.leb_le; lia).
      destruct hb; reflexivity.
    - (* WDenied *)
      destruct Hd as [cl [rest [Hl [Hi [Hx [e [Hv [Hs [Hm Hhb]]]]]]]]]. fold l in Hl.
      pose proof Hwf as Hwf'. rewrite Hl in Hwf'. cbn [wf_log] in Hwf'. destruct Hwf' as [Hci [Hco _]].
      apply (Hfin cl rest (tail_ops hb WDenied) Hl); [|reflexivity].
      rewrite Hinner, <- Hci, <- Hco, Hv. cbn [after_outcome]. rewrite Hs, Hx, Hv. cbn [negb].
      replace (r_max inp <=? c_idx cl + 1)%nat with false by (symmetry; apply Nat.leb_gt; lia).
      rewrite Hhb. subst grant. unfold w_grant. rewrite Hl, Hci. cbn [length].
      rewrite Nat.eqb_refl. reflexivity.
    - (* WNotReady *)
      destruct Hd as [prev [rest [e [Hl [Hi [[e0 [Ho [Hs Hlt]]] [Hrd Hx]]]]]]]. fold l in Hl.
      pose proof Hwf as Hwf'. rewrite Hl in Hwf'. cbn [wf_log] in Hwf'. destruct Hwf' as [Hci [Hco _]].
      rewrite Hl in Hrp.
      assert (Ha : after_outcome c hb (r_max inp) (length rest) (snd (inner (length rest)))
                     (grant (length rest)) =
                   ((if hb then [BWithdraw true] else []), ARetry (backoff c (length rest)))).
      { rewrite Hinner, <- Hci, <- Hco, Ho. cbn [after_outcome]. rewrite Hs. cbn [negb].
        replace (r_max inp <=? c_idx prev + 1)%nat with false by (symmetry; apply Nat.leb_gt; lia).
        subst grant. unfold w_grant. destruct hb; reflexivity. }
      assert (Hre : snd (ready (S (length rest))) = Some e).
      { subst ready. unfold w_ready. cbn [snd]. rewrite <- Hci, Hi, Hrd. reflexivity. }
      rewrite (refine_not_ready c hb (r_max inp) inner ready grant t0 prev rest F
                 (if hb then [BWithdraw true] else []) (backoff c (length rest)) e Hrp);
        [|intros k Hk; apply Hstop; rewrite Hl; cbn [length]; lia| |exact Ha|exact Hre].
      + cbn [calls result reason ops]. rewrite Hl, Hx. repeat split; try reflexivity.
        rewrite Hol, Hl. cbn [length]. replace (S (length rest) - 1)%nat with (length rest) by lia.
        unfold tail_ops. destruct hb; reflexivity.
      + subst F. lia.
  Qed.
End RetryProofs.

(* ---------- non-vacuity: the hypotheses and every stop reason are reachable ---------- *)
Module Examples.
  Definition c1 : cfg Zerr := {| pred := Some (fun e => snd e); backoff := fun k => 5 * MS * Z.of_nat (S k) |}.
  Definition fails_then_ok (n : nat) (k : nat) : Z * outcome Z Zerr :=
    (3 * MS, if (k <? n)%nat then Fail (Z.of_nat k, true) else Ok 42).
  Definition rd0 (k : nat) : Z * option Zerr := (0, None).

  (* three failures, then success: 4 calls, backoffs 5, 10, 15 ms after latencies of 3 ms *)
  Example run_ok :
    let r := retry_run c1 true 5 (fails_then_ok 3) rd0 (fun _ => true) (100 * MS) in
    map (fun cl => (c_start cl / MS, c_end cl / MS)) (calls r) = [(100, 103); (108, 111); (121, 124); (139, 142)] /\
    result r = inl 42 /\ reason r = WOk /\
    ops r = [BWithdraw true; BWithdraw true; BWithdraw true; BDeposit].
  Proof. vm_compute. repeat split; reflexivity. Qed.

  (* a backoff of 1.5 ms after a failure observed at 3 ms: the retry starts at 5 ms *)
  Example run_submilli :
    let r := retry_run {| pred := None; backoff := fun _ => 1500000 |} false 2
                       (fails_then_ok 1) rd0 (fun _ => true) 0 in
    map (fun cl => (c_start cl, c_end cl)) (calls r) = [(0, 3 * MS); (5 * MS, 8 * MS)].
  Proof. vm_compute. reflexivity. Qed.

  Example run_max : reason (retry_run c1 false 2 (fails_then_ok 3) rd0 (fun _ => true) 0) = WMax /\
                    length (calls (retry_run c1 false 2 (fails_then_ok 3) rd0 (fun _ => true) 0)) = 2%nat.
  Proof. vm_compute. split; reflexivity. Qed.

  Example run_max0 : length (calls (retry_run c1 false 0 (fails_then_ok 3) rd0 (fun _ => true) 0)) = 1%nat.
  Proof. reflexivity. Qed.

  Example run_refused :
    reason (retry_run (Res:=Z) c1 false 5 (fun k => (0, Fail (7, negb (Nat.eqb k 1)))) rd0 (fun _ => true) 0) = WRefused.
  Proof. reflexivity. Qed.

  Example run_denied :
    let r := retry_run c1 true 5 (fails_then_ok 3) rd0 (seq_grant (tb_new 10 1)) 0 in
    reason r = WDenied /\ length (calls r) = 2%nat /\ ops r = [BWithdraw true; BWithdraw false].
  Proof. vm_compute. repeat split; reflexivity. Qed.

  Example run_not_ready :
    let r := retry_run c1 false 5 (fails_then_ok 3)
                       (fun k => (0, if Nat.eqb k 2 then Some (9, true) else None)) (fun _ => true) 0 in
    reason r = WNotReady /\ length (calls r) = 2%nat /\ result r = inr (9, true).
  Proof. vm_compute. repeat split; reflexivity. Qed.

  (* the fuel and budget run_script uses satisfy the hypothesis of the progress theorem *)
  Example script_fuel_enough : (4 * COOP + 3 < poll_fuel)%nat.
  Proof. exact poll_fuel_enough. Qed.

  (* two requests on one bucket holding one token: request 0 gets it, request 1 is denied,
     and the prompt schedule of request 0 reproduces the instants of [retry_run] *)
  Definition inp (i : nat) : rin Z Zerr :=
    {| r_max := 3;
       r_inner := fun k => (true, if (k <? 1)%nat then Fail (Z.of_nat (10 * i + k), true) else Ok 42);
       r_ready := fun _ => ROk |}.
  Definition evs : list ev :=
    [Poll 0; Poll 1; Advance (3 * MS); Complete 0; Poll 0; Complete 1; Poll 1;
     Advance (5 * MS); Poll 0; Advance (3 * MS); Complete 0; Poll 0].
  Definition sfin := fold_left (step_st c1 inp poll_fuel COOP) evs (init (Some (tb_new 2 1))).

  Example shared :
    started_calls (reqs sfin 0) = [(0, 3 * MS); (8 * MS, 11 * MS)] /\
    res (reqs sfin 0) = Some (inl 42, WOk) /\
    res (reqs sfin 1) = Some (inr (10, true), WDenied) /\
    oplog sfin = [(0%nat, BDeposit); (1%nat, BWithdraw false); (0%nat, BWithdraw true)] /\
    option_map tb_balance (bud sfin) = Some 1.
  Proof. vm_compute. repeat split; reflexivity. Qed.

  (* the refinement theorem applies to both requests (they have returned), and its witness
     streams reproduce the log *)
  Example shared_refines :
    let l := log (reqs sfin 0) in
    calls (retry_run c1 true 3 (w_inner (inp 0) l) (w_ready c1 (inp 0) l) (w_grant l WOk) (w_t0 l)) = rev l /\
    ops_of 0 (oplog sfin) = [BWithdraw true; BDeposit] /\ ops_of 1 (oplog sfin) = [BWithdraw false].
  Proof. vm_compute. repeat split; reflexivity. Qed.

  (* the cooperative budget is reachable: 200 immediate failures with zero backoff; the first
     poll makes 129 inner calls, then finds the budget exhausted at the 129th sleep and wakes
     itself; the second poll finishes the remaining 71 attempts *)
  Definition c0 : cfg Zerr := {| pred := None; backoff := fun _ => 0 |}.
  Definition inp_fail (i : nat) : rin Z Zerr :=
    {| r_max := 200; r_inner := fun k => (false, Fail (Z.of_nat k, true)); r_ready := fun _ => ROk |}.
  Definition s1 := step c0 inp_fail poll_fuel COOP (init None) (Poll 0).
  Definition s2 := step c0 inp_fail poll_fuel COOP (fst s1) (Poll 0).

  Example coop_exhausted :
    o_res (snd s1) = Pending /\ o_self (snd s1) = true /\ woken (fst s1) 0 = true /\
    length (log (reqs (fst s1) 0)) = 129%nat /\
    o_res (snd s2) = Ready (inr (199, true)) /\ length (log (reqs (fst s2) 0)) = 200%nat.
  Proof. vm_compute. repeat split; reflexivity. Qed.
End Examples.
